// C11 harness: W3C baggage (baggage.Parse / New / String / SetMember /
// DeleteMember and the propagation.Baggage propagator) vs the Coq model.
package main

import (
	"context"
	"fmt"
	"net/http"
	"os"
	"sort"
	"strings"

	"go.opentelemetry.io/otel/baggage"
	"go.opentelemetry.io/otel/propagation"

	"verif/harness/vgen"
)

var prop = propagation.Baggage{}

// ---- canonical forms -------------------------------------------------------

type cProp struct {
	K      string
	V      string
	HasVal bool
}
type cMember struct {
	K, V  string
	Props []cProp
}

func canonMember(m baggage.Member) cMember {
	c := cMember{K: m.Key(), V: m.Value()}
	for _, p := range m.Properties() {
		v, ok := p.Value()
		c.Props = append(c.Props, cProp{K: p.Key(), V: v, HasVal: ok})
	}
	return c
}

// accessorProblem is set when Baggage.Member / Len disagree with Members() (reported by main as a direct violation).
var accessorProblem string

// canon: members sorted by key (the order of a Go map is not an observable).
// Every call also reads the baggage through its other accessors (Len, Member(key)).
func canon(b baggage.Baggage) []cMember {
	ms := b.Members()
	out := make([]cMember, 0, len(ms))
	if b.Len() != len(ms) {
		accessorProblem = fmt.Sprintf("Len() = %d but Members() has %d entries", b.Len(), len(ms))
	}
	if z := b.Member("\x00 no such key"); z.Key() != "" || z.Value() != "" || len(z.Properties()) != 0 {
		accessorProblem = "Member(absent key) is not the zero Member"
	}
	for _, m := range ms {
		if got := canonMember(b.Member(m.Key())); fmt.Sprintf("%q", got) != fmt.Sprintf("%q", canonMember(m)) {
			accessorProblem = fmt.Sprintf("Member(%q) = %q but Members() holds %q", m.Key(), got, canonMember(m))
		}
		out = append(out, canonMember(m))
	}
	sort.Slice(out, func(i, j int) bool { return out[i].K < out[j].K })
	return out
}

func propCoq(p cProp) string {
	if p.HasVal {
		return vgen.Pair(vgen.HxS(p.K), vgen.Some(vgen.HxS(p.V)))
	}
	return vgen.Pair(vgen.HxS(p.K), vgen.None)
}

func memberCoq(m cMember) string {
	ps := make([]string, 0, len(m.Props))
	for _, p := range m.Props {
		ps = append(ps, propCoq(p))
	}
	return "(" + vgen.HxS(m.K) + ", " + vgen.HxS(m.V) + ", " + vgen.List(ps) + ")"
}

func membersCoq(ms []cMember) string {
	items := make([]string, 0, len(ms))
	for _, m := range ms {
		items = append(items, memberCoq(m))
	}
	return vgen.List(items)
}

// shared renders App(ctor, args...) with equal large member-list arguments bound once by a let
// (the literal is parsed and type-checked once).
func shared(ctor string, args []string) string {
	best := ""
	for i, a := range args {
		if len(a) < 400 || !strings.HasPrefix(a, "[(") {
			continue
		}
		for j := i + 1; j < len(args); j++ {
			if args[j] == a || args[j] == vgen.Some(a) {
				if len(a) > len(best) {
					best = a
				}
			}
		}
	}
	if best == "" {
		return vgen.App(ctor, args...)
	}
	out := make([]string, len(args))
	for i, a := range args {
		switch a {
		case best:
			out[i] = "m_"
		case vgen.Some(best):
			out[i] = "(Some m_)"
		default:
			out[i] = a
		}
	}
	return "(let m_ : list (bytes * bytes * list (bytes * option bytes)) := " + best + " in " + vgen.App(ctor, out...) + ")"
}

func optMembersCoq(ms []cMember, ok bool) string {
	if !ok {
		return vgen.None
	}
	return vgen.Some(membersCoq(ms))
}

// piecesOf: String() split at ',' and sorted ("" -> no pieces).
func piecesOf(s string) []string {
	if s == "" {
		return nil
	}
	ps := strings.Split(s, ",")
	sort.Strings(ps)
	return ps
}

func piecesCoq(ps []string) string {
	items := make([]string, 0, len(ps))
	for _, p := range ps {
		items = append(items, vgen.HxS(p))
	}
	return vgen.List(items)
}

// ---- generators ------------------------------------------------------------

const tokenChars = "!#$%&'*+-.^_`|~0123456789ABCDEFGHIJKLMNOPQRSTUVWXYZabcdefghijklmnopqrstuvwxyz"
const alnum = "abcdefghijklmnopqrstuvwxyz0123456789"

var keyPool = []string{"a", "b", "c", "k1", "k2", "user", "x-y", "A", "~", "a%b"}

func genToken(r *vgen.Rand, n int) string {
	var sb strings.Builder
	for i := 0; i < n; i++ {
		if r.Chance(1, 5) {
			sb.WriteByte(tokenChars[r.Intn(len(tokenChars))])
		} else {
			sb.WriteByte(alnum[r.Intn(len(alnum))])
		}
	}
	return sb.String()
}

func genKey(r *vgen.Rand) string {
	switch r.Intn(14) {
	case 0:
		return vgen.Pick(r, []string{"", "é", "a b", "a=b", "a,b", "a;b", "k\xff", "\"q\"", "a\\b", "(k)", "a/b", "ключ", "a\x00", "a\x7f", "😀", "[k]", "a:b", "a@b", "{k}", "a?b", "a<b>"})
	case 1, 2, 3, 4, 5:
		return vgen.Pick(r, keyPool)
	default:
		return genToken(r, r.Intn(6)+1)
	}
}

// atoms a value is assembled from: every delimiter, '%', blanks, quotes,
// controls, 2/3/4-byte and non-BMP characters, valid U+FFFD, unicode blanks.
var valueAtoms = []string{
	",", ";", "=", "%", " ", "\t", "\"", "\\", "\x00", "\x7f", "\n", "+", "/", ":", "<", ">", "[", "]", "{", "}", "~", "!",
	"é", "ß", "€", "中", "\u2028", "\u00a0", "\u0085", "\u3000", "\ufffd", "😀", "\U0010ffff", "\U00010000", "\u07ff", "\u0800", "\ud7ff", "\ue000",
	"%41", "%zz", "%", "%2", "a", "b", "Z", "0", "9", "-", "_", ".",
	"dGVzdA==", "a=b", "x;y", "1,2", "a+b", "50%", "a b", "==", "k=v;p=q,r=s",
}

func genValue(r *vgen.Rand) string {
	n := r.Intn(7)
	if r.Chance(1, 8) {
		n = 0
	}
	var sb strings.Builder
	for i := 0; i < n; i++ {
		if r.Chance(1, 2) {
			sb.WriteString(vgen.Pick(r, valueAtoms))
		} else {
			sb.WriteByte(alnum[r.Intn(len(alnum))])
		}
	}
	if r.Chance(1, 25) { // invalid UTF-8 (rejected by the raw constructors)
		sb.WriteString(vgen.Pick(r, []string{"\xff", "\xc3", "\xe2\x82", "\xf0\x9f\x98", "\xc0\xaf", "\xed\xa0\x80", "\xf4\x90\x80\x80", "\x80", "\xe0\x80\x80", "\xf8\x88\x80\x80\x80"}))
		if r.Bool() {
			sb.WriteString("z")
		}
	}
	return sb.String()
}

func genProps(r *vgen.Rand) []cProp {
	n := 0
	if r.Chance(1, 2) {
		n = r.Intn(3) + 1
	}
	var ps []cProp
	for i := 0; i < n; i++ {
		p := cProp{K: genKey(r)}
		if r.Chance(2, 3) {
			p.HasVal = true
			p.V = genValue(r)
		}
		ps = append(ps, p)
	}
	return ps
}

func genMember(r *vgen.Rand) cMember {
	return cMember{K: genKey(r), V: genValue(r), Props: genProps(r)}
}

// mkProps builds the API properties; ok=false if a constructor rejected one.
func mkProps(ps []cProp) ([]baggage.Property, bool) {
	var out []baggage.Property
	for _, p := range ps {
		var bp baggage.Property
		var err error
		if p.HasVal {
			bp, err = baggage.NewKeyValuePropertyRaw(p.K, p.V)
		} else {
			bp, err = baggage.NewKeyProperty(p.K)
		}
		if err != nil {
			return nil, false
		}
		out = append(out, bp)
	}
	return out, true
}

// mkMember: NewMemberRaw; the props slice handed in is scribbled over afterwards
// (the member must hold its own copy).
func mkMember(m cMember) (baggage.Member, bool) {
	props, ok := mkProps(m.Props)
	if !ok {
		return baggage.Member{}, false
	}
	bm, err := baggage.NewMemberRaw(m.K, m.V, props...)
	junk, _ := baggage.NewKeyProperty("scribbled")
	for i := range props {
		props[i] = junk
	}
	if err != nil {
		return baggage.Member{}, false
	}
	return bm, true
}

// escape as valueEscape does, for building headers independently of the implementation.
func pct(s string, all bool, lower bool) string {
	var sb strings.Builder
	for i := 0; i < len(s); i++ {
		c := s[i]
		safe := c == 0x21 || (c >= 0x23 && c <= 0x2b) || (c >= 0x2d && c <= 0x3a) || (c >= 0x3c && c <= 0x5b) || (c >= 0x5d && c <= 0x7e)
		if c == '%' || !safe || all {
			if lower {
				fmt.Fprintf(&sb, "%%%02x", c)
			} else {
				fmt.Fprintf(&sb, "%%%02X", c)
			}
		} else {
			sb.WriteByte(c)
		}
	}
	return sb.String()
}

var blanks = []string{"", "", "", " ", "\t", "  ", " \t ", "\u00a0", "\u3000", "\u0085", "\u2003", "\u1680", "\n", "\r", "\v", "\f", "\u2028", "\u205f", "\u202f"}
var propBlanks = []string{"", "", "", " ", "\t", "  ", " \t "}

// genHeader: a grammar-based header with optional white space, escapes in
// either case, raw bytes, duplicate keys, empty properties and pieces.
func genHeader(r *vgen.Rand) string {
	n := r.Intn(5) + 1
	var ms []string
	for i := 0; i < n; i++ {
		var sb strings.Builder
		k := vgen.Pick(r, keyPool)
		if r.Chance(1, 3) {
			k = genToken(r, r.Intn(5)+1)
		}
		if r.Chance(1, 25) {
			k = genKey(r)
		}
		sb.WriteString(vgen.Pick(r, blanks) + k + vgen.Pick(r, blanks) + "=" + vgen.Pick(r, blanks))
		v := genValue(r)
		switch r.Intn(8) {
		case 0:
			sb.WriteString(pct(v, true, r.Bool()))
		case 1:
			sb.WriteString(v) // raw, probably invalid
		case 2:
			sb.WriteString(pct(v, false, false) + vgen.Pick(r, []string{"%FF", "%ff%FE", "%C3", "%E2%82", "%F0%9F%98", "%80", "%ED%A0%80", "%C3%A9%FF", "%EF%BF%BD"}))
		default:
			sb.WriteString(pct(v, false, r.Chance(1, 4)))
		}
		sb.WriteString(vgen.Pick(r, blanks))
		np := 0
		if r.Chance(1, 2) {
			np = r.Intn(3) + 1
		}
		for j := 0; j < np; j++ {
			sb.WriteString(";")
			switch r.Intn(10) {
			case 0:
				// empty property piece
			case 1:
				sb.WriteString(vgen.Pick(r, blanks) + genToken(r, r.Intn(3)+1) + vgen.Pick(r, blanks))
			default:
				pk := genToken(r, r.Intn(3)+1)
				sb.WriteString(vgen.Pick(r, propBlanks) + pk + vgen.Pick(r, propBlanks))
				if r.Chance(2, 3) {
					pv := genValue(r)
					enc := pct(pv, false, r.Chance(1, 4))
					if r.Chance(1, 10) {
						enc += vgen.Pick(r, []string{"%FF", "%zz", "%", " x", ",", "\"", "é"})
					}
					sb.WriteString("=" + vgen.Pick(r, propBlanks) + enc + vgen.Pick(r, propBlanks))
				}
			}
		}
		if r.Chance(1, 30) {
			sb.WriteString(";")
		}
		ms = append(ms, sb.String())
	}
	h := strings.Join(ms, ",")
	switch r.Intn(40) {
	case 0:
		h += ","
	case 1:
		h = "," + h
	case 2:
		h = strings.Replace(h, ",", ",,", 1)
	case 3:
		h = strings.Replace(h, "=", "", 1)
	}
	return h
}

func mutate(r *vgen.Rand, s string) string {
	b := []byte(s)
	n := r.Intn(3) + 1
	for i := 0; i < n; i++ {
		switch r.Intn(4) {
		case 0:
			if len(b) > 0 {
				b[r.Intn(len(b))] = byte(r.Intn(256))
			}
		case 1:
			if len(b) > 0 {
				j := r.Intn(len(b))
				b = append(b[:j], b[j+1:]...)
			}
		case 2:
			j := r.Intn(len(b) + 1)
			b = append(b[:j], append([]byte{vgen.Pick(r, []byte(",;=% \t\"\\%%%\xc2\xa0\xe2\x80\xff"))}, b[j:]...)...)
		case 3:
			if len(b) > 0 {
				b[r.Intn(len(b))] = vgen.Pick(r, []byte(",;=% \t\"\\az09"))
			}
		}
	}
	return string(b)
}

// fill: s padded with n bytes of 'x'-like value characters.
func fill(n int) string {
	if n < 0 {
		n = 0
	}
	return strings.Repeat("x", n)
}

// ---- the observations --------------------------------------------------------

func q(s string) string { return fmt.Sprintf("%q", s) }

func main() {
	o := vgen.ParseFlags()
	r := vgen.NewRand(o.Seed)
	w := vgen.NewWriter(o.Out, "C11.Model C11.Spec C11.Corr", "case", 280)
	w.Rule = "grammar-based, mutated and random baggage headers (optional and Unicode white space, escapes in both cases, invalid UTF-8, duplicate keys, empty pieces, limits 180/4096/8192 +-1); " +
		"member sets over an alphabet with every delimiter, '%', blanks, quotes, controls, 2/3/4-byte and non-BMP characters through NewMemberRaw/New/String/Parse/Inject/Extract; SetMember/DeleteMember scripts with re-reads of every earlier version; " +
		"a case is non-trivial when the implementation accepted the header / built a non-empty baggage / applied at least one edit, or rejected a mutated input; distinct = distinct Coq case terms"

	guard := func(desc map[string]any, f func()) {
		defer func() {
			if e := recover(); e != nil {
				w.Violation(fmt.Sprintf("panic: %v", e), desc)
			}
			if accessorProblem != "" {
				w.Violation("accessors disagree: "+accessorProblem, desc)
				accessorProblem = ""
			}
		}()
		f()
	}
	// the same operation through every public entry point: the propagator alone or inside a composite,
	// a map carrier or an http.Header carrier
	composite := propagation.NewCompositeTextMapPropagator(propagation.TraceContext{}, propagation.Baggage{})
	pickProp := func() propagation.TextMapPropagator {
		if r.Bool() {
			return composite
		}
		return prop
	}
	newCarrier := func(hdr *string) propagation.TextMapCarrier {
		if r.Bool() {
			h := http.Header{}
			if hdr != nil {
				h.Set("baggage", *hdr)
			}
			return propagation.HeaderCarrier(h)
		}
		c := propagation.MapCarrier{}
		if hdr != nil {
			c["baggage"] = *hdr
		}
		return c
	}
	if f := prop.Fields(); len(f) != 1 || f[0] != "baggage" {
		w.Violation(fmt.Sprintf("Baggage.Fields() = %q", f), map[string]any{"op": "fields"})
	}

	addParse := func(s, kind string) {
		desc := map[string]any{"op": "parse", "header": q(s)}
		guard(desc, func() {
			b, err := baggage.Parse(s)
			ok := err == nil
			desc["ok"] = ok
			var ms []cMember
			var pieces []string
			var re []cMember
			reOK := false
			var per []string
			ext := 0
			if ok {
				ms = canon(b)
				str := b.String()
				pieces = piecesOf(str)
				b2, err2 := baggage.Parse(str)
				reOK = err2 == nil
				if reOK {
					re = canon(b2)
				}
				desc["string_len"] = len(str)
				desc["reparse_ok"] = reOK
			}
			if s != "" {
				ps := strings.Split(s, ",")
				if len(s) > 1500 && len(ps) <= 3 {
					ps = nil // large input with few list-members: the per-piece observation is skipped
				}
				for _, p := range ps {
					pb, perr := baggage.Parse(p)
					if perr == nil && pb.Len() == 1 {
						per = append(per, vgen.Some(memberCoq(canon(pb)[0])))
					} else {
						per = append(per, vgen.None)
					}
				}
			}
			// the propagator
			parent := context.Background()
			var hp *string
			if s != "" {
				hp = &s
			}
			ctx := pickProp().Extract(parent, newCarrier(hp))
			if ctx != parent {
				ext = 2
				if ok && fmt.Sprint(canon(baggage.FromContext(ctx))) == fmt.Sprint(ms) {
					ext = 1
				}
			}
			term := shared("CParse", []string{vgen.HxS(s), optMembersCoq(ms, ok), piecesCoq(pieces),
				optMembersCoq(re, reOK), vgen.List(per), vgen.N(uint64(ext))})
			if ok {
				w.Tally(fmt.Sprintf("parse:ok:members<=%d", bucket(len(ms))))
				if !reOK {
					w.Tally("parse:ok:reparse-fails")
				}
			} else {
				w.Tally("parse:error")
			}
			w.Add(term, desc, kind, ok || kind == "parse-mutated")
		})
	}

	addRound := func(ms []cMember, kind string) {
		desc := map[string]any{"op": "new", "members": fmt.Sprintf("%q", ms)}
		if len(ms) > 12 {
			desc["members"] = fmt.Sprintf("%d members, first %q", len(ms), ms[0])
		}
		guard(desc, func() {
			var acc []string
			var good []baggage.Member
			for _, m := range ms {
				bm, ok := mkMember(m)
				acc = append(acc, vgen.Bool(ok))
				if ok {
					good = append(good, bm)
				}
			}
			b, err := baggage.New(good...)
			ok := err == nil
			desc["new_ok"] = ok
			var nb, re, ext []cMember
			var pieces []string
			reOK, extOK := false, false
			if ok {
				nb = canon(b)
				str := b.String()
				desc["string_len"] = len(str)
				pieces = piecesOf(str)
				b2, err2 := baggage.Parse(str)
				reOK = err2 == nil
				if reOK {
					re = canon(b2)
				}
				desc["reparse_ok"] = reOK
				parent := context.Background()
				carrier := newCarrier(nil)
				pickProp().Inject(baggage.ContextWithBaggage(parent, b), carrier)
				ctx := pickProp().Extract(parent, carrier)
				if ctx != parent {
					extOK = true
					ext = canon(baggage.FromContext(ctx))
				}
			}
			term := shared("CRound", []string{membersCoq(ms), vgen.List(acc), optMembersCoq(nb, ok), piecesCoq(pieces),
				optMembersCoq(re, reOK), optMembersCoq(ext, extOK)})
			w.Tally(fmt.Sprintf("new:ok=%v:members<=%d", ok, bucket(len(nb))))
			w.Add(term, desc, kind, ok && len(nb) > 0)
		})
	}

	// ---- corpus (run first, every run) ----
	addRound([]cMember{{K: "k", V: strings.Repeat("a", 5000)}}, "round-corpus")                    // F-C11-1
	addParse("k="+strings.Repeat("%FF", 1000), "parse-corpus")                                     // F-C11-2
	addParse("k="+strings.Repeat("%FF", 454), "parse-corpus")                                      // 4088-byte member after re-serialising: fine
	addParse("k="+strings.Repeat("%FF", 455), "parse-corpus")                                      // 4097
	addParse(" foo =\u3000bar\u0085 ; \tp = q ;;r", "parse-corpus")                                  // Unicode trimming, empty property
	addParse("a=1;", "parse-corpus")
	addParse("a=1,", "parse-corpus")
	addParse("a=1;p=%zz", "parse-corpus")
	addParse("a=%41%c3%a9%ff%f0%90%80", "parse-corpus")
	addParse("a=1; \u00a0p", "parse-corpus")
	addParse("", "parse-corpus")
	addParse("a=1,b=2,a=3;x,b=4", "parse-corpus")
	addParse("a=b=c==", "parse-corpus")
	addParse("a= b c ", "parse-corpus")
	addParse("a=%EF%BF%BD", "parse-corpus")
	for _, h := range []string{"a=1; ", "a=1;\t", "a=1;p =", "a=1;p= ", "a=1;p=v x", "a=1;p x", "a=1;=v", "a=1;p==", "a=1;\xc3\xa9", "a=1;p=\xc3\xa9",
		"a=1;p;q;p", "a=1 ;p", "=1", " =1", "a", "a;p", ";a=1", "a=1;p=%41%zz", "a=1;p=%4", "a=\"q\"", "a=\\", "a=b c", "\xc2\xa0=1", "a=\xc2\xa0"} {
		addParse(h, "parse-corpus")
	}
	// valueEscape switches from its 64-byte stack buffer to the heap at required = len + 2*escapes > 64
	for _, n := range []int{3, 4, 5} {
		addRound([]cMember{{K: "k", V: strings.Repeat("\"", 20) + fill(n)}}, "round-corpus")
		addRound([]cMember{{K: "k", V: "v", Props: []cProp{{K: "p", V: strings.Repeat(" ", 21) + fill(n-3), HasVal: true}}}}, "round-corpus")
	}
	addRound(nil, "round-corpus")
	addRound([]cMember{{K: "é", V: "v"}, {K: "a", V: "w", Props: []cProp{{K: "ключ", V: "x", HasVal: true}}}}, "round-corpus")

	// ---- limits ----
	for _, n := range []int{179, 180, 181} {
		var ms []cMember
		var hs []string
		for i := 0; i < n; i++ {
			ms = append(ms, cMember{K: fmt.Sprintf("k%d", i), V: fmt.Sprint(i % 7)})
			hs = append(hs, fmt.Sprintf("k%d=%d", i, i%7))
		}
		addRound(ms, "round-limit-members")
		addParse(strings.Join(hs, ","), "parse-limit-members")
		// 181 list-members but 180 keys: fine after deduplication
		hs2 := append(append([]string{}, hs...), "k0=dup")
		addParse(strings.Join(hs2, ","), "parse-limit-members")
		ms2 := append(append([]cMember{}, ms...), cMember{K: "k0", V: "dup"})
		addRound(ms2, "round-limit-members")
	}
	for _, n := range []int{4095, 4096, 4097} { // one list-member of n bytes
		addParse("k="+fill(n-2), "parse-limit-member")
		addParse("a=1,k="+fill(n-2)+",b=2", "parse-limit-member")
		addParse("k=v;p="+fill(n-6), "parse-limit-member")
		addParse(" k="+fill(n-3), "parse-limit-member") // blanks count
		addRound([]cMember{{K: "k", V: fill(n - 2)}}, "round-limit-member")
		addRound([]cMember{{K: "k", V: "v", Props: []cProp{{K: "p", V: fill(n - 6), HasVal: true}}}}, "round-limit-member")
	}
	for _, n := range []int{8191, 8192, 8193} { // total of n bytes: three members
		a := "a=" + fill(4000)
		b := "b=" + fill(4000)
		c := "c=" + fill(n-len(a)-len(b)-2-2)
		addParse(a+","+b+","+c, "parse-limit-total")
		addRound([]cMember{{K: "a", V: fill(4000)}, {K: "b", V: fill(4000)}, {K: "c", V: fill(n - 4002 - 4002 - 2 - 2)}}, "round-limit-total")
		// escapes count: every '"' is three bytes
		addRound([]cMember{{K: "a", V: fill(4000)}, {K: "b", V: strings.Repeat("\"", 1000) + fill(n-4002-2-2-3000-2)}, {K: "c", V: ""}}, "round-limit-total")
	}
	// the size limits reached through PROPERTIES: small keys and values, long property lists
	propsFor := func(target int, base string) []cProp { // properties so that base + ";p.." has exactly target bytes
		var ps []cProp
		rest := target - len(base)
		for i := 0; rest > 0; i++ {
			name := fmt.Sprintf("p%02d", i)
			n := 100
			if rest < 2*(len(name)+2+100) { // last one takes the remainder
				n = rest - len(name) - 2
				if n < 0 {
					n = 0
				}
			}
			ps = append(ps, cProp{K: name, V: fill(n), HasVal: true})
			rest -= 1 + len(name) + 1 + n
		}
		return ps
	}
	hdrOf := func(ms []cMember) string { // the header, built here (values without characters to escape)
		var hs []string
		for _, m := range ms {
			h := m.K + "=" + m.V
			for _, p := range m.Props {
				h += ";" + p.K
				if p.HasVal {
					h += "=" + p.V
				}
			}
			hs = append(hs, h)
		}
		return strings.Join(hs, ",")
	}
	for _, n := range []int{4095, 4096, 4097} { // one member of n bytes, nearly all of it properties
		ms := []cMember{{K: "k", V: "v", Props: propsFor(n, "k=v")}}
		addRound(ms, "round-limit-props")
		addParse(hdrOf(ms), "parse-limit-props")
		addParse("a=1,"+hdrOf(ms)+",b=2", "parse-limit-props")
	}
	for _, n := range []int{8191, 8192, 8193, 9554} { // three members, each below 4096, n bytes in total
		a := cMember{K: "a", V: "1", Props: propsFor(3185, "a=1")}
		b := cMember{K: "b", V: "2", Props: propsFor(3185, "b=2")}
		c := cMember{K: "c", V: "3", Props: propsFor(n-3185-3185-2, "c=3")}
		ms := []cMember{a, b, c}
		addRound(ms, "round-limit-props")
		addParse(hdrOf(ms), "parse-limit-props")
	}
	for _, n := range []int{179, 180, 181} { // one property each
		var ms []cMember
		for i := 0; i < n; i++ {
			ms = append(ms, cMember{K: fmt.Sprintf("k%d", i), V: "v", Props: []cProp{{K: "p", V: fmt.Sprint(i % 9), HasVal: i%3 != 0}}})
		}
		addRound(ms, "round-limit-props")
		addParse(hdrOf(ms), "parse-limit-props")
	}
	// property values with '=', ';', ',', '+', '%', blanks
	addRound([]cMember{{K: "tok", V: "dGVzdA==", Props: []cProp{{K: "b64", V: "dGVzdA==", HasVal: true}, {K: "kv", V: "a=b", HasVal: true},
		{K: "semi", V: "x;y", HasVal: true}, {K: "comma", V: "1,2", HasVal: true}, {K: "plus", V: "a+b c", HasVal: true}, {K: "pct", V: "50%25 %", HasVal: true},
		{K: "empty", V: "", HasVal: true}, {K: "flag"}}}}, "round-corpus")
	for _, h := range []string{"k=v;p=dGVzdA==", "k=dGVzdA==;p=a=b", "k=v;p=a=b;q==;r= = ", "k=v;p=a+b;q=%2B", "k=v;p=x%3By;q=1%2C2", "k=v;p=50%25;q=%20a%20b%20", "k=v;p=a b", "k=v;p=a;b=c,d=e"} {
		addParse(h, "parse-corpus")
	}

	// many more list-members than 180/181 over few distinct keys (duplicates: the last value wins; the member limit
	// counts distinct keys)
	dupHeader := func(members, keys int) string {
		var hs []string
		for i := 0; i < members; i++ {
			hs = append(hs, fmt.Sprintf("k%d=%d", i%keys, i))
		}
		return strings.Join(hs, ",")
	}
	for _, mk := range [][2]int{{182, 91}, {240, 120}, {400, 100}, {361, 180}, {300, 180}, {300, 181}, {362, 181}, {183, 180}, {1000, 7}} {
		addParse(dupHeader(mk[0], mk[1]), "parse-limit-dups")
	}
	addParse(dupHeader(200, 150)+",k3=last;p=1", "parse-limit-dups")

	// re-serialisation growth at the limits
	for _, k := range []int{300, 453, 454, 455, 456, 909, 910, 911} {
		addParse("k="+strings.Repeat("%FF", k), "parse-growth")
		addParse("a=1;p="+strings.Repeat("%C3", k), "parse-growth")
	}
	addParse("a="+strings.Repeat("%FF", 450)+",b="+strings.Repeat("%FE", 450)+",c=1", "parse-growth")
	addParse("a="+strings.Repeat("%FF", 454)+",b="+strings.Repeat("%FE", 454)+",c="+fill(5), "parse-growth")
	addParse("a="+strings.Repeat("%FF", 454)+",b="+strings.Repeat("%FE", 454)+",c="+fill(6), "parse-growth")

	// ---- generated headers ----
	nParse := o.Count(800, 25000)
	for i := 0; i < nParse; i++ {
		h := genHeader(r)
		kind := "parse-grammar"
		if r.Chance(1, 4) {
			h = mutate(r, h)
			kind = "parse-mutated"
		}
		if r.Chance(1, 50) {
			b := make([]byte, r.Intn(40))
			for j := range b {
				b[j] = byte(r.Intn(256))
			}
			h = string(b)
			kind = "parse-random"
		}
		addParse(h, kind)
	}

	// ---- member sets through the constructors ----
	nRound := o.Count(450, 15000)
	for i := 0; i < nRound; i++ {
		n := r.Intn(5) + 1
		if r.Chance(1, 40) {
			n = 0
		}
		var ms []cMember
		for j := 0; j < n; j++ {
			ms = append(ms, genMember(r))
		}
		addRound(ms, "round")
	}

	// ---- edit scripts ----
	nEdit := o.Count(200, 6000)
	for i := 0; i < nEdit; i++ {
		var hs []string
		perm := append([]string(nil), keyPool...)
		for j, n := 0, r.Intn(5); j < n; j++ {
			k := r.Intn(len(perm))
			h := perm[k] + "=" + pct(genValue(r), false, false)
			if r.Chance(1, 3) {
				h += ";p=" + pct(genValue(r), false, false)
			}
			hs = append(hs, h)
			perm = append(perm[:k], perm[k+1:]...)
		}
		start := strings.Join(hs, ",")
		desc := map[string]any{"op": "edit", "start": q(start)}
		guard(desc, func() {
			b, err := baggage.Parse(start)
			if err != nil {
				return
			}
			b0 := canon(b)
			bg := context.Background()
			ctxs := []context.Context{baggage.ContextWithBaggage(bg, b)}
			nops := r.Intn(o.Count(12, 12)) + 1
			var ops, obs, opsDesc []string
			applied := 0
			for j := 0; j < nops; j++ {
				recv := b
				var nb baggage.Baggage
				var berr error
				if r.Chance(2, 3) {
					m := genMember(r)
					if r.Chance(1, 2) {
						m.K = vgen.Pick(r, keyPool)
					}
					bm, _ := mkMember(m) // zero Member when rejected
					nb, berr = b.SetMember(bm)
					ps := make([]string, 0, len(m.Props))
					for _, p := range m.Props {
						ps = append(ps, propCoq(p))
					}
					ops = append(ops, vgen.App("OSet", vgen.HxS(m.K), vgen.HxS(m.V), vgen.List(ps)))
					opsDesc = append(opsDesc, fmt.Sprintf("set %q err=%v", m, berr != nil))
				} else {
					k := vgen.Pick(r, keyPool)
					if r.Chance(1, 8) {
						k = genKey(r)
					}
					nb = b.DeleteMember(k)
					ops = append(ops, vgen.App("ODel", vgen.HxS(k)))
					opsDesc = append(opsDesc, fmt.Sprintf("delete %q", k))
				}
				if berr == nil {
					applied++
				}
				obs = append(obs, "("+vgen.Bool(berr != nil)+", "+membersCoq(canon(nb))+", "+membersCoq(canon(recv))+")")
				b = nb
				ctxs = append(ctxs, baggage.ContextWithBaggage(bg, b))
			}
			var reread []string
			for _, c := range ctxs {
				before := fmt.Sprint(canon(baggage.FromContext(c)))
				if without := baggage.ContextWithoutBaggage(c); baggage.FromContext(without).Len() != 0 {
					w.Violation("ContextWithoutBaggage: the returned context still carries baggage", desc)
				} else if fmt.Sprint(canon(baggage.FromContext(c))) != before {
					w.Violation("ContextWithoutBaggage altered the baggage of its parent context", desc)
				}
				reread = append(reread, membersCoq(canon(baggage.FromContext(c))))
			}
			desc["ops"] = opsDesc
			w.Tally(fmt.Sprintf("edit:ops<=%d", bucket(nops)))
			w.Add(vgen.App("CEdit", vgen.HxS(start), membersCoq(b0), vgen.List(ops), vgen.List(obs), vgen.List(reread)), desc, "edit", applied > 0)
		})
	}

	// ---- Extract into a context that already carries baggage ----
	mkParent := func(n int, prefix string) baggage.Baggage {
		var ms []baggage.Member
		for i := 0; i < n; i++ {
			m, _ := baggage.NewMemberRaw(fmt.Sprintf("%s%d", prefix, i), fmt.Sprintf("p%d", i%5))
			ms = append(ms, m)
		}
		b, err := baggage.New(ms...)
		if err != nil {
			panic(err)
		}
		return b
	}
	addExtractInto := func(pb baggage.Baggage, hdr *string, kind string) {
		desc := map[string]any{"op": "extract-into", "parent_members": pb.Len()}
		if hdr != nil {
			desc["header"] = q(*hdr)
			if len(*hdr) > 200 {
				desc["header"] = q((*hdr)[:200]) + fmt.Sprintf("... (%d bytes)", len(*hdr))
			}
		}
		guard(desc, func() {
			parent := baggage.ContextWithBaggage(context.Background(), pb)
			carrier := propagation.MapCarrier{}
			hdrCoq, po, poOK := vgen.None, []cMember(nil), false
			if hdr != nil {
				carrier["baggage"] = *hdr
				hdrCoq = vgen.Some(vgen.HxS(*hdr))
				if b, err := baggage.Parse(*hdr); err == nil {
					po, poOK = canon(b), true
				}
			}
			ctx := prop.Extract(parent, carrier)
			res := canon(baggage.FromContext(ctx))
			desc["result_members"] = len(res)
			if got := canon(baggage.FromContext(parent)); fmt.Sprint(got) != fmt.Sprint(canon(pb)) {
				w.Violation("Extract altered the baggage of the parent context", desc)
			}
			w.Tally(fmt.Sprintf("extract-into:parent<=%d:parsed=%v", bucket(pb.Len()), poOK))
			w.Add(shared("CExtractInto", []string{membersCoq(canon(pb)), hdrCoq, optMembersCoq(po, poOK), membersCoq(res), vgen.Bool(ctx == parent)}),
				desc, kind, poOK)
		})
	}
	{
		many := func(n int, prefix string) string {
			var hs []string
			for i := 0; i < n; i++ {
				hs = append(hs, fmt.Sprintf("%s%d=h%d", prefix, i, i%3))
			}
			return strings.Join(hs, ",")
		}
		headers := []*string{nil}
		for _, h := range []string{"", "k0=new", "zz=new", "k0=new;p=1,zz=2,k178=3", "bad header", "k0=1,", "k0=%zz", many(180, "k"), many(180, "h"), many(181, "h"), many(2, "h")} {
			h := h
			headers = append(headers, &h)
		}
		for _, n := range []int{0, 1, 179, 180} {
			pb := mkParent(n, "k")
			for _, h := range headers {
				if n < 179 && h != nil && len(*h) > 1000 && !strings.HasPrefix(*h, "k") {
					continue // the large non-overlapping headers matter for the 180-member limit only
				}
				addExtractInto(pb, h, "extract-into-corpus")
			}
		}
		nExt := o.Count(70, 3000)
		for i := 0; i < nExt; i++ {
			pb := mkParent(vgen.Pick(r, []int{0, 1, 2, 3, 5, 179, 180}), vgen.Pick(r, []string{"k", "a", "user"}))
			h := genHeader(r)
			if r.Chance(1, 5) {
				h = mutate(r, h)
			}
			if r.Chance(1, 3) { // keys overlapping the parent's
				h = fmt.Sprintf("k%d=over,", r.Intn(4)) + h
			}
			addExtractInto(pb, &h, "extract-into")
		}
	}

	// ---- New with zero Members; NewMember with properties; Inject into a re-used carrier ----
	nZero := o.Count(60, 1500)
	for i := 0; i < nZero; i++ {
		var ms []cMember
		for j, n := 0, r.Intn(4)+1; j < n; j++ {
			m := genMember(r)
			if r.Chance(1, 3) {
				m.K = vgen.Pick(r, []string{"", "k\xff", "a"})
			}
			ms = append(ms, m)
		}
		desc := map[string]any{"op": "new-zero", "members": fmt.Sprintf("%q", ms)}
		guard(desc, func() {
			var acc []string
			var all []baggage.Member
			for _, m := range ms {
				bm, ok := mkMember(m) // the zero Member when rejected
				acc = append(acc, vgen.Bool(ok))
				all = append(all, bm)
			}
			_, err := baggage.New(all...)
			w.Tally(fmt.Sprintf("new-zero:ok=%v", err == nil))
			w.Add(vgen.App("CNewZero", membersCoq(ms), vgen.List(acc), vgen.Bool(err == nil)), desc, "new-zero", err != nil)
		})
	}
	nCP := o.Count(60, 1500)
	for i := 0; i < nCP; i++ {
		k := genKey(r)
		v := pct(genValue(r), r.Chance(1, 6), r.Chance(1, 4))
		if r.Chance(1, 6) {
			v += vgen.Pick(r, []string{"%FF", "%zz", "%", " ", "é"})
		}
		ps := genProps(r)
		props, ok := mkProps(ps)
		if !ok {
			continue
		}
		desc := map[string]any{"op": "ctor-props", "key": q(k), "value": q(v), "props": fmt.Sprintf("%q", ps)}
		guard(desc, func() {
			om := vgen.None
			m, err := baggage.NewMember(k, v, props...)
			junk, _ := baggage.NewKeyProperty("scribbled")
			for j := range props {
				props[j] = junk
			}
			if err == nil {
				om = vgen.Some(memberCoq(canonMember(m)))
			}
			var pc []string
			for _, p := range ps {
				pc = append(pc, propCoq(p))
			}
			w.Tally(fmt.Sprintf("ctor-props:ok=%v", err == nil))
			w.Add(vgen.App("CCtorProps", vgen.HxS(k), vgen.HxS(v), vgen.List(pc), om), desc, "ctor-props", err == nil)
		})
	}
	nInj := o.Count(80, 2000)
	for i := 0; i < nInj; i++ {
		h := genHeader(r)
		switch r.Intn(8) {
		case 0:
			h = ""
		case 1:
			h = "k=" + strings.Repeat("%FF", 460) // re-serialises beyond the member limit
		}
		b, err := baggage.Parse(h)
		if err != nil {
			continue
		}
		var old *string
		oldCoq := vgen.None
		if r.Chance(2, 3) {
			o := vgen.Pick(r, []string{"old=1", "a=stale,b=stale", "k=" + fill(30), "not a header"})
			old, oldCoq = &o, vgen.Some(vgen.HxS(o))
		}
		desc := map[string]any{"op": "inject-reuse", "baggage": q(h), "carrier_before": fmt.Sprint(old != nil)}
		guard(desc, func() {
			carrier := newCarrier(old)
			pickProp().Inject(baggage.ContextWithBaggage(context.Background(), b), carrier)
			after := vgen.None
			if v := carrier.Get("baggage"); v != "" {
				var ps []string
				for _, p := range strings.Split(v, ",") {
					ps = append(ps, vgen.HxS(p))
				}
				after = vgen.Some(vgen.List(ps))
			}
			parent := context.Background()
			ctx := pickProp().Extract(parent, carrier)
			var ext []cMember
			extOK := ctx != parent
			if extOK {
				ext = canon(baggage.FromContext(ctx))
			}
			w.Tally(fmt.Sprintf("inject-reuse:members<=%d", bucket(b.Len())))
			w.Add(vgen.App("CInject", vgen.HxS(h), membersCoq(canon(b)), oldCoq, after, optMembersCoq(ext, extOK)), desc, "inject-reuse", b.Len() > 0)
		})
	}
	// editing at the member limit: SetMember has no limit of its own
	{
		var hs []string
		for i := 0; i < 180; i++ {
			hs = append(hs, fmt.Sprintf("k%d=%d", i, i%7))
		}
		start := strings.Join(hs, ",")
		desc := map[string]any{"op": "edit", "start": "180 members"}
		guard(desc, func() {
			b, err := baggage.Parse(start)
			if err != nil {
				return
			}
			b0 := canon(b)
			var ops, obs, reread []string
			vers := []baggage.Baggage{b}
			step := func(nb baggage.Baggage, berr error, op string) {
				obs = append(obs, "("+vgen.Bool(berr != nil)+", "+membersCoq(canon(nb))+", "+membersCoq(canon(b))+")")
				ops = append(ops, op)
				b = nb
				vers = append(vers, b)
			}
			m1, _ := baggage.NewMemberRaw("extra", "181st")
			nb, e := b.SetMember(m1)
			step(nb, e, vgen.App("OSet", vgen.HxS("extra"), vgen.HxS("181st"), "[]"))
			step(b.DeleteMember("k0"), nil, vgen.App("ODel", vgen.HxS("k0")))
			m2, _ := baggage.NewMemberRaw("k5", "again")
			nb, e = b.SetMember(m2)
			step(nb, e, vgen.App("OSet", vgen.HxS("k5"), vgen.HxS("again"), "[]"))
			for _, v := range vers {
				reread = append(reread, membersCoq(canon(v)))
			}
			w.Tally("edit:at-limit")
			w.Add(vgen.App("CEdit", vgen.HxS(start), membersCoq(b0), vgen.List(ops), vgen.List(obs), vgen.List(reread)), desc, "edit-corpus", true)
		})
	}

	// ---- percent-encoded constructors ----
	nCtor := o.Count(150, 5000)
	for i := 0; i < nCtor; i++ {
		k := genKey(r)
		v := pct(genValue(r), r.Chance(1, 6), r.Chance(1, 4))
		switch r.Intn(6) {
		case 0:
			v = genValue(r)
		case 1:
			v += vgen.Pick(r, []string{"%FF", "%zz", "%", "%4", "%C3%A9", "%c3", " ", "\"", "é"})
		}
		desc := map[string]any{"op": "ctor", "key": q(k), "value": q(v)}
		guard(desc, func() {
			om, op := vgen.None, vgen.None
			m, err := baggage.NewMember(k, v)
			if err == nil {
				om = vgen.Some(vgen.HxS(m.Value()))
			}
			p, perr := baggage.NewKeyValueProperty(k, v)
			if perr == nil {
				pv, _ := p.Value()
				op = vgen.Some(vgen.HxS(pv))
			}
			w.Tally(fmt.Sprintf("ctor:ok=%v", err == nil))
			w.Add(vgen.App("CCtor", vgen.HxS(k), vgen.HxS(v), om, op), desc, "ctor", err == nil)
		})
	}

	if err := w.Flush(); err != nil {
		fmt.Fprintln(os.Stderr, err)
		os.Exit(2)
	}
}

func bucket(n int) int {
	for _, b := range []int{0, 1, 2, 4, 8, 64, 179, 180} {
		if n <= b {
			return b
		}
	}
	return 1000
}
