// C17 harness: sdk/log Record attribute count / value-length limits for edit
// sequences (SetAttributes / AddAttributes issued from a Processor's OnEmit,
// attributes given at Emit, Clone) vs the Coq model and specification.
package main

import (
	"context"
	"fmt"
	"math"
	"os"
	"strconv"
	"strings"

	"go.opentelemetry.io/otel/log"
	sdklog "go.opentelemetry.io/otel/sdk/log"

	"verif/harness/vgen"
)

// ---------------------------------------------------------------- values (immutable descriptions)

// The SDK edits slices and maps it is handed in place, so every call gets
// values freshly built from these descriptions.
type val struct {
	Kind log.Kind
	S    string // string / bytes
	I    int64
	F    float64
	B    bool
	L    []val
	M    []kvd
}

type kvd struct {
	K string
	V val
}

func (v val) build() log.Value {
	switch v.Kind {
	case log.KindString:
		return log.StringValue(v.S)
	case log.KindBytes:
		return log.BytesValue([]byte(v.S))
	case log.KindInt64:
		return log.Int64Value(v.I)
	case log.KindFloat64:
		return log.Float64Value(v.F)
	case log.KindBool:
		return log.BoolValue(v.B)
	case log.KindSlice:
		vs := make([]log.Value, len(v.L))
		for i, x := range v.L {
			vs[i] = x.build()
		}
		return log.SliceValue(vs...)
	case log.KindMap:
		return log.MapValue(buildKVs(v.M)...)
	}
	return log.Value{}
}

func buildKVs(kvs []kvd) []log.KeyValue {
	out := make([]log.KeyValue, len(kvs))
	for i, a := range kvs {
		out[i] = log.KeyValue{Key: a.K, Value: a.V.build()}
	}
	return out
}

func coqValue(v log.Value) string {
	switch v.Kind() {
	case log.KindString:
		return vgen.App("LStr", vgen.HxS(v.AsString()))
	case log.KindSlice:
		var it []string
		for _, x := range v.AsSlice() {
			it = append(it, coqValue(x))
		}
		return vgen.App("LSlice", vgen.List(it))
	case log.KindMap:
		return vgen.App("LMap", coqKVs(v.AsMap()))
	case log.KindBool:
		return vgen.App("LOther", "1", vgen.HxS(strconv.FormatBool(v.AsBool())))
	case log.KindInt64:
		return vgen.App("LOther", "2", vgen.HxS(strconv.FormatInt(v.AsInt64(), 10)))
	case log.KindFloat64:
		return vgen.App("LOther", "3", vgen.HxS(strconv.FormatUint(math.Float64bits(v.AsFloat64()), 16)))
	case log.KindBytes:
		return vgen.App("LOther", "4", vgen.Hx(v.AsBytes()))
	}
	return vgen.App("LOther", "0", "[]")
}

func coqKVs(kvs []log.KeyValue) string {
	it := make([]string, 0, len(kvs))
	for _, a := range kvs {
		it = append(it, vgen.Pair(vgen.HxS(a.Key), coqValue(a.Value)))
	}
	return vgen.List(it)
}

func descValue(v log.Value) string {
	switch v.Kind() {
	case log.KindString:
		return fmt.Sprintf("%q", v.AsString())
	case log.KindSlice:
		var it []string
		for _, x := range v.AsSlice() {
			it = append(it, descValue(x))
		}
		return "[" + strings.Join(it, ",") + "]"
	case log.KindMap:
		return descKVs(v.AsMap())
	case log.KindBytes:
		return fmt.Sprintf("bytes(%x)", v.AsBytes())
	}
	return v.String()
}

func descKVs(kvs []log.KeyValue) string {
	var it []string
	for i, a := range kvs {
		if i >= 14 {
			it = append(it, fmt.Sprintf("…+%d", len(kvs)-i))
			break
		}
		it = append(it, fmt.Sprintf("%q:%s", a.Key, descValue(a.Value)))
	}
	return "{" + strings.Join(it, " ") + "}"
}

// ---------------------------------------------------------------- programs

type op struct {
	Set   bool
	Attrs []kvd
	// what the caller does with the []log.KeyValue it passes (the record must hold the values as
	// they were at call time: the specification and the model never see these flags)
	FromBuf  bool // the argument is a sub-slice buf[Off:Off+n] of one long-lived caller buffer
	Off      int
	Scribble bool // after the call the caller overwrites every element of the argument's backing array
}

// callerBuf is the caller's long-lived buffer, re-used across calls (and across original and clone).
var callerBuf []log.KeyValue

func resetCaller() { callerBuf = make([]log.KeyValue, 32) }

var junk = log.String("JUNK", "scribbled by the caller after the call")

func (o op) coq() string {
	name := "OAdd"
	if o.Set {
		name = "OSet"
	}
	return vgen.App(name, coqKVs(buildKVs(o.Attrs)))
}

func (o op) String() string {
	name := "AddAttributes"
	if o.Set {
		name = "SetAttributes"
	}
	how := ""
	if o.FromBuf {
		how = fmt.Sprintf(" passed as buf[%d:%d] of the caller's re-used buffer", o.Off, o.Off+len(o.Attrs))
	}
	if o.Scribble {
		how += "; caller overwrites the whole backing array of its argument afterwards"
	}
	return name + descKVs(buildKVs(o.Attrs)) + how
}

func (o op) apply(r *sdklog.Record) {
	arg := buildKVs(o.Attrs)
	if o.FromBuf && o.Off+len(arg) <= len(callerBuf) {
		dst := callerBuf[o.Off : o.Off+len(arg)] // capacity reaches to the end of the buffer
		copy(dst, arg)
		arg = dst
	}
	if o.Set {
		r.SetAttributes(arg...)
	} else {
		r.AddAttributes(arg...)
	}
	if o.Scribble {
		full := arg[:cap(arg)]
		for i := range full {
			full[i] = junk
		}
	}
}

type observation struct {
	Attrs   []log.KeyValue
	Dropped int
	LenOK   bool
}

func observe(r *sdklog.Record) observation {
	var o observation
	r.WalkAttributes(func(kv log.KeyValue) bool {
		o.Attrs = append(o.Attrs, kv)
		return true
	})
	o.Dropped = r.DroppedAttributes()
	o.LenOK = r.AttributesLen() == len(o.Attrs)
	// an early-stopping walk must stop: f is called exactly min(k+1, len) times
	for _, k := range []int{0, len(o.Attrs) / 2} {
		calls := 0
		r.WalkAttributes(func(log.KeyValue) bool { calls++; return calls <= k })
		if want := min(k+1, len(o.Attrs)); calls != want {
			o.LenOK = false
		}
	}
	return o
}

func (o observation) coq() string {
	return vgen.App("O", coqKVs(o.Attrs), vgen.Nat(o.Dropped))
}

type recExporter struct{ got []observation }

func (e *recExporter) Export(_ context.Context, recs []sdklog.Record) error {
	for i := range recs {
		e.got = append(e.got, observe(&recs[i]))
	}
	return nil
}
func (e *recExporter) Shutdown(context.Context) error   { return nil }
func (e *recExporter) ForceFlush(context.Context) error { return nil }

// editProc applies the program to the record it is handed in OnEmit.
type editProc struct {
	ops      []op
	cloneAt  int // -1: no clone; otherwise clone after ops[:cloneAt]
	onClone  bool
	cloneObs *observation
	sched    []schedStep      // alias scenario: interleaved edits of original and clone after the clone
	trace    [][2]observation // (original, clone) after every schedule step
}

type schedStep struct {
	OnClone bool
	Op      op
}

func (p *editProc) OnEmit(_ context.Context, r *sdklog.Record) error {
	if p.cloneAt < 0 {
		for _, o := range p.ops {
			o.apply(r)
		}
		return nil
	}
	for _, o := range p.ops[:p.cloneAt] {
		o.apply(r)
	}
	c := r.Clone()
	if p.sched != nil {
		for _, st := range p.sched {
			if st.OnClone {
				st.Op.apply(&c)
			} else {
				st.Op.apply(r)
			}
			p.trace = append(p.trace, [2]observation{observe(r), observe(&c)})
		}
		return nil
	}
	target := r
	if p.onClone {
		target = &c
	}
	for _, o := range p.ops[p.cloneAt:] {
		o.apply(target)
	}
	ob := observe(&c)
	p.cloneObs = &ob
	return nil
}
func (p *editProc) Shutdown(context.Context) error   { return nil }
func (p *editProc) ForceFlush(context.Context) error { return nil }

const (
	howOptions  = iota // WithAttributeCountLimit / WithAttributeValueLengthLimit
	howEnv             // OTEL_LOGRECORD_ATTRIBUTE_COUNT_LIMIT / OTEL_LOGRECORD_ATTRIBUTE_VALUE_LENGTH_LIMIT
	howDefaults        // nothing given: 128 / -1
	howBoth            // options given and the environment set to other values: the options win
	howZeroRecord      // a zero-value sdklog.Record edited directly (limits 0 / 0), no logger involved
)

var logEnvKeys = []string{"OTEL_LOGRECORD_ATTRIBUTE_COUNT_LIMIT", "OTEL_LOGRECORD_ATTRIBUTE_VALUE_LENGTH_LIMIT"}

type program struct {
	How            int
	LenLim, CntLim int
	Init           []kvd // attributes of the emitted log.Record
	Ops            []op  // edits made by the processor
	CloneAt        int
	OnClone        bool
	Sched          []schedStep
}

// run emits one record through [editProc, SimpleProcessor(exporter)].
func run(p program) (exported observation, cloneObs *observation, err error) {
	ex, ed, err := runProc(p)
	return ex, ed.cloneObs, err
}

func runProc(p program) (exported observation, ed *editProc, err error) {
	resetCaller()
	exp := &recExporter{}
	ed = &editProc{ops: p.Ops, cloneAt: p.CloneAt, onClone: p.OnClone, sched: p.Sched}
	if p.How == howZeroRecord {
		var zr sdklog.Record
		for _, a := range p.Init {
			zr.AddAttributes(buildKVs([]kvd{a})...)
		}
		if err := ed.OnEmit(context.Background(), &zr); err != nil {
			return exported, ed, err
		}
		return observe(&zr), ed, nil
	}
	popts := []sdklog.LoggerProviderOption{sdklog.WithProcessor(ed), sdklog.WithProcessor(sdklog.NewSimpleProcessor(exp))}
	for _, k := range logEnvKeys {
		os.Unsetenv(k)
	}
	switch p.How {
	case howOptions:
		popts = append(popts, sdklog.WithAttributeCountLimit(p.CntLim), sdklog.WithAttributeValueLengthLimit(p.LenLim))
	case howEnv:
		os.Setenv(logEnvKeys[0], strconv.Itoa(p.CntLim))
		os.Setenv(logEnvKeys[1], strconv.Itoa(p.LenLim))
	case howBoth:
		os.Setenv(logEnvKeys[0], strconv.Itoa(p.CntLim+3))
		os.Setenv(logEnvKeys[1], strconv.Itoa(p.LenLim+2))
		popts = append(popts, sdklog.WithAttributeValueLengthLimit(p.LenLim), sdklog.WithAttributeCountLimit(p.CntLim))
	}
	lp := sdklog.NewLoggerProvider(popts...)
	for _, k := range logEnvKeys {
		os.Unsetenv(k)
	}
	defer lp.Shutdown(context.Background())
	var rec log.Record
	rec.SetBody(log.StringValue("b"))
	rec.AddAttributes(buildKVs(p.Init)...)
	lp.Logger("c17").Emit(context.Background(), rec)
	if len(exp.got) != 1 {
		return exported, ed, fmt.Errorf("exporter received %d records", len(exp.got))
	}
	return exp.got[0], ed, nil
}

// ---------------------------------------------------------------- generators

var pieces = []string{
	"a", "b", "z", "0", " ", "\u00e9", "\u00df", "\u20ac", "\u4e2d", "\U0001F600", "\U0010FFFF", "\ufffd", "\u07ff", "\u0800", "\ud7ff", "\ue000",
	"\x80", "\xBF", "\xC3", "\xE2\x82", "\xF0\x9F\x98", "\xC0\xAF", "\xC1\xBF", "\xE0\x9F\xBF", "\xED\xA0\x80", "\xF4\x90\x80\x80",
	"\xF5\x80\x80\x80", "\xFF", "\xFE", "\xF0\x80\x80\x80", "\xEF\xBF",
}

func genString(r *vgen.Rand) string {
	n := 0
	switch r.Intn(10) {
	case 0:
		n = 0
	case 1, 2, 3:
		n = r.Range(1, 3)
	case 4, 5, 6, 7:
		n = r.Range(2, 8)
	default:
		n = r.Range(6, 14)
	}
	var sb strings.Builder
	validOnly := r.Chance(1, 3)
	for i := 0; i < n; i++ {
		if validOnly {
			sb.WriteString(pieces[r.Intn(16)])
		} else if r.Chance(2, 3) {
			sb.WriteString(pieces[r.Intn(12)])
		} else {
			sb.WriteString(pieces[r.Intn(len(pieces))])
		}
	}
	return sb.String()
}

var keyPool = []string{"a", "b", "c", "d", "e", "f", "g", "h"}
var innerKeys = []string{"x", "y", "z", ""}

func genValue(r *vgen.Rand, depth int) val {
	k := r.Intn(20)
	if depth >= 3 && k >= 14 {
		k = r.Intn(14)
	}
	switch {
	case k < 9:
		return val{Kind: log.KindString, S: genString(r)}
	case k == 9:
		return val{Kind: log.KindInt64, I: int64(r.Intn(2001)) - 1000}
	case k == 10:
		return val{Kind: log.KindBool, B: r.Bool()}
	case k == 11:
		return val{Kind: log.KindFloat64, F: vgen.Pick(r, []float64{0, 1.5, -2.25, 1e300})}
	case k == 12:
		return val{Kind: log.KindBytes, S: genString(r)} // bytes are not strings: never truncated
	case k == 13:
		return val{Kind: log.KindEmpty}
	case k < 17:
		n := r.Intn(4)
		v := val{Kind: log.KindSlice, L: make([]val, n)}
		for i := range v.L {
			v.L[i] = genValue(r, depth+1)
		}
		return v
	default:
		n := r.Intn(5)
		v := val{Kind: log.KindMap, M: make([]kvd, n)}
		for i := range v.M {
			v.M[i] = kvd{K: vgen.Pick(r, innerKeys), V: genValue(r, depth+1)}
		}
		return v
	}
}

func genKey(r *vgen.Rand, fresh *int, poolN int) string {
	switch r.Intn(16) {
	case 0:
		*fresh++
		return fmt.Sprintf("n%d", *fresh)
	case 1:
		return "" // log attributes have no validity rule: the empty key is a key
	}
	return keyPool[r.Intn(poolN)]
}

func genAttrs(r *vgen.Rand, max int, fresh *int, poolN int) []kvd {
	n := 0
	switch r.Intn(8) {
	case 0:
		n = 0
	case 1, 2:
		n = 1
	case 3, 4:
		n = r.Range(2, 4)
	default:
		n = r.Range(1, max)
	}
	kvs := make([]kvd, n)
	for i := range kvs {
		kvs[i] = kvd{K: genKey(r, fresh, poolN), V: genValue(r, 0)}
	}
	return kvs
}

func genProgram(r *vgen.Rand) program {
	p := program{CloneAt: -1}
	p.CntLim = vgen.Pick(r, []int{-1, 0, 1, 2, 5, 6, 128, 3, 4, 7})
	if r.Chance(1, 3) {
		p.CntLim = r.Range(1, 8)
	}
	p.LenLim = vgen.Pick(r, []int{-1, 0, 1, 3, 10, 2, 5})
	poolN := vgen.Pick(r, []int{3, 6, 8, 8})
	fresh := 0
	if r.Chance(1, 2) {
		p.Init = genAttrs(r, 7, &fresh, poolN)
	}
	n := 0
	switch r.Intn(6) {
	case 0:
		n = 0
	case 1, 2:
		n = r.Range(1, 2)
	case 3, 4:
		n = r.Range(2, 5)
	default:
		n = r.Range(4, 10)
	}
	for i := 0; i < n; i++ {
		o := op{Set: r.Chance(1, 5), Attrs: genAttrs(r, vgen.Pick(r, []int{9, 9, 12}), &fresh, poolN)}
		o.Scribble = r.Chance(1, 2)
		if r.Chance(1, 3) {
			o.FromBuf, o.Off = true, r.Intn(9)
		}
		switch r.Intn(24) { // input shapes: all-equal keys, reversed / pre-sorted key order, very long
		case 0:
			k := vgen.Pick(r, keyPool)
			o.Attrs = nil
			for j, m := 0, r.Range(2, 9); j < m; j++ {
				o.Attrs = append(o.Attrs, kvd{K: k, V: genValue(r, 1)})
			}
		case 1:
			o.Attrs = nil
			for j := poolN - 1; j >= 0; j-- {
				o.Attrs = append(o.Attrs, kvd{K: keyPool[j], V: genValue(r, 2)})
			}
		case 2:
			o.Attrs = nil
			for j := 0; j < poolN; j++ {
				o.Attrs = append(o.Attrs, kvd{K: keyPool[j], V: genValue(r, 2)})
			}
		case 3:
			o.Attrs = nil
			for j, m := 0, r.Range(150, 300); j < m; j++ {
				o.Attrs = append(o.Attrs, kvd{K: fmt.Sprintf("k%d", r.Intn(40)), V: val{Kind: log.KindInt64, I: int64(j)}})
			}
		}
		p.Ops = append(p.Ops, o)
	}
	switch r.Intn(14) { // how the limits reach the record
	case 0:
		p.How = howEnv
	case 1:
		p.How = howBoth
	case 2:
		p.How, p.CntLim, p.LenLim = howDefaults, 128, -1
	case 3:
		p.How, p.CntLim, p.LenLim = howZeroRecord, 0, 0
	}
	return p
}

func bigProgram(r *vgen.Rand) program {
	p := program{CloneAt: -1, CntLim: 128, LenLim: vgen.Pick(r, []int{-1, 3})}
	if r.Bool() { // the default limits (nothing configured): 128 / unlimited
		p.How, p.LenLim = howDefaults, -1
	}
	mk := func(n, off int) []kvd {
		kvs := make([]kvd, n)
		for i := range kvs {
			kvs[i] = kvd{K: fmt.Sprintf("k%d", (off+i)%140), V: val{Kind: log.KindInt64, I: int64(i)}}
		}
		return kvs
	}
	switch r.Intn(2) {
	case 0:
		p.Ops = []op{{Set: true, Attrs: mk(r.Range(126, 135), 0)}, {Attrs: mk(r.Range(1, 9), r.Range(118, 130))}}
	default:
		p.Init = mk(3, 0)
		p.Ops = []op{{Attrs: mk(r.Range(120, 126), 2)}, {Attrs: mk(r.Range(1, 12), r.Range(110, 128))}, {Attrs: mk(4, 0)}}
	}
	return p
}

// deepValue nests bottom under depth levels: shape 0 slice-in-slice, 1 map-in-map, 2 alternating.
// Every level may carry a sibling (an over-long string) so that a guard that stops
// descending leaves something visible at several depths, not only at the bottom.
func deepValue(depth, shape int, sibling bool, bottom val) val {
	v := bottom
	for lvl := depth; lvl >= 1; lvl-- {
		asMap := shape == 1 || (shape == 2 && lvl%2 == 0)
		if asMap {
			m := []kvd{{K: "m", V: v}}
			if sibling && lvl%7 == 0 {
				m = append(m, kvd{K: "s", V: sv("0123456789abcdef")}, kvd{K: "s", V: sv("ABCDEFGHIJKLMNOP")})
			}
			v = val{Kind: log.KindMap, M: m}
		} else {
			l := []val{v}
			if sibling && lvl%7 == 0 {
				l = append(l, sv("0123456789abcdef"))
			}
			v = val{Kind: log.KindSlice, L: l}
		}
	}
	return v
}

func deepBottom(r *vgen.Rand) val {
	long := genString(r) + "0123456789" + genString(r)
	switch r.Intn(3) {
	case 0:
		return sv(long)
	case 1:
		return val{Kind: log.KindMap, M: []kvd{{"x", sv(long)}, {"y", sv("keep")}, {"x", sv("second" + long)}}}
	}
	return val{Kind: log.KindSlice, L: []val{sv(long), {Kind: log.KindMap, M: []kvd{{"d", sv(long)}, {"d", sv(long + "!")}}}}}
}

// deepProgram: a value nested 33-60 levels deep offered through SetAttributes, AddAttributes on a
// fresh record, AddAttributes overwriting a key held in the inline array or in the overflow slice.
func deepProgram(r *vgen.Rand, depth int) program {
	p := program{CloneAt: -1, CntLim: vgen.Pick(r, []int{-1, 128, 8}), LenLim: vgen.Pick(r, []int{0, 1, 3, 5, 10})}
	v := deepValue(depth, r.Intn(3), r.Bool(), deepBottom(r))
	filler := func(n int) []kvd {
		var out []kvd
		for j := 0; j < n; j++ {
			out = append(out, kvd{K: keyPool[j], V: sv("v")})
		}
		return out
	}
	switch r.Intn(5) {
	case 0:
		p.Ops = []op{{Set: true, Attrs: []kvd{{"deep", v}, {"a", sv("0123456789")}}}}
	case 1:
		p.Ops = []op{{Attrs: []kvd{{"a", sv("x")}, {"deep", v}}}} // fresh record: fast path
	case 2:
		p.Init = []kvd{{"deep", v}} // given at Emit
	case 3:
		p.Init = filler(3) // overwrite a key in the inline array
		p.Ops = []op{{Attrs: []kvd{{keyPool[1], v}}}}
	default:
		p.Ops = []op{{Set: true, Attrs: filler(7)}, {Attrs: []kvd{{keyPool[6], v}, {"new", v}}}} // overwrite in the overflow slice + append
	}
	return p
}

// ---------------------------------------------------------------- main

func sv(s string) val { return val{Kind: log.KindString, S: s} }

func main() {
	o := vgen.ParseFlags()
	r := vgen.NewRand(o.Seed).Fork() // Fork: NewRand(s+1) is NewRand(s) advanced by one draw (splitmix increment = seed multiplier); the fork decorrelates seeds
	w := vgen.NewWriter(o.Out, "Lib.Utf8 C17.Spec C17.Model C17.Corr", "case", 200)
	w.Rule = "programs of SetAttributes/AddAttributes calls issued from a Processor's OnEmit on a record emitted with 0-7 attributes, over an 8-key pool " +
		"(duplicates within and across calls, crossing the 5-slot inline array), nested slice/map values three deep with duplicate inner keys, " +
		"strings from a UTF-8 piece alphabet, count limits {-1,0,1..8,128} x value-length limits {-1,0,1,2,3,5,10}, observed at an Exporter via WalkAttributes/" +
		"AttributesLen/DroppedAttributes; clone cases edit the original (or the clone) after Clone and observe both; alias cases run an interleaved edit script on original and clone and compare both after every step with the aliasing model; non-trivial = something was dropped, overwritten or truncated"

	guard := func(desc any, f func()) {
		defer func() {
			if e := recover(); e != nil {
				w.Violation(fmt.Sprintf("panic: %v", e), desc)
			}
		}()
		f()
	}

	addProgram := func(p program, kind string) {
		all := make([]op, 0, len(p.Init)+len(p.Ops))
		for _, a := range p.Init { // logger.newRecord adds the emitted attributes one by one
			all = append(all, op{Attrs: []kvd{a}})
		}
		nInit := len(all)
		all = append(all, p.Ops...)
		var od []string
		offered := 0
		for i, x := range all {
			s := x.String()
			if i < nInit {
				s = "Emit attribute: " + s
			}
			od = append(od, s)
			offered += len(x.Attrs)
		}
		desc := map[string]any{"count_limit": p.CntLim, "value_length_limit": p.LenLim, "ops": od,
			"limits_given_through": []string{"provider options", "environment", "defaults", "options over environment", "zero-value Record edited directly"}[p.How]}
		guard(desc, func() {
			w.Tally(fmt.Sprintf("how=%d", p.How))
			ex, cl, err := run(p)
			if err != nil {
				w.Violation(err.Error(), desc)
				return
			}
			if !ex.LenOK || (cl != nil && !cl.LenOK) {
				w.Violation("AttributesLen differs from the number of attributes walked, or an early-stopping WalkAttributes did not stop", desc)
				return
			}
			desc["observed"] = map[string]any{"attrs": descKVs(ex.Attrs), "dropped": ex.Dropped}
			ops := make([]string, len(all))
			for i, x := range all {
				ops[i] = x.coq()
			}
			w.Tally(fmt.Sprintf("count-limit=%d", p.CntLim))
			w.Tally(fmt.Sprintf("held<=%d", (len(ex.Attrs)/5+1)*5))
			if ex.Dropped > 0 {
				w.Tally("dropped>0")
			}
			nontrivial := ex.Dropped > 0 || len(ex.Attrs) < offered
			if p.CloneAt < 0 {
				w.Add(vgen.App("CRec", vgen.Z(int64(p.LenLim)), vgen.Z(int64(p.CntLim)), coqKVs(buildKVs(p.Init)), vgen.List(ops[nInit:]), ex.coq()), desc, kind, nontrivial)
				return
			}
			if cl == nil {
				w.Violation("clone was not observed", desc)
				return
			}
			desc["clone_after"] = nInit + p.CloneAt
			desc["edits_applied_to_clone"] = p.OnClone
			desc["observed_clone"] = map[string]any{"attrs": descKVs(cl.Attrs), "dropped": cl.Dropped}
			w.Tally("clone")
			w.Add(vgen.App("CClone", vgen.Z(int64(p.LenLim)), vgen.Z(int64(p.CntLim)), vgen.List(ops[:nInit+p.CloneAt]), vgen.List(ops[nInit+p.CloneAt:]),
				vgen.Bool(p.OnClone), cl.coq(), ex.coq()), desc, kind, true)
		})
	}

	// ---- fixed corpus (runs first on every run) ----
	fffd := "\ufffd"
	ten := "0123456789"
	corpus := []program{
		// F-C17-1: AddAttributes overwriting an existing key must apply the value limits
		{LenLim: 3, CntLim: -1, CloneAt: -1, Init: []kvd{{"k", sv("x")}}, Ops: []op{{Attrs: []kvd{{"k", sv(ten)}}}}},
		{LenLim: 3, CntLim: -1, CloneAt: -1, Ops: []op{{Set: true, Attrs: []kvd{{"a", sv("1")}, {"b", sv("2")}, {"c", sv("3")}, {"d", sv("4")}, {"e", sv("5")}, {"f", sv("6")}}},
			{Attrs: []kvd{{"f", sv(ten)}, {"a", val{Kind: log.KindMap, M: []kvd{{"x", sv(ten)}, {"x", sv("y" + ten)}}}}}}}},
		// F-C04-1 (log copy of truncate)
		{LenLim: 3, CntLim: -1, CloneAt: -1, Ops: []op{{Attrs: []kvd{{"k", sv(strings.Repeat(fffd, 10))}, {"l", sv("ab" + fffd + "cdef")}}}}},
		{LenLim: 0, CntLim: -1, CloneAt: -1, Ops: []op{{Attrs: []kvd{{"k", sv("\xff")}}}}},
		// all-equal keys, reversed order, a zero-value Record edited directly (limits 0/0)
		{LenLim: -1, CntLim: 2, CloneAt: -1, Init: []kvd{{"a", sv("0")}}, Ops: []op{{Attrs: []kvd{{"b", sv("1")}, {"b", sv("2")}, {"b", sv("3")}, {"b", sv("4")}}}, {Attrs: []kvd{{"c", sv("5")}, {"b", sv("6")}, {"a", sv("7")}}}}},
		{How: howZeroRecord, LenLim: 0, CntLim: 0, CloneAt: -1, Ops: []op{{Attrs: []kvd{{"a", sv("abc")}, {"a", sv("d")}}}, {Set: true, Attrs: []kvd{{"b", val{Kind: log.KindSlice, L: []val{sv("xyz")}}}}}}},
		// the caller re-uses / overwrites the slice it passed (6+ attributes reach the overflow slice), then passes a sub-slice of the same buffer
		{LenLim: -1, CntLim: -1, CloneAt: -1, Ops: []op{
			{FromBuf: true, Off: 0, Scribble: true, Attrs: []kvd{{"a", sv("1")}, {"b", sv("2")}, {"c", sv("3")}, {"d", sv("4")}, {"e", sv("5")}, {"f", sv("6")}, {"g", sv("7")}}},
			{FromBuf: true, Off: 5, Attrs: []kvd{{"a", sv("99")}}}, {Set: true, FromBuf: true, Off: 2, Scribble: true, Attrs: []kvd{{"p", sv("1")}, {"q", sv("2")}, {"r", sv("3")}, {"s", sv("4")}, {"t", sv("5")}, {"u", sv("6")}}},
			{FromBuf: true, Off: 7, Scribble: true, Attrs: []kvd{{"v", sv("7")}}}}},
		// F-C17-2: count limit 0 documented as "no attributes"
		{LenLim: -1, CntLim: 0, CloneAt: -1, Init: []kvd{{"a", sv("1")}}, Ops: []op{{Attrs: []kvd{{"b", sv("2")}}}}},
		{LenLim: -1, CntLim: 0, CloneAt: -1, Ops: []op{{Set: true, Attrs: []kvd{{"a", sv("1")}, {"a", sv("2")}}}}},
		// reaching the limit mid-call with duplicates of new, held and cut keys
		{LenLim: -1, CntLim: 3, CloneAt: -1, Init: []kvd{{"a", sv("1")}, {"b", sv("2")}}, Ops: []op{{Attrs: []kvd{{"c", sv("3")}, {"d", sv("4")}, {"a", sv("5")}, {"d", sv("6")}, {"c", sv("7")}, {"a", sv("8")}}}}},
		// clone then overwrite keys in the inline array and in the overflow slice of the original
		{LenLim: -1, CntLim: -1, CloneAt: 1, Ops: []op{{Set: true, Attrs: []kvd{{"a", sv("1")}, {"b", sv("2")}, {"c", sv("3")}, {"d", sv("4")}, {"e", sv("5")}, {"f", sv("6")}, {"g", sv("7")}}},
			{Attrs: []kvd{{"a", sv("A")}, {"g", sv("G")}, {"h", sv("H")}}}}},
		{LenLim: -1, CntLim: -1, CloneAt: 1, OnClone: true, Ops: []op{{Set: true, Attrs: []kvd{{"a", sv("1")}, {"b", sv("2")}, {"c", sv("3")}, {"d", sv("4")}, {"e", sv("5")}, {"f", sv("6")}, {"g", sv("7")}}},
			{Attrs: []kvd{{"a", sv("A")}, {"g", sv("G")}, {"h", sv("H")}}}}},
	}
	for _, p := range corpus {
		addProgram(p, "corpus")
	}
	// depth 1000 once (slice-in-slice and alternating), an over-long string and a duplicate key at the bottom
	for shape := 0; shape < 3; shape += 2 {
		bottom := val{Kind: log.KindMap, M: []kvd{{"x", sv("0123456789")}, {"x", sv("abcdefghij")}}}
		addProgram(program{CloneAt: -1, CntLim: -1, LenLim: 3, Init: []kvd{{"k", sv("v")}},
			Ops: []op{{Attrs: []kvd{{"k", deepValue(1000, shape, false, bottom)}}}, {Set: true, Attrs: []kvd{{"s", deepValue(1000, shape, false, bottom)}}}}}, "corpus-deep")
	}

	// ---- generated programs ----
	for i := o.Count(1500, 30000); i > 0; i-- {
		addProgram(genProgram(r), "record")
	}
	for i := o.Count(300, 6000); i > 0; i-- {
		p := genProgram(r)
		for len(p.Ops) < 2 {
			fresh := 100
			p.Ops = append(p.Ops, op{Attrs: genAttrs(r, 9, &fresh, 8)})
		}
		p.CloneAt = r.Range(0, len(p.Ops)-1)
		p.OnClone = r.Bool()
		if r.Chance(2, 3) {
			// fill the overflow slice before the clone, then overwrite held keys (inline and overflow) afterwards
			fresh := 200
			n := r.Range(6, 8)
			first := op{Set: true}
			for j := 0; j < n; j++ {
				first.Attrs = append(first.Attrs, kvd{K: keyPool[j], V: genValue(r, 1)})
			}
			p.CntLim = vgen.Pick(r, []int{-1, 128, 8, 9, 12})
			if p.How == howDefaults || p.How == howZeroRecord {
				p.How = howOptions
			}
			p.Ops = append([]op{first}, p.Ops...)
			p.CloneAt = r.Range(1, max(1, p.CloneAt))
			for j := p.CloneAt; j < len(p.Ops); j++ {
				p.Ops[j].Set = false
			}
			p.Ops = append(p.Ops, op{Attrs: genAttrs(r, 9, &fresh, 8)})
		}
		addProgram(p, "clone")
	}
	for i := o.Count(16, 100); i > 0; i-- {
		addProgram(bigProgram(r), "record-128")
	}

	// ---- very deep nesting (33-60 levels; the limits have no depth bound) ----
	for i := o.Count(60, 1000); i > 0; i-- {
		addProgram(deepProgram(r, r.Range(33, 60)), "deep")
	}
	for _, d := range []int{31, 32, 33, 34} { // around a plausible guard constant
		addProgram(deepProgram(r, d), "deep")
	}

	// ---- aliasing: Clone, then an interleaved edit script on original and clone, both observed after every step ----
	for i := o.Count(300, 6000); i > 0; i-- {
		p := genProgram(r)
		fresh := 300
		if r.Chance(3, 4) { // overflow slice in use at the clone
			first := op{Set: true}
			for j, n := 0, r.Range(6, 8); j < n; j++ {
				first.Attrs = append(first.Attrs, kvd{K: keyPool[j], V: genValue(r, 1)})
			}
			p.CntLim = vgen.Pick(r, []int{-1, 128, 8, 9, 12, 7})
			if p.How == howDefaults || p.How == howZeroRecord {
				p.How = howOptions
			}
			p.Ops = append(p.Ops, first)
			if r.Bool() {
				p.Ops = append(p.Ops, op{Attrs: genAttrs(r, 4, &fresh, 8)})
			}
		}
		p.CloneAt = len(p.Ops)
		p.Sched = []schedStep{}
		for j, n := 0, r.Range(1, 6); j < n; j++ {
			p.Sched = append(p.Sched, schedStep{OnClone: r.Bool(), Op: op{Set: r.Chance(1, 8), Attrs: genAttrs(r, 6, &fresh, 8),
				Scribble: r.Bool(), FromBuf: r.Chance(1, 3), Off: r.Intn(9)}})
		}
		all := make([]op, 0, len(p.Init)+len(p.Ops))
		for _, a := range p.Init {
			all = append(all, op{Attrs: []kvd{a}})
		}
		all = append(all, p.Ops...)
		var od, ops1, sch, tr []string
		for _, x := range all {
			od = append(od, x.String())
			ops1 = append(ops1, x.coq())
		}
		for _, st := range p.Sched {
			who := "original"
			if st.OnClone {
				who = "clone"
			}
			od = append(od, "after Clone, on the "+who+": "+st.Op.String())
			sch = append(sch, vgen.Pair(vgen.Bool(st.OnClone), st.Op.coq()))
		}
		desc := map[string]any{"count_limit": p.CntLim, "value_length_limit": p.LenLim, "ops": od}
		guard(desc, func() {
			ex, ed, err := runProc(p)
			if err != nil {
				w.Violation(err.Error(), desc)
				return
			}
			if len(ed.trace) != len(p.Sched) {
				w.Violation("schedule was not run to the end", desc)
				return
			}
			var td []string
			for _, t := range ed.trace {
				if !t[0].LenOK || !t[1].LenOK {
					w.Violation("AttributesLen differs from the number of attributes walked, or an early-stopping WalkAttributes did not stop", desc)
					return
				}
				tr = append(tr, vgen.Pair(t[0].coq(), t[1].coq()))
				td = append(td, fmt.Sprintf("original %s dropped %d | clone %s dropped %d", descKVs(t[0].Attrs), t[0].Dropped, descKVs(t[1].Attrs), t[1].Dropped))
			}
			last := ed.trace[len(ed.trace)-1][0]
			if len(last.Attrs) != len(ex.Attrs) || last.Dropped != ex.Dropped {
				w.Violation("the record at the exporter differs from the record at the end of OnEmit", desc)
				return
			}
			desc["observed_after_each_step"] = td
			w.Tally("alias")
			w.Tally(fmt.Sprintf("alias:steps=%d", len(p.Sched)))
			w.Add(vgen.App("CAlias", vgen.Z(int64(p.LenLim)), vgen.Z(int64(p.CntLim)), vgen.List(ops1), vgen.List(sch), vgen.List(tr)), desc, "alias", true)
		})
	}

	// ---- the log copy of truncate: one record per limit, one string attribute per input ----
	type tcase struct {
		lim int
		s   string
	}
	var tcs []tcase
	for i := o.Count(500, 10000); i > 0; i-- {
		s := genString(r)
		lim := vgen.Pick(r, []int{-1, 0, 1, 2, 3, 5, 10})
		if r.Bool() {
			lim = max(0, len([]rune(s))+r.Range(-2, 1))
		}
		tcs = append(tcs, tcase{lim, s})
	}
	seconds := []byte{0x7F, 0x80, 0x8F, 0x90, 0x9F, 0xA0, 0xBF, 0xC0}
	step := 4
	if o.Tier == "thorough" {
		step = 1
	}
	for b1 := 0x80 + int(o.Seed%uint64(step)); b1 <= 0xFF; b1 += step { // decoder boundary sweep (a quarter of the lead bytes per quick run)
		for _, b2 := range seconds {
			tcs = append(tcs, tcase{2, string([]byte{byte(b1), b2, 0x80, 0x80, 'z', 'y'})})
		}
	}
	byLim := map[int][]string{}
	var order []int
	for _, t := range tcs {
		if _, ok := byLim[t.lim]; !ok {
			order = append(order, t.lim)
		}
		byLim[t.lim] = append(byLim[t.lim], t.s)
	}
	for _, lim := range order {
		group := byLim[lim]
		for start := 0; start < len(group); start += 100 {
			chunk := group[start:min(start+100, len(group))]
			desc := map[string]any{"op": "truncate-batch", "limit": lim}
			guard(desc, func() {
				var init []kvd
				for i, s := range chunk {
					init = append(init, kvd{K: fmt.Sprintf("s%d", i), V: sv(s)})
				}
				ex, _, err := run(program{LenLim: lim, CntLim: -1, CloneAt: -1, Init: init})
				if err != nil || len(ex.Attrs) != len(chunk) {
					w.Violation("string attributes lost", desc)
					return
				}
				for i, s := range chunk {
					a := ex.Attrs[i]
					d := map[string]any{"op": "truncate", "limit": lim, "s": fmt.Sprintf("%q", s), "out": descValue(a.Value)}
					if a.Key != fmt.Sprintf("s%d", i) || a.Value.Kind() != log.KindString {
						w.Violation("string attribute changed key or kind", d)
						continue
					}
					w.Tally("truncate")
					w.Add(vgen.App("CTrunc", vgen.Z(int64(lim)), vgen.HxS(s), vgen.HxS(a.Value.AsString())), d, "truncate", lim >= 0 && len(s) > lim)
				}
			})
		}
	}

	if err := w.Flush(); err != nil {
		fmt.Fprintln(os.Stderr, err)
		os.Exit(2)
	}
}
