// C09 harness: sampling decisions and span identity (sdk/trace: TraceIDRatioBased,
// ParentBased, tracer.newSpan, IDGenerator, span processors, sampler_env) vs the Coq model.
package main

import (
	"context"
	"encoding/binary"
	"encoding/hex"
	"encoding/json"
	"flag"
	"fmt"
	"math"
	"math/big"
	"os"
	"os/exec"
	"sort"
	"strconv"
	"strings"
	"sync"
	"sync/atomic"
	"time"

	sdktrace "go.opentelemetry.io/otel/sdk/trace"
	"go.opentelemetry.io/otel"
	"go.opentelemetry.io/otel/attribute"
	"go.opentelemetry.io/otel/trace"

	"verif/harness/vgen"
)

// ---- sampler descriptions ----------------------------------------------------

type samp struct {
	Kind string  `json:"kind"` // always never ratio parent custom
	Bits uint64  `json:"bits,omitempty"`
	Sub  []*samp `json:"sub,omitempty"` // root, rs, rns, ls, lns
	Dec  int     `json:"dec,omitempty"`
	TS   *string `json:"ts,omitempty"`
}

var decNames = []string{"Drop", "RecordOnly", "RecordAndSample"}

// decCoq: the three decisions, or an out-of-range SamplingDecision value (3..255) a custom sampler may answer.
func decCoq(d int) string {
	if d < 3 {
		return decNames[d]
	}
	return vgen.App("DOther", vgen.N(uint64(d-3)))
}
func decName(d int) string {
	if d < 3 {
		return decNames[d]
	}
	return fmt.Sprintf("Decision(%d)", d)
}

func (s *samp) coq() string {
	switch s.Kind {
	case "always":
		return "SAlways"
	case "never":
		return "SNever"
	case "ratio":
		return vgen.App("SRatio", vgen.N(s.Bits))
	case "parent":
		return vgen.App("SParent", s.Sub[0].coq(), s.Sub[1].coq(), s.Sub[2].coq(), s.Sub[3].coq(), s.Sub[4].coq())
	default:
		ts := vgen.None
		if s.TS != nil {
			ts = vgen.Some(vgen.HxS(*s.TS))
		}
		return vgen.App("SCustom", decCoq(s.Dec), ts)
	}
}

func (s *samp) String() string {
	switch s.Kind {
	case "ratio":
		return fmt.Sprintf("ratio(%#x=%g)", s.Bits, math.Float64frombits(s.Bits))
	case "parent":
		return fmt.Sprintf("parent(%v,%v,%v,%v,%v)", s.Sub[0], s.Sub[1], s.Sub[2], s.Sub[3], s.Sub[4])
	case "custom":
		if s.TS != nil {
			return fmt.Sprintf("custom(%s,%q)", decName(s.Dec), *s.TS)
		}
		return fmt.Sprintf("custom(%s)", decName(s.Dec))
	}
	return s.Kind
}

// leafAt follows the ParentBased delegates that were asked.
func (s *samp) leafAt(path []uint64) *samp {
	for _, k := range path {
		if s.Kind != "parent" || int(k) >= len(s.Sub) {
			return nil
		}
		s = s.Sub[k]
	}
	if s.Kind == "parent" {
		return nil
	}
	return s
}

type recorder struct {
	path    []uint64
	answers []answer
}
type answer struct {
	d    sdktrace.SamplingDecision
	ts   string
	path []uint64
	tid  trace.TraceID
}

type tagSampler struct {
	k     uint64
	inner sdktrace.Sampler
	rec   *recorder
}

func (t tagSampler) ShouldSample(p sdktrace.SamplingParameters) sdktrace.SamplingResult {
	t.rec.path = append(t.rec.path, t.k)
	return t.inner.ShouldSample(p)
}
func (t tagSampler) Description() string { return "tag" }

type recSampler struct {
	inner sdktrace.Sampler
	rec   *recorder
}

func (t recSampler) ShouldSample(p sdktrace.SamplingParameters) sdktrace.SamplingResult {
	t.rec.path = nil
	r := t.inner.ShouldSample(p)
	t.rec.answers = append(t.rec.answers, answer{d: r.Decision, ts: r.Tracestate.String(), path: append([]uint64(nil), t.rec.path...), tid: p.TraceID})
	return r
}
func (t recSampler) Description() string { return "rec" }

type customSampler struct {
	d  sdktrace.SamplingDecision
	ts *trace.TraceState
}

func (c customSampler) ShouldSample(p sdktrace.SamplingParameters) sdktrace.SamplingResult {
	r := sdktrace.SamplingResult{Decision: c.d}
	if c.ts != nil {
		r.Tracestate = *c.ts
	} else {
		r.Tracestate = trace.SpanContextFromContext(p.ParentContext).TraceState()
	}
	return r
}
func (c customSampler) Description() string { return "custom" }

func (s *samp) build(rec *recorder) sdktrace.Sampler {
	switch s.Kind {
	case "always":
		return sdktrace.AlwaysSample()
	case "never":
		return sdktrace.NeverSample()
	case "ratio":
		return sdktrace.TraceIDRatioBased(math.Float64frombits(s.Bits))
	case "parent":
		t := func(k uint64) sdktrace.Sampler { return tagSampler{k: k, inner: s.Sub[k].build(rec), rec: rec} }
		return sdktrace.ParentBased(t(0), sdktrace.WithRemoteParentSampled(t(1)), sdktrace.WithRemoteParentNotSampled(t(2)),
			sdktrace.WithLocalParentSampled(t(3)), sdktrace.WithLocalParentNotSampled(t(4)))
	default:
		c := customSampler{d: sdktrace.SamplingDecision(s.Dec)}
		if s.TS != nil {
			ts, err := trace.ParseTraceState(*s.TS)
			if err != nil {
				panic(err)
			}
			c.ts = &ts
		}
		return c
	}
}

// buildPlain builds the sampler without recorders, spelling ParentBased the way users do: options in any
// order, any number of them, repeated kinds (the model applies the same list: parent_based_with).
func (s *samp) buildPlain(r *vgen.Rand) (sdktrace.Sampler, string) {
	if s.Kind != "parent" {
		return s.build(nil), s.coq()
	}
	mk := []func(sdktrace.Sampler) sdktrace.ParentBasedSamplerOption{nil, sdktrace.WithRemoteParentSampled, sdktrace.WithRemoteParentNotSampled,
		sdktrace.WithLocalParentSampled, sdktrace.WithLocalParentNotSampled}
	names := []string{"", "ORemoteSampled", "ORemoteNotSampled", "OLocalSampled", "OLocalNotSampled"}
	var opts []sdktrace.ParentBasedSamplerOption
	var coq []string
	n := r.Intn(8) // any number of options, any order, repeated kinds: the last of each kind counts
	for i := 0; i < n; i++ {
		k := 1 + r.Intn(4)
		var sub sdktrace.Sampler
		var c string
		if r.Chance(2, 3) {
			sub, c = s.Sub[k].buildPlain(r)
		} else {
			d := &samp{Kind: vgen.Pick(r, []string{"always", "never", "custom"}), Dec: r.Intn(3)}
			sub, c = d.build(nil), d.coq()
		}
		opts = append(opts, mk[k](sub))
		coq = append(coq, vgen.App(names[k], c))
	}
	root, rc := s.Sub[0].buildPlain(r)
	return sdktrace.ParentBased(root, opts...), vgen.App("parent_based_with", rc, vgen.List(coq))
}

// ---- programs ------------------------------------------------------------------

type ctxPlan struct {
	TID, SID string // hex
	Flags    byte
	TS       string
	Remote   bool
}
type opPlan struct {
	Kind      int // 0 none, 1 span Idx, 2 context, 3 nil context
	Idx       int
	Ctx       ctxPlan
	NewRoot   bool
	Cancelled bool // the context handed to Start is already cancelled
	Noise     int  // start options that must not matter: span kind, attributes, links, timestamp (bit set)
	Tracer    int  // which of the provider's tracers
	EndFirst  bool // End the span right after Start: children started later from its context have an ENDED parent
	EndTwice  bool
}
type plan struct {
	Ops      []opPlan
	Gens     [][2]string // hex trace id, hex span id
	Blocking bool        // batch processor built WithBlocking (enqueueBlockOnQueueFull) or not (enqueueDrop)
	Plain    bool        // sampler built without recorders (answers not observed), see buildPlain
	Seed     uint64      // for the choices buildPlain makes
	Stock    bool        // use the SDK's stock random ID generator over the scripted source below
	Words    []uint64    // 63-bit words the source answers, then Fill for ever
	Fill     uint64
}

// scriptSrc is a counting rand.Source answering a script.
type scriptSrc struct {
	words []uint64
	fill  uint64
	n     int
}

func (s *scriptSrc) Int63() int64 {
	v := s.fill
	if s.n < len(s.words) {
		v = s.words[s.n]
	}
	s.n++
	return int64(v & (1<<63 - 1))
}
func (s *scriptSrc) Seed(int64) {}

type spanObs struct {
	TID, SID  string
	Flags     byte
	TS        string
	Remote    bool
	Recording bool
	HasAns    bool
	Dec       int
	AnsTS     string
	Path      []uint64
	HasRef    bool // a TraceIDRatioBased delegate answered: Ref is its answer for the same trace id without a parent
	Ref       bool
}
type callObs struct {
	IDs bool
	Arg string
}
type progObs struct {
	Spans     []spanObs
	Exp1      []string
	Exp2      []string
	Calls     []callObs
	recBefore []bool // IsRecording observed before an early End
	Problems  []string
	GenOutrun bool
	Consumed  int
	EnvErr    bool // an error reached the global error handler while the provider was built
}

type planGen struct {
	plan  [][2]string
	k     int
	calls []callObs
	out   bool
}

func (g *planGen) next() (trace.TraceID, trace.SpanID) {
	var t trace.TraceID
	var s trace.SpanID
	if g.k >= len(g.plan) {
		g.out = true
		s[7] = 0xee
		t[15] = 0xee
		return t, s
	}
	tb, _ := hex.DecodeString(g.plan[g.k][0])
	sb, _ := hex.DecodeString(g.plan[g.k][1])
	copy(t[:], tb)
	copy(s[:], sb)
	g.k++
	return t, s
}
func (g *planGen) NewIDs(ctx context.Context) (trace.TraceID, trace.SpanID) {
	g.calls = append(g.calls, callObs{IDs: true})
	return g.next()
}
func (g *planGen) NewSpanID(ctx context.Context, tid trace.TraceID) trace.SpanID {
	g.calls = append(g.calls, callObs{IDs: false, Arg: hex.EncodeToString(tid[:])})
	_, s := g.next()
	return s
}

type idExporter struct {
	ids []string
	idx []int // start index of each exported span, read from its name ("s<index>")
}

func (e *idExporter) ExportSpans(_ context.Context, spans []sdktrace.ReadOnlySpan) error {
	for _, s := range spans {
		sid := s.SpanContext().SpanID()
		e.ids = append(e.ids, hex.EncodeToString(sid[:]))
		n, err := strconv.Atoi(strings.TrimPrefix(s.Name(), "s"))
		if err != nil {
			n = 1 << 30
		}
		e.idx = append(e.idx, n)
	}
	return nil
}
func (e *idExporter) Shutdown(context.Context) error { return nil }

func mkSpanContext(c ctxPlan) trace.SpanContext {
	var t trace.TraceID
	var s trace.SpanID
	tb, _ := hex.DecodeString(c.TID)
	sb, _ := hex.DecodeString(c.SID)
	copy(t[:], tb)
	copy(s[:], sb)
	ts, err := trace.ParseTraceState(c.TS)
	if err != nil {
		panic(err)
	}
	return trace.NewSpanContext(trace.SpanContextConfig{TraceID: t, SpanID: s, TraceFlags: trace.TraceFlags(c.Flags), TraceState: ts, Remote: c.Remote})
}

// runProgram runs p on a fresh provider. s == nil: no WithSampler (the
// environment / default decides) and no recorder.
func runProgram(s *samp, p plan) progObs {
	var o progObs
	rec := &recorder{}
	gen := &planGen{plan: p.Gens}
	e1, e2 := &idExporter{}, &idExporter{}
	bopts := []sdktrace.BatchSpanProcessorOption{sdktrace.WithBatchTimeout(time.Hour), sdktrace.WithMaxQueueSize(4096), sdktrace.WithMaxExportBatchSize(512)}
	if p.Blocking {
		bopts = append(bopts, sdktrace.WithBlocking())
	}
	bsp := sdktrace.NewBatchSpanProcessor(e2, bopts...)
	var idgen sdktrace.IDGenerator = gen
	var src *scriptSrc
	if p.Stock {
		src = &scriptSrc{words: p.Words, fill: p.Fill}
		idgen = sdktrace.NewRandomIDGeneratorForVerif(src)
	}
	opts := []sdktrace.TracerProviderOption{sdktrace.WithIDGenerator(idgen),
		sdktrace.WithSpanProcessor(sdktrace.NewSimpleSpanProcessor(e1)), sdktrace.WithSpanProcessor(bsp)}
	if s != nil && p.Plain {
		ps, _ := s.buildPlain(vgen.NewRand(p.Seed))
		opts = append(opts, sdktrace.WithSampler(ps))
	} else if s != nil {
		opts = append(opts, sdktrace.WithSampler(recSampler{inner: s.build(rec), rec: rec}))
	}
	var handled int32
	if s == nil { // environment scenario (child process): watch the global error handler
		otel.SetErrorHandler(otel.ErrorHandlerFunc(func(error) { atomic.AddInt32(&handled, 1) }))
	}
	tp := sdktrace.NewTracerProvider(opts...)
	o.EnvErr = atomic.LoadInt32(&handled) > 0
	trs := []trace.Tracer{tp.Tracer("c09"), tp.Tracer("c09/other", trace.WithInstrumentationVersion("2"))}
	bg := context.Background()
	var ctxs []context.Context
	var spans []trace.Span
	for _, op := range p.Ops {
		ctx := bg
		switch op.Kind {
		case 1:
			ctx = ctxs[op.Idx]
		case 2:
			ctx = trace.ContextWithSpanContext(bg, mkSpanContext(op.Ctx))
		}
		var so []trace.SpanStartOption
		if op.NewRoot {
			so = append(so, trace.WithNewRoot())
		}
		if op.Noise&1 != 0 {
			so = append(so, trace.WithSpanKind(trace.SpanKind(1+op.Noise%5)))
		}
		if op.Noise&2 != 0 {
			so = append(so, trace.WithAttributes(attribute.String("sampling.priority", "1"), attribute.Bool("sampled", true)))
		}
		if op.Noise&4 != 0 {
			so = append(so, trace.WithLinks(trace.Link{SpanContext: mkSpanContext(ctxPlan{TID: strings.Repeat("ab", 16), SID: strings.Repeat("cd", 8), Flags: 1, TS: "l=1", Remote: true})}))
		}
		if op.Noise&8 != 0 {
			so = append(so, trace.WithTimestamp(time.Unix(1, 0)))
		}
		if op.Cancelled && op.Kind != 3 {
			cc, cancel := context.WithCancel(ctx)
			cancel()
			ctx = cc
		}
		if op.Kind == 3 {
			ctx = nil //nolint:staticcheck // Start documents that a nil context is treated as Background
		}
		c, sp := trs[op.Tracer%2].Start(ctx, fmt.Sprintf("s%d", len(spans)), so...)
		ctxs = append(ctxs, c)
		spans = append(spans, sp)
		if op.EndFirst {
			o.recBefore = append(o.recBefore, sp.IsRecording())
			sp.End()
		} else {
			o.recBefore = append(o.recBefore, false)
		}
		if !trace.SpanContextFromContext(c).Equal(sp.SpanContext()) {
			o.Problems = append(o.Problems, "the returned context does not hold the started span")
		}
	}
	for i, sp := range spans {
		sc := sp.SpanContext()
		tid, sid := sc.TraceID(), sc.SpanID()
		so := spanObs{TID: hex.EncodeToString(tid[:]), SID: hex.EncodeToString(sid[:]), Flags: byte(sc.TraceFlags()),
			TS: sc.TraceState().String(), Remote: sc.IsRemote(), Recording: sp.IsRecording()}
		if p.Ops[i].EndFirst {
			so.Recording = o.recBefore[i]
		}
		if s != nil && !p.Plain && i < len(rec.answers) {
			a := rec.answers[i]
			so.HasAns, so.Dec, so.AnsTS, so.Path = true, int(a.d), a.ts, a.path
			if leaf := s.leafAt(a.path); leaf != nil && leaf.Kind == "ratio" {
				rd := sdktrace.TraceIDRatioBased(math.Float64frombits(leaf.Bits)).ShouldSample(
					sdktrace.SamplingParameters{ParentContext: context.Background(), TraceID: tid})
				so.HasRef, so.Ref = true, rd.Decision == sdktrace.RecordAndSample
			}
			if a.tid != tid {
				o.Problems = append(o.Problems, fmt.Sprintf("span %d: the sampler was asked about trace id %s but the span carries %s", i, a.tid, tid))
			}
		}
		o.Spans = append(o.Spans, so)
	}
	if s != nil && !p.Plain && len(rec.answers) != len(spans) {
		o.Problems = append(o.Problems, fmt.Sprintf("%d Starts but the sampler was asked %d times", len(spans), len(rec.answers)))
	}
	for i, sp := range spans {
		if !p.Ops[i].EndFirst {
			sp.End()
		}
		if p.Ops[i].EndTwice {
			sp.End() // a second End must not export the span again
		}
	}
	for _, sp := range spans {
		if sp.IsRecording() {
			o.Problems = append(o.Problems, "a span is still recording after End")
		}
	}
	_ = tp.ForceFlush(bg)
	_ = tp.Shutdown(bg)
	// exporter contents in start order (spans ended early are exported early; the order is not a clause of the property)
	// (every span is named after its start index, so this is exact also when scripted span ids repeat)
	reorder := func(e *idExporter) []string {
		perm := make([]int, len(e.ids))
		for i := range perm {
			perm[i] = i
		}
		sort.SliceStable(perm, func(a, b int) bool { return e.idx[perm[a]] < e.idx[perm[b]] })
		out := make([]string, 0, len(perm))
		for _, k := range perm {
			out = append(out, e.ids[k])
		}
		return out
	}
	e1.ids, e2.ids = reorder(e1), reorder(e2)
	o.Exp1, o.Exp2, o.Calls, o.GenOutrun = e1.ids, e2.ids, gen.calls, gen.out
	if src != nil {
		o.Consumed = src.n
	}
	return o
}

// ---- Coq terms -----------------------------------------------------------------

func hx(h string) string { b, _ := hex.DecodeString(h); return vgen.Hx(b) }

func (c ctxPlan) coq() string {
	return vgen.App("Build_spanctx", hx(c.TID), hx(c.SID), vgen.N(uint64(c.Flags)), vgen.HxS(c.TS), vgen.Bool(c.Remote))
}

func (p plan) opsCoq() string {
	var items []string
	for _, op := range p.Ops {
		par := "PNone"
		switch op.Kind {
		case 1:
			par = vgen.App("PSpan", vgen.Nat(op.Idx))
		case 2:
			par = vgen.App("PCtx", op.Ctx.coq())
		} // 3 (nil context): PNone
		items = append(items, vgen.App("Build_start_op", par, vgen.Bool(op.NewRoot)))
	}
	return vgen.List(items)
}

func (p plan) gensCoq() string {
	var items []string
	for _, g := range p.Gens {
		items = append(items, vgen.Pair(hx(g[0]), hx(g[1])))
	}
	return vgen.List(items)
}

func hexList(l []string) string {
	var items []string
	for _, h := range l {
		items = append(items, hx(h))
	}
	return vgen.List(items)
}

func (o progObs) coqTail() []string {
	var sp, calls []string
	for _, s := range o.Spans {
		ref := vgen.None
		if s.HasRef {
			ref = vgen.Some(vgen.Bool(s.Ref))
		}
		ans := vgen.None
		if s.HasAns {
			var path []string
			for _, k := range s.Path {
				path = append(path, vgen.N(k))
			}
			ans = vgen.Some("(" + vgen.N(uint64(s.Dec)) + ", " + vgen.HxS(s.AnsTS) + ", " + vgen.List(path) + ")")
		}
		sp = append(sp, vgen.App("Build_span_obs",
			vgen.App("Build_octx", hx(s.TID), hx(s.SID), vgen.N(uint64(s.Flags)), vgen.HxS(s.TS), vgen.Bool(s.Remote)),
			vgen.Bool(s.Recording), ans, ref))
	}
	for _, c := range o.Calls {
		calls = append(calls, vgen.Pair(vgen.Bool(c.IDs), hx(c.Arg)))
	}
	return []string{vgen.List(sp), hexList(o.Exp1), hexList(o.Exp2), vgen.List(calls)}
}

// ---- generators ------------------------------------------------------------------

func bitsOf(f float64) uint64 { return math.Float64bits(f) }

// boundOf: floor(f * 2^63) computed exactly with math/big (independent of the implementation).
func boundOf(bits uint64) (always bool, b uint64) {
	f := math.Float64frombits(bits)
	if f >= 1 {
		return true, 0
	}
	if !(f > 0) {
		return false, 0
	}
	bf := new(big.Float).SetPrec(200).SetFloat64(f)
	bf.SetMantExp(bf, 63)
	i, _ := bf.Int(nil)
	return false, i.Uint64()
}

var p63 = math.Ldexp(1, -63)

var specialRatios = []uint64{
	0, 1, 2, 1<<52 - 1, 1 << 52, 1<<52 + 1, // zero, subnormals, smallest normals
	bitsOf(p63), bitsOf(p63) - 1, bitsOf(p63) + 1, bitsOf(p63 / 2), bitsOf(p63 * 2), bitsOf(p63 * 3), bitsOf(p63*2) - 1, bitsOf(math.Ldexp(1, -62)) + 1,
	bitsOf(math.Ldexp(1, -11)), bitsOf(math.Ldexp(1, -10)) - 1, bitsOf(math.Ldexp(1, -10)), bitsOf(math.Ldexp(1, -10)) + 1, bitsOf(math.Ldexp(1, -9)),
	bitsOf(0.5) - 1, bitsOf(0.5), bitsOf(0.5) + 1, bitsOf(0.25), bitsOf(0.75), bitsOf(0.1), bitsOf(1.0 / 3), bitsOf(0.9999), bitsOf(1e-9), bitsOf(1e-19), bitsOf(1e-30),
	bitsOf(1) - 2, bitsOf(1) - 1, bitsOf(1), bitsOf(1) + 1, bitsOf(2), bitsOf(1e300), bitsOf(math.MaxFloat64), bitsOf(math.Inf(1)),
	1 << 63, 1<<63 | 1, bitsOf(-p63), bitsOf(-0.5), bitsOf(-1), bitsOf(-1e300), bitsOf(math.Inf(-1)),
}

func genRatio(r *vgen.Rand) uint64 {
	switch r.Intn(10) {
	case 0, 1, 2:
		return vgen.Pick(r, specialRatios)
	case 3: // any non-NaN pattern
		for {
			b := r.U64()
			if !math.IsNaN(math.Float64frombits(b)) {
				return b
			}
		}
	case 4: // tiny: exponents around 2^-63
		e := uint64(1023 - 70 + r.Intn(16))
		return e<<52 | r.U64()&(1<<52-1)
	case 5: // neighbours of a power of two
		e := uint64(1023 - 1 - r.Intn(64))
		return e<<52 + uint64(r.Intn(5)) - 2
	default: // (0,1) with a random mantissa
		e := uint64(1023 - 1 - r.Intn(12))
		m := r.U64() & (1<<52 - 1)
		if r.Chance(1, 3) {
			m &= ^uint64(0) << uint(r.Intn(52))
		}
		return e<<52 | m
	}
}

func neighbour(r *vgen.Rand, bits uint64) uint64 {
	switch r.Intn(6) {
	case 0:
		return bits
	case 1:
		if bits&(1<<63-1) != 0 {
			return bits - 1
		}
		return bits
	case 2:
		if !math.IsNaN(math.Float64frombits(bits + 1)) {
			return bits + 1
		}
		return bits
	case 3:
		if !math.IsNaN(math.Float64frombits(bits ^ 1<<63)) {
			return bits ^ 1<<63
		}
		return bits
	default:
		return genRatio(r)
	}
}

// tidAround: a trace id whose 63-bit coordinate is x (+ the ignored low bit and a random high half).
func tidWith(r *vgen.Rand, x uint64, lowbit uint64) trace.TraceID {
	var t trace.TraceID
	binary.BigEndian.PutUint64(t[0:8], r.U64())
	binary.BigEndian.PutUint64(t[8:16], x<<1|lowbit&1)
	if r.Chance(1, 10) {
		binary.BigEndian.PutUint64(t[0:8], 0)
	}
	return t
}

func genCoord(r *vgen.Rand, ratios ...uint64) uint64 {
	const top = uint64(1)<<63 - 1
	switch r.Intn(8) {
	case 0:
		return vgen.Pick(r, []uint64{0, 1, 2, top, top - 1, 1 << 62, 1<<62 - 1, 1<<62 + 1})
	case 1:
		return r.U64() >> 1
	default:
		_, b := boundOf(vgen.Pick(r, ratios))
		x := b + uint64(r.Intn(5)) - 2 // b-2 .. b+2 (wraps around 0: masked below)
		return x & top
	}
}

var tsPool = []string{"", "", "a=1", "k=v,x=y", "rojo=00f067aa0ba902b7,congo=t61rcWkgMzE"}
var customTS = []string{"", "s=1", "q=z,a=2"}

func ratiosIn(s *samp, acc []uint64) []uint64 {
	if s.Kind == "ratio" {
		acc = append(acc, s.Bits)
	}
	for _, c := range s.Sub {
		acc = ratiosIn(c, acc)
	}
	return acc
}

func genLeaf(r *vgen.Rand) *samp {
	switch r.Intn(7) {
	case 0:
		return &samp{Kind: "always"}
	case 1:
		return &samp{Kind: "never"}
	case 2, 3:
		return &samp{Kind: "ratio", Bits: genRatio(r)}
	default:
		c := &samp{Kind: "custom", Dec: r.Intn(3)}
		if r.Chance(1, 6) { // a decision outside the three defined values
			c.Dec = vgen.Pick(r, []int{3, 4, 255, 128})
		}
		if r.Chance(1, 2) {
			ts := vgen.Pick(r, customTS)
			c.TS = &ts
		}
		return c
	}
}

func genSampler(r *vgen.Rand, depth int) *samp {
	if depth > 0 && r.Chance(3, 5) {
		switch r.Intn(4) {
		case 0: // ParentBased(root) with the default options
			return &samp{Kind: "parent", Sub: []*samp{genLeaf(r), {Kind: "always"}, {Kind: "never"}, {Kind: "always"}, {Kind: "never"}}}
		default:
			var sub []*samp
			for i := 0; i < 5; i++ {
				sub = append(sub, genSampler(r, depth-1))
			}
			return &samp{Kind: "parent", Sub: sub}
		}
	}
	return genLeaf(r)
}

func hex16(r *vgen.Rand) string {
	b := make([]byte, 16)
	binary.BigEndian.PutUint64(b[0:8], r.U64())
	binary.BigEndian.PutUint64(b[8:16], r.U64())
	return hex.EncodeToString(b)
}

func genCtx(r *vgen.Rand, ratios []uint64) ctxPlan {
	c := ctxPlan{Flags: vgen.Pick(r, []byte{0, 1, 0, 1, 2, 3, 0xfe, 0xff, 0x80, 0x81}), TS: vgen.Pick(r, tsPool), Remote: r.Bool()}
	t := tidWith(r, genCoord(r, ratios...), r.U64())
	c.TID = hex.EncodeToString(t[:])
	sid := make([]byte, 8)
	binary.BigEndian.PutUint64(sid, r.U64()|1)
	c.SID = hex.EncodeToString(sid)
	switch r.Intn(12) {
	case 0: // no trace id, no span id: not a parent
		c.TID, c.SID = strings.Repeat("0", 32), strings.Repeat("0", 16)
	case 1: // a span id without a trace id: not a parent either
		c.TID = strings.Repeat("0", 32)
	}
	// (a trace id with a zero span id is outside the property's quantifier: DESIGN section 7, C09)
	return c
}

func genPlan(r *vgen.Rand, n int, ratios []uint64) plan {
	var p plan
	p.Blocking = r.Bool()
	if len(ratios) == 0 {
		ratios = []uint64{bitsOf(0.5)}
	}
	zeroSID := false
	for i := 0; i < n; i++ {
		op := opPlan{}
		switch k := r.Intn(10); {
		case k < 2 || i == 0 && k < 5:
			op.Kind = 0
		case k < 7 && i > 0:
			op.Kind, op.Idx = 1, r.Intn(i)
			if r.Chance(1, 2) {
				op.Idx = i - 1 // deep chains
			}
		default:
			op.Kind, op.Ctx = 2, genCtx(r, ratios)
		}
		op.NewRoot = r.Chance(1, 8)
		if op.Kind == 0 && r.Chance(1, 6) {
			op.Kind = 3
		}
		op.Cancelled = r.Chance(1, 8)
		if r.Chance(1, 3) {
			op.Noise = r.Intn(16)
		}
		op.Tracer = r.Intn(2)
		op.EndTwice = r.Chance(1, 6)
		op.EndFirst = r.Chance(1, 4)
		p.Ops = append(p.Ops, op)
		t := tidWith(r, genCoord(r, ratios...), r.U64())
		sid := make([]byte, 8)
		binary.BigEndian.PutUint64(sid, uint64(i+1)<<32|uint64(r.Intn(1<<16))<<8|1)
		g := [2]string{hex.EncodeToString(t[:]), hex.EncodeToString(sid)}
		if !zeroSID && r.Chance(1, 60) {
			g[1] = strings.Repeat("0", 16) // a generator answering a zero span id is used unchanged (at most once: ids stay distinct)
			zeroSID = true
		}
		if r.Chance(1, 60) {
			g[0] = strings.Repeat("0", 32)
		}
		p.Gens = append(p.Gens, g)
	}
	return p
}

func (p plan) describe() []string {
	var out []string
	for i, op := range p.Ops {
		s := "root"
		switch op.Kind {
		case 3:
			s = "root (nil context)"
		case 1:
			s = fmt.Sprintf("child of #%d", op.Idx)
		case 2:
			s = fmt.Sprintf("parent ctx %s/%s flags=%#x ts=%q remote=%v", op.Ctx.TID, op.Ctx.SID, op.Ctx.Flags, op.Ctx.TS, op.Ctx.Remote)
		}
		if op.NewRoot {
			s += " +newroot"
		}
		if op.Cancelled {
			s += " +cancelled-ctx"
		}
		if op.Noise != 0 {
			s += fmt.Sprintf(" +options(%#x)", op.Noise)
		}
		if op.EndTwice {
			s += " +end-twice"
		}
		if op.EndFirst {
			s += " +ended-before-the-next-start"
		}
		if i < len(p.Gens) {
			s += fmt.Sprintf(" gen=%s/%s", p.Gens[i][0], p.Gens[i][1])
		}
		out = append(out, fmt.Sprintf("#%d %s", i, s))
	}
	return out
}

// ---- env child ---------------------------------------------------------------------

func childMain() {
	var p plan
	if err := json.NewDecoder(os.Stdin).Decode(&p); err != nil {
		fmt.Fprintln(os.Stderr, "child: bad plan:", err)
		os.Exit(3)
	}
	o := runProgram(nil, p)
	_ = json.NewEncoder(os.Stdout).Encode(o)
}

func runEnvChild(name, arg *string, p plan) (progObs, error) {
	var o progObs
	cmd := exec.Command(os.Args[0], "-child-env")
	var env []string
	for _, e := range os.Environ() {
		if !strings.HasPrefix(e, "OTEL_") {
			env = append(env, e)
		}
	}
	if name != nil {
		env = append(env, "OTEL_TRACES_SAMPLER="+*name)
	}
	if arg != nil {
		env = append(env, "OTEL_TRACES_SAMPLER_ARG="+*arg)
	}
	cmd.Env = env
	b, _ := json.Marshal(p)
	cmd.Stdin = strings.NewReader(string(b))
	cmd.Stderr = nil
	ctx, cancel := context.WithTimeout(context.Background(), 60*time.Second)
	defer cancel()
	done := make(chan error, 1)
	var out []byte
	go func() {
		var err error
		out, err = cmd.Output()
		done <- err
	}()
	select {
	case err := <-done:
		if err != nil {
			return o, fmt.Errorf("child failed: %v", err)
		}
	case <-ctx.Done():
		_ = cmd.Process.Kill()
		return o, fmt.Errorf("child hung")
	}
	if err := json.Unmarshal(out, &o); err != nil {
		return o, fmt.Errorf("child output: %v", err)
	}
	return o, nil
}

// ---- main ------------------------------------------------------------------------

func main() {
	flag.Bool("child-env", false, "internal: run one program (read from stdin) under the current environment")
	if len(os.Args) > 1 && os.Args[1] == "-child-env" {
		childMain()
		return
	}
	o := vgen.ParseFlags()
	r := vgen.NewRand(o.Seed)
	w := vgen.NewWriter(o.Out, "Lib.Float64Bits C09.Model C09.Spec C09.Corr", "case", 120)
	w.Rule = "ratios as raw bit patterns (0, subnormals, neighbours of 2^-63 and of powers of two, 0.5 +- ulp, 1 -+ ulp, > 1, negatives, +-Inf, random) with trace ids at and around floor(r*2^63) (both sides, ignored low bit flipped); " +
		"span trees (absent / local / remote / hand-made parents with any flags and tracestate, new roots) under sampler compositions (ParentBased with all five delegates, custom samplers answering each decision and tracestate) with a planned ID generator, simple + batch processors; " +
		"the OTEL_TRACES_SAMPLER table in child processes; a case is non-trivial when at least one decision is 'sampled' and one is not (ratio pairs / samples) or the program started a child or used a hand-made parent; distinct = distinct Coq case terms"

	guard := func(desc map[string]any, f func()) {
		defer func() {
			if e := recover(); e != nil {
				w.Violation(fmt.Sprintf("panic: %v", e), desc)
			}
		}()
		f()
	}

	decide := func(bits uint64, t trace.TraceID) bool {
		s := sdktrace.TraceIDRatioBased(math.Float64frombits(bits))
		return s.ShouldSample(sdktrace.SamplingParameters{ParentContext: context.Background(), TraceID: t}).Decision == sdktrace.RecordAndSample
	}
	addRatio := func(r1, r2 uint64, t trace.TraceID, kind string) {
		desc := map[string]any{"op": "ratio", "r1": fmt.Sprintf("%#x=%g", r1, math.Float64frombits(r1)), "r2": fmt.Sprintf("%#x=%g", r2, math.Float64frombits(r2)), "trace_id": t.String()}
		guard(desc, func() {
			d1, d2 := decide(r1, t), decide(r2, t)
			// another trace id with the same 63-bit coordinate: other high half, usually the ignored low bit flipped;
			// now and then one with a different coordinate but the same high half
			t2 := t
			binary.BigEndian.PutUint64(t2[0:8], r.U64())
			if r.Chance(2, 3) {
				t2[15] ^= 1
			}
			if r.Chance(1, 8) {
				t2 = t
				binary.BigEndian.PutUint64(t2[8:16], r.U64())
			}
			d1b := decide(r1, t2)
			desc["d1"], desc["d2"], desc["trace_id_2"], desc["d1_2"] = d1, d2, t2.String(), d1b
			w.Tally(fmt.Sprintf("ratio:d1=%v,d2=%v", d1, d2))
			w.Add(vgen.App("CRatio", vgen.N(r1), vgen.N(r2), vgen.Hx(t[:]), vgen.Bool(d1), vgen.Bool(d2), vgen.Hx(t2[:]), vgen.Bool(d1b)), desc, kind, d1 != d2 || r1 == r2)
		})
	}

	// corpus: every special ratio at coordinate 0, at its bound and one below, and at the top
	for _, b := range specialRatios {
		_, bd := boundOf(b)
		for _, x := range []uint64{0, bd, bd - 1, 1<<63 - 1} {
			addRatio(b, b, tidWith(r, x&(1<<63-1), x), "ratio-corpus")
		}
	}
	nRatio := o.Count(2400, 60000)
	for i := 0; i < nRatio; i++ {
		r1 := genRatio(r)
		r2 := neighbour(r, r1)
		addRatio(r1, r2, tidWith(r, genCoord(r, r1, r2), r.U64()), "ratio")
	}

	// share
	nShare := o.Count(24, 400)
	for i := 0; i < nShare; i++ {
		bits := vgen.Pick(r, []uint64{bitsOf(0.1), bitsOf(0.25), bitsOf(0.5), bitsOf(0.75), bitsOf(0.9), 0, bitsOf(1), bitsOf(0.999), bitsOf(0.6)})
		if r.Chance(1, 3) {
			bits = bitsOf(float64(r.Intn(1000)) / 1000)
		}
		desc := map[string]any{"op": "share", "ratio": fmt.Sprintf("%#x=%g", bits, math.Float64frombits(bits))}
		guard(desc, func() {
			var ts, ds []string
			n := 0
			for j := 0; j < 256; j++ {
				var t trace.TraceID
				binary.BigEndian.PutUint64(t[0:8], r.U64())
				binary.BigEndian.PutUint64(t[8:16], r.U64())
				d := decide(bits, t)
				if d {
					n++
				}
				ts = append(ts, vgen.Hx(t[:]))
				ds = append(ds, vgen.Bool(d))
			}
			desc["sampled_of_256"] = n
			w.Tally("share")
			w.Add(vgen.App("CShare", vgen.N(bits), vgen.List(ts), vgen.List(ds)), desc, "share", n > 0 && n < 256)
		})
	}

	// programs
	addProg := func(s *samp, p plan, kind string) {
		desc := map[string]any{"op": "program", "sampler": s.String(), "starts": p.describe()}
		guard(desc, func() {
			ob := runProgram(s, p)
			for _, pr := range ob.Problems {
				w.Violation(pr, desc)
			}
			sc := s.coq()
			if p.Plain { // the sampler as it was spelled: ParentBased(root, options...) with the options actually passed
				_, sc = s.buildPlain(vgen.NewRand(p.Seed))
				desc["sampler"] = sc
			}
			args := append([]string{vgen.Bool(!p.Plain), sc, p.gensCoq(), p.opsCoq()}, ob.coqTail()...)
			nontriv := false
			for _, op := range p.Ops {
				if op.Kind != 0 {
					nontriv = true
				}
			}
			w.Tally(fmt.Sprintf("program:starts<=%d", (len(p.Ops)+3)/4*4))
			for _, sp := range ob.Spans {
				if sp.HasAns {
					w.Tally("decision:" + decName(sp.Dec))
				}
			}
			w.Add(vgen.App("CProg", args...), desc, kind, nontriv)
		})
	}
	// corpus: default sampler shapes with every parent shape
	{
		half := bitsOf(0.5)
		_, bd := boundOf(half)
		mk := func(x uint64) string { t := tidWith(r, x, 0); return hex.EncodeToString(t[:]) }
		var p plan
		for i, x := range []uint64{bd - 1, bd, 0, 1<<63 - 1} {
			p.Ops = append(p.Ops, opPlan{Kind: 0})
			p.Gens = append(p.Gens, [2]string{mk(x), fmt.Sprintf("%016x", i+1)})
		}
		for i, c := range []ctxPlan{
			{TID: mk(bd - 1), SID: "00000000000000a1", Flags: 1, TS: "a=1", Remote: true},
			{TID: mk(bd - 1), SID: "00000000000000a2", Flags: 0, TS: "a=1", Remote: true},
			{TID: mk(bd), SID: "00000000000000a3", Flags: 0xff, TS: "", Remote: false},
			{TID: mk(bd), SID: "00000000000000a4", Flags: 0xfe, TS: "k=v,x=y", Remote: false},
		} {
			p.Ops = append(p.Ops, opPlan{Kind: 2, Ctx: c})
			p.Gens = append(p.Gens, [2]string{mk(5), fmt.Sprintf("%016x", 100+i)})
			p.Ops = append(p.Ops, opPlan{Kind: 1, Idx: len(p.Ops) - 1})
			p.Gens = append(p.Gens, [2]string{mk(5), fmt.Sprintf("%016x", 200+i)})
			p.Ops = append(p.Ops, opPlan{Kind: 2, Ctx: c, NewRoot: true})
			p.Gens = append(p.Gens, [2]string{mk(bd - 1), fmt.Sprintf("%016x", 300+i)})
		}
		for _, s := range []*samp{
			{Kind: "always"}, {Kind: "never"}, {Kind: "ratio", Bits: half},
			{Kind: "parent", Sub: []*samp{{Kind: "ratio", Bits: half}, {Kind: "always"}, {Kind: "never"}, {Kind: "always"}, {Kind: "never"}}},
			{Kind: "parent", Sub: []*samp{{Kind: "never"}, {Kind: "always"}, {Kind: "never"}, {Kind: "always"}, {Kind: "never"}}},
			{Kind: "custom", Dec: 1}, {Kind: "custom", Dec: 0}, {Kind: "custom", Dec: 2},
			{Kind: "custom", Dec: 3}, {Kind: "custom", Dec: 4}, {Kind: "custom", Dec: 255},
			{Kind: "parent", Sub: []*samp{{Kind: "custom", Dec: 3}, {Kind: "custom", Dec: 255}, {Kind: "custom", Dec: 4}, {Kind: "custom", Dec: 3}, {Kind: "custom", Dec: 255}}},
		} {
			addProg(s, p, "program-corpus")
		}
	}
	nProg := o.Count(320, 8000)
	for i := 0; i < nProg; i++ {
		s := genSampler(r, 2)
		n := r.Intn(10) + 1
		if r.Chance(1, 15) {
			n = 40
		}
		pl := genPlan(r, n, ratiosIn(s, nil))
		kind := "program"
		if r.Chance(1, 4) {
			pl.Plain, pl.Seed, kind = true, r.U64(), "program-plain"
		}
		addProg(s, pl, kind)
	}

	// tracestate on every decision: the ratio sampler used directly (and behind ParentBased, and the constant
	// samplers), parents with a non-empty tracestate, trace ids on both sides of the bound
	nTS := o.Count(160, 4000)
	for i := 0; i < nTS; i++ {
		bits := genRatio(r)
		if r.Chance(1, 2) {
			bits = vgen.Pick(r, []uint64{0, bitsOf(p63 * 3), bitsOf(0.5), bitsOf(1), bitsOf(0.5), bitsOf(0.25), bitsOf(0.001), bitsOf(0.999)})
		}
		var s *samp
		switch r.Intn(6) {
		case 0:
			s = &samp{Kind: "never"}
		case 1:
			s = &samp{Kind: "parent", Sub: []*samp{{Kind: "ratio", Bits: bits}, {Kind: "always"}, {Kind: "never"}, {Kind: "always"}, {Kind: "never"}}}
		case 2:
			s = &samp{Kind: "parent", Sub: []*samp{{Kind: "never"}, {Kind: "ratio", Bits: bits}, {Kind: "ratio", Bits: bits}, {Kind: "ratio", Bits: bits}, {Kind: "ratio", Bits: bits}}}
		default:
			s = &samp{Kind: "ratio", Bits: bits}
		}
		_, bd := boundOf(bits)
		var p plan
		p.Blocking = r.Bool()
		n := r.Intn(3) + 2 // remote and local hand-made parents, sampled and not
		for j := 0; j < n; j++ {
			x := (bd + uint64(r.Intn(4)) - 2) & (1<<63 - 1) // bd-2 .. bd+1
			t := tidWith(r, x, r.U64())
			c := ctxPlan{TID: hex.EncodeToString(t[:]), SID: fmt.Sprintf("%016x", r.U64()|1), Flags: vgen.Pick(r, []byte{0, 1, 0, 1, 0, 1, 0xfe, 0xff}),
				TS: vgen.Pick(r, []string{"a=1", "k=v,x=y", "rojo=00f067aa0ba902b7,congo=t61rcWkgMzE"}), Remote: j%2 == 0}
			p.Ops = append(p.Ops, opPlan{Kind: 2, Ctx: c})
			p.Ops = append(p.Ops, opPlan{Kind: 1, Idx: len(p.Ops) - 1})
			if r.Chance(1, 3) {
				p.Ops = append(p.Ops, opPlan{Kind: 1, Idx: len(p.Ops) - 1})
			}
		}
		for j := range p.Ops {
			t := tidWith(r, genCoord(r, bits), r.U64())
			p.Gens = append(p.Gens, [2]string{hex.EncodeToString(t[:]), fmt.Sprintf("%016x", uint64(j+1)<<32|uint64(r.Intn(1<<20))<<4|1)})
		}
		addProg(s, p, "program-tracestate")
	}

	// the stock ID generator over scripted sources: runs of zero words at every alignment
	// relative to the 16-byte and 8-byte reads
	addStock := func(s *samp, p plan, kind string) {
		desc := map[string]any{"op": "stock-generator", "sampler": s.String(), "words": fmt.Sprintf("%#x", p.Words), "starts": p.describe()}
		guard(desc, func() {
			ob := runProgram(s, p)
			for _, pr := range ob.Problems {
				w.Violation(pr, desc)
			}
			var ws []string
			for _, x := range p.Words {
				ws = append(ws, vgen.N(x))
			}
			tail := ob.coqTail()
			desc["words_consumed"] = ob.Consumed
			w.Tally("stock")
			w.Add(vgen.App("CStock", vgen.List(ws), vgen.N(p.Fill), s.coq(), p.opsCoq(), tail[0], tail[1], tail[2], vgen.N(uint64(ob.Consumed))),
				desc, kind, true)
		})
	}
	const fillWord = 0x0101010101010101 & (1<<63 - 1)
	nz := func() uint64 {
		switch r.Intn(4) {
		case 0:
			return uint64(1) << (8 * uint(r.Intn(7))) // a single non-zero byte
		case 1:
			return uint64(0xff) << (8 * uint(r.Intn(7)))
		case 2:
			return 1 << 56 // only bits above the seven bytes Read uses: reads as zero bytes
		default:
			return r.U64()>>1 | 1
		}
	}
	stockOps := func(n int) []opPlan {
		var ops []opPlan
		for i := 0; i < n; i++ {
			op := opPlan{}
			switch k := r.Intn(6); {
			case k < 2 || i == 0:
				op.Kind = 0
			case k < 5:
				op.Kind, op.Idx = 1, r.Intn(i)
			default:
				t := tidWith(r, r.U64()>>1, 1)
				t[0] |= 1
				op.Kind, op.Ctx = 2, ctxPlan{TID: hex.EncodeToString(t[:]), SID: fmt.Sprintf("%016x", r.U64()|1), Flags: byte(r.Intn(2)), TS: vgen.Pick(r, tsPool), Remote: r.Bool()}
			}
			op.NewRoot = r.Chance(1, 10)
			ops = append(ops, op)
		}
		return ops
	}
	stockSampler := func() *samp {
		return vgen.Pick(r, []*samp{{Kind: "always"}, {Kind: "never"},
			{Kind: "parent", Sub: []*samp{{Kind: "always"}, {Kind: "always"}, {Kind: "never"}, {Kind: "always"}, {Kind: "never"}}}})
	}
	tailWords := func(n int) []uint64 {
		var ws []uint64
		for i := 0; i < n; i++ {
			ws = append(ws, r.U64()>>1|1<<uint(r.Intn(56)))
		}
		return ws
	}
	for lead := 0; lead < 4; lead++ { // systematic: `lead` non-zero words, then a run of z zero words
		for z := 0; z <= 9; z++ {
			var ws []uint64
			for i := 0; i < lead; i++ {
				ws = append(ws, nz())
			}
			for i := 0; i < z; i++ {
				ws = append(ws, 0)
			}
			ws = append(ws, nz())
			ws = append(ws, make([]uint64, z%4)...) // a second, short run
			ws = append(ws, tailWords(24)...)
			ops := []opPlan{{Kind: 0}, {Kind: 1, Idx: 0}, {Kind: 0}, {Kind: 1, Idx: 2}, {Kind: 1, Idx: 1}, {Kind: 0, NewRoot: true}}
			if z%2 == 1 { // start with a child of a hand-made parent: the first read is the 8-byte one
				t := tidWith(r, 77, 1)
				ops[0] = opPlan{Kind: 2, Ctx: ctxPlan{TID: hex.EncodeToString(t[:]), SID: "00000000000000b1", Flags: 1, TS: "a=1", Remote: true}}
			}
			addStock(stockSampler(), plan{Ops: ops, Stock: true, Words: ws, Fill: fillWord, Blocking: r.Bool()}, "stock-corpus")
		}
	}
	nStock := o.Count(110, 3000)
	for i := 0; i < nStock; i++ {
		n := r.Intn(8) + 1
		var ws []uint64
		alt := r.Chance(1, 4)
		for j := 0; j < 10+4*n; j++ {
			switch {
			case alt && j%2 == 0, !alt && r.Chance(11, 20):
				ws = append(ws, 0)
			default:
				ws = append(ws, nz())
			}
		}
		ws = append(ws, tailWords(8)...)
		addStock(stockSampler(), plan{Ops: stockOps(n), Stock: true, Words: ws, Fill: fillWord, Blocking: r.Bool()}, "stock")
	}

	// environment table (child process per scenario)
	names := []*string{nil}
	for _, n := range []string{"always_on", "always_off", "traceidratio", "parentbased_always_on", "parentbased_always_off", "parentbased_traceidratio",
		" ALWAYS_ON ", "ParentBased_TraceIdRatio\t", "bogus", ""} {
		n := n
		names = append(names, &n)
	}
	args := []*string{nil}
	for _, a := range []string{"0.5", "0", "1", "1.5", "-0.1", "abc", " 0.25 ", "1e-30", "Inf", "-Inf", "0x1p-2", "", "0.9999999999999999", "1e-19"} {
		a := a
		args = append(args, &a)
	}
	for _, name := range names {
		for ai, arg := range args {
			isRatio := name != nil && strings.Contains(strings.ToLower(*name), "ratio")
			if o.Tier != "thorough" && !isRatio && ai > 1 {
				continue
			}
			// the parsed argument (strconv.ParseFloat is not modelled: its result is part of the input)
			argCoq := vgen.None
			ratios := []uint64{bitsOf(0.5)}
			if arg != nil {
				f, perr := strconv.ParseFloat(strings.TrimSpace(*arg), 64)
				if perr != nil {
					argCoq = vgen.Some(vgen.None)
				} else {
					if math.IsNaN(f) {
						continue // outside the guard
					}
					argCoq = vgen.Some(vgen.Some(vgen.N(bitsOf(f))))
					ratios = []uint64{bitsOf(f)}
				}
			}
			p := genPlan(r, 8, ratios)
			rawCoq := vgen.None
			if name != nil {
				rawCoq = vgen.Some(vgen.HxS(*name))
			}
			desc := map[string]any{"op": "env", "OTEL_TRACES_SAMPLER": strPtr(name), "OTEL_TRACES_SAMPLER_ARG": strPtr(arg), "starts": p.describe()}
			guard(desc, func() {
				ob, err := runEnvChild(name, arg, p)
				if err != nil {
					w.Violation("environment scenario: "+err.Error(), desc)
					return
				}
				for _, pr := range ob.Problems {
					w.Violation(pr, desc)
				}
				desc["error_reported"] = ob.EnvErr
				args := append([]string{rawCoq, argCoq, vgen.Bool(ob.EnvErr), p.gensCoq(), p.opsCoq()}, ob.coqTail()...)
				w.Tally("env")
				w.Add(vgen.App("CEnv", args...), desc, "env", name != nil)
			})
		}
	}

	// the DEFAULT generator on several providers in this process: valid and (probabilistically)
	// pairwise distinct span ids and root trace ids across all of them - tested only
	multi := func(nProv, nSpans int) (sids []trace.SpanID, tids []trace.TraceID, bad string) {
		var tracers []trace.Tracer
		ctxs := make([]context.Context, nProv)
		for i := 0; i < nProv; i++ {
			tp := sdktrace.NewTracerProvider(sdktrace.WithSampler(vgen.Pick(r, []sdktrace.Sampler{sdktrace.NeverSample(), sdktrace.AlwaysSample()})))
			tracers = append(tracers, tp.Tracer("c09"))
			ctxs[i] = context.Background()
		}
		for i := 0; i < nSpans; i++ {
			p := i % nProv
			if r.Chance(1, 3) {
				p = r.Intn(nProv)
			}
			root := r.Chance(1, 3)
			if root {
				ctxs[p] = context.Background()
			}
			isRoot := !trace.SpanContextFromContext(ctxs[p]).IsValid()
			c, sp := tracers[p].Start(ctxs[p], "s")
			sc := sp.SpanContext()
			if !sc.IsValid() {
				bad = "default generator: invalid span context"
			}
			sids = append(sids, sc.SpanID())
			if isRoot {
				tids = append(tids, sc.TraceID())
			}
			ctxs[p] = c
		}
		return
	}
	nUniq := o.Count(3, 20)
	for i := 0; i < nUniq; i++ {
		nProv := 2 + i%3
		desc := map[string]any{"op": "default-generator", "providers": nProv}
		guard(desc, func() {
			sids, tids, bad := multi(nProv, 1200)
			if bad != "" {
				w.Violation(bad, desc)
			}
			var a, b []string
			for _, s := range sids {
				a = append(a, vgen.Hx(s[:]))
			}
			for _, t := range tids {
				b = append(b, vgen.Hx(t[:]))
			}
			w.Tally("default-generator")
			w.Add(vgen.App("CUnique", vgen.List(a), vgen.List(b)), desc, "default-generator", true)
		})
	}
	{ // larger volume, judged here
		desc := map[string]any{"op": "default-generator-volume", "providers": 4}
		guard(desc, func() {
			n := o.Count(20000, 400000)
			sids, tids, bad := multi(4, n)
			if bad != "" {
				w.Violation(bad, desc)
			}
			seenS := map[trace.SpanID]bool{}
			for _, s := range sids {
				if seenS[s] {
					w.Violation("default generator: the same span id twice in one process (several providers)", desc)
					break
				}
				seenS[s] = true
			}
			seenT := map[trace.TraceID]bool{}
			for _, t := range tids {
				if seenT[t] {
					w.Violation("default generator: the same trace id for two roots in one process (several providers)", desc)
					break
				}
				seenT[t] = true
			}
			w.Extra["default_generator_spans"] = n
		})
	}

	// concurrent starts on ONE provider with the default generator: G goroutines released by a barrier, children
	// (NewSpanID) and roots (NewIDs) mixed; a duplicate span id, an invalid id or a panic is a violation
	for round := 0; round < o.Count(2, 6); round++ {
		G := 4 + 2*(round%3) // 4, 6, 8
		total := o.Count(100000, 400000)
		desc := map[string]any{"op": "default-generator-concurrent", "goroutines": G, "spans": total}
		guard(desc, func() {
			samplers := []sdktrace.Sampler{sdktrace.NeverSample(), sdktrace.AlwaysSample()}
			tp := sdktrace.NewTracerProvider(sdktrace.WithSampler(samplers[round%2]))
			tr := tp.Tracer("c09")
			rootCtx, rootSpan := tr.Start(context.Background(), "shared-root")
			type res struct {
				sids    []trace.SpanID
				tids    []trace.TraceID
				problem string
			}
			out := make([]res, G)
			seeds := make([]uint64, G)
			for g := range seeds {
				seeds[g] = r.U64()
			}
			var wg sync.WaitGroup
			barrier := make(chan struct{})
			for g := 0; g < G; g++ {
				wg.Add(1)
				go func(g int) {
					defer wg.Done()
					defer func() {
						if e := recover(); e != nil {
							out[g].problem = fmt.Sprintf("panic in a goroutine starting spans: %v", e)
						}
					}()
					lr := vgen.NewRand(seeds[g])
					ctx := rootCtx
					<-barrier
					// first half: nothing but children of the shared root, as tight as possible (maximal contention
					// on the generator); second half: roots and deeper children mixed
					tight := total / G / 2
					out[g].sids = make([]trace.SpanID, 0, total/G+1)
					for i := 0; i < tight; i++ {
						_, sp := tr.Start(rootCtx, "s")
						out[g].sids = append(out[g].sids, sp.SpanContext().SpanID())
					}
					for i := tight; i < total/G; i++ {
						switch lr.Intn(10) {
						case 0: // a root
							ctx = context.Background()
						case 1, 2: // back under the shared root
							ctx = rootCtx
						}
						isRoot := ctx == context.Background()
						c, sp := tr.Start(ctx, "s")
						sc := sp.SpanContext()
						out[g].sids = append(out[g].sids, sc.SpanID())
						if isRoot {
							out[g].tids = append(out[g].tids, sc.TraceID())
						}
						sp.End()
						if lr.Intn(4) != 0 {
							ctx = c
						}
					}
				}(g)
			}
			close(barrier)
			wg.Wait()
			rootSpan.End()
			_ = tp.Shutdown(context.Background())
			seenS := map[trace.SpanID]bool{rootSpan.SpanContext().SpanID(): true}
			seenT := map[trace.TraceID]bool{rootSpan.SpanContext().TraceID(): true}
			dupS, dupT, n := 0, 0, 0
			var a, b []string
			for g := range out {
				if out[g].problem != "" {
					w.Violation(out[g].problem, desc)
				}
				for i, sid := range out[g].sids {
					n++
					if !sid.IsValid() {
						w.Violation("default generator under concurrent starts: invalid (zero) span id", desc)
					}
					if seenS[sid] {
						dupS++
					}
					seenS[sid] = true
					if i < 1200/G { // the first ids of every goroutine (drawn at the same time) go to Coq as well
						a = append(a, vgen.Hx(sid[:]))
					}
				}
				for i, tid := range out[g].tids {
					if seenT[tid] {
						dupT++
					}
					seenT[tid] = true
					if i < 200/G {
						b = append(b, vgen.Hx(tid[:]))
					}
				}
			}
			desc["started"], desc["duplicate_span_ids"], desc["duplicate_root_trace_ids"] = n, dupS, dupT
			if dupS > 0 {
				w.Violation(fmt.Sprintf("default generator under concurrent starts: %d duplicate span ids among %d spans of one process", dupS, n), desc)
			}
			if dupT > 0 {
				w.Violation(fmt.Sprintf("default generator under concurrent starts: %d roots share a trace id", dupT), desc)
			}
			w.Tally("default-generator-concurrent")
			w.Add(vgen.App("CUnique", vgen.List(a), vgen.List(b)), desc, "default-generator-concurrent", true)
		})
	}

	if err := w.Flush(); err != nil {
		fmt.Fprintln(os.Stderr, err)
		os.Exit(2)
	}
}

func strPtr(s *string) any {
	if s == nil {
		return nil
	}
	return *s
}
