// C03 harness: W3C trace-context propagator and TraceState vs the Coq model.
package main

import (
	"bytes"
	"context"
	"fmt"
	"net/http"
	"os"
	"strings"
	"sync"
	"time"

	"go.opentelemetry.io/otel/propagation"
	"go.opentelemetry.io/otel/trace"

	"verif/harness/vgen"
)

var prop = propagation.TraceContext{}

type extObs struct {
	Some              bool
	TID, SID          []byte
	Flags             byte
	Remote            bool
	TSStr, ReTP, ReTS string
}

func (o extObs) coq() string {
	if !o.Some {
		return "ObsNone"
	}
	return vgen.App("ObsSome", vgen.Hx(o.TID), vgen.Hx(o.SID), vgen.N(uint64(o.Flags)), vgen.Bool(o.Remote),
		vgen.HxS(o.TSStr), vgen.HxS(o.ReTP), vgen.HxS(o.ReTS))
}

func doExtract(tp, ts string) extObs {
	base := context.Background()
	c := propagation.MapCarrier{}
	if tp != "" {
		c["traceparent"] = tp
	}
	if ts != "" {
		c["tracestate"] = ts
	}
	ctx := prop.Extract(base, c)
	if ctx == base {
		return extObs{}
	}
	sc := trace.SpanContextFromContext(ctx)
	tid, sid := sc.TraceID(), sc.SpanID()
	out := propagation.MapCarrier{}
	prop.Inject(ctx, out)
	return extObs{Some: true, TID: tid[:], SID: sid[:], Flags: byte(sc.TraceFlags()), Remote: sc.IsRemote(),
		TSStr: sc.TraceState().String(), ReTP: out["traceparent"], ReTS: out["tracestate"]}
}

// ---- generators ----

const keyChars = "abcdefghijklmnopqrstuvwxyz0123456789_-*/"
const lower = "abcdefghijklmnopqrstuvwxyz"

func genKeyPart(r *vgen.Rand, first string, n int) string {
	var sb strings.Builder
	sb.WriteByte(first[r.Intn(len(first))])
	for i := 0; i < n; i++ {
		sb.WriteByte(keyChars[r.Intn(len(keyChars))])
	}
	return sb.String()
}

func genKey(r *vgen.Rand) string {
	switch r.Intn(12) {
	case 0:
		return genKeyPart(r, lower, 255) // longest simple key
	case 1:
		return genKeyPart(r, lower, 256) // one too long
	case 2:
		return genKeyPart(r, lower+"0123456789", vgen.Pick(r, []int{0, 240, 241})) + "@" + genKeyPart(r, lower, vgen.Pick(r, []int{0, 13, 14}))
	case 3:
		return genKeyPart(r, lower+"0123456789", r.Intn(5)) + "@" + genKeyPart(r, lower, r.Intn(5))
	case 4:
		// multi-byte rune whose low byte is a legal key character (š = U+0161)
		return "a" + vgen.Pick(r, []string{"š", "ű", "ı", "K"}) + genKeyPart(r, lower, r.Intn(3))
	case 5:
		return vgen.Pick(r, []string{"", "A", "1abc", "a b", "a@", "@a", "a@b@c", "a@1", "a=b", "a,b", "ab\t", "K", "a\x00", "a\x7f", "a\xff"})
	default:
		return genKeyPart(r, lower, r.Intn(6))
	}
}

func genValue(r *vgen.Rand) string { return genValueN(r, 12) }

// genValueN: boundary lengths (256/257) and odd values with probability 3/den.
func genValueN(r *vgen.Rand, den int) string {
	n := r.Intn(8) + 1
	switch r.Intn(den) {
	case 0:
		n = 256
	case 1:
		n = 257
	case 2:
		return vgen.Pick(r, []string{"", " ", "a ", " a", "a\tb", "a,b", "a=b", "\x7f", "é", "a\x1f", "~", "!", "a  ", "a \t"})
	}
	b := make([]byte, n)
	for i := range b {
		b[i] = byte(0x20 + r.Intn(0x5f))
		if b[i] == ',' || b[i] == '=' {
			b[i] = 'x'
		}
	}
	if b[n-1] == ' ' && !r.Chance(1, 4) {
		b[n-1] = '!'
	}
	return string(b)
}

var keyPool = []string{"a", "b", "c", "d", "e", "k1", "k2", "t@s", "t@u", "z/9", "foo", "bar"}

func genMember(r *vgen.Rand, pool bool) (string, string) {
	if pool {
		return vgen.Pick(r, keyPool), genValueN(r, 40)
	}
	return genKey(r), genValueN(r, 40)
}

// validList builds n distinct valid members.
func validList(r *vgen.Rand, n int) []string {
	den := 12
	if n > 8 {
		den = 12 * n // keep long lists mostly short-valued: the case literal stays small
	}
	var out []string
	for i := 0; i < n; i++ {
		k := fmt.Sprintf("%s%d", genKeyPart(r, lower, r.Intn(3)), i)
		if r.Chance(1, 6) {
			k = fmt.Sprintf("t%d@%s", i, genKeyPart(r, lower, r.Intn(4)))
		}
		v := genValueN(r, den)
		for v == "" || !validValue(v) {
			v = "v" + fmt.Sprint(i)
		}
		out = append(out, k+"="+v)
	}
	return out
}

func validValue(v string) bool {
	if len(v) == 0 || len(v) > 256 {
		return false
	}
	for i := 0; i < len(v); i++ {
		c := v[i]
		if c < 0x20 || c > 0x7e || c == ',' || c == '=' {
			return false
		}
	}
	return v[len(v)-1] != ' '
}

func genTraceState(r *vgen.Rand) string {
	switch r.Intn(10) {
	case 0:
		return ""
	case 1:
		return strings.Join(validList(r, vgen.Pick(r, []int{31, 32, 33, 34})), ",")
	case 2: // OWS and empty members
		ms := validList(r, r.Intn(5)+1)
		seps := []string{",", " ,", ", ", ",,", " , ", ",\t", "\t,"}
		var sb strings.Builder
		for i, m := range ms {
			if i > 0 {
				sb.WriteString(vgen.Pick(r, seps))
			}
			sb.WriteString(m)
		}
		if r.Bool() {
			sb.WriteString(vgen.Pick(r, []string{",", " ", ", ", "\t"}))
		}
		return sb.String()
	case 3: // duplicates, in any position and with optional whitespace around the separators
		ms := validList(r, r.Intn(5)+2)
		dup := ms[r.Intn(len(ms))]
		if r.Bool() { // same key, different value
			dup = dup[:strings.IndexByte(dup, '=')+1] + "dup"
		}
		at := r.Intn(len(ms) + 1)
		ms = append(ms[:at], append([]string{dup}, ms[at:]...)...)
		seps := []string{",", ",", " ,", ", ", " , ", ",\t", "\t,", ",  "}
		var sb strings.Builder
		for i, m := range ms {
			if i > 0 {
				sb.WriteString(vgen.Pick(r, seps))
			}
			sb.WriteString(m)
		}
		return sb.String()
	case 4, 5: // arbitrary members incl. invalid ones
		n := r.Intn(5) + 1
		var ms []string
		for i := 0; i < n; i++ {
			k, v := genMember(r, false)
			if r.Chance(1, 10) {
				ms = append(ms, k) // no '='
			} else {
				ms = append(ms, k+"="+v)
			}
		}
		return strings.Join(ms, ",")
	default:
		return strings.Join(validList(r, r.Intn(6)+1), ",")
	}
}

const hexd = "0123456789abcdef"

func randHex(r *vgen.Rand, n int) string {
	b := make([]byte, n)
	for i := range b {
		b[i] = hexd[r.Intn(16)]
	}
	return string(b)
}

func genTraceParent(r *vgen.Rand) string {
	ver := "00"
	switch r.Intn(10) {
	case 0:
		ver = vgen.Pick(r, []string{"01", "fe", "ff", "0f", "cc", "FF", "0", "000", "0g", "  "})
	}
	tid := randHex(r, 32)
	sid := randHex(r, 16)
	fl := vgen.Pick(r, []string{"00", "01", "01", "01", "02", "03", "ff", "09", "0a", "1", "001", "0x", "FF", "0A"})
	switch r.Intn(16) {
	case 0:
		tid = strings.Repeat("0", 32)
	case 1:
		sid = strings.Repeat("0", 16)
	case 2:
		tid = strings.ToUpper(tid)
	case 3:
		tid = tid[:31]
	case 4:
		sid = sid + "0"
	case 5:
		tid = tid[:10] + "g" + tid[11:]
	case 6:
		sid = sid[:5] + "\xc5\xa1" + sid[7:]
	}
	if r.Intn(12) == 0 { // otherwise clean header of a non-zero version (incl. the forbidden ff)
		v := vgen.Pick(r, []string{"ff", "ff", "fe", "01", "7f", "80", "f0"})
		tp := v + "-" + randHex(r, 32) + "-" + randHex(r, 16) + "-" + vgen.Pick(r, []string{"00", "01", "03", "ff"})
		if r.Bool() {
			tp += "-" + randHex(r, r.Intn(6))
		}
		return tp
	}
	tp := ver + "-" + tid + "-" + sid + "-" + fl
	switch r.Intn(14) {
	case 0:
		tp += "-"
	case 1:
		tp += "-extra"
	case 2:
		tp += "extra"
	case 3:
		tp = strings.Replace(tp, "-", "_", 1)
	case 4:
		tp = " " + tp
	case 5:
		tp = tp + " "
	case 6:
		tp += "--"
	}
	return tp
}

func mutate(r *vgen.Rand, s string) string {
	b := []byte(s)
	n := r.Intn(3) + 1
	for i := 0; i < n; i++ {
		switch r.Intn(4) {
		case 0:
			if len(b) > 0 {
				b[r.Intn(len(b))] = byte(r.Intn(256))
			}
		case 1:
			if len(b) > 0 {
				j := r.Intn(len(b))
				b = append(b[:j], b[j+1:]...)
			}
		case 2:
			j := r.Intn(len(b) + 1)
			b = append(b[:j], append([]byte{byte(r.Intn(256))}, b[j:]...)...)
		case 3:
			if len(b) > 0 {
				j := r.Intn(len(b))
				b[j] = vgen.Pick(r, []byte("-,=@ \t0aAfFgz"))
			}
		}
	}
	return string(b)
}

func membersCoq(ts trace.TraceState) string {
	var items []string
	ts.Walk(func(k, v string) bool {
		items = append(items, vgen.Pair(vgen.HxS(k), vgen.HxS(v)))
		return true
	})
	return vgen.List(items)
}

func main() {
	o := vgen.ParseFlags()
	r := vgen.NewRand(o.Seed)
	w := vgen.NewWriter(o.Out, "C03.Model C03.Spec C03.Proofs C03.Corr", "case", 160)
	w.Rule = "grammar-based + mutated traceparent/tracestate headers, round trips of span contexts, ParseTraceState inputs, Insert/Delete scripts, TraceIDFromHex/SpanIDFromHex strings, Get/Len probes; the same headers through http.Header carriers and a composite propagator are compared directly with the MapCarrier result; " +
		"a case is non-trivial when the implementation accepted the header / parse / edit (so model and spec are exercised beyond the reject path) or rejected a near-valid mutation; distinct = distinct Coq case terms"

	guard := func(desc any, f func()) {
		defer func() {
			if e := recover(); e != nil {
				w.Violation(fmt.Sprintf("panic: %v", e), desc)
			}
		}()
		f()
	}

	// corpus: regression inputs (run first, every run)
	corpus := [][2]string{
		{"00-4bf92f3577b34da6a3ce929d0e0e4736-00f067aa0ba902b7-01", "a\xc5\xa1=1"}, // F-C03-1
		{"00-4bf92f3577b34da6a3ce929d0e0e4736-00f067aa0ba902b7-01", "a\xc5\xa1b@v\xc5\xa1=1"},
		{"00-4bf92f3577b34da6a3ce929d0e0e4736-00f067aa0ba902b7-01-", "a=1"},
		{"01-4bf92f3577b34da6a3ce929d0e0e4736-00f067aa0ba902b7-ff-what-ever", "a=1,b=2"},
		{"00-4bf92f3577b34da6a3ce929d0e0e4736-00f067aa0ba902b7-02", ""},
		{"00-4BF92f3577b34da6a3ce929d0e0e4736-00f067aa0ba902b7-01", ""},
		// otherwise well-formed headers of every version class: ff is forbidden, 01..fe are future versions
		{"ff-4bf92f3577b34da6a3ce929d0e0e4736-00f067aa0ba902b7-01", "a=1"},
		{"ff-4bf92f3577b34da6a3ce929d0e0e4736-00f067aa0ba902b7-01-future", ""},
		{"ff-4bf92f3577b34da6a3ce929d0e0e4736-00f067aa0ba902b7-00", ""},
		{"fe-4bf92f3577b34da6a3ce929d0e0e4736-00f067aa0ba902b7-01", "a=1"},
		{"fe-4bf92f3577b34da6a3ce929d0e0e4736-00f067aa0ba902b7-09-future", ""},
		{"01-4bf92f3577b34da6a3ce929d0e0e4736-00f067aa0ba902b7-01", ""},
		{"00-4bf92f3577b34da6a3ce929d0e0e4736-0000000000000000-01", "a=1"},
		{"00-00000000000000000000000000000000-00f067aa0ba902b7-01", "a=1"},
	}
	addExtract := func(tp, ts, kind string) {
		desc := map[string]any{"op": "extract", "traceparent": tp, "tracestate": ts}
		guard(desc, func() {
			ob := doExtract(tp, ts)
			ob0 := doExtract(tp, "")
			term := vgen.App("CExtract", vgen.HxS(tp), vgen.HxS(ts), ob.coq(), ob0.coq())
			desc["accepted"] = ob.Some
			if ob.Some {
				w.Tally("extract:accepted")
				if ob.TSStr != "" {
					w.Tally("extract:accepted+tracestate")
				}
			} else {
				w.Tally("extract:rejected")
			}
			w.Add(term, desc, kind, ob.Some || kind == "extract-mutated")
		})
	}
	for _, c := range corpus {
		addExtract(c[0], c[1], "extract-corpus")
	}

	nExt := o.Count(900, 20000)
	for i := 0; i < nExt; i++ {
		tp := genTraceParent(r)
		ts := genTraceState(r)
		kind := "extract-grammar"
		if r.Chance(1, 5) {
			tp = mutate(r, tp)
			kind = "extract-mutated"
		}
		if r.Chance(1, 6) {
			ts = mutate(r, ts)
			kind = "extract-mutated"
		}
		if r.Chance(1, 60) {
			b := make([]byte, r.Intn(80))
			for j := range b {
				b[j] = byte(r.Intn(256))
			}
			tp = string(b)
			kind = "extract-random"
		}
		addExtract(tp, ts, kind)
	}

	// ParseTraceState directly
	nParse := o.Count(500, 10000)
	for i := 0; i < nParse; i++ {
		s := genTraceState(r)
		if r.Chance(1, 4) {
			s = mutate(r, s)
		}
		desc := map[string]any{"op": "parse", "tracestate": s}
		guard(desc, func() {
			ts, err := trace.ParseTraceState(s)
			obs := vgen.None
			if err == nil {
				obs = vgen.Some(membersCoq(ts))
				w.Tally(fmt.Sprintf("parse:ok:len%d", min(ts.Len(), 33)/8*8))
			} else {
				w.Tally("parse:error")
			}
			desc["ok"] = err == nil
			w.Add(vgen.App("CParse", vgen.HxS(s), obs), desc, "parse", err == nil && s != "")
		})
	}

	// round trips
	nRound := o.Count(400, 8000)
	for i := 0; i < nRound; i++ {
		var tid trace.TraceID
		var sid trace.SpanID
		for j := range tid {
			tid[j] = byte(r.Intn(256))
		}
		for j := range sid {
			sid[j] = byte(r.Intn(256))
		}
		switch r.Intn(20) {
		case 0:
			tid = trace.TraceID{}
		case 1:
			sid = trace.SpanID{}
		case 2:
			tid = trace.TraceID{}
			tid[15] = 1
		}
		fl := byte(r.Intn(256))
		if r.Bool() {
			fl = byte(r.Intn(2))
		}
		tsStr := strings.Join(validList(r, vgen.Pick(r, []int{0, 0, 1, 2, 3, 5, 31, 32})), ",")
		desc := map[string]any{"op": "roundtrip", "trace_id": tid.String(), "span_id": sid.String(), "flags": fl, "tracestate": tsStr}
		guard(desc, func() {
			ts, err := trace.ParseTraceState(tsStr)
			if err != nil {
				return // generator only emits valid lists; nothing to observe
			}
			sc := trace.NewSpanContext(trace.SpanContextConfig{TraceID: tid, SpanID: sid, TraceFlags: trace.TraceFlags(fl), TraceState: ts, Remote: r.Bool()})
			ctx := trace.ContextWithSpanContext(context.Background(), sc)
			c := propagation.MapCarrier{}
			prop.Inject(ctx, c)
			ob := doExtract(c["traceparent"], c["tracestate"])
			term := vgen.App("CRound", vgen.Hx(tid[:]), vgen.Hx(sid[:]), vgen.N(uint64(fl)), vgen.HxS(tsStr),
				vgen.HxS(ts.String()), vgen.HxS(c["traceparent"]), vgen.HxS(c["tracestate"]), ob.coq())
			w.Tally(fmt.Sprintf("roundtrip:valid=%v", sc.IsValid()))
			w.Add(term, desc, "roundtrip", sc.IsValid())
		})
	}

	// concurrent round trips: several goroutines inject and extract their own span
	// contexts at the same time (the propagator is shared, stateless by contract);
	// every goroutine keeps, per span context, the first observation that differs
	// from its own first one (else the first), and each is judged like a round trip.
	{
		type conc struct {
			tid        trace.TraceID
			sid        trace.SpanID
			fl         byte
			tsStr      string
			ts         trace.TraceState
			tp, tsOut  string
			ob         extObs
			seen, diff bool
		}
		const G = 8
		per := o.Count(8, 32)
		iters := o.Count(250, 2000)
		deadline := time.Now().Add(time.Duration(o.Count(1500, 10000)) * time.Millisecond)
		sets := make([][]conc, G)
		for g := range sets {
			for k := 0; k < per; k++ {
				var c conc
				for j := range c.tid {
					c.tid[j] = byte(r.Intn(256))
				}
				for j := range c.sid {
					c.sid[j] = byte(r.Intn(256))
				}
				c.tid[0] |= 1
				c.sid[0] |= 1
				c.fl = byte(r.Intn(4))
				c.tsStr = strings.Join(validList(r, vgen.Pick(r, []int{0, 1, 2, 5})), ",")
				ts, err := trace.ParseTraceState(c.tsStr)
				if err != nil {
					c.tsStr, ts = "", trace.TraceState{}
				}
				c.ts = ts
				sets[g] = append(sets[g], c)
			}
		}
		var wg sync.WaitGroup
		var mu sync.Mutex
		start := make(chan struct{})
		for g := 0; g < G; g++ {
			wg.Add(1)
			go func(cs []conc) {
				defer wg.Done()
				defer func() {
					if e := recover(); e != nil {
						mu.Lock()
						w.Violation(fmt.Sprintf("panic in concurrent Inject/Extract: %v", e), map[string]any{"op": "roundtrip-concurrent"})
						mu.Unlock()
					}
				}()
				ctxs := make([]context.Context, len(cs))
				for k := range cs {
					sc := trace.NewSpanContext(trace.SpanContextConfig{TraceID: cs[k].tid, SpanID: cs[k].sid, TraceFlags: trace.TraceFlags(cs[k].fl), TraceState: cs[k].ts})
					ctxs[k] = trace.ContextWithSpanContext(context.Background(), sc)
				}
				<-start
				for it := 0; it < iters || (it%256 != 0 || time.Now().Before(deadline)); it++ {
					for k := range cs {
						c := &cs[k]
						if c.diff {
							continue
						}
						car := propagation.MapCarrier{}
						prop.Inject(ctxs[k], car)
						if !c.seen {
							c.seen, c.tp, c.tsOut, c.ob = true, car["traceparent"], car["tracestate"], doExtract(car["traceparent"], car["tracestate"])
						} else if car["traceparent"] != c.tp || car["tracestate"] != c.tsOut {
							c.diff, c.tp, c.tsOut, c.ob = true, car["traceparent"], car["tracestate"], doExtract(car["traceparent"], car["tracestate"])
						} else if it%64 == 0 {
							if ob := doExtract(car["traceparent"], car["tracestate"]); ob.coq() != c.ob.coq() {
								c.diff, c.ob = true, ob
							}
						}
					}
				}
			}(sets[g])
		}
		close(start)
		wg.Wait()
		for g := range sets {
			for _, c := range sets[g] {
				if !c.seen {
					continue
				}
				desc := map[string]any{"op": "roundtrip-concurrent", "goroutine": g, "trace_id": c.tid.String(), "span_id": c.sid.String(), "flags": c.fl,
					"tracestate": c.tsStr, "traceparent_seen": c.tp, "unstable_across_repeats": c.diff}
				term := vgen.App("CRound", vgen.Hx(c.tid[:]), vgen.Hx(c.sid[:]), vgen.N(uint64(c.fl)), vgen.HxS(c.tsStr),
					vgen.HxS(c.ts.String()), vgen.HxS(c.tp), vgen.HxS(c.tsOut), c.ob.coq())
				w.Tally("roundtrip-concurrent")
				w.Add(term, desc, "roundtrip-concurrent", true)
			}
		}
	}

	// edit scripts
	nEdit := o.Count(250, 5000)
	for i := 0; i < nEdit; i++ {
		start := strings.Join(validList(r, vgen.Pick(r, []int{0, 1, 3, 5, 30, 31, 32, 32})), ",")
		if r.Chance(1, 3) { // start from pool keys so edits collide
			n := r.Intn(6)
			perm := append([]string(nil), keyPool...)
			var ms []string
			for j := 0; j < n; j++ {
				k := r.Intn(len(perm))
				ms = append(ms, perm[k]+"=v")
				perm = append(perm[:k], perm[k+1:]...)
			}
			start = strings.Join(ms, ",")
		}
		nops := r.Intn(o.Count(40, 40)) + 1
		desc := map[string]any{"op": "edit", "start": start}
		guard(desc, func() {
			ts, err := trace.ParseTraceState(start)
			if err != nil {
				return
			}
			s0 := ts.String()
			var ops, obs []string
			var opsDesc []string
			okOps := 0
			for j := 0; j < nops; j++ {
				if r.Chance(3, 4) {
					k, v := genMember(r, r.Chance(2, 3))
					if r.Chance(1, 5) && ts.Len() > 0 { // update an existing key
						idx := r.Intn(ts.Len())
						n := 0
						sameValue := r.Chance(1, 3) // re-insert a member with the value it already has: still moves to the front
						ts.Walk(func(kk, vv string) bool {
							if n == idx {
								k = kk
								if sameValue {
									v = vv
								}
								return false
							}
							n++
							return true
						})
					}
					before := ts
					nts, err := ts.Insert(k, v)
					if err != nil && nts.String() != before.String() {
						w.Violation("Insert returned an error and a changed TraceState", desc)
					}
					if before.String() != func() string { return before.String() }() {
						panic("unreachable")
					}
					ts = nts
					ops = append(ops, vgen.App("EInsert", vgen.HxS(k), vgen.HxS(v)))
					obs = append(obs, vgen.Pair(vgen.Bool(err != nil), vgen.HxS(ts.String())))
					opsDesc = append(opsDesc, fmt.Sprintf("insert %q=%q err=%v", k, v, err != nil))
					if err == nil {
						okOps++
					}
				} else {
					k := vgen.Pick(r, keyPool)
					if ts.Len() > 0 && r.Bool() {
						idx := r.Intn(ts.Len())
						n := 0
						ts.Walk(func(kk, _ string) bool {
							if n == idx {
								k = kk
								return false
							}
							n++
							return true
						})
					}
					recv := ts.String()
					nts := ts.Delete(k)
					if ts.String() != recv {
						w.Violation("Delete altered its receiver", desc)
					}
					ts = nts
					ops = append(ops, vgen.App("EDelete", vgen.HxS(k)))
					obs = append(obs, vgen.Pair("false", vgen.HxS(ts.String())))
					opsDesc = append(opsDesc, fmt.Sprintf("delete %q", k))
					okOps++
				}
			}
			desc["ops"] = opsDesc
			w.Tally(fmt.Sprintf("edit:len%d", nops/10*10))
			w.Add(vgen.App("CEdit", vgen.HxS(start), vgen.HxS(s0), vgen.List(ops), vgen.List(obs)), desc, "edit", okOps > 0)
		})
	}
	// TraceIDFromHex / SpanIDFromHex
	nHex := o.Count(300, 6000)
	for i := 0; i < nHex; i++ {
		n := vgen.Pick(r, []int{16, 8})
		h := randHex(r, 2*n)
		switch r.Intn(12) {
		case 0:
			h = strings.Repeat("0", 2*n)
		case 1:
			h = strings.ToUpper(h)
		case 2:
			h = h[:len(h)-1]
		case 3:
			h = h + "0"
		case 4:
			h = h[:3] + vgen.Pick(r, []string{"g", "G", "-", " ", "\xc5\xa1"}) + h[4:]
		case 5:
			h = strings.Repeat("0", 2*n-1) + "1"
		case 6:
			h = mutate(r, h)
		case 7:
			b := []byte(h)
			j := r.Intn(len(b))
			b[j] = byte('A' + r.Intn(6))
			h = string(b)
		}
		desc := map[string]any{"op": "id-from-hex", "n": n, "hex": h}
		guard(desc, func() {
			obs := vgen.None
			ok := false
			if n == 16 {
				if id, err := trace.TraceIDFromHex(h); err == nil {
					obs, ok = vgen.Some(vgen.Hx(id[:])), true
					if id.String() != h {
						w.Violation("TraceIDFromHex accepted a string that is not its own String()", desc)
					}
				}
			} else {
				if id, err := trace.SpanIDFromHex(h); err == nil {
					obs, ok = vgen.Some(vgen.Hx(id[:])), true
					if id.String() != h {
						w.Violation("SpanIDFromHex accepted a string that is not its own String()", desc)
					}
				}
			}
			desc["ok"] = ok
			w.Tally(fmt.Sprintf("hexid:ok=%v", ok))
			w.Add(vgen.App("CHexId", vgen.Nat(n), vgen.HxS(h), obs), desc, "hexid", true)
		})
	}

	// Get / Len against the members
	nGet := o.Count(200, 4000)
	for i := 0; i < nGet; i++ {
		src := strings.Join(validList(r, vgen.Pick(r, []int{0, 1, 2, 5, 31, 32})), ",")
		desc := map[string]any{"op": "get", "tracestate": src}
		guard(desc, func() {
			ts, err := trace.ParseTraceState(src)
			if err != nil {
				return
			}
			k := vgen.Pick(r, keyPool)
			if ts.Len() > 0 && r.Chance(3, 4) {
				idx, n := r.Intn(ts.Len()), 0
				ts.Walk(func(kk, _ string) bool {
					if n == idx {
						k = kk
						return false
					}
					n++
					return true
				})
			}
			desc["key"] = k
			w.Add(vgen.App("CGet", vgen.HxS(ts.String()), vgen.HxS(k), vgen.Nat(ts.Len()), vgen.HxS(ts.Get(k))), desc, "get", ts.Len() > 0)
		})
	}

	// Carriers and composition: the W3C propagator must behave the same through an http.Header carrier
	// and inside a composite propagator as it does through a MapCarrier on its own.
	comp := propagation.NewCompositeTextMapPropagator(propagation.Baggage{}, prop)
	if f := prop.Fields(); len(f) != 2 || f[0] != "traceparent" || f[1] != "tracestate" {
		w.Violation(fmt.Sprintf("TraceContext.Fields() = %v", f), nil)
	}
	nCar := o.Count(300, 6000)
	for i := 0; i < nCar; i++ {
		tp, ts := genTraceParent(r), genTraceState(r)
		if r.Chance(1, 6) {
			tp = mutate(r, tp)
		}
		desc := map[string]any{"op": "carriers", "traceparent": tp, "tracestate": ts}
		guard(desc, func() {
			ref := doExtract(tp, ts)
			hc := propagation.HeaderCarrier(http.Header{})
			if tp != "" {
				hc.Set("traceparent", tp)
			}
			if ts != "" {
				hc.Set("tracestate", ts)
			}
			for name, p := range map[string]propagation.TextMapPropagator{"header-carrier": prop, "composite": comp} {
				ctx := p.Extract(context.Background(), hc)
				sc := trace.SpanContextFromContext(ctx)
				got := extObs{Some: sc.IsValid()}
				if got.Some != ref.Some {
					w.Violation(name+": acceptance differs from the MapCarrier extraction", desc)
					continue
				}
				if !got.Some {
					continue
				}
				out := propagation.HeaderCarrier(http.Header{})
				p.Inject(ctx, out)
				tid, sid := sc.TraceID(), sc.SpanID()
				if !bytes.Equal(tid[:], ref.TID) || !bytes.Equal(sid[:], ref.SID) || byte(sc.TraceFlags()) != ref.Flags ||
					sc.IsRemote() != ref.Remote || sc.TraceState().String() != ref.TSStr ||
					out.Get("traceparent") != ref.ReTP || out.Get("tracestate") != ref.ReTS {
					w.Violation(name+": extraction / re-injection differs from the MapCarrier result", desc)
				}
			}
			w.Tally("carriers")
		})
	}
	// Inject into a carrier that ALREADY holds traceparent / tracestate (a hop that extracts and re-injects into the
	// same header map, a retried request): the new values must replace the old ones for every carrier type, so that a
	// following Extract yields the injected span context, not the stale one.
	nRe := o.Count(200, 4000)
	for i := 0; i < nRe; i++ {
		var tid trace.TraceID
		var sid trace.SpanID
		for j := range tid {
			tid[j] = byte(r.Intn(255) + 1)
		}
		for j := range sid {
			sid[j] = byte(r.Intn(255) + 1)
		}
		tsStr := strings.Join(validList(r, vgen.Pick(r, []int{0, 1, 3})), ",")
		ts, _ := trace.ParseTraceState(tsStr)
		sc := trace.NewSpanContext(trace.SpanContextConfig{TraceID: tid, SpanID: sid, TraceFlags: trace.TraceFlags(r.Intn(2)), TraceState: ts})
		oldTP := "00-0af7651916cd43dd8448eb211c80319c-b7ad6b7169203331-0" + vgen.Pick(r, []string{"0", "1"})
		oldTS := vgen.Pick(r, []string{"", "stale=1", "stale=1,other=2"})
		desc := map[string]any{"op": "reinject", "old_traceparent": oldTP, "old_tracestate": oldTS, "new": sc.TraceID().String() + "-" + sc.SpanID().String(), "new_tracestate": tsStr}
		guard(desc, func() {
			ctx := trace.ContextWithSpanContext(context.Background(), sc)
			for name, mk := range map[string]func() propagation.TextMapCarrier{
				"MapCarrier":    func() propagation.TextMapCarrier { return propagation.MapCarrier{} },
				"HeaderCarrier": func() propagation.TextMapCarrier { return propagation.HeaderCarrier(http.Header{}) },
			} {
				c := mk()
				c.Set("traceparent", oldTP)
				if oldTS != "" {
					c.Set("tracestate", oldTS)
				}
				prop.Inject(ctx, c)
				got := trace.SpanContextFromContext(prop.Extract(context.Background(), c))
				if got.TraceID() != tid || got.SpanID() != sid || got.IsSampled() != sc.IsSampled() {
					w.Violation(name+": Extract after Inject into a carrier that already held a traceparent returns the stale span context", desc)
				} else if ts.Len() > 0 && got.TraceState().String() != ts.String() {
					w.Violation(name+": Extract after Inject into a carrier that already held a tracestate returns the stale tracestate", desc)
				}
			}
			w.Tally("reinject")
		})
	}

	// Extract into a context that already carries a span context: a valid header must give exactly what it
	// gives on a fresh context (remote, header's flags and tracestate) whatever the parent holds - also when the
	// parent has the SAME ids -, and an absent / invalid header must leave the parent's span context in place.
	nInto := o.Count(300, 6000)
	for i := 0; i < nInto; i++ {
		tp, ts := genTraceParent(r), genTraceState(r)
		if r.Chance(1, 5) {
			tp = mutate(r, tp)
		}
		desc := map[string]any{"op": "extract-into", "traceparent": tp, "tracestate": ts}
		guard(desc, func() {
			ref := doExtract(tp, ts)
			var ptid trace.TraceID
			var psid trace.SpanID
			for j := range ptid {
				ptid[j] = byte(r.Intn(255) + 1)
			}
			for j := range psid {
				psid[j] = byte(r.Intn(255) + 1)
			}
			if ref.Some && r.Chance(1, 2) { // the parent already has the header's ids (an earlier hop of the same trace)
				copy(ptid[:], ref.TID)
				copy(psid[:], ref.SID)
			}
			pts, _ := trace.ParseTraceState(vgen.Pick(r, []string{"", "a=1", "old=state,x=y"}))
			parent := trace.NewSpanContext(trace.SpanContextConfig{TraceID: ptid, SpanID: psid,
				TraceFlags: trace.TraceFlags(vgen.Pick(r, []byte{0, 1, 9})), TraceState: pts, Remote: r.Bool()})
			desc["parent"] = fmt.Sprintf("%s-%s-%02x remote=%v ts=%q", ptid, psid, byte(parent.TraceFlags()), parent.IsRemote(), pts.String())
			pctx := trace.ContextWithSpanContext(context.Background(), parent)
			c := propagation.MapCarrier{}
			if tp != "" {
				c["traceparent"] = tp
			}
			if ts != "" {
				c["tracestate"] = ts
			}
			got := trace.SpanContextFromContext(prop.Extract(pctx, c))
			if !ref.Some {
				if !got.Equal(parent) {
					w.Violation("Extract of an absent/invalid header replaced the span context the context already carried", desc)
				}
				return
			}
			gt, gs := got.TraceID(), got.SpanID()
			if !bytes.Equal(gt[:], ref.TID) || !bytes.Equal(gs[:], ref.SID) || byte(got.TraceFlags()) != ref.Flags ||
				!got.IsRemote() || got.TraceState().String() != ref.TSStr {
				w.Violation("Extract into a context that already carries a span context differs from Extract into a fresh context", desc)
			}
			w.Tally("extract-into")
		})
	}
	if err := w.Flush(); err != nil {
		fmt.Fprintln(os.Stderr, err)
		os.Exit(2)
	}
}
