// Metrics: metricdata.ResourceMetrics -> the real otlpmetrichttp and otlpmetricgrpc exporters ->
// in-process collectors.
package main

import (
	"context"
	"fmt"
	"math"
	"time"

	"go.opentelemetry.io/otel/attribute"
	"go.opentelemetry.io/otel/exporters/otlp/otlpmetric/otlpmetricgrpc"
	"go.opentelemetry.io/otel/exporters/otlp/otlpmetric/otlpmetrichttp"
	"go.opentelemetry.io/otel/sdk/instrumentation"
	"go.opentelemetry.io/otel/sdk/metric/metricdata"
	"go.opentelemetry.io/otel/sdk/resource"
	colmetricpb "go.opentelemetry.io/proto/otlp/collector/metrics/v1"
	metricspb "go.opentelemetry.io/proto/otlp/metrics/v1"
	"google.golang.org/protobuf/proto"

	"verif/harness/vgen"
)

// ---- generators ----

type numGen[N int64 | float64] func(r *vgen.Rand) N

func genI(r *vgen.Rand) int64 {
	switch r.Intn(8) {
	case 0:
		return 1 << 53
	case 1:
		return -(1 << 53)
	case 2:
		return 1<<53 + 1 // not representable as a double
	case 3:
		return math.MaxInt64
	case 4:
		return math.MinInt64
	case 5:
		return int64(r.U64())
	}
	return int64(r.Intn(2000)) - 1000
}
func genF(r *vgen.Rand) float64 { return genFloat(r, false) }

func genSet(r *vgen.Rand) attribute.Set { return attribute.NewSet(genAttrs(r, 4, false)...) }

func genIDBytes(r *vgen.Rand, n int) []byte {
	switch r.Intn(4) {
	case 0:
		return nil
	case 1:
		n = r.Intn(20)
	}
	b := make([]byte, n)
	for i := range b {
		b[i] = byte(r.Intn(256))
	}
	return b
}

func genExemplars[N int64 | float64](r *vgen.Rand, g numGen[N]) []metricdata.Exemplar[N] {
	var out []metricdata.Exemplar[N]
	for i, n := 0, vgen.Pick(r, []int{0, 0, 0, 1, 2}); i < n; i++ {
		out = append(out, metricdata.Exemplar[N]{FilteredAttributes: genAttrs(r, 2, false), Time: genTime(r), Value: g(r),
			SpanID: genIDBytes(r, 8), TraceID: genIDBytes(r, 16)})
	}
	return out
}

func genDPs[N int64 | float64](r *vgen.Rand, g numGen[N]) []metricdata.DataPoint[N] {
	var out []metricdata.DataPoint[N]
	for i, n := 0, r.Intn(4); i < n; i++ {
		out = append(out, metricdata.DataPoint[N]{Attributes: genSet(r), StartTime: genTime(r), Time: genTime(r), Value: g(r), Exemplars: genExemplars(r, g)})
	}
	return out
}

func genExtrema[N int64 | float64](r *vgen.Rand, g numGen[N]) metricdata.Extrema[N] {
	if r.Chance(1, 3) {
		return metricdata.Extrema[N]{}
	}
	return metricdata.NewExtrema(g(r))
}

func genU64s(r *vgen.Rand, n int) []uint64 {
	if n == 0 && r.Bool() {
		return nil
	}
	out := make([]uint64, n)
	for i := range out {
		out[i] = genU64(r)
	}
	return out
}

func genHPs[N int64 | float64](r *vgen.Rand, g numGen[N]) []metricdata.HistogramDataPoint[N] {
	var out []metricdata.HistogramDataPoint[N]
	for i, n := 0, r.Intn(3); i < n; i++ {
		nb := r.Intn(5)
		var bounds []float64
		for j := 0; j < nb; j++ {
			bounds = append(bounds, vgen.Pick(r, []float64{0, 5, 10, 25, 50.5, 100, 1e9, -1, math.Inf(1)}))
		}
		out = append(out, metricdata.HistogramDataPoint[N]{Attributes: genSet(r), StartTime: genTime(r), Time: genTime(r), Count: genU64(r),
			Bounds: bounds, BucketCounts: genU64s(r, nb+r.Intn(2)), Min: genExtrema(r, g), Max: genExtrema(r, g), Sum: g(r), Exemplars: genExemplars(r, g)})
	}
	return out
}

func genI32(r *vgen.Rand) int32 {
	return vgen.Pick(r, []int32{0, 1, -1, 20, -10, 7, math.MaxInt32, math.MinInt32, int32(r.Intn(41) - 20)})
}

func genEPs[N int64 | float64](r *vgen.Rand, g numGen[N], zeroThr bool) []metricdata.ExponentialHistogramDataPoint[N] {
	var out []metricdata.ExponentialHistogramDataPoint[N]
	for i, n := 0, r.Intn(3); i < n; i++ {
		p := metricdata.ExponentialHistogramDataPoint[N]{Attributes: genSet(r), StartTime: genTime(r), Time: genTime(r), Count: genU64(r),
			Min: genExtrema(r, g), Max: genExtrema(r, g), Sum: g(r), Scale: genI32(r), ZeroCount: genU64(r),
			PositiveBucket: metricdata.ExponentialBucket{Offset: genI32(r), Counts: genU64s(r, r.Intn(4))},
			NegativeBucket: metricdata.ExponentialBucket{Offset: genI32(r), Counts: genU64s(r, r.Intn(3))},
			Exemplars:      genExemplars(r, g)}
		if zeroThr && r.Bool() {
			p.ZeroThreshold = vgen.Pick(r, []float64{0.5, 1e-9, math.SmallestNonzeroFloat64})
		}
		out = append(out, p)
	}
	return out
}

func genTemporality(r *vgen.Rand) metricdata.Temporality {
	if r.Chance(1, 25) {
		return metricdata.Temporality(vgen.Pick(r, []int{0, 3})) // unknown: the metric is dropped with an error
	}
	return metricdata.Temporality(1 + r.Intn(2))
}

func genMetric(r *vgen.Rand, i int, zeroThr bool) (metricdata.Metrics, bool) {
	m := metricdata.Metrics{Name: fmt.Sprintf("%s.%d", vgen.Pick(r, []string{"http.server.duration", "queue.len", "", "Größe"}), i),
		Description: vgen.Pick(r, []string{"", "a description", "ü"}), Unit: vgen.Pick(r, []string{"", "ms", "By", "{request}", "1"})}
	usedZT := false
	if r.Chance(1, 30) {
		return m, false // no Aggregation at all: dropped with errUnknownAggregation, the others still arrive
	}
	switch r.Intn(9) {
	case 0:
		m.Data = metricdata.Gauge[int64]{DataPoints: genDPs(r, genI)}
	case 1:
		m.Data = metricdata.Gauge[float64]{DataPoints: genDPs(r, genF)}
	case 2:
		m.Data = metricdata.Sum[int64]{DataPoints: genDPs(r, genI), Temporality: genTemporality(r), IsMonotonic: r.Bool()}
	case 3:
		m.Data = metricdata.Sum[float64]{DataPoints: genDPs(r, genF), Temporality: genTemporality(r), IsMonotonic: r.Bool()}
	case 4:
		m.Data = metricdata.Histogram[int64]{DataPoints: genHPs(r, genI), Temporality: genTemporality(r)}
	case 5:
		m.Data = metricdata.Histogram[float64]{DataPoints: genHPs(r, genF), Temporality: genTemporality(r)}
	case 6:
		d := metricdata.ExponentialHistogram[int64]{DataPoints: genEPs(r, genI, zeroThr), Temporality: genTemporality(r)}
		for _, p := range d.DataPoints {
			usedZT = usedZT || p.ZeroThreshold != 0
		}
		m.Data = d
	case 7:
		d := metricdata.ExponentialHistogram[float64]{DataPoints: genEPs(r, genF, zeroThr), Temporality: genTemporality(r)}
		for _, p := range d.DataPoints {
			usedZT = usedZT || p.ZeroThreshold != 0
		}
		m.Data = d
	default:
		var pts []metricdata.SummaryDataPoint
		for j, n := 0, r.Intn(3); j < n; j++ {
			var qs []metricdata.QuantileValue
			for k, nq := 0, r.Intn(4); k < nq; k++ {
				qs = append(qs, metricdata.QuantileValue{Quantile: vgen.Pick(r, []float64{0, 0.5, 0.9, 0.99, 1}), Value: genF(r)})
			}
			pts = append(pts, metricdata.SummaryDataPoint{Attributes: genSet(r), StartTime: genTime(r), Time: genTime(r), Count: genU64(r), Sum: genF(r), QuantileValues: qs})
		}
		m.Data = metricdata.Summary{DataPoints: pts}
	}
	return m, usedZT
}

type metricBatch struct {
	rm      metricdata.ResourceMetrics
	zeroThr bool
	metrics int
	kinds   []string
}

func genMetricBatch(r *vgen.Rand) metricBatch {
	var b metricBatch
	res, _ := genResources(r, false)
	b.rm.Resource = res[0]
	if r.Chance(1, 15) {
		b.rm.Resource = nil // ResourceMetrics without a resource: reads as the empty one
	}
	allowZT := r.Chance(1, 6)
	scopes := genScopes(r)
	ns := r.Range(0, len(scopes))
	for i := 0; i < ns; i++ {
		sm := metricdata.ScopeMetrics{Scope: scopes[i]}
		for j, nm := 0, r.Intn(4); j < nm; j++ {
			m, zt := genMetric(r, j, allowZT)
			b.zeroThr = b.zeroThr || zt
			sm.Metrics = append(sm.Metrics, m)
			b.metrics++
			b.kinds = append(b.kinds, fmt.Sprintf("%T", m.Data))
		}
		b.rm.ScopeMetrics = append(b.rm.ScopeMetrics, sm)
	}
	return b
}

// ---- emitters: telemetry side ----

func numCoq[N int64 | float64](v N) string {
	switch x := any(v).(type) {
	case int64:
		return vgen.App("NI", vgen.Z(x))
	case float64:
		return vgen.App("NF", fb(x))
	}
	panic("unreachable")
}
func extremaCoq[N int64 | float64](e metricdata.Extrema[N]) string {
	if v, ok := e.Value(); ok {
		return vgen.Some(numCoq(v))
	}
	return vgen.None
}
func exsCoq[N int64 | float64](es []metricdata.Exemplar[N]) string {
	return lst(es, func(e metricdata.Exemplar[N]) string {
		return vgen.App("mkEx", kvsCoq(e.FilteredAttributes), zt(e.Time), numCoq(e.Value), hb(e.SpanID), hb(e.TraceID))
	})
}
func dpsCoq[N int64 | float64](ds []metricdata.DataPoint[N]) string {
	return lst(ds, func(d metricdata.DataPoint[N]) string {
		return vgen.App("mkDp", kvsCoq(d.Attributes.ToSlice()), zt(d.StartTime), zt(d.Time), numCoq(d.Value), exsCoq(d.Exemplars))
	})
}
func hpsCoq[N int64 | float64](hs_ []metricdata.HistogramDataPoint[N]) string {
	return lst(hs_, func(h metricdata.HistogramDataPoint[N]) string {
		return vgen.App("mkHp", kvsCoq(h.Attributes.ToSlice()), zt(h.StartTime), zt(h.Time), vgen.N(h.Count), f64s(h.Bounds), u64s(h.BucketCounts),
			extremaCoq(h.Min), extremaCoq(h.Max), numCoq(h.Sum), exsCoq(h.Exemplars))
	})
}
func epsCoq[N int64 | float64](ps []metricdata.ExponentialHistogramDataPoint[N]) string {
	return lst(ps, func(p metricdata.ExponentialHistogramDataPoint[N]) string {
		return vgen.App("mkEp", kvsCoq(p.Attributes.ToSlice()), zt(p.StartTime), zt(p.Time), vgen.N(p.Count), extremaCoq(p.Min), extremaCoq(p.Max),
			numCoq(p.Sum), vgen.Z(int64(p.Scale)), vgen.N(p.ZeroCount), vgen.Z(int64(p.PositiveBucket.Offset)), u64s(p.PositiveBucket.Counts),
			vgen.Z(int64(p.NegativeBucket.Offset)), u64s(p.NegativeBucket.Counts), fb(p.ZeroThreshold), exsCoq(p.Exemplars))
	})
}
func tempN(t metricdata.Temporality) string { return vgen.N(uint64(t)) }

func mdataCoq(a metricdata.Aggregation) string {
	switch d := a.(type) {
	case metricdata.Gauge[int64]:
		return vgen.App("MGauge", dpsCoq(d.DataPoints))
	case metricdata.Gauge[float64]:
		return vgen.App("MGauge", dpsCoq(d.DataPoints))
	case metricdata.Sum[int64]:
		return vgen.App("MSum", dpsCoq(d.DataPoints), tempN(d.Temporality), vgen.Bool(d.IsMonotonic))
	case metricdata.Sum[float64]:
		return vgen.App("MSum", dpsCoq(d.DataPoints), tempN(d.Temporality), vgen.Bool(d.IsMonotonic))
	case metricdata.Histogram[int64]:
		return vgen.App("MHist", hpsCoq(d.DataPoints), tempN(d.Temporality))
	case metricdata.Histogram[float64]:
		return vgen.App("MHist", hpsCoq(d.DataPoints), tempN(d.Temporality))
	case metricdata.ExponentialHistogram[int64]:
		return vgen.App("MExp", epsCoq(d.DataPoints), tempN(d.Temporality))
	case metricdata.ExponentialHistogram[float64]:
		return vgen.App("MExp", epsCoq(d.DataPoints), tempN(d.Temporality))
	case metricdata.Summary:
		return vgen.App("MSummary", lst(d.DataPoints, func(q metricdata.SummaryDataPoint) string {
			return vgen.App("mkQp", kvsCoq(q.Attributes.ToSlice()), zt(q.StartTime), zt(q.Time), vgen.N(q.Count), fb(q.Sum),
				lst(q.QuantileValues, func(v metricdata.QuantileValue) string { return vgen.Pair(fb(v.Quantile), fb(v.Value)) }))
		}))
	case nil:
		return "MNone"
	}
	panic("harness: unknown aggregation")
}

func rmCoq(rm *metricdata.ResourceMetrics) string {
	return vgen.Pair(resCoq(rm.Resource), lst(rm.ScopeMetrics, func(sm metricdata.ScopeMetrics) string {
		return vgen.Pair(scopeCoq(sm.Scope), lst(sm.Metrics, func(m metricdata.Metrics) string {
			return vgen.App("mkMetric", hs(m.Name), hs(m.Description), hs(m.Unit), mdataCoq(m.Data))
		}))
	}))
}

// ---- emitters: protobuf side ----

func optF(p *float64) string {
	if p == nil {
		return vgen.None
	}
	return vgen.Some(fb(*p))
}
func pexsCoq(es []*metricspb.Exemplar) string {
	return lst(es, func(e *metricspb.Exemplar) string {
		v := "PNUnset"
		switch x := e.GetValue().(type) {
		case *metricspb.Exemplar_AsInt:
			v = vgen.App("PNI", vgen.Z(x.AsInt))
		case *metricspb.Exemplar_AsDouble:
			v = vgen.App("PNF", fb(x.AsDouble))
		}
		return vgen.App("mkPEx", pkvsCoq(e.GetFilteredAttributes()), vgen.N(e.GetTimeUnixNano()), v, hb(e.GetSpanId()), hb(e.GetTraceId()))
	})
}
func pndpsCoq(ds []*metricspb.NumberDataPoint) string {
	return lst(ds, func(d *metricspb.NumberDataPoint) string {
		v := "PNUnset"
		switch x := d.GetValue().(type) {
		case *metricspb.NumberDataPoint_AsInt:
			v = vgen.App("PNI", vgen.Z(x.AsInt))
		case *metricspb.NumberDataPoint_AsDouble:
			v = vgen.App("PNF", fb(x.AsDouble))
		}
		return vgen.App("mkPNdp", pkvsCoq(d.GetAttributes()), vgen.N(d.GetStartTimeUnixNano()), vgen.N(d.GetTimeUnixNano()), v, pexsCoq(d.GetExemplars()))
	})
}
func sint(v int32) string { return vgen.Z(int64(v)) }

func pmdataCoq(m *metricspb.Metric) string {
	switch d := m.GetData().(type) {
	case *metricspb.Metric_Gauge:
		return vgen.App("PGauge", pndpsCoq(d.Gauge.GetDataPoints()))
	case *metricspb.Metric_Sum:
		return vgen.App("PSum", pndpsCoq(d.Sum.GetDataPoints()), vgen.N(uint64(d.Sum.GetAggregationTemporality())), vgen.Bool(d.Sum.GetIsMonotonic()))
	case *metricspb.Metric_Histogram:
		return vgen.App("PHist", lst(d.Histogram.GetDataPoints(), func(h *metricspb.HistogramDataPoint) string {
			return vgen.App("mkPHdp", pkvsCoq(h.GetAttributes()), vgen.N(h.GetStartTimeUnixNano()), vgen.N(h.GetTimeUnixNano()), vgen.N(h.GetCount()),
				optF(h.Sum), u64s(h.GetBucketCounts()), f64s(h.GetExplicitBounds()), pexsCoq(h.GetExemplars()), optF(h.Min), optF(h.Max))
		}), vgen.N(uint64(d.Histogram.GetAggregationTemporality())))
	case *metricspb.Metric_ExponentialHistogram:
		return vgen.App("PExp", lst(d.ExponentialHistogram.GetDataPoints(), func(p *metricspb.ExponentialHistogramDataPoint) string {
			return vgen.App("mkPEdp", pkvsCoq(p.GetAttributes()), vgen.N(p.GetStartTimeUnixNano()), vgen.N(p.GetTimeUnixNano()), vgen.N(p.GetCount()),
				optF(p.Sum), sint(p.GetScale()), vgen.N(p.GetZeroCount()), sint(p.GetPositive().GetOffset()), u64s(p.GetPositive().GetBucketCounts()),
				sint(p.GetNegative().GetOffset()), u64s(p.GetNegative().GetBucketCounts()), pexsCoq(p.GetExemplars()), optF(p.Min), optF(p.Max),
				fb(p.GetZeroThreshold()))
		}), vgen.N(uint64(d.ExponentialHistogram.GetAggregationTemporality())))
	case *metricspb.Metric_Summary:
		return vgen.App("PSummary", lst(d.Summary.GetDataPoints(), func(q *metricspb.SummaryDataPoint) string {
			return vgen.App("mkPSdp", pkvsCoq(q.GetAttributes()), vgen.N(q.GetStartTimeUnixNano()), vgen.N(q.GetTimeUnixNano()), vgen.N(q.GetCount()), fb(q.GetSum()),
				lst(q.GetQuantileValues(), func(v *metricspb.SummaryDataPoint_ValueAtQuantile) string {
					return vgen.Pair(fb(v.GetQuantile()), fb(v.GetValue()))
				}))
		}))
	}
	return "PNoData"
}

func prmCoq(rm *metricspb.ResourceMetrics) string {
	return vgen.Pair(presCoq(rm.GetResource(), rm.GetSchemaUrl()), lst(rm.GetScopeMetrics(), func(sm *metricspb.ScopeMetrics) string {
		return vgen.Pair(pscopeCoq(sm.GetScope(), sm.GetSchemaUrl()), lst(sm.GetMetrics(), func(m *metricspb.Metric) string {
			return vgen.App("mkPMetric", hs(m.GetName()), hs(m.GetDescription()), hs(m.GetUnit()), pmdataCoq(m))
		}))
	}))
}

func onlyRM(reqs []*colmetricpb.ExportMetricsServiceRequest) *metricspb.ResourceMetrics {
	var all []*metricspb.ResourceMetrics
	for _, q := range reqs {
		all = append(all, q.GetResourceMetrics()...)
	}
	if len(all) == 1 {
		return all[0]
	}
	return nil // nothing (or more than one message) arrived: rendered as an empty payload, which the model will not match
}

func runMetrics(ctx context.Context, w *vgen.Writer, r *vgen.Rand, o vgen.Opts, hc *httpCollector, gc *grpcCollector, guard func(any, func())) {
	he, err := otlpmetrichttp.New(ctx, otlpmetrichttp.WithEndpoint(hc.addr()), otlpmetrichttp.WithInsecure(),
		otlpmetrichttp.WithRetry(otlpmetrichttp.RetryConfig{Enabled: false}), otlpmetrichttp.WithTimeout(20*time.Second))
	if err != nil {
		w.Violation("cannot build the otlpmetrichttp exporter: "+err.Error(), nil)
		return
	}
	ge, err := otlpmetricgrpc.New(ctx, otlpmetricgrpc.WithEndpoint(gc.addr()), otlpmetricgrpc.WithInsecure(),
		otlpmetricgrpc.WithRetry(otlpmetricgrpc.RetryConfig{Enabled: false}), otlpmetricgrpc.WithTimeout(20*time.Second))
	if err != nil {
		w.Violation("cannot build the otlpmetricgrpc exporter: "+err.Error(), nil)
		return
	}
	hz, err := otlpmetrichttp.New(ctx, otlpmetrichttp.WithEndpointURL("http://"+hc.addr()+"/v1/metrics"), otlpmetrichttp.WithCompression(otlpmetrichttp.GzipCompression),
		otlpmetrichttp.WithRetry(otlpmetrichttp.RetryConfig{Enabled: false}), otlpmetrichttp.WithTimeout(20*time.Second))
	if err != nil {
		w.Violation("cannot build the otlpmetrichttp exporter (gzip, endpoint URL): "+err.Error(), nil)
		return
	}
	gz, err := otlpmetricgrpc.New(ctx, otlpmetricgrpc.WithEndpointURL("http://"+gc.addr()), otlpmetricgrpc.WithCompressor("gzip"),
		otlpmetricgrpc.WithRetry(otlpmetricgrpc.RetryConfig{Enabled: false}), otlpmetricgrpc.WithTimeout(20*time.Second))
	if err != nil {
		w.Violation("cannot build the otlpmetricgrpc exporter (gzip, endpoint URL): "+err.Error(), nil)
		return
	}
	defer func() { _ = he.Shutdown(ctx); _ = ge.Shutdown(ctx); _ = hz.Shutdown(ctx); _ = gz.Shutdown(ctx) }()

	one := func(b metricBatch, kind string, zip bool) {
		he, ge := he, ge
		if zip {
			he, ge = hz, gz
			w.Tally("metrics:route:gzip+endpoint-url")
		}
		desc := map[string]any{"signal": "metrics", "scopes": len(b.rm.ScopeMetrics), "metrics": b.metrics, "kinds": b.kinds, "zero_threshold": b.zeroThr}
		errH := exportTo(&hc.sink, func() error { return he.Export(ctx, &b.rm) })
		errG := exportTo(&gc.sink, func() error { return ge.Export(ctx, &b.rm) })
		if errH != nil || errG != nil {
			desc["export_errors"] = short(fmt.Sprint(errH, " | ", errG), 300)
		}
		hc.mu.Lock()
		viaHTTP := onlyRM(hc.metrics)
		hc.mu.Unlock()
		gc.mu.Lock()
		viaGRPC := onlyRM(gc.metrics)
		gc.mu.Unlock()
		th, tg := prmCoq(viaHTTP), prmCoq(viaGRPC)
		if th == tg && !proto.Equal(viaHTTP, viaGRPC) {
			w.Violation("metrics: HTTP and gRPC payloads differ in a field outside the model", desc)
		}
		term := vgen.App("CMetric", rmCoq(&b.rm), th, optTerm(tg == th, tg))
		w.Tally(fmt.Sprintf("metrics:scopes=%d", len(b.rm.ScopeMetrics)))
		for _, k := range b.kinds {
			w.Tally("metrics:kind:" + k)
		}
		if b.zeroThr {
			w.Tally("metrics:shape:zero-threshold")
		}
		w.Add(term, desc, kind, b.metrics > 0)
	}

	for i, b := range metricCorpus() {
		guard(map[string]any{"signal": "metrics", "corpus": i}, func() { one(b, "metrics-corpus", i%2 == 1) })
	}
	n := o.Count(200, 5000)
	for i := 0; i < n; i++ {
		b := genMetricBatch(r)
		guard(map[string]any{"signal": "metrics", "batch": i}, func() { one(b, "metrics", i%3 == 2) })
	}
}

func metricCorpus() []metricBatch {
	res := resource.NewWithAttributes("https://opentelemetry.io/schemas/1.26.0", attribute.String("service.name", "m"))
	t0, t1 := time.Unix(0, baseNanos), time.Unix(0, baseNanos+1e9)
	set := attribute.NewSet(attribute.String("k", "v"))
	sc := instrumentation.Scope{Name: "lib/m", Version: "v1"}
	mk := func(ms ...metricdata.Metrics) metricBatch {
		b := metricBatch{rm: metricdata.ResourceMetrics{Resource: res, ScopeMetrics: []metricdata.ScopeMetrics{{Scope: sc, Metrics: ms}}}, metrics: len(ms)}
		for _, m := range ms {
			b.kinds = append(b.kinds, fmt.Sprintf("%T", m.Data))
		}
		return b
	}
	var out []metricBatch
	// histogram min/max/sum, both number types; temporality both ways
	out = append(out, mk(
		metricdata.Metrics{Name: "h.i", Unit: "ms", Data: metricdata.Histogram[int64]{Temporality: metricdata.DeltaTemporality, DataPoints: []metricdata.HistogramDataPoint[int64]{{
			Attributes: set, StartTime: t0, Time: t1, Count: 3, Bounds: []float64{5, 10}, BucketCounts: []uint64{1, 1, 1}, Min: metricdata.NewExtrema[int64](2), Max: metricdata.NewExtrema[int64](12), Sum: 21}}}},
		metricdata.Metrics{Name: "h.f", Data: metricdata.Histogram[float64]{Temporality: metricdata.CumulativeTemporality, DataPoints: []metricdata.HistogramDataPoint[float64]{{
			Attributes: set, StartTime: t0, Time: t1, Count: 2, Bounds: []float64{1}, BucketCounts: []uint64{1, 1}, Min: metricdata.NewExtrema(0.5), Sum: 2.25}}}},
		metricdata.Metrics{Name: "s.i", Data: metricdata.Sum[int64]{Temporality: metricdata.CumulativeTemporality, IsMonotonic: true, DataPoints: []metricdata.DataPoint[int64]{{Attributes: set, StartTime: t0, Time: t1, Value: -7}}}},
		metricdata.Metrics{Name: "g.f", Data: metricdata.Gauge[float64]{DataPoints: []metricdata.DataPoint[float64]{{Attributes: set, Time: t1, Value: 1.5,
			Exemplars: []metricdata.Exemplar[float64]{{Time: t1, Value: 1.25, SpanID: []byte{1, 2, 3, 4, 5, 6, 7, 8}, TraceID: []byte{1, 2, 3, 4, 5, 6, 7, 8, 9, 10, 11, 12, 13, 14, 15, 16}}}}}}},
	))
	// F-C13-5: a zero threshold
	zb := mk(metricdata.Metrics{Name: "e.f", Data: metricdata.ExponentialHistogram[float64]{Temporality: metricdata.DeltaTemporality, DataPoints: []metricdata.ExponentialHistogramDataPoint[float64]{{
		Attributes: set, StartTime: t0, Time: t1, Count: 4, Sum: 9, Scale: 3, ZeroCount: 1, ZeroThreshold: 0.5,
		PositiveBucket: metricdata.ExponentialBucket{Offset: -2, Counts: []uint64{1, 0, 2}}, NegativeBucket: metricdata.ExponentialBucket{Offset: 4, Counts: []uint64{1}}}}}})
	zb.zeroThr = true
	out = append(out, zb)
	// large collections: 130 data points, 130 attributes on a point, 130 exemplars, 130 buckets, 130 quantiles, 130 metrics
	bigSet := attribute.NewSet(manyAttrs(130)...)
	var dps []metricdata.DataPoint[int64]
	var exs []metricdata.Exemplar[float64]
	var bounds []float64
	var counts []uint64
	var qs []metricdata.QuantileValue
	var many []metricdata.Metrics
	for i := 0; i < 130; i++ {
		dps = append(dps, metricdata.DataPoint[int64]{Attributes: attribute.NewSet(attribute.Int("i", i)), Time: t1, Value: int64(i)})
		exs = append(exs, metricdata.Exemplar[float64]{Time: t1, Value: float64(i)})
		bounds = append(bounds, float64(i))
		counts = append(counts, uint64(i))
		qs = append(qs, metricdata.QuantileValue{Quantile: float64(i) / 130, Value: float64(i)})
		many = append(many, metricdata.Metrics{Name: fmt.Sprintf("m%03d", i), Data: metricdata.Gauge[int64]{DataPoints: []metricdata.DataPoint[int64]{{Time: t1, Value: int64(i)}}}})
	}
	out = append(out, mk(
		metricdata.Metrics{Name: "many.points", Data: metricdata.Sum[int64]{Temporality: metricdata.DeltaTemporality, DataPoints: dps}},
		metricdata.Metrics{Name: "many.attrs", Data: metricdata.Gauge[float64]{DataPoints: []metricdata.DataPoint[float64]{{Attributes: bigSet, Time: t1, Value: 1, Exemplars: exs}}}},
		metricdata.Metrics{Name: "many.buckets", Data: metricdata.Histogram[float64]{Temporality: metricdata.CumulativeTemporality, DataPoints: []metricdata.HistogramDataPoint[float64]{{
			Attributes: set, StartTime: t0, Time: t1, Count: 9, Bounds: bounds, BucketCounts: append(counts, 7), Sum: 1}}}},
		metricdata.Metrics{Name: "many.expo", Data: metricdata.ExponentialHistogram[int64]{Temporality: metricdata.DeltaTemporality, DataPoints: []metricdata.ExponentialHistogramDataPoint[int64]{{
			Attributes: set, StartTime: t0, Time: t1, Count: 9, Sum: 4, PositiveBucket: metricdata.ExponentialBucket{Offset: 1, Counts: counts}, NegativeBucket: metricdata.ExponentialBucket{Offset: -1, Counts: counts}}}}},
		metricdata.Metrics{Name: "many.quantiles", Data: metricdata.Summary{DataPoints: []metricdata.SummaryDataPoint{{Attributes: set, StartTime: t0, Time: t1, Count: 1, Sum: 1, QuantileValues: qs}}}},
	))
	out = append(out, mk(many...))
	// no aggregation / no resource / no scopes: exporter-level paths
	nb := mk(metricdata.Metrics{Name: "nodata"}, metricdata.Metrics{Name: "g", Data: metricdata.Gauge[int64]{DataPoints: []metricdata.DataPoint[int64]{{Attributes: set, Time: t1, Value: 3}}}})
	nb.rm.Resource = nil
	out = append(out, nb)
	out = append(out, metricBatch{rm: metricdata.ResourceMetrics{Resource: res}})
	// unknown temporality: the metric is dropped, the others arrive
	out = append(out, mk(
		metricdata.Metrics{Name: "bad", Data: metricdata.Sum[int64]{DataPoints: []metricdata.DataPoint[int64]{{Value: 1}}}},
		metricdata.Metrics{Name: "good", Data: metricdata.Summary{DataPoints: []metricdata.SummaryDataPoint{{Attributes: set, StartTime: t0, Time: t1, Count: 9, Sum: 4.5,
			QuantileValues: []metricdata.QuantileValue{{Quantile: 0.5, Value: 0.4}, {Quantile: 1, Value: 2}}}}}},
	))
	return out
}
