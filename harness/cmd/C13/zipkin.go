// Zipkin: SpanStubs -> the real exporters/zipkin exporter -> an httptest collector that reads the JSON body.
package main

import (
	"bytes"
	"context"
	"encoding/json"
	"fmt"
	"time"

	"go.opentelemetry.io/otel/attribute"
	"go.opentelemetry.io/otel/codes"
	"go.opentelemetry.io/otel/exporters/zipkin"
	"go.opentelemetry.io/otel/sdk/instrumentation"
	"go.opentelemetry.io/otel/sdk/resource"
	tracesdk "go.opentelemetry.io/otel/sdk/trace"
	"go.opentelemetry.io/otel/sdk/trace/tracetest"
	"go.opentelemetry.io/otel/trace"

	"verif/harness/vgen"
)

type zkJSON struct {
	TraceID   string       `json:"traceId"`
	ID        string       `json:"id"`
	ParentID  *string      `json:"parentId"`
	Name      string       `json:"name"`
	Kind      string       `json:"kind"`
	Timestamp *json.Number `json:"timestamp"`
	Duration  *json.Number `json:"duration"`
}

func numN(n *json.Number) (string, bool) {
	if n == nil {
		return "0", true
	}
	for _, c := range n.String() {
		if c < '0' || c > '9' {
			return "0", false // negative or fractional: not a value the Zipkin API defines
		}
	}
	return n.String(), true
}

func genZipkinBatch(r *vgen.Rand) (tracetest.SpanStubs, bool) {
	n := r.Range(1, 5)
	var out tracetest.SpanStubs
	valid := true
	res := resource.NewSchemaless(attribute.String("service.name", "zk"))
	for i := 0; i < n; i++ {
		st := tracetest.SpanStub{
			Name:     vgen.Pick(r, []string{"op", "GET /Users/{ID}", "", "SELECT", "Recv.Msg", "lower_only", "MiXeD Case 9"}),
			SpanKind: trace.SpanKind(vgen.Pick(r, []int{0, 1, 2, 3, 4, 5, 0, 1, 2, 3, 4, 5, 0, 1, 2, 3, 4, 5, 6})), // 6: the switch's fall-through (outside the guard)
			Resource: res, InstrumentationScope: instrumentation.Scope{Name: "lib/z", Version: "v1"},
			Status: tracesdk.Status{Code: codes.Code(r.Intn(3))},
		}
		st.SpanContext = trace.NewSpanContext(trace.SpanContextConfig{TraceID: genTraceID(r), SpanID: genSpanID(r, i+1), TraceFlags: 1})
		if r.Chance(1, 8) { // half-valid parent contexts: the span id alone decides
			if r.Bool() {
				st.Parent = trace.NewSpanContext(trace.SpanContextConfig{SpanID: genSpanID(r, 100+i)})
			} else {
				st.Parent = trace.NewSpanContext(trace.SpanContextConfig{TraceID: st.SpanContext.TraceID()})
			}
		} else if r.Bool() {
			st.Parent = trace.NewSpanContext(trace.SpanContextConfig{TraceID: st.SpanContext.TraceID(), SpanID: genSpanID(r, 100+i)})
			if r.Chance(1, 6) {
				var p trace.SpanID
				p[7] = byte(1 + r.Intn(255)) // leading zero bytes
				st.Parent = trace.NewSpanContext(trace.SpanContextConfig{TraceID: st.SpanContext.TraceID(), SpanID: p})
			}
		}
		start := baseNanos + int64(r.U64()%3_600_000_000_000)
		switch r.Intn(14) {
		case 0:
			start = 1_000_000_000 // the earliest instant Zipkin accepts
		case 1:
			start = 1_000_000_000 + int64(r.Intn(2000))
		case 2:
			start = start/1000*1000 + 500 // exactly half a microsecond
		case 3:
			start = start/1000*1000 + 499
		}
		st.StartTime = time.Unix(0, start)
		var d int64
		switch r.Intn(12) {
		case 0:
			d = 0
		case 1:
			d = 1
		case 2:
			d = 499
		case 3:
			d = 999
		case 4:
			d = 1000
		case 5:
			d = 1499
		case 6:
			d = 1500
		case 7:
			d = int64(r.U64() % (1 << 60))
		default:
			d = int64(r.U64() % 10_000_000_000)
		}
		st.EndTime = st.StartTime.Add(time.Duration(d))
		switch r.Intn(40) {
		case 0: // zero start time: no timestamp
			st.StartTime, st.EndTime = time.Time{}, time.Time{}
		case 1: // before 1970-01-01T00:00:01Z: outside the guard, the export fails
			st.StartTime = time.Unix(0, vgen.Pick(r, []int64{999_999_999, 1, int64(r.Intn(1_000_000_000))}))
			st.EndTime = st.StartTime.Add(time.Duration(d % 1_000_000))
			valid = false
		case 2: // negative duration: outside the guard, the export fails
			st.EndTime = st.StartTime.Add(-time.Duration(vgen.Pick(r, []int{1, 1 + r.Intn(5000)})))
			valid = false
		}
		if r.Chance(1, 3) {
			st.Attributes = []attribute.KeyValue{attribute.String("peer.service", "db"), attribute.Int("n", i)}
		}
		out = append(out, st)
	}
	return out, valid
}

func zspanCoq(sd tracesdk.ReadOnlySpan) string {
	tid, sid, pid := sd.SpanContext().TraceID(), sd.SpanContext().SpanID(), sd.Parent().SpanID()
	start := vgen.None
	if !sd.StartTime().IsZero() {
		start = vgen.Some(zt(sd.StartTime()))
	}
	return vgen.App("mkZspan", hb(tid[:]), hb(sid[:]), hb(pid[:]), hs(sd.Name()), vgen.N(uint64(sd.SpanKind())), start,
		vgen.Z(int64(sd.EndTime().Sub(sd.StartTime()))))
}

func runZipkin(ctx context.Context, w *vgen.Writer, r *vgen.Rand, o vgen.Opts, hc *httpCollector, guard func(any, func())) {
	exp, err := zipkin.New("http://" + hc.addr() + "/api/v2/spans")
	if err != nil {
		w.Violation("cannot build the zipkin exporter: "+err.Error(), nil)
		return
	}
	defer func() { _ = exp.Shutdown(ctx) }()

	one := func(stubs tracetest.SpanStubs, valid bool, kind string) {
		snaps := stubs.Snapshots()
		desc := map[string]any{"signal": "zipkin", "spans": len(snaps), "all_within_guards": valid}
		var sum []string
		for _, sd := range snaps {
			sum = append(sum, fmt.Sprintf("%s/%s %q kind=%d start=%d dur=%d", sd.SpanContext().TraceID(), sd.SpanContext().SpanID(), sd.Name(), sd.SpanKind(),
				sd.StartTime().UnixNano(), sd.EndTime().Sub(sd.StartTime())))
		}
		desc["items"] = sum
		err := exportTo(&hc.sink, func() error { return exp.ExportSpans(ctx, snaps) })
		hc.mu.Lock()
		bodies := hc.zipkin
		hc.mu.Unlock()
		obs := vgen.None
		if err != nil {
			desc["export_error"] = short(err.Error(), 200)
		}
		if len(bodies) == 1 {
			var got []zkJSON
			dec := json.NewDecoder(bytes.NewReader(bodies[0]))
			dec.UseNumber()
			if derr := dec.Decode(&got); derr != nil {
				w.Violation("zipkin: the request body is not a JSON array of spans: "+derr.Error(), desc)
				return
			}
			items := make([]string, len(got))
			for i, g := range got {
				parent := vgen.None
				if g.ParentID != nil {
					parent = vgen.Some(hs(*g.ParentID))
				}
				ts, ok1 := numN(g.Timestamp)
				du, ok2 := numN(g.Duration)
				if !ok1 || !ok2 {
					w.Violation("zipkin: timestamp or duration is not a non-negative integer", desc)
					return
				}
				items[i] = vgen.App("mkZobs", hs(g.TraceID), hs(g.ID), parent, hs(g.Name), hs(g.Kind), ts, du)
			}
			obs = vgen.Some(vgen.List(items))
		} else if len(bodies) > 1 {
			w.Violation("zipkin: one ExportSpans call produced several requests", desc)
			return
		}
		w.Tally(fmt.Sprintf("zipkin:spans=%d", len(snaps)))
		if !valid {
			w.Tally("zipkin:outside-guards")
		}
		w.Add(vgen.App("CZipkin", lst(snaps, zspanCoq), obs), desc, kind, valid)
	}

	// corpus
	tid := trace.TraceID{0, 0, 0, 0, 0, 0, 0, 0, 9, 10, 11, 12, 13, 14, 15, 16} // 64-bit trace id
	mk := func(n int, name string, kind trace.SpanKind, start, dur int64) tracetest.SpanStub {
		return tracetest.SpanStub{Name: name, SpanKind: kind,
			SpanContext: trace.NewSpanContext(trace.SpanContextConfig{TraceID: tid, SpanID: trace.SpanID{0, 0, 0, 0, 0, 0, 1, byte(n)}, TraceFlags: 1}),
			Parent:      trace.NewSpanContext(trace.SpanContextConfig{TraceID: tid, SpanID: trace.SpanID{0, 0, 0, 0, 0, 0, 2, byte(n)}}),
			StartTime:   time.Unix(0, start), EndTime: time.Unix(0, start+dur)}
	}
	guard(map[string]any{"signal": "zipkin", "corpus": 0}, func() {
		one(tracetest.SpanStubs{mk(1, "Client Call", trace.SpanKindClient, baseNanos+499, 2_500_500), mk(2, "srv", trace.SpanKindServer, baseNanos+500, 1499),
			mk(3, "int", trace.SpanKindInternal, baseNanos, 1), mk(4, "prod", trace.SpanKindProducer, baseNanos, 0), mk(5, "cons", trace.SpanKindConsumer, 1_000_000_000, 1500)}, true, "zipkin-corpus")
	})
	// exporter-level path: an empty batch sends no request
	guard(map[string]any{"signal": "zipkin", "corpus": 1}, func() { one(nil, true, "zipkin-corpus") })
	n := o.Count(230, 6000)
	for i := 0; i < n; i++ {
		stubs, valid := genZipkinBatch(r)
		guard(map[string]any{"signal": "zipkin", "batch": i}, func() { one(stubs, valid, "zipkin") })
	}
}
