// Generators shared by the four signals: strings, attribute values of the eight types,
// resources, scopes, timestamps and counts (with their boundary values).
package main

import (
	"fmt"
	"math"
	"time"

	"go.opentelemetry.io/otel/attribute"
	"go.opentelemetry.io/otel/sdk/instrumentation"
	"go.opentelemetry.io/otel/sdk/resource"

	"verif/harness/vgen"
)

var words = []string{"a", "b", "k", "http.method", "net.peer.name", "svc", "x-y", "α", "日本", "ключ", "with space", "UPPER", "q_1"}
var strVals = []string{"", "v", "GET", "héllo", "a=1", "INVALID", "0", "true", "värde", "x\ty", "📈", "long-value-abcdefghijklmnopqrstuvwxyz"}

func genStr(r *vgen.Rand) string { return vgen.Pick(r, strVals) }

func genKey(r *vgen.Rand) string {
	if r.Chance(1, 40) {
		return ""
	}
	return vgen.Pick(r, words)
}

var specialFloats = []float64{0, math.Copysign(0, -1), 1, -1.5, math.Inf(1), math.Inf(-1), math.NaN(), math.MaxFloat64,
	math.SmallestNonzeroFloat64, 1e-300, 3.141592653589793, 2.5e17, math.Float64frombits(0x7ff8000000000001), math.Float64frombits(0xfff0000000000001)}
var plainFloats = []float64{0, 1, -1.5, math.Inf(1), math.MaxFloat64, math.SmallestNonzeroFloat64, 3.141592653589793, 2.5e17}

func genFloat(r *vgen.Rand, plain bool) float64 {
	if plain {
		return vgen.Pick(r, plainFloats)
	}
	if r.Chance(1, 3) {
		return math.Float64frombits(r.U64())
	}
	return vgen.Pick(r, specialFloats)
}

var specialInts = []int64{0, 1, -1, 42, math.MaxInt64, math.MinInt64, 1 << 32, -(1 << 31), 1<<53 + 1}

func genInt(r *vgen.Rand) int64 {
	if r.Chance(1, 3) {
		return int64(r.U64())
	}
	return vgen.Pick(r, specialInts)
}

// genValue draws one of the eight attribute value types. keyUse: the value goes into a
// resource or scope attribute set (a Go map key): float slices there avoid NaN and -0, whose
// array comparison is not reflexive / not injective (F-C05-1, outside this property).
func genValue(r *vgen.Rand, keyUse bool) attribute.Value {
	n := vgen.Pick(r, []int{0, 1, 1, 2, 3})
	switch r.Intn(8) {
	case 0:
		return attribute.BoolValue(r.Bool())
	case 1:
		return attribute.Int64Value(genInt(r))
	case 2:
		return attribute.Float64Value(genFloat(r, false))
	case 3:
		return attribute.StringValue(genStr(r))
	case 4:
		v := make([]bool, n)
		for i := range v {
			v[i] = r.Bool()
		}
		return attribute.BoolSliceValue(v)
	case 5:
		v := make([]int64, n)
		for i := range v {
			v[i] = genInt(r)
		}
		return attribute.Int64SliceValue(v)
	case 6:
		v := make([]float64, n)
		for i := range v {
			v[i] = genFloat(r, keyUse)
		}
		return attribute.Float64SliceValue(v)
	default:
		v := make([]string, n)
		for i := range v {
			v[i] = genStr(r)
		}
		return attribute.StringSliceValue(v)
	}
}

func genAttrs(r *vgen.Rand, max int, keyUse bool) []attribute.KeyValue {
	n := r.Intn(max + 1)
	if r.Chance(1, 3) {
		n = 0
	}
	out := make([]attribute.KeyValue, 0, n)
	for i := 0; i < n; i++ {
		out = append(out, attribute.KeyValue{Key: attribute.Key(genKey(r)), Value: genValue(r, keyUse)})
	}
	return out
}

var schemaURLs = []string{"", "https://opentelemetry.io/schemas/1.21.0", "https://opentelemetry.io/schemas/1.26.0", "urn:s"}

// genResources builds 1..4 resources. Every resource carries a distinguishing attribute unless it
// is the empty resource or a deliberate twin (same attributes, other schema URL: the F-C13-3 shape).
// The flag reports whether such a twin was created.
func genResources(r *vgen.Rand, allowTwin bool) ([]*resource.Resource, bool) {
	n := r.Range(1, 4)
	var out []*resource.Resource
	twin := false
	hasEmpty := false
	for i := 0; i < n; i++ {
		switch {
		case allowTwin && i > 0 && r.Chance(1, 2):
			base := out[r.Intn(len(out))]
			s := vgen.Pick(r, schemaURLs)
			for s == base.SchemaURL() {
				s = vgen.Pick(r, schemaURLs)
			}
			out = append(out, resource.NewWithAttributes(s, base.Attributes()...))
			twin = true
		case !hasEmpty && r.Chance(1, 8):
			hasEmpty = true
			if r.Bool() {
				out = append(out, resource.Empty())
			} else {
				out = append(out, resource.NewWithAttributes(vgen.Pick(r, schemaURLs)))
			}
		default:
			attrs := genAttrs(r, 4, true)
			attrs = append(attrs, attribute.Int("rid", i))
			if r.Chance(1, 2) {
				attrs = append(attrs, attribute.String("service.name", fmt.Sprintf("svc-%d", r.Intn(3))))
			}
			out = append(out, resource.NewWithAttributes(vgen.Pick(r, schemaURLs), attrs...))
		}
	}
	return out, twin
}

// genScopes: the empty scope (sometimes), and up to four scopes that differ in name, only in
// version, only in schema URL or only in attributes.
func genScopes(r *vgen.Rand) []instrumentation.Scope {
	n := r.Range(0, 4)
	var out []instrumentation.Scope
	if n == 0 || r.Chance(1, 3) {
		out = append(out, instrumentation.Scope{})
	}
	for i := 0; i < n; i++ {
		if i > 0 && r.Chance(1, 2) {
			base := out[len(out)-1]
			switch r.Intn(4) {
			case 3:
				// the same scope with its empty attribute set spelled the other way (one scope for a
				// reader, two keys for the code: its items may arrive in two groups of that scope)
				if base.Attributes.Len() == 0 {
					if base.Attributes == (attribute.Set{}) {
						base.Attributes = attribute.NewSet()
					} else {
						base.Attributes = attribute.Set{}
					}
				} else {
					base.Version = base.Version + ".2"
				}
			case 0:
				base.Version = base.Version + ".1"
			case 1:
				base.SchemaURL = base.SchemaURL + "/x"
			default:
				base.Attributes = attribute.NewSet(append(base.Attributes.ToSlice(), attribute.Int("sid", i))...)
			}
			out = append(out, base)
			continue
		}
		s := instrumentation.Scope{Name: fmt.Sprintf("lib/%d", i), Version: vgen.Pick(r, []string{"", "v1.2.3", "0.1"}),
			SchemaURL: vgen.Pick(r, schemaURLs)}
		switch r.Intn(8) {
		case 0, 1, 2, 3:
			// no attributes: the zero attribute.Set
		case 4:
			s.Attributes = attribute.NewSet() // no attributes, spelled as an allocated empty set
		case 5:
			s.Attributes = attribute.NewSet([]attribute.KeyValue{}...)
		default:
			s.Attributes = attribute.NewSet(genAttrs(r, 3, true)...) // may come out empty as well
		}
		if r.Chance(1, 12) {
			s.Name = "" // a scope that only has a version / schema URL / attributes
		}
		out = append(out, s)
	}
	return out
}

const baseNanos = int64(1_700_000_000_000_000_000)

// genTime: realistic instants plus the boundaries of the uint64 nanosecond encoding; about one
// instant in twenty lies outside the property's range guard (before the epoch).
func genTime(r *vgen.Rand) time.Time {
	switch r.Intn(40) {
	case 0:
		return time.Unix(0, 0)
	case 1:
		return time.Unix(0, 1)
	case 2:
		return time.Unix(0, math.MaxInt64)
	case 3:
		return time.Unix(0, -1) // before the epoch: outside the guard (clamped to 0)
	case 4:
		return time.Time{} // zero time (UnixNano undefined, negative): outside the guard
	case 5, 6:
		return time.Unix(0, int64(r.U64()>>1))
	}
	return time.Unix(0, baseNanos+int64(r.U64()%3_600_000_000_000))
}

// genCount: dropped-item counts around the uint32 clamp; about one in fifteen outside the guard.
func genCount(r *vgen.Rand) int {
	switch r.Intn(45) {
	case 0:
		return math.MaxUint32
	case 1:
		return math.MaxUint32 - 1
	case 2:
		return math.MaxUint32 + 1 // outside the guard (clamped)
	case 3:
		return -1 // outside the guard (clamped)
	case 4:
		return math.MaxInt64 // outside the guard (clamped)
	case 5, 6, 7, 8, 9, 10, 11, 12, 13, 14:
		return r.Intn(1000)
	}
	return 0
}

// manyAttrs: n small attributes with distinct keys (a hidden cap on a collection in a transform
// would drop some of them: 129 / 130 sit just above the SDK's default limits of 128).
func manyAttrs(n int) []attribute.KeyValue {
	out := make([]attribute.KeyValue, n)
	for i := range out {
		out[i] = attribute.Int(fmt.Sprintf("k%03d", i), i)
	}
	return out
}

func genU64(r *vgen.Rand) uint64 {
	switch r.Intn(6) {
	case 0:
		return 0
	case 1:
		return math.MaxUint64
	case 2:
		return r.U64()
	}
	return uint64(r.Intn(100000))
}
