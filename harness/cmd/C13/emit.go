// Coq emitters: abstract telemetry (what the harness handed to the exporter, read back through
// the public accessors) and the decoded protobuf / JSON observation.
package main

import (
	"math"
	"strings"
	"time"

	"go.opentelemetry.io/otel/attribute"
	"go.opentelemetry.io/otel/log"
	"go.opentelemetry.io/otel/sdk/instrumentation"
	"go.opentelemetry.io/otel/sdk/resource"
	commonpb "go.opentelemetry.io/proto/otlp/common/v1"
	resourcepb "go.opentelemetry.io/proto/otlp/resource/v1"

	"verif/harness/vgen"
)

func hs(s string) string   { return vgen.HxS(s) }
func hb(b []byte) string   { return vgen.Hx(b) }
func fb(f float64) string  { return vgen.N(math.Float64bits(f)) }
func zt(t time.Time) string { return vgen.Z(t.UnixNano()) }
func lst[T any](xs []T, f func(T) string) string {
	out := make([]string, len(xs))
	for i, x := range xs {
		out[i] = f(x)
	}
	return vgen.List(out)
}
func u64s(xs []uint64) string { return lst(xs, vgen.N) }
func f64s(xs []float64) string { return lst(xs, fb) }

// ---- telemetry side ----

func avalCoq(v attribute.Value) string {
	switch v.Type() {
	case attribute.BOOL:
		return vgen.App("ABool", vgen.Bool(v.AsBool()))
	case attribute.INT64:
		return vgen.App("AInt", vgen.Z(v.AsInt64()))
	case attribute.FLOAT64:
		return vgen.App("AF64", fb(v.AsFloat64()))
	case attribute.STRING:
		return vgen.App("AStr", hs(v.AsString()))
	case attribute.BOOLSLICE:
		return vgen.App("ABools", lst(v.AsBoolSlice(), vgen.Bool))
	case attribute.INT64SLICE:
		return vgen.App("AInts", lst(v.AsInt64Slice(), vgen.Z))
	case attribute.FLOAT64SLICE:
		return vgen.App("AF64s", f64s(v.AsFloat64Slice()))
	case attribute.STRINGSLICE:
		return vgen.App("AStrs", lst(v.AsStringSlice(), hs))
	}
	panic("harness: attribute of INVALID type generated")
}

func kvCoq(kv attribute.KeyValue) string { return vgen.Pair(hs(string(kv.Key)), avalCoq(kv.Value)) }
func kvsCoq(kvs []attribute.KeyValue) string { return lst(kvs, kvCoq) }

func lvalCoq(v log.Value) string {
	switch v.Kind() {
	case log.KindEmpty:
		return "LEmpty"
	case log.KindBool:
		return vgen.App("LBool", vgen.Bool(v.AsBool()))
	case log.KindInt64:
		return vgen.App("LInt", vgen.Z(v.AsInt64()))
	case log.KindFloat64:
		return vgen.App("LF64", fb(v.AsFloat64()))
	case log.KindString:
		return vgen.App("LStr", hs(v.AsString()))
	case log.KindBytes:
		return vgen.App("LBytes", hb(v.AsBytes()))
	case log.KindSlice:
		return vgen.App("LSlice", lst(v.AsSlice(), lvalCoq))
	case log.KindMap:
		return vgen.App("LMap", lst(v.AsMap(), lkvCoq))
	}
	panic("harness: unknown log value kind")
}
func lkvCoq(kv log.KeyValue) string { return vgen.Pair(hs(kv.Key), lvalCoq(kv.Value)) }

func resCoq(r *resource.Resource) string {
	return vgen.App("mkRes", kvsCoq(r.Attributes()), hs(r.SchemaURL()))
}
func scopeCoq(s instrumentation.Scope) string {
	// sc_alloc: an empty attribute set that is not the zero attribute.Set (attribute.NewSet() and friends):
	// the same scope for every reader, another Go map key for the transform code.
	alloc := s.Attributes.Len() == 0 && s.Attributes != (attribute.Set{})
	return vgen.App("mkScope", hs(s.Name), hs(s.Version), hs(s.SchemaURL), kvsCoq(s.Attributes.ToSlice()), vgen.Bool(alloc))
}

// ---- protobuf side ----

func pvalCoq(v *commonpb.AnyValue) string {
	if v == nil {
		return "PUnset"
	}
	switch x := v.Value.(type) {
	case nil:
		return "PUnset"
	case *commonpb.AnyValue_BoolValue:
		return vgen.App("PBool", vgen.Bool(x.BoolValue))
	case *commonpb.AnyValue_IntValue:
		return vgen.App("PInt", vgen.Z(x.IntValue))
	case *commonpb.AnyValue_DoubleValue:
		return vgen.App("PF64", fb(x.DoubleValue))
	case *commonpb.AnyValue_StringValue:
		return vgen.App("PStr", hs(x.StringValue))
	case *commonpb.AnyValue_BytesValue:
		return vgen.App("PBytes", hb(x.BytesValue))
	case *commonpb.AnyValue_ArrayValue:
		return vgen.App("PArr", lst(x.ArrayValue.GetValues(), pvalCoq))
	case *commonpb.AnyValue_KvlistValue:
		return vgen.App("PKvs", lst(x.KvlistValue.GetValues(), pkvCoq))
	}
	panic("harness: unknown AnyValue variant")
}
func pkvCoq(kv *commonpb.KeyValue) string { return vgen.Pair(hs(kv.GetKey()), pvalCoq(kv.GetValue())) }
func pkvsCoq(kvs []*commonpb.KeyValue) string { return lst(kvs, pkvCoq) }

func presCoq(r *resourcepb.Resource, schema string) string {
	return vgen.App("mkPRes", pkvsCoq(r.GetAttributes()), hs(schema))
}
func pscopeCoq(s *commonpb.InstrumentationScope, schema string) string {
	return vgen.App("mkPScope", hs(s.GetName()), hs(s.GetVersion()), pkvsCoq(s.GetAttributes()), hs(schema))
}

// twoSpellings: the pool holds one scope twice, its empty attribute set spelled as the zero Set and as
// an allocated empty set.
func twoSpellings(pool []instrumentation.Scope) bool {
	for i, a := range pool {
		for _, b := range pool[i+1:] {
			if a != b && a.Attributes.Len() == 0 && b.Attributes.Len() == 0 && a.Name == b.Name && a.Version == b.Version && a.SchemaURL == b.SchemaURL {
				return true
			}
		}
	}
	return false
}

func natPair3(ri, si int, body string) string {
	return "(" + vgen.Nat(ri) + ", " + vgen.Nat(si) + ", " + body + ")"
}

func optTerm(same bool, term string) string {
	if same {
		return vgen.None
	}
	return vgen.Some(term)
}

func short(s string, n int) string {
	s = strings.ToValidUTF8(s, "?")
	if len(s) > n {
		return s[:n] + "…"
	}
	return s
}
