package main

import (
	"context"

	"verif/harness/vgen"
)

func runLogs(ctx context.Context, w *vgen.Writer, r *vgen.Rand, o vgen.Opts, hc *httpCollector, gc *grpcCollector, guard func(any, func())) {}
func runMetrics(ctx context.Context, w *vgen.Writer, r *vgen.Rand, o vgen.Opts, hc *httpCollector, gc *grpcCollector, guard func(any, func())) {}
func runZipkin(ctx context.Context, w *vgen.Writer, r *vgen.Rand, o vgen.Opts, hc *httpCollector, guard func(any, func())) {}
