// C13 harness: OTLP trace / metric / log exporters and the Zipkin exporter against in-process
// collectors; every batch becomes one Coq case (abstract input + decoded observation).
package main

import (
	"context"
	"flag"
	"fmt"
	"os"
	"strings"
	"time"

	"verif/harness/vgen"
)

var copiesDiffer []string

// templateCopiesDiffer compares the generated gRPC / HTTP copies of the transform sources of the
// repository under check (VERIF_REPO, default /repo) after replacing the package names.
func templateCopiesDiffer() []string {
	repo := os.Getenv("VERIF_REPO")
	if repo == "" {
		repo = "/repo"
	}
	pairs := [][3]string{
		{"exporters/otlp/otlpmetric/otlpmetrichttp/internal/transform/metricdata.go", "exporters/otlp/otlpmetric/otlpmetricgrpc/internal/transform/metricdata.go", "otlpmetric"},
		{"exporters/otlp/otlpmetric/otlpmetrichttp/internal/transform/attribute.go", "exporters/otlp/otlpmetric/otlpmetricgrpc/internal/transform/attribute.go", "otlpmetric"},
		{"exporters/otlp/otlplog/otlploghttp/internal/transform/log.go", "exporters/otlp/otlplog/otlploggrpc/internal/transform/log.go", "otlplog"},
	}
	var out []string
	for _, p := range pairs {
		a, errA := os.ReadFile(repo + "/" + p[0])
		b, errB := os.ReadFile(repo + "/" + p[1])
		if errA != nil || errB != nil {
			continue
		}
		na := strings.ReplaceAll(string(a), p[2]+"http", p[2]+"X")
		nb := strings.ReplaceAll(string(b), p[2]+"grpc", p[2]+"X")
		if na != nb {
			out = append(out, p[0])
		}
	}
	return out
}

func main() {
	only := flag.String("only", "", "restrict to one signal: traces|logs|metrics|zipkin (debugging)")
	o := vgen.ParseFlags()
	// The exporters read OTEL_* (and proxy) variables; the run must not depend on the caller's environment.
	for _, kv := range os.Environ() {
		k := strings.SplitN(kv, "=", 2)[0]
		up := strings.ToUpper(k)
		if strings.HasPrefix(up, "OTEL_") || up == "HTTP_PROXY" || up == "HTTPS_PROXY" || up == "ALL_PROXY" {
			os.Unsetenv(k)
		}
	}
	// The gRPC and HTTP transform packages are rendered from one template: a textual difference
	// between the copies (modulo the package path) is no alarm, but it triples the search.
	if d := templateCopiesDiffer(); len(d) > 0 {
		o.Scale *= 3
		copiesDiffer = d
	}
	r := vgen.NewRand(o.Seed)
	w := vgen.NewWriter(o.Out, "C13.Types C13.Model C13.Spec C13.Corr", "case", 110)
	w.Rule = "batches of spans / log records mixing 1-4 resources and 0-4 scopes (shared, empty, differing only in one field), metric ResourceMetrics with every " +
		"aggregation kind and number type, Zipkin batches; each exported through the real exporters to in-process collectors (true wire round trip) and decoded; " +
		"a case is non-trivial when it holds more than one item or an item with attributes; distinct = distinct Coq case terms"

	ctx, cancel := context.WithTimeout(context.Background(), 10*time.Minute)
	defer cancel()
	hc := newHTTPCollector()
	defer hc.close()
	gc, err := newGRPCCollector()
	if err != nil {
		fmt.Fprintln(os.Stderr, "cannot start gRPC collector:", err)
		os.Exit(2)
	}
	defer gc.close()

	guard := func(desc any, f func()) {
		defer func() {
			if e := recover(); e != nil {
				w.Violation(fmt.Sprintf("panic: %v", e), desc)
			}
		}()
		f()
	}
	want := func(s string) bool { return *only == "" || *only == s }

	if want("traces") {
		tr, err := newTraceRig(ctx, hc, gc)
		if err != nil {
			fmt.Fprintln(os.Stderr, "cannot build trace exporters:", err)
			os.Exit(2)
		}
		rr := r.Fork()
		for i, b := range traceCorpus() {
			guard(map[string]any{"signal": "traces", "corpus": i}, func() { runTraceBatch(ctx, w, tr, b, "traces-corpus", i%2 == 1) })
		}
		n := o.Count(230, 6000)
		for i := 0; i < n; i++ {
			b := genSpanBatch(rr, i%3 == 0)
			guard(map[string]any{"signal": "traces", "batch": i}, func() { runTraceBatch(ctx, w, tr, b, "traces", i%3 == 2) })
		}
		tr.shutdown(ctx)
	}
	if want("logs") {
		runLogs(ctx, w, r.Fork(), o, hc, gc, guard)
	}
	if want("metrics") {
		runMetrics(ctx, w, r.Fork(), o, hc, gc, guard)
	}
	if want("zipkin") {
		runZipkin(ctx, w, r.Fork(), o, hc, guard)
	}
	w.Extra["transform_copies_differing"] = copiesDiffer
	if err := w.Flush(); err != nil {
		fmt.Fprintln(os.Stderr, err)
		os.Exit(2)
	}
}
