// In-process collectors on OS-chosen 127.0.0.1 ports: an HTTP server that decodes OTLP protobuf
// bodies (/v1/traces, /v1/metrics, /v1/logs) and Zipkin JSON (/api/v2/spans), and a gRPC server
// implementing the three OTLP collector services. Each keeps the last request it received.
package main

import (
	"compress/gzip"
	"context"
	"fmt"
	"io"
	"net"
	"net/http"
	"net/http/httptest"
	"sync"

	collogpb "go.opentelemetry.io/proto/otlp/collector/logs/v1"
	colmetricpb "go.opentelemetry.io/proto/otlp/collector/metrics/v1"
	coltracepb "go.opentelemetry.io/proto/otlp/collector/trace/v1"
	"google.golang.org/grpc"
	"google.golang.org/protobuf/proto"
)

type sink struct {
	mu      sync.Mutex
	traces  []*coltracepb.ExportTraceServiceRequest
	metrics []*colmetricpb.ExportMetricsServiceRequest
	logs    []*collogpb.ExportLogsServiceRequest
	zipkin  [][]byte
	bad     []string
}

// received reports how many requests arrived since the last reset.
func (s *sink) received() int {
	s.mu.Lock()
	defer s.mu.Unlock()
	return len(s.traces) + len(s.metrics) + len(s.logs) + len(s.zipkin) + len(s.bad)
}

// exportTo runs one export against a collector. A call that fails without anything having reached
// the collector is repeated (twice at most): a transient transport hiccup on a busy machine must not
// turn into an alarm, while a deterministic failure of the exporter stays a failure.
func exportTo(s *sink, f func() error) error {
	var err error
	for attempt := 0; attempt < 3; attempt++ {
		s.reset()
		if err = f(); err == nil || s.received() > 0 {
			return err
		}
	}
	return err
}

func (s *sink) reset() {
	s.mu.Lock()
	s.traces, s.metrics, s.logs, s.zipkin, s.bad = nil, nil, nil, nil, nil
	s.mu.Unlock()
}

type httpCollector struct {
	sink
	srv *httptest.Server
}

func newHTTPCollector() *httpCollector {
	c := &httpCollector{}
	mux := http.NewServeMux()
	reply := func(w http.ResponseWriter, m proto.Message) {
		b, _ := proto.Marshal(m)
		w.Header().Set("Content-Type", "application/x-protobuf")
		w.WriteHeader(http.StatusOK)
		_, _ = w.Write(b)
	}
	read := func(w http.ResponseWriter, req *http.Request, m proto.Message) bool {
		var rd io.Reader = req.Body
		var err error
		switch enc := req.Header.Get("Content-Encoding"); enc {
		case "":
		case "gzip":
			rd, err = gzip.NewReader(req.Body)
		default:
			err = fmt.Errorf("unexpected Content-Encoding %q", enc)
		}
		var body []byte
		if err == nil {
			body, err = io.ReadAll(rd)
		}
		if err == nil {
			err = proto.Unmarshal(body, m)
		}
		if err != nil {
			c.mu.Lock()
			c.bad = append(c.bad, req.URL.Path+": "+err.Error())
			c.mu.Unlock()
			http.Error(w, "bad request", http.StatusBadRequest)
			return false
		}
		return true
	}
	mux.HandleFunc("/v1/traces", func(w http.ResponseWriter, req *http.Request) {
		m := &coltracepb.ExportTraceServiceRequest{}
		if read(w, req, m) {
			c.mu.Lock()
			c.traces = append(c.traces, m)
			c.mu.Unlock()
			reply(w, &coltracepb.ExportTraceServiceResponse{})
		}
	})
	mux.HandleFunc("/v1/metrics", func(w http.ResponseWriter, req *http.Request) {
		m := &colmetricpb.ExportMetricsServiceRequest{}
		if read(w, req, m) {
			c.mu.Lock()
			c.metrics = append(c.metrics, m)
			c.mu.Unlock()
			reply(w, &colmetricpb.ExportMetricsServiceResponse{})
		}
	})
	mux.HandleFunc("/v1/logs", func(w http.ResponseWriter, req *http.Request) {
		m := &collogpb.ExportLogsServiceRequest{}
		if read(w, req, m) {
			c.mu.Lock()
			c.logs = append(c.logs, m)
			c.mu.Unlock()
			reply(w, &collogpb.ExportLogsServiceResponse{})
		}
	})
	mux.HandleFunc("/api/v2/spans", func(w http.ResponseWriter, req *http.Request) {
		body, _ := io.ReadAll(req.Body)
		c.mu.Lock()
		c.zipkin = append(c.zipkin, body)
		c.mu.Unlock()
		w.WriteHeader(http.StatusAccepted)
	})
	c.srv = httptest.NewServer(mux) // listens on 127.0.0.1:0
	return c
}

func (c *httpCollector) addr() string { return c.srv.Listener.Addr().String() }
func (c *httpCollector) close()       { c.srv.Close() }

type grpcCollector struct {
	sink
	srv *grpc.Server
	lis net.Listener
}

type traceSvc struct {
	coltracepb.UnimplementedTraceServiceServer
	c *grpcCollector
}

func (s traceSvc) Export(_ context.Context, req *coltracepb.ExportTraceServiceRequest) (*coltracepb.ExportTraceServiceResponse, error) {
	s.c.mu.Lock()
	s.c.traces = append(s.c.traces, req)
	s.c.mu.Unlock()
	return &coltracepb.ExportTraceServiceResponse{}, nil
}

type metricSvc struct {
	colmetricpb.UnimplementedMetricsServiceServer
	c *grpcCollector
}

func (s metricSvc) Export(_ context.Context, req *colmetricpb.ExportMetricsServiceRequest) (*colmetricpb.ExportMetricsServiceResponse, error) {
	s.c.mu.Lock()
	s.c.metrics = append(s.c.metrics, req)
	s.c.mu.Unlock()
	return &colmetricpb.ExportMetricsServiceResponse{}, nil
}

type logSvc struct {
	collogpb.UnimplementedLogsServiceServer
	c *grpcCollector
}

func (s logSvc) Export(_ context.Context, req *collogpb.ExportLogsServiceRequest) (*collogpb.ExportLogsServiceResponse, error) {
	s.c.mu.Lock()
	s.c.logs = append(s.c.logs, req)
	s.c.mu.Unlock()
	return &collogpb.ExportLogsServiceResponse{}, nil
}

func newGRPCCollector() (*grpcCollector, error) {
	lis, err := net.Listen("tcp", "127.0.0.1:0")
	if err != nil {
		return nil, err
	}
	c := &grpcCollector{srv: grpc.NewServer(grpc.MaxRecvMsgSize(64 << 20)), lis: lis}
	coltracepb.RegisterTraceServiceServer(c.srv, traceSvc{c: c})
	colmetricpb.RegisterMetricsServiceServer(c.srv, metricSvc{c: c})
	collogpb.RegisterLogsServiceServer(c.srv, logSvc{c: c})
	go func() { _ = c.srv.Serve(lis) }()
	return c, nil
}

func (c *grpcCollector) addr() string { return c.lis.Addr().String() }
func (c *grpcCollector) close()       { c.srv.Stop() }
