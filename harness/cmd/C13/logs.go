// Logs: sdk/log Records -> the real otlploghttp and otlploggrpc exporters -> in-process collectors.
package main

import (
	"context"
	"fmt"
	"reflect"
	"sort"
	"time"
	"unsafe"

	"go.opentelemetry.io/otel/attribute"
	"go.opentelemetry.io/otel/exporters/otlp/otlplog/otlploggrpc"
	"go.opentelemetry.io/otel/exporters/otlp/otlplog/otlploghttp"
	"go.opentelemetry.io/otel/log"
	"go.opentelemetry.io/otel/sdk/instrumentation"
	sdklog "go.opentelemetry.io/otel/sdk/log"
	"go.opentelemetry.io/otel/sdk/resource"
	"go.opentelemetry.io/otel/trace"
	collogpb "go.opentelemetry.io/proto/otlp/collector/logs/v1"
	logspb "go.opentelemetry.io/proto/otlp/logs/v1"
	"google.golang.org/protobuf/proto"

	"verif/harness/vgen"
)

// recordFactory mirrors go.opentelemetry.io/otel/sdk/log/logtest.RecordFactory (that package is a
// module of its own which harness/go.mod does not require): the public setters for everything
// that has one, reflection for resource, scope and the dropped-attribute count.
type recordFactory struct {
	EventName         string
	Timestamp         time.Time
	ObservedTimestamp time.Time
	Severity          log.Severity
	SeverityText      string
	Body              log.Value
	Attributes        []log.KeyValue
	TraceID           trace.TraceID
	SpanID            trace.SpanID
	TraceFlags        trace.TraceFlags
	Resource          *resource.Resource
	Scope             *instrumentation.Scope
	Dropped           int
}

func (f recordFactory) newRecord() sdklog.Record {
	r := new(sdklog.Record)
	setField(r, "attributeCountLimit", -1)
	setField(r, "attributeValueLengthLimit", -1)
	r.SetEventName(f.EventName)
	r.SetTimestamp(f.Timestamp)
	r.SetObservedTimestamp(f.ObservedTimestamp)
	r.SetSeverity(f.Severity)
	r.SetSeverityText(f.SeverityText)
	r.SetBody(f.Body)
	r.SetAttributes(f.Attributes...)
	r.SetTraceID(f.TraceID)
	r.SetSpanID(f.SpanID)
	r.SetTraceFlags(f.TraceFlags)
	setField(r, "resource", f.Resource)
	setField(r, "scope", f.Scope)
	setField(r, "dropped", f.Dropped)
	return *r
}

func setField(r *sdklog.Record, name string, value any) {
	rf := reflect.ValueOf(r).Elem().FieldByName(name)
	if !rf.IsValid() {
		panic("harness: sdk/log.Record has no field " + name)
	}
	rf = reflect.NewAt(rf.Type(), unsafe.Pointer(rf.UnsafeAddr())).Elem()
	rf.Set(reflect.ValueOf(value))
}

func genLogValue(r *vgen.Rand, depth int, allowEmpty bool) log.Value {
	k := r.Intn(9)
	if depth <= 0 && k >= 6 {
		k = r.Intn(6)
	}
	switch k {
	case 0:
		return log.BoolValue(r.Bool())
	case 1:
		return log.Int64Value(genInt(r))
	case 2:
		return log.Float64Value(genFloat(r, false))
	case 3:
		return log.StringValue(genStr(r))
	case 4:
		b := make([]byte, r.Intn(5))
		for i := range b {
			b[i] = byte(r.Intn(256))
		}
		return log.BytesValue(b)
	case 5:
		if allowEmpty {
			return log.Value{}
		}
		return log.StringValue("msg")
	case 6:
		n := r.Intn(4)
		vs := make([]log.Value, n)
		for i := range vs {
			vs[i] = genLogValue(r, depth-1, allowEmpty)
		}
		return log.SliceValue(vs...)
	default:
		n := r.Intn(4)
		kvs := make([]log.KeyValue, n)
		for i := range kvs {
			kvs[i] = log.KeyValue{Key: genKey(r), Value: genLogValue(r, depth-1, allowEmpty)}
		}
		return log.MapValue(kvs...)
	}
}

type logBatch struct {
	recs     []sdklog.Record
	twin     bool
	dropped  bool
	empty    bool
	nres     int
	nscopes  int
}

func genLogBatch(r *vgen.Rand, tiny bool) logBatch {
	var b logBatch
	var resources []*resource.Resource
	resources, b.twin = genResources(r, r.Chance(1, 6))
	scopes := genScopes(r)
	b.nres, b.nscopes = len(resources), len(scopes)
	allowDropped := r.Chance(1, 3)
	allowEmpty := r.Chance(1, 5)
	n := r.Range(1, 10)
	if tiny {
		n = r.Range(1, 3)
	}
	if r.Chance(1, 60) {
		n = 0 // an empty batch: nothing is uploaded
	}
	for i := 0; i < n; i++ {
		f := recordFactory{
			EventName:         vgen.Pick(r, []string{"", "", "device.app.lifecycle", "evt"}),
			Timestamp:         genTime(r),
			ObservedTimestamp: genTime(r),
			Severity:          log.Severity(vgen.Pick(r, []int{0, 1, 4, 5, 9, 10, 12, 13, 16, 17, 20, 21, 24, r.Intn(25), r.Intn(25), r.Intn(25), r.Intn(25), r.Intn(25), r.Intn(25), 25, -1})),
			SeverityText:      vgen.Pick(r, []string{"", "INFO", "warn", "Fehler"}),
			Body:              genLogValue(r, 3, allowEmpty),
			TraceFlags:        trace.TraceFlags(vgen.Pick(r, []int{0, 1, 1, 255, 2})),
		}
		if !allowEmpty && r.Chance(1, 2) {
			f.Body = log.StringValue(genStr(r))
		}
		for j, na := 0, vgen.Pick(r, []int{0, 1, 2, 3, 6}); j < na; j++ {
			f.Attributes = append(f.Attributes, log.KeyValue{Key: fmt.Sprintf("%s%d", genKey(r), j), Value: genLogValue(r, 2, allowEmpty)})
		}
		switch r.Intn(6) {
		case 0, 1, 2:
			f.TraceID = genTraceID(r)
			f.SpanID = genSpanID(r, i+1)
		case 3:
			f.SpanID = genSpanID(r, i+1) // span id without trace id
		case 4:
			f.TraceID = genTraceID(r) // trace id without span id
		}
		if allowDropped && r.Bool() {
			f.Dropped = vgen.Pick(r, []int{1, 2, 7, 1 << 31, 1<<32 - 1, 1<<32 - 1, 1 << 32, -1}) // the last two: outside the guard (clamped)
			b.dropped = true
		}
		f.Resource = vgen.Pick(r, resources)
		if f.Resource.Len() == 0 && f.Resource.SchemaURL() == "" && r.Chance(1, 3) {
			f.Resource = nil
		}
		sc := vgen.Pick(r, scopes)
		if sc != (instrumentation.Scope{}) || r.Bool() {
			f.Scope = &sc
		}
		rec := f.newRecord()
		if hasEmptyValue(rec) {
			b.empty = true
		}
		b.recs = append(b.recs, rec)
	}
	return b
}

func valueHasEmpty(v log.Value) bool {
	switch v.Kind() {
	case log.KindEmpty:
		return true
	case log.KindSlice:
		for _, x := range v.AsSlice() {
			if valueHasEmpty(x) {
				return true
			}
		}
	case log.KindMap:
		for _, kv := range v.AsMap() {
			if valueHasEmpty(kv.Value) {
				return true
			}
		}
	}
	return false
}

func hasEmptyValue(rec sdklog.Record) bool {
	found := valueHasEmpty(rec.Body())
	rec.WalkAttributes(func(kv log.KeyValue) bool {
		if valueHasEmpty(kv.Value) {
			found = true
		}
		return true
	})
	return found
}

func lrecCoq(rec sdklog.Record) string {
	var attrs []log.KeyValue
	rec.WalkAttributes(func(kv log.KeyValue) bool { attrs = append(attrs, kv); return true })
	tid, sid := rec.TraceID(), rec.SpanID()
	return vgen.App("mkLrec", zt(rec.Timestamp()), zt(rec.ObservedTimestamp()), hs(rec.EventName()), vgen.Z(int64(rec.Severity())),
		hs(rec.SeverityText()), lvalCoq(rec.Body()), lst(attrs, lkvCoq), hb(tid[:]), hb(sid[:]), vgen.N(uint64(rec.TraceFlags())),
		vgen.Z(int64(rec.DroppedAttributes())))
}

func plrecCoq(p *logspb.LogRecord) string {
	return vgen.App("mkPLrec", vgen.N(p.GetTimeUnixNano()), vgen.N(p.GetObservedTimeUnixNano()), vgen.N(uint64(p.GetSeverityNumber())),
		hs(p.GetSeverityText()), pvalCoq(p.GetBody()), pkvsCoq(p.GetAttributes()), vgen.N(uint64(p.GetDroppedAttributesCount())),
		vgen.N(uint64(p.GetFlags())), hb(p.GetTraceId()), hb(p.GetSpanId()), hs(p.GetEventName()))
}

// lobsCoq renders the decoded ResourceLogs; the resource groups (which come out of a Go map) are
// put in the order of their rendered text, so that equal payloads render equally.
func lobsCoq(rls []*logspb.ResourceLogs) string {
	groups := make([]string, len(rls))
	for i, rl := range rls {
		groups[i] = vgen.Pair(presCoq(rl.GetResource(), rl.GetSchemaUrl()), lst(rl.GetScopeLogs(), func(sl *logspb.ScopeLogs) string {
			return vgen.Pair(pscopeCoq(sl.GetScope(), sl.GetSchemaUrl()), lst(sl.GetLogRecords(), plrecCoq))
		}))
	}
	sort.Strings(groups)
	return vgen.List(groups)
}

func flattenLogReqs(reqs []*collogpb.ExportLogsServiceRequest) []*logspb.ResourceLogs {
	var out []*logspb.ResourceLogs
	for _, q := range reqs {
		out = append(out, q.GetResourceLogs()...)
	}
	return out
}

// sameModuloGroupOrder compares two payloads field by field (including fields outside the model)
// after ordering the resource groups by their deterministic encoding.
func sortedEncodings[T proto.Message](ms []T) []string {
	out := make([]string, len(ms))
	for i, m := range ms {
		b, _ := proto.MarshalOptions{Deterministic: true}.Marshal(m)
		out[i] = string(b)
	}
	sort.Strings(out)
	return out
}

func runLogs(ctx context.Context, w *vgen.Writer, r *vgen.Rand, o vgen.Opts, hc *httpCollector, gc *grpcCollector, guard func(any, func())) {
	he, err := otlploghttp.New(ctx, otlploghttp.WithEndpoint(hc.addr()), otlploghttp.WithInsecure(),
		otlploghttp.WithRetry(otlploghttp.RetryConfig{Enabled: false}), otlploghttp.WithTimeout(20*time.Second))
	if err != nil {
		w.Violation("cannot build the otlploghttp exporter: "+err.Error(), nil)
		return
	}
	ge, err := otlploggrpc.New(ctx, otlploggrpc.WithEndpoint(gc.addr()), otlploggrpc.WithInsecure(),
		otlploggrpc.WithRetry(otlploggrpc.RetryConfig{Enabled: false}), otlploggrpc.WithTimeout(20*time.Second))
	if err != nil {
		w.Violation("cannot build the otlploggrpc exporter: "+err.Error(), nil)
		return
	}
	// the same exporters configured through the other option spellings, with gzip
	hz, err := otlploghttp.New(ctx, otlploghttp.WithEndpointURL("http://"+hc.addr()+"/v1/logs"), otlploghttp.WithCompression(otlploghttp.GzipCompression),
		otlploghttp.WithRetry(otlploghttp.RetryConfig{Enabled: false}), otlploghttp.WithTimeout(20*time.Second))
	if err != nil {
		w.Violation("cannot build the otlploghttp exporter (gzip, endpoint URL): "+err.Error(), nil)
		return
	}
	gz, err := otlploggrpc.New(ctx, otlploggrpc.WithEndpointURL("http://"+gc.addr()), otlploggrpc.WithCompressor("gzip"),
		otlploggrpc.WithRetry(otlploggrpc.RetryConfig{Enabled: false}), otlploggrpc.WithTimeout(20*time.Second))
	if err != nil {
		w.Violation("cannot build the otlploggrpc exporter (gzip, endpoint URL): "+err.Error(), nil)
		return
	}
	defer func() { _ = he.Shutdown(ctx); _ = ge.Shutdown(ctx); _ = hz.Shutdown(ctx); _ = gz.Shutdown(ctx) }()

	one := func(b logBatch, kind string, zip bool) {
		he, ge := he, ge
		if zip {
			he, ge = hz, gz
			w.Tally("logs:route:gzip+endpoint-url")
		}
		desc := map[string]any{"signal": "logs", "records": len(b.recs), "resources": b.nres, "scopes": b.nscopes,
			"twin_resources": b.twin, "dropped_attributes": b.dropped, "empty_values": b.empty}
		// each exporter gets its own copy of the records
		cp := func() []sdklog.Record {
			out := make([]sdklog.Record, len(b.recs))
			for i := range b.recs {
				out[i] = b.recs[i].Clone()
			}
			return out
		}
		errH := exportTo(&hc.sink, func() error { return he.Export(ctx, cp()) })
		errG := exportTo(&gc.sink, func() error { return ge.Export(ctx, cp()) })
		if errH != nil || errG != nil {
			desc["export_errors"] = fmt.Sprint(errH, " | ", errG)
		}
		hc.mu.Lock()
		viaHTTP := flattenLogReqs(hc.logs)
		hc.mu.Unlock()
		gc.mu.Lock()
		viaGRPC := flattenLogReqs(gc.logs)
		gc.mu.Unlock()
		th, tg := lobsCoq(viaHTTP), lobsCoq(viaGRPC)
		if th == tg && !reflect.DeepEqual(sortedEncodings(viaHTTP), sortedEncodings(viaGRPC)) {
			w.Violation("logs: HTTP and gRPC payloads differ in a field outside the model", desc)
		}
		var resPool []*resource.Resource
		var scPool []instrumentation.Scope
		resIdx := map[string]int{}
		scIdx := map[instrumentation.Scope]int{}
		items := make([]string, len(b.recs))
		var sum []string
		for i := range b.recs {
			rec := b.recs[i]
			res := rec.Resource()
			rk := resCoq(&res)
			ri, ok := resIdx[rk]
			if !ok {
				ri = len(resPool)
				resIdx[rk] = ri
				resPool = append(resPool, &res)
			}
			sc := rec.InstrumentationScope()
			si, ok := scIdx[sc]
			if !ok {
				si = len(scPool)
				scIdx[sc] = si
				scPool = append(scPool, sc)
			}
			items[i] = natPair3(ri, si, lrecCoq(rec))
			sum = append(sum, fmt.Sprintf("r%d s%d sev=%d body=%s dropped=%d", ri, si, rec.Severity(), rec.Body().Kind(), rec.DroppedAttributes()))
		}
		desc["items"] = sum
		term := vgen.App("CLog", lst(resPool, resCoq), lst(scPool, scopeCoq), vgen.List(items), th, optTerm(tg == th, tg))
		w.Tally(fmt.Sprintf("logs:resources=%d", len(resPool)))
		w.Tally(fmt.Sprintf("logs:scopes=%d", len(scPool)))
		w.Tally(fmt.Sprintf("logs:records=%d", (len(b.recs)+2)/3*3))
		if twoSpellings(scPool) {
			w.Tally("logs:shape:scope-spelled-two-ways")
		}
		if b.twin {
			w.Tally("logs:shape:resources-differ-only-in-schema-url")
		}
		if b.dropped {
			w.Tally("logs:shape:dropped-attributes")
		}
		if b.empty {
			w.Tally("logs:shape:empty-value")
		}
		if len(b.recs) == 0 {
			w.Tally("logs:shape:empty-batch")
		}
		w.Add(term, desc, kind, len(b.recs) > 1 || (len(b.recs) == 1 && b.recs[0].AttributesLen() > 0))
	}

	for i, b := range logCorpus() {
		guard(map[string]any{"signal": "logs", "corpus": i}, func() { one(b, "logs-corpus", i%2 == 1) })
	}
	n := o.Count(200, 5000)
	for i := 0; i < n; i++ {
		b := genLogBatch(r, i%3 == 0)
		guard(map[string]any{"signal": "logs", "batch": i}, func() { one(b, "logs", i%3 == 2) })
	}
}

func logCorpus() []logBatch {
	res1 := resource.NewWithAttributes("https://opentelemetry.io/schemas/1.21.0", attribute.String("service.name", "a"))
	res2 := resource.NewWithAttributes("https://opentelemetry.io/schemas/1.26.0", attribute.String("service.name", "a"))
	res3 := resource.NewSchemaless(attribute.String("service.name", "b"))
	scA := &instrumentation.Scope{Name: "lib/a", Version: "v1", SchemaURL: "urn:s"}
	scB := &instrumentation.Scope{Name: "lib/b"}
	mk := func(n int, res *resource.Resource, sc *instrumentation.Scope) recordFactory {
		return recordFactory{Timestamp: time.Unix(0, baseNanos+int64(n)), ObservedTimestamp: time.Unix(0, baseNanos+100+int64(n)), Severity: log.SeverityInfo,
			SeverityText: "INFO", Body: log.StringValue(fmt.Sprint("m", n)), Resource: res, Scope: sc,
			Attributes: []log.KeyValue{log.Int("n", n)}}
	}
	var out []logBatch
	// F-C13-2 (fixed in /repo by c7bf84f; kept as regression input): DroppedAttributes = 2
	f := mk(1, res1, scA)
	f.Dropped = 2
	out = append(out, logBatch{recs: []sdklog.Record{f.newRecord()}, dropped: true, nres: 1, nscopes: 1})
	// F-C13-3
	out = append(out, logBatch{recs: []sdklog.Record{mk(1, res1, scA).newRecord(), mk(2, res2, scA).newRecord()}, twin: true, nres: 2, nscopes: 1})
	// F-C13-4: no body; an attribute with an empty value
	g := mk(1, res3, scB)
	g.Body = log.Value{}
	h := mk(2, res3, scB)
	h.Attributes = []log.KeyValue{log.Empty("e"), log.Map("m", log.Empty("inner"))}
	out = append(out, logBatch{recs: []sdklog.Record{g.newRecord()}, empty: true, nres: 1, nscopes: 1})
	out = append(out, logBatch{recs: []sdklog.Record{h.newRecord()}, empty: true, nres: 1, nscopes: 1})
	// interleaving
	out = append(out, logBatch{recs: []sdklog.Record{mk(1, res1, scA).newRecord(), mk(2, res3, scA).newRecord(), mk(3, res1, scB).newRecord(),
		mk(4, res3, scA).newRecord(), mk(5, res1, scA).newRecord(), mk(6, res3, nil).newRecord()}, nres: 2, nscopes: 3})
	// scopes that differ in exactly one field under one resource
	scV := &instrumentation.Scope{Name: "lib/a", Version: "v2", SchemaURL: "urn:s"}
	scU := &instrumentation.Scope{Name: "lib/a", Version: "v1"}
	scT1 := &instrumentation.Scope{Name: "lib/a", Version: "v1", SchemaURL: "urn:s", Attributes: attribute.NewSet(attribute.String("tenant", "a"))}
	scT2 := &instrumentation.Scope{Name: "lib/a", Version: "v1", SchemaURL: "urn:s", Attributes: attribute.NewSet(attribute.String("tenant", "b"))}
	out = append(out, logBatch{recs: []sdklog.Record{mk(1, res1, scA).newRecord(), mk(2, res1, scV).newRecord(), mk(3, res1, scU).newRecord(),
		mk(4, res1, scT1).newRecord(), mk(5, res1, scT2).newRecord(), mk(6, res1, scT1).newRecord(), mk(7, res1, scA).newRecord()}, nres: 1, nscopes: 5})
	// one scope, its empty attribute set spelled as the zero Set and as attribute.NewSet(): two Go map keys
	scA2 := &instrumentation.Scope{Name: "lib/a", Version: "v1", SchemaURL: "urn:s", Attributes: attribute.NewSet()}
	out = append(out, logBatch{recs: []sdklog.Record{mk(1, res1, scA).newRecord(), mk(2, res1, scA2).newRecord(), mk(3, res1, scA).newRecord(),
		mk(4, res3, scA2).newRecord(), mk(5, res1, scA2).newRecord()}, nres: 2, nscopes: 2})
	// large collections: a record with 130 attributes, a body slice / map with 130 members, 130 records in one scope
	bigR := mk(1, res3, scB)
	bigR.Attributes = nil
	var vals []log.Value
	var kvs []log.KeyValue
	for i := 0; i < 130; i++ {
		bigR.Attributes = append(bigR.Attributes, log.Int(fmt.Sprintf("k%03d", i), i))
		vals = append(vals, log.Int64Value(int64(i)))
		kvs = append(kvs, log.Int(fmt.Sprintf("m%03d", i), i))
	}
	bigR.Body = log.SliceValue(vals...)
	bigM := mk(2, res3, scB)
	bigM.Body = log.MapValue(kvs...)
	manyRecs := []sdklog.Record{bigR.newRecord(), bigM.newRecord()}
	for i := 0; i < 130; i++ {
		manyRecs = append(manyRecs, mk(10+i, res3, scB).newRecord())
	}
	out = append(out, logBatch{recs: manyRecs, nres: 1, nscopes: 1})
	// exporter-level path: an empty batch
	out = append(out, logBatch{})
	// severity table and ids
	var recs []sdklog.Record
	for s := 0; s <= 24; s += 3 {
		q := mk(s, res3, scB)
		q.Severity = log.Severity(s)
		q.TraceID = trace.TraceID{0, 0, 0, 0, 0, 0, 0, 0, 0, 0, 0, 0, 0, 0, 0, byte(s + 1)}
		q.SpanID = trace.SpanID{0, 0, 0, 0, 0, 0, 0, byte(s + 1)}
		q.TraceFlags = 1
		recs = append(recs, q.newRecord())
	}
	out = append(out, logBatch{recs: recs, nres: 1, nscopes: 1})
	return out
}
