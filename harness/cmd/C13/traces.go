// Traces: SpanStubs -> Snapshots -> (a) otlptrace.New with a client that marshals and unmarshals
// the request for real, (b) the real otlptracehttp exporter, (c) the real otlptracegrpc exporter,
// both against the in-process collectors.
package main

import (
	"context"
	"fmt"
	"math"
	"sort"
	"time"

	"go.opentelemetry.io/otel/attribute"
	"go.opentelemetry.io/otel/codes"
	"go.opentelemetry.io/otel/exporters/otlp/otlptrace"
	"go.opentelemetry.io/otel/exporters/otlp/otlptrace/otlptracegrpc"
	"go.opentelemetry.io/otel/exporters/otlp/otlptrace/otlptracehttp"
	"go.opentelemetry.io/otel/sdk/instrumentation"
	"go.opentelemetry.io/otel/sdk/resource"
	tracesdk "go.opentelemetry.io/otel/sdk/trace"
	"go.opentelemetry.io/otel/sdk/trace/tracetest"
	"go.opentelemetry.io/otel/trace"
	coltracepb "go.opentelemetry.io/proto/otlp/collector/trace/v1"
	tracepb "go.opentelemetry.io/proto/otlp/trace/v1"
	"google.golang.org/protobuf/proto"

	"verif/harness/vgen"
)

// wireClient is an otlptrace.Client: it does what a real client does up to the socket
// (wraps the ResourceSpans in the export request and marshals it) and then what a
// collector does (unmarshals), keeping the decoded request.
type wireClient struct {
	got []*tracepb.ResourceSpans
	err error
}

func (c *wireClient) Start(context.Context) error { return nil }
func (c *wireClient) Stop(context.Context) error  { return nil }
func (c *wireClient) UploadTraces(_ context.Context, rs []*tracepb.ResourceSpans) error {
	b, err := proto.Marshal(&coltracepb.ExportTraceServiceRequest{ResourceSpans: rs})
	if err != nil {
		c.err = err
		return err
	}
	var req coltracepb.ExportTraceServiceRequest
	if err := proto.Unmarshal(b, &req); err != nil {
		c.err = err
		return err
	}
	c.got = append(c.got, req.ResourceSpans...)
	return nil
}

var traceStates = []string{"", "", "", "a=1", "k1=v1,k2=v2", "vendor@sys=x:y"}

func mustTS(s string) trace.TraceState {
	ts, err := trace.ParseTraceState(s)
	if err != nil {
		panic(err)
	}
	return ts
}

func genTraceID(r *vgen.Rand) trace.TraceID {
	var t trace.TraceID
	for i := range t {
		t[i] = byte(r.Intn(256))
	}
	switch r.Intn(20) {
	case 0:
		for i := 0; i < 8; i++ { // 64-bit trace id: high half zero
			t[i] = 0
		}
	case 1:
		t = trace.TraceID{}
		t[15] = 1
	case 2:
		t[0] = 0 // leading zero byte
	}
	return t
}

func genSpanID(r *vgen.Rand, n int) trace.SpanID {
	var s trace.SpanID
	s[0], s[1] = byte(n>>8), byte(n)|1
	for i := 2; i < 8; i++ {
		s[i] = byte(r.Intn(256))
	}
	return s
}

type spanBatch struct {
	stubs     tracetest.SpanStubs
	resources []*resource.Resource
	scopes    []instrumentation.Scope
	ri, si    []int
	twin      bool
	linkTS    bool
	nilRes    bool
	nils      []int // positions (in the exported slice) of nil ReadOnlySpans: the code skips them
}

func genSpanBatch(r *vgen.Rand, tiny bool) spanBatch {
	var b spanBatch
	b.resources, b.twin = genResources(r, r.Chance(1, 6))
	b.scopes = genScopes(r)
	allowLinkTS := r.Chance(1, 3)
	n := r.Range(1, 10)
	if tiny {
		n = r.Range(1, 3)
	}
	if r.Chance(1, 60) {
		n = 0 // an empty batch: nothing is uploaded
	}
	if r.Chance(1, 12) {
		for j, k := 0, r.Range(1, 3); j < k; j++ {
			b.nils = append(b.nils, r.Intn(n+1+j))
		}
	}
	var traceIDs []trace.TraceID
	for i := 0; i < 3; i++ {
		traceIDs = append(traceIDs, genTraceID(r))
	}
	for i := 0; i < n; i++ {
		ri, si := r.Intn(len(b.resources)), r.Intn(len(b.scopes))
		st := tracetest.SpanStub{
			Name:     vgen.Pick(r, []string{"op", "GET /users/{id}", "", "SELECT", "süß", "Recv.Msg"}),
			SpanKind: trace.SpanKind(r.Intn(6)),
		}
		if r.Chance(1, 40) {
			st.SpanKind = trace.SpanKind(vgen.Pick(r, []int{6, 99})) // outside the guard: the switch's default
		}
		st.SpanContext = trace.NewSpanContext(trace.SpanContextConfig{TraceID: vgen.Pick(r, traceIDs), SpanID: genSpanID(r, i+1),
			TraceFlags: trace.TraceFlags(r.Intn(2)), TraceState: mustTS(vgen.Pick(r, traceStates)), Remote: r.Chance(1, 8)})
		switch r.Intn(5) {
		case 4: // a parent context that is only half valid: the parent span id alone decides what is sent
			if r.Bool() {
				st.Parent = trace.NewSpanContext(trace.SpanContextConfig{SpanID: genSpanID(r, 1000+i), Remote: r.Bool()}) // span id, zero trace id
			} else {
				st.Parent = trace.NewSpanContext(trace.SpanContextConfig{TraceID: st.SpanContext.TraceID(), Remote: r.Bool()}) // trace id, zero span id
			}
		case 0: // root
		case 1:
			st.Parent = trace.NewSpanContext(trace.SpanContextConfig{TraceID: st.SpanContext.TraceID(), SpanID: genSpanID(r, 1000+i), Remote: true})
		case 2:
			st.Parent = trace.NewSpanContext(trace.SpanContextConfig{TraceID: st.SpanContext.TraceID(), SpanID: genSpanID(r, 1000+i)})
		case 3:
			if r.Bool() {
				st.Parent = trace.NewSpanContext(trace.SpanContextConfig{Remote: true}) // invalid but remote
			} else if i > 0 {
				st.Parent = b.stubs[r.Intn(i)].SpanContext
			}
		}
		st.StartTime = genTime(r)
		st.EndTime = genTime(r)
		if r.Chance(2, 3) && st.StartTime.UnixNano() > 0 && st.StartTime.UnixNano() < math.MaxInt64/2 {
			st.EndTime = st.StartTime.Add(time.Duration(r.Intn(5_000_000_000)))
		}
		st.Attributes = genAttrs(r, 5, false)
		for j, ne := 0, vgen.Pick(r, []int{0, 0, 1, 2, 3}); j < ne; j++ {
			st.Events = append(st.Events, tracesdk.Event{Name: vgen.Pick(r, []string{"exception", "", "retry", "msg"}), Time: genTime(r),
				Attributes: genAttrs(r, 3, false), DroppedAttributeCount: genCount(r)})
		}
		for j, nl := 0, vgen.Pick(r, []int{0, 0, 1, 2, 3}); j < nl; j++ {
			cfg := trace.SpanContextConfig{TraceID: genTraceID(r), SpanID: genSpanID(r, 2000+j), TraceFlags: trace.TraceFlags(r.Intn(2)), Remote: r.Bool()}
			if allowLinkTS && r.Bool() {
				cfg.TraceState = mustTS(vgen.Pick(r, []string{"a=1", "k1=v1,k2=v2"}))
				b.linkTS = true
			}
			st.Links = append(st.Links, tracesdk.Link{SpanContext: trace.NewSpanContext(cfg), Attributes: genAttrs(r, 3, false), DroppedAttributeCount: genCount(r)})
		}
		st.Status = tracesdk.Status{Code: codes.Code(r.Intn(3))}
		if r.Chance(1, 40) {
			st.Status.Code = codes.Code(vgen.Pick(r, []int{3, 7})) // outside the guard: the switch's default
		}
		if st.Status.Code == codes.Error || r.Chance(1, 6) {
			st.Status.Description = vgen.Pick(r, []string{"", "boom", "deadline exceeded", "Fehler: ü"})
		}
		st.DroppedAttributes, st.DroppedEvents, st.DroppedLinks = genCount(r), genCount(r), genCount(r)
		st.ChildSpanCount = r.Intn(3)
		st.Resource = b.resources[ri]
		if b.resources[ri].Len() == 0 && b.resources[ri].SchemaURL() == "" && r.Chance(1, 3) {
			st.Resource = nil // a span without resource: same group as the empty resource
			b.nilRes = true
		}
		st.InstrumentationScope = b.scopes[si]
		b.stubs = append(b.stubs, st)
		b.ri, b.si = append(b.ri, ri), append(b.si, si)
	}
	return b
}

func spanCoq(sd tracesdk.ReadOnlySpan) string {
	sc, p := sd.SpanContext(), sd.Parent()
	tid, sid, pid := sc.TraceID(), sc.SpanID(), p.SpanID()
	ev := lst(sd.Events(), func(e tracesdk.Event) string {
		return vgen.App("mkEvent", hs(e.Name), zt(e.Time), kvsCoq(e.Attributes), vgen.Z(int64(e.DroppedAttributeCount)))
	})
	ln := lst(sd.Links(), func(l tracesdk.Link) string {
		t, s := l.SpanContext.TraceID(), l.SpanContext.SpanID()
		return vgen.App("mkLink", hb(t[:]), hb(s[:]), hs(l.SpanContext.TraceState().String()), vgen.Bool(l.SpanContext.IsRemote()),
			kvsCoq(l.Attributes), vgen.Z(int64(l.DroppedAttributeCount)))
	})
	return vgen.App("mkSpan", hb(tid[:]), hb(sid[:]), hs(sc.TraceState().String()), hb(pid[:]), vgen.Bool(p.IsRemote()),
		hs(sd.Name()), vgen.N(uint64(sd.SpanKind())), zt(sd.StartTime()), zt(sd.EndTime()), kvsCoq(sd.Attributes()),
		ev, ln, vgen.N(uint64(sd.Status().Code)), hs(sd.Status().Description),
		vgen.Z(int64(sd.DroppedAttributes())), vgen.Z(int64(sd.DroppedEvents())), vgen.Z(int64(sd.DroppedLinks())))
}

func pspanCoq(s *tracepb.Span) string {
	ev := lst(s.GetEvents(), func(e *tracepb.Span_Event) string {
		return vgen.App("mkPEvent", vgen.N(e.GetTimeUnixNano()), hs(e.GetName()), pkvsCoq(e.GetAttributes()), vgen.N(uint64(e.GetDroppedAttributesCount())))
	})
	ln := lst(s.GetLinks(), func(l *tracepb.Span_Link) string {
		return vgen.App("mkPLink", hb(l.GetTraceId()), hb(l.GetSpanId()), hs(l.GetTraceState()), pkvsCoq(l.GetAttributes()),
			vgen.N(uint64(l.GetDroppedAttributesCount())), vgen.N(uint64(l.GetFlags())))
	})
	return vgen.App("mkPSpan", hb(s.GetTraceId()), hb(s.GetSpanId()), hs(s.GetTraceState()), hb(s.GetParentSpanId()), vgen.N(uint64(s.GetFlags())),
		hs(s.GetName()), vgen.N(uint64(s.GetKind())), vgen.N(s.GetStartTimeUnixNano()), vgen.N(s.GetEndTimeUnixNano()),
		pkvsCoq(s.GetAttributes()), vgen.N(uint64(s.GetDroppedAttributesCount())), ev, vgen.N(uint64(s.GetDroppedEventsCount())),
		ln, vgen.N(uint64(s.GetDroppedLinksCount())), hs(s.GetStatus().GetMessage()), vgen.N(uint64(s.GetStatus().GetCode())))
}

const noIndex = math.MaxInt32

// sortTraces orders resource groups and, inside them, scope groups by the input position of
// the first span they hold (the resource groups come out of a Go map). Span order is kept.
func sortTraces(rss []*tracepb.ResourceSpans, pos map[string]int) {
	first := func(ss *tracepb.ScopeSpans) int {
		m := noIndex
		for _, s := range ss.GetSpans() {
			if p, ok := pos[string(s.GetSpanId())]; ok && p < m {
				m = p
			}
		}
		return m
	}
	firstR := func(rs *tracepb.ResourceSpans) int {
		m := noIndex
		for _, ss := range rs.GetScopeSpans() {
			if p := first(ss); p < m {
				m = p
			}
		}
		return m
	}
	for _, rs := range rss {
		sss := rs.ScopeSpans
		sort.SliceStable(sss, func(i, j int) bool { return first(sss[i]) < first(sss[j]) })
	}
	sort.SliceStable(rss, func(i, j int) bool { return firstR(rss[i]) < firstR(rss[j]) })
}

func tobsCoq(rss []*tracepb.ResourceSpans) string {
	return lst(rss, func(rs *tracepb.ResourceSpans) string {
		return vgen.Pair(presCoq(rs.GetResource(), rs.GetSchemaUrl()), lst(rs.GetScopeSpans(), func(ss *tracepb.ScopeSpans) string {
			return vgen.Pair(pscopeCoq(ss.GetScope(), ss.GetSchemaUrl()), lst(ss.GetSpans(), pspanCoq))
		}))
	})
}

type traceRig struct {
	wire       *wireClient
	wireExp    *otlptrace.Exporter
	httpExp    *otlptrace.Exporter
	grpcExp    *otlptrace.Exporter
	httpExpZ   *otlptrace.Exporter // gzip, endpoint given as URL
	grpcExpZ   *otlptrace.Exporter // gzip, endpoint given as URL
	httpC      *httpCollector
	grpcC      *grpcCollector
}

func newTraceRig(ctx context.Context, hc *httpCollector, gc *grpcCollector) (*traceRig, error) {
	t := &traceRig{wire: &wireClient{}, httpC: hc, grpcC: gc}
	var err error
	if t.wireExp, err = otlptrace.New(ctx, t.wire); err != nil {
		return nil, err
	}
	if t.httpExp, err = otlptrace.New(ctx, otlptracehttp.NewClient(otlptracehttp.WithEndpoint(hc.addr()), otlptracehttp.WithInsecure(),
		otlptracehttp.WithRetry(otlptracehttp.RetryConfig{Enabled: false}), otlptracehttp.WithTimeout(20*time.Second))); err != nil {
		return nil, err
	}
	if t.grpcExp, err = otlptrace.New(ctx, otlptracegrpc.NewClient(otlptracegrpc.WithEndpoint(gc.addr()), otlptracegrpc.WithInsecure(),
		otlptracegrpc.WithRetry(otlptracegrpc.RetryConfig{Enabled: false}), otlptracegrpc.WithTimeout(20*time.Second))); err != nil {
		return nil, err
	}
	if t.httpExpZ, err = otlptrace.New(ctx, otlptracehttp.NewClient(otlptracehttp.WithEndpointURL("http://"+hc.addr()+"/v1/traces"),
		otlptracehttp.WithCompression(otlptracehttp.GzipCompression),
		otlptracehttp.WithRetry(otlptracehttp.RetryConfig{Enabled: false}), otlptracehttp.WithTimeout(20*time.Second))); err != nil {
		return nil, err
	}
	if t.grpcExpZ, err = otlptrace.New(ctx, otlptracegrpc.NewClient(otlptracegrpc.WithEndpointURL("http://"+gc.addr()), otlptracegrpc.WithCompressor("gzip"),
		otlptracegrpc.WithRetry(otlptracegrpc.RetryConfig{Enabled: false}), otlptracegrpc.WithTimeout(20*time.Second))); err != nil {
		return nil, err
	}
	return t, nil
}

func (t *traceRig) shutdown(ctx context.Context) {
	_ = t.wireExp.Shutdown(ctx)
	_ = t.httpExp.Shutdown(ctx)
	_ = t.grpcExp.Shutdown(ctx)
	_ = t.httpExpZ.Shutdown(ctx)
	_ = t.grpcExpZ.Shutdown(ctx)
}

func flattenTraceReqs(reqs []*coltracepb.ExportTraceServiceRequest) []*tracepb.ResourceSpans {
	var out []*tracepb.ResourceSpans
	for _, q := range reqs {
		out = append(out, q.GetResourceSpans()...)
	}
	return out
}

// runTraceBatch exports one batch through the three routes and adds the case.
func runTraceBatch(ctx context.Context, w *vgen.Writer, t *traceRig, b spanBatch, kind string, gz bool) {
	snaps := b.stubs.Snapshots()
	pos := map[string]int{}
	for i, sd := range snaps {
		sid := sd.SpanContext().SpanID()
		if _, dup := pos[string(sid[:])]; !dup {
			pos[string(sid[:])] = i
		}
	}
	desc := map[string]any{"signal": "traces", "spans": len(snaps), "resources": len(b.resources), "scopes": len(b.scopes),
		"twin_resources": b.twin, "link_tracestate": b.linkTS}
	var names []string
	for i, sd := range snaps {
		names = append(names, fmt.Sprintf("%s r%d s%d %s", sd.SpanContext().SpanID(), b.ri[i], b.si[i], short(sd.Name(), 12)))
	}
	desc["items"] = names

	export := snaps
	if len(b.nils) > 0 {
		export = append([]tracesdk.ReadOnlySpan(nil), snaps...)
		for _, p := range b.nils {
			if p > len(export) {
				p = len(export)
			}
			export = append(export[:p], append([]tracesdk.ReadOnlySpan{nil}, export[p:]...)...)
		}
		w.Tally("traces:shape:nil-span-in-batch")
		desc["nil_spans_at"] = b.nils
	}
	if len(snaps) == 0 {
		w.Tally("traces:shape:empty-batch")
	}
	t.wire.got, t.wire.err = nil, nil
	errW := t.wireExp.ExportSpans(ctx, export)
	he, ge := t.httpExp, t.grpcExp
	if gz {
		he, ge = t.httpExpZ, t.grpcExpZ
		w.Tally("traces:route:gzip+endpoint-url")
	}
	errH := exportTo(&t.httpC.sink, func() error { return he.ExportSpans(ctx, export) })
	errG := exportTo(&t.grpcC.sink, func() error { return ge.ExportSpans(ctx, export) })
	if errW != nil || errH != nil || errG != nil {
		desc["export_errors"] = fmt.Sprint(errW, " | ", errH, " | ", errG)
	}
	wire := t.wire.got
	t.httpC.mu.Lock()
	viaHTTP := flattenTraceReqs(t.httpC.traces)
	bad := append([]string(nil), t.httpC.bad...)
	t.httpC.mu.Unlock()
	t.grpcC.mu.Lock()
	viaGRPC := flattenTraceReqs(t.grpcC.traces)
	t.grpcC.mu.Unlock()
	if len(bad) > 0 {
		desc["http_collector_rejected"] = bad
	}
	sortTraces(wire, pos)
	sortTraces(viaHTTP, pos)
	sortTraces(viaGRPC, pos)
	tw, th, tg := tobsCoq(wire), tobsCoq(viaHTTP), tobsCoq(viaGRPC)
	// "same payload": the modelled fields are compared by Coq (a differing payload is emitted in
	// full); fields outside the model are compared here.
	sameMsg := func(a, b []*tracepb.ResourceSpans) bool {
		return proto.Equal(&coltracepb.ExportTraceServiceRequest{ResourceSpans: a}, &coltracepb.ExportTraceServiceRequest{ResourceSpans: b})
	}
	if th == tw && tg == tw && (!sameMsg(wire, viaHTTP) || !sameMsg(wire, viaGRPC)) {
		w.Violation("traces: HTTP / gRPC / direct payloads differ in a field outside the model", desc)
	}

	// The pools are rebuilt from what the snapshots' accessors return (tracetest.Snapshot replaces a
	// scope that only has attributes by the empty library; a nil resource reads as the empty one).
	var resPool []*resource.Resource
	var scPool []instrumentation.Scope
	resIdx := map[*resource.Resource]int{}
	scIdx := map[instrumentation.Scope]int{}
	items := make([]string, len(snaps))
	for i, sd := range snaps {
		res := sd.Resource()
		ri, ok := resIdx[res]
		if !ok {
			ri = len(resPool)
			resIdx[res] = ri
			resPool = append(resPool, res)
		}
		sc := sd.InstrumentationScope()
		si, ok := scIdx[sc]
		if !ok {
			si = len(scPool)
			scIdx[sc] = si
			scPool = append(scPool, sc)
		}
		items[i] = natPair3(ri, si, spanCoq(sd))
	}
	resT := lst(resPool, resCoq)
	scT := lst(scPool, scopeCoq)
	term := vgen.App("CTrace", resT, scT, vgen.List(items), tw, optTerm(th == tw, th), optTerm(tg == tw, tg))
	w.Tally(fmt.Sprintf("traces:resources=%d", len(b.resources)))
	w.Tally(fmt.Sprintf("traces:scopes=%d", len(b.scopes)))
	w.Tally(fmt.Sprintf("traces:spans=%d", (len(snaps)+2)/3*3))
	if twoSpellings(scPool) {
		w.Tally("traces:shape:scope-spelled-two-ways")
	}
	if b.twin {
		w.Tally("traces:shape:resources-differ-only-in-schema-url")
	}
	if b.linkTS {
		w.Tally("traces:shape:link-with-tracestate")
	}
	if b.nilRes {
		w.Tally("traces:shape:nil-resource")
	}
	w.Add(term, desc, kind, len(snaps) > 1 || (len(snaps) == 1 && len(snaps[0].Attributes()) > 0))
}

// traceCorpus: fixed regression inputs, run first on every run.
func traceCorpus() []spanBatch {
	res1 := resource.NewWithAttributes("https://opentelemetry.io/schemas/1.21.0", attribute.String("service.name", "a"))
	res2 := resource.NewWithAttributes("https://opentelemetry.io/schemas/1.26.0", attribute.String("service.name", "a"))
	res3 := resource.NewWithAttributes("", attribute.String("service.name", "b"))
	scA := instrumentation.Scope{Name: "lib/a", Version: "v1"}
	scB := instrumentation.Scope{Name: "lib/b"}
	tid := trace.TraceID{1, 2, 3, 4, 5, 6, 7, 8, 9, 10, 11, 12, 13, 14, 15, 16}
	mk := func(n int, name string, res *resource.Resource, sc instrumentation.Scope) tracetest.SpanStub {
		return tracetest.SpanStub{Name: name, SpanKind: trace.SpanKindServer,
			SpanContext: trace.NewSpanContext(trace.SpanContextConfig{TraceID: tid, SpanID: trace.SpanID{0, byte(n), 0, 0, 0, 0, 0, 1}, TraceFlags: 1}),
			StartTime:   time.Unix(0, baseNanos), EndTime: time.Unix(0, baseNanos+1500), Resource: res, InstrumentationScope: sc,
			Status: tracesdk.Status{Code: codes.Ok}}
	}
	var out []spanBatch
	// F-C13-1 (fixed in /repo by fd654da; kept as regression input): a link carrying tracestate a=1
	s := mk(1, "linked", res1, scA)
	s.Links = []tracesdk.Link{{SpanContext: trace.NewSpanContext(trace.SpanContextConfig{TraceID: tid, SpanID: trace.SpanID{9, 9, 9, 9, 9, 9, 9, 9}, TraceState: mustTS("a=1")})}}
	out = append(out, spanBatch{stubs: tracetest.SpanStubs{s}, resources: []*resource.Resource{res1}, scopes: []instrumentation.Scope{scA}, ri: []int{0}, si: []int{0}, linkTS: true})
	// F-C13-3: two resources equal in attributes, different schema URLs
	out = append(out, spanBatch{stubs: tracetest.SpanStubs{mk(1, "one", res1, scA), mk(2, "two", res2, scA)},
		resources: []*resource.Resource{res1, res2}, scopes: []instrumentation.Scope{scA}, ri: []int{0, 1}, si: []int{0, 0}, twin: true})
	// interleaved resources and scopes: r1/a r3/a r1/b r3/a r1/a (last span of a group after a new resource started)
	out = append(out, spanBatch{stubs: tracetest.SpanStubs{mk(1, "s1", res1, scA), mk(2, "s2", res3, scA), mk(3, "s3", res1, scB), mk(4, "s4", res3, scA), mk(5, "s5", res1, scA)},
		resources: []*resource.Resource{res1, res3}, scopes: []instrumentation.Scope{scA, scB}, ri: []int{0, 1, 0, 1, 0}, si: []int{0, 0, 1, 0, 0}})
	// scopes that differ in exactly one field (attributes / version / schema URL / name) under one resource
	scV := instrumentation.Scope{Name: "lib/a", Version: "v2"}
	scU := instrumentation.Scope{Name: "lib/a", Version: "v1", SchemaURL: "urn:s"}
	scT1 := instrumentation.Scope{Name: "lib/a", Version: "v1", Attributes: attribute.NewSet(attribute.String("tenant", "a"))}
	scT2 := instrumentation.Scope{Name: "lib/a", Version: "v1", Attributes: attribute.NewSet(attribute.String("tenant", "b"))}
	out = append(out, spanBatch{stubs: tracetest.SpanStubs{mk(1, "a", res1, scA), mk(2, "v", res1, scV), mk(3, "u", res1, scU), mk(4, "t1", res1, scT1),
		mk(5, "t2", res1, scT2), mk(6, "b", res1, scB), mk(7, "t1'", res1, scT1), mk(8, "a'", res1, scA)},
		resources: []*resource.Resource{res1}, scopes: []instrumentation.Scope{scA, scV, scU, scT1, scT2, scB}, ri: []int{0, 0, 0, 0, 0, 0, 0, 0}, si: []int{0, 1, 2, 3, 4, 5, 3, 0}})
	// one scope, its empty attribute set spelled as the zero Set and as attribute.NewSet(): two Go map keys
	scA2 := instrumentation.Scope{Name: "lib/a", Version: "v1", Attributes: attribute.NewSet()}
	out = append(out, spanBatch{stubs: tracetest.SpanStubs{mk(1, "z1", res1, scA), mk(2, "n1", res1, scA2), mk(3, "z2", res1, scA), mk(4, "n2", res3, scA2), mk(5, "n3", res1, scA2)},
		resources: []*resource.Resource{res1, res3}, scopes: []instrumentation.Scope{scA, scA2}, ri: []int{0, 0, 0, 1, 0}, si: []int{0, 1, 0, 1, 1}})
	// exporter-level paths: an empty batch, a batch of nil spans only (nothing to upload), nil spans between real ones
	out = append(out, spanBatch{})
	out = append(out, spanBatch{nils: []int{0, 0}})
	out = append(out, spanBatch{stubs: tracetest.SpanStubs{mk(1, "s1", res1, scA), mk(2, "s2", res3, scA), mk(3, "s3", res1, scA)},
		resources: []*resource.Resource{res1, res3}, scopes: []instrumentation.Scope{scA}, ri: []int{0, 1, 0}, si: []int{0, 0, 0}, nils: []int{0, 2, 5}})
	// large per-item collections (just above the SDK's default limits of 128): events, links, attributes of a
	// span / an event / a link / the resource / the scope
	big := mk(1, "many-events", res3, scB)
	for i := 0; i < 130; i++ {
		big.Events = append(big.Events, tracesdk.Event{Name: "e", Time: time.Unix(0, baseNanos+int64(i))})
	}
	big.DroppedEvents = 3
	bigL := mk(2, "many-links", res3, scB)
	for i := 0; i < 129; i++ {
		bigL.Links = append(bigL.Links, tracesdk.Link{SpanContext: trace.NewSpanContext(trace.SpanContextConfig{TraceID: tid, SpanID: trace.SpanID{5, 5, 5, 5, 5, 5, byte(i >> 8), byte(i) | 1}})})
	}
	bigA := mk(3, "many-attrs", res3, scB)
	bigA.Attributes = manyAttrs(130)
	bigA.Events = []tracesdk.Event{{Name: "ea", Time: time.Unix(0, baseNanos), Attributes: manyAttrs(129)}}
	bigA.Links = []tracesdk.Link{{SpanContext: trace.NewSpanContext(trace.SpanContextConfig{TraceID: tid, SpanID: trace.SpanID{6, 6, 6, 6, 6, 6, 6, 6}}), Attributes: manyAttrs(129)}}
	out = append(out, spanBatch{stubs: tracetest.SpanStubs{big, bigL, bigA}, resources: []*resource.Resource{res3}, scopes: []instrumentation.Scope{scB}, ri: []int{0, 0, 0}, si: []int{0, 0, 0}})
	resBig := resource.NewSchemaless(manyAttrs(130)...)
	scBig := instrumentation.Scope{Name: "lib/big", Attributes: attribute.NewSet(manyAttrs(129)...)}
	var manySpans tracetest.SpanStubs
	var idx []int
	for i := 0; i < 130; i++ {
		manySpans = append(manySpans, mk(10+i, "s", resBig, scBig))
		manySpans[i].SpanContext = trace.NewSpanContext(trace.SpanContextConfig{TraceID: tid, SpanID: trace.SpanID{0, 9, 0, 0, 0, 0, byte(i >> 8), byte(i) | 1}})
		idx = append(idx, 0)
	}
	out = append(out, spanBatch{stubs: manySpans, resources: []*resource.Resource{resBig}, scopes: []instrumentation.Scope{scBig}, ri: idx, si: idx})
	// status table, parent, dropped-count clamps
	a := mk(1, "err", res3, instrumentation.Scope{})
	a.Status = tracesdk.Status{Code: codes.Error, Description: "boom"}
	a.Parent = trace.NewSpanContext(trace.SpanContextConfig{TraceID: tid, SpanID: trace.SpanID{7, 7, 7, 7, 7, 7, 7, 7}, Remote: true})
	a.DroppedAttributes, a.DroppedEvents, a.DroppedLinks = 1, 2, 3
	a.Events = []tracesdk.Event{{Name: "e", Time: time.Unix(0, baseNanos+7), DroppedAttributeCount: 4, Attributes: []attribute.KeyValue{attribute.Int64Slice("is", []int64{1, -2})}}}
	a.Links = []tracesdk.Link{{SpanContext: trace.NewSpanContext(trace.SpanContextConfig{TraceID: tid, SpanID: trace.SpanID{8, 8, 8, 8, 8, 8, 8, 8}, Remote: true}), DroppedAttributeCount: 5}}
	// parentage with half-valid parent contexts: span id without trace id (sent), trace id without span id (not sent)
	ph := mk(3, "parent-span-id-only", res3, instrumentation.Scope{})
	ph.Parent = trace.NewSpanContext(trace.SpanContextConfig{SpanID: trace.SpanID{4, 4, 4, 4, 4, 4, 4, 4}})
	pt := mk(4, "parent-trace-id-only", res3, instrumentation.Scope{})
	pt.Parent = trace.NewSpanContext(trace.SpanContextConfig{TraceID: tid, Remote: true})
	bq := mk(2, "unset", res3, instrumentation.Scope{})
	bq.Status = tracesdk.Status{}
	bq.DroppedAttributes = math.MaxUint32
	out = append(out, spanBatch{stubs: tracetest.SpanStubs{a, bq, ph, pt}, resources: []*resource.Resource{res3}, scopes: []instrumentation.Scope{{}}, ri: []int{0, 0, 0, 0}, si: []int{0, 0, 0, 0}})
	return out
}
