// C07 harness: explicit-bucket and base-2 exponential histograms of the real SDK
// (public API only: MeterProvider + ManualReader + View / aggregation selector /
// instrument option) vs the Coq model and specification.
package main

import (
	"context"
	"fmt"
	"math"
	"math/big"
	"os"
	"runtime"
	"sort"
	"sync"

	"github.com/go-logr/logr"
	"go.opentelemetry.io/otel"
	"go.opentelemetry.io/otel/attribute"
	ometric "go.opentelemetry.io/otel/metric"
	"go.opentelemetry.io/otel/sdk/metric"
	"go.opentelemetry.io/otel/sdk/metric/metricdata"

	"verif/harness/vgen"
)

var ctx = context.Background()

// ---- Coq literals ----

func fnum(v float64) string { return "(F " + vgen.N(math.Float64bits(v)) + ")" }
func inum(v int64) string   { return "(I " + vgen.Z(v) + ")" }

func fnums(vs []float64) string {
	out := make([]string, len(vs))
	for i, v := range vs {
		out[i] = fnum(v)
	}
	return vgen.List(out)
}
func inums(vs []int64) string {
	out := make([]string, len(vs))
	for i, v := range vs {
		out[i] = inum(v)
	}
	return vgen.List(out)
}
func ncounts(cs []uint64) string {
	out := make([]string, len(cs))
	for i, c := range cs {
		out[i] = vgen.N(c)
	}
	return vgen.List(out)
}
func hexes(vs []float64) []string {
	out := make([]string, len(vs))
	for i, v := range vs {
		out[i] = fmt.Sprintf("%#016x", math.Float64bits(v))
	}
	return out
}

// ---- driving the implementation ----

type setup struct {
	agg       metric.Aggregation // nil: default aggregation
	viaReader bool               // select agg through the reader's aggregation selector instead of a view
	instBound []float64          // WithExplicitBucketBoundaries on the instrument (nil = none)
	cumul     bool
	isInt     bool
	reuse     bool               // ONE ResourceMetrics reused across all collections + a neighbour instrument "a"
	auxAgg    metric.Aggregation // aggregation of the neighbour instrument (nil: default aggregation of its kind)
	auxSum    bool               // the neighbour is a Counter (its slot holds a metricdata.Sum: type assertion on reuse misses)
	kind      int                // instrument kind of "h", see kindNames
	cancelled bool               // record with an already cancelled context
	fnBounds  []float64          // non-nil: a FUNCTION View (not validated by NewView) hands these boundaries to the aggregator
	junkLater []float64          // caller-owned boundary slice, overwritten once the view / option has been built
}

// Instrument kinds "h" is created as.  The sum is not collected for kinds 2, 3, 5 (pipeline.go).
var kindNames = []string{"Histogram", "Counter", "UpDownCounter", "Gauge", "ObservableCounter", "ObservableGauge"}

func kindNoSum(k int) bool { return k == 2 || k == 3 || k == 5 }

type inst struct {
	r  *metric.ManualReader
	hf ometric.Float64Histogram
	hi ometric.Int64Histogram
	// reuse mode: "a" is created BEFORE "h", so it owns metric slot 0 whenever it has data and
	// "h" slides into that slot (and its data-point memory) in a delta cycle where "a" has none.
	af ometric.Float64Histogram
	ai ometric.Int64Histogram
	ac ometric.Int64Counter
	rm *metricdata.ResourceMetrics
	isInt bool
	// recF/recI record one measurement on "h" (x: under the second attribute set), whatever its kind;
	// observable kinds buffer and report from their callback during the next collect.
	recF func(v float64, x bool)
	recI func(v int64, x bool)
}

var attrX = ometric.WithAttributes(attribute.String("k", "x"))

func newInst(s setup) inst {
	temp := metricdata.DeltaTemporality
	if s.cumul {
		temp = metricdata.CumulativeTemporality
	}
	ropts := []metric.ManualReaderOption{metric.WithTemporalitySelector(func(metric.InstrumentKind) metricdata.Temporality { return temp })}
	if s.agg != nil && s.viaReader {
		a := s.agg
		ropts = append(ropts, metric.WithAggregationSelector(func(k metric.InstrumentKind) metric.Aggregation {
			return a // every instrument kind accepts a histogram aggregation; "a" has its own view
		}))
	}
	r := metric.NewManualReader(ropts...)
	popts := []metric.Option{metric.WithReader(r)}
	if s.agg != nil && !s.viaReader {
		popts = append(popts, metric.WithView(metric.NewView(metric.Instrument{Name: "h"}, metric.Stream{Aggregation: s.agg})))
	}
	if s.fnBounds != nil {
		fb := s.fnBounds
		var fv metric.View = func(i metric.Instrument) (metric.Stream, bool) {
			if i.Name != "h" {
				return metric.Stream{}, false
			}
			return metric.Stream{Name: i.Name, Aggregation: metric.AggregationExplicitBucketHistogram{Boundaries: fb}}, true
		}
		popts = append(popts, metric.WithView(fv))
	}
	if s.reuse && s.auxAgg != nil && !s.auxSum {
		popts = append(popts, metric.WithView(metric.NewView(metric.Instrument{Name: "a"}, metric.Stream{Aggregation: s.auxAgg})))
	}
	mp := metric.NewMeterProvider(popts...)
	m := mp.Meter("c07")
	if s.agg != nil && !s.viaReader { // NewView must have copied the boundaries by now (a selector is asked later)
		for i := range s.junkLater {
			s.junkLater[i] = math.NaN()
		}
	}
	in := inst{r: r, isInt: s.isInt}
	if s.reuse {
		in.rm = &metricdata.ResourceMetrics{}
		if s.auxSum {
			in.ac, _ = m.Int64Counter("a")
		} else if s.isInt {
			in.ai, _ = m.Int64Histogram("a")
		} else {
			in.af, _ = m.Float64Histogram("a")
		}
	}
	rctx := ctx
	if s.cancelled {
		c, cancel := context.WithCancel(ctx)
		cancel()
		rctx = c
	}
	opt := func(x bool) []ometric.RecordOption {
		if x {
			return []ometric.RecordOption{attrX}
		}
		return nil
	}
	aopt := func(x bool) []ometric.AddOption {
		if x {
			return []ometric.AddOption{attrX}
		}
		return nil
	}
	oopt := func(x bool) []ometric.ObserveOption {
		if x {
			return []ometric.ObserveOption{attrX}
		}
		return nil
	}
	type fobs struct {
		v float64
		x bool
	}
	type iobs struct {
		v int64
		x bool
	}
	var fbuf []fobs
	var ibuf []iobs
	fcb := func(_ context.Context, o ometric.Float64Observer) error {
		for _, e := range fbuf {
			o.Observe(e.v, oopt(e.x)...)
		}
		fbuf = fbuf[:0]
		return nil
	}
	icb := func(_ context.Context, o ometric.Int64Observer) error {
		for _, e := range ibuf {
			o.Observe(e.v, oopt(e.x)...)
		}
		ibuf = ibuf[:0]
		return nil
	}
	in.recF = func(v float64, x bool) { fbuf = append(fbuf, fobs{v, x}) }
	in.recI = func(v int64, x bool) { ibuf = append(ibuf, iobs{v, x}) }
	switch {
	case s.isInt && s.kind == 0:
		var o []ometric.Int64HistogramOption
		if s.instBound != nil {
			o = append(o, ometric.WithExplicitBucketBoundaries(s.instBound...))
		}
		in.hi, _ = m.Int64Histogram("h", o...)
		in.recI = func(v int64, x bool) { in.hi.Record(rctx, v, opt(x)...) }
	case !s.isInt && s.kind == 0:
		var o []ometric.Float64HistogramOption
		if s.instBound != nil {
			o = append(o, ometric.WithExplicitBucketBoundaries(s.instBound...))
		}
		in.hf, _ = m.Float64Histogram("h", o...)
		in.recF = func(v float64, x bool) { in.hf.Record(rctx, v, opt(x)...) }
	case s.isInt && s.kind == 1:
		c, _ := m.Int64Counter("h")
		in.recI = func(v int64, x bool) { c.Add(rctx, v, aopt(x)...) }
	case !s.isInt && s.kind == 1:
		c, _ := m.Float64Counter("h")
		in.recF = func(v float64, x bool) { c.Add(rctx, v, aopt(x)...) }
	case s.isInt && s.kind == 2:
		c, _ := m.Int64UpDownCounter("h")
		in.recI = func(v int64, x bool) { c.Add(rctx, v, aopt(x)...) }
	case !s.isInt && s.kind == 2:
		c, _ := m.Float64UpDownCounter("h")
		in.recF = func(v float64, x bool) { c.Add(rctx, v, aopt(x)...) }
	case s.isInt && s.kind == 3:
		c, _ := m.Int64Gauge("h")
		in.recI = func(v int64, x bool) { c.Record(rctx, v, opt(x)...) }
	case !s.isInt && s.kind == 3:
		c, _ := m.Float64Gauge("h")
		in.recF = func(v float64, x bool) { c.Record(rctx, v, opt(x)...) }
	case s.isInt && s.kind == 4:
		_, _ = m.Int64ObservableCounter("h", ometric.WithInt64Callback(icb))
	case !s.isInt && s.kind == 4:
		_, _ = m.Float64ObservableCounter("h", ometric.WithFloat64Callback(fcb))
	case s.isInt:
		_, _ = m.Int64ObservableGauge("h", ometric.WithInt64Callback(icb))
	default:
		_, _ = m.Float64ObservableGauge("h", ometric.WithFloat64Callback(fcb))
	}
	return in
}

func (in inst) collect() any {
	rm := &metricdata.ResourceMetrics{} // fresh unless the scenario reuses one (as PeriodicReader does)
	if in.rm != nil {
		rm = in.rm
	}
	if err := in.r.Collect(ctx, rm); err != nil {
		return nil
	}
	for _, sm := range rm.ScopeMetrics {
		for _, m := range sm.Metrics {
			if m.Name == "h" {
				return m.Data
			}
		}
	}
	return nil
}

// pickEmpty: index of the single data point whose attribute set is empty (the judged one), else -1.
func pickEmpty(n int, attrLen func(int) int) int {
	k := -1
	for i := 0; i < n; i++ {
		if attrLen(i) == 0 {
			if k >= 0 {
				return -1
			}
			k = i
		}
	}
	return k
}

// explicit observation
type hobs struct {
	bounds        []float64
	counts        []uint64
	count         uint64
	min, max, sum string // Coq num
	ok            bool // data point found
	mm, mmAny     bool // both / any extremum defined
	sumZero       bool
}

func (o hobs) coq() string {
	return vgen.App("Build_hobs", ncounts(o.counts), vgen.N(o.count), o.min, o.max, o.sum)
}

func obsExplicit(d any) hobs {
	switch h := d.(type) {
	case metricdata.Histogram[float64]:
		k := pickEmpty(len(h.DataPoints), func(i int) int { return h.DataPoints[i].Attributes.Len() })
		if k < 0 {
			return hobs{}
		}
		p := h.DataPoints[k]
		mi, ok1 := p.Min.Value()
		ma, ok2 := p.Max.Value()
		return hobs{bounds: p.Bounds, counts: p.BucketCounts, count: p.Count, min: fnum(mi), max: fnum(ma), sum: fnum(p.Sum), ok: true, mm: ok1 && ok2, mmAny: ok1 || ok2, sumZero: p.Sum == 0}
	case metricdata.Histogram[int64]:
		k := pickEmpty(len(h.DataPoints), func(i int) int { return h.DataPoints[i].Attributes.Len() })
		if k < 0 {
			return hobs{}
		}
		p := h.DataPoints[k]
		mi, ok1 := p.Min.Value()
		ma, ok2 := p.Max.Value()
		return hobs{bounds: p.Bounds, counts: p.BucketCounts, count: p.Count, min: inum(mi), max: inum(ma), sum: inum(p.Sum), ok: true, mm: ok1 && ok2, mmAny: ok1 || ok2, sumZero: p.Sum == 0}
	}
	return hobs{}
}

// exponential observation
type eobs struct {
	scale          int32
	posOff, negOff int32
	pos, neg       []uint64
	zero, count    uint64
	min, max, sum  string
	ok             bool
	mm, mmAny      bool
	sumZero        bool
}

func (o eobs) coq() string {
	return vgen.App("Build_eobs", vgen.Z(int64(o.scale)), vgen.Z(int64(o.posOff)), ncounts(o.pos),
		vgen.Z(int64(o.negOff)), ncounts(o.neg), vgen.N(o.zero), vgen.N(o.count), o.min, o.max, o.sum)
}

func obsExpo(d any) eobs {
	switch h := d.(type) {
	case metricdata.ExponentialHistogram[float64]:
		k := pickEmpty(len(h.DataPoints), func(i int) int { return h.DataPoints[i].Attributes.Len() })
		if k < 0 {
			return eobs{}
		}
		p := h.DataPoints[k]
		mi, ok1 := p.Min.Value()
		ma, ok2 := p.Max.Value()
		return eobs{scale: p.Scale, posOff: p.PositiveBucket.Offset, pos: p.PositiveBucket.Counts, negOff: p.NegativeBucket.Offset,
			neg: p.NegativeBucket.Counts, zero: p.ZeroCount, count: p.Count, min: fnum(mi), max: fnum(ma), sum: fnum(p.Sum), ok: true, mm: ok1 && ok2, mmAny: ok1 || ok2, sumZero: p.Sum == 0}
	case metricdata.ExponentialHistogram[int64]:
		k := pickEmpty(len(h.DataPoints), func(i int) int { return h.DataPoints[i].Attributes.Len() })
		if k < 0 {
			return eobs{}
		}
		p := h.DataPoints[k]
		mi, ok1 := p.Min.Value()
		ma, ok2 := p.Max.Value()
		return eobs{scale: p.Scale, posOff: p.PositiveBucket.Offset, pos: p.PositiveBucket.Counts, negOff: p.NegativeBucket.Offset,
			neg: p.NegativeBucket.Counts, zero: p.ZeroCount, count: p.Count, min: inum(mi), max: inum(ma), sum: inum(p.Sum), ok: true, mm: ok1 && ok2, mmAny: ok1 || ok2, sumZero: p.Sum == 0}
	}
	return eobs{}
}

// ---- exact index with big floats (only used to CHOOSE inputs; Coq certifies) ----

func exactIdx(v float64, s int) int64 {
	fr, ex := math.Frexp(v)
	x := new(big.Float).SetPrec(600).SetFloat64(fr * 2)
	e := int64(ex - 1)
	two := big.NewFloat(2).SetPrec(600)
	one := big.NewFloat(1).SetPrec(600)
	var f int64
	for k := 0; k < s; k++ {
		x.Mul(x, x)
		f *= 2
		if x.Cmp(two) >= 0 {
			x.Quo(x, two)
			f++
		}
	}
	base := e<<uint(s) + f
	if x.Cmp(one) == 0 {
		return base - 1
	}
	return base
}

// belowBoundary: the largest float64 in [1,2) that is <= 2^(k/2^s), 0 < k < 2^s.
func belowBoundary(k, s int) float64 {
	n := 1 << uint(s)
	b := math.Exp2(float64(k) / float64(n))
	for exactIdx(b, s) >= int64(k) {
		b = math.Nextafter(b, 0)
	}
	for exactIdx(math.Nextafter(b, 3), s) < int64(k) {
		b = math.Nextafter(b, 3)
	}
	return b
}

// ---- value generators ----

func randMant(r *vgen.Rand) float64 { // uniform mantissa in [1,2)
	return math.Float64frombits(0x3FF0000000000000 | (r.U64() & (1<<52 - 1)))
}

func genValue(r *vgen.Rand, class int) float64 {
	switch class {
	case 0: // moderate range
		return math.Ldexp(randMant(r), r.Range(-8, 8))
	case 1: // wide range
		return math.Ldexp(randMant(r), r.Range(-300, 300))
	case 2: // whole float64 range incl. subnormals
		v := math.Ldexp(randMant(r), r.Range(-1074, 1023))
		if v == 0 || math.IsInf(v, 0) {
			v = 1
		}
		return v
	case 3: // powers of two and their float neighbours
		p := math.Ldexp(1, r.Range(-1074, 1023))
		switch r.Intn(3) {
		case 0:
			if q := math.Nextafter(p, 0); q > 0 {
				return q
			}
		case 1:
			return math.Nextafter(p, math.Inf(1))
		}
		return p
	case 4: // subnormals
		return math.Float64frombits(r.U64()&(1<<52-1) | 1)
	case 5: // extremes
		return vgen.Pick(r, []float64{math.MaxFloat64, math.SmallestNonzeroFloat64, 0x1p-1022, math.Nextafter(0x1p-1022, 0), 0x1p1023, 1, 2, 0.5, 1e300, 1e-300})
	case 6: // exact-sum class: multiples of 2^-10 below 2^30
		return float64(r.Intn(1<<20)) / 1024 * float64(int64(1)<<uint(r.Intn(11)))
	default: // narrow cluster around 1000
		return 1000 * (1 + float64(r.Intn(1000))/4000)
	}
}

func genSeq(r *vgen.Rand, n int) []float64 {
	style := r.Intn(12)
	out := make([]float64, 0, n)
	for i := 0; i < n; i++ {
		var v float64
		switch style {
		case 0, 1:
			v = genValue(r, 0)
		case 2:
			v = genValue(r, 1)
		case 3:
			v = genValue(r, 2)
		case 4:
			v = genValue(r, 3)
		case 5:
			v = genValue(r, vgen.Pick(r, []int{3, 4, 5}))
		case 6:
			v = genValue(r, 6)
		case 7:
			v = genValue(r, 7)
		default:
			v = genValue(r, r.Intn(8))
		}
		switch r.Intn(14) {
		case 0:
			v = 0
		case 1:
			v = math.Copysign(0, -1)
		case 2, 3, 4:
			if style != 7 || r.Bool() {
				v = -v
			}
		}
		out = append(out, v)
	}
	switch r.Intn(5) {
	case 0: // ascending magnitudes: grow right
		sort.Slice(out, func(a, b int) bool { return math.Abs(out[a]) < math.Abs(out[b]) })
	case 1: // descending magnitudes: grow left
		sort.Slice(out, func(a, b int) bool { return math.Abs(out[a]) > math.Abs(out[b]) })
	}
	return out
}

func genInts(r *vgen.Rand, n int) []int64 {
	style := r.Intn(5)
	out := make([]int64, n)
	for i := range out {
		var v int64
		switch style {
		case 0:
			v = int64(r.Intn(200)) - 50
		case 1:
			v = int64(1) << uint(r.Intn(54))
			v += int64(r.Intn(3)) - 1
		case 2:
			v = int64(r.U64() >> uint(11+r.Intn(50)))
		default:
			v = int64(r.Intn(1 << uint(1+r.Intn(30))))
		}
		if v > 1<<53 {
			v = 1 << 53
		}
		if r.Chance(1, 5) {
			v = -v
		}
		if r.Chance(1, 15) {
			v = 0
		}
		if r.Chance(1, 7) { // int64 extremes whose float64 conversion is exact: +-2^k, k = 52..62, and MinInt64 = -2^63
			v = int64(1) << uint(r.Range(52, 62))
			if r.Bool() {
				v = -v
			}
			if r.Chance(1, 4) {
				v = math.MinInt64
			}
		}
		out[i] = v
	}
	return out
}

func genBounds(r *vgen.Rand) []float64 {
	switch r.Intn(9) {
	case 0:
		return []float64{}
	case 1:
		return []float64{genValue(r, r.Intn(3)) * float64(1-2*r.Intn(2))}
	case 2:
		return []float64{0, 5, 10, 25, 50, 75, 100, 250, 500, 750, 1000, 2500, 5000, 7500, 10000}
	case 3: // dense: consecutive floats
		b := genValue(r, 0)
		out := []float64{b}
		for i := 0; i < r.Range(1, 5); i++ {
			b = math.Nextafter(b, math.Inf(1))
			out = append(out, b)
		}
		return out
	case 6: // infinite boundaries at the ends (valid: strictly increasing)
		b := []float64{math.Inf(-1), -1, 0, 2.5, math.Inf(1)}
		return b[r.Intn(2) : 4+r.Intn(2)]
	case 4: // around zero, with subnormals
		return []float64{-1, -math.SmallestNonzeroFloat64, 0, math.SmallestNonzeroFloat64, 0x1p-1022, 1}
	case 5: // integers (for int64 instruments)
		n := r.Range(1, 8)
		out := make([]float64, 0, n)
		b := float64(r.Intn(20) - 10)
		for i := 0; i < n; i++ {
			out = append(out, b)
			b += float64(1 + r.Intn(40))
		}
		return out
	default:
		n := r.Range(2, 10)
		m := map[float64]bool{}
		for len(m) < n {
			v := genValue(r, r.Intn(3))
			if r.Chance(1, 3) {
				v = -v
			}
			m[v] = true
		}
		out := make([]float64, 0, n)
		for v := range m {
			out = append(out, v)
		}
		sort.Float64s(out)
		return out
	}
}

func nearBounds(r *vgen.Rand, bounds []float64, fallback float64) float64 {
	if len(bounds) == 0 {
		return fallback
	}
	b := vgen.Pick(r, bounds)
	switch r.Intn(4) {
	case 0:
		return math.Nextafter(b, math.Inf(-1))
	case 1:
		return math.Nextafter(b, math.Inf(1))
	}
	return b
}

// poor cycles (after a rich one, same memory): one narrow positive value, a lone zero (sum, min and
// max all 0, no buckets), or a cancelling pair (sum exactly 0).
func poorFloats(r *vgen.Rand) []float64 {
	switch r.Intn(4) {
	case 0:
		return []float64{0}
	case 1:
		x := float64(1+r.Intn(64)) / 8
		return []float64{x, -x}
	}
	return []float64{genValue(r, 7)}
}

func poorInts(r *vgen.Rand) []int64 {
	switch r.Intn(4) {
	case 0:
		return []int64{0}
	case 1:
		x := int64(1 + r.Intn(9))
		return []int64{x, -x}
	}
	return []int64{int64(1 + r.Intn(9))}
}

func sameFloats(a, b []float64) bool {
	if len(a) != len(b) {
		return false
	}
	for i := range a {
		if math.Float64bits(a[i]) != math.Float64bits(b[i]) {
			return false
		}
	}
	return true
}

func main() {
	o := vgen.ParseFlags()
	r := vgen.NewRand(o.Seed)
	otel.SetErrorHandler(otel.ErrorHandlerFunc(func(error) {}))
	otel.SetLogger(logr.Discard())
	w := vgen.NewWriter(o.Out, "C07.Model C07.Spec C07.Proofs C07.Corr", "case", 40)
	w.Rule = "validation probes, explicit histograms (boundary lists incl. empty/single/dense, values at and next to boundaries), " +
		"exponential histogram sequences over (MaxSize,MaxScale) in {1,2,3,4,20,160}x{-10,-1,0,1,8,20} (subnormals, powers of two and neighbours, " +
		"huge dynamic range, negatives, zeros, ascending/descending orders, int64 and float64 instruments, delta and cumulative with several collects), " +
		"two thirds of the multi-collect scenarios reuse ONE ResourceMetrics for all their collections (as PeriodicReader does), with a neighbour instrument and a second attribute set present in even cycles only and rich-then-poor batches, so that a point is written into memory that held negatives / zeros / wider windows / min-max-less points / more points; "+
		"single-value bucket probes at scales -10..20 on both float neighbours of bucket boundaries; a case is non-trivial when it has a populated " +
		"bucket window beyond the first bucket / a scale change / a boundary neighbour; float64 sums are compared only when every partial sum is exact " +
		"(multiples of 2^-10, sum of magnitudes < 2^43), which Coq decides per case; sequences avoid immediate neighbours of non-power-of-two bucket " +
		"boundaries (those are probed one by one, see F-C07-3); int64 values in sequences are kept within +-2^53 (exactly convertible to float64), larger ones are probed one by one (F-C07-4)"

	guard := func(desc any, f func()) {
		defer func() {
			if e := recover(); e != nil {
				w.Violation(fmt.Sprintf("panic: %v", e), desc)
			}
		}()
		f()
	}

	// ---------- validation ----------
	addExpoValid := func(ms, mxs int32, viaReader bool, kind string) {
		desc := map[string]any{"op": "expo-validate", "maxsize": ms, "maxscale": mxs, "via_reader": viaReader}
		guard(desc, func() {
			in := newInst(setup{agg: metric.AggregationBase2ExponentialHistogram{MaxSize: ms, MaxScale: mxs}, viaReader: viaReader})
			in.hf.Record(ctx, 1)
			d := in.collect()
			_, accepted := d.(metricdata.ExponentialHistogram[float64])
			desc["accepted"] = accepted
			w.Tally(fmt.Sprintf("expo-validate:accepted=%v", accepted))
			w.Add(vgen.App("CExpoValid", vgen.Z(int64(ms)), vgen.Z(int64(mxs)), vgen.Bool(accepted)), desc, kind, true)
		})
	}
	addBoundsValid := func(b []float64, mode int, kind string) {
		desc := map[string]any{"op": "bounds-validate", "bounds": hexes(b), "mode": mode}
		guard(desc, func() {
			var s setup
			switch mode {
			case 0:
				s = setup{agg: metric.AggregationExplicitBucketHistogram{Boundaries: b}}
			case 1:
				s = setup{agg: metric.AggregationExplicitBucketHistogram{Boundaries: b}, viaReader: true}
			default:
				if len(b) == 0 {
					return // an empty option list means "no option"
				}
				s = setup{instBound: b}
			}
			in := newInst(s)
			in.hf.Record(ctx, 1)
			ob := obsExplicit(in.collect())
			accepted := sameFloats(ob.bounds, b)
			desc["accepted"] = accepted
			w.Tally(fmt.Sprintf("bounds-validate:accepted=%v", accepted))
			w.Add(vgen.App("CBoundsValid", fnums(b), vgen.Bool(accepted)), desc, kind, true)
		})
	}
	// corpus first (F-C07-2 repaired: MaxScale below -10 must be rejected)
	for _, c := range [][2]int32{{4, -11}, {1, -11}, {160, -2147483648}, {4, -10}, {4, 20}, {4, 21}, {0, 0}, {-1, 5}, {1, 0}} {
		addExpoValid(c[0], c[1], false, "corpus-validate")
		addExpoValid(c[0], c[1], true, "corpus-validate")
	}
	for _, ms := range []int32{-5, 0, 1, 2, 160, 100000} {
		for _, mxs := range []int32{-100, -12, -11, -10, -9, 0, 19, 20, 21, 22, 1000} {
			addExpoValid(ms, mxs, r.Bool(), "expo-validate")
		}
	}
	for _, b := range [][]float64{{}, {1}, {1, 1}, {1, 2}, {2, 1}, {1, 2, 2}, {1, 2, 3}, {3, 2, 1}, {1, 3, 2}, {-1, 0, math.SmallestNonzeroFloat64},
		{0, math.Copysign(0, -1)}, {math.Copysign(0, -1), 0}, {1, math.Nextafter(1, 2)}, {math.Nextafter(1, 2), 1},
		{math.Inf(-1), math.Inf(1)}, {math.Inf(1), math.Inf(1)}, {math.Inf(1), 1}, {math.MaxFloat64, math.Inf(1)}, {math.Inf(-1)}} {
		for mode := 0; mode < 3; mode++ {
			addBoundsValid(b, mode, "bounds-validate")
		}
	}
	for i := 0; i < o.Count(40, 600); i++ {
		b := genBounds(r)
		if len(b) >= 2 && r.Chance(1, 2) { // break monotonicity
			i, j := r.Intn(len(b)), r.Intn(len(b))
			if r.Bool() {
				b[i] = b[j]
			} else {
				b[i], b[j] = b[j], b[i]
			}
		}
		if len(b) == 15 && b[0] == 0 && b[14] == 10000 {
			continue // equals the default boundaries: acceptance would not be observable
		}
		addBoundsValid(b, r.Intn(3), "bounds-validate")
	}

	// Reuse mode (set by the generators below): ONE ResourceMetrics for all collections of the
	// scenario, a neighbour instrument "a" (same aggregation kind, NoMinMax, other parameters) that
	// owns metric slot 0 in even cycles only, and a second attribute set on "h" in even cycles only:
	// in the following cycle "h" is written into memory that held richer data (negatives, zeros,
	// wide windows, min/max-less points, more data points).
	reuse := false
	ikind := 0         // instrument kind of "h" for the next scenario (kindNames)
	noMinMax := false  // NoMinMax stream: extrema must be absent
	cancelled := false // record under an already cancelled context
	auxMode := 0       // neighbour "a": 0 same aggregation kind (NoMinMax), 1 default aggregation, 2 a Counter (Sum in the slot)
	scribble := false  // overwrite the caller's boundary slice after construction and every returned slice after observing it
	nonFinite := false // interleave NaN / +-Inf measurements (the exponential histogram must ignore them)
	noise := func(in inst, k int) {
		if in.rm == nil || k%2 == 1 {
			return
		}
		fs := []float64{-1e-3, -7, -1e9, 0, 0, 0.25, 3, 1e12, -2.5, math.Copysign(0, -1)}
		is := []int64{-1, -70, -1000000000, 0, 0, 2, 3, 1000000000000, -25, 0}
		for j := range fs {
			switch {
			case in.ac != nil:
				in.ac.Add(ctx, int64(j+1))
			case in.af != nil:
				in.af.Record(ctx, fs[j])
			default:
				in.ai.Record(ctx, is[j])
			}
			if j%2 == 0 && k%4 == 0 || j == 0 {
				if in.isInt {
					in.recI(is[j], true)
				} else {
					in.recF(fs[j], true)
				}
			}
		}
	}

	knobs := func() {
		ikind = vgen.Pick(r, []int{0, 0, 0, 1, 2, 3, 4, 5})
		noMinMax = r.Chance(1, 5)
		cancelled = r.Chance(1, 6)
		auxMode = vgen.Pick(r, []int{0, 0, 1, 2})
		scribble = r.Bool()
		nonFinite = r.Chance(1, 4)
	}
	resetKnobs := func() {
		reuse, ikind, noMinMax, cancelled, auxMode, scribble, nonFinite = false, 0, false, false, 0, false, false
	}

	// Fields a stream does not report must be absent: Min/Max undefined under NoMinMax, Sum = 0 for the
	// instrument kinds whose sum is not collected.  Checked here; Coq is told NoNum and skips the field.
	absent := func(mm, mmAny, sumZero bool, mn, mx, sm *string, cd any) bool {
		if noMinMax {
			if mmAny {
				w.Violation("NoMinMax stream reports a minimum or maximum", cd)
				return false
			}
			*mn, *mx = "NoNum", "NoNum"
		} else if !mm {
			w.Violation("data point without min/max although NoMinMax is not set", cd)
			return false
		}
		if kindNoSum(ikind) {
			if !sumZero {
				w.Violation("instrument kind whose sum is not collected reports a non-zero sum", cd)
				return false
			}
			*sm = "NoNum"
		}
		return true
	}
	defaultBounds := []float64{0, 5, 10, 25, 50, 75, 100, 250, 500, 750, 1000, 2500, 5000, 7500, 10000}
	junkF := func(xs []float64) {
		for i := range xs {
			xs[i] = math.NaN()
		}
	}
	junkU := func(xs []uint64) {
		for i := range xs {
			xs[i] = 0xdeadbeef
		}
	}

	// ---------- explicit histograms ----------
	// mode 0 view, 1 reader aggregation selector, 2 instrument option (Histogram kind only), 3 nothing: default boundaries
	addExplicit := func(bounds []float64, mode int, cumul, isInt bool, fb [][]float64, ib [][]int64, kind string) {
		if mode == 2 && (ikind != 0 || len(bounds) == 0 || noMinMax) {
			mode = 0
		}
		if mode == 3 && (ikind != 0 || noMinMax) {
			mode = 0 // only a Histogram instrument defaults to a histogram aggregation
		}
		if mode == 3 {
			bounds = defaultBounds
		}
		desc := map[string]any{"op": "explicit", "bounds": hexes(bounds), "mode": mode, "cumulative": cumul, "int64": isInt,
			"kind": kindNames[ikind], "no_min_max": noMinMax, "reuse_rm": reuse, "aux": auxMode, "scribble": scribble, "cancelled_ctx": cancelled}
		guard(desc, func() {
			given := append([]float64{}, bounds...) // what the SDK is handed; scribbled over afterwards
			var s setup
			switch mode {
			case 3:
				s = setup{}
			case 2:
				s = setup{instBound: given}
			case 1:
				s = setup{agg: metric.AggregationExplicitBucketHistogram{Boundaries: given, NoMinMax: noMinMax}, viaReader: true}
			default:
				s = setup{agg: metric.AggregationExplicitBucketHistogram{Boundaries: given, NoMinMax: noMinMax}}
			}
			s.cumul, s.isInt, s.reuse, s.kind, s.cancelled = cumul, isInt, reuse, ikind, cancelled
			switch auxMode {
			case 0:
				s.auxAgg = metric.AggregationExplicitBucketHistogram{Boundaries: []float64{-100, -1, 0, 1, 2, 3, 4, 5, 6, 7, 8, 1e6}, NoMinMax: !noMinMax}
			case 1:
				s.auxAgg = metric.AggregationBase2ExponentialHistogram{MaxSize: 160, MaxScale: 20} // other data type in the slot
			default:
				s.auxSum = true
			}
			if scribble {
				s.junkLater = given
			}
			in := newInst(s)
			if scribble {
				junkF(given)
			}
			var allF []float64
			var allI []int64
			nb := len(fb)
			if isInt {
				nb = len(ib)
			}
			for k := 0; k < nb; k++ {
				noise(in, k)
				if isInt {
					for _, v := range ib[k] {
						in.recI(v, false)
					}
					if cumul {
						allI = append(allI, ib[k]...)
					} else {
						allI = ib[k]
					}
				} else {
					for _, v := range fb[k] {
						in.recF(v, false)
					}
					if cumul {
						allF = append(allF, fb[k]...)
					} else {
						allF = fb[k]
					}
				}
				n := len(allF) + len(allI)
				d := in.collect()
				if n == 0 {
					continue
				}
				ob := obsExplicit(d)
				cd := map[string]any{"config": desc, "collect": k}
				if !ob.ok {
					w.Violation("no explicit histogram data point after recording", cd)
					continue
				}
				if !sameFloats(ob.bounds, bounds) {
					w.Violation("data point boundaries differ from the configured (valid) boundaries", cd)
					continue
				}
				if !absent(ob.mm, ob.mmAny, ob.sumZero, &ob.min, &ob.max, &ob.sum, cd) {
					continue
				}
				vals := fnums(allF)
				if isInt {
					vals = inums(allI)
					cd["values"] = allI
				} else {
					cd["values"] = hexes(allF)
				}
				w.Tally(fmt.Sprintf("explicit:int=%v:cumul=%v:bounds=%d", isInt, cumul, min(len(bounds), 3)))
				w.Tally("explicit:kind=" + kindNames[ikind])
				w.Add(vgen.App("CExplicit", fnums(bounds), vals, ob.coq()), cd, kind, n >= 2)
				if scribble { // the caller may do what it likes with what a collect returned
					junkF(ob.bounds)
					junkU(ob.counts)
				}
			}
		})
	}
	// Boundaries that reach the aggregator without validation (function View): unsorted, duplicated.
	// The aggregator sorts its copy; the point must report the sorted list and bucket against it.
	addExplicitRaw := func(given []float64, cumul, isInt bool, fb [][]float64, ib [][]int64, kind string) {
		desc := map[string]any{"op": "explicit-function-view", "given": hexes(given), "cumulative": cumul, "int64": isInt}
		guard(desc, func() {
			in := newInst(setup{fnBounds: append([]float64{}, given...), cumul: cumul, isInt: isInt})
			var allF []float64
			var allI []int64
			nb := len(fb)
			if isInt {
				nb = len(ib)
			}
			for k := 0; k < nb; k++ {
				if isInt {
					for _, v := range ib[k] {
						in.recI(v, false)
					}
					if cumul {
						allI = append(allI, ib[k]...)
					} else {
						allI = ib[k]
					}
				} else {
					for _, v := range fb[k] {
						in.recF(v, false)
					}
					if cumul {
						allF = append(allF, fb[k]...)
					} else {
						allF = fb[k]
					}
				}
				if len(allF)+len(allI) == 0 {
					in.collect()
					continue
				}
				ob := obsExplicit(in.collect())
				cd := map[string]any{"config": desc, "collect": k}
				if !ob.ok || !ob.mm {
					w.Violation("no explicit histogram data point with min/max after recording (function view)", cd)
					continue
				}
				vals := fnums(allF)
				if isInt {
					vals = inums(allI)
					cd["values"] = allI
				} else {
					cd["values"] = hexes(allF)
				}
				cd["reported_bounds"] = hexes(ob.bounds)
				w.Tally(fmt.Sprintf("explicit-function-view:sorted_input=%v", sort.Float64sAreSorted(given)))
				w.Add(vgen.App("CExplicitRaw", fnums(given), fnums(ob.bounds), vals, ob.coq()), cd, kind, true)
			}
		})
	}
	rawVals := []float64{-1, 0, 3, 5, 7, 10, 11, 5, 10}
	for _, g := range [][]float64{{10, 5, 0}, {5, 5, 10}, {0, 5, 10}, {5, 0, 10, 0}, {10}, {}, {0, math.Copysign(0, -1), 5}, {3, 3, 3}} {
		addExplicitRaw(g, false, false, [][]float64{rawVals}, nil, "corpus-function-view")
		addExplicitRaw(g, true, true, nil, [][]int64{{-1, 0, 3, 5}, {7, 10, 11, 5}}, "corpus-function-view")
	}
	for i := 0; i < o.Count(50, 800); i++ {
		g := genBounds(r)
		switch r.Intn(4) {
		case 0: // reversed
			for a, b := 0, len(g)-1; a < b; a, b = a+1, b-1 {
				g[a], g[b] = g[b], g[a]
			}
		case 1: // shuffled
			for a := len(g) - 1; a > 0; a-- {
				b := r.Intn(a + 1)
				g[a], g[b] = g[b], g[a]
			}
		case 2: // duplicates somewhere, then shuffled a little
			if len(g) > 0 {
				g = append(g, g[r.Intn(len(g))], g[r.Intn(len(g))])
				a, b := r.Intn(len(g)), r.Intn(len(g))
				g[a], g[b] = g[b], g[a]
			}
		}
		isInt := r.Chance(1, 4)
		nb := vgen.Pick(r, []int{1, 1, 2})
		var fb [][]float64
		var ib [][]int64
		for k := 0; k < nb; k++ {
			n := vgen.Pick(r, []int{2, 4, 7, 12})
			if isInt {
				vs := genInts(r, n)
				for j := range vs {
					if len(g) > 0 && r.Bool() {
						if b := vgen.Pick(r, g); math.Abs(b) < 1<<52 {
							vs[j] = int64(math.Floor(b)) + int64(r.Intn(3)) - 1
						}
					}
				}
				ib = append(ib, vs)
			} else {
				vs := genSeq(r, n)
				for j := range vs {
					if r.Chance(2, 3) {
						vs[j] = nearBounds(r, g, vs[j])
					}
					if math.IsInf(vs[j], 0) {
						vs[j] = math.Copysign(math.MaxFloat64, vs[j])
					}
				}
				fb = append(fb, vs)
			}
		}
		addExplicitRaw(g, r.Bool(), isInt, fb, ib, "explicit-function-view")
	}

	addExplicit([]float64{0, 5, 10}, 0, false, false, [][]float64{{5, -3, 7, 11, 0, 10}}, nil, "corpus-explicit")
	addExplicit([]float64{}, 0, true, false, [][]float64{{1, 2}, {3}}, nil, "corpus-explicit")
	addExplicit([]float64{1 << 52}, 0, false, true, nil, [][]int64{{1 << 52, 1<<52 + 1, 1<<52 - 1, -(1 << 53), 1 << 53}}, "corpus-explicit")
	for i := 0; i < o.Count(280, 4000); i++ {
		bounds := genBounds(r)
		isInt := r.Chance(1, 4)
		cumul := r.Bool()
		nb := vgen.Pick(r, []int{1, 2, 2, 3, 4})
		var fb [][]float64
		var ib [][]int64
		for k := 0; k < nb; k++ {
			n := vgen.Pick(r, []int{1, 2, 3, 5, 8, 13, 20})
			if isInt {
				vs := genInts(r, n)
				for j := range vs {
					if r.Chance(1, 3) && len(bounds) > 0 {
						b := vgen.Pick(r, bounds)
						if math.Abs(b) < 1<<52 {
							vs[j] = int64(math.Floor(b)) + int64(r.Intn(3)) - 1
						}
					}
				}
				ib = append(ib, vs)
			} else {
				vs := genSeq(r, n)
				exact := r.Chance(1, 4)
				for j := range vs {
					if exact {
						vs[j] = genValue(r, 6)
						if r.Chance(1, 4) {
							vs[j] = -vs[j]
						}
					} else if r.Chance(1, 2) {
						vs[j] = nearBounds(r, bounds, vs[j])
					}
				}
				fb = append(fb, vs)
			}
		}
		reuse = nb >= 2 && r.Chance(2, 3)
		if reuse {
			for k := 1; k < nb; k += 2 { // poor cycle after a rich one: few positive values, no zeros, no negatives
				if isInt {
					ib[k] = poorInts(r)
				} else {
					fb[k] = poorFloats(r)
				}
			}
			w.Tally("explicit:reused-resourcemetrics")
		}
		switch r.Intn(12) {
		case 0: // all measurements equal
			for k := range fb {
				for j := range fb[k] {
					fb[k][j] = fb[0][0]
				}
			}
			for k := range ib {
				for j := range ib[k] {
					ib[k][j] = ib[0][0]
				}
			}
		case 1: // a very long batch (counts well above one byte)
			if i%8 == 0 {
				if isInt {
					ib[0] = genInts(r, 1500)
				} else {
					long := make([]float64, 1500)
					for j := range long {
						long[j] = nearBounds(r, bounds, genValue(r, 6))
						if math.IsInf(long[j], 0) {
							long[j] = 1
						}
					}
					fb[0] = long
				}
			}
		}
		for k := range fb { // boundaries may be infinite, measurements are finite
			for j, v := range fb[k] {
				if math.IsInf(v, 0) {
					fb[k][j] = math.Copysign(math.MaxFloat64, v)
				}
			}
		}
		knobs()
		mode := r.Intn(3)
		if len(bounds) == 15 && bounds[0] == 0 && r.Bool() {
			mode = 3 // no view, no selector, no option: the default boundaries
		}
		addExplicit(bounds, mode, cumul, isInt, fb, ib, "explicit")
		resetKnobs()
	}

	// ---------- exponential histograms ----------
	addExpo := func(ms, mxs int32, viaReader, cumul, isInt bool, fb [][]float64, ib [][]int64, kind string) {
		desc := map[string]any{"op": "expo", "maxsize": ms, "maxscale": mxs, "cumulative": cumul, "int64": isInt, "via_reader": viaReader,
			"kind": kindNames[ikind], "no_min_max": noMinMax, "reuse_rm": reuse, "aux": auxMode, "scribble": scribble, "cancelled_ctx": cancelled,
			"non_finite_interleaved": nonFinite && !isInt}
		guard(desc, func() {
			s := setup{agg: metric.AggregationBase2ExponentialHistogram{MaxSize: ms, MaxScale: mxs, NoMinMax: noMinMax}, viaReader: viaReader,
				cumul: cumul, isInt: isInt, reuse: reuse, kind: ikind, cancelled: cancelled}
			switch auxMode {
			case 0:
				s.auxAgg = metric.AggregationBase2ExponentialHistogram{MaxSize: 160, MaxScale: 20, NoMinMax: !noMinMax}
			case 1:
				s.auxAgg = nil // default: explicit-bucket histogram in the slot
			default:
				s.auxSum = true
			}
			in := newInst(s)
			var allF []float64
			var allI []int64
			prev := vgen.None
			nb := len(fb)
			if isInt {
				nb = len(ib)
			}
			for k := 0; k < nb; k++ {
				noise(in, k)
				if isInt {
					for _, v := range ib[k] {
						in.recI(v, false)
					}
					if cumul {
						allI = append(allI, ib[k]...)
					} else {
						allI = ib[k]
					}
				} else {
					for j, v := range fb[k] {
						if nonFinite { // expoHistogram.measure ignores NaN and infinities: they must leave no trace
							in.recF([]float64{math.NaN(), math.Inf(1), math.Inf(-1)}[(j+k)%3], false)
						}
						in.recF(v, false)
					}
					if nonFinite {
						in.recF(math.Inf(1), false)
					}
					if cumul {
						allF = append(allF, fb[k]...)
					} else {
						allF = fb[k]
					}
				}
				n := len(allF) + len(allI)
				d := in.collect()
				if n == 0 {
					continue
				}
				ob := obsExpo(d)
				cd := map[string]any{"config": desc, "collect": k}
				if !ob.ok {
					w.Violation("no exponential histogram data point after recording (valid configuration)", cd)
					continue
				}
				if !absent(ob.mm, ob.mmAny, ob.sumZero, &ob.min, &ob.max, &ob.sum, cd) {
					continue
				}
				w.Tally("expo:kind=" + kindNames[ikind])
				vals := fnums(allF)
				if isInt {
					vals = inums(allI)
					cd["values"] = allI
				} else {
					cd["values"] = hexes(allF)
				}
				var bucketed uint64
				for _, c := range ob.pos {
					bucketed += c
				}
				for _, c := range ob.neg {
					bucketed += c
				}
				w.Tally(fmt.Sprintf("expo:maxsize=%d", ms))
				w.Tally(fmt.Sprintf("expo:maxscale=%d", mxs))
				if ob.scale < mxs {
					w.Tally("expo:downscaled")
				}
				if ob.scale == -10 {
					w.Tally("expo:at-min-scale")
				}
				if len(ob.neg) > 0 {
					w.Tally("expo:negative-buckets")
				}
				if bucketed+ob.zero != ob.count {
					w.Tally("expo:underflow-observed")
				}
				if len(ob.pos) == int(ms) || len(ob.neg) == int(ms) {
					w.Tally("expo:window-full")
				}
				w.Add(vgen.App("CExpo", vgen.Z(int64(ms)), vgen.Z(int64(mxs)), vals, prev, ob.coq()), cd, kind,
					ob.scale < mxs || len(ob.pos) > 1 || len(ob.neg) > 1)
				if cumul {
					prev = vgen.Some(vgen.Z(int64(ob.scale)))
				}
				if scribble { // the caller may do what it likes with what a collect returned
					junkU(ob.pos)
					junkU(ob.neg)
				}
			}
		})
	}
	// corpus: F-C07-1 (known) and its neighbours
	addExpo(1, 20, false, false, false, [][]float64{{0.5, 2, 1e300, 1e-300}}, nil, "corpus-expo")
	addExpo(2, 20, false, false, false, [][]float64{{math.SmallestNonzeroFloat64, 2}}, nil, "corpus-expo")
	addExpo(3, 20, false, false, false, [][]float64{{math.SmallestNonzeroFloat64, 2, math.MaxFloat64}}, nil, "corpus-expo")
	addExpo(2, 0, false, true, false, [][]float64{{1}, {-3, 4}, {0, 1e-5}}, nil, "corpus-expo")
	addExpo(4, 2, false, false, false, [][]float64{{1, 1.5, 3, 0, -3}}, nil, "corpus-expo")
	addExpo(160, 20, false, false, true, nil, [][]int64{{1, 2, 3, 1 << 53, -7, 0}}, "corpus-expo")
	// a window that shrank by a downscale keeps spare capacity; a later grow-left / grow-right must zero it
	addExpo(4, 0, false, false, false, [][]float64{{-1.5, -3, -6, -12, 1.5, 300, -0.01}}, nil, "corpus-expo")
	addExpo(4, 0, false, true, false, [][]float64{{1.5, 3, 6, 12}, {-1.5, -300}, {0.01, 5000}}, nil, "corpus-expo")
	addExpo(4, 0, false, false, false, [][]float64{{2, 4, 8, 16, 128}}, nil, "corpus-expo") // grow right inside capacity kept by a downscale
	// subnormals recorded while the scale is already <= 0
	addExpo(160, -4, false, false, false, [][]float64{{0x1p-1040, 3e-310, 5e-324, -1e-320, 1}}, nil, "corpus-expo")

	// one ResourceMetrics reused: negatives / zeros / wide window in one cycle, none in the next
	reuse = true
	addExpo(20, 4, false, false, false, [][]float64{{-1, -2, 0, 5, 1e6}, {3}, {-4, 0}, {2.5}}, nil, "corpus-expo-reuse")
	addExpo(20, 4, false, true, false, [][]float64{{-1, -2, 0, 5, 1e6}, {3}}, nil, "corpus-expo-reuse")
	addExpo(4, 0, false, false, true, nil, [][]int64{{-1, -200, 0, 5}, {3}, {0, -9}, {7}}, "corpus-expo-reuse")
	addExplicit([]float64{0, 5, 10}, 0, false, false, [][]float64{{-1, 0, 7, 100}, {3}, {-2, 20}, {6}}, nil, "corpus-explicit-reuse")
	addExplicit([]float64{0, 5, 10}, 0, false, true, nil, [][]int64{{-1, 0, 7, 100}, {3}}, "corpus-explicit-reuse")
	addExplicit([]float64{0, 5, 10}, 0, false, false, [][]float64{{-1, 0.5, 7, 100}, {0}, {4, 8}, {2, -2}}, nil, "corpus-explicit-reuse")
	addExpo(20, 4, false, false, false, [][]float64{{-1, 0.5, 7, 100}, {0}, {4, 8}, {2, -2}}, nil, "corpus-expo-reuse")
	reuse = false

	// int64 extremes with an exact float64 conversion, both signs, in sequences
	ext := []int64{math.MinInt64, -(1 << 62), 1 << 62, -(1 << 53), 1 << 53, 1 << 52, -(1 << 52), 3, -3, 0}
	for _, c := range [][2]int32{{160, 20}, {4, 0}, {2, -10}, {3, 5}} {
		addExpo(c[0], c[1], false, false, true, nil, [][]int64{ext}, "corpus-int-extremes")
		addExpo(c[0], c[1], false, true, true, nil, [][]int64{{math.MinInt64}, {1 << 62, -(1 << 62)}, {math.MinInt64, 1}}, "corpus-int-extremes")
	}
	addExplicit([]float64{-0x1p63, -0x1p62, 0, 0x1p62, 0x1p63}, 0, false, true, nil, [][]int64{ext}, "corpus-int-extremes")
	addExplicit([]float64{math.Nextafter(-0x1p63, 0), -0x1p53, 0x1p53}, 0, true, true, nil, [][]int64{{math.MinInt64}, ext}, "corpus-int-extremes")

	// scaleChange's iteration cap: exactly 30 shifts (scale 20 -> -10) in one step, and one more than fits
	addExpo(3, 20, false, false, false, [][]float64{{math.SmallestNonzeroFloat64, math.MaxFloat64}}, nil, "corpus-expo")
	addExpo(2, 20, false, false, false, [][]float64{{1, math.MaxFloat64}}, nil, "corpus-expo")
	addExpo(2, 20, false, false, false, [][]float64{{math.MaxFloat64, math.SmallestNonzeroFloat64}}, nil, "corpus-expo")
	addExpo(1, 20, false, false, false, [][]float64{{1.5, 3}, {0.75}}, nil, "corpus-expo")
	// every instrument kind, NoMinMax, non-finite measurements, a cancelled context, foreign data in the reused slot
	for kd := range kindNames {
		for _, isInt := range []bool{false, true} {
			ikind, reuse, auxMode, scribble, nonFinite = kd, true, kd%3, true, true
			noMinMax, cancelled = kd%2 == 1, kd == 2
			addExpo(4, 3, false, kd%2 == 0, isInt, [][]float64{{-1, 0, 5, 1e6}, {3}, {0}}, [][]int64{{-1, 0, 5, 1000000}, {3}, {0}}, "corpus-kinds")
			addExplicit([]float64{math.Inf(-1), 0, 5, math.Inf(1)}, kd%2, kd%2 == 1, isInt, [][]float64{{-1, 0, 5, 1e6}, {3}, {0}}, [][]int64{{-1, 0, 5, 1000000}, {3}, {0}}, "corpus-kinds")
		}
	}
	resetKnobs()

	sizes := []int32{1, 2, 3, 4, 20, 160}
	scales := []int32{-10, -1, 0, 1, 8, 20}
	nExpo := o.Count(440, 5000)
	for i := 0; i < nExpo; i++ {
		ms := sizes[i%6]
		mxs := scales[(i/6)%6]
		if r.Chance(1, 12) {
			ms = int32(r.Range(1, 12))
			mxs = int32(r.Range(-10, 20))
		}
		isInt := r.Chance(1, 5)
		cumul := r.Bool()
		nb := vgen.Pick(r, []int{1, 2, 2, 3, 4})
		var fb [][]float64
		var ib [][]int64
		for k := 0; k < nb; k++ {
			n := vgen.Pick(r, []int{1, 2, 3, 4, 6, 9, 14, 22, 35})
			if mxs > 0 && n > 14 && r.Bool() {
				n = 14 // every distinct value costs a certified scale-20 index
			}
			if isInt {
				ib = append(ib, genInts(r, n))
			} else {
				fb = append(fb, genSeq(r, n))
			}
		}
		reuse = nb >= 2 && r.Chance(2, 3)
		if reuse {
			for k := 1; k < nb; k += 2 { // poor cycle after a rich one: one narrow positive value
				if isInt {
					ib[k] = poorInts(r)
				} else {
					fb[k] = poorFloats(r)
				}
			}
			w.Tally("expo:reused-resourcemetrics")
		}
		switch r.Intn(12) {
		case 0: // all measurements equal
			for k := range fb {
				for j := range fb[k] {
					fb[k][j] = fb[0][0]
				}
			}
			for k := range ib {
				for j := range ib[k] {
					ib[k][j] = ib[0][0]
				}
			}
		case 1: // a very long batch (only where no certified scale-20 index per value is needed)
			if mxs <= 0 && i%4 == 0 {
				if isInt {
					ib[0] = genInts(r, 800)
				} else {
					fb[0] = genSeq(r, 800)
				}
			}
		}
		knobs()
		addExpo(ms, mxs, r.Chance(1, 4), cumul, isInt, fb, ib, "expo")
		resetKnobs()
	}

	// ---------- single-value bucket probes ----------
	addBin := func(s int, v float64, kind string, nontriv bool) {
		if !(v > 0) || math.IsInf(v, 0) {
			return
		}
		desc := map[string]any{"op": "bin", "scale": s, "value": fmt.Sprintf("%#016x", math.Float64bits(v))}
		guard(desc, func() {
			in := newInst(setup{agg: metric.AggregationBase2ExponentialHistogram{MaxSize: 4, MaxScale: int32(s)}})
			in.hf.Record(ctx, v)
			ob := obsExpo(in.collect())
			if !ob.ok || len(ob.pos) != 1 || ob.scale != int32(s) {
				w.Violation("single positive value did not yield exactly one positive bucket at MaxScale", desc)
				return
			}
			desc["bin"] = ob.posOff
			w.Tally(fmt.Sprintf("bin:scale=%d", s))
			w.Add(vgen.App("CBin", vgen.Z(int64(s)), fnum(v), vgen.Z(int64(ob.posOff))), desc, kind, nontriv)
		})
	}
	addBin(5, math.Float64frombits(0x3ff5342b569d4f82), "corpus-bin", true) // F-C07-3 instance
	addBin(9, math.Float64frombits(0x3ff5342b569d4f82), "corpus-bin", true)
	for s := -10; s <= 20; s++ {
		for j := 0; j < o.Count(3, 40); j++ {
			// powers of two and their neighbours (boundaries at every scale <= 0, and at every positive scale)
			p := math.Ldexp(1, r.Range(-1074, 1023))
			addBin(s, p, "bin-pow2", true)
			addBin(s, math.Nextafter(p, 0), "bin-pow2", true)
			addBin(s, math.Nextafter(p, math.Inf(1)), "bin-pow2", true)
			addBin(s, genValue(r, vgen.Pick(r, []int{1, 2, 4})), "bin-random", false)
		}
		if s <= 0 {
			// boundaries of scale s are the powers 2^(j*2^-s): both neighbours of a few of them
			step := 1 << uint(-s)
			for j := 0; j < o.Count(2, 20); j++ {
				e := r.Range(-1074/step, 1023/step) * step
				p := math.Ldexp(1, e)
				addBin(s, p, "bin-boundary", true)
				addBin(s, math.Nextafter(p, 0), "bin-boundary", true)
				addBin(s, math.Nextafter(p, math.Inf(1)), "bin-boundary", true)
			}
			continue
		}
		n := 1 << uint(s)
		for j := 0; j < o.Count(20, 150); j++ {
			k := 1
			if n > 2 {
				k = r.Range(1, n-1)
			}
			lo := belowBoundary(k, s)
			hi := math.Nextafter(lo, 3)
			ex := vgen.Pick(r, []int{0, 0, r.Range(-1000, 1000), r.Range(-20, 20)})
			addBin(s, math.Ldexp(lo, ex), "bin-boundary", true)
			addBin(s, math.Ldexp(hi, ex), "bin-boundary", true)
			if r.Chance(1, 3) {
				addBin(s, math.Ldexp(math.Nextafter(lo, 0), ex), "bin-boundary", true)
				addBin(s, math.Ldexp(math.Nextafter(hi, 3), ex), "bin-boundary", true)
			}
		}
	}

	// ---------- int64 values beyond +-2^53 (bucketed by their float64 conversion: F-C07-4) ----------
	addBigInt := func(v int64, bound float64, s int32, kind string) {
		desc := map[string]any{"op": "bigint", "value": v, "bound": fmt.Sprintf("%#016x", math.Float64bits(bound)), "scale": s}
		guard(desc, func() {
			in := newInst(setup{agg: metric.AggregationExplicitBucketHistogram{Boundaries: []float64{bound}}, isInt: true})
			in.hi.Record(ctx, v)
			ob := obsExplicit(in.collect())
			in2 := newInst(setup{agg: metric.AggregationBase2ExponentialHistogram{MaxSize: 4, MaxScale: s}, isInt: true})
			in2.hi.Record(ctx, v)
			eb := obsExpo(in2.collect())
			if !ob.ok || !eb.ok || len(ob.counts) != 2 || eb.scale != s {
				w.Violation("single int64 value did not yield the expected data points", desc)
				return
			}
			bin := eb.posOff
			if v < 0 {
				bin = eb.negOff
			}
			if int64(float64(v)) != v || float64(v) >= 0x1p63 {
				w.Tally("bigint:inexact-conversion")
			} else {
				w.Tally("bigint:exact-conversion")
			}
			w.Add(vgen.App("CBigInt", vgen.Z(v), fnum(bound), ncounts(ob.counts), vgen.Z(int64(s)), vgen.Z(int64(bin))), desc, kind, true)
		})
	}
	for _, sc := range []int32{0, -1, -3} {
		addBigInt(math.MinInt64, -0x1p63, sc, "corpus-bigint")   // |float64(v)| = 2^63 exactly: bucket 62 at scale 0
		addBigInt(math.MinInt64, -0x1p62, sc, "corpus-bigint")
		addBigInt(math.MinInt64+1, -0x1p63, sc, "corpus-bigint") // rounds to -2^63 (F-C07-4 class)
		addBigInt(math.MinInt64+2, math.Nextafter(-0x1p63, 0), sc, "corpus-bigint")
		addBigInt(-(1 << 62), -0x1p62, sc, "corpus-bigint")
		addBigInt(1<<62, 0x1p62, sc, "corpus-bigint")
	}
	addBigInt(1<<53+1, 0x1p53, 0, "corpus-bigint") // F-C07-4 instance: counted in (-inf, 2^53], expo bucket 52
	addBigInt(1<<53, 0x1p53, 0, "corpus-bigint")
	addBigInt(-(1<<53 + 1), -0x1p53, 0, "corpus-bigint")
	for i := 0; i < o.Count(40, 1000); i++ {
		k := uint(r.Range(53, 62))
		v := int64(1)<<k + int64(r.Intn(5)) - 2
		if r.Chance(1, 3) {
			v = int64(r.U64() >> 1)
		}
		if r.Chance(1, 8) {
			v = math.MaxInt64 - int64(r.Intn(3))
		}
		if r.Chance(1, 8) {
			v = math.MinInt64 + int64(r.Intn(3))
		}
		if r.Chance(1, 4) {
			v = -v
		}
		b := float64(v)
		switch r.Intn(3) {
		case 0:
			b = math.Nextafter(b, math.Inf(1))
		case 1:
			b = math.Nextafter(b, math.Inf(-1))
		}
		addBigInt(v, b, int32(-r.Intn(3)), "bigint")
	}

	// ---------- concurrent recording into ONE attribute set ----------
	// G goroutines record known values; optionally a collector races them.  After the join the point (for
	// delta explicit histograms: the sum of all collected points) must be what the multiset gives in any
	// sequential order; only order-free clauses are judged (CExplicitMulti / CExpoMulti).
	fvalsC := []float64{0.5, 1, 2.25, 3, 7.5, 10, 10.5, 100, -1.5, 0, 1024, 0.0009765625}
	ivalsC := []int64{1, 2, 3, 5, 10, 11, 100, -2, 0, 1000, 7, 64}
	addConcurrent := func(expo, isInt, cumul, racing bool, bounds []float64, ms, mxs int32, G, N int, kind string) {
		desc := map[string]any{"op": "concurrent", "expo": expo, "int64": isInt, "cumulative": cumul, "racing_collects": racing,
			"goroutines": G, "records_each": N, "bounds": hexes(bounds), "maxsize": ms, "maxscale": mxs}
		guard(desc, func() {
			var s setup
			if expo {
				s = setup{agg: metric.AggregationBase2ExponentialHistogram{MaxSize: ms, MaxScale: mxs}}
			} else {
				s = setup{agg: metric.AggregationExplicitBucketHistogram{Boundaries: bounds}}
			}
			s.cumul, s.isInt = cumul, isInt
			in := newInst(s)
			nv := len(fvalsC)
			mult := make([]uint64, nv)
			idx := func(g, j int) int { return (g*7 + j*(g+1)) % nv }
			for g := 0; g < G; g++ {
				for j := 0; j < N; j++ {
					mult[idx(g, j)]++
				}
			}
			// merged explicit observation over delta collections (values are small: exact in float64)
			var mCounts []uint64
			var mCount uint64
			var mSum float64
			mMin, mMax := math.Inf(1), math.Inf(-1)
			merge := func(d any) {
				switch h := d.(type) {
				case metricdata.Histogram[float64]:
					for _, p := range h.DataPoints {
						if mCounts == nil {
							mCounts = make([]uint64, len(p.BucketCounts))
						}
						for i, c := range p.BucketCounts {
							mCounts[i] += c
						}
						mCount += p.Count
						mSum += p.Sum
						if v, ok := p.Min.Value(); ok {
							mMin = math.Min(mMin, v)
						}
						if v, ok := p.Max.Value(); ok {
							mMax = math.Max(mMax, v)
						}
					}
				case metricdata.Histogram[int64]:
					for _, p := range h.DataPoints {
						if mCounts == nil {
							mCounts = make([]uint64, len(p.BucketCounts))
						}
						for i, c := range p.BucketCounts {
							mCounts[i] += c
						}
						mCount += p.Count
						mSum += float64(p.Sum)
						if v, ok := p.Min.Value(); ok {
							mMin = math.Min(mMin, float64(v))
						}
						if v, ok := p.Max.Value(); ok {
							mMax = math.Max(mMax, float64(v))
						}
					}
				}
			}
			mergeDelta := !expo && !cumul
			start := make(chan struct{})
			stop := make(chan struct{})
			var wg, cwg sync.WaitGroup
			for g := 0; g < G; g++ {
				wg.Add(1)
				go func(g int) {
					defer wg.Done()
					<-start
					for j := 0; j < N; j++ {
						if isInt {
							in.recI(ivalsC[idx(g, j)], false)
						} else {
							in.recF(fvalsC[idx(g, j)], false)
						}
					}
				}(g)
			}
			if racing {
				cwg.Add(1)
				go func() {
					defer cwg.Done()
					<-start
					for {
						select {
						case <-stop:
							return
						default:
						}
						d := in.collect()
						if mergeDelta {
							merge(d)
						}
						runtime.Gosched()
					}
				}()
			}
			close(start)
			wg.Wait()
			close(stop)
			cwg.Wait()
			d := in.collect()
			pairs := make([]string, 0, nv)
			for i := 0; i < nv; i++ {
				if mult[i] == 0 {
					continue
				}
				if isInt {
					pairs = append(pairs, vgen.Pair(inum(ivalsC[i]), vgen.N(mult[i])))
				} else {
					pairs = append(pairs, vgen.Pair(fnum(fvalsC[i]), vgen.N(mult[i])))
				}
			}
			w.Tally(fmt.Sprintf("concurrent:expo=%v:int=%v:cumul=%v:racing=%v", expo, isInt, cumul, racing))
			if expo {
				ob := obsExpo(d)
				if !ob.ok || !ob.mm {
					w.Violation("no exponential histogram data point after concurrent recording", desc)
					return
				}
				w.Add(vgen.App("CExpoMulti", vgen.Z(int64(ms)), vgen.Z(int64(mxs)), vgen.List(pairs), ob.coq()), desc, kind, true)
				return
			}
			var ob hobs
			if mergeDelta {
				merge(d)
				ob = hobs{counts: mCounts, count: mCount, ok: mCounts != nil}
				if isInt {
					ob.min, ob.max, ob.sum = inum(int64(mMin)), inum(int64(mMax)), inum(int64(mSum))
				} else {
					ob.min, ob.max, ob.sum = fnum(mMin), fnum(mMax), fnum(mSum)
				}
			} else {
				ob = obsExplicit(d)
				ob.ok = ob.ok && ob.mm
			}
			if !ob.ok {
				w.Violation("no explicit histogram data point after concurrent recording", desc)
				return
			}
			w.Add(vgen.App("CExplicitMulti", fnums(bounds), vgen.List(pairs), ob.coq()), desc, kind, true)
		})
	}
	{
		G, N := 8, o.Count(12000, 100000)
		cb := [][]float64{{0, 5, 10}, {1, 2, 3, 7, 10.5, 64, 1000}}
		for i, isInt := range []bool{false, true, false, true} {
			addConcurrent(false, isInt, false, true, cb[i/2], 0, 0, G, N, "concurrent")
			addConcurrent(false, isInt, true, true, cb[i/2], 0, 0, G, N, "concurrent")
			addConcurrent(false, isInt, false, false, cb[1-i/2], 0, 0, G, N, "concurrent")
		}
		for _, c := range [][2]int32{{160, 20}, {4, 0}, {20, 3}, {3, -2}} {
			for _, isInt := range []bool{false, true} {
				addConcurrent(true, isInt, true, true, nil, c[0], c[1], G, N, "concurrent")
				addConcurrent(true, isInt, false, false, nil, c[0], c[1], G, N, "concurrent")
			}
		}
	}

	w.Extra["sum_policy"] = "float64 sums compared only for cases whose partial sums are exact (decided in Coq by sum_exact)"
	if err := w.Flush(); err != nil {
		fmt.Fprintln(os.Stderr, err)
		os.Exit(2)
	}
}
