// C14 harness: the six OTLP exporters against scripted in-process collectors
// (httptest servers, gRPC servers), compared with the Coq model of the response
// classification and of the retry loop.
package main

import (
	"bytes"
	"compress/gzip"
	"context"
	"crypto/sha256"
	"encoding/binary"
	"errors"
	"fmt"
	"io"
	"net"
	"net/http"
	"net/http/httptest"
	"net/url"
	"os"
	"strconv"
	"strings"
	"sync"
	"sync/atomic"
	"time"

	"google.golang.org/genproto/googleapis/rpc/errdetails"
	"google.golang.org/grpc"
	"google.golang.org/grpc/codes"
	"google.golang.org/grpc/metadata"
	"google.golang.org/grpc/status"
	"google.golang.org/protobuf/proto"
	"google.golang.org/protobuf/types/known/durationpb"

	"go.opentelemetry.io/otel"
	"go.opentelemetry.io/otel/exporters/otlp/otlplog/otlploggrpc"
	"go.opentelemetry.io/otel/exporters/otlp/otlplog/otlploghttp"
	"go.opentelemetry.io/otel/exporters/otlp/otlpmetric/otlpmetricgrpc"
	"go.opentelemetry.io/otel/exporters/otlp/otlpmetric/otlpmetrichttp"
	"go.opentelemetry.io/otel/exporters/otlp/otlptrace/otlptracegrpc"
	"go.opentelemetry.io/otel/exporters/otlp/otlptrace/otlptracehttp"
	otellog "go.opentelemetry.io/otel/log"
	"go.opentelemetry.io/otel/sdk/instrumentation"
	sdklog "go.opentelemetry.io/otel/sdk/log"
	"go.opentelemetry.io/otel/sdk/metric/metricdata"
	"go.opentelemetry.io/otel/sdk/resource"
	"go.opentelemetry.io/otel/sdk/trace/tracetest"
	collogpb "go.opentelemetry.io/proto/otlp/collector/logs/v1"
	colmetricpb "go.opentelemetry.io/proto/otlp/collector/metrics/v1"
	coltracepb "go.opentelemetry.io/proto/otlp/collector/trace/v1"

	"verif/harness/vgen"
)

// exporters: 0 tracehttp, 1 metrichttp, 2 loghttp, 3 tracegrpc, 4 metricgrpc, 5 loggrpc
var exporterNames = []string{"otlptracehttp", "otlpmetrichttp", "otlploghttp", "otlptracegrpc", "otlpmetricgrpc", "otlploggrpc"}

func isHTTP(e int) bool { return e < 3 }
func signal(e int) int  { return e % 3 } // 0 trace, 1 metric, 2 log

// Resp is one scripted collector response.
type Resp struct {
	Status     int    `json:"status,omitempty"`      // HTTP
	RetryAfter string `json:"retry_after,omitempty"` // HTTP: raw header value ("" = no header)
	Code       int    `json:"code,omitempty"`        // gRPC
	HasInfo    bool   `json:"has_info,omitempty"`    // gRPC: RetryInfo attached
	InfoNs     int64  `json:"info_ns,omitempty"`     // gRPC: RetryInfo.retry_delay
	DelayMs    int    `json:"delay_ms,omitempty"`    // the collector takes this long before it answers
	Partial    bool   `json:"partial,omitempty"`     // success carrying a partial-success message
	PS         *PSpec `json:"ps,omitempty"`          // success with exactly this partial_success (overrides Partial)
}

// PSpec spells out the partial_success field of an OK / 200 response.
type PSpec struct {
	Present  bool   `json:"present"`
	Rejected int64  `json:"rejected"`
	Msg      string `json:"msg"`
}

type Scenario struct {
	Exporter   int           `json:"exporter"`
	Enabled    bool          `json:"enabled"`
	Initial    time.Duration `json:"initial_interval"`
	MaxElapsed time.Duration `json:"max_elapsed"`
	Script     []Resp        `json:"script"`
	CancelAt   int           `json:"cancel_at"`   // -1: never; k: the export context is cancelled once response k has been written
	ShutdownAt int           `json:"shutdown_at"` // -1: never; k: the exporter is shut down once response k has been written (trace exporters)
	Timed      bool          `json:"timed"`       // outcome depends on real time: the model is not compared, only the specification
	Gzip       bool          `json:"gzip"`
	Throttled  []int64       `json:"throttled_delays_ns,omitempty"` // accumulated-throttle scenario: the delays asked for, in the unit the client reads
	Kind       string        `json:"kind"`
	Token      string        `json:"token"`
	Headers    map[string]string `json:"headers,omitempty"`
	Timeout    time.Duration     `json:"timeout,omitempty"` // WithTimeout (0: the default)
	Hang       bool              `json:"hang,omitempty"`    // the collector never answers
	proxy      func(*http.Request) (*url.URL, error) // WithProxy (transport error injection)
	SlowReply  bool              `json:"slow_reply,omitempty"` // the scripted reply arrives AFTER MaxElapsedTime on purpose (no "budget out of reach" precondition)
	MaxInterval time.Duration    `json:"max_interval,omitempty"` // RetryConfig.MaxInterval (default: 4 * InitialInterval)
	HookBefore bool              `json:"hook_before,omitempty"` // the cancellation happens before response CancelAt is written (deterministic), not after
}

type arrival struct {
	at   time.Duration
	hash uint64
	hdr  bool // the request carried the x-verif-hdr header / metadata
}

type Obs struct {
	Attempts int      `json:"attempts"`
	Hashes   []uint64 `json:"body_hashes"`
	GapsNs   []int64  `json:"gaps_ns"`
	Err      string   `json:"err"`
	ErrClass int      `json:"err_class"`
	Handled  int      `json:"handled"`
	Elapsed  int64    `json:"elapsed_ns"`
}

// ---------------------------------------------------------------------------
// scripted collectors
// ---------------------------------------------------------------------------

type collector struct {
	mu       sync.Mutex
	sc       *Scenario
	start    time.Time
	arrivals []arrival
	after    func(idx int) // hook run once response idx has been written
	release  chan struct{} // closed at the end of a scenario: lets a hanging collector's handlers go
	lastBody []byte        // the body of the most recent request
	hookLag  atomic.Int64  // ns between "response written" and "cancellation / shutdown issued" (after-hooks): scheduling delay of the harness
}

func hashBody(b []byte) uint64 {
	h := sha256.Sum256(b)
	return binary.BigEndian.Uint64(h[:8])>>4 | 1 // 60 bits, never zero
}

// next records an arrival and returns the index of the response to give.
func (c *collector) next(body []byte, hdr bool) int {
	c.mu.Lock()
	defer c.mu.Unlock()
	c.arrivals = append(c.arrivals, arrival{time.Since(c.start), hashBody(body), hdr})
	c.lastBody = body
	return len(c.arrivals) - 1
}

// hang blocks a handler of a collector that never answers until the client goes away or the scenario ends.
func (c *collector) hang(ctx context.Context) {
	select {
	case <-ctx.Done():
	case <-c.release:
	case <-time.After(20 * time.Second):
	}
}

func (c *collector) resp(idx int) Resp {
	if idx < len(c.sc.Script) {
		return c.sc.Script[idx]
	}
	if c.sc.Timed { // endless retry-able failure
		return c.sc.Script[len(c.sc.Script)-1]
	}
	if isHTTP(c.sc.Exporter) {
		return Resp{Status: 200}
	}
	return Resp{Code: 0}
}

// psOf: the partial_success a scripted success carries (nil: none).
func psOf(rs Resp, token string) *PSpec {
	if rs.PS != nil {
		if !rs.PS.Present {
			return nil
		}
		return rs.PS
	}
	if rs.Partial {
		return &PSpec{Present: true, Rejected: 3, Msg: token}
	}
	return nil
}

func partialBody(sig int, ps *PSpec) []byte {
	var m proto.Message
	switch sig {
	case 0:
		m = &coltracepb.ExportTraceServiceResponse{PartialSuccess: &coltracepb.ExportTracePartialSuccess{RejectedSpans: ps.Rejected, ErrorMessage: ps.Msg}}
	case 1:
		m = &colmetricpb.ExportMetricsServiceResponse{PartialSuccess: &colmetricpb.ExportMetricsPartialSuccess{RejectedDataPoints: ps.Rejected, ErrorMessage: ps.Msg}}
	default:
		m = &collogpb.ExportLogsServiceResponse{PartialSuccess: &collogpb.ExportLogsPartialSuccess{RejectedLogRecords: ps.Rejected, ErrorMessage: ps.Msg}}
	}
	b, _ := proto.Marshal(m)
	return b
}

func (c *collector) ServeHTTP(w http.ResponseWriter, r *http.Request) {
	body, _ := io.ReadAll(r.Body)
	idx := c.next(body, r.Header.Get("x-verif-hdr") == "v")
	if c.sc.Hang {
		c.hang(r.Context())
		return
	}
	rs := c.resp(idx)
	if rs.DelayMs > 0 {
		time.Sleep(time.Duration(rs.DelayMs) * time.Millisecond)
	}
	if c.sc.HookBefore && c.after != nil {
		c.after(idx)
	}
	if rs.RetryAfter != "" {
		w.Header().Set("Retry-After", rs.RetryAfter)
	}
	switch {
	case psOf(rs, c.sc.Token) != nil && rs.Status >= 200 && rs.Status <= 299:
		w.Header().Set("Content-Type", "application/x-protobuf")
		w.WriteHeader(rs.Status)
		w.Write(partialBody(signal(c.sc.Exporter), psOf(rs, c.sc.Token)))
	case rs.Status >= 200 && rs.Status <= 299:
		w.WriteHeader(rs.Status)
	default:
		w.WriteHeader(rs.Status)
		if rs.Status != 204 && rs.Status != 304 {
			w.Write([]byte("scripted failure"))
		}
	}
	if f, ok := w.(http.Flusher); ok {
		f.Flush()
	}
	if c.after != nil && !c.sc.HookBefore {
		t := time.Now()
		c.after(idx)
		if idx == c.sc.CancelAt || idx == c.sc.ShutdownAt {
			c.hookLag.Store(int64(time.Since(t)))
		}
	}
}

func (c *collector) grpcAnswer(ctx context.Context, req proto.Message) (*PSpec, error) {
	b, _ := proto.MarshalOptions{Deterministic: true}.Marshal(req)
	md, _ := metadata.FromIncomingContext(ctx)
	v := md.Get("x-verif-hdr")
	idx := c.next(b, len(v) == 1 && v[0] == "v")
	if c.sc.Hang {
		c.hang(ctx)
		return nil, status.Error(codes.Unavailable, "hung")
	}
	rs := c.resp(idx)
	if rs.DelayMs > 0 {
		time.Sleep(time.Duration(rs.DelayMs) * time.Millisecond)
	}
	if c.after != nil {
		defer c.after(idx)
	}
	if rs.Code == 0 {
		return psOf(rs, c.sc.Token), nil
	}
	st := status.New(codes.Code(rs.Code), "scripted failure")
	if rs.HasInfo {
		st2, err := st.WithDetails(&errdetails.RetryInfo{RetryDelay: durationpb.New(time.Duration(rs.InfoNs))})
		if err == nil {
			st = st2
		}
	}
	return nil, st.Err()
}

type traceSvc struct {
	coltracepb.UnimplementedTraceServiceServer
	c *collector
}

func (s traceSvc) Export(ctx context.Context, req *coltracepb.ExportTraceServiceRequest) (*coltracepb.ExportTraceServiceResponse, error) {
	p, err := s.c.grpcAnswer(ctx, req)
	if err != nil {
		return nil, err
	}
	out := &coltracepb.ExportTraceServiceResponse{}
	if p != nil {
		out.PartialSuccess = &coltracepb.ExportTracePartialSuccess{RejectedSpans: p.Rejected, ErrorMessage: p.Msg}
	}
	return out, nil
}

type metricSvc struct {
	colmetricpb.UnimplementedMetricsServiceServer
	c *collector
}

func (s metricSvc) Export(ctx context.Context, req *colmetricpb.ExportMetricsServiceRequest) (*colmetricpb.ExportMetricsServiceResponse, error) {
	p, err := s.c.grpcAnswer(ctx, req)
	if err != nil {
		return nil, err
	}
	out := &colmetricpb.ExportMetricsServiceResponse{}
	if p != nil {
		out.PartialSuccess = &colmetricpb.ExportMetricsPartialSuccess{RejectedDataPoints: p.Rejected, ErrorMessage: p.Msg}
	}
	return out, nil
}

type logSvc struct {
	collogpb.UnimplementedLogsServiceServer
	c *collector
}

func (s logSvc) Export(ctx context.Context, req *collogpb.ExportLogsServiceRequest) (*collogpb.ExportLogsServiceResponse, error) {
	p, err := s.c.grpcAnswer(ctx, req)
	if err != nil {
		return nil, err
	}
	out := &collogpb.ExportLogsServiceResponse{}
	if p != nil {
		out.PartialSuccess = &collogpb.ExportLogsPartialSuccess{RejectedLogRecords: p.Rejected, ErrorMessage: p.Msg}
	}
	return out, nil
}

// ---------------------------------------------------------------------------
// error handler (process global): partial-success reports carry the scenario token
// ---------------------------------------------------------------------------

var handledMu sync.Mutex
var handledMsgs []string

func countHandled(token string) int {
	handledMu.Lock()
	defer handledMu.Unlock()
	n := 0
	for _, m := range handledMsgs {
		if strings.Contains(m, token) {
			n++
		}
	}
	return n
}

// ---------------------------------------------------------------------------
// exporters through their public API
// ---------------------------------------------------------------------------

type exporter struct {
	export   func(context.Context) error
	shutdown func(context.Context) error
}

func mkExporter(e int, endpoint string, sc *Scenario) (*exporter, error) {
	ctx := context.Background()
	maxInt := 4 * sc.Initial
	if sc.MaxInterval > 0 {
		maxInt = sc.MaxInterval
	}
	switch e {
	case 0:
		opts := []otlptracehttp.Option{otlptracehttp.WithEndpoint(endpoint), otlptracehttp.WithInsecure(),
			otlptracehttp.WithRetry(otlptracehttp.RetryConfig{Enabled: sc.Enabled, InitialInterval: sc.Initial, MaxInterval: maxInt, MaxElapsedTime: sc.MaxElapsed})}
		if sc.Gzip {
			opts = append(opts, otlptracehttp.WithCompression(otlptracehttp.GzipCompression))
		}
		if sc.Headers != nil {
			opts = append(opts, otlptracehttp.WithHeaders(sc.Headers))
		}
		if sc.Timeout > 0 {
			opts = append(opts, otlptracehttp.WithTimeout(sc.Timeout))
		}
		if sc.proxy != nil {
			opts = append(opts, otlptracehttp.WithProxy(sc.proxy))
		}
		x, err := otlptracehttp.New(ctx, opts...)
		if err != nil {
			return nil, err
		}
		spans := tracetest.SpanStubs{{Name: "span-" + sc.Token}}.Snapshots()
		return &exporter{func(c context.Context) error { return x.ExportSpans(c, spans) }, x.Shutdown}, nil
	case 3:
		gopts := []otlptracegrpc.Option{otlptracegrpc.WithEndpoint(endpoint), otlptracegrpc.WithInsecure(),
			otlptracegrpc.WithRetry(otlptracegrpc.RetryConfig{Enabled: sc.Enabled, InitialInterval: sc.Initial, MaxInterval: maxInt, MaxElapsedTime: sc.MaxElapsed})}
		if sc.Headers != nil {
			gopts = append(gopts, otlptracegrpc.WithHeaders(sc.Headers))
		}
		if sc.Timeout > 0 {
			gopts = append(gopts, otlptracegrpc.WithTimeout(sc.Timeout))
		}
		x, err := otlptracegrpc.New(ctx, gopts...)
		if err != nil {
			return nil, err
		}
		spans := tracetest.SpanStubs{{Name: "span-" + sc.Token}}.Snapshots()
		return &exporter{func(c context.Context) error { return x.ExportSpans(c, spans) }, x.Shutdown}, nil
	case 1, 4:
		rm := &metricdata.ResourceMetrics{
			Resource: resource.Empty(),
			ScopeMetrics: []metricdata.ScopeMetrics{{
				Scope: instrumentation.Scope{Name: "s"},
				Metrics: []metricdata.Metrics{{Name: "m-" + sc.Token, Data: metricdata.Gauge[int64]{
					DataPoints: []metricdata.DataPoint[int64]{{Value: 7, Time: time.Unix(1700000000, 0)}}}}},
			}},
		}
		if e == 1 {
			opts := []otlpmetrichttp.Option{otlpmetrichttp.WithEndpoint(endpoint), otlpmetrichttp.WithInsecure(),
				otlpmetrichttp.WithRetry(otlpmetrichttp.RetryConfig{Enabled: sc.Enabled, InitialInterval: sc.Initial, MaxInterval: maxInt, MaxElapsedTime: sc.MaxElapsed})}
			if sc.Gzip {
				opts = append(opts, otlpmetrichttp.WithCompression(otlpmetrichttp.GzipCompression))
			}
			if sc.Headers != nil {
				opts = append(opts, otlpmetrichttp.WithHeaders(sc.Headers))
			}
			if sc.Timeout > 0 {
				opts = append(opts, otlpmetrichttp.WithTimeout(sc.Timeout))
			}
			if sc.proxy != nil {
				opts = append(opts, otlpmetrichttp.WithProxy(sc.proxy))
			}
			x, err := otlpmetrichttp.New(ctx, opts...)
			if err != nil {
				return nil, err
			}
			return &exporter{func(c context.Context) error { return x.Export(c, rm) }, x.Shutdown}, nil
		}
		gopts := []otlpmetricgrpc.Option{otlpmetricgrpc.WithEndpoint(endpoint), otlpmetricgrpc.WithInsecure(),
			otlpmetricgrpc.WithRetry(otlpmetricgrpc.RetryConfig{Enabled: sc.Enabled, InitialInterval: sc.Initial, MaxInterval: maxInt, MaxElapsedTime: sc.MaxElapsed})}
		if sc.Headers != nil {
			gopts = append(gopts, otlpmetricgrpc.WithHeaders(sc.Headers))
		}
		if sc.Timeout > 0 {
			gopts = append(gopts, otlpmetricgrpc.WithTimeout(sc.Timeout))
		}
		x, err := otlpmetricgrpc.New(ctx, gopts...)
		if err != nil {
			return nil, err
		}
		return &exporter{func(c context.Context) error { return x.Export(c, rm) }, x.Shutdown}, nil
	default:
		var rec sdklog.Record
		rec.SetTimestamp(time.Unix(1700000000, 0))
		rec.SetBody(otellog.StringValue("log-" + sc.Token))
		recs := []sdklog.Record{rec}
		if e == 2 {
			opts := []otlploghttp.Option{otlploghttp.WithEndpoint(endpoint), otlploghttp.WithInsecure(),
				otlploghttp.WithRetry(otlploghttp.RetryConfig{Enabled: sc.Enabled, InitialInterval: sc.Initial, MaxInterval: maxInt, MaxElapsedTime: sc.MaxElapsed})}
			if sc.Gzip {
				opts = append(opts, otlploghttp.WithCompression(otlploghttp.GzipCompression))
			}
			if sc.Headers != nil {
				opts = append(opts, otlploghttp.WithHeaders(sc.Headers))
			}
			if sc.Timeout > 0 {
				opts = append(opts, otlploghttp.WithTimeout(sc.Timeout))
			}
			if sc.proxy != nil {
				opts = append(opts, otlploghttp.WithProxy(sc.proxy))
			}
			x, err := otlploghttp.New(ctx, opts...)
			if err != nil {
				return nil, err
			}
			return &exporter{func(c context.Context) error { return x.Export(c, recs) }, x.Shutdown}, nil
		}
		gopts := []otlploggrpc.Option{otlploggrpc.WithEndpoint(endpoint), otlploggrpc.WithInsecure(),
			otlploggrpc.WithRetry(otlploggrpc.RetryConfig{Enabled: sc.Enabled, InitialInterval: sc.Initial, MaxInterval: maxInt, MaxElapsedTime: sc.MaxElapsed})}
		if sc.Headers != nil {
			gopts = append(gopts, otlploggrpc.WithHeaders(sc.Headers))
		}
		if sc.Timeout > 0 {
			gopts = append(gopts, otlploggrpc.WithTimeout(sc.Timeout))
		}
		x, err := otlploggrpc.New(ctx, gopts...)
		if err != nil {
			return nil, err
		}
		return &exporter{func(c context.Context) error { return x.Export(c, recs) }, x.Shutdown}, nil
	}
}

func errClass(err error) int {
	switch {
	case err == nil:
		return 0
	case strings.Contains(err.Error(), "max retry time"):
		return 2
	case errors.Is(err, context.Canceled) || errors.Is(err, context.DeadlineExceeded):
		return 1
	default:
		return 3
	}
}

// startCollector starts the scripted collector for the scenario and returns its endpoint and a stop function.
func startCollector(c *collector) (string, func(), error) {
	if isHTTP(c.sc.Exporter) {
		srv := httptest.NewServer(c)
		return strings.TrimPrefix(srv.URL, "http://"), func() { srv.CloseClientConnections(); srv.Close() }, nil
	}
	lis, err := net.Listen("tcp", "127.0.0.1:0")
	if err != nil {
		return "", nil, err
	}
	gs := grpc.NewServer()
	coltracepb.RegisterTraceServiceServer(gs, traceSvc{c: c})
	colmetricpb.RegisterMetricsServiceServer(gs, metricSvc{c: c})
	collogpb.RegisterLogsServiceServer(gs, logSvc{c: c})
	go gs.Serve(lis)
	return lis.Addr().String(), gs.Stop, nil
}

// runScenario returns the observation, a failure (a watchdog fired, a panic: reported as a violation when it
// happens again in the sequential re-run) and, when the machine was too slow for the scenario's precondition to be
// established, the reason why the run is inconclusive (re-run once sequentially, then left out of the verdict).
func runScenario(sc *Scenario, watchdog time.Duration) (ob Obs, failure string, inconclusive string) {
	defer func() {
		if e := recover(); e != nil {
			failure = fmt.Sprintf("panic: %v", e)
		}
	}()
	c := &collector{sc: sc, start: time.Now()}
	endpoint, stop, err := startCollector(c)
	if err != nil {
		return ob, "collector: " + err.Error(), ""
	}
	defer stop()
	x, err := mkExporter(sc.Exporter, endpoint, sc)
	if err != nil {
		return ob, "exporter construction: " + err.Error(), ""
	}
	ctx, cancel := context.WithCancel(context.Background())
	defer cancel()
	shutdownDone := make(chan struct{})
	var shutdownStarted atomic.Bool
	c.after = func(idx int) {
		if idx == sc.CancelAt {
			cancel()
		}
		if idx == sc.ShutdownAt && shutdownStarted.CompareAndSwap(false, true) {
			go func() {
				sctx, scancel := context.WithTimeout(context.Background(), 15*time.Millisecond)
				defer scancel()
				x.shutdown(sctx)
				close(shutdownDone)
			}()
		}
	}
	done := make(chan error, 1)
	t0 := time.Now()
	go func() { done <- x.export(ctx) }()
	var eerr error
	select {
	case eerr = <-done:
	case <-time.After(watchdog):
		return ob, fmt.Sprintf("export did not return within %v (watchdog)", watchdog), ""
	}
	ob.Elapsed = int64(time.Since(t0))
	if shutdownStarted.Load() {
		select {
		case <-shutdownDone:
		case <-time.After(watchdog):
			return ob, fmt.Sprintf("Shutdown did not return within %v (watchdog)", watchdog), ""
		}
	} else {
		sctx, scancel := context.WithTimeout(context.Background(), 5*time.Second)
		x.shutdown(sctx)
		scancel()
	}
	c.mu.Lock()
	arr := append([]arrival(nil), c.arrivals...)
	c.mu.Unlock()
	ob.Attempts = len(arr)
	for i, a := range arr {
		ob.Hashes = append(ob.Hashes, a.hash)
		if i > 0 {
			ob.GapsNs = append(ob.GapsNs, int64(a.at-arr[i-1].at))
		}
	}
	if eerr != nil {
		ob.Err = eerr.Error()
		if len(ob.Err) > 300 {
			ob.Err = ob.Err[:300]
		}
	}
	ob.ErrClass = errClass(eerr)
	ob.Handled = countHandled(sc.Token)
	// preconditions the scenario relies on; a slow machine can break them, the exporter cannot
	switch {
	case ob.Attempts == 0:
		inconclusive = "the collector saw no request at all (connection not ready before the exporter's own timeout)"
	case !sc.Timed && time.Duration(ob.Elapsed) > 8*time.Second:
		inconclusive = "the export took more than 8 s of wall clock (an unloaded run needs at most ~2): a default 10 s request / export timeout may have interfered"
	case !sc.Timed && !sc.SlowReply && sc.MaxElapsed > 0 && time.Duration(ob.Elapsed) > sc.MaxElapsed/2:
		inconclusive = "the export took more than half of MaxElapsedTime of wall clock: the limit was meant to be out of reach"
	case (sc.CancelAt >= 0 || sc.ShutdownAt >= 0) && !sc.HookBefore && time.Duration(c.hookLag.Load()) > 300*time.Millisecond:
		inconclusive = "the harness needed more than 300 ms to issue the cancellation / shutdown after the response: it may have lost the race against the back-off timer"
	}
	return ob, "", inconclusive
}


// ---------------------------------------------------------------------------
// concurrent bursts (HTTP exporters): N exports started together in this process, each through its own
// exporter instance and with its own payload, against ONE scripted server that answers the first attempt of
// every export with 503 and the next with 200.  Anything shared between exports at package level (buffer
// pools) is exercised here; every attempt's body must decompress / decode to the export's own payload.
// ---------------------------------------------------------------------------

type Burst struct {
	Exporter int
	Gzip     bool
	N        int
	Initial  time.Duration
	Tokens   []string
}

type BurstObs struct {
	Attempts int      `json:"attempts"`
	Decoded  []uint64 `json:"decoded_hashes"`
	Own      []bool   `json:"own_payload"`
	ErrClass int      `json:"err_class"`
	Err      string   `json:"err"`
	Handled  int      `json:"handled"`
}

type burstServer struct {
	mu     sync.Mutex
	bodies map[string][][]byte
	gzip   map[string][]bool
}

func (b *burstServer) ServeHTTP(w http.ResponseWriter, r *http.Request) {
	body, _ := io.ReadAll(r.Body)
	id := r.Header.Get("X-Export-Id")
	b.mu.Lock()
	first := len(b.bodies[id]) == 0
	b.bodies[id] = append(b.bodies[id], body)
	b.gzip[id] = append(b.gzip[id], r.Header.Get("Content-Encoding") == "gzip")
	b.mu.Unlock()
	if first {
		w.WriteHeader(503)
		w.Write([]byte("scripted failure"))
		return
	}
	w.WriteHeader(200)
}

func gunzip(b []byte) ([]byte, bool) {
	zr, err := gzip.NewReader(bytes.NewReader(b))
	if err != nil {
		return nil, false
	}
	out, err := io.ReadAll(zr)
	if err != nil {
		return nil, false
	}
	return out, true
}

// ownPayload: raw decodes as this signal's export request and names exactly this export's telemetry.
func ownPayload(sig int, raw []byte, token string) bool {
	n, ok := 0, true
	switch sig {
	case 0:
		var m coltracepb.ExportTraceServiceRequest
		if proto.Unmarshal(raw, &m) != nil {
			return false
		}
		for _, rs := range m.ResourceSpans {
			for _, ss := range rs.ScopeSpans {
				for _, sp := range ss.Spans {
					n++
					ok = ok && sp.Name == "span-"+token
				}
			}
		}
	case 1:
		var m colmetricpb.ExportMetricsServiceRequest
		if proto.Unmarshal(raw, &m) != nil {
			return false
		}
		for _, rm := range m.ResourceMetrics {
			for _, sm := range rm.ScopeMetrics {
				for _, mm := range sm.Metrics {
					n++
					ok = ok && mm.Name == "m-"+token
				}
			}
		}
	default:
		var m collogpb.ExportLogsServiceRequest
		if proto.Unmarshal(raw, &m) != nil {
			return false
		}
		for _, rl := range m.ResourceLogs {
			for _, sl := range rl.ScopeLogs {
				for _, lr := range sl.LogRecords {
					n++
					ok = ok && lr.GetBody().GetStringValue() == "log-"+token
				}
			}
		}
	}
	return ok && n == 1
}

func runBurst(b *Burst) (obs []BurstObs, failure string) {
	defer func() {
		if e := recover(); e != nil {
			failure = fmt.Sprintf("panic: %v", e)
		}
	}()
	srv := &burstServer{bodies: map[string][][]byte{}, gzip: map[string][]bool{}}
	hs := httptest.NewServer(srv)
	defer func() { hs.CloseClientConnections(); hs.Close() }()
	endpoint := strings.TrimPrefix(hs.URL, "http://")
	xs := make([]*exporter, b.N)
	for i := 0; i < b.N; i++ {
		sc := &Scenario{Exporter: b.Exporter, Enabled: true, Initial: b.Initial, MaxElapsed: 20 * time.Second, Gzip: b.Gzip,
			Token: b.Tokens[i], Headers: map[string]string{"X-Export-Id": b.Tokens[i]}}
		x, err := mkExporter(b.Exporter, endpoint, sc)
		if err != nil {
			return nil, "exporter construction: " + err.Error()
		}
		xs[i] = x
	}
	errs := make([]error, b.N)
	barrier := make(chan struct{})
	var wg sync.WaitGroup
	for i := 0; i < b.N; i++ {
		wg.Add(1)
		go func(i int) {
			defer wg.Done()
			<-barrier
			errs[i] = xs[i].export(context.Background())
		}(i)
	}
	close(barrier)
	done := make(chan struct{})
	go func() { wg.Wait(); close(done) }()
	select {
	case <-done:
	case <-time.After(30 * time.Second):
		return nil, "a burst of concurrent exports did not return within 30 s (watchdog)"
	}
	for _, x := range xs {
		sctx, scancel := context.WithTimeout(context.Background(), 5*time.Second)
		x.shutdown(sctx)
		scancel()
	}
	srv.mu.Lock()
	defer srv.mu.Unlock()
	for i := 0; i < b.N; i++ {
		tok := b.Tokens[i]
		ob := BurstObs{Attempts: len(srv.bodies[tok]), ErrClass: errClass(errs[i]), Handled: countHandled(tok)}
		if errs[i] != nil {
			ob.Err = errs[i].Error()
			if len(ob.Err) > 300 {
				ob.Err = ob.Err[:300]
			}
		}
		for j, raw := range srv.bodies[tok] {
			dec, ok := raw, true
			if srv.gzip[tok][j] {
				dec, ok = gunzip(raw)
			}
			if ok != true || srv.gzip[tok][j] != b.Gzip {
				ob.Decoded = append(ob.Decoded, 0)
				ob.Own = append(ob.Own, false)
				continue
			}
			ob.Decoded = append(ob.Decoded, hashBody(dec))
			ob.Own = append(ob.Own, ownPayload(signal(b.Exporter), dec, tok))
		}
		obs = append(obs, ob)
	}
	return obs, ""
}

func genBursts(r *vgen.Rand, tier string) []Burst {
	var out []Burst
	reps := 1
	if tier == "thorough" {
		reps = 6
	}
	for rep := 0; rep < reps; rep++ {
		for e := 0; e < 3; e++ {
			for k := 0; k < 7; k++ {
				out = append(out, Burst{Exporter: e, Gzip: k < 5, N: 8 + r.Intn(9), Initial: time.Duration(1+r.Intn(2)) * time.Millisecond})
			}
		}
	}
	return out
}

// ---------------------------------------------------------------------------
// Shutdown with an already-expired context while an export is retrying (the exporters whose Shutdown can
// interrupt an in-flight export: otlptracehttp through its stop channel, otlptracegrpc through its stop context;
// the metric and log exporters serialise Shutdown behind the running Export and are not observable this way).
// ---------------------------------------------------------------------------

type ShutExpObs struct {
	Before           int    `json:"requests_before_shutdown"`
	ShutdownReturned bool   `json:"shutdown_returned"`
	ShutdownErr      string `json:"shutdown_err"`
	ExportReturned   bool   `json:"export_returned"`
	ExportErr        string `json:"export_err"`
	ExportErrClass   int    `json:"export_err_class"`
	Late             int    `json:"requests_later_than_1s_after_shutdown"`
	LaterErr         string `json:"later_export_err"`
	LaterErrClass    int    `json:"later_export_err_class"`
}

func runShutdownExpired(e, variant int, token string) (ob ShutExpObs, failure string, inconclusive string) {
	defer func() {
		if r := recover(); r != nil {
			failure = fmt.Sprintf("panic: %v", r)
		}
	}()
	sc := &Scenario{Exporter: e, Enabled: true, Initial: 10 * time.Millisecond, MaxElapsed: 60 * time.Second, Timed: true,
		CancelAt: -1, ShutdownAt: -1, Token: token}
	if isHTTP(e) {
		sc.Script = []Resp{{Status: 503}}
	} else {
		sc.Script = []Resp{{Code: 14}}
	}
	c := &collector{sc: sc, start: time.Now()}
	endpoint, stop, err := startCollector(c)
	if err != nil {
		return ob, "collector: " + err.Error(), ""
	}
	defer stop()
	x, err := mkExporter(e, endpoint, sc)
	if err != nil {
		return ob, "exporter construction: " + err.Error(), ""
	}
	count := func() int { c.mu.Lock(); defer c.mu.Unlock(); return len(c.arrivals) }
	ectx, ecancel := context.WithCancel(context.Background())
	defer ecancel()
	exported := make(chan error, 1)
	go func() { exported <- x.export(ectx) }()
	deadline := time.Now().Add(10 * time.Second)
	for count() < 3 {
		if time.Now().After(deadline) {
			ecancel()
			<-exported
			return ob, "", "the export did not reach its third attempt within 10 s: no retry loop to shut down"
		}
		time.Sleep(time.Millisecond)
	}
	ob.Before = count()
	var sctx context.Context
	var scancel context.CancelFunc
	if variant == 0 {
		sctx, scancel = context.WithCancel(context.Background())
		scancel()
	} else {
		sctx, scancel = context.WithTimeout(context.Background(), time.Millisecond)
		defer scancel()
	}
	sdone := make(chan error, 1)
	go func() { sdone <- x.shutdown(sctx) }()
	var tShut time.Duration
	select {
	case serr := <-sdone:
		ob.ShutdownReturned = true
		if serr != nil {
			ob.ShutdownErr = serr.Error()
		}
		tShut = time.Since(c.start)
	case <-time.After(5 * time.Second):
		tShut = time.Since(c.start)
	}
	// observe for 4 s: the export must come back, and nothing may arrive later than 3 s after Shutdown returned
	// (a request already on its way when Shutdown returned may be delivered late on a slow machine)
	window := time.After(4 * time.Second)
	var eerr error
	select {
	case eerr = <-exported:
		ob.ExportReturned = true
		<-window
	case <-window:
	}
	c.mu.Lock()
	for _, a := range c.arrivals {
		if a.at > tShut+3*time.Second {
			ob.Late++
		}
	}
	c.mu.Unlock()
	if !ob.ExportReturned {
		ecancel() // release the export so that the harness can go on
		select {
		case eerr = <-exported:
		case <-time.After(10 * time.Second):
			return ob, "export did not return even after its own context was cancelled", ""
		}
	}
	if eerr != nil {
		ob.ExportErr = eerr.Error()
		if len(ob.ExportErr) > 200 {
			ob.ExportErr = ob.ExportErr[:200]
		}
	}
	ob.ExportErrClass = errClass(eerr)
	lctx, lcancel := context.WithTimeout(context.Background(), 2*time.Second)
	lerr := x.export(lctx)
	lcancel()
	if lerr != nil {
		ob.LaterErr = lerr.Error()
		if len(ob.LaterErr) > 200 {
			ob.LaterErr = ob.LaterErr[:200]
		}
	}
	ob.LaterErrClass = errClass(lerr)
	return ob, "", ""
}

// ---------------------------------------------------------------------------
// The configured export timeout under option combinations: WithTimeout 300-500 ms x {no headers, WithHeaders,
// OTEL_EXPORTER_OTLP_HEADERS} x {collector that never answers, collector that always fails retry-ably}; the
// caller's context has no deadline.  gRPC: the timeout covers the whole export (MaxElapsedTime 60 s);
// HTTP: the timeout is per attempt (http.Client.Timeout), the export is bounded by MaxElapsedTime (1 s) + one timeout.
// ---------------------------------------------------------------------------

type TimeoutCase struct {
	Exporter int           `json:"exporter"`
	Headers  int           `json:"headers"` // 0 none, 1 option, 2 environment
	Hang     bool          `json:"hang"`
	CallerDeadlineLater bool `json:"caller_deadline_later"` // the caller's context has a deadline 30 s after the configured timeout (as a periodic reader passes)
	Timeout  time.Duration `json:"timeout"`
	Bound    time.Duration `json:"bound"`
	sc       *Scenario
	col      *collector
	stop     func()
	x        *exporter
	fail     string
}

type TimeoutObs struct {
	Returned  bool   `json:"returned"`
	Err       string `json:"err"`
	ErrClass  int    `json:"err_class"`
	Elapsed   int64  `json:"elapsed_ns"`
	Attempts  int    `json:"attempts"`
	Late      int    `json:"requests_after_return"`
	HeadersOK bool   `json:"headers_on_every_request"`
}

func (tc *TimeoutCase) build(token string) {
	sc := &Scenario{Exporter: tc.Exporter, Enabled: true, Initial: 20 * time.Millisecond, MaxElapsed: 60 * time.Second, Timed: true,
		CancelAt: -1, ShutdownAt: -1, Token: token, Timeout: tc.Timeout, Hang: tc.Hang}
	tc.Bound = tc.Timeout
	if isHTTP(tc.Exporter) {
		sc.MaxElapsed = time.Second
		sc.Script = []Resp{{Status: 503}}
		tc.Bound = sc.MaxElapsed + tc.Timeout
	} else {
		sc.Script = []Resp{{Code: 14}}
	}
	if tc.Headers == 1 {
		sc.Headers = map[string]string{"x-verif-hdr": "v"}
	}
	tc.sc = sc
	tc.col = &collector{sc: sc, start: time.Now(), release: make(chan struct{})}
	endpoint, stop, err := startCollector(tc.col)
	if err != nil {
		tc.fail = "collector: " + err.Error()
		return
	}
	tc.stop = stop
	x, err := mkExporter(tc.Exporter, endpoint, sc)
	if err != nil {
		tc.fail = "exporter construction: " + err.Error()
		return
	}
	tc.x = x
}

func (tc *TimeoutCase) run() (ob TimeoutObs, failure string, inconclusive string) {
	defer func() {
		if r := recover(); r != nil {
			failure = fmt.Sprintf("panic: %v", r)
		}
	}()
	if tc.fail != "" {
		return ob, tc.fail, ""
	}
	defer tc.stop()
	defer close(tc.col.release)
	ctx, cancel := context.WithCancel(context.Background()) // no deadline of its own
	defer cancel()
	if tc.CallerDeadlineLater {
		var c2 context.CancelFunc
		ctx, c2 = context.WithTimeout(ctx, tc.Timeout+30*time.Second)
		defer c2()
	}
	done := make(chan error, 1)
	t0 := time.Now()
	go func() { done <- tc.x.export(ctx) }()
	var eerr error
	select {
	case eerr = <-done:
		ob.Returned = true
	case <-time.After(tc.Bound + 10*time.Second):
	}
	ob.Elapsed = int64(time.Since(t0))
	tRet := time.Since(tc.col.start)
	if ob.Returned {
		time.Sleep(3 * time.Second) // anything arriving more than 2 s from now on was sent after the export had returned
	} else {
		cancel()
		select {
		case eerr = <-done:
		case <-time.After(10 * time.Second):
			return ob, "export did not return even after the caller's context was cancelled", ""
		}
	}
	tc.col.mu.Lock()
	ob.Attempts = len(tc.col.arrivals)
	ob.HeadersOK = true
	for _, a := range tc.col.arrivals {
		if a.at > tRet+2*time.Second {
			ob.Late++
		}
		if tc.Headers != 0 && !a.hdr {
			ob.HeadersOK = false
		}
	}
	tc.col.mu.Unlock()
	if eerr != nil {
		ob.Err = eerr.Error()
		if len(ob.Err) > 200 {
			ob.Err = ob.Err[:200]
		}
	}
	ob.ErrClass = errClass(eerr)
	sctx, scancel := context.WithTimeout(context.Background(), 2*time.Second)
	tc.x.shutdown(sctx)
	scancel()
	if ob.Attempts == 0 {
		inconclusive = "no request reached the collector (connection not ready within the export timeout): the export gave up, nothing to observe"
	}
	return ob, "", inconclusive
}

func buildTimeoutCases(r *vgen.Rand) []*TimeoutCase {
	var out []*TimeoutCase
	for e := 0; e < 6; e++ {
		for h := 0; h < 3; h++ {
			for _, hang := range []bool{true, false} {
				out = append(out, &TimeoutCase{Exporter: e, Headers: h, Hang: hang, Timeout: time.Duration(300+r.Intn(201)) * time.Millisecond})
			}
		}
		for _, hang := range []bool{true, false} { // caller deadline later than the exporter's timeout: the timeout still bounds the export
			out = append(out, &TimeoutCase{Exporter: e, Headers: r.Intn(2), Hang: hang, CallerDeadlineLater: true, Timeout: time.Duration(300+r.Intn(201)) * time.Millisecond})
		}
	}
	// exporters read OTEL_EXPORTER_OTLP_HEADERS when they are constructed: build the environment ones in a phase of their own,
	// before anything else in this process constructs an exporter
	for i, tc := range out {
		if tc.Headers != 2 {
			tc.build(fmt.Sprintf("ttk%04dx", i))
		}
	}
	os.Setenv("OTEL_EXPORTER_OTLP_HEADERS", "x-verif-hdr=v")
	for i, tc := range out {
		if tc.Headers == 2 {
			tc.build(fmt.Sprintf("ttk%04dx", i))
		}
	}
	os.Unsetenv("OTEL_EXPORTER_OTLP_HEADERS")
	return out
}

// ---------------------------------------------------------------------------
// Transport errors (HTTP exporters, through the public WithProxy option): the proxy function fails the first k
// round trips with a net.Error - temporary (Temporary() true, Timeout() false: a DNS-style error) or not - and
// lets the following ones through.  A temporary error must be retried, any other is final.
// ---------------------------------------------------------------------------

type NetErrObs struct {
	Calls    int    `json:"transport_calls"`
	Requests int    `json:"requests_at_collector"`
	BodyOK   bool   `json:"body_is_own_payload"`
	Err      string `json:"err"`
	ErrClass int    `json:"err_class"`
	Elapsed  int64  `json:"elapsed_ns"`
}

func runNetErr(e int, temporary bool, k int, token string) (ob NetErrObs, failure string, inconclusive string) {
	defer func() {
		if r := recover(); r != nil {
			failure = fmt.Sprintf("panic: %v", r)
		}
	}()
	var calls atomic.Int64
	sc := &Scenario{Exporter: e, Enabled: true, Initial: 2 * time.Millisecond, MaxElapsed: 20 * time.Second, CancelAt: -1, ShutdownAt: -1,
		Token: token, Script: []Resp{{Status: 200}}}
	sc.proxy = func(*http.Request) (*url.URL, error) {
		if int(calls.Add(1)) <= k {
			return nil, &net.DNSError{Err: "scripted lookup failure", Name: "collector.invalid", IsTemporary: temporary, IsNotFound: !temporary}
		}
		return nil, nil // no proxy: straight to the collector
	}
	c := &collector{sc: sc, start: time.Now()}
	endpoint, stop, err := startCollector(c)
	if err != nil {
		return ob, "collector: " + err.Error(), ""
	}
	defer stop()
	x, err := mkExporter(e, endpoint, sc)
	if err != nil {
		return ob, "exporter construction: " + err.Error(), ""
	}
	done := make(chan error, 1)
	t0 := time.Now()
	go func() { done <- x.export(context.Background()) }()
	var eerr error
	select {
	case eerr = <-done:
	case <-time.After(30 * time.Second):
		return ob, "export did not return within 30 s (watchdog)", ""
	}
	ob.Elapsed = int64(time.Since(t0))
	sctx, scancel := context.WithTimeout(context.Background(), 5*time.Second)
	x.shutdown(sctx)
	scancel()
	ob.Calls = int(calls.Load())
	c.mu.Lock()
	ob.Requests = len(c.arrivals)
	ob.BodyOK = ob.Requests > 0 && ownPayload(signal(e), c.lastBody, token)
	c.mu.Unlock()
	if eerr != nil {
		ob.Err = eerr.Error()
		if len(ob.Err) > 200 {
			ob.Err = ob.Err[:200]
		}
	}
	ob.ErrClass = errClass(eerr)
	if time.Duration(ob.Elapsed) > 8*time.Second {
		inconclusive = "the export took more than 8 s of wall clock: a default timeout may have interfered"
	}
	return ob, "", inconclusive
}

// ---------------------------------------------------------------------------
// The retry budget is per export: an exporter that has existed for longer than its MaxElapsedTime (150-300 ms)
// exports twice, idle for MaxElapsedTime + 100 ms before each export; each export gets a retry-able reply, then
// success.  Precondition (else inconclusive): each export itself took less than half of MaxElapsedTime.
// ---------------------------------------------------------------------------

type AgedObs struct {
	Attempts [2]int    `json:"attempts"`
	ErrClass [2]int    `json:"err_class"`
	Err      [2]string `json:"err"`
	Elapsed  [2]int64  `json:"elapsed_ns"`
}

func runAged(e int, maxElapsed time.Duration, token string) (ob AgedObs, failure string, inconclusive string) {
	defer func() {
		if r := recover(); r != nil {
			failure = fmt.Sprintf("panic: %v", r)
		}
	}()
	sc := &Scenario{Exporter: e, Enabled: true, Initial: time.Millisecond, MaxElapsed: maxElapsed, CancelAt: -1, ShutdownAt: -1, Token: token}
	if isHTTP(e) {
		sc.Script = []Resp{{Status: 503}, {Status: 200}, {Status: 502}, {Status: 200}}
	} else {
		sc.Script = []Resp{{Code: 14}, {Code: 0}, {Code: 14}, {Code: 0}}
	}
	c := &collector{sc: sc, start: time.Now()}
	endpoint, stop, err := startCollector(c)
	if err != nil {
		return ob, "collector: " + err.Error(), ""
	}
	defer stop()
	x, err := mkExporter(e, endpoint, sc)
	if err != nil {
		return ob, "exporter construction: " + err.Error(), ""
	}
	count := func() int { c.mu.Lock(); defer c.mu.Unlock(); return len(c.arrivals) }
	for i := 0; i < 2; i++ {
		time.Sleep(maxElapsed + 100*time.Millisecond) // the client is now older than its retry budget / idle for longer than it
		before := count()
		done := make(chan error, 1)
		t0 := time.Now()
		go func() { done <- x.export(context.Background()) }()
		var eerr error
		select {
		case eerr = <-done:
		case <-time.After(30 * time.Second):
			return ob, "export did not return within 30 s (watchdog)", ""
		}
		ob.Elapsed[i] = int64(time.Since(t0))
		ob.Attempts[i] = count() - before
		ob.ErrClass[i] = errClass(eerr)
		if eerr != nil {
			ob.Err[i] = eerr.Error()
		}
		if time.Duration(ob.Elapsed[i]) > maxElapsed/2 {
			inconclusive = "an export needed more than half of MaxElapsedTime of wall clock: its own budget may legitimately have run out"
		}
	}
	sctx, scancel := context.WithTimeout(context.Background(), 5*time.Second)
	x.shutdown(sctx)
	scancel()
	return ob, "", inconclusive
}

// ---------------------------------------------------------------------------
// Shutdown while an export is asleep in the retry back-off, ALL SIX exporters.  The export retries against a collector
// that never recovers (MaxElapsedTime 8 s, back-off 10-40 ms); after its third attempt Shutdown(ctx 1 s) is called from
// another goroutine.  Observed: when Shutdown and the export returned (relative to the Shutdown call), the export's error,
// requests arriving later than 3 s after Shutdown returned.  Precondition (else inconclusive): the third attempt was seen
// within 2 s, i.e. the retry budget was still far away when Shutdown was called.
// ---------------------------------------------------------------------------

type ShutWaitObs struct {
	Before           int    `json:"requests_before_shutdown"`
	ShutdownReturned bool   `json:"shutdown_returned"`
	ShutdownAfterNs  int64  `json:"shutdown_returned_after_call_ns"`
	ShutdownErr      string `json:"shutdown_err"`
	ExportReturned   bool   `json:"export_returned"`
	ExportAfterNs    int64  `json:"export_returned_after_call_ns"`
	ExportErr        string `json:"export_err"`
	ExportErrClass   int    `json:"export_err_class"`
	Late             int    `json:"requests_later_than_3s_after_shutdown_returned"`
}

func runShutdownWait(e int, token string) (ob ShutWaitObs, failure string, inconclusive string) {
	defer func() {
		if r := recover(); r != nil {
			failure = fmt.Sprintf("panic: %v", r)
		}
	}()
	const budget = 8 * time.Second
	sc := &Scenario{Exporter: e, Enabled: true, Initial: 10 * time.Millisecond, MaxElapsed: budget, Timed: true, CancelAt: -1, ShutdownAt: -1, Token: token}
	if isHTTP(e) {
		sc.Script = []Resp{{Status: 503}}
	} else {
		sc.Script = []Resp{{Code: 14}}
	}
	c := &collector{sc: sc, start: time.Now()}
	endpoint, stop, err := startCollector(c)
	if err != nil {
		return ob, "collector: " + err.Error(), ""
	}
	defer stop()
	x, err := mkExporter(e, endpoint, sc)
	if err != nil {
		return ob, "exporter construction: " + err.Error(), ""
	}
	count := func() int { c.mu.Lock(); defer c.mu.Unlock(); return len(c.arrivals) }
	ectx, ecancel := context.WithCancel(context.Background())
	defer ecancel()
	exported := make(chan error, 1)
	tStart := time.Now()
	go func() { exported <- x.export(ectx) }()
	for count() < 3 {
		if time.Since(tStart) > 2*time.Second {
			ecancel()
			<-exported
			return ob, "", "the export did not reach its third attempt within 2 s: the retry budget is no longer far away"
		}
		time.Sleep(time.Millisecond)
	}
	ob.Before = count()
	sctx, scancel := context.WithTimeout(context.Background(), time.Second)
	defer scancel()
	sdone := make(chan error, 1)
	tCall := time.Now()
	go func() { sdone <- x.shutdown(sctx) }()
	// observe until both have returned (at most budget + 6 s), then 3.5 s more for late requests
	var eerr error
	limit := time.After(budget + 6*time.Second)
	var tShut time.Duration
	for !(ob.ShutdownReturned && ob.ExportReturned) {
		select {
		case serr := <-sdone:
			ob.ShutdownReturned = true
			ob.ShutdownAfterNs = int64(time.Since(tCall))
			tShut = time.Since(c.start)
			if serr != nil {
				ob.ShutdownErr = serr.Error()
			}
		case eerr = <-exported:
			ob.ExportReturned = true
			ob.ExportAfterNs = int64(time.Since(tCall))
		case <-limit:
			goto done
		}
	}
done:
	if ob.ShutdownReturned {
		time.Sleep(3500 * time.Millisecond)
		c.mu.Lock()
		for _, a := range c.arrivals {
			if a.at > tShut+3*time.Second {
				ob.Late++
			}
		}
		c.mu.Unlock()
	}
	if !ob.ExportReturned {
		ecancel()
		select {
		case eerr = <-exported:
		case <-time.After(10 * time.Second):
			return ob, "export did not return even after its own context was cancelled", ""
		}
	}
	if eerr != nil {
		ob.ExportErr = eerr.Error()
		if len(ob.ExportErr) > 200 {
			ob.ExportErr = ob.ExportErr[:200]
		}
	}
	ob.ExportErrClass = errClass(eerr)
	return ob, "", ""
}

// ---------------------------------------------------------------------------
// generators
// ---------------------------------------------------------------------------

var retryStatuses = []int{429, 502, 503, 504}
var finalStatuses = []int{400, 401, 403, 404, 408, 413, 500, 501, 505, 507, 300, 304, 418, 599}
var okStatuses = []int{200, 200, 202, 204, 299}
var retryCodes = []int{1, 4, 10, 11, 14, 15}
var finalCodes = []int{2, 3, 5, 6, 7, 9, 12, 13, 16}

func genRetryable(r *vgen.Rand, http bool, allowSlow bool) Resp {
	if http {
		rs := Resp{Status: vgen.Pick(r, retryStatuses)}
		switch r.Intn(8) {
		case 0:
			rs.RetryAfter = "0"
		case 1:
			rs.RetryAfter = vgen.Pick(r, []string{"abc", "1.5", "Wed, 21 Oct 2015 07:28:00 GMT", " 2", "-1", "-3"})
		case 2:
			if allowSlow && r.Chance(1, 6) {
				rs.RetryAfter = vgen.Pick(r, []string{"1", "2", "30", "3600"})
			}
		}
		return rs
	}
	rs := Resp{Code: vgen.Pick(r, retryCodes)}
	if r.Chance(1, 4) {
		rs.Code = 8
		rs.HasInfo = true
	}
	switch r.Intn(6) {
	case 0:
		rs.HasInfo = true
	case 1:
		rs.HasInfo = true
		rs.InfoNs = int64(r.Intn(3000000)) // up to 3 ms
	case 2:
		if allowSlow && r.Chance(1, 3) {
			rs.HasInfo = true
			rs.InfoNs = int64(50+r.Intn(150)) * 1000000 // 50-200 ms
		}
	}
	return rs
}

func genTerminal(r *vgen.Rand, http bool) Resp {
	if http {
		switch r.Intn(5) {
		case 0:
			return Resp{Status: vgen.Pick(r, finalStatuses), RetryAfter: vgen.Pick(r, []string{"", "", "1"})}
		case 1:
			return Resp{Status: vgen.Pick(r, []int{200, 202}), Partial: true}
		default:
			return Resp{Status: vgen.Pick(r, okStatuses)}
		}
	}
	switch r.Intn(5) {
	case 0:
		return Resp{Code: vgen.Pick(r, finalCodes), HasInfo: r.Chance(1, 3), InfoNs: 1000}
	case 1:
		return Resp{Code: 8} // ResourceExhausted without RetryInfo: not retry-able
	case 2:
		return Resp{Code: 0, Partial: true}
	default:
		return Resp{Code: 0}
	}
}

func genSequence(r *vgen.Rand, e int) Scenario {
	http := isHTTP(e)
	sc := Scenario{Exporter: e, Enabled: true, Initial: time.Duration(1+r.Intn(3)) * time.Millisecond, CancelAt: -1, ShutdownAt: -1, Kind: "sequence"}
	sc.MaxElapsed = vgen.Pick(r, []time.Duration{0, 20 * time.Second, 20 * time.Second})
	n := vgen.Pick(r, []int{0, 1, 1, 2, 2, 3, 4})
	for i := 0; i < n; i++ {
		sc.Script = append(sc.Script, genRetryable(r, http, true))
	}
	sc.Script = append(sc.Script, genTerminal(r, http))
	if http && r.Chance(1, 5) {
		sc.Gzip = true
	}
	switch r.Intn(10) {
	case 0:
		sc.Enabled = false
		sc.Kind = "disabled"
	case 1, 2:
		if n > 0 {
			// cancellation during the wait after response k: a long back-off so that the cancellation wins the race with the timer
			// k = 0: cancelled after the response has been written, i.e. during the wait, which lasts >= 1 s (Initial 2 s): the
			// cancellation wins the race against the timer even on a machine 50 times slower.  k > 0: the waits before k must
			// stay short, so the cancellation is issued before response k is written (no race at all: the attempt or the wait ends).
			sc.CancelAt = r.Intn(n)
			if sc.CancelAt == 0 {
				sc.Initial = 2 * time.Second
			} else {
				sc.HookBefore = true
			}
			sc.Kind = "cancel"
		}
	case 3:
		if n > 0 && (e == 0 || e == 3) {
			sc.ShutdownAt = 0 // the wait it interrupts lasts >= 1 s; Shutdown takes effect ~15 ms after the response
			sc.Initial = 2 * time.Second
			sc.Kind = "shutdown"
		}
	}
	return sc
}

func fixedCorpus() []Scenario {
	var out []Scenario
	base := func(e int) Scenario {
		return Scenario{Exporter: e, Enabled: true, Initial: 2 * time.Millisecond, MaxElapsed: 20 * time.Second, CancelAt: -1, ShutdownAt: -1, Kind: "corpus"}
	}
	for e := 0; e < 6; e++ {
		if isHTTP(e) {
			// F-C14-1 (known): Retry-After in seconds is waited as nanoseconds
			for _, ra := range []string{"1", "2"} {
				sc := base(e)
				sc.Script = []Resp{{Status: 503, RetryAfter: ra}, {Status: 200}}
				out = append(out, sc)
			}
			// a hint far beyond MaxElapsedTime must end the export (server's unit); it does not (same finding)
			sc := base(e)
			sc.MaxElapsed = 5 * time.Second
			sc.Script = []Resp{{Status: 429, RetryAfter: "3600"}, {Status: 200}}
			out = append(out, sc)
		} else {
			// RetryInfo is honoured: 120 ms
			sc := base(e)
			sc.Script = []Resp{{Code: 14, HasInfo: true, InfoNs: 120e6}, {Code: 8, HasInfo: true, InfoNs: 60e6}, {Code: 0}}
			out = append(out, sc)
			// RetryInfo beyond MaxElapsedTime: give up at once
			sc = base(e)
			sc.MaxElapsed = 5 * time.Second
			sc.Script = []Resp{{Code: 14, HasInfo: true, InfoNs: 3600e9}, {Code: 0}}
			sc.Kind = "over-limit"
			out = append(out, sc)
			sc = base(e)
			sc.MaxElapsed = 5 * time.Second
			sc.Script = []Resp{{Code: 1}, {Code: 8, HasInfo: true, InfoNs: 3600e9}, {Code: 0}}
			sc.Kind = "over-limit"
			out = append(out, sc)
		}
		// a SUCCESS (or a non-retry-able failure) that arrives after MaxElapsedTime is still what the export reports: the budget
		// only decides whether to RETRY.  The collector sleeps 400 ms, the budget is 200 ms.
		for _, first := range []bool{true, false} {
			for _, ok := range []bool{true, false} {
				sc := base(e)
				sc.MaxElapsed = 200 * time.Millisecond
				sc.SlowReply = true
				sc.Kind = "slow-final"
				var last Resp
				switch {
				case isHTTP(e) && ok:
					last = Resp{Status: 200, DelayMs: 400}
				case isHTTP(e):
					last = Resp{Status: 400, DelayMs: 400}
				case ok:
					last = Resp{Code: 0, DelayMs: 400}
				default:
					last = Resp{Code: 3, DelayMs: 400}
				}
				if !first { // ... also as the second attempt, after a quick retry-able reply
					if isHTTP(e) {
						sc.Script = []Resp{{Status: 503}}
					} else {
						sc.Script = []Resp{{Code: 14}}
					}
				}
				sc.Script = append(sc.Script, last)
				out = append(out, sc)
			}
		}
		// short MaxElapsedTime against a collector that never recovers
		for i := 0; i < 2; i++ {
			sc := base(e)
			sc.Timed = true
			sc.MaxElapsed = 40 * time.Millisecond
			sc.Kind = "max-elapsed"
			if isHTTP(e) {
				sc.Script = []Resp{{Status: 503}}
			} else {
				sc.Script = []Resp{{Code: 14}}
			}
			out = append(out, sc)
		}
	}
	return out
}

// accumulatedThrottle: k = 2..6 consecutive retry-able replies each carrying a server throttle (gRPC RetryInfo;
// HTTP Retry-After written in the unit the client reads, i.e. nanoseconds), every delay below MaxElapsedTime
// and far above the back-off, their sum beyond it; afterwards the collector keeps failing retry-ably for ever.
// One scenario per k for each of the six exporters (each has its own copy of internal/retry/retry.go).
func accumulatedThrottle(r *vgen.Rand) []Scenario {
	var out []Scenario
	for e := 0; e < 6; e++ {
		for k := 2; k <= 6; k++ {
			sc := Scenario{Exporter: e, Enabled: true, Initial: time.Millisecond, CancelAt: -1, ShutdownAt: -1, Timed: true, Kind: "accumulated-throttle"}
			tight := r.Chance(2, 3) // delays just large enough for the sum to overrun: the loop has to add up all k of them
			for {
				sc.MaxElapsed = time.Duration(vgen.Pick(r, []int{200, 250, 300})) * time.Millisecond
				sc.Throttled = nil
				var sum time.Duration
				for i := 0; i < k; i++ {
					d := time.Duration(60+r.Intn(91)) * time.Millisecond
					if tight {
						sc.MaxElapsed = 300 * time.Millisecond
						d = max(60*time.Millisecond, (sc.MaxElapsed+40*time.Millisecond)/time.Duration(k)) + time.Duration(r.Intn(8))*time.Millisecond
					}
					if k == 2 {
						d = time.Duration(115+r.Intn(36)) * time.Millisecond
						sc.MaxElapsed = 200 * time.Millisecond
					}
					sc.Throttled = append(sc.Throttled, int64(d))
					sum += d
				}
				if sum > sc.MaxElapsed+20*time.Millisecond {
					break
				}
			}
			for _, d := range sc.Throttled {
				if isHTTP(e) {
					sc.Script = append(sc.Script, Resp{Status: vgen.Pick(r, retryStatuses), RetryAfter: strconv.FormatInt(d, 10)})
				} else {
					sc.Script = append(sc.Script, Resp{Code: vgen.Pick(r, []int{14, 8, 1, 10}), HasInfo: true, InfoNs: d})
				}
			}
			if isHTTP(e) {
				sc.Script = append(sc.Script, Resp{Status: 503})
			} else {
				sc.Script = append(sc.Script, Resp{Code: 14})
			}
			out = append(out, sc)
		}
	}
	return out
}

// slowAttempts: every reply is retry-able, takes 300 ms to come and asks for 300 ms more (RetryInfo; Retry-After in the unit the
// client reads); MaxElapsedTime is 500 ms.  The failed attempt's own duration counts: 300 + 300 > 500, so the export must give
// up after its FIRST attempt.  The collector sleeps at least the delay, so a slow machine only makes the attempt longer.
func slowAttempts() []Scenario {
	var out []Scenario
	for e := 0; e < 6; e++ {
		for rep := 0; rep < 2; rep++ {
			sc := Scenario{Exporter: e, Enabled: true, Initial: time.Millisecond, MaxElapsed: 500 * time.Millisecond, CancelAt: -1, ShutdownAt: -1, Timed: true, Kind: "slow-attempt"}
			if isHTTP(e) {
				sc.Script = []Resp{{Status: 503, RetryAfter: "300000000", DelayMs: 300}}
			} else {
				sc.Script = []Resp{{Code: 14, HasInfo: true, InfoNs: 300e6, DelayMs: 300}}
			}
			out = append(out, sc)
		}
	}
	return out
}

func classificationSweep(tier string) []Scenario {
	var out []Scenario
	for e := 0; e < 6; e++ {
		mk := func(first Resp) {
			sc := Scenario{Exporter: e, Enabled: true, Initial: time.Millisecond, MaxElapsed: 20 * time.Second, CancelAt: -1, ShutdownAt: -1, Kind: "classification"}
			if isHTTP(e) {
				sc.Script = []Resp{first, {Status: 200}}
			} else {
				sc.Script = []Resp{first, {Code: 0}}
			}
			out = append(out, sc)
		}
		if isHTTP(e) {
			for s := 200; s <= 599; s++ {
				mk(Resp{Status: s})
			}
			for _, s := range []int{600, 700, 999, 429, 503} {
				mk(Resp{Status: s, RetryAfter: "0"})
			}
		} else {
			for c := 0; c <= 16; c++ {
				mk(Resp{Code: c})
				mk(Resp{Code: c, HasInfo: true})
				mk(Resp{Code: c, HasInfo: true, InfoNs: 1000000})
			}
		}
	}
	return out
}

// ---------------------------------------------------------------------------
// Coq emission
// ---------------------------------------------------------------------------

func respCoq(http bool, rs Resp) string {
	if http {
		ra := vgen.None
		if rs.RetryAfter != "" {
			// newResponseError: strconv.ParseInt(s[0], 10, 64); a value that does not parse is no hint
			if t, err := strconv.ParseInt(rs.RetryAfter, 10, 64); err == nil {
				ra = vgen.Some(vgen.Z(t))
			}
		}
		return vgen.App("RespHttp", vgen.N(uint64(rs.Status)), ra, vgen.Bool(rs.Partial))
	}
	ri := vgen.None
	if rs.HasInfo {
		ri = vgen.Some(vgen.Z(rs.InfoNs))
	}
	return vgen.App("RespGrpc", vgen.N(uint64(rs.Code)), ri, vgen.Bool(rs.Partial))
}

func main() {
	o := vgen.ParseFlags()
	r := vgen.NewRand(o.Seed)
	w := vgen.NewWriter(o.Out, "C14.Types C14.Model C14.Spec C14.Proofs C14.Corr", "case", 160)
	w.Rule = "each case is one Export through the public API of one of the six OTLP exporters against its own scripted in-process collector " +
		"(httptest server / gRPC server): fixed corpus (Retry-After, RetryInfo, hints beyond MaxElapsedTime, short MaxElapsedTime), an exhaustive " +
		"classification sweep (every HTTP status 200..599 and all 17 gRPC codes with / without RetryInfo, one request each, per exporter), random " +
		"response sequences with throttle hints, retry disabled, cancellation and Shutdown during a wait; a case is non-trivial when more than one attempt " +
		"was made or the export failed; distinct = distinct Coq case terms"

	otel.SetErrorHandler(otel.ErrorHandlerFunc(func(e error) {
		handledMu.Lock()
		m := e.Error()
		if len(m) > 400 { // partial-success messages can be a megabyte: the head (kind of report, scenario token) is all that is looked at
			m = m[:400]
		}
		handledMsgs = append(handledMsgs, m)
		handledMu.Unlock()
	}))

	var scs []Scenario
	scs = append(scs, fixedCorpus()...)
	scs = append(scs, accumulatedThrottle(r.Fork())...)
	scs = append(scs, slowAttempts()...)
	scs = append(scs, classificationSweep(o.Tier)...)
	n := o.Count(900, 12000)
	for i := 0; i < n; i++ {
		scs = append(scs, genSequence(r, r.Intn(6)))
	}
	for i := range scs {
		scs[i].Token = fmt.Sprintf("tok%06dx", i)
	}

	// export timeout x headers x collector: exporters are built first (environment phase), the exports run alongside everything else
	tcs := buildTimeoutCases(r.Fork())
	tobs := make([]TimeoutObs, len(tcs))
	tfail := make([]string, len(tcs))
	tincon := make([]string, len(tcs))
	var twg sync.WaitGroup
	for i, tc := range tcs {
		twg.Add(1)
		go func(i int, tc *TimeoutCase) {
			defer twg.Done()
			tobs[i], tfail[i], tincon[i] = tc.run()
		}(i, tc)
	}

	// Shutdown during a back-off wait, all six exporters: started now, collected later (the non-interrupting ones take the whole 8 s budget)
	const shutWaitReps = 2
	shutWaitObs := make([]ShutWaitObs, 6*shutWaitReps)
	shutWaitFail := make([]string, 6*shutWaitReps)
	shutWaitIncon := make([]string, 6*shutWaitReps)
	var swwg sync.WaitGroup
	for i := range shutWaitObs {
		swwg.Add(1)
		go func(i int) {
			defer swwg.Done()
			shutWaitObs[i], shutWaitFail[i], shutWaitIncon[i] = runShutdownWait(i%6, fmt.Sprintf("swk%04dx", i))
		}(i)
	}

	// aged clients (the retry budget is per export): started now, collected later
	type agedCase struct {
		e   int
		max time.Duration
	}
	var agedCases []agedCase
	ar := r.Fork()
	for e := 0; e < 6; e++ {
		for rep := 0; rep < 2; rep++ {
			agedCases = append(agedCases, agedCase{e, time.Duration(150+ar.Intn(151)) * time.Millisecond})
		}
	}
	agedObs := make([]AgedObs, len(agedCases))
	agedFail := make([]string, len(agedCases))
	agedIncon := make([]string, len(agedCases))
	var awg sync.WaitGroup
	for i, ac := range agedCases {
		awg.Add(1)
		go func(i int, ac agedCase) {
			defer awg.Done()
			agedObs[i], agedFail[i], agedIncon[i] = runAged(ac.e, ac.max, fmt.Sprintf("agk%04dx", i))
		}(i, ac)
	}

	// Shutdown with an expired context during a retry loop: started now, collected at the end (each takes ~1.7 s)
	type shutCase struct{ e, variant int }
	var shutCases []shutCase
	for rep := 0; rep < o.Count(3, 10); rep++ {
		for _, e := range []int{0, 3} {
			for v := 0; v < 2; v++ {
				shutCases = append(shutCases, shutCase{e, v})
			}
		}
	}
	shutObs := make([]ShutExpObs, len(shutCases))
	shutFail := make([]string, len(shutCases))
	shutIncon := make([]string, len(shutCases))
	var swg sync.WaitGroup
	for i, sc := range shutCases {
		swg.Add(1)
		go func(i int, sc shutCase) {
			defer swg.Done()
			shutObs[i], shutFail[i], shutIncon[i] = runShutdownExpired(sc.e, sc.variant, fmt.Sprintf("stk%04dx", i))
		}(i, sc)
	}

	obs := make([]Obs, len(scs))
	fails := make([]string, len(scs))
	incon := make([]string, len(scs))
	inconclusive := 0
	var hangs atomic.Int64
	var wg sync.WaitGroup
	sem := make(chan struct{}, 24)
	for i := range scs {
		wg.Add(1)
		go func(i int) {
			defer wg.Done()
			sem <- struct{}{}
			defer func() { <-sem }()
			// once six exports have hung for 30 s the verdict is settled (a violation): do not spend 30 s on each further one
			wd := 30 * time.Second
			if hangs.Load() >= 6 {
				wd = 5 * time.Second
			}
			obs[i], fails[i], incon[i] = runScenario(&scs[i], wd)
			if fails[i] != "" {
				hangs.Add(1)
			}
		}(i)
	}
	wg.Wait()
	// anything that failed a watchdog or missed its precondition under the parallel load runs once more, alone
	// (at most four watchdog failures are re-run - each may take the whole watchdog again; more than four exports hanging
	// for 30 s at the same time is not scheduling noise and is reported as it is)
	hangReruns := 0
	for i := range scs {
		if fails[i] != "" && hangReruns >= 4 {
			continue
		}
		if fails[i] != "" || incon[i] != "" {
			if fails[i] != "" {
				hangReruns++
			}
			w.Tally("rerun-sequentially")
			scs[i].Token += "r"
			obs[i], fails[i], incon[i] = runScenario(&scs[i], 45*time.Second)
		}
	}

	for i := range scs {
		sc, ob := &scs[i], obs[i]
		desc := map[string]any{"exporter": exporterNames[sc.Exporter], "scenario": sc, "observed": ob}
		if fails[i] != "" {
			w.Violation(fails[i], desc)
			continue
		}
		if incon[i] != "" {
			inconclusive++
			w.Tally("inconclusive:" + sc.Kind)
			continue
		}
		if sc.Kind == "slow-attempt" {
			term := vgen.App("CSlow", vgen.N(uint64(sc.Exporter)), vgen.Z(300e6), vgen.Z(int64(sc.MaxElapsed)), vgen.Nat(ob.Attempts), vgen.N(uint64(ob.ErrClass)), vgen.Z(ob.Elapsed))
			w.Tally(fmt.Sprintf("slow-attempt:attempts=%d", ob.Attempts))
			w.Add(term, desc, sc.Kind+"-"+exporterNames[sc.Exporter], true)
			continue
		}
		http := isHTTP(sc.Exporter)
		if len(sc.Throttled) > 0 {
			var ds, hs, gs []string
			minD := sc.Throttled[0]
			for _, d := range sc.Throttled {
				ds = append(ds, vgen.Z(d))
				minD = min(minD, d)
			}
			for _, h := range ob.Hashes {
				hs = append(hs, vgen.N(h))
			}
			for _, g := range ob.GapsNs {
				gs = append(gs, vgen.Z(g))
			}
			term := vgen.App("CThrottled", vgen.N(uint64(sc.Exporter)), vgen.Z(int64(sc.MaxElapsed)), vgen.Z(minD), vgen.List(ds),
				vgen.Nat(ob.Attempts), vgen.List(hs), vgen.List(gs), vgen.N(uint64(ob.ErrClass)), vgen.Z(ob.Elapsed))
			w.Tally("exporter:" + exporterNames[sc.Exporter])
			w.Tally(fmt.Sprintf("accumulated-throttle:k=%d,attempts=%d", len(sc.Throttled), ob.Attempts))
			w.Add(term, desc, sc.Kind+"-"+exporterNames[sc.Exporter], true)
			continue
		}
		var script []string
		for _, rs := range sc.Script {
			script = append(script, respCoq(http, rs))
		}
		if sc.Timed { // the collector repeats its last response for ever: spell out what was served
			for len(script) < ob.Attempts+1 {
				script = append(script, script[len(script)-1])
			}
		}
		cancelAt := vgen.None
		if sc.CancelAt >= 0 {
			cancelAt = vgen.Some(vgen.Nat(sc.CancelAt))
		} else if sc.ShutdownAt >= 0 {
			cancelAt = vgen.Some(vgen.Nat(sc.ShutdownAt))
		}
		var hs, gs []string
		for _, h := range ob.Hashes {
			hs = append(hs, vgen.N(h))
		}
		for _, g := range ob.GapsNs {
			gs = append(gs, vgen.Z(g))
		}
		term := vgen.App("CRun", vgen.N(uint64(sc.Exporter)), vgen.Bool(sc.Enabled), vgen.Z(int64(sc.MaxElapsed)), cancelAt, vgen.Bool(sc.Timed),
			vgen.List(script), vgen.Nat(ob.Attempts), vgen.List(hs), vgen.List(gs), vgen.N(uint64(ob.ErrClass)), vgen.N(uint64(ob.Handled)), vgen.Z(ob.Elapsed))
		w.Tally("exporter:" + exporterNames[sc.Exporter])
		w.Tally(fmt.Sprintf("attempts:%d", min(ob.Attempts, 6)))
		w.Tally(fmt.Sprintf("err_class:%d", ob.ErrClass))
		w.Add(term, desc, sc.Kind+"-"+exporterNames[sc.Exporter], ob.Attempts > 1 || ob.ErrClass != 0)
	}
	twg.Wait()
	swg.Wait()
	// everything else has finished: re-run, one at a time, what failed or missed its precondition under the parallel load
	for i, tc := range tcs {
		if tfail[i] != "" || tincon[i] != "" {
			w.Tally("rerun-sequentially")
			n := &TimeoutCase{Exporter: tc.Exporter, Headers: tc.Headers, Hang: tc.Hang, Timeout: tc.Timeout, CallerDeadlineLater: tc.CallerDeadlineLater}
			if n.Headers == 2 {
				os.Setenv("OTEL_EXPORTER_OTLP_HEADERS", "x-verif-hdr=v")
			}
			n.build(fmt.Sprintf("ttr%04dx", i))
			os.Unsetenv("OTEL_EXPORTER_OTLP_HEADERS")
			tcs[i] = n
			tobs[i], tfail[i], tincon[i] = n.run()
		}
	}
	for i, sc := range shutCases {
		if shutFail[i] != "" || shutIncon[i] != "" {
			w.Tally("rerun-sequentially")
			shutObs[i], shutFail[i], shutIncon[i] = runShutdownExpired(sc.e, sc.variant, fmt.Sprintf("str%04dx", i))
		}
	}
	for i, tc := range tcs {
		desc := map[string]any{"exporter": exporterNames[tc.Exporter], "case": tc, "observed": tobs[i]}
		if tfail[i] != "" {
			w.Violation(tfail[i], desc)
			continue
		}
		if tincon[i] != "" {
			inconclusive++
			w.Tally("inconclusive:timeout")
			continue
		}
		ob := tobs[i]
		term := vgen.App("CTimeout", vgen.N(uint64(tc.Exporter)), vgen.N(uint64(tc.Headers)), vgen.Bool(tc.CallerDeadlineLater), vgen.Bool(tc.Hang), vgen.Z(int64(tc.Timeout)), vgen.Z(int64(tc.Bound)),
			vgen.Bool(ob.Returned), vgen.N(uint64(ob.ErrClass)), vgen.Z(ob.Elapsed), vgen.Nat(ob.Late), vgen.Nat(ob.Attempts), vgen.Bool(ob.HeadersOK))
		w.Tally(fmt.Sprintf("timeout:headers=%d,hang=%v,caller-deadline-later=%v", tc.Headers, tc.Hang, tc.CallerDeadlineLater))
		w.Add(term, desc, "timeout-"+exporterNames[tc.Exporter], true)
	}
	for i, sc := range shutCases {
		desc := map[string]any{"exporter": exporterNames[sc.e], "shutdown_context": []string{"already cancelled", "expires after 1 ms"}[sc.variant], "observed": shutObs[i]}
		if shutFail[i] != "" {
			w.Violation(shutFail[i], desc)
			continue
		}
		if shutIncon[i] != "" {
			inconclusive++
			w.Tally("inconclusive:shutdown-expired")
			continue
		}
		ob := shutObs[i]
		term := vgen.App("CShutdownExpired", vgen.N(uint64(sc.e)), vgen.N(uint64(sc.variant)), vgen.Nat(ob.Before), vgen.Bool(ob.ShutdownReturned),
			vgen.Bool(ob.ExportReturned), vgen.N(uint64(ob.ExportErrClass)), vgen.Nat(ob.Late), vgen.N(uint64(ob.LaterErrClass)))
		w.Tally("shutdown-expired:" + exporterNames[sc.e])
		w.Add(term, desc, "shutdown-expired-ctx-"+exporterNames[sc.e], true)
	}
	awg.Wait()
	for i, ac := range agedCases {
		if agedFail[i] != "" || agedIncon[i] != "" {
			w.Tally("rerun-sequentially")
			agedObs[i], agedFail[i], agedIncon[i] = runAged(ac.e, ac.max, fmt.Sprintf("agr%04dx", i))
		}
		desc := map[string]any{"exporter": exporterNames[ac.e], "max_elapsed": ac.max, "observed": agedObs[i]}
		if agedFail[i] != "" {
			w.Violation(agedFail[i], desc)
			continue
		}
		if agedIncon[i] != "" {
			inconclusive++
			w.Tally("inconclusive:aged-client")
			continue
		}
		ob := agedObs[i]
		term := vgen.App("CAged", vgen.N(uint64(ac.e)), vgen.Z(int64(ac.max)), vgen.Nat(ob.Attempts[0]), vgen.N(uint64(ob.ErrClass[0])),
			vgen.Nat(ob.Attempts[1]), vgen.N(uint64(ob.ErrClass[1])))
		w.Tally("aged-client:" + exporterNames[ac.e])
		w.Add(term, desc, "aged-client-"+exporterNames[ac.e], true)
	}
	// transport errors: k temporary errors then success; non-temporary: final
	for e := 0; e < 3; e++ {
		for _, temporary := range []bool{true, false} {
			for k := 1; k <= 3; k++ {
				tok := fmt.Sprintf("ntk%d%v%dx", e, temporary, k)
				ob, fail, inc := runNetErr(e, temporary, k, tok)
				if fail != "" || inc != "" {
					w.Tally("rerun-sequentially")
					ob, fail, inc = runNetErr(e, temporary, k, tok+"r")
				}
				desc := map[string]any{"exporter": exporterNames[e], "temporary": temporary, "errors_before_success": k, "observed": ob}
				if fail != "" {
					w.Violation(fail, desc)
					continue
				}
				if inc != "" {
					inconclusive++
					w.Tally("inconclusive:transport-error")
					continue
				}
				term := vgen.App("CNetErr", vgen.N(uint64(e)), vgen.Bool(temporary), vgen.Nat(k), vgen.Nat(ob.Calls), vgen.Nat(ob.Requests),
					vgen.Bool(ob.BodyOK), vgen.N(uint64(ob.ErrClass)))
				w.Tally(fmt.Sprintf("transport-error:temporary=%v", temporary))
				w.Add(term, desc, "transport-error-"+exporterNames[e], true)
			}
		}
	}
	bursts := genBursts(r.Fork(), o.Tier)
	for bi := range bursts {
		for i := 0; i < bursts[bi].N; i++ {
			bursts[bi].Tokens = append(bursts[bi].Tokens, fmt.Sprintf("btk%04d-%02dx", bi, i))
		}
	}
	bobs := make([][]BurstObs, len(bursts))
	bfail := make([]string, len(bursts))
	var bwg sync.WaitGroup
	bsem := make(chan struct{}, 3)
	for bi := range bursts {
		bwg.Add(1)
		go func(bi int) {
			defer bwg.Done()
			bsem <- struct{}{}
			defer func() { <-bsem }()
			bobs[bi], bfail[bi] = runBurst(&bursts[bi])
		}(bi)
	}
	bwg.Wait()
	for bi := range bursts {
		if bfail[bi] != "" { // a watchdog under the parallel load: once more, alone; a second failure is reported
			w.Tally("rerun-sequentially")
			for i := range bursts[bi].Tokens {
				bursts[bi].Tokens[i] += "r"
			}
			bobs[bi], bfail[bi] = runBurst(&bursts[bi])
		}
	}
	for bi, b := range bursts {
		if bfail[bi] != "" {
			w.Violation(bfail[bi], map[string]any{"exporter": exporterNames[b.Exporter], "burst": b})
			continue
		}
		for i, ob := range bobs[bi] {
			var ds, own []string
			for _, d := range ob.Decoded {
				ds = append(ds, vgen.N(d))
			}
			for _, x := range ob.Own {
				own = append(own, vgen.Bool(x))
			}
			term := vgen.App("CBurst", vgen.N(uint64(b.Exporter)), vgen.Bool(b.Gzip), vgen.Nat(ob.Attempts), vgen.List(ds), vgen.List(own),
				vgen.N(uint64(ob.ErrClass)), vgen.N(uint64(ob.Handled)))
			desc := map[string]any{"exporter": exporterNames[b.Exporter], "burst": map[string]any{"gzip": b.Gzip, "concurrent_exports": b.N, "initial_interval": b.Initial},
				"export": b.Tokens[i], "observed": ob}
			w.Tally(fmt.Sprintf("burst:gzip=%v", b.Gzip))
			w.Add(term, desc, fmt.Sprintf("burst-gzip=%v-%s", b.Gzip, exporterNames[b.Exporter]), true)
		}
	}
	swwg.Wait()
	for i := range shutWaitObs {
		e := i % 6
		if shutWaitFail[i] != "" || shutWaitIncon[i] != "" {
			w.Tally("rerun-sequentially")
			shutWaitObs[i], shutWaitFail[i], shutWaitIncon[i] = runShutdownWait(e, fmt.Sprintf("swr%04dx", i))
		}
		ob := shutWaitObs[i]
		desc := map[string]any{"exporter": exporterNames[e], "observed": ob}
		if shutWaitFail[i] != "" {
			w.Violation(shutWaitFail[i], desc)
			continue
		}
		if shutWaitIncon[i] != "" {
			inconclusive++
			w.Tally("inconclusive:shutdown-wait")
			continue
		}
		term := vgen.App("CShutdownWait", vgen.N(uint64(e)), vgen.Bool(ob.ShutdownReturned), vgen.Bool(ob.ExportReturned), vgen.N(uint64(ob.ExportErrClass)),
			vgen.Z(ob.ExportAfterNs), vgen.Z(ob.ShutdownAfterNs), vgen.Nat(ob.Late))
		w.Tally("shutdown-wait:" + exporterNames[e])
		w.Add(term, desc, "shutdown-wait-"+exporterNames[e], true)
	}
	// partial_success matrix, one export at a time with nothing else in flight: every partial-success report the handler
	// receives during an export belongs to it (a report without message text could not be attributed otherwise)
	countPS := func() int {
		handledMu.Lock()
		defer handledMu.Unlock()
		n := 0
		for _, m := range handledMsgs {
			if strings.Contains(strings.ToLower(m), "partial success") {
				n++
			}
		}
		return n
	}
	psMatrix := []PSpec{{Present: true, Rejected: 0, Msg: "warning text"}, {Present: true, Rejected: 5, Msg: ""},
		{Present: true, Rejected: 2, Msg: "some were rejected"}, {Present: true, Rejected: 0, Msg: ""}, {Present: false},
		// large responses (a collector listing every rejected series): 64 KiB, 200 KiB, 1 MiB of message (gRPC's default receive limit is 4 MiB)
		{Present: true, Rejected: 7, Msg: strings.Repeat("m", 64<<10)}, {Present: true, Rejected: 0, Msg: strings.Repeat("w", 200<<10)},
		{Present: true, Rejected: 9, Msg: strings.Repeat("x", 1<<20)}}
	for e := 0; e < 6; e++ {
		for pi := range psMatrix {
			ps := psMatrix[pi]
			sc := Scenario{Exporter: e, Enabled: true, Initial: 2 * time.Millisecond, MaxElapsed: 20 * time.Second, CancelAt: -1, ShutdownAt: -1,
				Token: fmt.Sprintf("psk%d%dx", e, pi), Kind: "partial-success"}
			if isHTTP(e) {
				sc.Script = []Resp{{Status: 200, PS: &ps}}
			} else {
				sc.Script = []Resp{{Code: 0, PS: &ps}}
			}
			before := countPS()
			ob, fail, inc := runScenario(&sc, 30*time.Second)
			reports := countPS() - before
			desc := map[string]any{"exporter": exporterNames[e], "partial_success": map[string]any{"present": ps.Present, "rejected": ps.Rejected, "message_bytes": len(ps.Msg)},
				"observed": ob, "partial_success_reports": reports}
			if fail != "" {
				w.Violation(fail, desc)
				continue
			}
			if inc != "" || ob.Attempts != 1 {
				inconclusive++
				w.Tally("inconclusive:partial-success")
				continue
			}
			pinfo := "NoPartial"
			if ps.Present {
				pinfo = vgen.App("Partial", vgen.N(uint64(ps.Rejected)), vgen.Bool(ps.Msg != ""))
			}
			w.Tally(fmt.Sprintf("partial-success:present=%v,rejected=%d,msg_bytes=%d->reports=%d", ps.Present, ps.Rejected, len(ps.Msg), reports))
			w.Add(vgen.App("CPartial", vgen.N(uint64(e)), pinfo, vgen.N(uint64(ob.ErrClass)), vgen.N(uint64(reports))), desc, "partial-success-"+exporterNames[e], true)
		}
	}
	// Context expiry with (almost) zero back-off intervals, MaxElapsedTime 0.  Run LAST: on the gRPC exporters the export
	// never returns (known finding F-C14-3) and its goroutine keeps spinning until this process exits right after Flush.
	type ctxCase struct {
		e       int
		initial time.Duration
	}
	var ctxCases []ctxCase
	for e := 0; e < 6; e++ {
		for _, ii := range []time.Duration{0, 1, 2, time.Millisecond} {
			ctxCases = append(ctxCases, ctxCase{e, ii})
		}
	}
	type ctxObs struct {
		Attempts int    `json:"attempts"`
		Returned bool   `json:"returned_within_5s_of_expiry"`
		ErrClass int    `json:"err_class"`
		Err      string `json:"err"`
	}
	cobs := make([]ctxObs, len(ctxCases))
	var cwg sync.WaitGroup
	for i, cc := range ctxCases {
		cwg.Add(1)
		go func(i int, cc ctxCase) {
			defer cwg.Done()
			defer func() { recover() }()
			sc := &Scenario{Exporter: cc.e, Enabled: true, Initial: cc.initial, MaxElapsed: 0, MaxInterval: 30 * time.Second, Timed: true, CancelAt: -1, ShutdownAt: -1, Token: fmt.Sprintf("cxk%04dx", i)}
			if isHTTP(cc.e) {
				sc.Script = []Resp{{Status: 503}}
			} else {
				sc.Script = []Resp{{Code: 14}}
			}
			c := &collector{sc: sc, start: time.Now()}
			endpoint, _, err := startCollector(c) // (not stopped: a spinning export may still hold the connection)
			if err != nil {
				return
			}
			x, err := mkExporter(cc.e, endpoint, sc)
			if err != nil {
				return
			}
			ctx, cancel := context.WithTimeout(context.Background(), 300*time.Millisecond)
			defer cancel()
			done := make(chan error, 1)
			go func() { done <- x.export(ctx) }()
			select {
			case eerr := <-done:
				cobs[i].Returned = true
				cobs[i].ErrClass = errClass(eerr)
				if eerr != nil {
					cobs[i].Err = eerr.Error()
					if len(cobs[i].Err) > 160 {
						cobs[i].Err = cobs[i].Err[:160]
					}
				}
			case <-time.After(300*time.Millisecond + 5*time.Second):
			}
			c.mu.Lock()
			cobs[i].Attempts = len(c.arrivals)
			c.mu.Unlock()
		}(i, cc)
	}
	cwg.Wait()
	for i, cc := range ctxCases {
		ob := cobs[i]
		if ob.Attempts == 0 {
			inconclusive++
			w.Tally("inconclusive:ctx-expiry")
			continue
		}
		desc := map[string]any{"exporter": exporterNames[cc.e], "initial_interval_ns": int64(cc.initial), "max_elapsed": 0, "context_timeout_ms": 300, "observed": ob}
		w.Tally(fmt.Sprintf("ctx-expiry:initial=%v,returned=%v", cc.initial, ob.Returned))
		w.Add(vgen.App("CCtxExpiry", vgen.N(uint64(cc.e)), vgen.Z(int64(cc.initial)), vgen.Nat(ob.Attempts), vgen.Bool(ob.Returned), vgen.N(uint64(ob.ErrClass))),
			desc, "ctx-expiry-"+exporterNames[cc.e], true)
	}
	// the same partial success on three consecutive exports of ONE exporter (nothing else in flight): each is reported
	for e := 0; e < 6; e++ {
		sc := &Scenario{Exporter: e, Enabled: true, Initial: 2 * time.Millisecond, MaxElapsed: 20 * time.Second, CancelAt: -1, ShutdownAt: -1, Token: fmt.Sprintf("prk%dx", e)}
		ps := &PSpec{Present: true, Rejected: 4, Msg: "the same rejection every time"}
		for i := 0; i < 3; i++ {
			if isHTTP(e) {
				sc.Script = append(sc.Script, Resp{Status: 200, PS: ps})
			} else {
				sc.Script = append(sc.Script, Resp{Code: 0, PS: ps})
			}
		}
		c := &collector{sc: sc, start: time.Now()}
		endpoint, stop, err := startCollector(c)
		if err != nil {
			w.Violation("collector: "+err.Error(), map[string]any{"exporter": exporterNames[e]})
			continue
		}
		x, err := mkExporter(e, endpoint, sc)
		if err != nil {
			stop()
			w.Violation("exporter construction: "+err.Error(), map[string]any{"exporter": exporterNames[e]})
			continue
		}
		var errs, reps []string
		var repN []int
		okRun := true
		for i := 0; i < 3; i++ {
			before := countPS()
			ectx, ecancel := context.WithTimeout(context.Background(), 20*time.Second)
			eerr := x.export(ectx)
			ecancel()
			errs = append(errs, vgen.N(uint64(errClass(eerr))))
			reps = append(reps, vgen.N(uint64(countPS()-before)))
			repN = append(repN, countPS()-before)
		}
		sctx, scancel := context.WithTimeout(context.Background(), 5*time.Second)
		x.shutdown(sctx)
		scancel()
		c.mu.Lock()
		okRun = len(c.arrivals) == 3
		c.mu.Unlock()
		stop()
		if !okRun { // a request was retried or did not arrive: not the scenario
			inconclusive++
			w.Tally("inconclusive:partial-success-repeat")
			continue
		}
		w.Tally(fmt.Sprintf("partial-success-repeat:reports=%v", repN))
		w.Add(vgen.App("CPartialRepeat", vgen.N(uint64(e)), vgen.List(errs), vgen.List(reps)),
			map[string]any{"exporter": exporterNames[e], "consecutive_exports": 3, "partial_success": ps, "reports_per_export": repN}, "partial-success-repeat-"+exporterNames[e], true)
	}
	w.Extra["inconclusive"] = inconclusive
	if err := w.Flush(); err != nil {
		fmt.Fprintln(os.Stderr, err)
		os.Exit(2)
	}
}
