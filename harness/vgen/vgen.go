// Package vgen holds what every correspondence harness shares: the seeded
// PRNG, Coq term emitters, the sharded cases-file writer and the meta file.
package vgen

import (
	"encoding/json"
	"flag"
	"fmt"
	"os"
	"path/filepath"
	"sort"
	"strconv"
	"strings"
)

// Rand is splitmix64; every random choice of a harness derives from one state.
type Rand struct{ s uint64 }

// NewRand mixes the seed through the splitmix64 finaliser so that consecutive
// seeds give unrelated streams (the state advances by a fixed constant per draw,
// so an unmixed seed+1 would be the same stream shifted by one draw).
func NewRand(seed uint64) *Rand {
	z := (seed + 0x1234567) * 0x9E3779B97F4A7C15
	z = (z ^ (z >> 30)) * 0xBF58476D1CE4E5B9
	z = (z ^ (z >> 27)) * 0x94D049BB133111EB
	return &Rand{s: z ^ (z >> 31)}
}

func (r *Rand) U64() uint64 {
	r.s += 0x9E3779B97F4A7C15
	z := r.s
	z = (z ^ (z >> 30)) * 0xBF58476D1CE4E5B9
	z = (z ^ (z >> 27)) * 0x94D049BB133111EB
	return z ^ (z >> 31)
}

// Intn returns a value in [0,n).
func (r *Rand) Intn(n int) int {
	if n <= 0 {
		return 0
	}
	return int(r.U64() % uint64(n))
}

// Range returns a value in [lo,hi].
func (r *Rand) Range(lo, hi int) int { return lo + r.Intn(hi-lo+1) }

// Chance is true with probability num/den.
func (r *Rand) Chance(num, den int) bool { return r.Intn(den) < num }

func (r *Rand) Bool() bool { return r.U64()&1 == 1 }

// Fork derives an independent stream (so adding draws in one generator does
// not shift every later case).
func (r *Rand) Fork() *Rand { return &Rand{s: r.U64()} }

func Pick[T any](r *Rand, xs []T) T { return xs[r.Intn(len(xs))] }

// ---- Coq term emitters ----

// Hx renders a byte string as nested Uint63 chunks (u c1 (u c2 … [])), seven
// bytes per chunk under a leading sentinel 1 (see coq/Lib/Lit.v).
func Hx(b []byte) string {
	if len(b) == 0 {
		return "[]"
	}
	var sb strings.Builder
	n := 0
	for i := 0; i < len(b); i += 7 {
		end := i + 7
		if end > len(b) {
			end = len(b)
		}
		v := uint64(1)
		for _, c := range b[i:end] {
			v = v<<8 | uint64(c)
		}
		sb.WriteString("(u ")
		sb.WriteString(strconv.FormatUint(v, 10))
		sb.WriteByte(' ')
		n++
	}
	sb.WriteString("[]")
	sb.WriteString(strings.Repeat(")", n))
	return sb.String()
}
func HxS(s string) string { return Hx([]byte(s)) }

func N(v uint64) string { return strconv.FormatUint(v, 10) }
func Nat(v int) string  { return strconv.Itoa(v) + "%nat" }
func Z(v int64) string {
	if v < 0 {
		return "(" + strconv.FormatInt(v, 10) + ")%Z"
	}
	return strconv.FormatInt(v, 10) + "%Z"
}
func ZBig(s string) string {
	if strings.HasPrefix(s, "-") {
		return "(" + s + ")%Z"
	}
	return s + "%Z"
}
func Bool(b bool) string {
	if b {
		return "true"
	}
	return "false"
}
func List(items []string) string { return "[" + strings.Join(items, "; ") + "]" }
func Pair(a, b string) string    { return "(" + a + ", " + b + ")" }
func Some(a string) string       { return "(Some " + a + ")" }

const None = "None"

func App(f string, args ...string) string {
	if len(args) == 0 {
		return f
	}
	return "(" + f + " " + strings.Join(args, " ") + ")"
}

// ---- options shared by all harnesses ----

type Opts struct {
	Seed  uint64
	Tier  string
	Out   string
	Scale float64
}

func ParseFlags() Opts {
	var o Opts
	flag.Uint64Var(&o.Seed, "seed", 1, "PRNG seed")
	flag.StringVar(&o.Tier, "tier", "quick", "quick|thorough")
	flag.StringVar(&o.Out, "out", "", "output directory")
	flag.Float64Var(&o.Scale, "scale", 1, "multiplier on case counts (escalation)")
	flag.Parse()
	if o.Out == "" {
		fmt.Fprintln(os.Stderr, "missing -out")
		os.Exit(2)
	}
	return o
}

// Count scales a quick-tier count for the chosen tier.
func (o Opts) Count(quick, thorough int) int {
	n := quick
	if o.Tier == "thorough" {
		n = thorough
	}
	n = int(float64(n) * o.Scale)
	if n < 1 {
		n = 1
	}
	return n
}

// ---- cases writer ----

type Writer struct {
	dir       string
	imports   string // e.g. "C03.Model C03.Proofs C03.Corr"
	caseType  string
	shardBytes int
	terms     []string
	descs     []json.RawMessage
	kinds     map[string]int
	nontriv   map[string]struct{}
	dist      map[string]int
	samples   []any
	direct    []map[string]any
	Rule      string
	Extra     map[string]any
}

// NewWriter: shardKB is the target size of one generated cases file in KB
// (at least 16 shards are produced when there are enough cases, one per core).
func NewWriter(dir, imports, caseType string, shardKB int) *Writer {
	return &Writer{dir: dir, imports: imports, caseType: caseType, shardBytes: shardKB * 1024,
		kinds: map[string]int{}, nontriv: map[string]struct{}{}, dist: map[string]int{}, Extra: map[string]any{}}
}

// Add records one case. term is its Coq term, desc a JSON-able description
// (used in replays and samples), kind a label for the distribution, and
// nontrivial whether the case reached a non-default branch by the harness's rule.
func (w *Writer) Add(term string, desc any, kind string, nontrivial bool) int {
	idx := len(w.terms)
	w.terms = append(w.terms, term)
	b, _ := json.Marshal(desc)
	w.descs = append(w.descs, b)
	w.kinds[kind]++
	if nontrivial {
		w.nontriv[term] = struct{}{}
	}
	if len(w.samples) < 6 || (idx%97 == 0 && len(w.samples) < 12) {
		w.samples = append(w.samples, map[string]any{"kind": kind, "case": desc})
	}
	return idx
}

// Violation records a failure the harness observed directly (a panic, a hang,
// a crashed child process): such an observation needs no model to judge.
func (w *Writer) Violation(what string, desc any) {
	w.direct = append(w.direct, map[string]any{"what": what, "case": desc})
}

// Tally counts an arbitrary distribution label (sizes, error kinds, branches).
func (w *Writer) Tally(label string) { w.dist[label]++ }

func (w *Writer) Len() int { return len(w.terms) }

type shard struct {
	File    string `json:"file"`
	Indices []int  `json:"indices"` // position in the shard -> global case index
}

func (w *Writer) Flush() error {
	if err := os.MkdirAll(w.dir, 0o755); err != nil {
		return err
	}
	old, _ := filepath.Glob(filepath.Join(w.dir, "cases_*"))
	for _, f := range old {
		os.Remove(f)
	}
	// Balance shards by literal size (a proxy for evaluation cost): longest
	// first into the currently lightest shard.
	total := 0
	for _, t := range w.terms {
		total += len(t) + 64
	}
	nsh := total/w.shardBytes + 1
	if nsh < 16 && len(w.terms) >= 64 {
		nsh = 16
	}
	if nsh > len(w.terms) {
		nsh = len(w.terms)
	}
	if nsh < 1 {
		nsh = 1
	}
	order := make([]int, len(w.terms))
	for i := range order {
		order[i] = i
	}
	sort.SliceStable(order, func(a, b int) bool { return len(w.terms[order[a]]) > len(w.terms[order[b]]) })
	bins := make([][]int, nsh)
	load := make([]int, nsh)
	for _, i := range order {
		best := 0
		for b := 1; b < nsh; b++ {
			if load[b] < load[best] {
				best = b
			}
		}
		bins[best] = append(bins[best], i)
		load[best] += len(w.terms[i]) + 64
	}
	var shards []shard
	for k, idxs := range bins {
		if len(idxs) == 0 {
			continue
		}
		sort.Ints(idxs)
		name := fmt.Sprintf("cases_%03d.v", k)
		var sb strings.Builder
		sb.WriteString("From Coq Require Import Uint63.\nFrom Verif Require Import Lib.Base Lib.Lit " + w.imports + ".\n")
		sb.WriteString("Open Scope N_scope.\n")
		sb.WriteString("Definition cases : list " + w.caseType + " := [\n")
		for j, i := range idxs {
			sb.WriteString("  " + w.terms[i])
			if j+1 < len(idxs) {
				sb.WriteString(";")
			}
			sb.WriteString("\n")
		}
		sb.WriteString("].\n")
		sb.WriteString("Definition R := Eval vm_compute in run cases.\n")
		sb.WriteString("Set Printing Width 100000.\nSet Printing Depth 1000000.\nPrint R.\n")
		if err := os.WriteFile(filepath.Join(w.dir, name), []byte(sb.String()), 0o644); err != nil {
			return err
		}
		shards = append(shards, shard{File: name, Indices: idxs})
	}
	f, err := os.Create(filepath.Join(w.dir, "cases.jsonl"))
	if err != nil {
		return err
	}
	for i, d := range w.descs {
		fmt.Fprintf(f, "{\"index\":%d,\"case\":%s,\"term\":%s}\n", i, d, mustJSON(w.terms[i]))
	}
	f.Close()
	kinds := map[string]int{}
	for k, v := range w.kinds {
		kinds[k] = v
	}
	distinct := map[string]struct{}{}
	for _, t := range w.terms {
		distinct[t] = struct{}{}
	}
	meta := map[string]any{
		"evaluations":         len(w.terms),
		"distinct":            len(distinct),
		"distinct_nontrivial": len(w.nontriv),
		"rule":                w.Rule,
		"kinds":               kinds,
		"distribution":        sortedDist(w.dist),
		"samples":             w.samples,
		"shards":              shards,
		"direct_violations":   w.direct,
		"extra":               w.Extra,
	}
	b, _ := json.MarshalIndent(meta, "", " ")
	return os.WriteFile(filepath.Join(w.dir, "meta.json"), b, 0o644)
}

func sortedDist(m map[string]int) map[string]int {
	keys := make([]string, 0, len(m))
	for k := range m {
		keys = append(keys, k)
	}
	sort.Strings(keys)
	out := make(map[string]int, len(m))
	for _, k := range keys {
		out[k] = m[k]
	}
	return out
}

func mustJSON(v any) string {
	b, _ := json.Marshal(v)
	return string(b)
}
