(** C04 specification: what an ended span must hold, as a function of the
    calls made on it and the span limits, written from the property text
    (ordered map with bounded insertion, bounded FIFOs keeping the most recent
    items, status precedence, truncation to the first [limit] valid
    characters, nothing after End).  Nothing here refers to the model of the
    Go code; the vocabulary (values, operations, exported view) is defined
    here and reused by the model. *)
From Verif Require Import Lib.Base Lib.Utf8.
Open Scope N_scope.

(** ** Vocabulary *)

(** attribute.Value: only STRING and STRINGSLICE are inspected by the SDK;
    the other kinds are carried around ([VOther]: type tag and a canonical
    rendering); [VInvalid] is the zero Value (Type() = INVALID). *)
Inductive value :=
| VBool (b : bool)
| VInt (z : Z)
| VFloat (bits : N)
| VStr (s : bytes)
| VStrs (l : list bytes)
| VOther (ty : N) (repr : bytes)
| VInvalid.

Definition kv := (bytes * value)%type.

(** SpanLimits; negative = unlimited. *)
Record limits := {
  lim_len : Z;       (* AttributeValueLengthLimit *)
  lim_attrs : Z;     (* AttributeCountLimit *)
  lim_events : Z;    (* EventCountLimit *)
  lim_links : Z;     (* LinkCountLimit *)
  lim_evattrs : Z;   (* AttributePerEventCountLimit *)
  lim_lkattrs : Z    (* AttributePerLinkCountLimit *)
}.

Record event := { e_name : bytes; e_time : N; e_attrs : list kv; e_dropped : nat }.
(** A link: [l_ctx] identifies the linked span context (0 = the invalid, zero
    span context), [l_ts] whether it carries a non-empty tracestate. *)
Record link := { l_ctx : N; l_ts : bool; l_attrs : list kv; l_dropped : nat }.

(** The options given to Tracer.Start that seed the span: WithAttributes
    (all options concatenated), WithLinks (context tag, tracestate flag,
    attributes), WithTimestamp (an instant in ns; 0 = not given, the wall clock
    is used and not compared), WithSpanKind (the raw number). *)
Record start_opts := {
  so_sattrs : list kv;   (* attributes returned by the sampler (applied first) *)
  so_attrs : list kv;
  so_links : list (N * bool * list kv);
  so_start : N;
  so_kind : N
}.

(** The calls of the property.  [ORecordError typ msg] stands for
    RecordError(err) where [typ] is the Go type string of err and [msg] its
    Error() text; status codes: 0 Unset, 1 Error, 2 Ok.  [OEnd ts] is
    End(WithTimestamp(ts)), [OEnd 0] is End() (wall clock, not compared).
    [ORecordError … stack] with [stack] set is RecordError(err, WithStackTrace(true))
    (the stack text is not compared, see [stack_attr]); [ORead] is a read of the
    live span through its ReadOnlySpan accessors in the middle of the program.
    [OEndPanic typ msg stack ts] is End(WithStackTrace(stack), WithTimestamp(ts))
    running as a deferred call while the goroutine panics with a value of Go
    type [typ] printing as [msg]. *)
Inductive op :=
| OSetAttrs (kvs : list kv)
| OAddEvent (name : bytes) (ts : N) (kvs : list kv)
| ORecordError (typ msg : bytes) (ts : N) (kvs : list kv) (stack : bool)
| OAddLink (ctx : N) (has_ts : bool) (kvs : list kv)
| OSetStatus (code : N) (desc : bytes)
| OSetName (name : bytes)
| ORead
| OEnd (ts : N)
| OEndPanic (typ msg : bytes) (stack : bool) (ts : N).

(** What a span processor / exporter can read from the ended span. *)
Record export := {
  x_name : bytes;
  x_status : N * bytes;
  x_attrs : list kv;
  x_dropped : nat;
  x_events : list event;
  x_evdropped : nat;
  x_links : list link;
  x_lkdropped : nat;
  x_kind : N;    (* SpanKind *)
  x_start : N;   (* StartTime: the supplied instant, 0 when the wall clock was used *)
  x_end : N      (* EndTime: likewise *)
}.

(** ** Attributes: ordered map with bounded insertion *)

(** attribute.KeyValue.Valid: non-empty key and a value that is not INVALID. *)
Definition valid (a : kv) : bool :=
  match fst a with [] => false | _ => true end &&
  match snd a with VInvalid => false | _ => true end.

(** String values (and each element of string slices) cut to the first
    [lenlim] valid characters. *)
Definition trunc_value (lenlim : Z) (v : value) : value :=
  match v with
  | VStr s => VStr (truncate_spec lenlim s)
  | VStrs l => VStrs (map (truncate_spec lenlim) l)
  | _ => v
  end.

Fixpoint has_key (k : bytes) (m : list kv) : bool :=
  match m with
  | [] => false
  | (k', _) :: r => bytes_eqb k' k || has_key k r
  end.

Fixpoint set_key (k : bytes) (v : value) (m : list kv) : list kv :=
  match m with
  | [] => []
  | (k', v') :: r => if bytes_eqb k' k then (k, v) :: r else (k', v') :: set_key k v r
  end.

Definition room (limit : Z) (n : nat) : bool := (limit <? 0)%Z || (Z.of_nat n <? limit)%Z.

(** One attribute offered to the map [m] with drop counter [d]. *)
Definition offer (lenlim limit : Z) (st : list kv * nat) (a : kv) : list kv * nat :=
  let '(m, d) := st in
  if negb (valid a) then (m, S d)
  else if has_key (fst a) m then (set_key (fst a) (trunc_value lenlim (snd a)) m, d)
  else if room limit (length m) then (m ++ [(fst a, trunc_value lenlim (snd a))], d)
  else (m, S d).

Definition spec_attrs (lenlim limit : Z) (offers : list kv) : list kv * nat :=
  fold_left (offer lenlim limit) offers ([], 0%nat).

(** ** Events and links: bounded FIFOs keeping the most recent items *)

Definition lastn {A} (n : nat) (l : list A) : list A := skipn (length l - n) l.

(** The kept items and the exact number dropped. *)
Definition bounded {A} (limit : Z) (all : list A) : list A * nat :=
  let kept := if (limit <? 0)%Z then all else lastn (Z.to_nat limit) all in
  (kept, (length all - length kept)%nat).

(** Per-event / per-link attribute cap: the first [limit] attributes. *)
Definition cap (limit : Z) (l : list kv) : list kv * nat :=
  let kept := if (limit <? 0)%Z then l else firstn (Z.to_nat limit) l in
  (kept, (length l - length kept)%nat).

Definition mk_event (lim : limits) (name : bytes) (ts : N) (attrs : list kv) : event :=
  let '(k, d) := cap (lim_evattrs lim) attrs in
  {| e_name := name; e_time := ts; e_attrs := k; e_dropped := d |}.

Definition mk_link (lim : limits) (ctx : N) (ts : bool) (attrs : list kv) : link :=
  let '(k, d) := cap (lim_lkattrs lim) attrs in
  {| l_ctx := ctx; l_ts := ts; l_attrs := k; l_dropped := d |}.

Definition exc_attrs (typ msg : bytes) : list kv :=
  [(str "exception.type", VStr typ); (str "exception.message", VStr msg)].
(** The stack-trace attribute; its text is canonicalised by the harness. *)
Definition stack_attr : kv := (str "exception.stacktrace", VStr (str "STACK")).
Definition exc_all (typ msg : bytes) (stack : bool) : list kv :=
  exc_attrs typ msg ++ (if stack then [stack_attr] else []).

(** A link with an invalid span context, no attributes and no tracestate is ignored. *)
Definition link_counts (ctx : N) (ts : bool) (attrs : list kv) : bool :=
  negb (ctx =? 0) || negb (match attrs with [] => true | _ => false end) || ts.

Definition events_of (lim : limits) (ops : list op) : list event :=
  flat_map (fun o => match o with
                     | OAddEvent n t a => [mk_event lim n t a]
                     | ORecordError typ msg t a st => [mk_event lim (str "exception") t (a ++ exc_all typ msg st)]
                     | _ => []
                     end) ops.

Definition links_of (lim : limits) (ops : list op) : list link :=
  flat_map (fun o => match o with
                     | OAddLink c ts a => if link_counts c ts a then [mk_link lim c ts a] else []
                     | _ => []
                     end) ops.

Definition offers_of (ops : list op) : list kv :=
  flat_map (fun o => match o with OSetAttrs a => a | _ => [] end) ops.

(** ** Status: Unset < Error < Ok, description only for Error *)

Definition status_step (cur : N * bytes) (code : N) (desc : bytes) : N * bytes :=
  if code <? fst cur then cur else (code, if code =? 1 then desc else []).

Definition status_of (ops : list op) : N * bytes :=
  fold_left (fun cur o => match o with OSetStatus c d => status_step cur c d | _ => cur end) ops (0, []).

Definition name_of (name0 : bytes) (ops : list op) : bytes :=
  fold_left (fun n o => match o with OSetName x => x | _ => n end) ops name0.

(** ** Calls made after End change nothing *)

Fixpoint before_end (ops : list op) : list op :=
  match ops with
  | [] => []
  | OEnd _ :: _ => []
  (* ending while panicking first records the panic as an exception event (wall-clock time, no user attributes) *)
  | OEndPanic typ msg st _ :: _ => [ORecordError typ msg 0 [] st]
  | o :: r => o :: before_end r
  end.

(** ** Start options *)

(** SpanKind validation: Internal 1, Server 2, Client 3, Producer 4, Consumer 5;
    anything else (Unspecified 0, unknown numbers) becomes Internal. *)
Definition kind_of (k : N) : N := if (1 <=? k) && (k <=? 5) then k else 1.

(** Starting a span with options is making these calls first: one AddLink per
    link (same rules: ignored empty link, per-link cap, link limit), then one
    SetAttributes with the sampler's attributes and one with all start
    attributes (same bounded insertion). *)
Definition start_ops (so : start_opts) : list op :=
  map (fun l => let '(c, ts, a) := l in OAddLink c ts a) (so_links so) ++
  [OSetAttrs (so_sattrs so); OSetAttrs (so_attrs so)].

(** The instant given to the first End (0: none given, or never ended by the program). *)
Fixpoint end_time_of (ops : list op) : N :=
  match ops with
  | [] => 0
  | OEnd ts :: _ => ts
  | OEndPanic _ _ _ ts :: _ => ts
  | _ :: r => end_time_of r
  end.

(** ** The exported span as a function of the start options and the calls *)

Definition run_spec (lim : limits) (so : start_opts) (name0 : bytes) (ops : list op) : export :=
  let l := start_ops so ++ before_end ops in
  let a := spec_attrs (lim_len lim) (lim_attrs lim) (offers_of l) in
  let e := bounded (lim_events lim) (events_of lim l) in
  let k := bounded (lim_links lim) (links_of lim l) in
  {| x_name := name_of name0 l;
     x_status := status_of l;
     x_attrs := fst a; x_dropped := snd a;
     x_events := fst e; x_evdropped := snd e;
     x_links := fst k; x_lkdropped := snd k;
     x_kind := kind_of (so_kind so); x_start := so_start so; x_end := end_time_of ops |}.

(** ** Delivery: the span is handed to the span processors exactly once, at
    the first End, and what is handed over is the exported view above. *)
Definition is_end (o : op) : bool := match o with OEnd _ | OEndPanic _ _ _ _ => true | _ => false end.
Definition ends (ops : list op) : bool := existsb is_end ops.
Definition exports_spec (lim : limits) (so : start_opts) (name0 : bytes) (ops : list op) : list export :=
  if ends ops then [run_spec lim so name0 ops] else [].

(** ** Closed forms (what the laws are stated against) *)

Definition keys (m : list kv) : list bytes := map fst m.

Definition memb (k : bytes) (l : list bytes) : bool := existsb (bytes_eqb k) l.

(** First occurrences, in order. *)
Fixpoint distinct (l : list bytes) (seen : list bytes) : list bytes :=
  match l with
  | [] => []
  | k :: r => if memb k seen then distinct r seen else k :: distinct r (k :: seen)
  end.

(** The value supplied last for key [k] among the valid offers. *)
Definition last_value (k : bytes) (offers : list kv) : option value :=
  fold_left (fun acc a => if valid a && bytes_eqb (fst a) k then Some (snd a) else acc) offers None.
Definition last_val (k : bytes) (offers : list kv) : value :=
  match last_value k offers with Some v => v | None => VInvalid end.

Fixpoint lookup (k : bytes) (m : list kv) : option value :=
  match m with
  | [] => None
  | (k', v) :: r => if bytes_eqb k' k then Some v else lookup k r
  end.

(** Keys a bounded map keeps: the first [limit] distinct valid keys offered. *)
Definition kept_keys (limit : Z) (offers : list kv) : list bytes :=
  let d := distinct (keys (filter valid offers)) [] in
  if (limit <? 0)%Z then d else firstn (Z.to_nat limit) d.

(** Offers that cannot be held: invalid ones and those whose key is not kept. *)
Definition dropped_count (limit : Z) (offers : list kv) : nat :=
  length (filter (fun a => negb (valid a) || negb (memb (fst a) (kept_keys limit offers))) offers).

(** The attribute map and drop counter in closed form: the earliest [limit]
    distinct valid keys, in order of first appearance, each with the
    (truncated) value supplied last; everything else counted as dropped. *)
Definition attrs_closed (lenlim limit : Z) (offers : list kv) : list kv * nat :=
  (map (fun k => (k, trunc_value lenlim (last_val k offers))) (kept_keys limit offers),
   dropped_count limit offers).

(** Maximum status code set, and the description given with the last Error. *)
Definition max_code (calls : list (N * bytes)) : N := fold_left N.max (map fst calls) 0.
Definition last_error_desc (calls : list (N * bytes)) : bytes :=
  fold_left (fun acc c => if fst c =? 1 then snd c else acc) calls [].
Definition status_calls (ops : list op) : list (N * bytes) :=
  flat_map (fun o => match o with OSetStatus c d => [(c, d)] | _ => [] end) ops.

(** Every string held is within the value-length limit (in characters). *)
Definition value_within (lenlim : Z) (v : value) : Prop :=
  (0 <= lenlim)%Z ->
  match v with
  | VStr s => (rune_count s <= Z.to_nat lenlim)%nat
  | VStrs l => Forall (fun s => (rune_count s <= Z.to_nat lenlim)%nat) l
  | _ => True
  end.
