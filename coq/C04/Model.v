(** C04 model: the algorithm of sdk/trace/span.go and evictedqueue.go as it
    is written (raw attribute slice that may hold duplicates, capacity fast
    path vs addOverCapAttrs, dedupeAttrsFromRecord, evictedQueue.add, the
    isRecording guard, snapshot).  Executable definitions only.
    The vocabulary (values, limits, operations, exported view, [valid]) is the
    specification's; [truncate] is the model of the Go function in Lib/Utf8.v. *)
From Verif Require Import Lib.Base Lib.Utf8 C04.Spec.
Open Scope N_scope.

Record mstate := {
  m_ended : bool;              (* endTime non-zero *)
  m_name : bytes;
  m_status : N * bytes;
  m_attrs : list kv;           (* s.attributes: may hold duplicate keys *)
  m_dropped : nat;             (* s.droppedAttributes *)
  m_events : list event;       (* s.events.queue *)
  m_evdropped : nat;           (* s.events.droppedCount *)
  m_links : list link;
  m_lkdropped : nat;
  m_meta : N * N * N;          (* spanKind, startTime, endTime (0 = wall clock / not ended) *)
  m_exported : list export     (* what the span processors' OnEnd received, in order *)
}.

(** trace.ValidateSpanKind *)
Definition validate_kind (k : N) : N :=
  if (k =? 1) || (k =? 2) || (k =? 3) || (k =? 4) || (k =? 5) then k else 1.

(** newRecordingSpan before it applies links and attributes. *)
Definition init (so : start_opts) (name0 : bytes) : mstate :=
  {| m_ended := false; m_name := name0; m_status := (0, []); m_attrs := []; m_dropped := 0;
     m_events := []; m_evdropped := 0; m_links := []; m_lkdropped := 0;
     m_meta := (validate_kind (so_kind so), so_start so, 0); m_exported := [] |}.

(** *** truncateAttr *)
Definition truncate_attr (limit : Z) (a : kv) : kv :=
  if (limit <? 0)%Z then a
  else match snd a with
       | VStr s => (fst a, VStr (truncate limit s))
       | VStrs l => (fst a, VStrs (map (truncate limit) l))
       | _ => a
       end.

(** *** dedupeAttrsFromRecord: the [record] map is the position of the first
    (only) entry of [unique] with that key. *)
Fixpoint find_key (k : bytes) (l : list kv) : option nat :=
  match l with
  | [] => None
  | (k', _) :: r => if bytes_eqb k' k then Some 0%nat
                    else match find_key k r with Some i => Some (S i) | None => None end
  end.

Fixpoint set_nth (i : nat) (a : kv) (l : list kv) : list kv :=
  match l, i with
  | [], _ => []
  | _ :: r, O => a :: r
  | x :: r, S j => x :: set_nth j a r
  end.

Definition dedupe_step (unique : list kv) (a : kv) : list kv :=
  match find_key (fst a) unique with
  | Some idx => set_nth idx a unique
  | None => unique ++ [a]
  end.

Definition dedupe (l : list kv) : list kv := fold_left dedupe_step l [].

(** *** SetAttributes *)

(** Fast path: append without looking for duplicates. *)
Definition add_plain (lenlim : Z) (st : list kv * nat) (a : kv) : list kv * nat :=
  let '(l, d) := st in
  if valid a then (l ++ [truncate_attr lenlim a], d) else (l, S d).

(** Loop body of addOverCapAttrs (after the slice was de-duplicated). *)
Definition add_overcap (lenlim : Z) (limit : nat) (st : list kv * nat) (a : kv) : list kv * nat :=
  let '(l, d) := st in
  if negb (valid a) then (l, S d)
  else match find_key (fst a) l with
       | Some idx => (set_nth idx (truncate_attr lenlim a) l, d)
       | None => if (limit <=? length l)%nat then (l, S d)
                 else (l ++ [truncate_attr lenlim a], d)
       end.

Definition set_attributes (lim : limits) (attrs : list kv) (l : list kv) (d : nat) : list kv * nat :=
  match attrs with
  | [] => (l, d)
  | _ =>
      let limit := lim_attrs lim in
      if (limit =? 0)%Z then (l, (d + length attrs)%nat)
      else if (0 <? limit)%Z && (limit <? Z.of_nat (length l + length attrs))%Z
      then fold_left (add_overcap (lim_len lim) (Z.to_nat limit)) attrs (dedupe l, d)
      else fold_left (add_plain (lim_len lim)) attrs (l, d)
  end.

(** *** evictedQueue.add *)
Definition eq_add {A} (capacity : Z) (q : list A) (d : nat) (v : A) : list A * nat :=
  if (capacity =? 0)%Z then (q, S d)
  else if (0 <? capacity)%Z && (Z.of_nat (length q) =? capacity)%Z
  then (tl q ++ [v], S d)
  else (q ++ [v], d).

(** *** per-event / per-link attribute cap (addEvent, AddLink) *)
Definition cap_attrs (limit : Z) (attrs : list kv) : list kv * nat :=
  if (limit =? 0)%Z then ([], length attrs)
  else if (0 <? limit)%Z && (limit <? Z.of_nat (length attrs))%Z
  then (firstn (Z.to_nat limit) attrs, (length attrs - Z.to_nat limit)%nat)
  else (attrs, 0%nat).

Definition add_event (lim : limits) (s : mstate) (name : bytes) (ts : N) (attrs : list kv) : mstate :=
  let '(k, dr) := cap_attrs (lim_evattrs lim) attrs in
  let e := {| e_name := name; e_time := ts; e_attrs := k; e_dropped := dr |} in
  let '(q, d) := eq_add (lim_events lim) (m_events s) (m_evdropped s) e in
  {| m_ended := m_ended s; m_name := m_name s; m_status := m_status s; m_attrs := m_attrs s;
     m_dropped := m_dropped s; m_events := q; m_evdropped := d;
     m_links := m_links s; m_lkdropped := m_lkdropped s; m_meta := m_meta s; m_exported := m_exported s |}.

Definition add_link (lim : limits) (s : mstate) (ctx : N) (ts : bool) (attrs : list kv) : mstate :=
  if (ctx =? 0) && (match attrs with [] => true | _ => false end) && negb ts then s
  else
    let '(k, dr) := cap_attrs (lim_lkattrs lim) attrs in
    let l := {| l_ctx := ctx; l_ts := ts; l_attrs := k; l_dropped := dr |} in
    let '(q, d) := eq_add (lim_links lim) (m_links s) (m_lkdropped s) l in
    {| m_ended := m_ended s; m_name := m_name s; m_status := m_status s; m_attrs := m_attrs s;
       m_dropped := m_dropped s; m_events := m_events s; m_evdropped := m_evdropped s;
       m_links := q; m_lkdropped := d; m_meta := m_meta s; m_exported := m_exported s |}.

(** *** SetStatus *)
Definition set_status (s : mstate) (code : N) (desc : bytes) : mstate :=
  if code <? fst (m_status s) then s
  else
    {| m_ended := m_ended s; m_name := m_name s;
       m_status := (code, if code =? 1 then desc else []);
       m_attrs := m_attrs s; m_dropped := m_dropped s; m_events := m_events s;
       m_evdropped := m_evdropped s; m_links := m_links s; m_lkdropped := m_lkdropped s; m_meta := m_meta s; m_exported := m_exported s |}.

(** The span read back through its ReadOnlySpan accessors (Attributes()
    de-duplicates; the Dropped* accessors return the counters). *)
Definition live (s : mstate) : export :=
  {| x_name := m_name s; x_status := m_status s;
     x_attrs := dedupe (m_attrs s); x_dropped := m_dropped s;
     x_events := m_events s; x_evdropped := m_evdropped s;
     x_links := m_links s; x_lkdropped := m_lkdropped s;
     x_kind := fst (fst (m_meta s)); x_start := snd (fst (m_meta s)); x_end := snd (m_meta s) |}.

(** snapshot(): what End hands to the span processors (attributes are
    de-duplicated only when there are any; the drop counters are copied
    unconditionally since fix 543ed08). *)
Definition snapshot (s : mstate) : export :=
  {| x_name := m_name s; x_status := m_status s;
     x_attrs := match m_attrs s with [] => [] | _ => dedupe (m_attrs s) end;
     x_dropped := m_dropped s;
     x_events := m_events s; x_evdropped := m_evdropped s;
     x_links := m_links s; x_lkdropped := m_lkdropped s;
     x_kind := fst (fst (m_meta s)); x_start := snd (fst (m_meta s)); x_end := snd (m_meta s) |}.

(** snapshot() as it was before fix 543ed08 (F-C04-2 / F-C04-3): the
    dropped-event and dropped-link counters were copied only when the
    respective queue was non-empty.  Kept as documentation of the repaired
    defect; not used by the correspondence. *)
Definition snapshot_before_fix (s : mstate) : export :=
  {| x_name := m_name s; x_status := m_status s;
     x_attrs := match m_attrs s with [] => [] | _ => dedupe (m_attrs s) end;
     x_dropped := m_dropped s;
     x_events := m_events s;
     x_evdropped := match m_events s with [] => 0%nat | _ => m_evdropped s end;
     x_links := m_links s;
     x_lkdropped := match m_links s with [] => 0%nat | _ => m_lkdropped s end;
     x_kind := fst (fst (m_meta s)); x_start := snd (fst (m_meta s)); x_end := snd (m_meta s) |}.

Definition mark_ended (s : mstate) (ts : N) : mstate :=
  {| m_ended := true; m_name := m_name s; m_status := m_status s; m_attrs := m_attrs s;
     m_dropped := m_dropped s; m_events := m_events s; m_evdropped := m_evdropped s;
     m_links := m_links s; m_lkdropped := m_lkdropped s;
     m_meta := (fst (fst (m_meta s)), snd (fst (m_meta s)), ts); m_exported := m_exported s |}.

(** End: store the end time (which marks the span ended), then take the
    snapshot and hand it to the span processors' OnEnd. *)
Definition set_ended (s : mstate) (ts : N) : mstate :=
  let s' := mark_ended s ts in
  {| m_ended := m_ended s'; m_name := m_name s'; m_status := m_status s'; m_attrs := m_attrs s';
     m_dropped := m_dropped s'; m_events := m_events s'; m_evdropped := m_evdropped s';
     m_links := m_links s'; m_lkdropped := m_lkdropped s'; m_meta := m_meta s';
     m_exported := m_exported s' ++ [snapshot s'] |}.

(** One call on the span; every mutator starts with the isRecording guard. *)
Definition step (lim : limits) (s : mstate) (o : op) : mstate :=
  if m_ended s then s
  else match o with
       | OSetAttrs attrs =>
           let '(l, d) := set_attributes lim attrs (m_attrs s) (m_dropped s) in
           {| m_ended := m_ended s; m_name := m_name s; m_status := m_status s; m_attrs := l;
              m_dropped := d; m_events := m_events s; m_evdropped := m_evdropped s;
              m_links := m_links s; m_lkdropped := m_lkdropped s; m_meta := m_meta s; m_exported := m_exported s |}
       | OAddEvent name ts attrs => add_event lim s name ts attrs
       | ORecordError typ msg ts attrs stack =>
           (* opts ++ WithAttributes(type, message) ++ (if c.StackTrace() then WithAttributes(stacktrace)) *)
           add_event lim s (str "exception") ts
             (attrs ++ [(str "exception.type", VStr typ); (str "exception.message", VStr msg)] ++
              (if stack then [stack_attr] else []))
       | ORead =>
           (* Attributes() on the live span de-duplicates s.attributes in place; Events()/Links() copy *)
           {| m_ended := m_ended s; m_name := m_name s; m_status := m_status s; m_attrs := dedupe (m_attrs s);
              m_dropped := m_dropped s; m_events := m_events s; m_evdropped := m_evdropped s;
              m_links := m_links s; m_lkdropped := m_lkdropped s; m_meta := m_meta s; m_exported := m_exported s |}
       | OAddLink ctx ts attrs => add_link lim s ctx ts attrs
       | OSetStatus code desc => set_status s code desc
       | OSetName name =>
           {| m_ended := m_ended s; m_name := name; m_status := m_status s; m_attrs := m_attrs s;
              m_dropped := m_dropped s; m_events := m_events s; m_evdropped := m_evdropped s;
              m_links := m_links s; m_lkdropped := m_lkdropped s; m_meta := m_meta s; m_exported := m_exported s |}
       | OEnd ts => set_ended s ts
       | OEndPanic typ msg stack ts =>
           (* recover() != nil: addEvent(exception, type, message [, stacktrace]) at the wall-clock time, then end *)
           set_ended (add_event lim s (str "exception") 0
                        ([] ++ [(str "exception.type", VStr typ); (str "exception.message", VStr msg)] ++
                         (if stack then [stack_attr] else []))) ts
       end.

(** newRecordingSpan applies the start links through AddLink and the start
    attributes through SetAttributes ([start_ops]), then the program runs. *)
Definition run_model (lim : limits) (so : start_opts) (name0 : bytes) (ops : list op) : mstate :=
  fold_left (step lim) (start_ops so ++ ops) (init so name0).

