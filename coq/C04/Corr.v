(** C04 correspondence: evaluates model and spec on what the Go harness
    observed from the real SDK (generated case files import this). *)
From Verif Require Import Lib.Base Lib.Utf8 C04.Spec C04.Model.
Open Scope N_scope.

Definition value_eqb (a b : value) : bool :=
  match a, b with
  | VBool x, VBool y => Bool.eqb x y
  | VInt x, VInt y => (x =? y)%Z
  | VFloat x, VFloat y => x =? y
  | VStr x, VStr y => bytes_eqb x y
  | VStrs x, VStrs y => list_eqb bytes_eqb x y
  | VOther t x, VOther u y => (t =? u) && bytes_eqb x y
  | VInvalid, VInvalid => true
  | _, _ => false
  end.
Definition kv_eqb (a b : kv) : bool := bytes_eqb (fst a) (fst b) && value_eqb (snd a) (snd b).
Definition kvs_eqb := list_eqb kv_eqb.
Definition event_eqb (a b : event) : bool :=
  bytes_eqb (e_name a) (e_name b) && (e_time a =? e_time b) && kvs_eqb (e_attrs a) (e_attrs b) &&
  Nat.eqb (e_dropped a) (e_dropped b).
Definition link_eqb (a b : link) : bool :=
  (l_ctx a =? l_ctx b) && Bool.eqb (l_ts a) (l_ts b) && kvs_eqb (l_attrs a) (l_attrs b) &&
  Nat.eqb (l_dropped a) (l_dropped b).
Definition status_eqb (a b : N * bytes) : bool := (fst a =? fst b) && bytes_eqb (snd a) (snd b).
Definition export_eqb (a b : export) : bool :=
  bytes_eqb (x_name a) (x_name b) && status_eqb (x_status a) (x_status b) &&
  kvs_eqb (x_attrs a) (x_attrs b) && Nat.eqb (x_dropped a) (x_dropped b) &&
  list_eqb event_eqb (x_events a) (x_events b) && Nat.eqb (x_evdropped a) (x_evdropped b) &&
  list_eqb link_eqb (x_links a) (x_links b) && Nat.eqb (x_lkdropped a) (x_lkdropped b) &&
  (x_kind a =? x_kind b) && (x_start a =? x_start b) && (x_end a =? x_end b).

(** Short constructors for generated files. *)
Definition L := Build_limits.
Definition X := Build_export.
Definition E := Build_event.
Definition K := Build_link.
Definition S := Build_start_opts.

Inductive case :=
(* a whole span: limits, Start options, initial name, calls (the harness's own final End included);
   everything the exporter received (a list: exactly one span is expected), then what the exporter received and
   what the ended span's own accessors return after all calls *)
| CSpan (lim : limits) (so : start_opts) (name0 : bytes) (ops : list op) (exported : list export) (readback : export)
(* one string attribute value under a value-length limit *)
| CTrunc (limit : Z) (s out : bytes).

Definition flag (b : bool) (code : N) : list N := if b then [] else [code].

Definition check_case (c : case) : list N :=
  match c with
  | CSpan lim so name0 ops exported readback =>
      let st := run_model lim so name0 ops in
      let sp := run_spec lim so name0 ops in
      flag (list_eqb export_eqb (m_exported st) exported && export_eqb (live st) readback) V_MISMATCH ++
      flag (list_eqb export_eqb (exports_spec lim so name0 ops) exported && export_eqb sp readback) V_SPECFAIL ++
      flag (export_eqb sp (live st)) V_MODELSPEC
  | CTrunc limit s out =>
      flag (bytes_eqb (truncate limit s) out) V_MISMATCH ++
      flag (bytes_eqb (truncate_spec limit s) out) V_SPECFAIL
  end.

Definition run (cs : list case) : list (N * N) := index_from 0 check_case cs.
