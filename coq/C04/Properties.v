(** C04 property theorems.  Statements only, each closed by a lemma of
    Proofs.v (or Lib/Utf8.v), the axiom audit, and non-vacuity examples.
    All theorems quantify over every limits record (any integers, negative =
    unlimited), every initial name and every finite list of calls. *)
From Verif Require Import Lib.Base Lib.Utf8 C04.Spec C04.Model C04.Proofs.
Open Scope N_scope.

(** Refinement: the ended span read back through its accessors is exactly
    what the ordered-map / bounded-FIFO specification computes. *)
Theorem c04_refines_spec : forall lim so name0 ops,
  live (run_model lim so name0 ops) = run_spec lim so name0 ops.
Proof. exact live_refines. Qed.
Print Assumptions c04_refines_spec.

(** What End hands to the exporter is exactly the specification, for all
    limits (unconditional since fix 543ed08 of F-C04-2 / F-C04-3). *)
Theorem c04_exported_refines_spec : forall lim so name0 ops,
  snapshot (run_model lim so name0 ops) = run_spec lim so name0 ops.
Proof. exact snapshot_refines. Qed.
Print Assumptions c04_exported_refines_spec.

(** Delivery: the span processors' OnEnd receives the span exactly once if the
    program ends it (plain End or End while panicking), never otherwise, and
    receives exactly the specification's view, taken at the first End. *)
Theorem c04_exported_once : forall lim so name0 ops,
  m_exported (run_model lim so name0 ops) = exports_spec lim so name0 ops.
Proof. exact exports_refine. Qed.
Print Assumptions c04_exported_once.

(** Documentation of the repaired defect: the snapshot as it was before the
    fix did not report exact drop counts when the event / link limit is 0. *)
Theorem c04_snapshot_before_fix_refuted :
  (exists lim so name0 ops, x_evdropped (snapshot_before_fix (run_model lim so name0 ops)) <> x_evdropped (run_spec lim so name0 ops)) /\
  (exists lim so name0 ops, x_lkdropped (snapshot_before_fix (run_model lim so name0 ops)) <> x_lkdropped (run_spec lim so name0 ops)).
Proof. exact snapshot_before_fix_refuted. Qed.
Print Assumptions c04_snapshot_before_fix_refuted.

(** Laws of the specification (hence, by refinement, of the exported span). *)

(** Each key once; a held key carries the (truncated) value supplied last for it. *)
Theorem c04_attrs_nodup_lastwins : forall lenlim limit offers,
  NoDup (keys (fst (spec_attrs lenlim limit offers))) /\
  forall k, In k (keys (fst (spec_attrs lenlim limit offers))) ->
            lookup k (fst (spec_attrs lenlim limit offers)) = Some (trunc_value lenlim (last_val k offers)).
Proof.
  intros. split; [apply spec_attrs_nodup|]. intros k I. rewrite spec_attrs_keys in I. now apply spec_attrs_lastwins.
Qed.
Print Assumptions c04_attrs_nodup_lastwins.

(** Never more than the limit; the keys held are the first [limit] distinct
    valid keys offered, in order of first appearance (all of them when unlimited). *)
Theorem c04_attr_limit_earliest_kept : forall lenlim limit offers,
  ((0 <= limit)%Z -> (Z.of_nat (length (fst (spec_attrs lenlim limit offers))) <= limit)%Z) /\
  keys (fst (spec_attrs lenlim limit offers)) = kept_keys limit offers.
Proof. intros. split; [apply spec_attrs_len | apply spec_attrs_keys]. Qed.
Print Assumptions c04_attr_limit_earliest_kept.

(** The whole attribute map and drop counter in closed form; in particular the
    dropped count is exactly: invalid offers + offers of keys that are not held. *)
Theorem c04_dropped_exact : forall lenlim limit offers,
  spec_attrs lenlim limit offers = attrs_closed lenlim limit offers /\
  snd (spec_attrs lenlim limit offers) = dropped_count limit offers.
Proof. intros. split; [apply spec_attrs_closed | now rewrite spec_attrs_closed]. Qed.
Print Assumptions c04_dropped_exact.

(** Every string (and string-slice element) held as a span attribute value has
    at most [lenlim] characters. *)
Theorem c04_value_length : forall lenlim limit offers,
  Forall (fun a => value_within lenlim (snd a)) (fst (spec_attrs lenlim limit offers)).
Proof. exact spec_attrs_within. Qed.
Print Assumptions c04_value_length.

(** Events and links: the kept items are a suffix (the most recent ones) of
    everything offered, the dropped count is the length of the rest, nothing is
    dropped when unlimited, and with a limit [c >= 0] exactly min(c, offered)
    are kept; per item the first [limit] attributes are kept and the rest counted. *)
Theorem c04_events_links_fifo :
  (forall (A : Type) c (all : list A),
     exists pre, all = pre ++ fst (bounded c all) /\ length pre = snd (bounded c all) /\
                 ((c < 0)%Z -> pre = []) /\
                 ((0 <= c)%Z -> length (fst (bounded c all)) = Nat.min (Z.to_nat c) (length all))) /\
  (forall limit l,
     exists rest, l = fst (cap limit l) ++ rest /\ length rest = snd (cap limit l) /\
                  ((limit < 0)%Z -> rest = []) /\
                  ((0 <= limit)%Z -> length (fst (cap limit l)) = Nat.min (Z.to_nat limit) (length l))).
Proof. split; [exact @bounded_law | exact cap_law]. Qed.
Print Assumptions c04_events_links_fifo.

(** Status: the code is the maximum set (Unset 0 < Error 1 < Ok 2); the
    description is that of the last SetStatus(Error, _) when the code is Error, else empty. *)
Theorem c04_status_precedence : forall ops,
  status_of ops = (max_code (status_calls ops),
                   if max_code (status_calls ops) =? 1 then last_error_desc (status_calls ops) else []).
Proof. exact status_closed. Qed.
Print Assumptions c04_status_precedence.

(** truncate (the Go algorithm) for every byte string and every limit: equals
    its specification; and for limit >= 0: unchanged when short enough,
    otherwise exactly the first [limit] valid characters, re-decoding to those
    characters (none split, no invalid byte left), never more than [limit] characters. *)
Theorem c04_truncate : forall limit s,
  truncate limit s = truncate_spec limit s /\
  ((0 <= limit)%Z ->
   let out := truncate limit s in
   (Z.of_nat (length s) <= limit -> out = s)%Z /\
   (limit < Z.of_nat (length s) ->
      out = concat (firstn (Z.to_nat limit) (runes s)) /\
      runes out = firstn (Z.to_nat limit) (runes s))%Z /\
   Scan s (runes s) /\
   Forall (fun r => wf_rune r = true) (runes out) /\
   (rune_count out <= Z.to_nat limit)%nat).
Proof. intros. split; [apply truncate_refines | apply truncate_characterised]. Qed.
Print Assumptions c04_truncate.

(** The decoder reading is unique: [runes] is the only scan of a byte string. *)
Theorem c04_scan_unique : forall s rs, Scan s rs -> rs = runes s.
Proof. exact scan_unique. Qed.
Print Assumptions c04_scan_unique.

(** Calls made after End change nothing: the whole state (hence what the
    accessors and the exporter see) is that of the program cut after its End,
    for all limits and all start options. *)
Theorem c04_after_end_noop : forall lim so name0 ops1 ts ops2,
  run_model lim so name0 (ops1 ++ OEnd ts :: ops2) = run_model lim so name0 (ops1 ++ [OEnd ts]).
Proof. exact after_end_noop. Qed.
Print Assumptions c04_after_end_noop.

(** Start options: the span kind is validated (unknown kinds become Internal),
    the start / end instants exported are the supplied ones, and the start
    links / attributes go through AddLink / SetAttributes (by definition of
    [run_spec] via [start_ops]; the refinement theorems above cover them). *)
Theorem c04_start_options : forall lim so name0 ops,
  let x := snapshot (run_model lim so name0 ops) in
  x_kind x = kind_of (so_kind so) /\ x_start x = so_start so /\ x_end x = end_time_of ops /\
  (1 <= x_kind x <= 5).
Proof.
  intros. unfold x. rewrite snapshot_refines. cbn. repeat split; unfold kind_of;
    destruct (N.leb_spec 1 (so_kind so)), (N.leb_spec (so_kind so) 5); cbn; lia.
Qed.
Print Assumptions c04_start_options.

(** Non-vacuity: a program that exercises duplicates across the capacity
    boundary, an update when full, invalid attributes, truncation, FIFO eviction,
    status precedence and calls after End. *)
Definition ex_lim : limits :=
  {| lim_len := 2; lim_attrs := 2; lim_events := 1; lim_links := 1; lim_evattrs := 1; lim_lkattrs := 0 |}.
Definition ex_ops : list op :=
  [OSetAttrs [(str "a", VInt 1); (str "a", VStr (hx "68c3a96c6c6f"))];
   OSetAttrs [(str "b", VInt 3); (str "c", VInt 4); (str "a", VStr (hx "ff616263")); ([], VInt 0); (str "z", VInvalid)];
   OSetStatus 1 (str "d1"); OSetStatus 0 (str "x"); OSetStatus 1 (str "d2");
   OAddEvent (str "e1") 5 [(str "k", VInt 1); (str "k", VInt 2)]; ORecordError (str "T") (str "boom") 6 [] false; ORead;
   OAddLink 0 false []; OAddLink 1 false [(str "k", VInt 1)]; OAddLink 2 true [];
   OSetName (str "n2"); OEnd 77; OSetName (str "late"); OSetAttrs [(str "b", VInt 9)]; OSetStatus 2 []; OEnd 99].
Definition ex_so : start_opts :=
  {| so_sattrs := [(str "b", VInvalid)]; so_attrs := [(str "a", VInt 0); (str "s", VInvalid)]; so_links := [(0, false, []); (5, false, [(str "k", VInt 1)])];
     so_start := 11; so_kind := 9 |}.
Example ex_run :
  run_spec ex_lim ex_so (str "n") ex_ops =
  {| x_name := str "n2"; x_status := (1, str "d2");
     x_attrs := [(str "a", VStr (str "ab")); (str "b", VInt 3)]; x_dropped := 5;
     x_events := [{| e_name := str "exception"; e_time := 6; e_attrs := [(str "exception.type", VStr (str "T"))]; e_dropped := 1 |}];
     x_evdropped := 1;
     x_links := [{| l_ctx := 2; l_ts := true; l_attrs := []; l_dropped := 0 |}]; x_lkdropped := 2;
     x_kind := 1; x_start := 11; x_end := 77 |} /\
  snapshot (run_model ex_lim ex_so (str "n") ex_ops) = run_spec ex_lim ex_so (str "n") ex_ops.
Proof. vm_compute. split; reflexivity. Qed.
Example ex_panic_end :
  exports_spec ex_lim no_start (str "n")
    [OSetAttrs [(str "a", VInt 1)]; OEndPanic (str ".string") (str "boom") true 7; OAddEvent (str "late") 1 []; OEnd 9] =
  [{| x_name := str "n"; x_status := (0, []); x_attrs := [(str "a", VInt 1)]; x_dropped := 0;
      x_events := [{| e_name := str "exception"; e_time := 0; e_attrs := [(str "exception.type", VStr (str ".string"))]; e_dropped := 2 |}];
      x_evdropped := 0; x_links := []; x_lkdropped := 0; x_kind := 1; x_start := 0; x_end := 7 |}] /\
  exports_spec ex_lim no_start (str "n") [OSetName (str "x")] = [].
Proof. vm_compute. split; reflexivity. Qed.
Example ex_limit0 :
  x_evdropped (snapshot (run_model lim_ev0 no_start (str "s") [OAddEvent (str "e") 1 []; OAddEvent (str "e") 2 []; OEnd 0])) = 2%nat /\
  x_lkdropped (snapshot (run_model lim_lk0 no_start (str "s") [OAddLink 1 false []; OEnd 0])) = 1%nat.
Proof. vm_compute. split; reflexivity. Qed.
Example ex_keys : kept_keys 2 (offers_of (start_ops ex_so ++ before_end ex_ops)) = [str "a"; str "b"] /\
                  dropped_count 2 (offers_of (start_ops ex_so ++ before_end ex_ops)) = 5%nat.
Proof. vm_compute. split; reflexivity. Qed.
