From Verif Require Import Lib.Base Lib.Utf8 C04.Spec C04.Model C04.Proofs.
Theorem c04_truncate : forall limit s, truncate limit s = truncate_spec limit s.
Proof. exact truncate_refines. Qed.
Print Assumptions c04_truncate.
