(** C04 proofs: the model of span.go refines the ordered-map / bounded-FIFO
    specification for every limit and every call sequence; laws of the
    specification. *)
From Verif Require Import Lib.Base Lib.Utf8 C04.Spec C04.Model.
From Coq Require Import ZifyBool ZifyNat ZifyN.
Open Scope N_scope.

(** * Keys, lookup, update *)

Lemma has_key_in k m : has_key k m = true <-> In k (keys m).
Proof.
  induction m as [|[k' v'] m IH]; cbn; [split; [discriminate | tauto]|].
  rewrite orb_true_iff, bytes_eqb_eq, IH. tauto.
Qed.

Lemma has_key_false k m : has_key k m = false <-> ~ In k (keys m).
Proof. rewrite <- has_key_in. destruct (has_key k m); split; congruence. Qed.

Lemma find_key_none k l : find_key k l = None <-> has_key k l = false.
Proof.
  induction l as [|[k' v'] l IH]; cbn; [tauto|].
  destruct (bytes_eqb k' k); cbn; [split; discriminate|].
  destruct (find_key k l); split; intro H; try discriminate; try reflexivity.
  - apply IH in H. discriminate.
  - now apply IH.
Qed.

Lemma find_key_set k v : forall l i, find_key k l = Some i -> set_nth i (k, v) l = set_key k v l /\ has_key k l = true.
Proof.
  induction l as [|[k' v'] l IH]; cbn; intros i H; [discriminate|].
  destruct (bytes_eqb k' k) eqn:E; cbn.
  - injection H as <-. now split.
  - destruct (find_key k l) as [j|]; [|discriminate]. injection H as <-. cbn.
    destruct (IH j eq_refl) as [H1 H2]. now rewrite H1, H2.
Qed.

Lemma keys_set_key k v m : keys (set_key k v m) = keys m.
Proof.
  unfold keys. induction m as [|[k' v'] m IH]; cbn; [reflexivity|].
  destruct (bytes_eqb k' k) eqn:E; cbn.
  - apply bytes_eqb_eq in E. now subst.
  - now rewrite IH.
Qed.

Lemma length_set_key k v m : length (set_key k v m) = length m.
Proof.
  induction m as [|[k' v'] m IH]; cbn; [reflexivity|].
  destruct (bytes_eqb k' k); cbn; [reflexivity | now rewrite IH].
Qed.

Lemma keys_app a b : keys (a ++ b) = keys a ++ keys b.
Proof. apply map_app. Qed.

(** The map update the property names: replace the value of a held key, or append. *)
Definition upsert (m : list kv) (a : kv) : list kv :=
  if has_key (fst a) m then set_key (fst a) (snd a) m else m ++ [a].

Lemma dedupe_step_upsert u a : dedupe_step u a = upsert u a.
Proof.
  unfold dedupe_step, upsert. destruct a as [k v]. cbn [fst snd].
  destruct (find_key k u) as [i|] eqn:F.
  - destruct (find_key_set k v u i F) as [H1 H2]. now rewrite H1, H2.
  - apply find_key_none in F. now rewrite F.
Qed.

Lemma fold_dedupe_upsert l : forall u, fold_left dedupe_step l u = fold_left upsert l u.
Proof. induction l as [|a l IH]; intro u; cbn; [reflexivity|]. now rewrite dedupe_step_upsert, IH. Qed.

Lemma dedupe_app l l' : dedupe (l ++ l') = fold_left upsert l' (dedupe l).
Proof. unfold dedupe. now rewrite fold_left_app, fold_dedupe_upsert. Qed.

Lemma dedupe_snoc l a : dedupe (l ++ [a]) = upsert (dedupe l) a.
Proof. now rewrite dedupe_app. Qed.

Lemma NoDup_snoc {A} (l : list A) x : NoDup l -> ~ In x l -> NoDup (l ++ [x]).
Proof.
  induction 1 as [|y l Hy Hl IH]; intro Hx; cbn.
  - constructor; [tauto | constructor].
  - constructor.
    + rewrite in_app_iff. cbn. intros [H|[H|[]]]; [tauto|]. subst. apply Hx. now left.
    + apply IH. intro. apply Hx. now right.
Qed.

Lemma upsert_nodup u a : NoDup (keys u) -> NoDup (keys (upsert u a)).
Proof.
  unfold upsert. intro H. destruct (has_key (fst a) u) eqn:E.
  - now rewrite keys_set_key.
  - rewrite keys_app. cbn. apply has_key_false in E. now apply NoDup_snoc.
Qed.

Lemma fold_upsert_nodup l : forall u, NoDup (keys u) -> NoDup (keys (fold_left upsert l u)).
Proof. induction l as [|a l IH]; intros u H; cbn; [exact H|]. apply IH. now apply upsert_nodup. Qed.

Lemma dedupe_nodup l : NoDup (keys (dedupe l)).
Proof. unfold dedupe. rewrite fold_dedupe_upsert. apply fold_upsert_nodup. constructor. Qed.

Lemma upsert_length u a : (length (upsert u a) <= S (length u))%nat.
Proof.
  unfold upsert. destruct (has_key (fst a) u).
  - rewrite length_set_key. lia.
  - rewrite app_length. cbn. lia.
Qed.

Lemma fold_upsert_length l : forall u, (length (fold_left upsert l u) <= length u + length l)%nat.
Proof.
  induction l as [|a l IH]; intro u; cbn; [lia|].
  specialize (IH (upsert u a)). pose proof (upsert_length u a). lia.
Qed.

Lemma dedupe_length l : (length (dedupe l) <= length l)%nat.
Proof. unfold dedupe. rewrite fold_dedupe_upsert. apply (fold_upsert_length l []). Qed.

Lemma NoDup_app_l {A} (a b : list A) : NoDup (a ++ b) -> NoDup a.
Proof.
  induction a as [|x a IH]; cbn; intro H; [constructor|].
  inversion H; subst. constructor; [rewrite in_app_iff in *; tauto | auto].
Qed.

Lemma fold_upsert_nodup_id m : forall acc, NoDup (keys (acc ++ m)) -> fold_left upsert m acc = acc ++ m.
Proof.
  induction m as [|a m IH]; intros acc H; cbn; [now rewrite app_nil_r|].
  assert (E : has_key (fst a) acc = false).
  { apply has_key_false. intro Hin. rewrite keys_app in H. cbn in H.
    apply NoDup_remove_2 in H. apply H. rewrite in_app_iff. now left. }
  unfold upsert at 2. rewrite E.
  replace (acc ++ a :: m) with ((acc ++ [a]) ++ m) in * by (now rewrite <- app_assoc).
  now apply IH.
Qed.

Lemma dedupe_nodup_id m : NoDup (keys m) -> dedupe m = m.
Proof. intro H. unfold dedupe. rewrite fold_dedupe_upsert. now apply (fold_upsert_nodup_id m []). Qed.

(** * truncateAttr implements the value truncation of the specification *)

Lemma map_truncate_unlimited lim l : (lim < 0)%Z -> map (truncate_spec lim) l = l.
Proof.
  intro H. induction l as [|s l IH]; cbn; [reflexivity|]. rewrite IH. f_equal.
  rewrite <- truncate_refines. now apply truncate_unlimited.
Qed.

Lemma truncate_attr_eq lim a : truncate_attr lim a = (fst a, trunc_value lim (snd a)).
Proof.
  unfold truncate_attr. destruct a as [k v]. cbn [fst snd].
  destruct (Z.ltb_spec lim 0) as [H|H].
  - destruct v; cbn; try reflexivity.
    + now rewrite <- truncate_refines, truncate_unlimited.
    + now rewrite map_truncate_unlimited.
  - destruct v; cbn; try reflexivity.
    + now rewrite truncate_refines.
    + f_equal. f_equal. apply map_ext. intro. apply truncate_refines.
Qed.

(** * Attributes: the two SetAttributes paths against bounded insertion *)

Section Attrs.
  Variables lenlim limit : Z.

  Notation offer := (offer lenlim limit).

  Lemma offer_valid m d a : valid a = true ->
    offer (m, d) a = if has_key (fst a) m || room limit (length m)
                     then (upsert m (fst a, trunc_value lenlim (snd a)), d) else (m, S d).
  Proof.
    intro V. unfold Spec.offer, upsert. rewrite V. cbn [negb fst snd].
    destruct (has_key (fst a) m); cbn [orb]; [reflexivity|]. now destruct (room limit (length m)).
  Qed.

  Lemma offer_invalid m d a : valid a = false -> offer (m, d) a = (m, S d).
  Proof. intro V. unfold Spec.offer. now rewrite V. Qed.

  Lemma offer_nodup st a : NoDup (keys (fst st)) -> NoDup (keys (fst (offer st a))).
  Proof.
    destruct st as [m d]. cbn [fst]. intro H. destruct (valid a) eqn:V.
    - rewrite offer_valid by exact V. destruct (_ || _); cbn [fst]; [now apply upsert_nodup | exact H].
    - now rewrite offer_invalid.
  Qed.

  Lemma fold_offer_nodup l : forall st, NoDup (keys (fst st)) -> NoDup (keys (fst (fold_left offer l st))).
  Proof. induction l as [|a l IH]; intros st H; cbn; [exact H|]. apply IH. now apply offer_nodup. Qed.

  Lemma offer_len st a : (0 <= limit)%Z -> (Z.of_nat (length (fst st)) <= limit)%Z ->
    (Z.of_nat (length (fst (offer st a))) <= limit)%Z.
  Proof.
    destruct st as [m d]. cbn [fst]. intros H0 H. destruct (valid a) eqn:V.
    - rewrite offer_valid by exact V. unfold upsert. cbn [fst snd].
      destruct (has_key (fst a) m) eqn:E; cbn [orb fst].
      + now rewrite length_set_key.
      + unfold room. destruct (_ || _) eqn:R; cbn [fst]; [|exact H].
        rewrite app_length. cbn. lia.
    - now rewrite offer_invalid.
  Qed.

  Lemma fold_offer_len l : forall st, (0 <= limit)%Z -> (Z.of_nat (length (fst st)) <= limit)%Z ->
    (Z.of_nat (length (fst (fold_left offer l st))) <= limit)%Z.
  Proof. induction l as [|a l IH]; intros st H0 H; cbn; [exact H|]. apply IH; [exact H0|]. now apply offer_len. Qed.

  (** Fast path: appending blindly and de-duplicating later is bounded
      insertion, as long as the raw slice cannot outgrow the limit. *)
  Lemma plain_sim attrs : forall l d,
    ((limit < 0)%Z \/ (Z.of_nat (length l + length attrs) <= limit)%Z) ->
    let r := fold_left (add_plain lenlim) attrs (l, d) in
    fold_left offer attrs (dedupe l, d) = (dedupe (fst r), snd r) /\
    (length (fst r) <= length l + length attrs)%nat.
  Proof.
    induction attrs as [|a attrs IH]; intros l d H; cbn [fold_left]; cbv zeta.
    - cbn. split; [reflexivity | lia].
    - cbn [length] in *. destruct (valid a) eqn:V.
      + assert (E : add_plain lenlim (l, d) a = (l ++ [(fst a, trunc_value lenlim (snd a))], d)).
        { unfold add_plain. now rewrite V, truncate_attr_eq. }
        rewrite E. rewrite offer_valid by exact V.
        assert (R : has_key (fst a) (dedupe l) || room limit (length (dedupe l)) = true).
        { apply orb_true_iff. right. unfold room. pose proof (dedupe_length l). lia. }
        rewrite R. rewrite <- dedupe_snoc.
        destruct (IH (l ++ [(fst a, trunc_value lenlim (snd a))]) d) as [H1 H2].
        { rewrite app_length. cbn [length]. lia. }
        cbv zeta in H1, H2. split; [exact H1|]. rewrite app_length in H2. cbn [length] in H2. lia.
      + assert (E : add_plain lenlim (l, d) a = (l, S d)).
        { unfold add_plain. now rewrite V. }
        rewrite E. rewrite offer_invalid by exact V.
        destruct (IH l (S d)) as [H1 H2]; [lia|]. cbv zeta in H1, H2. split; [exact H1 | lia].
  Qed.

  (** Over-capacity path: after de-duplication the loop is bounded insertion itself. *)
  Lemma overcap_offer st a : (0 < limit)%Z -> add_overcap lenlim (Z.to_nat limit) st a = offer st a.
  Proof.
    intro H. destruct st as [m d]. unfold add_overcap. destruct (valid a) eqn:V; cbn [negb].
    - rewrite offer_valid by exact V. rewrite truncate_attr_eq. unfold upsert. cbn [fst snd].
      destruct (find_key (fst a) m) as [i|] eqn:F.
      + destruct (find_key_set (fst a) (trunc_value lenlim (snd a)) m i F) as [H1 H2]. now rewrite H1, H2.
      + apply find_key_none in F. rewrite F. cbn [orb]. unfold room.
        destruct (Nat.leb_spec (Z.to_nat limit) (length m));
          destruct ((limit <? 0)%Z || (Z.of_nat (length m) <? limit)%Z) eqn:R; try reflexivity; lia.
    - now rewrite offer_invalid.
  Qed.

  Lemma fold_overcap_offer attrs : (0 < limit)%Z -> forall st,
    fold_left (add_overcap lenlim (Z.to_nat limit)) attrs st = fold_left offer attrs st.
  Proof. intro H. induction attrs as [|a attrs IH]; intro st; cbn; [reflexivity|]. now rewrite overcap_offer, IH. Qed.

  (** Limit 0: everything offered is dropped. *)
  Lemma offer_zero attrs : limit = 0%Z -> forall d,
    fold_left offer attrs ([], d) = ([], (d + length attrs)%nat).
  Proof.
    intro H. induction attrs as [|a attrs IH]; intro d; cbn [fold_left length]; [f_equal; lia|].
    assert (E : offer ([], d) a = ([], S d)).
    { destruct (valid a) eqn:V; [|now apply offer_invalid]. rewrite offer_valid by exact V.
      cbn. unfold room. subst limit. reflexivity. }
    rewrite E, IH. f_equal. lia.
  Qed.
End Attrs.

(** The simulation invariant for attributes: de-duplicating the raw slice
    gives the specification's map, the drop counters agree, and the raw slice
    never outgrows a non-negative limit. *)
Definition AInv (lim : limits) (l : list kv) (d : nat) (offers : list kv) : Prop :=
  (dedupe l, d) = spec_attrs (lim_len lim) (lim_attrs lim) offers /\
  ((0 <= lim_attrs lim)%Z -> (Z.of_nat (length l) <= lim_attrs lim)%Z).

Lemma spec_attrs_app lenlim limit a b :
  spec_attrs lenlim limit (a ++ b) = fold_left (offer lenlim limit) b (spec_attrs lenlim limit a).
Proof. unfold spec_attrs. apply fold_left_app. Qed.

Lemma set_attributes_sim lim attrs l d offers :
  AInv lim l d offers ->
  AInv lim (fst (set_attributes lim attrs l d)) (snd (set_attributes lim attrs l d)) (offers ++ attrs).
Proof.
  intros [H1 H2]. unfold AInv. rewrite spec_attrs_app, <- H1. unfold set_attributes.
  destruct attrs as [|a0 attrs0] eqn:EA; [cbn; now split|]. rewrite <- EA. clear EA a0 attrs0.
  destruct (Z.eqb_spec (lim_attrs lim) 0) as [Z0|Z0].
  - assert (l = []) as -> by (destruct l; [reflexivity | cbn in H2; lia]).
    cbn [fst snd]. change (dedupe []) with (@nil kv).
    rewrite offer_zero by exact Z0. split; [reflexivity | intros _; cbn; lia].
  - destruct ((0 <? lim_attrs lim)%Z && (lim_attrs lim <? Z.of_nat (length l + length attrs))%Z) eqn:C.
    + assert (P : (0 < lim_attrs lim)%Z) by lia.
      rewrite fold_overcap_offer by exact P.
      set (r := fold_left (offer (lim_len lim) (lim_attrs lim)) attrs (dedupe l, d)).
      assert (N : NoDup (keys (fst r))) by (apply fold_offer_nodup; cbn; apply dedupe_nodup).
      split.
      * rewrite dedupe_nodup_id by exact N. now destruct r.
      * intros _. apply fold_offer_len; [lia|]. cbn [fst]. pose proof (dedupe_length l). lia.
    + destruct (plain_sim (lim_len lim) (lim_attrs lim) attrs l d) as [P1 P2]; [lia|].
      cbv zeta in *. rewrite P1. split; [reflexivity|]. intro. lia.
Qed.

(** * Events and links: evictedQueue against "the most recent [limit]" *)

Lemma lastn_all {A} n (l : list A) : (length l <= n)%nat -> lastn n l = l.
Proof. intro H. unfold lastn. now replace (length l - n)%nat with 0%nat by lia. Qed.

Lemma lastn_length {A} n (l : list A) : length (lastn n l) = Nat.min n (length l).
Proof. unfold lastn. rewrite skipn_length. lia. Qed.

Lemma lastn_0 {A} (l : list A) : lastn 0 l = [].
Proof. unfold lastn. rewrite Nat.sub_0_r. apply skipn_all. Qed.

Lemma skipn_S_tl {A} n : forall (l : list A), skipn (S n) l = tl (skipn n l).
Proof. induction n as [|n IH]; intros [|x l]; try reflexivity. cbn [skipn] in *. now rewrite <- IH. Qed.

Lemma lastn_snoc_full {A} n (l : list A) v : (0 < n <= length l)%nat ->
  lastn n (l ++ [v]) = tl (lastn n l) ++ [v].
Proof.
  intro H. unfold lastn. rewrite app_length. cbn [length].
  replace (length l + 1 - n)%nat with (S (length l - n)) by lia.
  rewrite skipn_app. rewrite (skipn_S_tl _ l).
  replace (S (length l - n) - length l)%nat with 0%nat by lia. reflexivity.
Qed.

Lemma eq_add_bounded {A} c (all : list A) v :
  eq_add c (fst (bounded c all)) (snd (bounded c all)) v = bounded c (all ++ [v]).
Proof.
  unfold eq_add, bounded. cbn [fst snd].
  destruct (Z.eqb_spec c 0) as [C0|C0].
  - subst c. cbn [Z.ltb Z.compare Z.to_nat]. rewrite !lastn_0. cbn [length]. rewrite app_length. cbn [length]. f_equal. lia.
  - destruct (Z.ltb_spec c 0) as [Cn|Cn].
    + replace ((0 <? c)%Z) with false by lia. cbn [andb]. rewrite app_length. cbn [length]. f_equal. lia.
    + replace ((0 <? c)%Z) with true by lia. cbn [andb].
      destruct (Z.eqb_spec (Z.of_nat (length (lastn (Z.to_nat c) all))) c) as [F|F].
      * rewrite lastn_length in F.
        rewrite lastn_snoc_full by lia. f_equal.
        rewrite !app_length, !lastn_length. cbn [length].
        assert (L : length (tl (lastn (Z.to_nat c) all)) = (Z.to_nat c - 1)%nat).
        { pose proof (lastn_length (Z.to_nat c) all). destruct (lastn (Z.to_nat c) all); cbn in *; lia. }
        rewrite L. lia.
      * rewrite lastn_length in F.
        rewrite (lastn_all _ all) by lia. rewrite (lastn_all _ (all ++ [v])) by (rewrite app_length; cbn; lia).
        f_equal. rewrite app_length. cbn. lia.
Qed.

Lemma cap_attrs_cap limit attrs : cap_attrs limit attrs = cap limit attrs.
Proof.
  unfold cap_attrs, cap. destruct (Z.eqb_spec limit 0) as [C0|C0].
  - subst. cbn. f_equal. lia.
  - destruct (Z.ltb_spec limit 0) as [Cn|Cn].
    + replace ((0 <? limit)%Z) with false by lia. cbn [andb]. f_equal. lia.
    + replace ((0 <? limit)%Z) with true by lia. cbn [andb].
      destruct (Z.ltb_spec limit (Z.of_nat (length attrs))) as [F|F].
      * f_equal. rewrite firstn_length. lia.
      * rewrite firstn_all2 by lia. f_equal. lia.
Qed.

(** * The whole span *)

Definition no_end (o : op) : Prop := is_end o = false.

Lemma before_end_no_end ops : Forall no_end (before_end ops).
Proof.
  induction ops as [|o ops IH]; cbn; [constructor|].
  destruct o; try (constructor; [reflexivity | exact IH]); repeat constructor.
Qed.

(** The instant of the first End, if the program ends the span. *)
Fixpoint first_end (ops : list op) : option N :=
  match ops with [] => None | OEnd ts :: _ => Some ts | OEndPanic _ _ _ ts :: _ => Some ts | _ :: r => first_end r end.

Lemma end_time_first_end ops : end_time_of ops = match first_end ops with Some ts => ts | None => 0 end.
Proof. induction ops as [|o ops IH]; [reflexivity|]. destruct o; cbn; try exact IH; reflexivity. Qed.

Lemma step_ended lim s o : m_ended s = true -> step lim s o = s.
Proof. intro H. unfold step. now rewrite H. Qed.

Lemma run_ended lim ops : forall s, m_ended s = true -> fold_left (step lim) ops s = s.
Proof. induction ops as [|o ops IH]; intros s H; cbn; [reflexivity|]. rewrite step_ended by exact H. now apply IH. Qed.

Lemma step_keeps_recording lim s o : m_ended s = false -> is_end o = false -> m_ended (step lim s o) = false.
Proof.
  intros H Ho. unfold step. rewrite H.
  destruct o; try discriminate; cbn.
  - destruct (set_attributes lim kvs (m_attrs s) (m_dropped s)). reflexivity.
  - unfold add_event. destruct (cap_attrs _ _). destruct (eq_add _ _ _ _). cbn. exact H.
  - unfold add_event. destruct (cap_attrs _ _). destruct (eq_add _ _ _ _). cbn. exact H.
  - unfold add_link. destruct (_ && _); [exact H|]. destruct (cap_attrs _ _). destruct (eq_add _ _ _ _). cbn. exact H.
  - unfold set_status. destruct (_ <? _); cbn; exact H.
  - reflexivity.
  - reflexivity.
Qed.

Lemma run_before_end lim ops : forall s, m_ended s = false ->
  fold_left (step lim) ops s =
  match first_end ops with
  | Some ts => set_ended (fold_left (step lim) (before_end ops) s) ts
  | None => fold_left (step lim) (before_end ops) s
  end.
Proof.
  induction ops as [|o ops IH]; intros s H; [reflexivity|].
  destruct o; try (cbn [fold_left before_end first_end]; apply IH; apply step_keeps_recording; [exact H | reflexivity]).
  - cbn [fold_left before_end first_end]. unfold step at 2. rewrite H. now apply run_ended.
  - cbn [fold_left before_end first_end]. unfold step at 2 3. rewrite H. now apply run_ended.
Qed.

Lemma start_ops_no_end so : Forall no_end (start_ops so).
Proof.
  unfold start_ops. apply Forall_app. split; [|repeat constructor].
  apply Forall_forall. intros o Ho. apply in_map_iff in Ho as ([[c t] a] & <- & _). reflexivity.
Qed.

Lemma before_end_app_no_end l ops : Forall no_end l -> before_end (l ++ ops) = l ++ before_end ops.
Proof.
  induction 1 as [|o l Ho _ IH]; [reflexivity|]. cbn [app]. destruct o; cbn [before_end]; try (now rewrite IH); discriminate.
Qed.

Lemma first_end_app_no_end l ops : Forall no_end l -> first_end (l ++ ops) = first_end ops.
Proof.
  induction 1 as [|o l Ho _ IH]; [reflexivity|]. cbn [app]. destruct o; cbn [first_end]; try exact IH; discriminate.
Qed.

Lemma validate_kind_eq k : validate_kind k = kind_of k.
Proof.
  unfold validate_kind, kind_of.
  destruct (N.eqb_spec k 1), (N.eqb_spec k 2), (N.eqb_spec k 3), (N.eqb_spec k 4), (N.eqb_spec k 5);
    cbn [orb]; destruct (N.leb_spec 1 k), (N.leb_spec k 5); cbn [andb]; try reflexivity; lia.
Qed.

Ltac finish :=
  repeat split; try assumption;
  match goal with H : AInv _ _ _ _ |- _ => now destruct H end.

Section Span.
  Variable lim : limits.
  Variable so : start_opts.
  Variable name0 : bytes.

  Definition Inv (l : list op) (s : mstate) : Prop :=
    m_ended s = false /\
    m_name s = name_of name0 l /\
    m_status s = status_of l /\
    AInv lim (m_attrs s) (m_dropped s) (offers_of l) /\
    (m_events s, m_evdropped s) = bounded (lim_events lim) (events_of lim l) /\
    (m_links s, m_lkdropped s) = bounded (lim_links lim) (links_of lim l) /\
    m_meta s = (kind_of (so_kind so), so_start so, 0) /\
    m_exported s = [].

  Lemma inv_init : Inv [] (init so name0).
  Proof.
    unfold Inv, AInv, init. cbn [m_ended m_name m_status m_attrs m_dropped m_events m_evdropped m_links m_lkdropped m_meta m_exported].
    rewrite validate_kind_eq. repeat split; try reflexivity.
    - intro. cbn. lia.
    - unfold bounded. cbn. destruct (lim_events lim <? 0)%Z; reflexivity.
    - unfold bounded. cbn. destruct (lim_links lim <? 0)%Z; reflexivity.
  Qed.

  Lemma name_of_snoc l o : name_of name0 (l ++ [o]) = match o with OSetName x => x | _ => name_of name0 l end.
  Proof. unfold name_of. now rewrite fold_left_app. Qed.
  Lemma status_of_snoc l o :
    status_of (l ++ [o]) = match o with OSetStatus c d => status_step (status_of l) c d | _ => status_of l end.
  Proof. unfold status_of. now rewrite fold_left_app. Qed.
  Lemma offers_of_snoc l o : offers_of (l ++ [o]) = offers_of l ++ match o with OSetAttrs a => a | _ => [] end.
  Proof. unfold offers_of. rewrite flat_map_app. cbn. now rewrite app_nil_r. Qed.
  Lemma events_of_snoc l o :
    events_of lim (l ++ [o]) = events_of lim l ++
      match o with
      | OAddEvent n t a => [mk_event lim n t a]
      | ORecordError typ msg t a st => [mk_event lim (str "exception") t (a ++ exc_all typ msg st)]
      | _ => []
      end.
  Proof. unfold events_of. rewrite flat_map_app. cbn. now rewrite app_nil_r. Qed.
  Lemma links_of_snoc l o :
    links_of lim (l ++ [o]) = links_of lim l ++
      match o with
      | OAddLink c ts a => if link_counts c ts a then [mk_link lim c ts a] else []
      | _ => []
      end.
  Proof. unfold links_of. rewrite flat_map_app. cbn. now rewrite app_nil_r. Qed.

  Lemma add_event_inv l s name ts attrs o :
    events_of lim (l ++ [o]) = events_of lim l ++ [mk_event lim name ts attrs] ->
    name_of name0 (l ++ [o]) = name_of name0 l -> status_of (l ++ [o]) = status_of l ->
    offers_of (l ++ [o]) = offers_of l ++ [] -> links_of lim (l ++ [o]) = links_of lim l ++ [] ->
    Inv l s -> Inv (l ++ [o]) (add_event lim s name ts attrs).
  Proof.
    intros He Hn Hs Ho Hl (I1 & I2 & I3 & I4 & I5 & I6 & I7 & I8). unfold Inv, add_event.
    rewrite cap_attrs_cap. unfold mk_event in He. destruct (cap (lim_evattrs lim) attrs) as [k dr].
    pose proof (eq_add_bounded (lim_events lim) (events_of lim l)
                  {| e_name := name; e_time := ts; e_attrs := k; e_dropped := dr |}) as B.
    rewrite <- I5 in B. cbn [fst snd] in B. rewrite B. rewrite <- He.
    destruct (bounded (lim_events lim) (events_of lim (l ++ [o]))) as [q d].
    cbn [m_ended m_name m_status m_attrs m_dropped m_events m_evdropped m_links m_lkdropped m_meta m_exported].
    rewrite Hn, Hs, Ho, Hl, !app_nil_r. finish.
  Qed.

  Lemma inv_step l s o : is_end o = false -> Inv l s -> Inv (l ++ [o]) (step lim s o).
  Proof.
    intros Hne I. pose proof I as (I1 & I2 & I3 & I4 & I5 & I6 & I7 & I8). unfold step. rewrite I1.
    destruct o as [kvs|name ts kvs|typ msg ts kvs stk|ctx hts kvs|code desc|name| |ts|typ msg stk ts]; [| | | | | | |discriminate|discriminate].
    - (* SetAttributes *)
      pose proof (set_attributes_sim lim kvs _ _ _ I4) as A.
      destruct (set_attributes lim kvs (m_attrs s) (m_dropped s)) as [l' d']. cbn [fst snd] in A.
      unfold Inv. cbn [m_ended m_name m_status m_attrs m_dropped m_events m_evdropped m_links m_lkdropped m_meta m_exported].
      rewrite name_of_snoc, status_of_snoc, offers_of_snoc, events_of_snoc, links_of_snoc, !app_nil_r.
      finish.
    - (* AddEvent *)
      apply add_event_inv; try assumption.
      + now rewrite events_of_snoc.
      + now rewrite name_of_snoc.
      + now rewrite status_of_snoc.
      + now rewrite offers_of_snoc.
      + now rewrite links_of_snoc.
    - (* RecordError *)
      apply add_event_inv; try assumption.
      + now rewrite events_of_snoc.
      + now rewrite name_of_snoc.
      + now rewrite status_of_snoc.
      + now rewrite offers_of_snoc.
      + now rewrite links_of_snoc.
    - (* AddLink *)
      unfold add_link.
      assert (C : (ctx =? 0) && (match kvs with [] => true | _ :: _ => false end) && negb hts = negb (link_counts ctx hts kvs)).
      { unfold link_counts. destruct (ctx =? 0), kvs, hts; reflexivity. }
      rewrite C. unfold Inv.
      rewrite name_of_snoc, status_of_snoc, offers_of_snoc, events_of_snoc, links_of_snoc, !app_nil_r.
      destruct (link_counts ctx hts kvs); cbn [negb].
      + rewrite cap_attrs_cap. unfold mk_link. destruct (cap (lim_lkattrs lim) kvs) as [k dr].
        pose proof (eq_add_bounded (lim_links lim) (links_of lim l)
                      {| l_ctx := ctx; l_ts := hts; l_attrs := k; l_dropped := dr |}) as B.
        rewrite <- I6 in B. cbn [fst snd] in B. rewrite B.
        destruct (bounded (lim_links lim) (links_of lim l ++ _)) as [q d].
        cbn [m_ended m_name m_status m_attrs m_dropped m_events m_evdropped m_links m_lkdropped m_meta m_exported].
        finish.
      + rewrite app_nil_r. finish.
    - (* SetStatus *)
      unfold set_status, Inv.
      rewrite name_of_snoc, status_of_snoc, offers_of_snoc, events_of_snoc, links_of_snoc, !app_nil_r.
      unfold status_step. rewrite <- I3.
      destruct (code <? fst (m_status s));
        cbn [m_ended m_name m_status m_attrs m_dropped m_events m_evdropped m_links m_lkdropped m_meta m_exported];
        finish.
    - (* SetName *)
      unfold Inv.
      rewrite name_of_snoc, status_of_snoc, offers_of_snoc, events_of_snoc, links_of_snoc, !app_nil_r.
      cbn [m_ended m_name m_status m_attrs m_dropped m_events m_evdropped m_links m_lkdropped m_meta m_exported].
      finish.
    - (* a read of the live span: the raw slice is de-duplicated in place, nothing observable changes *)
      unfold Inv.
      rewrite name_of_snoc, status_of_snoc, offers_of_snoc, events_of_snoc, links_of_snoc, !app_nil_r.
      cbn [m_ended m_name m_status m_attrs m_dropped m_events m_evdropped m_links m_lkdropped m_meta m_exported].
      assert (A : AInv lim (dedupe (m_attrs s)) (m_dropped s) (offers_of l)).
      { destruct I4 as [A1 A2]. split.
        - rewrite dedupe_nodup_id by apply dedupe_nodup. exact A1.
        - intro H. specialize (A2 H). pose proof (dedupe_length (m_attrs s)). lia. }
      repeat split; try assumption; now destruct A.
  Qed.

  Lemma inv_run l : Forall no_end l -> Inv l (fold_left (step lim) l (init so name0)).
  Proof.
    induction l as [|o l IH] using rev_ind; intro F; [apply inv_init|].
    rewrite fold_left_app. cbn [fold_left]. apply Forall_app in F as [F1 F2].
    apply inv_step; [inversion F2; assumption | now apply IH].
  Qed.

  (** End only marks the span ended and stores the instant. *)
  Definition with_end (x : export) (ts : N) : export :=
    {| x_name := x_name x; x_status := x_status x; x_attrs := x_attrs x; x_dropped := x_dropped x;
       x_events := x_events x; x_evdropped := x_evdropped x; x_links := x_links x; x_lkdropped := x_lkdropped x;
       x_kind := x_kind x; x_start := x_start x; x_end := ts |}.

  Lemma live_set_ended s ts : live (set_ended s ts) = with_end (live s) ts.
  Proof. reflexivity. Qed.

  Lemma inv_live l s : Inv l s -> live s =
    (let a := spec_attrs (lim_len lim) (lim_attrs lim) (offers_of l) in
     let e := bounded (lim_events lim) (events_of lim l) in
     let k := bounded (lim_links lim) (links_of lim l) in
     {| x_name := name_of name0 l; x_status := status_of l; x_attrs := fst a; x_dropped := snd a;
        x_events := fst e; x_evdropped := snd e; x_links := fst k; x_lkdropped := snd k;
        x_kind := kind_of (so_kind so); x_start := so_start so; x_end := 0 |}).
  Proof.
    intros (I1 & I2 & I3 & [I4 _] & I5 & I6 & I7 & I8). unfold live. cbv zeta.
    rewrite <- I4, <- I5, <- I6, I2, I3, I7. reflexivity.
  Qed.

  (** The span read back through its accessors after any start options and
      any call sequence is what the specification says, for all limits. *)
  Theorem live_refines ops : live (run_model lim so name0 ops) = run_spec lim so name0 ops.
  Proof.
    unfold run_model. rewrite run_before_end by reflexivity.
    rewrite (first_end_app_no_end _ _ (start_ops_no_end so)), (before_end_app_no_end _ _ (start_ops_no_end so)).
    assert (I : Inv (start_ops so ++ before_end ops)
                    (fold_left (step lim) (start_ops so ++ before_end ops) (init so name0))).
    { apply inv_run. apply Forall_app. split; [apply start_ops_no_end | apply before_end_no_end]. }
    apply inv_live in I. unfold run_spec. rewrite end_time_first_end.
    destruct (first_end ops) as [ts|]; [rewrite live_set_ended|]; rewrite I; reflexivity.
  Qed.

  (** snapshot() reports exactly what the accessors report. *)
  Lemma snapshot_live s : snapshot s = live s.
  Proof. unfold snapshot, live. now destruct (m_attrs s). Qed.

  (** What the exporter receives is what the specification says, for all limits and start options. *)
  Theorem snapshot_refines ops : snapshot (run_model lim so name0 ops) = run_spec lim so name0 ops.
  Proof. now rewrite snapshot_live, live_refines. Qed.

  (** Delivery: the span processors receive the span exactly once, at the first
      End (plain or while panicking), and receive exactly the specification's view. *)
  Lemma ends_first_end ops : ends ops = match first_end ops with Some _ => true | None => false end.
  Proof. unfold ends. induction ops as [|o ops IH]; [reflexivity|]. destruct o; cbn; try exact IH; reflexivity. Qed.

  Theorem exports_refine ops : m_exported (run_model lim so name0 ops) = exports_spec lim so name0 ops.
  Proof.
    unfold exports_spec. rewrite ends_first_end. rewrite <- snapshot_refines. unfold run_model.
    rewrite run_before_end by reflexivity.
    rewrite (first_end_app_no_end _ _ (start_ops_no_end so)), (before_end_app_no_end _ _ (start_ops_no_end so)).
    assert (I : Inv (start_ops so ++ before_end ops)
                    (fold_left (step lim) (start_ops so ++ before_end ops) (init so name0))).
    { apply inv_run. apply Forall_app. split; [apply start_ops_no_end | apply before_end_no_end]. }
    destruct I as (_ & _ & _ & _ & _ & _ & _ & I8).
    destruct (first_end ops) as [ts|]; [|exact I8].
    unfold set_ended at 1. cbn [m_exported]. unfold mark_ended at 1. cbn [m_exported]. rewrite I8. reflexivity.
  Qed.

  (** The snapshot as it was before fix 543ed08 hid the drop counters of empty queues. *)
  Definition hide_empty_dropped (x : export) : export :=
    {| x_name := x_name x; x_status := x_status x; x_attrs := x_attrs x; x_dropped := x_dropped x;
       x_events := x_events x;
       x_evdropped := match x_events x with [] => 0%nat | _ => x_evdropped x end;
       x_links := x_links x;
       x_lkdropped := match x_links x with [] => 0%nat | _ => x_lkdropped x end;
       x_kind := x_kind x; x_start := x_start x; x_end := x_end x |}.

  Lemma snapshot_before_fix_live s : snapshot_before_fix s = hide_empty_dropped (live s).
  Proof.
    unfold snapshot_before_fix, hide_empty_dropped, live.
    cbn [x_name x_status x_attrs x_dropped x_events x_evdropped x_links x_lkdropped x_kind x_start x_end].
    destruct (m_attrs s); reflexivity.
  Qed.

  Theorem snapshot_before_fix_general ops :
    snapshot_before_fix (run_model lim so name0 ops) = hide_empty_dropped (run_spec lim so name0 ops).
  Proof. now rewrite snapshot_before_fix_live, live_refines. Qed.
End Span.

Lemma before_end_app_end ops1 ts ops2 : before_end (ops1 ++ OEnd ts :: ops2) = before_end (ops1 ++ [OEnd ts]).
Proof. induction ops1 as [|o ops1 IH]; [reflexivity|]. destruct o; cbn; try rewrite IH; reflexivity. Qed.
Lemma first_end_app_end ops1 ts ops2 : first_end (ops1 ++ OEnd ts :: ops2) = first_end (ops1 ++ [OEnd ts]).
Proof. induction ops1 as [|o ops1 IH]; [reflexivity|]. destruct o; cbn; try exact IH; reflexivity. Qed.

(** Calls made after End change nothing: the whole state (hence accessors and
    export) is that of the program cut after its End (all limits, all start options). *)
Theorem after_end_noop lim so name0 ops1 ts ops2 :
  run_model lim so name0 (ops1 ++ OEnd ts :: ops2) = run_model lim so name0 (ops1 ++ [OEnd ts]).
Proof.
  unfold run_model.
  rewrite (run_before_end lim (start_ops so ++ ops1 ++ OEnd ts :: ops2)) by reflexivity.
  rewrite (run_before_end lim (start_ops so ++ ops1 ++ [OEnd ts])) by reflexivity.
  rewrite !(first_end_app_no_end _ _ (start_ops_no_end so)), !(before_end_app_no_end _ _ (start_ops_no_end so)).
  now rewrite first_end_app_end, before_end_app_end.
Qed.

(** * Laws of the specification *)

Lemma memb_in k l : memb k l = true <-> In k l.
Proof.
  unfold memb. rewrite existsb_exists. split.
  - intros (x & H & E). apply bytes_eqb_eq in E. now subst.
  - intro H. exists k. split; [exact H | apply bytes_eqb_refl].
Qed.

Lemma memb_false k l : memb k l = false <-> ~ In k l.
Proof. rewrite <- memb_in. destruct (memb k l); split; congruence. Qed.

Lemma memb_app k a b : memb k (a ++ b) = memb k a || memb k b.
Proof. unfold memb. apply existsb_app. Qed.

Lemma bytes_eqb_sym a b : bytes_eqb a b = bytes_eqb b a.
Proof.
  destruct (bytes_eqb a b) eqn:E, (bytes_eqb b a) eqn:F; try reflexivity.
  - apply bytes_eqb_eq in E. subst. now rewrite bytes_eqb_refl in F.
  - apply bytes_eqb_eq in F. subst. now rewrite bytes_eqb_refl in E.
Qed.

Lemma distinct_in l : forall seen k, In k (distinct l seen) <-> In k l /\ ~ In k seen.
Proof.
  induction l as [|x l IH]; intros seen k; cbn; [tauto|].
  destruct (memb x seen) eqn:M.
  - rewrite IH. apply memb_in in M. split; [tauto|]. intros [[->|H] Hn]; tauto.
  - apply memb_false in M. cbn. rewrite IH. cbn. split.
    + intros [->|[H Hn]]; tauto.
    + intros [[->|H] Hn]; [tauto|]. destruct (list_eq_dec N.eq_dec x k) as [->|Hne]; [tauto|]. right. tauto.
Qed.

Lemma distinct_nodup l : forall seen, NoDup (distinct l seen).
Proof.
  induction l as [|x l IH]; intro seen; cbn; [constructor|].
  destruct (memb x seen); [apply IH|]. constructor; [|apply IH].
  rewrite distinct_in. cbn. tauto.
Qed.

Lemma distinct_snoc l k : forall seen,
  distinct (l ++ [k]) seen = distinct l seen ++ (if memb k seen || memb k l then [] else [k]).
Proof.
  induction l as [|x l IH]; intro seen; cbn.
  - rewrite orb_false_r. now destruct (memb k seen).
  - destruct (memb x seen) eqn:M.
    + rewrite IH. f_equal.
      destruct (bytes_eqb k x) eqn:E; [|reflexivity].
      apply bytes_eqb_eq in E. subst. rewrite M. reflexivity.
    + cbn. rewrite IH. f_equal.
      replace (memb k (x :: seen) || memb k l) with (memb k seen || (bytes_eqb k x || memb k l)); [reflexivity|].
      unfold memb at 3. cbn [existsb]. fold (memb k seen).
      destruct (memb k seen), (bytes_eqb k x), (memb k l); reflexivity.
Qed.

Lemma memb_distinct k l : memb k (distinct l []) = memb k l.
Proof. apply Bool.eq_true_iff_eq. rewrite !memb_in, distinct_in. cbn. tauto. Qed.

Lemma has_key_map (h : bytes -> value) ks k : has_key k (map (fun x => (x, h x)) ks) = memb k ks.
Proof.
  induction ks as [|x ks IH]; [reflexivity|]. cbn [map has_key]. rewrite IH. unfold memb. cbn [existsb].
  now rewrite bytes_eqb_sym.
Qed.

Lemma keys_map (h : bytes -> value) ks : keys (map (fun x => (x, h x)) ks) = ks.
Proof. unfold keys. rewrite map_map. cbn. apply map_id. Qed.

Lemma set_key_map (h : bytes -> value) k v ks : NoDup ks -> In k ks ->
  set_key k v (map (fun x => (x, h x)) ks) = map (fun x => (x, if bytes_eqb x k then v else h x)) ks.
Proof.
  induction ks as [|x ks IH]; intros N I; [destruct I|]. cbn [map set_key].
  inversion N as [|? ? Nx Nk]; subst.
  destruct (bytes_eqb x k) eqn:E.
  - apply bytes_eqb_eq in E. subst x. f_equal. apply map_ext_in. intros y Hy.
    destruct (bytes_eqb y k) eqn:F; [|reflexivity]. apply bytes_eqb_eq in F. subst. contradiction.
  - f_equal. apply IH; [exact Nk|]. destruct I as [->|I]; [|exact I]. now rewrite bytes_eqb_refl in E.
Qed.

Lemma NoDup_firstn {A} n : forall (l : list A), NoDup l -> NoDup (firstn n l).
Proof.
  induction n as [|n IH]; intros l H; [constructor|]. destruct H as [|x l Hx Hl]; cbn; constructor.
  - intro Hin. apply Hx. revert Hin. clear. revert l. induction n as [|n IH]; intros [|y l]; cbn; try tauto.
    intros [->|H]; [now left | right; now apply IH].
  - now apply IH.
Qed.

Lemma In_firstn {A} n : forall (l : list A) x, In x (firstn n l) -> In x l.
Proof. induction n as [|n IH]; intros [|y l] x; cbn; try tauto. intros [->|H]; [now left | right; now apply IH]. Qed.

Section Closed.
  Variables lenlim limit : Z.

  Definition Dk (os : list kv) : list bytes := distinct (keys (filter valid os)) [].

  Lemma kept_Dk os : kept_keys limit os = if (limit <? 0)%Z then Dk os else firstn (Z.to_nat limit) (Dk os).
  Proof. reflexivity. Qed.

  Lemma kept_nodup os : NoDup (kept_keys limit os).
  Proof. rewrite kept_Dk. destruct (limit <? 0)%Z; [|apply NoDup_firstn]; apply distinct_nodup. Qed.

  Lemma Dk_snoc_invalid os a : valid a = false -> Dk (os ++ [a]) = Dk os.
  Proof. unfold Dk. rewrite filter_app. cbn. intros ->. now rewrite app_nil_r. Qed.

  Lemma Dk_snoc_valid os a : valid a = true ->
    Dk (os ++ [a]) = Dk os ++ (if memb (fst a) (Dk os) then [] else [fst a]).
  Proof.
    unfold Dk. rewrite filter_app. cbn [filter]. intros ->. unfold keys. rewrite map_app. cbn [map].
    rewrite distinct_snoc. cbn [memb existsb orb]. now rewrite memb_distinct.
  Qed.

  Lemma valid_key_in_Dk os b : In b os -> valid b = true -> In (fst b) (Dk os).
  Proof.
    intros I V. unfold Dk. rewrite distinct_in. split; [|tauto].
    unfold keys. apply in_map. apply filter_In. now split.
  Qed.

  Lemma last_val_snoc k os a :
    last_val k (os ++ [a]) = if valid a && bytes_eqb (fst a) k then snd a else last_val k os.
  Proof.
    unfold last_val, last_value. rewrite fold_left_app. cbn [fold_left].
    now destruct (valid a && bytes_eqb (fst a) k).
  Qed.

  Lemma kept_cases os a : valid a = true ->
    (memb (fst a) (kept_keys limit os) = true -> kept_keys limit (os ++ [a]) = kept_keys limit os) /\
    (memb (fst a) (kept_keys limit os) = false -> room limit (length (kept_keys limit os)) = true ->
       memb (fst a) (Dk os) = false /\ kept_keys limit (os ++ [a]) = kept_keys limit os ++ [fst a]) /\
    (memb (fst a) (kept_keys limit os) = false -> room limit (length (kept_keys limit os)) = false ->
       kept_keys limit (os ++ [a]) = kept_keys limit os).
  Proof.
    intro V. rewrite !kept_Dk, Dk_snoc_valid by exact V. unfold room.
    destruct (Z.ltb_spec limit 0) as [L|L]; cbn [orb].
    - repeat split; intros; try discriminate.
      + rewrite H. apply app_nil_r.
      + exact H.
      + now rewrite H.
    - set (n := Z.to_nat limit). repeat split.
      + intro M. apply memb_in in M. apply In_firstn in M. apply memb_in in M. rewrite M. now rewrite app_nil_r.
      + rewrite firstn_length in H0.
        assert (Hl : (length (Dk os) < n)%nat) by lia.
        rewrite firstn_all2 in H by lia. exact H.
      + rewrite firstn_length in H0.
        assert (Hl : (length (Dk os) < n)%nat) by lia.
        rewrite (firstn_all2 (Dk os)) in * by lia. rewrite H.
        apply firstn_all2. rewrite app_length. cbn. lia.
      + intros M R. rewrite firstn_length in R.
        assert (Hl : (n <= length (Dk os))%nat) by lia.
        rewrite firstn_app. replace (n - length (Dk os))%nat with 0%nat by lia. cbn. apply app_nil_r.
  Qed.

  Lemma dropped_count_snoc os a :
    dropped_count limit (os ++ [a]) =
    (length (filter (fun b => negb (valid b) || negb (memb (fst b) (kept_keys limit (os ++ [a])))) os) +
     (if negb (valid a) || negb (memb (fst a) (kept_keys limit (os ++ [a]))) then 1 else 0))%nat.
  Proof.
    unfold dropped_count. rewrite filter_app, app_length. cbn [filter].
    now destruct (negb (valid a) || negb (memb (fst a) (kept_keys limit (os ++ [a])))).
  Qed.

  (** The bounded insertion computes the closed form, for every offer list. *)
  Theorem spec_attrs_closed os : spec_attrs lenlim limit os = attrs_closed lenlim limit os.
  Proof.
    induction os as [|a os IH] using rev_ind.
    - unfold spec_attrs, attrs_closed, kept_keys, dropped_count. cbn.
      destruct (limit <? 0)%Z; [reflexivity | now rewrite firstn_nil].
    - rewrite spec_attrs_app, IH. cbn [fold_left]. unfold attrs_closed.
      set (K := kept_keys limit os). set (K' := kept_keys limit (os ++ [a])).
      set (h := fun x => trunc_value lenlim (last_val x os)).
      change (map (fun k => (k, trunc_value lenlim (last_val k os))) K) with (map (fun x => (x, h x)) K).
      destruct (valid a) eqn:V.
      + (* valid *)
        rewrite offer_valid by exact V. rewrite has_key_map, map_length.
        destruct (kept_cases os a V) as (C1 & C2 & C3). fold K K' in C1, C2, C3.
        rewrite dropped_count_snoc. fold K'. rewrite V. cbn [negb orb].
        destruct (memb (fst a) K) eqn:M; cbn [orb].
        * (* key already held: update *)
          rewrite (C1 eq_refl). rewrite M. cbn [negb]. rewrite Nat.add_0_r. f_equal.
          unfold upsert. cbn [fst snd]. rewrite has_key_map, M.
          rewrite set_key_map; [|apply kept_nodup|now apply memb_in].
          apply map_ext. intro x. f_equal. rewrite last_val_snoc, V. cbn [andb].
          unfold h. rewrite (bytes_eqb_sym (fst a) x). now destruct (bytes_eqb x (fst a)).
        * destruct (room limit (length K)) eqn:R.
          -- (* new key, room: appended *)
             destruct (C2 eq_refl eq_refl) as [MD E]. rewrite E.
             rewrite memb_app, M.
             replace (memb (fst a) [fst a]) with true by (symmetry; apply memb_in; now left). cbn [orb negb].
             rewrite Nat.add_0_r. f_equal.
             ++ unfold upsert. cbn [fst snd]. rewrite has_key_map, M. rewrite map_app. cbn [map]. f_equal.
                ** apply map_ext_in. intros x Hx. f_equal. rewrite last_val_snoc, V. cbn [andb].
                   destruct (bytes_eqb (fst a) x) eqn:F; [|reflexivity].
                   apply bytes_eqb_eq in F. subst x. apply memb_in in Hx. congruence.
                ** rewrite last_val_snoc, V, bytes_eqb_refl. reflexivity.
             ++ unfold dropped_count. fold K. f_equal. apply filter_ext_in. intros b Hb.
                destruct (valid b) eqn:Vb; [|reflexivity]. cbn [negb orb]. f_equal.
                rewrite memb_app.
                replace (memb (fst b) [fst a]) with (bytes_eqb (fst b) (fst a)) by (unfold memb; cbn; now rewrite orb_false_r).
                destruct (bytes_eqb (fst b) (fst a)) eqn:F; [|now rewrite orb_false_r].
                apply bytes_eqb_eq in F. pose proof (valid_key_in_Dk os b Hb Vb) as I. rewrite F in I.
                apply memb_in in I. congruence.
          -- (* new key, full: dropped *)
             rewrite (C3 eq_refl eq_refl). rewrite M. cbn [negb]. f_equal.
             ++ apply map_ext_in. intros x Hx. f_equal. rewrite last_val_snoc, V. cbn [andb].
                destruct (bytes_eqb (fst a) x) eqn:F; [|reflexivity].
                apply bytes_eqb_eq in F. subst x. apply memb_in in Hx. congruence.
             ++ unfold dropped_count. fold K. lia.
      + (* invalid: dropped, nothing else changes *)
        rewrite offer_invalid by exact V.
        assert (EK : K' = K).
        { unfold K', K. rewrite !kept_Dk. now rewrite Dk_snoc_invalid. }
        rewrite dropped_count_snoc. fold K'. rewrite EK, V. cbn [negb orb]. f_equal.
        * apply map_ext. intro x. f_equal. rewrite last_val_snoc, V. reflexivity.
        * unfold dropped_count. fold K. lia.
  Qed.
End Closed.

(** ** Consequences of the closed form *)

Lemma spec_attrs_nodup lenlim limit os : NoDup (keys (fst (spec_attrs lenlim limit os))).
Proof. unfold spec_attrs. apply fold_offer_nodup. constructor. Qed.

Lemma spec_attrs_keys lenlim limit os : keys (fst (spec_attrs lenlim limit os)) = kept_keys limit os.
Proof. rewrite spec_attrs_closed. unfold attrs_closed. cbn [fst]. apply keys_map. Qed.

Lemma spec_attrs_len lenlim limit os : (0 <= limit)%Z ->
  (Z.of_nat (length (fst (spec_attrs lenlim limit os))) <= limit)%Z.
Proof. intro H. unfold spec_attrs. apply fold_offer_len; [exact H | cbn; lia]. Qed.

Lemma lookup_map (h : bytes -> value) ks k : In k ks -> lookup k (map (fun x => (x, h x)) ks) = Some (h k).
Proof.
  induction ks as [|x ks IH]; intro I; [destruct I|]. cbn [map lookup].
  destruct (bytes_eqb x k) eqn:E.
  - apply bytes_eqb_eq in E. now subst.
  - apply IH. destruct I as [->|I]; [now rewrite bytes_eqb_refl in E | exact I].
Qed.

(** Last value wins: a kept key holds the (truncated) value supplied last for it. *)
Lemma spec_attrs_lastwins lenlim limit os k : In k (kept_keys limit os) ->
  lookup k (fst (spec_attrs lenlim limit os)) = Some (trunc_value lenlim (last_val k os)).
Proof. intro I. rewrite spec_attrs_closed. unfold attrs_closed. cbn [fst]. now apply (lookup_map (fun x => trunc_value lenlim (last_val x os))). Qed.

Lemma truncate_spec_within lenlim s : (0 <= lenlim)%Z -> (rune_count (truncate_spec lenlim s) <= Z.to_nat lenlim)%nat.
Proof. intro H. rewrite <- truncate_refines. now apply truncate_characterised. Qed.

Lemma trunc_value_within lenlim v : value_within lenlim (trunc_value lenlim v).
Proof.
  intro H. destruct v; cbn; auto.
  - now apply truncate_spec_within.
  - induction l; cbn; constructor; [now apply truncate_spec_within | assumption].
Qed.

Lemma spec_attrs_within lenlim limit os :
  Forall (fun a => value_within lenlim (snd a)) (fst (spec_attrs lenlim limit os)).
Proof.
  rewrite spec_attrs_closed. unfold attrs_closed. cbn [fst]. apply Forall_forall. intros a I.
  apply in_map_iff in I as (k & <- & _). cbn [snd]. apply trunc_value_within.
Qed.

(** ** Bounded FIFO and per-item cap *)

Lemma bounded_law {A} c (all : list A) :
  exists pre, all = pre ++ fst (bounded c all) /\ length pre = snd (bounded c all) /\
              ((c < 0)%Z -> pre = []) /\
              ((0 <= c)%Z -> length (fst (bounded c all)) = Nat.min (Z.to_nat c) (length all)).
Proof.
  unfold bounded. cbn [fst snd]. destruct (Z.ltb_spec c 0) as [L|L].
  - exists []. repeat split; try lia. cbn. lia.
  - exists (firstn (length all - Z.to_nat c) all). unfold lastn. rewrite firstn_skipn.
    repeat split; try lia.
    + rewrite firstn_length, skipn_length. lia.
    + rewrite skipn_length. lia.
Qed.

Lemma cap_law limit (l : list kv) :
  exists rest, l = fst (cap limit l) ++ rest /\ length rest = snd (cap limit l) /\
               ((limit < 0)%Z -> rest = []) /\
               ((0 <= limit)%Z -> length (fst (cap limit l)) = Nat.min (Z.to_nat limit) (length l)).
Proof.
  unfold cap. cbn [fst snd]. destruct (Z.ltb_spec limit 0) as [L|L].
  - exists []. rewrite app_nil_r. repeat split; try lia. cbn. lia.
  - exists (skipn (Z.to_nat limit) l). rewrite firstn_skipn.
    split; [reflexivity|]. split; [|split]; try lia.
    + rewrite firstn_length, skipn_length. lia.
    + intros _. apply firstn_length.
Qed.

(** ** Status *)

Lemma status_fold_calls ops : forall cur,
  fold_left (fun cur o => match o with OSetStatus c d => status_step cur c d | _ => cur end) ops cur =
  fold_left (fun cur c => status_step cur (fst c) (snd c)) (status_calls ops) cur.
Proof.
  induction ops as [|o ops IH]; intro cur; [reflexivity|].
  unfold status_calls in *. cbn [fold_left flat_map]. rewrite fold_left_app, IH. now destruct o.
Qed.

Lemma max_code_snoc calls c : max_code (calls ++ [c]) = N.max (max_code calls) (fst c).
Proof. unfold max_code. now rewrite map_app, fold_left_app. Qed.

Lemma last_error_desc_snoc calls c :
  last_error_desc (calls ++ [c]) = if fst c =? 1 then snd c else last_error_desc calls.
Proof. unfold last_error_desc. now rewrite fold_left_app. Qed.

Lemma status_closed_calls calls :
  fold_left (fun cur c => status_step cur (fst c) (snd c)) calls (0, []) =
  (max_code calls, if max_code calls =? 1 then last_error_desc calls else []).
Proof.
  induction calls as [|c calls IH] using rev_ind; [reflexivity|].
  rewrite fold_left_app, IH. cbn [fold_left]. rewrite max_code_snoc, last_error_desc_snoc.
  unfold status_step. cbn [fst snd]. set (M := max_code calls). destruct c as [c d]. cbn [fst snd].
  destruct (N.ltb_spec c M) as [L|L].
  - replace (N.max M c) with M by lia. f_equal.
    destruct (N.eqb_spec M 1) as [E|E]; [|reflexivity].
    destruct (N.eqb_spec c 1); [lia | reflexivity].
  - replace (N.max M c) with c by lia. f_equal. now destruct (c =? 1).
Qed.

Lemma status_closed ops :
  status_of ops = (max_code (status_calls ops),
                   if max_code (status_calls ops) =? 1 then last_error_desc (status_calls ops) else []).
Proof. unfold status_of. rewrite status_fold_calls. apply status_closed_calls. Qed.

(** ** Before fix 543ed08 the exported dropped counters were not exact for limit 0 (F-C04-2 / F-C04-3) *)

Definition lim_ev0 : limits :=
  {| lim_len := -1; lim_attrs := -1; lim_events := 0; lim_links := -1; lim_evattrs := -1; lim_lkattrs := -1 |}.
Definition lim_lk0 : limits :=
  {| lim_len := -1; lim_attrs := -1; lim_events := -1; lim_links := 0; lim_evattrs := -1; lim_lkattrs := -1 |}.

Definition no_start : start_opts := {| so_sattrs := []; so_attrs := []; so_links := []; so_start := 0; so_kind := 0 |}.

Lemma snapshot_before_fix_refuted :
  (exists lim so name0 ops, x_evdropped (snapshot_before_fix (run_model lim so name0 ops)) <> x_evdropped (run_spec lim so name0 ops)) /\
  (exists lim so name0 ops, x_lkdropped (snapshot_before_fix (run_model lim so name0 ops)) <> x_lkdropped (run_spec lim so name0 ops)).
Proof.
  split.
  - exists lim_ev0, no_start, (str "s"), [OAddEvent (str "e") 1 []; OAddEvent (str "e") 2 []; OEnd 0]. vm_compute. discriminate.
  - exists lim_lk0, no_start, (str "s"), [OAddLink 1 false []; OEnd 0]. vm_compute. discriminate.
Qed.
