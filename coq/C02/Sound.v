(** C02: the decidable checks evaluated on the implementation's observations imply the Prop
    readings of the clauses. *)
From Verif Require Import Lib.Base C02.Spec.
Open Scope Z_scope.

Lemma zlist_eqb_eq (a b : list Z) : list_eqb Z.eqb a b = true -> a = b.
Proof. apply list_eqb_eq. intros x y. apply Z.eqb_eq. Qed.
Lemma ovec_eqb_eq a b : ovec_eqb a b = true -> a = b.
Proof. destruct a, b; cbn; intros H; try discriminate; try reflexivity. f_equal. now apply zlist_eqb_eq. Qed.

Lemma pget_notin k p : ~ In k (keys_of p) -> pget k p = None.
Proof.
  induction p as [|[k' v] r IH]; cbn; intros H; [reflexivity|].
  destruct (N.eqb_spec k k'); [exfalso; apply H; left; congruence|]. apply IH. intros Hin. apply H. now right.
Qed.
Lemma cyc_total_notin k c : ~ In k (ckeys c) -> cyc_total k c = None.
Proof.
  induction c as [|[k' v] r IH]; cbn; intros H; [reflexivity|].
  destruct (N.eqb_spec k' k); [exfalso; apply H; now left|]. apply IH. intros Hin. apply H. now right.
Qed.
Lemma in_dec_N (k : N) (l : list N) : In k l \/ ~ In k l.
Proof. destruct (in_dec N.eq_dec k l); auto. Qed.

Lemma expect_points_sound p ks f : expect_points p ks f = true ->
  (forall k, ~ In k ks -> f k = None) -> forall k, pget k p = f k.
Proof.
  unfold expect_points. intros H Hf k. apply andb_true_iff in H as [_ H]. rewrite forallb_forall in H.
  destruct (in_dec_N k (keys_of p ++ ks)) as [Hin|Hn].
  - apply ovec_eqb_eq. now apply H.
  - rewrite pget_notin by (intros Hi; apply Hn; apply in_or_app; now left).
    symmetry. apply Hf. intros Hi; apply Hn; apply in_or_app; now right.
Qed.

Lemma delta_exactb_sound cyc : forall outs, delta_exactb cyc outs = true -> DeltaExact cyc outs.
Proof.
  induction cyc as [|c cr IH]; intros [|p pr] H; try discriminate.
  - split; [reflexivity|]. intros n k Hn. cbn in Hn. lia.
  - cbn [delta_exactb] in H. apply andb_true_iff in H as [H1 H2]. destruct (IH pr H2) as [Hl Hp]. split; [cbn; now rewrite Hl|].
    intros n k Hn. destruct n as [|n]; cbn [nth].
    + apply (expect_points_sound _ _ _ H1). intros k' Hk. rewrite (cyc_total_notin k' c) by exact Hk. reflexivity.
    + apply Hp. cbn in Hn. lia.
Qed.

Lemma cum_totalb_sound cyc : forall sofar outs, cum_totalb sofar cyc outs = true ->
  length outs = length cyc /\
  forall n k, (n < length cyc)%nat -> pget k (nth n outs []) = one (cyc_total k (sofar ++ concat (firstn (S n) cyc))).
Proof.
  induction cyc as [|c cr IH]; intros sofar [|p pr] H; try discriminate.
  - split; [reflexivity|]. intros n k Hn. cbn in Hn. lia.
  - cbn [cum_totalb] in H. cbn zeta in H. apply andb_true_iff in H as [H1 H2]. destruct (IH _ pr H2) as [Hl Hp]. split; [cbn; now rewrite Hl|].
    intros n k Hn. destruct n as [|n]; cbn [nth].
    + cbn [firstn concat]. rewrite app_nil_r.
      apply (expect_points_sound _ _ _ H1). intros k' Hk. rewrite (cyc_total_notin k' (sofar ++ c)) by exact Hk. reflexivity.
    + rewrite Hp by (cbn in Hn; lia). change (firstn (S (S n)) (c :: cr)) with (c :: firstn (S n) cr).
      cbn [concat]. now rewrite app_assoc.
Qed.

(** a stream that passes the sequential check satisfies the clause of its temporality *)
Theorem stream_ok_sound rc r i h outs : stream_ok false rc r i h outs = true ->
  if r_delta rc then DeltaExact (cycles false rc r i h false false false []) outs
  else CumTotal (cycles false rc r i h false false false []) outs.
Proof.
  unfold stream_ok. intros H. apply andb_true_iff in H as [H _]. destruct (r_delta rc).
  - now apply delta_exactb_sound.
  - now apply (cum_totalb_sound _ []).
Qed.

(** * Completed concurrent histories: the checker implies the Prop reading *)
Lemma pval_notin k p : ~ In k (keys_of p) -> pval k p = 0.
Proof. intro H. unfold pval. now rewrite pget_notin. Qed.

Lemma sum_outs_notin k outs : ~ In k (flat_map keys_of outs) -> sum_outs k outs = 0.
Proof.
  unfold sum_outs. induction outs as [|p r IH]; intro H; [reflexivity|].
  cbn [fold_right flat_map] in *. rewrite pval_notin, IH; [reflexivity| |];
    intro Hx; apply H; apply in_or_app; [now right | now left].
Qed.

Lemma total_notin k c : ~ In k (ckeys c) -> total k c = 0.
Proof. intro H. unfold total. now rewrite cyc_total_notin. Qed.

(** delta reader: the delivered values add up to the totals recorded, for every attribute set;
    cumulative reader: the last delivery shows exactly the totals *)
Definition ConcOk (delta : bool) (adds : list (skey * Z)) (outs : list points) : Prop :=
  if delta then forall k, sum_outs k outs = total k adds
  else match rev outs with
       | [] => adds = []
       | last :: _ => forall k, pget k last = one (cyc_total k adds)
       end.

Theorem conc_stream_ok_sound delta nonneg adds outs :
  conc_stream_ok delta nonneg adds outs = true -> ConcOk delta adds outs.
Proof.
  unfold conc_stream_ok, ConcOk. intro H. apply andb_true_iff in H as [H Hc]. apply andb_true_iff in H as [_ Hsub].
  rewrite forallb_forall in Hsub.
  destruct delta.
  - rewrite forallb_forall in Hc. intro k.
    destruct (in_dec_N k (ckeys adds ++ flat_map keys_of outs)) as [Hin|Hn].
    + apply Z.eqb_eq. now apply Hc.
    + rewrite sum_outs_notin, total_notin; [reflexivity| |]; intro Hx; apply Hn; apply in_or_app; auto.
  - destruct (rev outs) as [|last r] eqn:Er.
    + destruct adds; [reflexivity | discriminate].
    + apply andb_true_iff in Hc as [Hc _]. rewrite forallb_forall in Hc. intro k.
      destruct (in_dec_N k (ckeys adds ++ flat_map keys_of outs)) as [Hin|Hn].
      * apply ovec_eqb_eq. now apply Hc.
      * rewrite cyc_total_notin by (intro Hx; apply Hn; apply in_or_app; now left).
        apply pget_notin. intro Hx. apply Hn. apply in_or_app. right.
        apply in_flat_map. exists last. split; [|exact Hx].
        apply in_rev. rewrite Er. now left.
Qed.
