(** C02 correspondence: sequential histories against 1-3 readers (model equality and the
    specification), and completed concurrent histories (specification only). *)
From Verif Require Import Lib.Base Lib.MetricsModel C02.Spec C02.Model.
Open Scope N_scope.

Definition zz (n : N) : Z := if N.even n then Z.of_N (n / 2) else (- Z.of_N ((n + 1) / 2))%Z.

Definition Ad (i k v : N) : op := Add (N.to_nat i) k (zz v).
Definition Cl (r : N) : op := CollectR (N.to_nat r).
Definition Tk (r : N) : op := Tick (N.to_nat r).
Definition Fl (r : N) : op := Flush (N.to_nat r).
Definition Sd (r : N) : op := Shutdown (N.to_nat r).
Definition Er (b : bool) : op := SetErr b.
Definition Rm (d cb : bool) : rcfg := {| rk := RManual; r_delta := d; r_cb := cb |}.
Definition Rp (d cb : bool) : rcfg := {| rk := RPeriodic; r_delta := d; r_cb := cb |}.
Definition Cc (r : N) : op := CollectC (N.to_nat r).
Definition P (k v : N) : skey * svec := (k, [zz v]).
Definition T (k v : N) : skey * Z := (k, zz v).

Inductive case :=
| CSeq (readers : list rcfg) (ninst : N) (h : list op) (obs : list (list (list points))) (errs : list (list N))
| CConc (readers : list rcfg) (nonneg : bool) (adds : list (list (skey * Z))) (obs : list (list (list points))).

Definition outs_eqb (a b : list points) : bool := list_eqb amap_eqb a b.
Definition obs_eqb (a b : list (list (list points))) : bool := list_eqb (list_eqb outs_eqb) a b.
(** observed code 7: the call was made through MeterProvider.ForceFlush / Shutdown, which joins the
    readers' results - the individual result is not observable *)
Definition codes_eqb (a b : list (list N)) : bool := list_eqb (list_eqb (fun x y => (x =? y) || (y =? 7))) a b.

Definition flag (b : bool) (code : N) : list N := if b then [] else [code].

(** per stream verdict: 0 = satisfies the property, 2 = violation *)
Definition stream_verdict (rc : rcfg) (r i : nat) (h : list op) (outs : list points) : N :=
  if stream_ok false rc r i h outs then 0 else 2.

Definition verdicts (readers : list rcfg) (ninst : nat) (h : list op) (obs : list (list (list points))) : list N :=
  flat_map (fun rro => map (fun io => stream_verdict (snd (fst rro)) (fst (fst rro)) (fst io) h (snd io))
                           (combine (seq 0 ninst) (snd rro)))
           (combine (enum_from 0 readers) obs).

Definition shape_ok (readers : list rcfg) (ninst : nat) (obs : list (list (list points))) : bool :=
  Nat.eqb (length obs) (length readers) && forallb (fun l => Nat.eqb (length l) ninst) obs.

Definition check_case (c : case) : list N :=
  match c with
  | CSeq readers ninst h obs errs =>
      let n := N.to_nat ninst in
      let m := model readers n h in
      let vs := verdicts readers n h obs in
      let codes_ok := codes_eqb (map (fun rr => codes (snd rr) (fst rr) h false false false) (enum_from 0 readers)) errs in
      flag (obs_eqb m obs && codes_eqb (model_codes readers h) errs) V_MISMATCH ++
      flag (shape_ok readers n obs && negb (existsb (N.eqb 2) vs) && codes_ok) V_SPECFAIL ++
      flag (forallb (fun v => negb (v =? 2)) (verdicts readers n h m)) V_MODELSPEC
  | CConc readers nonneg adds obs =>
      flag (shape_ok readers (length adds) obs &&
            forallb (fun rro => forallb (fun ao => conc_stream_ok (r_delta (fst rro)) nonneg (fst ao) (snd ao))
                                        (combine adds (snd rro)))
                    (combine readers obs)) V_SPECFAIL
  end.

Definition run (cs : list case) : list (N * N) := index_from 0 check_case cs.
