(** C02 property theorems: statements only, each closed by lemmas of Proofs.v / ProofsLTS.v,
    the axiom audit, and non-vacuity examples.

    Sequential layer: [stream rc r i h] = the deliveries (to the caller of Collect or to the
    exporter) of reader [r] (configuration [rc]) for counter [i] over history [h];
    [cycles false rc r i h ...] groups the Add calls of [h] by those deliveries.
    Interleaving layer: [lrun cfgs ninst linit sched] runs an arbitrary schedule of the LTS of
    Model.v (thread ids are arbitrary naturals; any number of threads).
    int64 overflow is excluded: values are in Z.

    Finding F-C02-1 (a periodic reader skipped the export when a callback reported an error, after
    the delta sums had been reset) is repaired in /repo (b162dd7, e0f719a): the theorems below carry
    no callback-error guard.  What stays outside the model: a context that expires during the
    collection (produce then returns nothing and resets nothing). *)
From Verif Require Import Lib.Base Lib.MetricsModel C02.Spec C02.Model C02.Proofs C02.ProofsLTS C02.Sound.
Open Scope Z_scope.

(** For every schedule of any number of recording threads and collections, for every reader,
    instrument and attribute set: the delta values of all completed collections, plus what the
    collection in progress has already taken, plus what is still in the aggregator, equal the
    completed measurements plus the measurements in flight that have already reached this
    reader.  (For a cumulative reader: the aggregator holds exactly that total.) *)
Theorem c02_delta_conservation : forall cfgs ninst sched s,
  lrun cfgs ninst linit sched = Some s ->
  forall r rc i k, nth_error cfgs r = Some rc ->
    resid s r i k + (if r_delta rc then coll_sum k i (louts s r) + part_sum k i (lbusy s r) else 0)
    = done_sum i k (done s) + fly_sum r i k (inflight s).
Proof. exact lts_conservation. Qed.
Print Assumptions c02_delta_conservation.

(** At a quiescent state (no Add in flight, reader r not collecting) the delta values delivered
    so far plus the aggregator's content are exactly the completed measurements; the right-hand
    side does not depend on the reader: every reader has seen every measurement. *)
Theorem c02_every_reader : forall cfgs ninst sched s,
  lrun cfgs ninst linit sched = Some s -> inflight s = [] ->
  forall r rc i k, nth_error cfgs r = Some rc -> lbusy s r = None ->
    (r_delta rc = true -> coll_sum k i (louts s r) + resid s r i k = done_sum i k (done s)) /\
    (r_delta rc = false -> resid s r i k = done_sum i k (done s)).
Proof. exact lts_quiescent. Qed.
Print Assumptions c02_every_reader.

(** Sequential histories, with or without callback errors: delta values delivered + what is still
    in the aggregator = everything recorded. *)
Theorem c02_delta_conservation_seq : forall rc r i h,
  r_delta rc = true ->
  forall k, sum_outs k (stream rc r i h) + pval k (vals (stream_final rc r i h)) = total k (adds_of i h).
Proof. exact delta_conservation. Qed.
Print Assumptions c02_delta_conservation_seq.

(** Each measurement is counted in exactly one delta collection: every delivery of a delta reader
    reports exactly the attribute sets recorded since its previous delivery, each with the sum of
    those recordings. *)
Theorem c02_exactly_one_collection : forall rc r i h,
  r_delta rc = true ->
  DeltaExact (cycles false rc r i h false false false []) (stream rc r i h).
Proof. exact exactly_one. Qed.
Print Assumptions c02_exactly_one_collection.

(** The latest value of a cumulative reader is the running total of everything recorded before
    the delivery - with or without callback errors. *)
Theorem c02_cumulative_total : forall rc r i h,
  r_delta rc = false ->
  CumTotal (cycles false rc r i h false false false []) (stream rc r i h).
Proof. exact cumulative_total. Qed.
Print Assumptions c02_cumulative_total.

(** The model of a provider with any number of readers is the family of these streams: what one
    reader does has no influence on what another one sees. *)
Theorem c02_every_reader_seq : forall readers ninst h r rc i,
  nth_error readers r = Some rc -> (i < ninst)%nat ->
  nth i (nth r (model readers ninst h) []) [] = stream rc r i h.
Proof. exact model_stream. Qed.
Print Assumptions c02_every_reader_seq.

(** A sum fed non-negative values never decreases (cumulative reader, any history). *)
Theorem c02_monotone : forall rc r i h,
  r_delta rc = false -> nonneg h -> Monotone (stream rc r i h).
Proof. exact monotone_cum. Qed.
Print Assumptions c02_monotone.

(** The same under interleavings: for every schedule (any number of threads) whose Add values are
    non-negative, the successive values a cumulative reader has delivered for an attribute set never
    decrease and never exceed what its aggregator holds. *)
Theorem c02_monotone_lts : forall cfgs ninst sched s,
  sched_nonneg sched -> lrun cfgs ninst linit sched = Some s ->
  forall r rc i k, nth_error cfgs r = Some rc -> r_delta rc = false -> (i < ninst)%nat ->
    sortedZ (map (fun c => zget k (c i)) (louts s r)) /\
    forall x, In x (map (fun c => zget k (c i)) (louts s r)) -> x <= resid s r i k.
Proof. exact lts_monotone. Qed.
Print Assumptions c02_monotone_lts.

(** Shutdown of a periodic reader (the first Shutdown call of that reader; callback failing or not):
    the final collection is delivered - every measurement recorded before the call is in some
    delivery - and nothing is delivered afterwards, whatever follows. *)
Theorem c02_periodic_shutdown_final : forall rc r i h1 h2,
  rk rc = RPeriodic -> forallb (fun o => negb (is_shutdown r o)) h1 = true ->
  let s := stream rc r i (h1 ++ Shutdown r :: h2) in
  s = stream rc r i (h1 ++ [Shutdown r]) /\
  (r_delta rc = true -> forall k, sum_outs k s = total k (adds_of i h1)) /\
  (r_delta rc = false -> adds_of i h1 <> [] ->
     (0 < length s)%nat /\ forall k, pget k (nth (length s - 1) s []) = one (cyc_total k (adds_of i h1))).
Proof. exact shutdown_final. Qed.
Print Assumptions c02_periodic_shutdown_final.

(** What the calls return. *)
Theorem c02_return_codes : forall rc r h, stream_codes rc r h = codes rc r h false false false.
Proof. exact stream_codes_spec. Qed.
Print Assumptions c02_return_codes.

(** The operational reading (a skipped delivery swallows what was collected for it) and the
    property's reading coincide: a delivery is skipped only when there was nothing to deliver. *)
Theorem c02_nothing_lost : forall rc r i h,
  cycles true rc r i h false false false [] = cycles false rc r i h false false false [] /\
  pending true rc r i h false false false [] = pending false rc r i h false false false [].
Proof. intros. apply cycles_clean. apply quiet_init. Qed.
Print Assumptions c02_nothing_lost.

(** F-C02-1 (fixed): the two histories that lost measurements before b162dd7 / e0f719a are now
    delivered completely - Add 5; callback fails; ForceFlush; callback recovers; Add 7; ForceFlush
    delivers 5 then 7, and Add 5; callback fails; Shutdown delivers 5. *)
Theorem c02_fixed_histories :
  stream refute_rc 0%nat 0%nat old_failing_h = [[(0%N, [5])]; [(0%N, [7])]] /\
  stream_ok false refute_rc 0%nat 0%nat old_failing_h (stream refute_rc 0%nat 0%nat old_failing_h) = true /\
  stream refute_rc 0%nat 0%nat old_failing_h2 = [[(0%N, [5])]] /\
  stream_ok false refute_rc 0%nat 0%nat old_failing_h2 (stream refute_rc 0%nat 0%nat old_failing_h2) = true.
Proof. exact old_failing_histories_now_ok. Qed.
Print Assumptions c02_fixed_histories.

(** The decidable check evaluated on the implementation's deliveries implies the Prop reading. *)
Theorem c02_checker_sound : forall rc r i h outs, stream_ok false rc r i h outs = true ->
  if r_delta rc then DeltaExact (cycles false rc r i h false false false []) outs
  else CumTotal (cycles false rc r i h false false false []) outs.
Proof. exact stream_ok_sound. Qed.
Print Assumptions c02_checker_sound.

(** The judge of completed concurrent histories implies its Prop reading: delta reader - the
    delivered values add up to the totals recorded for every attribute set; cumulative reader - the
    last delivery shows exactly the totals. *)
Theorem c02_conc_checker_sound : forall delta nonneg adds outs,
  conc_stream_ok delta nonneg adds outs = true -> ConcOk delta adds outs.
Proof. exact conc_stream_ok_sound. Qed.
Print Assumptions c02_conc_checker_sound.

(** ** Non-vacuity *)
Definition ex_cfgs : list rcfg := [ {| rk := RPeriodic; r_delta := true; r_cb := true |}; {| rk := RManual; r_delta := false; r_cb := true |} ].
(** three threads (7, 8, 9) adding while reader 0 collects in the middle of thread 7's fan-out *)
Definition ex_sched : list action :=
  [ AStart 7 0 1%N 5; ADeliver 7; CStart 0; AStart 8 0 1%N 2; ADeliver 8; CStep 0; CFinish 0;
    ADeliver 7; AReturn 7; ADeliver 8; AStart 9 0 2%N 4; AReturn 8; ADeliver 9; ADeliver 9; AReturn 9;
    CStart 0; CStep 0; CFinish 0 ]%nat.
Example ex_lts :
  match lrun ex_cfgs 1%nat linit ex_sched with
  | Some s => inflight s = [] /\ lbusy s 0%nat = None /\
              map (fun c => c 0%nat) (louts s 0%nat) = [[(1%N, [7])]; [(2%N, [4])]] /\
              vals (ag s 1%nat 0%nat) = [(1%N, [7]); (2%N, [4])] /\ done_sum 0%nat 1%N (done s) = 7
  | None => False
  end.
Proof. vm_compute. repeat split; reflexivity. Qed.

Example ex_sched_nonneg : sched_nonneg ex_sched.
Proof. repeat constructor; lia. Qed.

Definition ex_h : list op :=
  [Add 0%nat 1%N 5; Add 0%nat 2%N 1; Flush 0%nat; Add 0%nat 1%N 3; CollectR 1%nat; Shutdown 0%nat; Add 0%nat 1%N 9; Flush 0%nat].
Example ex_seq :
  stream (nth 0%nat ex_cfgs (Build_rcfg RManual false true)) 0%nat 0%nat ex_h = [[(1%N, [5]); (2%N, [1])]; [(1%N, [3])]] /\
  stream (nth 1%nat ex_cfgs (Build_rcfg RManual false true)) 1%nat 0%nat ex_h = [[(1%N, [8]); (2%N, [1])]] /\
  no_err ex_h = true /\ stream_codes (nth 0%nat ex_cfgs (Build_rcfg RManual false true)) 0%nat ex_h = [0; 0; 1]%N.
Proof. vm_compute. repeat split; reflexivity. Qed.
Example ex_nonneg : nonneg ex_h.
Proof. intros i k v H. cbn in H. repeat (destruct H as [H|H]; [inversion H; subst; lia|]). contradiction. Qed.
