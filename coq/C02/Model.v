(** C02 model.

    Part 1 (sequential): one stream = the sum aggregator that reader [r]'s pipeline holds
    for counter / up-down counter [i] (pipeline.go inserter.cachedAggregator; instrument.go
    int64Inst.aggregate fans every measurement out to one aggregator per reader), driven by
    a history of Add and reader calls.  Mirrors
      - manual_reader.go   Collect / Shutdown,
      - periodic_reader.go run (tick, flush), collectAndExport, collect, ForceFlush, Shutdown,
      - pipeline.go        produce (callback errors are joined, the aggregations are still
                           computed and the error is returned with the data),
    after fix b162dd7: collectAndExport exports what the collection produced also when a callback
    reported an error; PeriodicReader.Shutdown still skips the export of its final collection in
    that case, after the delta state was cleared (residual of finding F-C02-1).
    The aggregator itself is Lib/MetricsModel.v.

    Part 2 (interleavings): a labelled transition system with any number of recording
    threads (ids in nat) and collections, at the code's granularity: one aggregator
    operation is atomic (the stream mutex), the fan-out of one measurement over the readers
    is a loop of such steps, a collection of one pipeline visits its aggregators one at a time
    (under the pipeline lock, so collections of the same pipeline do not overlap).
    Executable definitions only. *)
From Verif Require Import Lib.Base Lib.MetricsModel C02.Spec.
Open Scope Z_scope.

Definition scfg (rc : rcfg) : aggcfg :=
  {| a_op := OpAdd; a_pre := false; a_temp := if r_delta rc then Delta else Cumulative |}.

(** ** Part 1: sequential histories *)
(** [s_any]: some aggregator of this reader's pipeline has something to report (a delta pipeline is
    emptied by every collection) *)
Record sst := { s_agg : agg; s_down : bool; s_err : bool; s_any : bool }.

Definition sinit : sst := {| s_agg := new_agg 0; s_down := false; s_err := false; s_any := false |}.

(** one step of stream (r, i): new state, deliveries (at most one), return code (E_NA = not a call on r).
    Which calls attempt a collection, whether its result is delivered and what the call returns is
    [Spec.attempt] (the reader API as implemented by manual_reader.go / periodic_reader.go:
    Collect fills the caller's rm even when produce reports a callback error; collectAndExport
    exports what was produced even then, Shutdown exports only when collect returned no error).  What the model adds is what happens to the
    aggregator: every attempted collection runs the aggregation (produce computes all aggregations
    before the error is looked at), so a skipped delivery has already reset a delta sum. *)
Definition sstep (rc : rcfg) (r : nat) (i : inst) (s : sst) (o : op) : sst * list points * N :=
  match o with
  | Add i' k v =>
      if Nat.eqb i' i
      then ({| s_agg := measure (scfg rc) k [v] (s_agg s); s_down := s_down s; s_err := s_err s; s_any := true |}, [], E_NA)
      else ({| s_agg := s_agg s; s_down := s_down s; s_err := s_err s; s_any := true |}, [], E_NA)
  | SetErr b => ({| s_agg := s_agg s; s_down := s_down s; s_err := b; s_any := s_any s |}, [], E_NA)
  | _ =>
      match attempt rc r (s_down s) (s_err s) (s_any s) o with
      | (CNone, down', c) => ({| s_agg := s_agg s; s_down := down'; s_err := s_err s; s_any := s_any s |}, [], c)
      | (CDelivered, down', c) =>
          let '(out, a') := collect (scfg rc) 0 (s_agg s) in
          ({| s_agg := a'; s_down := down'; s_err := s_err s; s_any := next_ad rc (s_any s) |}, [o_points out], c)
      | (CDropped, down', c) =>
          let '(out, a') := collect (scfg rc) 0 (s_agg s) in
          ({| s_agg := a'; s_down := down'; s_err := s_err s; s_any := next_ad rc (s_any s) |}, [], c)
      end
  end.

Fixpoint srun (rc : rcfg) (r : nat) (i : inst) (h : list op) (s : sst) : list points * list N * sst :=
  match h with
  | [] => ([], [], s)
  | o :: t =>
      let '(s', outs, c) := sstep rc r i s o in
      let '(outs', cs, sf) := srun rc r i t s' in
      (outs ++ outs', (if (c =? E_NA)%N then [] else [c]) ++ cs, sf)
  end.

Definition stream (rc : rcfg) (r : nat) (i : inst) (h : list op) : list points := fst (fst (srun rc r i h sinit)).
Definition stream_codes (rc : rcfg) (r : nat) (h : list op) : list N := snd (fst (srun rc r 0%nat h sinit)).
Definition stream_final (rc : rcfg) (r : nat) (i : inst) (h : list op) : agg := s_agg (snd (srun rc r i h sinit)).

Fixpoint enum_from {A} (n : nat) (l : list A) : list (nat * A) :=
  match l with [] => [] | x :: r => (n, x) :: enum_from (S n) r end.

(** all readers, all instruments: reader -> instrument -> deliveries *)
Definition model (readers : list rcfg) (ninst : nat) (h : list op) : list (list (list points)) :=
  map (fun rr => map (fun i => stream (snd rr) (fst rr) i h) (seq 0 ninst)) (enum_from 0 readers).
Definition model_codes (readers : list rcfg) (h : list op) : list (list N) :=
  map (fun rr => stream_codes (snd rr) (fst rr) h) (enum_from 0 readers).

(** ** Part 2: interleavings *)

(** an Add in flight: instrument, attribute set, value, index of the next reader to deliver to *)
Record flight := { f_inst : nat; f_key : key; f_val : Z; f_next : nat }.

(** a collection of a pipeline in progress: index of the next aggregator, points gathered so far
    (per instrument) *)
Record coll := { c_next : nat; c_part : nat -> amap }.

Record lst := {
  ag : nat -> nat -> agg;            (* reader -> instrument -> its aggregator *)
  louts : nat -> list (nat -> amap); (* reader -> completed collections, oldest first (instrument -> points) *)
  lbusy : nat -> option coll;        (* reader -> the collection holding the pipeline lock *)
  inflight : list (nat * flight);    (* thread id -> its Add in progress *)
  done : list (nat * key * Z)        (* completed Adds (returned to the caller) *)
}.

Inductive action :=
| AStart (t : nat) (i : nat) (k : key) (v : Z)   (* thread t calls Add *)
| ADeliver (t : nat)                             (* next iteration of the fan-out loop: one aggregator, under its mutex *)
| AReturn (t : nat)                              (* the loop is over, Add returns *)
| CStart (r : nat)                               (* a collection of pipeline r takes the pipeline lock (tick, flush, Collect, Shutdown) *)
| CStep (r : nat)                                (* it computes its next aggregation, under that aggregator's mutex *)
| CFinish (r : nat).                             (* it releases the lock and delivers *)

Fixpoint fl_get (t : nat) (l : list (nat * flight)) : option flight :=
  match l with [] => None | (t', f) :: r => if Nat.eqb t t' then Some f else fl_get t r end.
Fixpoint fl_del (t : nat) (l : list (nat * flight)) : list (nat * flight) :=
  match l with [] => [] | (t', f) :: r => if Nat.eqb t t' then r else (t', f) :: fl_del t r end.
Fixpoint fl_set (t : nat) (f : flight) (l : list (nat * flight)) : list (nat * flight) :=
  match l with [] => [] | (t', f') :: r => if Nat.eqb t t' then (t', f) :: r else (t', f') :: fl_set t f r end.

Definition upd {A} (f : nat -> A) (n : nat) (v : A) : nat -> A := fun x => if Nat.eqb x n then v else f x.
Definition upd2 {A} (f : nat -> nat -> A) (n m : nat) (v : A) : nat -> nat -> A :=
  fun x y => if Nat.eqb x n && Nat.eqb y m then v else f x y.

Definition lstep (cfgs : list rcfg) (ninst : nat) (s : lst) (a : action) : option lst :=
  match a with
  | AStart t i k v =>
      match fl_get t (inflight s) with
      | Some _ => None
      | None => if (i <? ninst)%nat
                then Some {| ag := ag s; louts := louts s; lbusy := lbusy s;
                             inflight := (t, {| f_inst := i; f_key := k; f_val := v; f_next := 0 |}) :: inflight s;
                             done := done s |}
                else None
      end
  | ADeliver t =>
      match fl_get t (inflight s) with
      | None => None
      | Some f =>
          match nth_error cfgs (f_next f) with
          | None => None
          | Some rc =>
              Some {| ag := upd2 (ag s) (f_next f) (f_inst f)
                                 (measure (scfg rc) (f_key f) [f_val f] (ag s (f_next f) (f_inst f)));
                      louts := louts s; lbusy := lbusy s;
                      inflight := fl_set t {| f_inst := f_inst f; f_key := f_key f; f_val := f_val f; f_next := S (f_next f) |} (inflight s);
                      done := done s |}
          end
      end
  | AReturn t =>
      match fl_get t (inflight s) with
      | None => None
      | Some f => if Nat.eqb (f_next f) (length cfgs)
                  then Some {| ag := ag s; louts := louts s; lbusy := lbusy s;
                               inflight := fl_del t (inflight s);
                               done := done s ++ [(f_inst f, f_key f, f_val f)] |}
                  else None
      end
  | CStart r =>
      match nth_error cfgs r, lbusy s r with
      | Some _, None => Some {| ag := ag s; louts := louts s;
                                lbusy := upd (lbusy s) r (Some {| c_next := 0; c_part := fun _ => [] |});
                                inflight := inflight s; done := done s |}
      | _, _ => None
      end
  | CStep r =>
      match nth_error cfgs r, lbusy s r with
      | Some rc, Some c =>
          if (c_next c <? ninst)%nat
          then let '(out, a') := collect (scfg rc) 0 (ag s r (c_next c)) in
               Some {| ag := upd2 (ag s) r (c_next c) a'; louts := louts s;
                       lbusy := upd (lbusy s) r (Some {| c_next := S (c_next c); c_part := upd (c_part c) (c_next c) (o_points out) |});
                       inflight := inflight s; done := done s |}
          else None
      | _, _ => None
      end
  | CFinish r =>
      match lbusy s r with
      | Some c => if Nat.eqb (c_next c) ninst
                  then Some {| ag := ag s; louts := upd (louts s) r (louts s r ++ [c_part c]);
                               lbusy := upd (lbusy s) r None;
                               inflight := inflight s; done := done s |}
                  else None
      | None => None
      end
  end.

Fixpoint lrun (cfgs : list rcfg) (ninst : nat) (s : lst) (sched : list action) : option lst :=
  match sched with
  | [] => Some s
  | a :: r => match lstep cfgs ninst s a with Some s' => lrun cfgs ninst s' r | None => None end
  end.

Definition linit : lst :=
  {| ag := fun _ _ => new_agg 0; louts := fun _ => []; lbusy := fun _ => None; inflight := []; done := [] |}.

(** observables of a state, for one reader / instrument / attribute set *)
Definition zget (k : key) (m : amap) : Z := match get k m with Some (x :: _) => x | _ => 0 end.
Definition resid (s : lst) (r i : nat) (k : key) : Z := zget k (vals (ag s r i)).
Definition coll_sum (k : key) (i : nat) (cs : list (nat -> amap)) : Z :=
  fold_right (fun c acc => zget k (c i) + acc) 0 cs.
Definition part_sum (k : key) (i : nat) (b : option coll) : Z :=
  match b with Some c => zget k (c_part c i) | None => 0 end.
Definition done_sum (i : nat) (k : key) (d : list (nat * key * Z)) : Z :=
  fold_right (fun x acc => (if Nat.eqb (fst (fst x)) i && (snd (fst x) =? k)%N then snd x else 0) + acc) 0 d.
(** measurements in flight that have already reached reader r *)
Definition fweight (r i : nat) (k : key) (f : flight) : Z :=
  if Nat.eqb (f_inst f) i && (f_key f =? k)%N && (r <? f_next f)%nat then f_val f else 0.
Definition fly_sum (r i : nat) (k : key) (l : list (nat * flight)) : Z :=
  fold_right (fun tf acc => fweight r i k (snd tf) + acc) 0 l.
