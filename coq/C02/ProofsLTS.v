(** C02 proofs, part 2: the interleaving layer.  Conservation as an inductive invariant
    over arbitrary schedules of any number of threads. *)
From Verif Require Import Lib.Base Lib.MetricsModel C02.Spec C02.Model C02.Proofs.
Open Scope Z_scope.

(** * Small facts *)
Lemma upd_same {A} (f : nat -> A) n v : upd f n v n = v.
Proof. unfold upd. now rewrite Nat.eqb_refl. Qed.
Lemma upd_other {A} (f : nat -> A) n v m : m <> n -> upd f n v m = f m.
Proof. unfold upd. intros H. destruct (Nat.eqb_spec m n); [contradiction | reflexivity]. Qed.
Lemma upd2_same {A} (f : nat -> nat -> A) n m v : upd2 f n m v n m = v.
Proof. unfold upd2. now rewrite !Nat.eqb_refl. Qed.
Lemma upd2_other {A} (f : nat -> nat -> A) n m v x y : (x <> n \/ y <> m) -> upd2 f n m v x y = f x y.
Proof.
  unfold upd2. intros H. destruct (Nat.eqb_spec x n), (Nat.eqb_spec y m); cbn; try reflexivity.
  destruct H; contradiction.
Qed.

Lemma zget_measure c k v a k' : a_op c = OpAdd ->
  zget k' (vals (measure c k [v] a)) = zget k' (vals a) + (if (k =? k')%N then v else 0).
Proof.
  intros Ho. unfold zget. rewrite measure_get, Ho.
  destruct (N.eqb_spec k k'); destruct (get k' (vals a)) as [[|x o]|]; cbn; try lia;
    try (destruct o; cbn; lia).
Qed.

Lemma scfg_op rc : a_op (scfg rc) = OpAdd.
Proof. reflexivity. Qed.

Lemma collect_delta rc a : r_delta rc = true ->
  o_points (fst (collect (scfg rc) 0 a)) = vals a /\ vals (snd (collect (scfg rc) 0 a)) = [].
Proof.
  intros Hd. destruct (scfg_delta rc Hd) as [Hc [Hp _]]. unfold collect, o_points, out_points; cbn [fst snd vals].
  now rewrite Hc, Hp.
Qed.

Lemma done_sum_app i k d x :
  done_sum i k (d ++ [x]) = done_sum i k d + (if Nat.eqb (fst (fst x)) i && (snd (fst x) =? k)%N then snd x else 0).
Proof. unfold done_sum. induction d as [|y d IH]; cbn [app fold_right]; [now rewrite Z.add_0_r|]. rewrite IH. apply Z.add_assoc. Qed.

Lemma fly_sum_set r i k t f f' l : fl_get t l = Some f ->
  fly_sum r i k (fl_set t f' l) = fly_sum r i k l - fweight r i k f + fweight r i k f'.
Proof.
  unfold fly_sum. induction l as [|[t' g] l IH]; cbn [fl_get fl_set fold_right]; [discriminate|].
  destruct (Nat.eqb t t'); intros H.
  - inversion H; subst. cbn [fold_right snd]. lia.
  - cbn [fold_right snd]. rewrite (IH H). lia.
Qed.

Lemma fly_sum_del r i k t f l : fl_get t l = Some f ->
  fly_sum r i k (fl_del t l) = fly_sum r i k l - fweight r i k f.
Proof.
  unfold fly_sum. induction l as [|[t' g] l IH]; cbn [fl_get fl_del fold_right]; [discriminate|].
  destruct (Nat.eqb t t'); intros H.
  - inversion H; subst. cbn [snd]. lia.
  - cbn [fold_right snd]. rewrite (IH H). lia.
Qed.

Lemma coll_sum_app k i cs c : coll_sum k i (cs ++ [c]) = coll_sum k i cs + zget k (c i).
Proof. unfold coll_sum. induction cs as [|y cs IH]; cbn [app fold_right]; [now rewrite Z.add_0_r|]. rewrite IH. apply Z.add_assoc. Qed.

(** * The invariant *)
Definition gone (rc : rcfg) (s : lst) (r i : nat) (k : key) : Z :=
  if r_delta rc then coll_sum k i (louts s r) + part_sum k i (lbusy s r) else 0.

Definition Inv (cfgs : list rcfg) (s : lst) : Prop :=
  (forall r c, lbusy s r = Some c -> forall i, (c_next c <= i)%nat -> c_part c i = []) /\
  (forall r rc i k, nth_error cfgs r = Some rc ->
     resid s r i k + gone rc s r i k = done_sum i k (done s) + fly_sum r i k (inflight s)).

Lemma inv_init cfgs : Inv cfgs linit.
Proof.
  split.
  - intros r c H. discriminate.
  - intros r rc i k _. unfold resid, gone; cbn. destruct (r_delta rc); reflexivity.
Qed.

Lemma zget_nil k : zget k [] = 0.
Proof. reflexivity. Qed.

Lemma lstep_inv cfgs ninst s a s' : Inv cfgs s -> lstep cfgs ninst s a = Some s' -> Inv cfgs s'.
Proof.
  intros [Hpart Hsum] Hs. destruct a as [t i0 k0 v0|t|t|r0|r0|r0]; cbn [lstep] in Hs.
  - (* AStart *)
    destruct (fl_get t (inflight s)); [discriminate|]. destruct (i0 <? ninst)%nat; [|discriminate].
    inversion Hs; subst; clear Hs. split; [exact Hpart|].
    intros r rc i k Hr. specialize (Hsum r rc i k Hr). unfold resid, gone in *. cbn [ag louts lbusy done inflight].
    unfold fly_sum. cbn [fold_right snd]. fold (fly_sum r i k (inflight s)).
    unfold fweight; cbn [f_inst f_key f_val f_next]. rewrite andb_false_r. lia.
  - (* ADeliver *)
    destruct (fl_get t (inflight s)) as [f|] eqn:Hf; [|discriminate].
    destruct (nth_error cfgs (f_next f)) as [rcj|] eqn:Hj; [|discriminate].
    inversion Hs; subst; clear Hs. split; [exact Hpart|].
    intros r rc i k Hr. specialize (Hsum r rc i k Hr). unfold resid, gone in *. cbn [ag louts lbusy done inflight].
    rewrite (fly_sum_set r i k t f _ _ Hf).
    unfold fweight; cbn [f_inst f_key f_val f_next].
    destruct (Nat.eq_dec r (f_next f)) as [Er|Er]; destruct (Nat.eq_dec i (f_inst f)) as [Ei|Ei].
    + subst r i. rewrite upd2_same. rewrite zget_measure by apply scfg_op.
      rewrite Nat.eqb_refl. cbn [andb].
      replace (f_next f <? f_next f)%nat with false by (symmetry; apply Nat.ltb_ge; lia).
      replace (f_next f <? S (f_next f))%nat with true by (symmetry; apply Nat.ltb_lt; lia).
      rewrite andb_false_r, andb_true_r. destruct (f_key f =? k)%N; lia.
    + rewrite upd2_other by (right; exact Ei).
      replace (Nat.eqb (f_inst f) i) with false by (symmetry; apply Nat.eqb_neq; congruence). cbn [andb]. lia.
    + rewrite upd2_other by (left; exact Er).
      replace (r <? S (f_next f))%nat with (r <? f_next f)%nat; [lia|].
      destruct (Nat.ltb_spec r (f_next f)); destruct (Nat.ltb_spec r (S (f_next f))); try reflexivity; lia.
    + rewrite upd2_other by (left; exact Er).
      replace (Nat.eqb (f_inst f) i) with false by (symmetry; apply Nat.eqb_neq; congruence). cbn [andb]. lia.
  - (* AReturn *)
    destruct (fl_get t (inflight s)) as [f|] eqn:Hf; [|discriminate].
    destruct (Nat.eqb_spec (f_next f) (length cfgs)) as [En|]; [|discriminate].
    inversion Hs; subst; clear Hs. split; [exact Hpart|].
    intros r rc i k Hr. specialize (Hsum r rc i k Hr). unfold resid, gone in *. cbn [ag louts lbusy done inflight].
    rewrite done_sum_app, (fly_sum_del r i k t f _ Hf). cbn [fst snd].
    unfold fweight. assert (Hlt : (r <? f_next f)%nat = true).
    { apply Nat.ltb_lt. rewrite En. apply nth_error_Some. congruence. }
    rewrite Hlt, andb_true_r. lia.
  - (* CStart *)
    destruct (nth_error cfgs r0) as [rc0|] eqn:Hr0; [|discriminate].
    destruct (lbusy s r0) eqn:Hb; [discriminate|].
    inversion Hs; subst; clear Hs. split.
    + intros r c Hc i Hi. cbn [lbusy] in Hc. destruct (Nat.eq_dec r r0) as [->|Hn].
      * rewrite upd_same in Hc. inversion Hc; subst. reflexivity.
      * rewrite upd_other in Hc by exact Hn. eapply Hpart; eassumption.
    + intros r rc i k Hr. specialize (Hsum r rc i k Hr). unfold resid, gone in *. cbn [ag louts lbusy done inflight].
      destruct (Nat.eq_dec r r0) as [->|Hn].
      * rewrite upd_same. rewrite Hb in Hsum. cbn [part_sum c_part] in *. rewrite zget_nil. exact Hsum.
      * rewrite upd_other by exact Hn. exact Hsum.
  - (* CStep *)
    destruct (nth_error cfgs r0) as [rc0|] eqn:Hr0; [|discriminate].
    destruct (lbusy s r0) as [c0|] eqn:Hb; [|discriminate].
    destruct (c_next c0 <? ninst)%nat; [|discriminate].
    destruct (collect (scfg rc0) 0 (ag s r0 (c_next c0))) as [out a'] eqn:Ec.
    inversion Hs; subst; clear Hs. split.
    + intros r c Hc i Hi. cbn [lbusy] in Hc. destruct (Nat.eq_dec r r0) as [->|Hn].
      * rewrite upd_same in Hc. inversion Hc; subst. cbn [c_next c_part] in *.
        rewrite upd_other by lia. apply (Hpart r0 c0 Hb). lia.
      * rewrite upd_other in Hc by exact Hn. eapply Hpart; eassumption.
    + intros r rc i k Hr. specialize (Hsum r rc i k Hr). unfold resid, gone in *. cbn [ag louts lbusy done inflight].
      destruct (Nat.eq_dec r r0) as [->|Hn].
      * assert (rc = rc0) by congruence. subst rc0. rewrite upd_same. rewrite Hb in Hsum. cbn [part_sum c_part] in *.
        destruct (Nat.eq_dec i (c_next c0)) as [->|Hi].
        -- rewrite upd2_same, upd_same.
           assert (Hz : c_part c0 (c_next c0) = []) by (apply (Hpart r0 c0 Hb); lia). rewrite Hz, zget_nil in Hsum.
           destruct (r_delta rc) eqn:Hd.
           ++ destruct (collect_delta rc (ag s r0 (c_next c0)) Hd) as [H1 H2]. rewrite Ec in H1, H2. cbn [fst snd] in H1, H2.
              rewrite H1, H2, zget_nil. lia.
           ++ destruct (scfg_cum rc Hd) as [_ [Ht [Hp _]]].
              pose proof (collect_cum_id (scfg rc) 0%N (ag s r0 (c_next c0)) Ht Hp) as Hid. rewrite Ec in Hid. cbn [snd] in Hid.
              subst a'. lia.
        -- rewrite upd2_other by (right; exact Hi). rewrite upd_other by exact Hi. exact Hsum.
      * rewrite upd2_other by (left; exact Hn). rewrite upd_other by exact Hn. exact Hsum.
  - (* CFinish *)
    destruct (lbusy s r0) as [c0|] eqn:Hb; [|discriminate].
    destruct (Nat.eqb (c_next c0) ninst); [|discriminate].
    inversion Hs; subst; clear Hs. split.
    + intros r c Hc i Hi. cbn [lbusy] in Hc. destruct (Nat.eq_dec r r0) as [->|Hn].
      * rewrite upd_same in Hc. discriminate.
      * rewrite upd_other in Hc by exact Hn. eapply Hpart; eassumption.
    + intros r rc i k Hr. specialize (Hsum r rc i k Hr). unfold resid, gone in *. cbn [ag louts lbusy done inflight].
      destruct (Nat.eq_dec r r0) as [->|Hn].
      * rewrite !upd_same. rewrite Hb in Hsum. cbn [part_sum] in *. rewrite coll_sum_app. destruct (r_delta rc); lia.
      * rewrite !upd_other by exact Hn. exact Hsum.
Qed.

Lemma lrun_inv cfgs ninst sched : forall s s', Inv cfgs s -> lrun cfgs ninst s sched = Some s' -> Inv cfgs s'.
Proof.
  induction sched as [|a r IH]; intros s s' Hi Hr; cbn [lrun] in Hr.
  - inversion Hr; subst. exact Hi.
  - destruct (lstep cfgs ninst s a) as [s1|] eqn:Hs; [|discriminate].
    eapply IH; [eapply lstep_inv; eassumption | exact Hr].
Qed.

(** conservation at every reachable state, for every reader, instrument and attribute set *)
Lemma lts_conservation cfgs ninst sched s : lrun cfgs ninst linit sched = Some s ->
  forall r rc i k, nth_error cfgs r = Some rc ->
    resid s r i k + gone rc s r i k = done_sum i k (done s) + fly_sum r i k (inflight s).
Proof. intros Hr. apply (lrun_inv cfgs ninst sched linit s (inv_init cfgs) Hr). Qed.

Lemma lts_quiescent : forall cfgs ninst sched s,
  lrun cfgs ninst linit sched = Some s -> inflight s = [] ->
  forall r rc i k, nth_error cfgs r = Some rc -> lbusy s r = None ->
    (r_delta rc = true -> coll_sum k i (louts s r) + resid s r i k = done_sum i k (done s)) /\
    (r_delta rc = false -> resid s r i k = done_sum i k (done s)).
Proof.
  intros cfgs ninst sched s Hr Hf r rc i k Hrc Hb.
  pose proof (lts_conservation cfgs ninst sched s Hr r rc i k Hrc) as H.
  unfold gone in H. rewrite Hf, Hb in H. cbn in H. split; intros Hd; rewrite Hd in H; lia.
Qed.

(** * Monotone sums under interleavings *)
Fixpoint sortedZ (l : list Z) : Prop :=
  match l with [] => True | x :: r => (forall y, In y r -> x <= y) /\ sortedZ r end.

Lemma sortedZ_snoc l v : sortedZ l -> (forall x, In x l -> x <= v) -> sortedZ (l ++ [v]).
Proof.
  induction l as [|x r IH]; intros Hs Hle; cbn [app sortedZ]; [split; [intros y []| exact I]|].
  destruct Hs as [Hx Hs]. split.
  - intros y Hy. apply in_app_or in Hy as [Hy|[<-|[]]]; [now apply Hx | apply Hle; now left].
  - apply IH; [exact Hs|]. intros y Hy. apply Hle. now right.
Qed.

Definition part_list (k : key) (i : nat) (b : option coll) : list Z :=
  match b with Some c => if (i <? c_next c)%nat then [zget k (c_part c i)] else [] | None => [] end.
Definition vals_list (s : lst) (r i : nat) (k : key) : list Z :=
  map (fun c => zget k (c i)) (louts s r) ++ part_list k i (lbusy s r).

Definition sched_nonneg (sched : list action) : Prop :=
  Forall (fun a => match a with AStart _ _ _ v => 0 <= v | _ => True end) sched.

Definition MInv (cfgs : list rcfg) (ninst : nat) (s : lst) : Prop :=
  (forall t f, In (t, f) (inflight s) -> 0 <= f_val f) /\
  (forall r c, lbusy s r = Some c -> (c_next c <= ninst)%nat) /\
  (forall r rc i k, nth_error cfgs r = Some rc -> r_delta rc = false -> (i < ninst)%nat ->
     sortedZ (vals_list s r i k) /\ forall x, In x (vals_list s r i k) -> x <= resid s r i k).

Lemma fl_get_in t l f : fl_get t l = Some f -> In (t, f) l.
Proof.
  induction l as [|[t' g] l IH]; cbn [fl_get]; [discriminate|].
  destruct (Nat.eqb_spec t t'); intros H; [inversion H; subst; now left | right; now apply IH].
Qed.
Lemma fl_set_in t f l x : In x (fl_set t f l) -> In x l \/ x = (t, f).
Proof.
  induction l as [|[t' g] l IH]; cbn [fl_set]; [intros []|].
  destruct (Nat.eqb_spec t t'); intros [H|H].
  - subst. now right.
  - left. now right.
  - left. now left.
  - destruct (IH H); [left; now right | now right].
Qed.
Lemma fl_del_in t l x : In x (fl_del t l) -> In x l.
Proof.
  induction l as [|[t' g] l IH]; cbn [fl_del]; [intros []|].
  destruct (Nat.eqb t t'); intros H; [now right|]. destruct H; [now left | right; now apply IH].
Qed.

Lemma collect_cum_points rc a : r_delta rc = false -> o_points (fst (collect (scfg rc) 0 a)) = vals a.
Proof.
  intros Hd. unfold collect, o_points, out_points, is_presum_delta; cbn [fst snd]. unfold scfg; cbn. now rewrite Hd.
Qed.

Lemma mstep_inv cfgs ninst s a s' :
  match a with AStart _ _ _ v => 0 <= v | _ => True end ->
  MInv cfgs ninst s -> lstep cfgs ninst s a = Some s' -> MInv cfgs ninst s'.
Proof.
  intros Hv [Hfl [Hnext Hm]] Hs. destruct a as [t i0 k0 v0|t|t|r0|r0|r0]; cbn [lstep] in Hs.
  - destruct (fl_get t (inflight s)); [discriminate|]. destruct (i0 <? ninst)%nat; [|discriminate].
    inversion Hs; subst; clear Hs. split; [|split; [exact Hnext | exact Hm]].
    intros t' f [E|Hin]; [inversion E; subst; exact Hv | eapply Hfl; exact Hin].
  - destruct (fl_get t (inflight s)) as [f|] eqn:Hf; [|discriminate].
    destruct (nth_error cfgs (f_next f)) as [rcj|] eqn:Hj; [|discriminate].
    inversion Hs; subst; clear Hs.
    assert (Hvf : 0 <= f_val f) by (eapply Hfl; apply fl_get_in; exact Hf).
    split; [|split; [exact Hnext|]].
    + intros t' g Hin. apply fl_set_in in Hin as [Hin|E]; [eapply Hfl; exact Hin | inversion E; subst; exact Hvf].
    + intros r rc i k Hr Hd Hi. destruct (Hm r rc i k Hr Hd Hi) as [Hso Hle].
      unfold vals_list, resid in *. cbn [ag louts lbusy]. split; [exact Hso|].
      intros x Hx. specialize (Hle x Hx).
      destruct (Nat.eq_dec r (f_next f)) as [Er|Er]; destruct (Nat.eq_dec i (f_inst f)) as [Ei|Ei].
      * subst r i. rewrite upd2_same, zget_measure by apply scfg_op. destruct (f_key f =? k)%N; lia.
      * rewrite upd2_other by (right; exact Ei). exact Hle.
      * rewrite upd2_other by (left; exact Er). exact Hle.
      * rewrite upd2_other by (left; exact Er). exact Hle.
  - destruct (fl_get t (inflight s)) as [f|] eqn:Hf; [|discriminate].
    destruct (Nat.eqb (f_next f) (length cfgs)); [|discriminate].
    inversion Hs; subst; clear Hs. split; [|split; [exact Hnext | exact Hm]].
    intros t' g Hin. apply fl_del_in in Hin. eapply Hfl; exact Hin.
  - destruct (nth_error cfgs r0) as [rc0|] eqn:Hr0; [|discriminate].
    destruct (lbusy s r0) eqn:Hb; [discriminate|].
    inversion Hs; subst; clear Hs. split; [exact Hfl|]. split.
    + intros r c Hc. cbn [lbusy] in Hc. destruct (Nat.eq_dec r r0) as [->|Hn].
      * rewrite upd_same in Hc. inversion Hc; subst. cbn. lia.
      * rewrite upd_other in Hc by exact Hn. eapply Hnext; exact Hc.
    + intros r rc i k Hr Hd Hi. destruct (Hm r rc i k Hr Hd Hi) as [Hso Hle].
      unfold vals_list, resid in *. cbn [ag louts lbusy]. destruct (Nat.eq_dec r r0) as [->|Hn].
      * rewrite upd_same. rewrite Hb in Hso, Hle. cbn [part_list c_next] in *.
        replace (i <? 0)%nat with false by (symmetry; apply Nat.ltb_ge; lia). now split.
      * rewrite upd_other by exact Hn. now split.
  - destruct (nth_error cfgs r0) as [rc0|] eqn:Hr0; [|discriminate].
    destruct (lbusy s r0) as [c0|] eqn:Hb; [|discriminate].
    destruct (Nat.ltb_spec (c_next c0) ninst) as [Hlt|]; [|discriminate].
    destruct (collect (scfg rc0) 0 (ag s r0 (c_next c0))) as [out a'] eqn:Ec.
    inversion Hs; subst; clear Hs. split; [exact Hfl|]. split.
    + intros r c Hc. cbn [lbusy] in Hc. destruct (Nat.eq_dec r r0) as [->|Hn].
      * rewrite upd_same in Hc. inversion Hc; subst. cbn. lia.
      * rewrite upd_other in Hc by exact Hn. eapply Hnext; exact Hc.
    + intros r rc i k Hr Hd Hi. destruct (Hm r rc i k Hr Hd Hi) as [Hso Hle].
      unfold vals_list, resid in *. cbn [ag louts lbusy]. destruct (Nat.eq_dec r r0) as [->|Hn].
      * assert (rc = rc0) by congruence. subst rc0. rewrite upd_same. rewrite Hb in Hso, Hle. cbn [part_list c_next c_part] in *.
        destruct (scfg_cum rc Hd) as [_ [Ht [Hp _]]].
        pose proof (collect_cum_id (scfg rc) 0%N (ag s r0 (c_next c0)) Ht Hp) as Hid. rewrite Ec in Hid. cbn [snd] in Hid. subst a'.
        pose proof (collect_cum_points rc (ag s r0 (c_next c0)) Hd) as Hpt. rewrite Ec in Hpt. cbn [fst] in Hpt.
        destruct (Nat.eq_dec i (c_next c0)) as [->|Hne].
        -- rewrite upd2_same, upd_same.
           replace (c_next c0 <? c_next c0)%nat with false in * by (symmetry; apply Nat.ltb_ge; lia).
           replace (c_next c0 <? S (c_next c0))%nat with true by (symmetry; apply Nat.ltb_lt; lia).
           rewrite app_nil_r in Hso, Hle. rewrite Hpt. split.
           ++ apply sortedZ_snoc; assumption.
           ++ intros x Hx. apply in_app_or in Hx as [Hx|[<-|[]]]; [now apply Hle | unfold zget; lia].
        -- rewrite upd2_other by (right; exact Hne). rewrite upd_other by exact Hne.
           replace (i <? S (c_next c0))%nat with (i <? c_next c0)%nat; [now split|].
           destruct (Nat.ltb_spec i (c_next c0)); destruct (Nat.ltb_spec i (S (c_next c0))); try reflexivity; lia.
      * rewrite upd2_other by (left; exact Hn). rewrite upd_other by exact Hn. now split.
  - destruct (lbusy s r0) as [c0|] eqn:Hb; [|discriminate].
    destruct (Nat.eqb_spec (c_next c0) ninst) as [En|]; [|discriminate].
    inversion Hs; subst; clear Hs. split; [exact Hfl|]. split.
    + intros r c Hc. cbn [lbusy] in Hc. destruct (Nat.eq_dec r r0) as [->|Hn].
      * rewrite upd_same in Hc. discriminate.
      * rewrite upd_other in Hc by exact Hn. eapply Hnext; exact Hc.
    + intros r rc i k Hr Hd Hi. destruct (Hm r rc i k Hr Hd Hi) as [Hso Hle].
      unfold vals_list, resid in *. cbn [ag louts lbusy]. destruct (Nat.eq_dec r r0) as [->|Hn].
      * rewrite !upd_same. rewrite Hb in Hso, Hle. cbn [part_list] in *.
        replace (i <? c_next c0)%nat with true in * by (symmetry; apply Nat.ltb_lt; lia).
        rewrite map_app. cbn [map part_list]. rewrite app_nil_r. now split.
      * rewrite !upd_other by exact Hn. now split.
Qed.

Lemma minv_init cfgs ninst : MInv cfgs ninst linit.
Proof.
  split; [intros t f []|]. split; [intros r c H; discriminate|].
  intros r rc i k _ _ _. unfold vals_list; cbn. split; [exact I | intros x []].
Qed.

Lemma mrun_inv cfgs ninst sched : forall s s', sched_nonneg sched -> MInv cfgs ninst s ->
  lrun cfgs ninst s sched = Some s' -> MInv cfgs ninst s'.
Proof.
  induction sched as [|a r IH]; intros s s' Hn Hi Hr; cbn [lrun] in Hr.
  - inversion Hr; subst. exact Hi.
  - destruct (lstep cfgs ninst s a) as [s1|] eqn:Hs; [|discriminate].
    inversion Hn; subst. eapply IH; [eassumption | eapply mstep_inv; eassumption | exact Hr].
Qed.

(** under any schedule with non-negative values, the successive values a cumulative reader has
    delivered for one attribute set never decrease, and never exceed what the aggregator holds *)
Lemma lts_monotone cfgs ninst sched s : sched_nonneg sched -> lrun cfgs ninst linit sched = Some s ->
  forall r rc i k, nth_error cfgs r = Some rc -> r_delta rc = false -> (i < ninst)%nat ->
    sortedZ (map (fun c => zget k (c i)) (louts s r)) /\
    forall x, In x (map (fun c => zget k (c i)) (louts s r)) -> x <= resid s r i k.
Proof.
  intros Hn Hr r rc i k Hrc Hd Hi.
  destruct (mrun_inv cfgs ninst sched linit s Hn (minv_init cfgs ninst) Hr) as [_ [_ Hm]].
  destruct (Hm r rc i k Hrc Hd Hi) as [Hso Hle]. unfold vals_list in *. split.
  - clear Hle. revert Hso. generalize (part_list k i (lbusy s r)). generalize (map (fun c => zget k (c i)) (louts s r)).
    intros l p. induction l as [|x l IH]; cbn [app sortedZ]; [auto|]. intros [Hx Hs]. split; [|now apply IH].
    intros y Hy. apply Hx. apply in_or_app. now left.
  - intros x Hx. apply Hle. apply in_or_app. now left.
Qed.
