(** C02 proofs, part 1: sequential histories. *)
From Verif Require Import Lib.Base Lib.MetricsModel C02.Spec C02.Model.
Open Scope Z_scope.

(** * Spec vocabulary = model vocabulary *)
Lemma pget_get k p : pget k p = get k p.
Proof. reflexivity. Qed.
Lemma psorted_ksorted p : psorted p = ksorted p.
Proof. reflexivity. Qed.

Definition vm1 (c : list (skey * Z)) : list (key * vec) := map (fun kv => (fst kv, [snd kv])) c.
Definition tm0 (n : nat) : N := 0%N.

Lemma vm1_app a b : vm1 (a ++ b) = vm1 a ++ vm1 b.
Proof. unfold vm1. apply map_app. Qed.
Lemma measure_all_app c l1 l2 a : measure_all c (l1 ++ l2) a = measure_all c l2 (measure_all c l1 a).
Proof. unfold measure_all. apply fold_left_app. Qed.

Lemma ofold_add_total k c : ofold OpAdd (sel k (vm1 c)) = one (cyc_total k c).
Proof.
  induction c as [|[k' v] r IH]; [reflexivity|].
  cbn [vm1 map sel fst snd ofold fold_right cyc_total]. fold (vm1 r). fold (sel k (vm1 r)). fold (ofold OpAdd (sel k (vm1 r))).
  rewrite IH. destruct (N.eqb_spec k' k).
  - destruct (cyc_total k r); cbn; [reflexivity | now rewrite Z.add_0_r].
  - reflexivity.
Qed.

Lemma cyc_total_app k a b :
  cyc_total k (a ++ b) =
  match cyc_total k a, cyc_total k b with
  | None, y => y
  | x, None => x
  | Some x, Some y => Some (x + y)
  end.
Proof.
  induction a as [|[k' v] r IH]; cbn [app cyc_total].
  - destruct (cyc_total k b); reflexivity.
  - destruct (N.eqb_spec k' k); [|exact IH]. rewrite IH.
    destruct (cyc_total k r), (cyc_total k b); f_equal; lia.
Qed.

Lemma total_app k a b : total k (a ++ b) = total k a + total k b.
Proof. unfold total. rewrite cyc_total_app. destruct (cyc_total k a), (cyc_total k b); lia. Qed.

(** * A cumulative collection does not change the aggregator *)
Lemma collect_cum_id c now a : a_temp c = Cumulative -> a_pre c = false -> snd (collect c now a) = a.
Proof.
  intros Ht Hp. unfold collect, clears, is_presum_delta. cbn [snd]. rewrite Ht, Hp.
  destruct (a_op c); destruct a; reflexivity.
Qed.

Lemma scfg_delta rc : r_delta rc = true ->
  clears (scfg rc) = true /\ is_presum_delta (scfg rc) = false /\ a_op (scfg rc) = OpAdd.
Proof. intros H. unfold scfg, clears, is_presum_delta; cbn. rewrite H. auto. Qed.
Lemma scfg_cum rc : r_delta rc = false ->
  clears (scfg rc) = false /\ a_temp (scfg rc) = Cumulative /\ a_pre (scfg rc) = false /\ a_op (scfg rc) = OpAdd.
Proof. intros H. unfold scfg, clears; cbn. rewrite H. auto. Qed.

Lemma collect_delta_reset rc l : r_delta rc = true ->
  snd (collect (scfg rc) 0 (measure_all (scfg rc) l (new_agg 0))) = new_agg 0.
Proof.
  intros Hd. destruct (scfg_delta rc Hd) as [Hc [Hp _]]. unfold collect. cbn [snd]. rewrite Hc, Hp.
  rewrite measure_all_reported. unfold scfg; cbn. now rewrite Hd.
Qed.

(** * Unfolding lemmas *)
Definition reader_op (o : op) : bool := match o with Add _ _ _ | SetErr _ => false | _ => true end.

Definition st_of (x : sst * list points * N) : sst := fst (fst x).
Definition outs_of (x : sst * list points * N) : list points := snd (fst x).
Definition code_of (x : sst * list points * N) : N := snd x.

Lemma srun_cons_outs rc r i o t s :
  fst (fst (srun rc r i (o :: t) s)) =
  outs_of (sstep rc r i s o) ++ fst (fst (srun rc r i t (st_of (sstep rc r i s o)))).
Proof.
  cbn [srun]. destruct (sstep rc r i s o) as [[s' outs] c]. unfold outs_of, st_of; cbn [fst snd].
  destruct (srun rc r i t s') as [[outs' cs] sf]. reflexivity.
Qed.
Lemma srun_cons_codes rc r i o t s :
  snd (fst (srun rc r i (o :: t) s)) =
  (if (code_of (sstep rc r i s o) =? E_NA)%N then [] else [code_of (sstep rc r i s o)]) ++
  snd (fst (srun rc r i t (st_of (sstep rc r i s o)))).
Proof.
  cbn [srun]. destruct (sstep rc r i s o) as [[s' outs] c]. unfold code_of, st_of; cbn [fst snd].
  destruct (srun rc r i t s') as [[outs' cs] sf]. reflexivity.
Qed.
Lemma srun_cons_final rc r i o t s :
  snd (srun rc r i (o :: t) s) = snd (srun rc r i t (st_of (sstep rc r i s o))).
Proof.
  cbn [srun]. destruct (sstep rc r i s o) as [[s' outs] c]. unfold st_of; cbn [fst snd].
  destruct (srun rc r i t s') as [[outs' cs] sf]. reflexivity.
Qed.

Lemma sstep_reader rc r i s o : reader_op o = true ->
  sstep rc r i s o =
  match attempt rc r (s_down s) (s_err s) (s_any s) o with
  | (CNone, down', c) => ({| s_agg := s_agg s; s_down := down'; s_err := s_err s; s_any := s_any s |}, [], c)
  | (CDelivered, down', c) =>
      ({| s_agg := snd (collect (scfg rc) 0 (s_agg s)); s_down := down'; s_err := s_err s; s_any := next_ad rc (s_any s) |},
       [o_points (fst (collect (scfg rc) 0 (s_agg s)))], c)
  | (CDropped, down', c) =>
      ({| s_agg := snd (collect (scfg rc) 0 (s_agg s)); s_down := down'; s_err := s_err s; s_any := next_ad rc (s_any s) |}, [], c)
  end.
Proof. destruct o; intros H; try discriminate; reflexivity. Qed.

Lemma cycles_reader lossy rc r i o t down err ad cur : reader_op o = true ->
  cycles lossy rc r i (o :: t) down err ad cur =
  match attempt rc r down err ad o with
  | (CNone, down', _) => cycles lossy rc r i t down' err ad cur
  | (CDelivered, down', _) => cur :: cycles lossy rc r i t down' err (next_ad rc ad) []
  | (CDropped, down', _) => cycles lossy rc r i t down' err (next_ad rc ad) (if lossy && r_delta rc then [] else cur)
  end.
Proof. destruct o; intros H; try discriminate; reflexivity. Qed.

Lemma pending_reader lossy rc r i o t down err ad cur : reader_op o = true ->
  pending lossy rc r i (o :: t) down err ad cur =
  match attempt rc r down err ad o with
  | (CNone, down', _) => pending lossy rc r i t down' err ad cur
  | (CDelivered, down', _) => pending lossy rc r i t down' err (next_ad rc ad) []
  | (CDropped, down', _) => pending lossy rc r i t down' err (next_ad rc ad) (if lossy && r_delta rc then [] else cur)
  end.
Proof. destruct o; intros H; try discriminate; reflexivity. Qed.

Lemma codes_reader rc r o t down err ad : reader_op o = true ->
  codes rc r (o :: t) down err ad =
  match attempt rc r down err ad o with
  | (x, down', c) => (if (c =? E_NA)%N then [] else [c]) ++
                     codes rc r t down' err (match x with CNone => ad | _ => next_ad rc ad end)
  end.
Proof. destruct o; intros H; try discriminate; reflexivity. Qed.

(** * The operational stream is the aggregator run over the (lossy) cycles of the history *)
Lemma srun_cycles rc r i h : forall a cur down err ad n,
  (r_delta rc = true -> a = new_agg 0) ->
  fst (fst (srun rc r i h {| s_agg := measure_all (scfg rc) (vm1 cur) a; s_down := down; s_err := err; s_any := ad |})) =
  map o_points (arun (scfg rc) (map vm1 (cycles true rc r i h down err ad cur)) tm0 n a).
Proof.
  induction h as [|o t IH]; intros a cur down err ad n Ha; [reflexivity|].
  rewrite srun_cons_outs.
  destruct (reader_op o) eqn:Hro.
  - rewrite (sstep_reader rc r i _ o Hro), (cycles_reader true rc r i o t down err ad cur Hro).
    cbn [s_down s_err s_agg s_any].
    destruct (attempt rc r down err ad o) as [[c d'] code]. destruct c; unfold outs_of, st_of; cbn [fst snd app].
    + now apply IH.
    + cbn [map]. rewrite arun_cons. cbn [map]. f_equal.
      apply (IH _ [] d' err _ (S n)). intros Hd. rewrite (Ha Hd). now apply collect_delta_reset.
    + destruct (r_delta rc) eqn:Hd; cbn [andb].
      * rewrite (Ha eq_refl). rewrite collect_delta_reset by exact Hd. apply (IH (new_agg 0) [] d' err _ n). reflexivity.
      * destruct (scfg_cum rc Hd) as [_ [Ht [Hp _]]]. rewrite collect_cum_id by assumption. apply IH. intros; discriminate.
  - destruct o as [i' k v| | | | |b|]; try discriminate; cbn [sstep cycles]; unfold outs_of, st_of.
    + destruct (Nat.eqb i' i); cbn [fst snd app s_agg s_down s_err s_any].
      * rewrite <- (IH a (cur ++ [(k, v)]) down err true n Ha). rewrite vm1_app, measure_all_app. reflexivity.
      * now apply IH.
    + cbn [fst snd app s_agg s_down s_err s_any]. now apply IH.
Qed.

Lemma stream_arun rc r i h :
  stream rc r i h = map o_points (arun (scfg rc) (map vm1 (cycles true rc r i h false false false [])) tm0 0 (new_agg 0)).
Proof. unfold stream, sinit. apply (srun_cycles rc r i h (new_agg 0) [] false false false 0%nat). reflexivity. Qed.

Lemma nth_opoints (tr : list sobs) n : nth n (map o_points tr) [] = o_points (nth n tr odflt).
Proof. change [] with (o_points odflt) at 1. now rewrite map_nth. Qed.
Lemma nth_vm1 cyc n : nth n (map vm1 cyc) [] = vm1 (nth n cyc []).
Proof. change [] with (vm1 []) at 1. now rewrite map_nth. Qed.
Lemma concat_vm1 cs : concat (map vm1 cs) = vm1 (concat cs).
Proof. induction cs as [|c r IH]; [reflexivity|]. cbn [map concat]. now rewrite IH, vm1_app. Qed.

Lemma stream_length rc r i h : length (stream rc r i h) = length (cycles true rc r i h false false false []).
Proof. now rewrite stream_arun, map_length, arun_length, map_length. Qed.

(** what the model delivers, in terms of the lossy cycles (no guard) *)
Lemma delta_exact_lossy rc r i h : r_delta rc = true ->
  DeltaExact (cycles true rc r i h false false false []) (stream rc r i h).
Proof.
  intros Hd. destruct (scfg_delta rc Hd) as [Hc [Hp Ho]].
  split; [apply stream_length|]. intros n k Hn.
  rewrite stream_arun, nth_opoints, pget_get.
  rewrite arun_cycle_exact; try assumption; try reflexivity; [|now rewrite map_length].
  rewrite Ho, nth_vm1. apply ofold_add_total.
Qed.

Lemma cum_total_lossy rc r i h : r_delta rc = false ->
  CumTotal (cycles true rc r i h false false false []) (stream rc r i h).
Proof.
  intros Hd. destruct (scfg_cum rc Hd) as [Hc [Ht [Hp Ho]]].
  split; [apply stream_length|]. intros n k Hn.
  rewrite stream_arun, nth_opoints, pget_get.
  rewrite arun_sofar; try assumption; [|now rewrite map_length].
  rewrite Ho. cbn [new_agg vals get ocomb]. rewrite firstn_map, concat_vm1. apply ofold_add_total.
Qed.

(** * When is a delivery skipped?  Only when a periodic reader's callback failed and the
    collection produced nothing (fixes b162dd7, e0f719a). *)
Definition is_shutdown (r : nat) (o : op) : bool := match o with Shutdown r' => Nat.eqb r' r | _ => false end.

Lemma attempt_dropped rc r down err ad o : fst (fst (attempt rc r down err ad o)) = CDropped -> ad = false.
Proof.
  destruct ad; [|reflexivity]. intros H. exfalso. revert H.
  destruct o as [i k v|r'|r'|r'|r'|b|r']; cbn [attempt];
    try destruct (Nat.eqb r' r); try destruct (rk rc); destruct down, err; try destruct (r_cb rc); cbn; discriminate.
Qed.

(** nothing is ever lost: the lossy and the ideal reading coincide.  Invariant: a delta reader
    with nothing to report has no measurement waiting. *)
Definition quiet (rc : rcfg) (ad : bool) (cur : list (skey * Z)) : Prop :=
  r_delta rc = true -> ad = false -> cur = [].

Lemma cycles_clean l1 l2 rc r i h : forall down err ad cur, quiet rc ad cur ->
  cycles l1 rc r i h down err ad cur = cycles l2 rc r i h down err ad cur /\
  pending l1 rc r i h down err ad cur = pending l2 rc r i h down err ad cur.
Proof.
  induction h as [|o t IH]; intros down err ad cur Hq; [split; reflexivity|].
  assert (Hq0 : forall a, quiet rc (next_ad rc a) []) by (intros a _ _; reflexivity).
  destruct (reader_op o) eqn:Hro.
  - rewrite !cycles_reader, !pending_reader by exact Hro.
    pose proof (attempt_dropped rc r down err ad o) as Hd.
    destruct (attempt rc r down err ad o) as [[c d'] code]. destruct c; cbn [fst] in Hd.
    + now apply IH.
    + destruct (IH d' err (next_ad rc ad) [] (Hq0 ad)) as [E1 E2]. now rewrite E1, E2.
    + pose proof (Hd eq_refl) as Had.
      assert (Ecur : (if l1 && r_delta rc then [] else cur) = (if l2 && r_delta rc then [] else cur)).
      { destruct (r_delta rc) eqn:Hdl; [|now rewrite !andb_false_r].
        rewrite (Hq Hdl Had). destruct l1, l2; reflexivity. }
      rewrite Ecur. apply IH.
      intros Hdl _. destruct (l2 && r_delta rc); [reflexivity|]. now apply Hq.
  - destruct o as [i' k v| | | | |b|]; try discriminate; cbn [cycles pending].
    + apply IH. intros _ Hx. discriminate.
    + now apply IH.
Qed.

(** for cumulative readers the two readings coincide always *)
Lemma cycles_cum l1 l2 rc r i h : r_delta rc = false -> forall down err ad cur,
  cycles l1 rc r i h down err ad cur = cycles l2 rc r i h down err ad cur.
Proof.
  intros Hd. induction h as [|o t IH]; intros down err ad cur; [reflexivity|].
  destruct (reader_op o) eqn:Hro.
  - rewrite !cycles_reader by exact Hro. rewrite Hd, !andb_false_r.
    destruct (attempt rc r down err ad o) as [[c d'] code]. destruct c; try apply IH. f_equal. apply IH.
  - destruct o as [i' k v| | | | |b|]; try discriminate; cbn [cycles]; apply IH.
Qed.

Lemma quiet_init rc : quiet rc false [].
Proof. intros _ _. reflexivity. Qed.

(** clause: each measurement is counted in exactly one delta collection *)
Lemma exactly_one rc r i h : r_delta rc = true ->
  DeltaExact (cycles false rc r i h false false false []) (stream rc r i h).
Proof.
  intros Hd. rewrite (proj1 (cycles_clean false true rc r i h false false false [] (quiet_init rc))).
  now apply delta_exact_lossy.
Qed.

(** clause: the latest cumulative value is the running total (no guard needed) *)
Lemma cumulative_total rc r i h : r_delta rc = false ->
  CumTotal (cycles false rc r i h false false false []) (stream rc r i h).
Proof.
  intros Hd. rewrite (cycles_cum false true) by exact Hd. now apply cum_total_lossy.
Qed.

(** return codes *)
Lemma codes_model rc r i h : forall s,
  snd (fst (srun rc r i h s)) = codes rc r h (s_down s) (s_err s) (s_any s).
Proof.
  induction h as [|o t IH]; intros s; [reflexivity|].
  rewrite srun_cons_codes. destruct (reader_op o) eqn:Hro.
  - rewrite (sstep_reader rc r i s o Hro), (codes_reader rc r o t _ _ _ Hro).
    destruct (attempt rc r (s_down s) (s_err s) (s_any s) o) as [[c d'] code].
    destruct c; unfold code_of, st_of; cbn [fst snd]; rewrite IH; reflexivity.
  - destruct o as [i' k v| | | | |b|]; try discriminate; cbn [sstep codes].
    + destruct (Nat.eqb i' i); unfold code_of, st_of; cbn [fst snd]; rewrite IH; reflexivity.
    + unfold code_of, st_of; cbn [fst snd]. rewrite IH. reflexivity.
Qed.

Lemma stream_codes_spec rc r h : stream_codes rc r h = codes rc r h false false false.
Proof. unfold stream_codes. now rewrite codes_model. Qed.

(** * What is still in the aggregator *)
Lemma final_delta rc r i h : r_delta rc = true -> forall cur down err ad,
  s_agg (snd (srun rc r i h {| s_agg := measure_all (scfg rc) (vm1 cur) (new_agg 0); s_down := down; s_err := err; s_any := ad |})) =
  measure_all (scfg rc) (vm1 (pending true rc r i h down err ad cur)) (new_agg 0).
Proof.
  intros Hd. induction h as [|o t IH]; intros cur down err ad; [reflexivity|].
  rewrite srun_cons_final. destruct (reader_op o) eqn:Hro.
  - rewrite (sstep_reader rc r i _ o Hro), (pending_reader true rc r i o t down err ad cur Hro).
    cbn [s_down s_err s_agg s_any]. rewrite Hd. cbn [andb].
    destruct (attempt rc r down err ad o) as [[c d'] code]. destruct c; unfold st_of; cbn [fst snd].
    + apply IH.
    + rewrite collect_delta_reset by exact Hd. apply (IH [] d' err).
    + rewrite collect_delta_reset by exact Hd. apply (IH [] d' err).
  - destruct o as [i' k v| | | | |b|]; try discriminate; cbn [sstep pending]; unfold st_of.
    + destruct (Nat.eqb i' i); cbn [fst snd s_agg s_down s_err s_any].
      * rewrite <- (IH (cur ++ [(k, v)]) down err true). rewrite vm1_app, measure_all_app. reflexivity.
      * apply IH.
    + cbn [fst snd s_agg s_down s_err s_any]. apply IH.
Qed.

Lemma pval_one k p z : pget k p = one z -> pval k p = match z with Some x => x | None => 0 end.
Proof. unfold pval. intros ->. destruct z; reflexivity. Qed.

Lemma residual_delta rc r i h k : r_delta rc = true ->
  pval k (vals (stream_final rc r i h)) = total k (pending true rc r i h false false false []).
Proof.
  intros Hd. unfold stream_final, sinit.
  change (new_agg 0) with (measure_all (scfg rc) (vm1 []) (new_agg 0)) at 1.
  rewrite (final_delta rc r i h Hd [] false false false).
  unfold total. apply pval_one. rewrite pget_get, measure_all_get.
  destruct (scfg_delta rc Hd) as [_ [_ Ho]]. rewrite Ho. cbn [new_agg vals get ocomb]. apply ofold_add_total.
Qed.

(** every measurement is either in a delivered cycle or still pending (ideal reading) *)
Lemma adds_split rc r i h : forall down err ad cur,
  cur ++ adds_of i h = concat (cycles false rc r i h down err ad cur) ++ pending false rc r i h down err ad cur.
Proof.
  induction h as [|o t IH]; intros down err ad cur; [cbn; now rewrite app_nil_r|].
  destruct (reader_op o) eqn:Hro.
  - rewrite (cycles_reader false rc r i o t down err ad cur Hro), (pending_reader false rc r i o t down err ad cur Hro).
    assert (Ha : adds_of i (o :: t) = adds_of i t) by (destruct o; try discriminate; reflexivity).
    rewrite Ha. cbn [andb].
    destruct (attempt rc r down err ad o) as [[c d'] code]. destruct c.
    + apply IH.
    + cbn [concat]. rewrite <- app_assoc. f_equal. apply (IH d' err _ []).
    + apply IH.
  - destruct o as [i' k v| | | | |b|]; try discriminate; cbn [cycles pending].
    + unfold adds_of. cbn [flat_map]. fold (adds_of i t). destruct (Nat.eqb i' i).
      * rewrite <- IH. now rewrite <- app_assoc.
      * apply IH.
    + unfold adds_of. cbn [flat_map app]. apply IH.
Qed.

Lemma delta_exact_sum cyc : forall outs k, DeltaExact cyc outs -> sum_outs k outs = total k (concat cyc).
Proof.
  induction cyc as [|c cr IH]; intros outs k [Hl Hp].
  - destruct outs; [reflexivity | discriminate].
  - destruct outs as [|p pr]; [discriminate|]. cbn [sum_outs fold_right concat]. rewrite total_app.
    fold (sum_outs k pr). f_equal.
    + specialize (Hp 0%nat k ltac:(cbn; lia)). cbn [nth] in Hp. unfold total. now apply pval_one.
    + apply IH. split; [cbn in Hl; lia|]. intros n k' Hn. apply (Hp (S n) k'). cbn; lia.
Qed.

(** clause: delta values + what is still in the aggregator = everything recorded *)
Lemma delta_conservation rc r i h : r_delta rc = true ->
  forall k, sum_outs k (stream rc r i h) + pval k (vals (stream_final rc r i h)) = total k (adds_of i h).
Proof.
  intros Hd k. rewrite residual_delta by exact Hd.
  rewrite (delta_exact_sum _ _ k (exactly_one rc r i h Hd)).
  rewrite (proj2 (cycles_clean true false rc r i h false false false [] (quiet_init rc))).
  rewrite <- total_app, <- adds_split. reflexivity.
Qed.

(** * Monotone sums *)
Definition nonneg (h : list op) : Prop := forall i k v, In (Add i k v) h -> 0 <= v.

Lemma adds_of_nonneg i h : nonneg h -> Forall (fun kv => 0 <= snd kv) (adds_of i h).
Proof.
  intros Hn. apply Forall_forall. intros [k v] Hin. unfold adds_of in Hin. apply in_flat_map in Hin as [o [Ho Hin]].
  destruct o as [i' k' v'| | | | | |]; try contradiction. destruct (Nat.eqb i' i); [|contradiction].
  destruct Hin as [E|[]]. inversion E; subst. cbn. eapply Hn; exact Ho.
Qed.

Lemma total_nonneg k l : Forall (fun kv => 0 <= snd kv) l -> 0 <= total k l.
Proof.
  unfold total. induction l as [|[k' v] r IH]; intros H; cbn [cyc_total]; [lia|].
  inversion H; subst. specialize (IH H3). cbn in H2. destruct (N.eqb k' k); [|exact IH].
  destruct (cyc_total k r); lia.
Qed.

Lemma in_skipn {A} n (l : list A) x : In x (skipn n l) -> In x l.
Proof. intros H. rewrite <- (firstn_skipn n l). apply in_or_app. now right. Qed.
Lemma in_firstn {A} n (l : list A) x : In x (firstn n l) -> In x l.
Proof. intros H. rewrite <- (firstn_skipn n l). apply in_or_app. now left. Qed.

Lemma monotone_cum rc r i h : r_delta rc = false -> nonneg h -> Monotone (stream rc r i h).
Proof.
  intros Hd Hn n m k Hnm Hm.
  destruct (cumulative_total rc r i h Hd) as [Hl Hp]. rewrite Hl in Hm.
  set (cyc := cycles false rc r i h false false false []) in *.
  rewrite (pval_one k _ _ (Hp n k ltac:(lia))), (pval_one k _ _ (Hp m k Hm)).
  change (total k (concat (firstn (S n) cyc)) <= total k (concat (firstn (S m) cyc))).
  assert (E : firstn (S m) cyc = firstn (S n) cyc ++ skipn (S n) (firstn (S m) cyc)).
  { rewrite <- (firstn_skipn (S n) (firstn (S m) cyc)) at 1. f_equal. rewrite firstn_firstn. f_equal. lia. }
  rewrite E, concat_app, total_app.
  assert (0 <= total k (concat (skipn (S n) (firstn (S m) cyc)))); [|lia].
  apply total_nonneg. apply Forall_forall. intros kv Hin.
  assert (Hall : Forall (fun kv => 0 <= snd kv) (adds_of i h)) by now apply adds_of_nonneg.
  rewrite Forall_forall in Hall. apply Hall.
  pose proof (adds_split rc r i h false false false []) as Hs. cbn [app] in Hs. rewrite Hs. fold cyc.
  apply in_or_app. left. apply in_concat in Hin as [c [Hc Hin]]. apply in_concat. exists c. split; [|exact Hin].
  apply in_skipn in Hc. apply in_firstn in Hc. exact Hc.
Qed.

(** * Shutdown of a periodic reader: the final collection, then silence *)
Definition fst4 := (bool * bool * bool * list (skey * Z))%type.
Definition fstep (lossy : bool) (rc : rcfg) (r : nat) (i : inst) (st : fst4) (o : op) : fst4 :=
  let '(down, err, ad, cur) := st in
  match o with
  | Add i' k v => (down, err, true, if Nat.eqb i' i then cur ++ [(k, v)] else cur)
  | SetErr b => (down, b, ad, cur)
  | _ => match attempt rc r down err ad o with
         | (CNone, down', _) => (down', err, ad, cur)
         | (CDelivered, down', _) => (down', err, next_ad rc ad, [])
         | (CDropped, down', _) => (down', err, next_ad rc ad, if lossy && r_delta rc then [] else cur)
         end
  end.
Definition fstate lossy rc r i h st := fold_left (fstep lossy rc r i) h st.

Lemma fstep_reader lossy rc r i down err ad cur o : reader_op o = true ->
  fstep lossy rc r i (down, err, ad, cur) o =
  match attempt rc r down err ad o with
  | (CNone, down', _) => (down', err, ad, cur)
  | (CDelivered, down', _) => (down', err, next_ad rc ad, [])
  | (CDropped, down', _) => (down', err, next_ad rc ad, if lossy && r_delta rc then [] else cur)
  end.
Proof. destruct o; intros H; try discriminate; reflexivity. Qed.

Lemma cycles_app lossy rc r i h1 h2 : forall down err ad cur,
  cycles lossy rc r i (h1 ++ h2) down err ad cur =
  cycles lossy rc r i h1 down err ad cur ++
  (let '(d, e, a, c) := fstate lossy rc r i h1 (down, err, ad, cur) in cycles lossy rc r i h2 d e a c).
Proof.
  induction h1 as [|o t IH]; intros down err ad cur; [reflexivity|].
  cbn [app]. unfold fstate. cbn [fold_left]. fold (fstate lossy rc r i t).
  destruct (reader_op o) eqn:Hro.
  - rewrite !cycles_reader by exact Hro. rewrite (fstep_reader lossy rc r i down err ad cur o Hro).
    destruct (attempt rc r down err ad o) as [[c d'] code]. destruct c.
    + apply IH.
    + cbn [app]. f_equal. apply IH.
    + apply IH.
  - destruct o as [i' k v| | | | |b|]; try discriminate; cbn [cycles fstep]; apply IH.
Qed.

Lemma pending_app lossy rc r i h1 h2 : forall down err ad cur,
  pending lossy rc r i (h1 ++ h2) down err ad cur =
  (let '(d, e, a, c) := fstate lossy rc r i h1 (down, err, ad, cur) in pending lossy rc r i h2 d e a c).
Proof.
  induction h1 as [|o t IH]; intros down err ad cur; [reflexivity|].
  cbn [app]. unfold fstate. cbn [fold_left]. fold (fstate lossy rc r i t).
  destruct (reader_op o) eqn:Hro.
  - rewrite !pending_reader by exact Hro. rewrite (fstep_reader lossy rc r i down err ad cur o Hro).
    destruct (attempt rc r down err ad o) as [[c d'] code]. destruct c; apply IH.
  - destruct o as [i' k v| | | | |b|]; try discriminate; cbn [pending fstep]; apply IH.
Qed.

Lemma attempt_keeps_up rc r err ad o : is_shutdown r o = false -> snd (fst (attempt rc r false err ad o)) = false.
Proof.
  destruct o; cbn; intros H; try reflexivity;
    repeat match goal with |- context [if ?b then _ else _] => destruct b eqn:?; cbn end; try reflexivity; try discriminate;
    destruct (rk rc); cbn; repeat match goal with |- context [if ?b then _ else _] => destruct b; cbn end; reflexivity.
Qed.

(** before the first Shutdown of reader r the reader is up *)
Lemma fstate_up lossy rc r i h : forallb (fun o => negb (is_shutdown r o)) h = true ->
  forall err ad cur, exists e a c, fstate lossy rc r i h (false, err, ad, cur) = (false, e, a, c).
Proof.
  induction h as [|o t IH]; intros Hs err ad cur; [now exists err, ad, cur|].
  cbn [forallb] in Hs. apply andb_true_iff in Hs as [Hs1 Hs].
  apply negb_true_iff in Hs1. unfold fstate. cbn [fold_left]. fold (fstate lossy rc r i t).
  destruct (reader_op o) eqn:Hro.
  - rewrite (fstep_reader lossy rc r i false err ad cur o Hro).
    pose proof (attempt_keeps_up rc r err ad o Hs1) as Hu.
    destruct (attempt rc r false err ad o) as [[c d'] code]. cbn in Hu. subst d'. destruct c; now apply IH.
  - destruct o as [i' k v| | | | |b|]; try discriminate; cbn [fstep]; now apply IH.
Qed.

Lemma attempt_down rc r err ad o : fst (attempt rc r true err ad o) = (CNone, true).
Proof.
  destruct o; cbn; try reflexivity;
    repeat match goal with |- context [if ?b then _ else _] => destruct b; cbn end; try reflexivity;
    destruct (rk rc); reflexivity.
Qed.

Lemma cycles_down lossy rc r i h : forall err ad cur, cycles lossy rc r i h true err ad cur = [].
Proof.
  induction h as [|o t IH]; intros err ad cur; [reflexivity|].
  destruct (reader_op o) eqn:Hro.
  - rewrite cycles_reader by exact Hro. pose proof (attempt_down rc r err ad o) as Hd.
    destruct (attempt rc r true err ad o) as [[c d'] code]. cbn in Hd. inversion Hd; subst. apply IH.
  - destruct o as [i' k v| | | | |b|]; try discriminate; cbn [cycles]; apply IH.
Qed.

(** the first Shutdown of a periodic reader: the reader goes down; its final collection is delivered
    unless it had nothing to report *)
Lemma attempt_shutdown rc r e a : rk rc = RPeriodic ->
  exists c code, attempt rc r false e a (Shutdown r) = (c, true, code) /\ (c = CDelivered \/ (c = CDropped /\ a = false)).
Proof.
  intros H. cbn. rewrite Nat.eqb_refl, H. destruct e; [destruct a|]; eexists; eexists; split; try reflexivity; auto.
Qed.

Lemma adds_of_app i a b : adds_of i (a ++ b) = adds_of i a ++ adds_of i b.
Proof. unfold adds_of. apply flat_map_app. Qed.

Lemma shutdown_cycles lossy rc r i h1 h2 : rk rc = RPeriodic ->
  forallb (fun o => negb (is_shutdown r o)) h1 = true ->
  cycles lossy rc r i (h1 ++ Shutdown r :: h2) false false false [] =
  cycles lossy rc r i (h1 ++ [Shutdown r]) false false false [].
Proof.
  intros Hk Hs. destruct (fstate_up lossy rc r i h1 Hs false false []) as [e [a [c E]]].
  rewrite !cycles_app, E. f_equal.
  rewrite !(cycles_reader lossy rc r i (Shutdown r)) by reflexivity.
  destruct (attempt_shutdown rc r e a Hk) as [x [code [Ea _]]]. rewrite Ea.
  destruct x; now rewrite !cycles_down.
Qed.

Lemma shutdown_quiet rc r i h1 h2 : rk rc = RPeriodic ->
  forallb (fun o => negb (is_shutdown r o)) h1 = true ->
  stream rc r i (h1 ++ Shutdown r :: h2) = stream rc r i (h1 ++ [Shutdown r]).
Proof. intros Hk Hs. rewrite !stream_arun. now rewrite (shutdown_cycles true rc r i h1 h2 Hk Hs). Qed.

Lemma shutdown_pending_delta rc r i h1 : rk rc = RPeriodic -> r_delta rc = true ->
  forallb (fun o => negb (is_shutdown r o)) h1 = true ->
  pending true rc r i (h1 ++ [Shutdown r]) false false false [] = [].
Proof.
  intros Hk Hd Hs. destruct (fstate_up true rc r i h1 Hs false false []) as [e [a [c E]]].
  rewrite pending_app, E. rewrite (pending_reader true rc r i (Shutdown r)) by reflexivity.
  destruct (attempt_shutdown rc r e a Hk) as [x [code [Ea Hx]]]. rewrite Ea.
  destruct Hx as [->|[-> _]]; [reflexivity|]. rewrite Hd. reflexivity.
Qed.

Lemma shutdown_final_delta rc r i h1 h2 : rk rc = RPeriodic -> r_delta rc = true ->
  forallb (fun o => negb (is_shutdown r o)) h1 = true ->
  forall k, sum_outs k (stream rc r i (h1 ++ Shutdown r :: h2)) = total k (adds_of i h1).
Proof.
  intros Hk Hd Hs k. rewrite shutdown_quiet by assumption.
  pose proof (delta_conservation rc r i (h1 ++ [Shutdown r]) Hd k) as Hcons.
  rewrite residual_delta in Hcons by exact Hd.
  rewrite shutdown_pending_delta in Hcons by assumption.
  rewrite adds_of_app in Hcons. change (adds_of i [Shutdown r]) with (@nil (skey * Z)) in Hcons.
  rewrite app_nil_r in Hcons. change (total k []) with 0 in Hcons. lia.
Qed.

(** a cumulative reader that has been fed anything has something to report *)
Lemma cum_has_data lossy rc r i h : r_delta rc = false -> forall down err ad cur,
  (ad = true \/ adds_of i h <> []) ->
  exists d e c, fstate lossy rc r i h (down, err, ad, cur) = (d, e, true, c).
Proof.
  intros Hd. induction h as [|o t IH]; intros down err ad cur Hor.
  - destruct Hor as [->|Hn]; [now exists down, err, cur | contradiction Hn; reflexivity].
  - unfold fstate. cbn [fold_left]. fold (fstate lossy rc r i t).
    destruct (reader_op o) eqn:Hro.
    + rewrite (fstep_reader lossy rc r i down err ad cur o Hro).
      assert (Ha : adds_of i (o :: t) = adds_of i t) by (destruct o; try discriminate; reflexivity).
      rewrite Ha in Hor. unfold next_ad. rewrite Hd.
      destruct (attempt rc r down err ad o) as [[c d'] code]. destruct c; now apply IH.
    + destruct o as [i' k v| | | | |b|]; try discriminate; cbn [fstep].
      * apply IH. now left.
      * apply IH. destruct Hor as [H|H]; [now left | right; exact H].
Qed.

Lemma shutdown_final_cum rc r i h1 h2 : rk rc = RPeriodic -> r_delta rc = false ->
  forallb (fun o => negb (is_shutdown r o)) h1 = true -> adds_of i h1 <> [] ->
  let s := stream rc r i (h1 ++ Shutdown r :: h2) in
  (0 < length s)%nat /\ forall k, pget k (nth (length s - 1) s []) = one (cyc_total k (adds_of i h1)).
Proof.
  intros Hk Hd Hs Hne s. subst s. rewrite shutdown_quiet by assumption.
  destruct (cumulative_total rc r i (h1 ++ [Shutdown r]) Hd) as [Hl Hp].
  destruct (fstate_up false rc r i h1 Hs false false []) as [e [a [c E]]].
  destruct (cum_has_data false rc r i h1 Hd false false false [] (or_intror Hne)) as [d' [e' [c' E']]].
  rewrite E in E'. inversion E'; subst d' e' a c'. clear E'.
  assert (Hcyc : cycles false rc r i (h1 ++ [Shutdown r]) false false false [] =
                 cycles false rc r i h1 false false false [] ++ [c] /\
                 pending false rc r i (h1 ++ [Shutdown r]) false false false [] = []).
  { rewrite cycles_app, pending_app, E.
    rewrite (cycles_reader false rc r i (Shutdown r)), (pending_reader false rc r i (Shutdown r)) by reflexivity.
    destruct (attempt_shutdown rc r e true Hk) as [x [code [Ea Hx]]]. rewrite Ea.
    destruct Hx as [->|[_ Hf]]; [|discriminate]. split; reflexivity. }
  destruct Hcyc as [Hcyc Hpend].
  set (cyc := cycles false rc r i (h1 ++ [Shutdown r]) false false false []) in *.
  assert (Hpos : (0 < length cyc)%nat) by (rewrite Hcyc, app_length; cbn; lia).
  split; [lia|]. intros k. rewrite Hl. rewrite Hp by lia.
  replace (S (length cyc - 1)) with (length cyc) by lia. rewrite firstn_all.
  pose proof (adds_split rc r i (h1 ++ [Shutdown r]) false false false []) as Ha. cbn [app] in Ha. fold cyc in Ha.
  rewrite Hpend in Ha. rewrite app_nil_r in Ha. rewrite <- Ha.
  rewrite adds_of_app. change (adds_of i [Shutdown r]) with (@nil (skey * Z)). now rewrite app_nil_r.
Qed.

Lemma shutdown_final : forall rc r i h1 h2,
  rk rc = RPeriodic -> forallb (fun o => negb (is_shutdown r o)) h1 = true ->
  let s := stream rc r i (h1 ++ Shutdown r :: h2) in
  s = stream rc r i (h1 ++ [Shutdown r]) /\
  (r_delta rc = true -> forall k, sum_outs k s = total k (adds_of i h1)) /\
  (r_delta rc = false -> adds_of i h1 <> [] ->
     (0 < length s)%nat /\ forall k, pget k (nth (length s - 1) s []) = one (cyc_total k (adds_of i h1))).
Proof.
  intros rc r i h1 h2 Hk Hs s. subst s. split; [now apply shutdown_quiet|]. split.
  - intros Hd. now apply shutdown_final_delta.
  - intros Hd Hne. now apply shutdown_final_cum.
Qed.

(** * Every reader: the full model is the family of streams *)
Lemma enum_from_nth {A} (l : list A) : forall n r x, nth_error l r = Some x -> nth_error (enum_from n l) r = Some ((n + r)%nat, x).
Proof.
  induction l as [|y l IH]; intros n r x H; [destruct r; discriminate|].
  destruct r as [|r]; cbn in *.
  - inversion H; subst. now rewrite Nat.add_0_r.
  - rewrite (IH (S n) r x H). f_equal. f_equal. lia.
Qed.

Lemma model_stream readers ninst h r rc i : nth_error readers r = Some rc -> (i < ninst)%nat ->
  nth i (nth r (model readers ninst h) []) [] = stream rc r i h.
Proof.
  intros Hr Hi. unfold model.
  assert (E : nth_error (map (fun rr => map (fun i => stream (snd rr) (fst rr) i h) (seq 0 ninst)) (enum_from 0 readers)) r =
              Some (map (fun i => stream rc r i h) (seq 0 ninst))).
  { rewrite nth_error_map, (enum_from_nth readers 0 r rc Hr). reflexivity. }
  rewrite (nth_error_nth _ _ _ E).
  rewrite (nth_indep _ [] ((fun i => stream rc r i h) 0%nat)) by (rewrite map_length, seq_length; exact Hi).
  rewrite (map_nth (fun i => stream rc r i h)). now rewrite seq_nth.
Qed.

(** * F-C02-1 (fixed by b162dd7 and e0f719a), kept as documentation: with the OLD reader semantics -
    a periodic reader skipped the delivery whenever the collection reported a callback error - the
    delta measurements collected for the skipped delivery were lost. *)
Definition refute_rc : rcfg := {| rk := RPeriodic; r_delta := true; r_cb := true |}.

(** the history that failed before fix b162dd7 (ForceFlush while the callback fails) is now
    delivered completely: recorded 12, exported 5 then 7 *)
Definition old_failing_h : list op := [Add 0%nat 0%N 5; SetErr true; Flush 0%nat; SetErr false; Add 0%nat 0%N 7; Flush 0%nat].
Definition old_failing_h2 : list op := [Add 0%nat 0%N 5; SetErr true; Shutdown 0%nat].
Lemma old_failing_histories_now_ok :
  stream refute_rc 0%nat 0%nat old_failing_h = [[(0%N, [5])]; [(0%N, [7])]] /\
  stream_ok false refute_rc 0%nat 0%nat old_failing_h (stream refute_rc 0%nat 0%nat old_failing_h) = true /\
  stream refute_rc 0%nat 0%nat old_failing_h2 = [[(0%N, [5])]] /\
  stream_ok false refute_rc 0%nat 0%nat old_failing_h2 (stream refute_rc 0%nat 0%nat old_failing_h2) = true.
Proof. vm_compute. repeat split; reflexivity. Qed.

(** what the deliveries looked like before the fixes (the lossy reading with the old [attempt]):
    recorded 12, delivered 7 *)
Definition attempt_before_fix (rc : rcfg) (r : nat) (down err : bool) (o : op) : cres * bool * N :=
  match attempt rc r down err false o with
  | (CDropped, d, c) => (CDropped, d, c)
  | (x, d, c) => if err && match o with CollectR _ => false | _ => true end
                 then (match x with CDelivered => CDropped | y => y end, d, c) else (x, d, c)
  end.
Lemma attempt_before_fix_dropped :
  fst (fst (attempt_before_fix refute_rc 0%nat false true (Flush 0%nat))) = CDropped /\
  fst (fst (attempt_before_fix refute_rc 0%nat false true (Shutdown 0%nat))) = CDropped /\
  fst (fst (attempt refute_rc 0%nat false true true (Flush 0%nat))) = CDelivered /\
  fst (fst (attempt refute_rc 0%nat false true true (Shutdown 0%nat))) = CDelivered.
Proof. repeat split; reflexivity. Qed.
