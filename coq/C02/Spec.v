(** C02 specification: metric sums are conserved under recording and collection.

    Written against the property text in terms of what a user does (a history of
    Add calls and reader calls) and what the readers deliver (to the caller of
    Collect, or to the exporter of a periodic reader).  Nothing here refers to
    aggregators.

      - an attribute set is a canonical key ([N]); a data point value is [[v]];
      - a reader is manual or periodic, delta or cumulative;
      - [CollectR r] = Reader.Collect by the user, [Tick r] = the periodic reader's
        interval fired, [Flush r] = PeriodicReader.ForceFlush, [Shutdown r] = Reader.Shutdown,
        [SetErr b] = from now on the observable callback registered with the meter
        returns an error (b = true) or succeeds (b = false).                       *)
From Verif Require Import Lib.Base.
Open Scope Z_scope.

Definition inst := nat.
Definition skey := N.
Definition svec := list Z.
Definition points := list (skey * svec).

Inductive rkind := RManual | RPeriodic.
(** [r_cb]: an observable callback is registered with the meter (every pipeline runs it) *)
Record rcfg := { rk : rkind; r_delta : bool; r_cb : bool }.

Inductive op :=
| Add (i : inst) (k : skey) (v : Z)
| CollectR (r : nat)
| Tick (r : nat)
| Flush (r : nat)
| Shutdown (r : nat)
| SetErr (b : bool)
| CollectC (r : nat).   (* Reader.Collect with a context that is already cancelled *)

(** result of a reader call as the caller sees it *)
Definition E_NIL : N := 0.
Definition E_SHUTDOWN : N := 1.   (* ErrReaderShutdown *)
Definition E_CALLBACK : N := 2.   (* the callback's error *)
Definition E_NA : N := 3.         (* not a call on this reader / not offered by this reader *)
Definition E_CTX : N := 4.        (* the context's error *)

(** What an operation means for reader [r] according to the reader API: does it attempt a
    collection, is the collected data delivered (to the caller / the exporter) or is the
    delivery skipped; is the reader shut down afterwards; what does the call return.
    [hasdata]: the collection produces at least one data point for this reader (any instrument).

    Interval export, ForceFlush and the final collection of Shutdown of a periodic reader
    (collectAndExport and Shutdown, after fixes b162dd7 and e0f719a): when the collection reports a
    callback error the data it produced is exported all the same (nothing is exported when it
    produced nothing) and the call returns the error. *)
Inductive cres := CNone | CDelivered | CDropped.

Definition attempt (rc : rcfg) (r : nat) (down err hasdata : bool) (o : op) : cres * bool * N :=
  match o with
  | CollectR r' =>
      if Nat.eqb r' r
      then if down then (CNone, down, E_SHUTDOWN)
           else (CDelivered, down, if err then E_CALLBACK else E_NIL)   (* the caller's rm is filled either way *)
      else (CNone, down, E_NA)
  | CollectC r' =>
      (* pipeline.produce looks at the context only after a callback has run: with a callback
         registered the call returns the context's error and no data, and no aggregation has been
         computed (nothing is consumed); with none it is an ordinary Collect *)
      if Nat.eqb r' r
      then if down then (CNone, down, E_SHUTDOWN)
           else if r_cb rc then (CNone, down, E_CTX)
           else (CDelivered, down, if err then E_CALLBACK else E_NIL)
      else (CNone, down, E_NA)
  | Tick r' | Flush r' =>
      if Nat.eqb r' r
      then match rk rc with
           | RPeriodic => if down then (CNone, down, E_SHUTDOWN)
                          else if err then ((if hasdata then CDelivered else CDropped), down, E_CALLBACK)
                          else (CDelivered, down, E_NIL)
           | RManual => (CNone, down, E_NA)
           end
      else (CNone, down, E_NA)
  | Shutdown r' =>
      if Nat.eqb r' r
      then if down then (CNone, true, E_SHUTDOWN)
           else match rk rc with
                | RPeriodic => if err then ((if hasdata then CDelivered else CDropped), true, E_CALLBACK)
                               else (CDelivered, true, E_NIL)
                | RManual => (CNone, true, E_NIL)
                end
      else (CNone, down, E_NA)
  | _ => (CNone, down, E_NA)
  end.

(** after an attempted collection a delta reader has nothing left to report; a cumulative one
    keeps reporting what it has *)
Definition next_ad (rc : rcfg) (ad : bool) : bool := if r_delta rc then false else ad.

(** The measurements of instrument [i] grouped by the deliveries of reader [r].
    [lossy = false]: the property's reading - a collection whose delivery was skipped loses
    nothing, its measurements belong to the next delivery.
    [lossy = true]: the operational reading (what finding F-C02-1 was about) - a skipped delivery of a delta
    reader swallows the measurements collected for it. *)
Fixpoint cycles (lossy : bool) (rc : rcfg) (r : nat) (i : inst) (h : list op) (down err ad : bool)
         (cur : list (skey * Z)) : list (list (skey * Z)) :=
  match h with
  | [] => []
  | Add i' k v :: t => cycles lossy rc r i t down err true (if Nat.eqb i' i then cur ++ [(k, v)] else cur)
  | SetErr b :: t => cycles lossy rc r i t down b ad cur
  | o :: t =>
      match attempt rc r down err ad o with
      | (CNone, down', _) => cycles lossy rc r i t down' err ad cur
      | (CDelivered, down', _) => cur :: cycles lossy rc r i t down' err (next_ad rc ad) []
      | (CDropped, down', _) => cycles lossy rc r i t down' err (next_ad rc ad) (if lossy && r_delta rc then [] else cur)
      end
  end.

(** measurements not yet delivered at the end of the history *)
Fixpoint pending (lossy : bool) (rc : rcfg) (r : nat) (i : inst) (h : list op) (down err ad : bool)
         (cur : list (skey * Z)) : list (skey * Z) :=
  match h with
  | [] => cur
  | Add i' k v :: t => pending lossy rc r i t down err true (if Nat.eqb i' i then cur ++ [(k, v)] else cur)
  | SetErr b :: t => pending lossy rc r i t down b ad cur
  | o :: t =>
      match attempt rc r down err ad o with
      | (CNone, down', _) => pending lossy rc r i t down' err ad cur
      | (CDelivered, down', _) => pending lossy rc r i t down' err (next_ad rc ad) []
      | (CDropped, down', _) => pending lossy rc r i t down' err (next_ad rc ad) (if lossy && r_delta rc then [] else cur)
      end
  end.

(** the return codes of the calls made on reader [r], in order *)
Fixpoint codes (rc : rcfg) (r : nat) (h : list op) (down err ad : bool) : list N :=
  match h with
  | [] => []
  | SetErr b :: t => codes rc r t down b ad
  | Add _ _ _ :: t => codes rc r t down err true
  | o :: t =>
      match attempt rc r down err ad o with
      | (x, down', c) => (if (c =? E_NA)%N then [] else [c]) ++
                         codes rc r t down' err (match x with CNone => ad | _ => next_ad rc ad end)
      end
  end.

(** all measurements of instrument [i] in the history *)
Definition adds_of (i : inst) (h : list op) : list (skey * Z) :=
  flat_map (fun o => match o with Add i' k v => if Nat.eqb i' i then [(k, v)] else [] | _ => [] end) h.

Definition no_err (h : list op) : bool :=
  forallb (fun o => match o with SetErr true => false | _ => true end) h.

(** sum of the values recorded for one attribute set ([None]: never recorded) *)
Fixpoint cyc_total (k : skey) (c : list (skey * Z)) : option Z :=
  match c with
  | [] => None
  | (k', v) :: r =>
      if (k' =? k)%N then Some (v + match cyc_total k r with Some s => s | None => 0 end)
      else cyc_total k r
  end.
Definition total (k : skey) (c : list (skey * Z)) : Z := match cyc_total k c with Some s => s | None => 0 end.
Definition one (z : option Z) : option svec := option_map (fun x => [x]) z.

Fixpoint pget (k : skey) (p : points) : option svec :=
  match p with
  | [] => None
  | (k', v) :: r => if (k =? k')%N then Some v else pget k r
  end.
Definition pval (k : skey) (p : points) : Z := match pget k p with Some (x :: _) => x | _ => 0 end.
Fixpoint psorted (p : points) : bool :=
  match p with
  | [] => true
  | (k, _) :: r => match r with [] => true | (k', _) :: _ => (k <? k')%N && psorted r end
  end.

(** ** The clauses, for the deliveries [outs] of one stream (reader r, instrument i) *)

(** each measurement is counted in exactly one delta collection: a delivery reports exactly
    the attribute sets recorded since the previous delivery, each with the sum of those
    recordings *)
Definition DeltaExact (cyc : list (list (skey * Z))) (outs : list points) : Prop :=
  length outs = length cyc /\
  forall n k, (n < length cyc)%nat -> pget k (nth n outs []) = one (cyc_total k (nth n cyc [])).

(** the latest cumulative value is the running total *)
Definition CumTotal (cyc : list (list (skey * Z))) (outs : list points) : Prop :=
  length outs = length cyc /\
  forall n k, (n < length cyc)%nat -> pget k (nth n outs []) = one (cyc_total k (concat (firstn (S n) cyc))).

(** delta values add up to the measurements recorded (up to the last delivery) *)
Definition sum_outs (k : skey) (outs : list points) : Z := fold_right (fun p s => pval k p + s) 0 outs.
Definition DeltaSum (i : inst) (h : list op) (pend : list (skey * Z)) (outs : list points) : Prop :=
  forall k, sum_outs k outs + total k pend = total k (adds_of i h).

(** a sum fed non-negative values never decreases *)
Definition Monotone (outs : list points) : Prop :=
  forall n m k, (n <= m)%nat -> (m < length outs)%nat -> pval k (nth n outs []) <= pval k (nth m outs []).

(** ** Decidable versions *)
Definition ovec_eqb (a b : option svec) : bool := option_eqb (list_eqb Z.eqb) a b.
Definition keys_of (p : points) : list skey := map fst p.
Definition ckeys (c : list (skey * Z)) : list skey := map fst c.
Definition expect_points (p : points) (ks : list skey) (f : skey -> option svec) : bool :=
  psorted p && forallb (fun k => ovec_eqb (pget k p) (f k)) (keys_of p ++ ks).

Fixpoint delta_exactb (cyc : list (list (skey * Z))) (outs : list points) : bool :=
  match cyc, outs with
  | [], [] => true
  | c :: cr, p :: pr => expect_points p (ckeys c) (fun k => one (cyc_total k c)) && delta_exactb cr pr
  | _, _ => false
  end.
Fixpoint cum_totalb (sofar : list (skey * Z)) (cyc : list (list (skey * Z))) (outs : list points) : bool :=
  match cyc, outs with
  | [], [] => true
  | c :: cr, p :: pr =>
      let all := sofar ++ c in
      expect_points p (ckeys all) (fun k => one (cyc_total k all)) && cum_totalb all cr pr
  | _, _ => false
  end.

(** the history up to the first [Shutdown r] *)
Fixpoint before_shutdown (r : nat) (h : list op) : option (list op) :=
  match h with
  | [] => None
  | Shutdown r' :: t => if Nat.eqb r' r then Some [] else option_map (cons (Shutdown r')) (before_shutdown r t)
  | o :: t => option_map (cons o) (before_shutdown r t)
  end.

(** "... through the final collection performed by Shutdown": once a periodic reader has been shut
    down, everything recorded before that call has been delivered *)
Definition final_ok (rc : rcfg) (r : nat) (i : inst) (h : list op) (outs : list points) : bool :=
  match rk rc, before_shutdown r h with
  | RPeriodic, Some pre =>
      let a := adds_of i pre in
      let ks := ckeys a ++ flat_map keys_of outs in
      if r_delta rc then forallb (fun k => sum_outs k outs =? total k a) ks
      else match rev outs with
           | [] => match a with [] => true | _ => false end
           | last :: _ => forallb (fun k => ovec_eqb (pget k last) (one (cyc_total k a))) ks
           end
  | _, _ => true
  end.

(** the sequential judgement of one stream: what the property says ([lossy = false]); with
    [lossy = true] only what the deliveries that were made must contain *)
Definition stream_ok (lossy : bool) (rc : rcfg) (r : nat) (i : inst) (h : list op) (outs : list points) : bool :=
  let cyc := cycles lossy rc r i h false false false [] in
  (if r_delta rc then delta_exactb cyc outs else cum_totalb [] cyc outs) &&
  (lossy || final_ok rc r i h outs).

(** ** Completed concurrent histories: many goroutines added known totals while collections
    ran; the last delivery of every reader was made after all of them had returned.
    [adds] lists (attribute set, total recorded). *)
Definition keys_sortedb (outs : list points) : bool := forallb psorted outs.

Fixpoint nondecreasing (k : skey) (prev : Z) (outs : list points) : bool :=
  match outs with
  | [] => true
  | p :: r => (prev <=? pval k p) && nondecreasing k (pval k p) r
  end.

Definition conc_stream_ok (delta nonneg : bool) (adds : list (skey * Z)) (outs : list points) : bool :=
  let ks := ckeys adds ++ flat_map keys_of outs in
  keys_sortedb outs &&
  (* no attribute set that was never recorded *)
  forallb (fun k => existsb (N.eqb k) (ckeys adds)) (flat_map keys_of outs) &&
  if delta
  then forallb (fun k => sum_outs k outs =? total k adds) ks
  else match rev outs with
       | [] => match adds with [] => true | _ => false end
       | last :: _ =>
           forallb (fun k => ovec_eqb (pget k last) (one (cyc_total k adds))) ks &&
           (negb nonneg || forallb (fun k => nondecreasing k 0 outs) ks)
       end.
