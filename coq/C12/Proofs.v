(** C12 proofs. *)
From Verif Require Import Lib.Base C12.Defs C12.Model C12.Spec.
From Coq Require Import ZifyBool ZifyN ZifyNat Permutation.
Open Scope N_scope.

(** * Equality tests *)
Lemma kv_eqb_eq a b : kv_eqb a b = true <-> a = b.
Proof.
  destruct a as [k v], b as [k' v']; unfold kv_eqb; cbn [fst snd].
  rewrite andb_true_iff, !bytes_eqb_eq. split; [intros [-> ->]; reflexivity | intros H; inversion H; auto].
Qed.

Lemma aset_eqb_eq a b : aset_eqb a b = true <-> a = b.
Proof. apply list_eqb_eq. exact kv_eqb_eq. Qed.

Lemma aset_eqb_refl a : aset_eqb a a = true.
Proof. now apply aset_eqb_eq. Qed.

Lemma aset_eqb_neq a b : aset_eqb a b = false <-> a <> b.
Proof.
  split; intro H.
  - intro E. apply aset_eqb_eq in E. congruence.
  - destruct (aset_eqb a b) eqn:E; [|reflexivity]. apply aset_eqb_eq in E. contradiction.
Qed.

Lemma aset_eqb_sym a b : aset_eqb a b = aset_eqb b a.
Proof.
  destruct (aset_eqb a b) eqn:E.
  - apply aset_eqb_eq in E. subst. now rewrite aset_eqb_refl.
  - apply aset_eqb_neq in E. symmetry. apply aset_eqb_neq. congruence.
Qed.

Lemma aset_dec (a b : aset) : {a = b} + {a <> b}.
Proof.
  destruct (aset_eqb a b) eqn:E; [left; now apply aset_eqb_eq | right; now apply aset_eqb_neq].
Qed.

Lemma amem_In a l : amem a l = true <-> In a l.
Proof.
  induction l as [|x l IH]; cbn; [split; [discriminate | tauto]|].
  rewrite orb_true_iff, IH, aset_eqb_eq. split; intros [H|H]; auto.
Qed.

Lemma amem_not_In a l : amem a l = false <-> ~ In a l.
Proof.
  split; intro H.
  - intro I. apply amem_In in I. congruence.
  - destruct (amem a l) eqn:E; [|reflexivity]. apply amem_In in E. contradiction.
Qed.

Lemma amem_app a l1 l2 : amem a (l1 ++ l2) = amem a l1 || amem a l2.
Proof. induction l1; cbn; [reflexivity|]. now rewrite IHl1, orb_assoc. Qed.

(** * Generic list facts *)
Lemma nodup_snoc {A} (l : list A) a : NoDup l -> ~ In a l -> NoDup (l ++ [a]).
Proof.
  induction l as [|x l IH]; cbn; intros H N.
  - constructor; [tauto | constructor].
  - inversion H; subst. constructor.
    + rewrite in_app_iff. cbn. intros [I|[I|[]]]; [auto | subst; auto].
    + apply IH; auto.
Qed.

(** * The aggregator map: upsert *)
Lemma upsert_keys k f st :
  map fst (upsert k f st) = if amem k (map fst st) then map fst st else map fst st ++ [k].
Proof.
  induction st as [|[k' p] r IH]; cbn; [reflexivity|].
  destruct (aset_eqb k k') eqn:E; cbn; [reflexivity|].
  rewrite IH. now destruct (amem k (map fst r)).
Qed.

Lemma lookup_upsert k f st k2 :
  lookup k2 (upsert k f st) = if aset_eqb k2 k then Some (f (lookup k st)) else lookup k2 st.
Proof.
  induction st as [|[k' p] r IH]; cbn.
  - destruct (aset_eqb k2 k); reflexivity.
  - destruct (aset_eqb k k') eqn:E; cbn.
    + apply aset_eqb_eq in E. subst k'. destruct (aset_eqb k2 k); reflexivity.
    + rewrite IH. destruct (aset_eqb k2 k') eqn:E2; [|reflexivity].
      apply aset_eqb_eq in E2. subst k'. rewrite aset_eqb_sym, E. reflexivity.
Qed.

Lemma lookup_None k st : lookup k st = None <-> ~ In k (map fst st).
Proof.
  induction st as [|[k' p] r IH]; cbn; [tauto|].
  destruct (aset_eqb k k') eqn:E.
  - apply aset_eqb_eq in E. subst. split; [discriminate | intros H; exfalso; auto].
  - apply aset_eqb_neq in E. rewrite IH. split; [intros H [H1|H1]; [congruence | auto] | tauto].
Qed.

Lemma upsert_nodup k f st : NoDup (map fst st) -> NoDup (map fst (upsert k f st)).
Proof.
  intro H. rewrite upsert_keys. destruct (amem k (map fst st)) eqn:E; [exact H|].
  apply amem_not_In in E. apply nodup_snoc; assumption.
Qed.

(** * c12_at_most_L: the limiter never lets the map grow beyond L keys *)
Definition keys_inv (L : N) (K : list aset) : Prop :=
  (~ In overflow_set K -> (length K <= N.to_nat L - 1)%nat) /\ (length K <= N.to_nat L)%nat.

Lemma keys_inv_nil L : keys_inv L [].
Proof. split; cbn; lia. Qed.

Lemma limiter_keys_inv L a K :
  1 <= L -> keys_inv L K ->
  let k := limiter L a K in keys_inv L (if amem k K then K else K ++ [k]).
Proof.
  intros HL [I1 I2]. unfold limiter.
  destruct (L =? 0) eqn:E0; [lia|].
  destruct (amem a K) eqn:Ea; cbn zeta.
  - rewrite Ea. split; assumption.
  - destruct (L - 1 <=? N.of_nat (length K)) eqn:El.
    + destruct (amem overflow_set K) eqn:Eo; [split; assumption|].
      apply amem_not_In in Eo. specialize (I1 Eo).
      split; rewrite ?app_length; cbn [length].
      * intros N. exfalso. apply N. apply in_or_app. right. left. reflexivity.
      * lia.
    + rewrite Ea. split; rewrite ?app_length; cbn [length]; intros; lia.
Qed.

Lemma s_measure_ignored c a v st : ignores (s_kind c) v = true -> s_measure c a v st = st.
Proof. unfold s_measure. now intros ->. Qed.

Lemma s_measure_live c a v st : ignores (s_kind c) v = false -> s_measure c a v st = s_record c a v st.
Proof. unfold s_measure. now intros ->. Qed.

Lemma s_measure_keys c a v st :
  map fst (st_vals (s_record c a v st)) =
  let K := map fst (st_vals st) in
  let k := limiter (s_limit c) (set_filter (s_filter c) a) K in
  if amem k K then K else K ++ [k].
Proof. unfold s_record. cbn [st_vals]. now rewrite upsert_keys. Qed.

Lemma s_collect_out_keys c st : map fst (fst (s_collect c st)) = map fst (st_vals st).
Proof.
  unfold s_collect. cbn [fst]. destruct (is_presum_delta c); [|reflexivity].
  rewrite map_map. apply map_ext. intros [k p]. reflexivity.
Qed.

Lemma s_collect_next_keys c st :
  map fst (st_vals (snd (s_collect c st))) = if resets c then [] else map fst (st_vals st).
Proof. unfold s_collect. cbn [snd st_vals]. now destruct (resets c). Qed.

Lemma s_run_at_most c : 1 <= s_limit c -> forall h st,
  keys_inv (s_limit c) (map fst (st_vals st)) ->
  Forall (fun pts => N.of_nat (length pts) <= s_limit c) (s_run c h st).
Proof.
  intros HL h. induction h as [|e h IH]; intros st I; cbn [s_run]; [constructor|].
  destruct e as [a v|].
  - destruct (ignores (s_kind c) v) eqn:IG; [rewrite (s_measure_ignored _ _ _ _ IG); now apply IH|].
    rewrite (s_measure_live _ _ _ _ IG).
    apply IH. rewrite s_measure_keys. cbn zeta. now apply limiter_keys_inv.
  - destruct (s_collect c st) as [out st'] eqn:E.
    assert (Ho : map fst out = map fst (st_vals st)) by (rewrite <- (s_collect_out_keys c st), E; reflexivity).
    assert (Hn : map fst (st_vals st') = if resets c then [] else map fst (st_vals st))
      by (rewrite <- (s_collect_next_keys c st), E; reflexivity).
    constructor.
    + destruct I as [_ I2]. rewrite <- Ho, map_length in I2. lia.
    + apply IH. rewrite Hn. destruct (resets c); [apply keys_inv_nil | exact I].
Qed.

(** * c12_total_conserved: every measurement is added to exactly one point *)
Lemma zsum_app a b : zsum (a ++ b) = (zsum a + zsum b)%Z.
Proof. induction a; cbn [zsum app]; lia. Qed.

Definition ofst (o : option point) : Z := match o with None => 0%Z | Some p => fst p end.
Definition osnd (o : option point) : N := match o with None => 0 | Some p => snd p end.

Lemma total_upsert k f st v :
  (forall old, fst (f old) = (ofst old + v)%Z) -> total (upsert k f st) = (total st + v)%Z.
Proof.
  intros Hf. unfold total. induction st as [|[k' p] r IH]; cbn [upsert map zsum fst snd].
  - rewrite (Hf None). cbn. lia.
  - destruct (aset_eqb k k'); cbn [map zsum fst snd].
    + rewrite (Hf (Some p)). cbn. lia.
    + rewrite IH. lia.
Qed.

Lemma total_count_upsert k f st :
  (forall old, snd (f old) = osnd old + 1) -> total_count (upsert k f st) = total_count st + 1.
Proof.
  intros Hf. unfold total_count. induction st as [|[k' p] r IH]; cbn [upsert map fold_right fst snd].
  - rewrite (Hf None). cbn. lia.
  - destruct (aset_eqb k k'); cbn [map fold_right fst snd].
    + rewrite (Hf (Some p)). cbn. lia.
    + rewrite IH. lia.
Qed.

Lemma step_sum k old v : sums_values k = true -> fst (step k old v) = (ofst old + v)%Z.
Proof.
  destruct k as [m|m| | |ns e]; cbn; try discriminate; intros H.
  - destruct old as [[s c]|]; cbn; lia.
  - destruct old as [[s c]|]; cbn; lia.
  - destruct ns; [discriminate|]. destruct old as [[s c]|]; cbn; lia.
Qed.

Lemma step_count k old v : counts_values k = true -> snd (step k old v) = osnd old + 1.
Proof.
  destruct k as [m|m| | |ns e]; cbn; try discriminate; intros _.
  destruct old as [[s c]|]; cbn; lia.
Qed.

Lemma s_run_sum_conserved c :
  sums_values (s_kind c) = true -> is_presum_delta c = false ->
  forall h st cur, total (st_vals st) = zsum (map snd cur) ->
  Forall2 (fun pts w => sum_conserved w pts) (s_run c h st) (windows_from (resets c) (ignores (s_kind c)) cur h).
Proof.
  intros Hs Hp h. induction h as [|e h IH]; intros st cur T; cbn [s_run windows_from]; [constructor|].
  destruct e as [a v|].
  - destruct (ignores (s_kind c) v) eqn:IG; [rewrite (s_measure_ignored _ _ _ _ IG); now apply IH|].
    rewrite (s_measure_live _ _ _ _ IG).
    apply IH. unfold s_record. cbn [st_vals].
    rewrite (total_upsert _ _ _ v) by (intro; now apply step_sum).
    rewrite map_app, zsum_app, T. cbn. lia.
  - unfold s_collect. rewrite Hp. constructor; [exact T|].
    apply IH. cbn [st_vals]. destruct (resets c); [reflexivity | exact T].
Qed.

Lemma s_run_count_conserved c :
  counts_values (s_kind c) = true ->
  forall h st cur, total_count (st_vals st) = N.of_nat (length cur) ->
  Forall2 (fun pts w => count_conserved w pts) (s_run c h st) (windows_from (resets c) (ignores (s_kind c)) cur h).
Proof.
  intros Hs h.
  assert (Hp : is_presum_delta c = false) by (unfold is_presum_delta; destruct (s_kind c); try discriminate; reflexivity).
  induction h as [|e h IH]; intros st cur T; cbn [s_run windows_from]; [constructor|].
  destruct e as [a v|].
  - destruct (ignores (s_kind c) v) eqn:IG; [rewrite (s_measure_ignored _ _ _ _ IG); now apply IH|].
    rewrite (s_measure_live _ _ _ _ IG).
    apply IH. unfold s_record. cbn [st_vals].
    rewrite total_count_upsert by (intro; now apply step_count).
    rewrite app_length, T. cbn [length]. lia.
  - unfold s_collect. rewrite Hp. constructor; [exact T|].
    apply IH. cbn [st_vals]. destruct (resets c); [reflexivity | exact T].
Qed.

(** * c12_first_keep_identity / c12_filter_merges: the map is the required grouping *)

(** ** dedup, kept, dest *)
Lemma dedup_snoc l a : dedup (l ++ [a]) = if amem a (dedup l) then dedup l else dedup l ++ [a].
Proof. unfold dedup. rewrite fold_left_app. reflexivity. Qed.

Lemma dedup_In l x : In x (dedup l) <-> In x l.
Proof.
  revert x. induction l as [|a l IH] using rev_ind; intro x; [cbn; tauto|].
  rewrite dedup_snoc. destruct (amem a (dedup l)) eqn:E.
  - apply amem_In in E. apply IH in E. rewrite in_app_iff. cbn. rewrite IH. split; [auto|].
    intros [H|[H|[]]]; [auto | subst; auto].
  - rewrite !in_app_iff, IH. tauto.
Qed.

Lemma dedup_nodup l : NoDup (dedup l).
Proof.
  induction l as [|a l IH] using rev_ind; [constructor|].
  rewrite dedup_snoc. destruct (amem a (dedup l)) eqn:E; [exact IH|].
  apply nodup_snoc; [exact IH | now apply amem_not_In].
Qed.

Lemma In_firstn {A} n (l : list A) x : In x (firstn n l) -> In x l.
Proof.
  revert l; induction n as [|n IH]; intros [|y l]; cbn; try tauto.
  intros [H|H]; [auto | right; now apply IH].
Qed.

Lemma NoDup_firstn {A} n (l : list A) : NoDup l -> NoDup (firstn n l).
Proof.
  revert l; induction n as [|n IH]; intros [|y l] H; cbn; try constructor.
  - inversion H; subst. intro I. apply In_firstn in I. contradiction.
  - inversion H; subst. now apply IH.
Qed.

Lemma firstn_incl_app {A} n (l l2 : list A) x : In x (firstn n l) -> In x (firstn n (l ++ l2)).
Proof. intro H. rewrite firstn_app. apply in_or_app. now left. Qed.

Lemma kept_In L W x : In x (kept L W) -> In x W.
Proof.
  unfold kept. destruct (L =? 0); intro H; [now apply dedup_In|].
  apply In_firstn in H. now apply dedup_In.
Qed.

Lemma kept_snoc_stable L W b x :
  In x W -> (In x (kept L (W ++ [b])) <-> In x (kept L W)).
Proof.
  intros Hx. unfold kept. destruct (L =? 0).
  - rewrite !dedup_In, in_app_iff. tauto.
  - rewrite dedup_snoc. destruct (amem b (dedup W)) eqn:E; [tauto|].
    split; intro H.
    + rewrite firstn_app in H. apply in_app_or in H as [H|H]; [exact H|].
      apply In_firstn in H. destruct H as [H|[]]. subst x.
      apply amem_not_In in E. exfalso. apply E. now apply dedup_In.
    + now apply firstn_incl_app.
Qed.

Lemma dest_stable L W b x : In x W -> dest L (W ++ [b]) x = dest L W x.
Proof.
  intros Hx. unfold dest.
  destruct (amem x (kept L (W ++ [b]))) eqn:E1; destruct (amem x (kept L W)) eqn:E2; try reflexivity.
  - apply amem_In in E1. apply (kept_snoc_stable L W b x Hx) in E1. apply amem_In in E1. congruence.
  - apply amem_In in E2. apply (kept_snoc_stable L W b x Hx) in E2. apply amem_In in E2. congruence.
Qed.

Lemma dest_cases L W x : dest L W x = x \/ dest L W x = overflow_set.
Proof. unfold dest. destruct (amem x (kept L W)); auto. Qed.

Lemma dest_kept L W x : In x (kept L W) -> dest L W x = x.
Proof. intro H. unfold dest. apply amem_In in H. now rewrite H. Qed.

Lemma dest_not_kept L W x : ~ In x (kept L W) -> dest L W x = overflow_set.
Proof. intro H. unfold dest. apply amem_not_In in H. now rewrite H. Qed.

(** ** The limiter computes [dest] *)
Section LimiterDest.
  Variables (L : N) (W K : list aset).
  Hypothesis HL : 1 <= L.
  Hypothesis KN : NoDup K.
  Hypothesis KW : forall k, In k K <-> In k (map (dest L W) W).

  Let n := (N.to_nat L - 1)%nat.
  Let D := dedup W.
  Let F := firstn n D.

  Lemma ld_kept : kept L W = F.
  Proof. unfold kept. destruct (L =? 0) eqn:E; [lia | reflexivity]. Qed.

  Lemma ld_F_in_K x : In x F -> In x K.
  Proof.
    intro H. apply KW. apply in_map_iff. exists x. split.
    - apply dest_kept. now rewrite ld_kept.
    - apply In_firstn in H. now apply dedup_In.
  Qed.

  Lemma ld_K_cases k : In k K -> In k F \/ k = overflow_set.
  Proof.
    intro H. apply KW in H. apply in_map_iff in H as [x [Hd Hx]].
    destruct (amem x (kept L W)) eqn:E.
    - apply amem_In in E. rewrite (dest_kept _ _ _ E) in Hd. subst. left. now rewrite <- ld_kept.
    - apply amem_not_In in E. rewrite (dest_not_kept _ _ _ E) in Hd. now right.
  Qed.

  Lemma ld_small : (length D <= n)%nat -> (forall k, In k K <-> In k W) /\ length K = length D.
  Proof.
    intro Hs.
    assert (FD : F = D) by (unfold F; now apply firstn_all2).
    assert (E : forall k, In k K <-> In k W).
    { intro k. rewrite KW, in_map_iff. split.
      - intros [x [Hd Hx]]. rewrite dest_kept in Hd; [now subst|].
        rewrite ld_kept, FD. now apply dedup_In.
      - intro Hk. exists k. split; [|exact Hk]. apply dest_kept. rewrite ld_kept, FD. now apply dedup_In. }
    split; [exact E|].
    apply Nat.le_antisymm; apply NoDup_incl_length; try assumption; try apply dedup_nodup.
    - intros k Hk. apply dedup_In. now apply E.
    - intros k Hk. apply E. now apply dedup_In.
  Qed.

  Lemma ld_large : (n < length D)%nat -> (n <= length K)%nat.
  Proof.
    intro Hl.
    assert (LF : length F = n) by (unfold F; apply firstn_length_le; lia).
    rewrite <- LF. apply NoDup_incl_length.
    - apply NoDup_firstn. apply dedup_nodup.
    - intros x Hx. now apply ld_F_in_K.
  Qed.

  Lemma limiter_dest a : limiter L a K = dest L (W ++ [a]) a.
  Proof.
    unfold limiter. destruct (L =? 0) eqn:E0; [lia|].
    assert (KS : kept L (W ++ [a]) = firstn n (dedup (W ++ [a]))) by (unfold kept; now rewrite E0).
    destruct (amem a K) eqn:Ea.
    - apply amem_In in Ea. destruct (ld_K_cases _ Ea) as [HF|Ho].
      + symmetry. apply dest_kept. rewrite KS, dedup_snoc.
        assert (In a (dedup W)) by (now apply In_firstn in HF).
        apply amem_In in H. rewrite H. exact HF.
      + subst a. destruct (dest_cases L (W ++ [overflow_set]) overflow_set) as [->| ->]; reflexivity.
    - apply amem_not_In in Ea.
      destruct (L - 1 <=? N.of_nat (length K)) eqn:El.
      + symmetry. apply dest_not_kept. rewrite KS, dedup_snoc. intro HI.
        destruct (amem a (dedup W)) eqn:Ed.
        * apply Ea. now apply ld_F_in_K.
        * rewrite firstn_app in HI. apply in_app_or in HI as [HI|HI].
          -- apply In_firstn in HI. apply amem_not_In in Ed. contradiction.
          -- change (dedup W) with D in HI.
             destruct (Nat.le_gt_cases (length D) n) as [Hs|Hg].
             ++ destruct (ld_small Hs) as [_ LK].
                assert (n - length D <> 0)%nat by (intro Z; rewrite Z in HI; cbn in HI; contradiction).
                unfold n in *. lia.
             ++ assert (Z : (n - length D = 0)%nat) by lia. rewrite Z in HI. cbn in HI. contradiction.
      + symmetry. apply dest_kept. rewrite KS, dedup_snoc.
        destruct (Nat.le_gt_cases (length D) n) as [Hs|Hg].
        * destruct (ld_small Hs) as [EK LK].
          assert (~ In a (dedup W)) by (intro HI; apply Ea, EK; now apply dedup_In).
          apply amem_not_In in H. rewrite H. fold D.
          rewrite firstn_all2; [apply in_or_app; right; now left|].
          rewrite app_length. cbn [length]. unfold n in *. lia.
        * apply ld_large in Hg. unfold n in *. lia.
  Qed.
End LimiterDest.

Lemma limiter_dest0 W K a : limiter 0 a K = dest 0 (W ++ [a]) a.
Proof.
  unfold limiter. cbn. symmetry. apply dest_kept. unfold kept. cbn.
  apply dedup_In. apply in_or_app. right. now left.
Qed.

(** ** routed / vals_at under one more measurement *)
Lemma set_filter_restrict f a : set_filter f a = restrict f a.
Proof. destruct f; reflexivity. Qed.

Lemma routed_keys c w :
  map fst (routed c w) = map (dest (s_limit c) (map fst (filtered c w))) (map fst (filtered c w)).
Proof. unfold routed. rewrite !map_map. reflexivity. Qed.

Lemma filtered_snoc c w a v :
  filtered c (w ++ [(a, v)]) = filtered c w ++ [(restrict (s_filter c) a, v)].
Proof. unfold filtered. rewrite map_app. reflexivity. Qed.

Lemma routed_snoc c w a v :
  let a' := restrict (s_filter c) a in
  let W := map fst (filtered c w) in
  routed c (w ++ [(a, v)]) = routed c w ++ [(dest (s_limit c) (W ++ [a']) a', v)].
Proof.
  cbn zeta. unfold routed. rewrite filtered_snoc, !map_app. cbn [map fst snd]. f_equal.
  apply map_ext_in. intros p Hp. f_equal. apply dest_stable. now apply in_map.
Qed.

Lemma vals_at_snoc k rw k' v :
  vals_at k (rw ++ [(k', v)]) = vals_at k rw ++ (if aset_eqb k' k then [v] else []).
Proof.
  unfold vals_at. rewrite filter_app, map_app. cbn [filter fst]. now destruct (aset_eqb k' k).
Qed.

Lemma vals_at_nil k rw : vals_at k rw = [] <-> ~ In k (map fst rw).
Proof.
  unfold vals_at. induction rw as [|[k' v] r IH]; cbn [filter map fst]; [tauto|].
  destruct (aset_eqb k' k) eqn:E; cbn [map].
  - apply aset_eqb_eq in E. subst. split; [discriminate | intro H; exfalso; apply H; now left].
  - apply aset_eqb_neq in E. rewrite IH. cbn. tauto.
Qed.

Lemma summ_snoc k vs v :
  summ k (vs ++ [v]) = step k (match vs with [] => None | _ => Some (summ k vs) end) v.
Proof.
  destruct k as [m|m| | |ns e]; cbn [summ step].
  - rewrite zsum_app. destruct vs; cbn; f_equal; lia.
  - rewrite zsum_app. destruct vs; cbn; f_equal; lia.
  - rewrite last_last. now destruct vs.
  - rewrite last_last. now destruct vs.
  - rewrite zsum_app, app_length. destruct vs as [|x vs]; cbn [length zsum app]; destruct ns; f_equal; lia.
Qed.

(** ** The invariant: the map holds exactly the required grouping of the window *)
Definition grouped (c : scfg) (w : window) (vals : points) : Prop :=
  NoDup (map fst vals) /\ forall k, lookup k vals = expected_at c w k.

Lemma grouped_nil c : grouped c [] [].
Proof. split; [constructor | reflexivity]. Qed.

Lemma grouped_keys c w vals : grouped c w vals ->
  forall k, In k (map fst vals) <-> In k (map fst (routed c w)).
Proof.
  intros [_ G] k. specialize (G k). unfold expected_at in G.
  destruct (vals_at k (routed c w)) eqn:E.
  - apply lookup_None in G. apply vals_at_nil in E. tauto.
  - split; intros _.
    + destruct (in_dec aset_dec k (map fst (routed c w))) as [I|I]; [exact I|].
      apply vals_at_nil in I. congruence.
    + destruct (in_dec aset_dec k (map fst vals)) as [I|I]; [exact I|].
      apply lookup_None in I. congruence.
Qed.

Lemma limiter_is_dest c w vals a :
  grouped c w vals ->
  limiter (s_limit c) a (map fst vals) = dest (s_limit c) (map fst (filtered c w) ++ [a]) a.
Proof.
  intros G. destruct (N.eq_dec (s_limit c) 0) as [Z|NZ].
  - rewrite Z. apply limiter_dest0.
  - apply limiter_dest; [lia | apply G |].
    intro k. rewrite (grouped_keys _ _ _ G), routed_keys. reflexivity.
Qed.

Lemma grouped_step c w vals a v :
  grouped c w vals ->
  grouped c (w ++ [(a, v)]) (st_vals (s_record c a v {| st_vals := vals; st_rep := [] |})).
Proof.
  intros G. unfold s_record. cbn [st_vals].
  rewrite set_filter_restrict, (limiter_is_dest c w vals _ G).
  set (key := dest (s_limit c) (map fst (filtered c w) ++ [restrict (s_filter c) a]) (restrict (s_filter c) a)).
  split; [apply upsert_nodup, G|].
  intro k. rewrite lookup_upsert. unfold expected_at.
  pose proof (routed_snoc c w a v) as RS. cbn zeta in RS. fold key in RS. rewrite RS, vals_at_snoc.
  destruct G as [_ G].
  destruct (aset_eqb k key) eqn:E.
  - apply aset_eqb_eq in E. subst k. rewrite aset_eqb_refl, (G key). unfold expected_at.
    destruct (vals_at key (routed c w)) as [|x l]; cbn [app].
    + exact (f_equal Some (eq_sym (summ_snoc (s_kind c) [] v))).
    + exact (f_equal Some (eq_sym (summ_snoc (s_kind c) (x :: l) v))).
  - rewrite aset_eqb_sym, E, app_nil_r. apply G.
Qed.

Lemma s_measure_vals c a v st :
  st_vals (s_record c a v st) = st_vals (s_record c a v {| st_vals := st_vals st; st_rep := [] |}).
Proof. reflexivity. Qed.

Lemma s_run_placed c :
  is_presum_delta c = false ->
  forall h st cur, grouped c cur (st_vals st) ->
  Forall2 (fun pts w => placed c w pts) (s_run c h st) (windows_from (resets c) (ignores (s_kind c)) cur h).
Proof.
  intros Hp h. induction h as [|e h IH]; intros st cur G; cbn [s_run windows_from]; [constructor|].
  destruct e as [a v|].
  - destruct (ignores (s_kind c) v) eqn:IG; [rewrite (s_measure_ignored _ _ _ _ IG); now apply IH|].
    rewrite (s_measure_live _ _ _ _ IG).
    apply IH. rewrite s_measure_vals. now apply grouped_step.
  - unfold s_collect. rewrite Hp. constructor; [exact G|].
    apply IH. cbn [st_vals]. destruct (resets c); [apply grouped_nil | exact G].
Qed.

(** ** Readable consequences of [placed] *)
Lemma filter_map_comm {A B} (g : A -> B) (p : B -> bool) (l : list A) :
  filter p (map g l) = map g (filter (fun x => p (g x)) l).
Proof. induction l as [|x l IH]; cbn; [reflexivity|]. destruct (p (g x)); cbn; now rewrite IH. Qed.

Lemma vals_at_routed c w k :
  vals_at k (routed c w) =
  map snd (filter (fun p => aset_eqb (dest (s_limit c) (map fst (filtered c w)) (fst p)) k) (filtered c w)).
Proof. unfold vals_at, routed. rewrite filter_map_comm, map_map. reflexivity. Qed.

Lemma expected_at_opt c w k : expected_at c w k = opt_summ (s_kind c) (vals_at k (routed c w)).
Proof. unfold expected_at, opt_summ. now destruct (vals_at k (routed c w)). Qed.

Lemma filter_nonempty {A} (p : A -> bool) l x : In x l -> p x = true -> filter p l <> [].
Proof. intros I P E. assert (In x (filter p l)) by (apply filter_In; auto). rewrite E in H. contradiction. Qed.

Lemma placed_keep_identity c w pts : placed c w pts -> keep_identity c w pts.
Proof.
  intros [ND P]. unfold keep_identity. cbn zeta.
  set (W := map fst (filtered c w)). set (K := kept (s_limit c) W).
  split; [|split].
  - intros a Ha Hno. rewrite P, expected_at_opt, vals_at_routed. fold W.
    assert (E : filter (fun p => aset_eqb (dest (s_limit c) W (fst p)) a) (filtered c w)
                = filter (fun p => aset_eqb (fst p) a) (filtered c w)).
    { apply filter_ext_in. intros p Hp. unfold dest. fold K.
      destruct (amem (fst p) K) eqn:Ek; [reflexivity|].
      apply amem_not_In in Ek.
      transitivity false; [apply aset_eqb_neq; congruence | symmetry; apply aset_eqb_neq; intro; subst; contradiction]. }
    rewrite E. unfold own_vals, opt_summ.
    assert (NE : map snd (filter (fun p => aset_eqb (fst p) a) (filtered c w)) <> []).
    { apply kept_In in Ha. unfold W in Ha. apply in_map_iff in Ha as [q [Hq1 Hq2]].
      intro Z. apply map_eq_nil in Z. revert Z. apply (filter_nonempty _ _ q Hq2). subst a. apply aset_eqb_refl. }
    destruct (map snd (filter (fun p => aset_eqb (fst p) a) (filtered c w))); [contradiction | reflexivity].
  - intros k Hk. destruct (lookup k pts) eqn:El; [|apply lookup_None in El; contradiction].
    rewrite P, expected_at_opt, vals_at_routed in El. fold W in El.
    destruct (filter (fun p => aset_eqb (dest (s_limit c) W (fst p)) k) (filtered c w)) as [|q r] eqn:Ef; [discriminate|].
    assert (Hp : In q (q :: r)) by now left. rewrite <- Ef in Hp. apply filter_In in Hp as [Hp1 Hp2].
    apply aset_eqb_eq in Hp2. unfold dest in Hp2. fold K in Hp2.
    destruct (amem (fst q) K) eqn:Ek; [left; apply amem_In in Ek; now subst | now right].
  - rewrite P, expected_at_opt, vals_at_routed. fold W. unfold overflow_vals. cbn zeta. fold W. fold K.
    f_equal. f_equal. apply filter_ext. intro p. unfold dest. fold K.
    destruct (amem (fst p) K); cbn [negb]; [now rewrite orb_false_r | rewrite orb_true_r; apply aset_eqb_refl].
Qed.

Lemma placed_filter_merged c w pts : s_limit c = 0 -> placed c w pts -> filter_merged c w pts.
Proof.
  intros L0 [ND P]. split; [exact ND|]. intro k.
  rewrite P, expected_at_opt, vals_at_routed. unfold own_vals. f_equal. f_equal.
  apply filter_ext_in. intros p Hp. f_equal. apply dest_kept. rewrite L0. unfold kept. cbn.
  apply dedup_In. now apply in_map.
Qed.

(** ** Top-level statements for one aggregator started empty *)
Lemma stream_at_most c h : 1 <= s_limit c ->
  Forall (fun pts => at_most (s_limit c) pts) (s_run c h s_empty).
Proof.
  intro HL. eapply Forall_impl; [|apply (s_run_at_most c HL h s_empty), keys_inv_nil].
  intros pts H _. exact H.
Qed.

Lemma stream_placed c h : is_presum_delta c = false ->
  Forall2 (fun pts w => placed c w pts) (s_run c h s_empty) (windows c h).
Proof. intro Hp. apply s_run_placed; [exact Hp | apply grouped_nil]. Qed.

Lemma Forall2_impl {A B} (P Q : A -> B -> Prop) l1 l2 :
  (forall a b, P a b -> Q a b) -> Forall2 P l1 l2 -> Forall2 Q l1 l2.
Proof. intros H F. induction F; constructor; auto. Qed.

Lemma stream_keep_identity c h : is_presum_delta c = false ->
  Forall2 (fun pts w => keep_identity c w pts) (s_run c h s_empty) (windows c h).
Proof.
  intro Hp. eapply Forall2_impl; [|apply stream_placed, Hp]. intros; now apply placed_keep_identity.
Qed.

Lemma stream_filter_merged c h : is_presum_delta c = false -> s_limit c = 0 ->
  Forall2 (fun pts w => filter_merged c w pts) (s_run c h s_empty) (windows c h).
Proof.
  intros Hp L0. eapply Forall2_impl; [|apply stream_placed, Hp]. intros; now apply placed_filter_merged.
Qed.

Lemma stream_sum_conserved c h :
  sums_values (s_kind c) = true -> is_presum_delta c = false ->
  Forall2 (fun pts w => sum_conserved w pts) (s_run c h s_empty) (windows c h).
Proof. intros Hs Hp. now apply s_run_sum_conserved. Qed.

Lemma stream_count_conserved c h :
  counts_values (s_kind c) = true ->
  Forall2 (fun pts w => count_conserved w pts) (s_run c h s_empty) (windows c h).
Proof. intros Hs. now apply s_run_count_conserved. Qed.

(** * Views and the pipeline *)
Lemma ikind_eqb_eq a b : ikind_eqb a b = true <-> a = b.
Proof. destruct a, b; cbn; split; intro H; try reflexivity; try discriminate. Qed.

Lemma sid_eqb_eq a b : sid_eqb a b = true <-> a = b.
Proof.
  destruct a as [n d u k f s1 s2 s3], b as [n' d' u' k' f' s1' s2' s3']. unfold sid_eqb.
  cbn [si_name si_desc si_unit si_kind si_float si_sname si_sver si_surl].
  rewrite !andb_true_iff, !bytes_eqb_eq, ikind_eqb_eq, Bool.eqb_true_iff.
  split; [intros [[[[[[[-> ->] ->] ->] ->] ->] ->] ->]; reflexivity | intro H; inversion H; auto 20].
Qed.

Lemma sid_eqb_refl a : sid_eqb a a = true.
Proof. now apply sid_eqb_eq. Qed.

Lemma nmem_In j l : nmem j l = true <-> In j l.
Proof.
  induction l as [|x l IH]; cbn; [split; [discriminate | tauto]|].
  rewrite orb_true_iff, IH, Nat.eqb_eq. split; intros [H|H]; auto.
Qed.

Lemma nmem_not_In j l : nmem j l = false <-> ~ In j l.
Proof.
  split; intro H.
  - intro I. apply nmem_In in I. congruence.
  - destruct (nmem j l) eqn:E; [|reflexivity]. apply nmem_In in E. contradiction.
Qed.

(** ** No duplication: an instrument never holds the same aggregator twice *)
Lemma insert_views_nodup vs i : forall st seen m e st' seen' m' e',
  insert_views vs i st seen m e = (st', seen', m', e') -> NoDup seen -> NoDup seen'.
Proof.
  induction vs as [|v vs IH]; intros st seen m e st' seen' m' e' H ND; cbn [insert_views] in H.
  - now inversion H; subst.
  - destruct (matches v i); [|eapply IH; eauto].
    destruct (cached_aggregator st i (mask v i)) as [[st1 o] e1].
    eapply IH; [exact H|].
    destruct o as [j|]; [|exact ND].
    destruct (nmem j seen) eqn:E; [exact ND|]. apply nodup_snoc; [exact ND | now apply nmem_not_In].
Qed.

Lemma insert_raw_nodup vs i st st' feeds err :
  insert_raw vs i st = (st', feeds, err) -> NoDup feeds.
Proof.
  unfold insert_raw. destruct (insert_views vs i st [] false false) as [[[st1 seen] m] e] eqn:E.
  pose proof (insert_views_nodup _ _ _ _ _ _ _ _ _ _ E (NoDup_nil _)) as ND.
  destruct m.
  - intro H; inversion H; subst; exact ND.
  - destruct (cached_aggregator st1 i (default_req i)) as [[st2 o] e2]. intro H; inversion H; subst.
    destruct o; constructor; [intros [] | constructor].
Qed.

Lemma insert_nodup vs i st : NoDup (snd (insert vs i st)).
Proof.
  unfold insert. destruct (insert_raw vs i st) as [[st' feeds] err] eqn:E. cbn [snd].
  destruct (observable (i_kind i) && err); [constructor | eapply insert_raw_nodup; eauto].
Qed.

Lemma build_from_nodup vs is : forall st, Forall (@NoDup nat) (snd (build_from vs is st)).
Proof.
  induction is as [|i is IH]; intro st; cbn [build_from]; [constructor|].
  pose proof (insert_nodup vs i st) as ND.
  destruct (insert vs i st) as [st' f]. specialize (IH st').
  destruct (build_from vs is st') as [st'' fs]. cbn [snd] in *. now constructor.
Qed.

Lemma build_feeds_nodup vs is : Forall (@NoDup nat) (snd (build vs is)).
Proof.
  unfold build. pose proof (build_from_nodup vs is p_empty) as H.
  destruct (build_from vs is p_empty) as [st fs]. exact H.
Qed.

(** ** Exactly once: a measurement updates each aggregator of the instrument once, and no other *)
Lemma nth_error_upd {A} (f : A -> A) j : forall (l : list A) j',
  nth_error (upd j f l) j' = if Nat.eqb j' j then option_map f (nth_error l j') else nth_error l j'.
Proof.
  induction j as [|j IH]; intros [|x l] [|j']; cbn; try reflexivity.
  - now destruct (Nat.eqb j' j).
  - apply IH.
Qed.

Lemma dispatch_once cfgs a v : forall feeds sts j, NoDup feeds ->
  nth_error (dispatch cfgs feeds a v sts) j =
  if nmem j feeds then option_map (s_measure (nth j cfgs cfg_dflt) a v) (nth_error sts j) else nth_error sts j.
Proof.
  unfold dispatch. induction feeds as [|x feeds IH]; intros sts j ND; cbn [fold_left nmem]; [reflexivity|].
  inversion ND as [|? ? Hx ND']; subst. rewrite (IH _ _ ND'), nth_error_upd.
  destruct (Nat.eqb j x) eqn:E; cbn [orb].
  - apply Nat.eqb_eq in E. subst x. apply nmem_not_In in Hx. now rewrite Hx.
  - reflexivity.
Qed.

Lemma collect_all_nth cfgs : forall sts j, length sts = length cfgs ->
  nth_error (fst (collect_all cfgs sts)) j =
    option_map (fun s => fst (s_collect (nth j cfgs cfg_dflt) s)) (nth_error sts j) /\
  nth_error (snd (collect_all cfgs sts)) j =
    option_map (fun s => snd (s_collect (nth j cfgs cfg_dflt) s)) (nth_error sts j).
Proof.
  induction cfgs as [|c cfgs IH]; intros [|s sts] j HL; cbn [collect_all]; try discriminate.
  - destruct j; cbn; auto.
  - cbn [length] in HL. injection HL as HL.
    specialize (IH sts). destruct (s_collect c s) as [out s'] eqn:Ec.
    destruct (collect_all cfgs sts) as [outs sr'] eqn:Ea. cbn [fst snd] in *.
    destruct j as [|j]; cbn [nth_error nth option_map]; [rewrite Ec; auto | now apply IH].
Qed.

Lemma collect_all_length cfgs : forall sts, length sts = length cfgs ->
  length (snd (collect_all cfgs sts)) = length cfgs.
Proof.
  induction cfgs as [|c cfgs IH]; intros [|s sts] HL; cbn [collect_all]; try discriminate; [reflexivity|].
  cbn [length] in HL. injection HL as HL. specialize (IH sts HL).
  destruct (s_collect c s) as [out s']. destruct (collect_all cfgs sts) as [outs sr']. cbn [snd length] in *. now f_equal.
Qed.

Lemma upd_length {A} (f : A -> A) j : forall l, length (upd j f l) = length l.
Proof. induction j as [|j IH]; intros [|x l]; cbn; auto. Qed.

Lemma dispatch_length cfgs a v : forall feeds sts, length (dispatch cfgs feeds a v sts) = length sts.
Proof.
  unfold dispatch. induction feeds as [|x feeds IH]; intro sts; cbn [fold_left]; [reflexivity|].
  now rewrite IH, upd_length.
Qed.

(** The instruments feeding aggregator [j]. *)
Definition feeders (j : nat) (feeds : list (list nat)) : list nat :=
  filter (fun i => nmem j (nth i feeds [])) (seq 0 (length feeds)).

Lemma nat_mem_feeders j feeds i : nat_mem i (feeders j feeds) = nmem j (nth i feeds []).
Proof.
  unfold nat_mem, feeders.
  destruct (nmem j (nth i feeds [])) eqn:E.
  - apply existsb_exists. exists i. split; [|apply Nat.eqb_refl].
    apply filter_In. split; [|exact E]. apply in_seq.
    destruct (Nat.lt_ge_cases i (length feeds)) as [H|H]; [lia|].
    rewrite nth_overflow in E by exact H. discriminate.
  - destruct (existsb (Nat.eqb i) _) eqn:X; [|reflexivity].
    apply existsb_exists in X as [x [Hx Hi]]. apply Nat.eqb_eq in Hi. subst x.
    apply filter_In in Hx as [_ Hx]. congruence.
Qed.

(** Every aggregator of the pipeline behaves as a single aggregator run on the history
    made of the measurements of the instruments feeding it, each taken once. *)
Lemma p_run_projection cfgs feeds j :
  Forall (@NoDup nat) feeds -> (j < length cfgs)%nat ->
  forall h sts s, length sts = length cfgs -> nth_error sts j = Some s ->
  map (fun outs => nth j outs []) (p_run_raw cfgs feeds h sts) =
  s_run (nth j cfgs cfg_dflt) (project (feeders j feeds) h) s.
Proof.
  intros ND Hj h. induction h as [|e h IH]; intros sts s HL Hs; cbn [p_run_raw project map s_run]; [reflexivity|].
  destruct e as [i a v|].
  - rewrite nat_mem_feeders.
    assert (NDi : NoDup (nth i feeds [])).
    { destruct (Nat.lt_ge_cases i (length feeds)) as [H|H].
      - eapply Forall_forall; [exact ND | now apply nth_In].
      - rewrite nth_overflow by exact H. constructor. }
    pose proof (dispatch_once cfgs a v (nth i feeds []) sts j NDi) as D. rewrite Hs in D.
    destruct (nmem j (nth i feeds [])); cbn [option_map s_run] in *.
    + apply IH; [now rewrite dispatch_length | exact D].
    + apply IH; [now rewrite dispatch_length | exact D].
  - destruct (collect_all_nth cfgs sts j HL) as [C1 C2]. rewrite Hs in C1, C2. cbn [option_map] in C1, C2.
    pose proof (collect_all_length cfgs sts HL) as CL.
    destruct (collect_all cfgs sts) as [outs sts'] eqn:Ea. cbn [fst snd] in *.
    cbn [map s_run]. destruct (s_collect (nth j cfgs cfg_dflt) s) as [out s'] eqn:Ec. cbn [fst snd] in *.
    f_equal.
    + apply nth_error_nth. exact C1.
    + apply IH; [exact CL | exact C2].
Qed.

(** ** The aggregator cache: one aggregator per stream identity *)
Lemma cache_lookup_app id c id' o :
  cache_lookup id (c ++ [(id', o)]) =
  match cache_lookup id c with Some r => Some r | None => if sid_eqb id id' then Some o else None end.
Proof.
  induction c as [|[id2 r] c IH]; cbn [app cache_lookup]; [reflexivity|].
  destruct (sid_eqb id id2); [reflexivity | exact IH].
Qed.

(** Cached indices point into the list of aggregators, and distinct identities have distinct aggregators. *)
Definition cache_wf (st : pstate) : Prop :=
  (forall id j, cache_lookup id (ps_cache st) = Some (Some j) -> (j < length (ps_decls st))%nat) /\
  (forall id1 id2 j, cache_lookup id1 (ps_cache st) = Some (Some j) ->
                     cache_lookup id2 (ps_cache st) = Some (Some j) -> id1 = id2).

Lemma cache_wf_empty : cache_wf p_empty.
Proof. split; cbn; intros; discriminate. Qed.

Definition cache_mono (st st' : pstate) : Prop :=
  (forall id x, cache_lookup id (ps_cache st) = Some x -> cache_lookup id (ps_cache st') = Some x) /\
  (length (ps_decls st) <= length (ps_decls st'))%nat.

Lemma cache_mono_refl st : cache_mono st st.
Proof. split; auto. Qed.

Lemma cache_mono_trans a b c : cache_mono a b -> cache_mono b c -> cache_mono a c.
Proof. intros [A1 A2] [B1 B2]. split; [auto | lia]. Qed.

Lemma cached_aggregator_spec st i r st' o e :
  cached_aggregator st i r = (st', o, e) ->
  cache_mono st st' /\
  (cache_wf st -> cache_wf st') /\
  (req_compatible i r = false -> st' = st /\ o = None /\ e = true) /\
  (req_compatible i r = true -> e = false /\ cache_lookup (ident i r) (ps_cache st') = Some o).
Proof.
  unfold cached_aggregator. destruct (req_compatible i r) eqn:C; cbn [negb].
  2:{ intro H; inversion H; subst. split; [apply cache_mono_refl|]. split; [auto|].
      split; [intros _; auto | discriminate]. }
  destruct (cache_lookup (ident i r) (ps_cache st)) as [o0|] eqn:CL.
  { intro H; inversion H; subst. split; [apply cache_mono_refl|]. split; [auto|].
    split; [discriminate | intros _; split; [reflexivity | exact CL]]. }
  destruct (req_akind i r) as [ak|] eqn:AK; intro H; inversion H; subst; clear H.
  - split; [|split; [|split]]; try discriminate.
    + split; cbn [ps_cache ps_decls].
      * intros id x Hx. rewrite cache_lookup_app, Hx. reflexivity.
      * rewrite app_length. lia.
    + intros [W1 W2]. split; cbn [ps_cache ps_decls].
      * intros id j. rewrite cache_lookup_app, app_length. cbn [length].
        destruct (cache_lookup id (ps_cache st)) as [x|] eqn:E.
        -- intro Hx; inversion Hx; subst. apply W1 in E. lia.
        -- destruct (sid_eqb id (ident i r)); intro Hx; inversion Hx; subst. lia.
      * intros id1 id2 j. rewrite !cache_lookup_app.
        destruct (cache_lookup id1 (ps_cache st)) as [x1|] eqn:E1;
          destruct (cache_lookup id2 (ps_cache st)) as [x2|] eqn:E2.
        -- intros H1 H2; inversion H1; inversion H2; subst. eapply W2; eauto.
        -- destruct (sid_eqb id2 (ident i r)); intros H1 H2; inversion H1; inversion H2; subst.
           apply W1 in E1. lia.
        -- destruct (sid_eqb id1 (ident i r)); intros H1 H2; inversion H1; inversion H2; subst.
           apply W1 in E2. lia.
        -- destruct (sid_eqb id1 (ident i r)) eqn:S1; destruct (sid_eqb id2 (ident i r)) eqn:S2;
             intros H1 H2; inversion H1; inversion H2; subst.
           apply sid_eqb_eq in S1, S2. congruence.
    + intros _. split; [reflexivity|]. cbn [ps_cache]. now rewrite cache_lookup_app, CL, sid_eqb_refl.
  - split; [|split; [|split]]; try discriminate.
    + split; cbn [ps_cache ps_decls]; [|lia].
      intros id x Hx. rewrite cache_lookup_app, Hx. reflexivity.
    + intros [W1 W2]. split; cbn [ps_cache ps_decls].
      * intros id j. rewrite cache_lookup_app.
        destruct (cache_lookup id (ps_cache st)) as [x|] eqn:E.
        -- intro Hx; inversion Hx; subst. now apply W1 in E.
        -- destruct (sid_eqb id (ident i r)); intro Hx; inversion Hx.
      * intros id1 id2 j. rewrite !cache_lookup_app.
        destruct (cache_lookup id1 (ps_cache st)) as [x1|] eqn:E1;
          destruct (cache_lookup id2 (ps_cache st)) as [x2|] eqn:E2.
        -- intros H1 H2; inversion H1; inversion H2; subst. eapply W2; eauto.
        -- destruct (sid_eqb id2 (ident i r)); intros H1 H2; inversion H1; inversion H2.
        -- destruct (sid_eqb id1 (ident i r)); intros H1 H2; inversion H1; inversion H2.
        -- destruct (sid_eqb id1 (ident i r)); intros H1 H2; inversion H1.
    + intros _. split; [reflexivity|]. cbn [ps_cache]. now rewrite cache_lookup_app, CL, sid_eqb_refl.
Qed.

(** ** No loss: every matching (compatible) view's stream is served by an aggregator the
    instrument feeds, unless that stream identity is dropped *)
Lemma insert_views_served vs i : forall st seen m e st' seen' m' e',
  insert_views vs i st seen m e = (st', seen', m', e') ->
  cache_mono st st' /\ (cache_wf st -> cache_wf st') /\ incl seen seen' /\
  (m' = true <-> m = true \/ exists v, In v vs /\ matches v i = true) /\
  forall v, In v vs -> matches v i = true -> req_compatible i (mask v i) = true ->
    exists o, cache_lookup (ident i (mask v i)) (ps_cache st') = Some o /\
              forall j, o = Some j -> In j seen'.
Proof.
  induction vs as [|v vs IH]; intros st seen m e st' seen' m' e' H; cbn [insert_views] in H.
  - inversion H; subst. split; [apply cache_mono_refl|]. split; [auto|]. split; [apply incl_refl|]. split.
    + split; [intro; now left | intros [?|[v [[] _]]]; assumption].
    + intros v [].
  - destruct (matches v i) eqn:M.
    + destruct (cached_aggregator st i (mask v i)) as [[st1 o] e1] eqn:CA.
      destruct (cached_aggregator_spec _ _ _ _ _ _ CA) as [Mo [Wf [_ Co]]].
      apply IH in H. destruct H as [Mo' [Wf' [Inc [Mt Sv]]]].
      split; [eapply cache_mono_trans; eauto|]. split; [auto|].
      assert (Inc0 : incl seen seen').
      { intros x Hx. apply Inc. destruct o as [j|]; [|exact Hx].
        destruct (nmem j seen); [exact Hx | apply in_or_app; now left]. }
      split; [exact Inc0|]. split.
      * split; [intros _; right; exists v; split; [now left | exact M] | intros _; apply Mt; now left].
      * intros v' [->|Hv'] Mv' Cv'; [|now apply Sv].
        destruct (Co Cv') as [_ CL]. exists o. split; [now apply Mo'|].
        intros j ->. apply Inc. destruct (nmem j seen) eqn:E; [now apply nmem_In | apply in_or_app; right; now left].
    + apply IH in H. destruct H as [Mo' [Wf' [Inc [Mt Sv]]]].
      split; [exact Mo'|]. split; [exact Wf'|]. split; [exact Inc|]. split.
      * rewrite Mt. split.
        -- intros [?|[v' [Hv' Mv']]]; [now left | right; exists v'; split; [now right | exact Mv']].
        -- intros [?|[v' [[->|Hv'] Mv']]]; [now left | congruence | right; now exists v'].
      * intros v' [->|Hv'] Mv' Cv'; [congruence | now apply Sv].
Qed.

(** ** Drop aggregation: nothing is created, nothing is fed *)
Definition not_live (st : pstate) (id : sid) : Prop :=
  match cache_lookup id (ps_cache st) with Some (Some _) => False | _ => True end.

Definition req_drops (i : inst) (r : sreq) : Prop := resolve_agg (r_agg r) i = ASDrop.

Lemma drop_compatible i r : req_drops i r -> req_compatible i r = true /\ req_akind i r = None.
Proof. unfold req_drops, req_compatible, req_akind. intros ->. split; reflexivity. Qed.

Lemma cached_aggregator_drop st i r :
  req_drops i r -> not_live st (ident i r) ->
  exists st', cached_aggregator st i r = (st', None, false) /\ ps_decls st' = ps_decls st /\
              forall id, not_live st id -> not_live st' id.
Proof.
  intros D NL. destruct (drop_compatible _ _ D) as [C A].
  unfold cached_aggregator. rewrite C. cbn [negb]. unfold not_live in NL.
  destruct (cache_lookup (ident i r) (ps_cache st)) as [[j|]|] eqn:CL; [contradiction| |].
  - exists st. repeat split; auto.
  - rewrite A. eexists. split; [reflexivity|]. split; [reflexivity|].
    intros id. unfold not_live. cbn [ps_cache]. rewrite cache_lookup_app.
    destruct (cache_lookup id (ps_cache st)) as [x|]; [auto|]. now destruct (sid_eqb id (ident i r)).
Qed.

Lemma insert_views_drop vs i : forall st m,
  (forall v, In v vs -> matches v i = true -> req_drops i (mask v i) /\ not_live st (ident i (mask v i))) ->
  exists st' m', insert_views vs i st [] m false = (st', [], m', false) /\ ps_decls st' = ps_decls st /\
                 (m' = true <-> m = true \/ exists v, In v vs /\ matches v i = true).
Proof.
  induction vs as [|v vs IH]; intros st m H; cbn [insert_views].
  - exists st, m. repeat split; auto. intros [?|[v [[] _]]]; auto.
  - destruct (matches v i) eqn:M.
    + destruct (H v (or_introl eq_refl) M) as [D NL].
      destruct (cached_aggregator_drop st i _ D NL) as [st1 [CA [DE NLs]]]. rewrite CA. cbn [orb].
      destruct (IH st1 true) as [st' [m' [E [DE' Mt]]]].
      { intros v' Hv' Mv'. destruct (H v' (or_intror Hv') Mv') as [D' NL']. split; [exact D' | now apply NLs]. }
      exists st', m'. split; [exact E|]. split; [congruence|].
      split; [intros _; right; exists v; split; [now left | exact M] | intros _; apply Mt; now left].
    + destruct (IH st m) as [st' [m' [E [DE' Mt]]]].
      { intros v' Hv' Mv'. apply H; [now right | exact Mv']. }
      exists st', m'. split; [exact E|]. split; [exact DE'|]. rewrite Mt. split.
      * intros [?|[v' [Hv' Mv']]]; [now left | right; exists v'; split; [now right | exact Mv']].
      * intros [?|[v' [[->|Hv'] Mv']]]; [now left | congruence | right; now exists v'].
Qed.

Lemma insert_drop vs i st :
  (exists v, In v vs /\ matches v i = true) ->
  (forall v, In v vs -> matches v i = true -> req_drops i (mask v i) /\ not_live st (ident i (mask v i))) ->
  exists st', insert vs i st = (st', []) /\ ps_decls st' = ps_decls st.
Proof.
  intros Ex H. destruct (insert_views_drop vs i st false H) as [st' [m' [E [DE Mt]]]].
  assert (m' = true) by (apply Mt; now right). subst m'.
  exists st'. split; [|exact DE]. unfold insert, insert_raw. rewrite E. now rewrite andb_false_r.
Qed.

(** An instrument that feeds no aggregator leaves every aggregator untouched. *)
Lemma dispatch_nil cfgs a v sts : dispatch cfgs [] a v sts = sts.
Proof. reflexivity. Qed.

(** ** k matching views with pairwise distinct, not yet known stream identities yield k aggregators *)
Definition vid (i : inst) (v : view) : sid := ident i (mask v i).

Lemma insert_views_count vs i : forall st seen m e st' seen' m' e',
  insert_views vs i st seen m e = (st', seen', m', e') ->
  (forall j, In j seen -> (j < length (ps_decls st))%nat) ->
  (forall v, In v vs -> matches v i = true ->
     req_compatible i (mask v i) = true /\ req_akind i (mask v i) <> None /\
     cache_lookup (vid i v) (ps_cache st) = None) ->
  NoDup (map (vid i) (filter (fun v => matches v i) vs)) ->
  length seen' = (length seen + length (filter (fun v => matches v i) vs))%nat /\ e' = e.
Proof.
  induction vs as [|v vs IH]; intros st seen m e st' seen' m' e' H Hs Hv ND; cbn [insert_views filter] in *.
  - inversion H; subst. cbn. split; [lia | reflexivity].
  - destruct (matches v i) eqn:M.
    + destruct (Hv v (or_introl eq_refl) M) as [C [A CL]]. unfold vid in CL.
      unfold cached_aggregator in H. rewrite C, CL in H. cbn [negb] in H.
      destruct (req_akind i (mask v i)) as [ak|] eqn:AK; [|congruence].
      assert (NM : nmem (length (ps_decls st)) seen = false).
      { apply nmem_not_In. intro I. apply Hs in I. lia. }
      rewrite NM, orb_false_r in H.
      cbn [map] in ND. inversion ND as [|? ? Nin ND']; subst.
      apply IH in H; [|cbn [ps_decls] | cbn [ps_cache] | exact ND'].
      * destruct H as [HL He]. rewrite app_length in HL. cbn [length] in *. split; [lia | exact He].
      * intros j Hj. rewrite app_length. cbn [length]. apply in_app_or in Hj as [Hj|[<-|[]]]; [apply Hs in Hj|]; lia.
      * intros v' Hv' Mv'. destruct (Hv v' (or_intror Hv') Mv') as [C' [A' CL']]. split; [exact C'|]. split; [exact A'|].
        rewrite cache_lookup_app, CL'.
        destruct (sid_eqb (vid i v') (ident i (mask v i))) eqn:S; [|reflexivity].
        apply sid_eqb_eq in S. exfalso. apply Nin. apply in_map_iff. exists v'. split; [exact S|].
        apply filter_In. split; assumption.
    + eapply IH; [exact H | exact Hs | | exact ND].
      intros v' Hv' Mv'. apply Hv; [now right | exact Mv'].
Qed.

(** ** The statements about one instrument inserted into a pipeline *)
Lemma insert_raw_views vs i st st' feeds err :
  cache_wf st -> insert_raw vs i st = (st', feeds, err) ->
  NoDup feeds /\ cache_wf st' /\
  forall v, In v vs -> matches v i = true -> req_compatible i (mask v i) = true ->
    exists o, cache_lookup (vid i v) (ps_cache st') = Some o /\ forall j, o = Some j -> In j feeds.
Proof.
  intros W H. split; [eapply insert_raw_nodup; eauto|].
  unfold insert_raw in H.
  destruct (insert_views vs i st [] false false) as [[[st1 seen] m] e] eqn:E.
  destruct (insert_views_served _ _ _ _ _ _ _ _ _ _ E) as [Mo [Wf [_ [Mt Sv]]]].
  destruct m.
  - inversion H; subst. split; [auto | exact Sv].
  - destruct (cached_aggregator st1 i (default_req i)) as [[st2 o] e2] eqn:CA. inversion H; subst.
    destruct (cached_aggregator_spec _ _ _ _ _ _ CA) as [_ [Wf2 _]]. split; [auto|].
    intros v Hv Mv _. exfalso.
    assert (false = true) by (apply Mt; right; now exists v). discriminate.
Qed.

Lemma insert_raw_default vs i st st' feeds err :
  insert_raw vs i st = (st', feeds, err) ->
  (forall v, In v vs -> matches v i = false) -> req_compatible i (default_req i) = true ->
  exists o, cache_lookup (ident i (default_req i)) (ps_cache st') = Some o /\
            feeds = match o with Some j => [j] | None => [] end.
Proof.
  intros H NM C. unfold insert_raw in H.
  destruct (insert_views vs i st [] false false) as [[[st1 seen] m] e] eqn:E.
  destruct (insert_views_served _ _ _ _ _ _ _ _ _ _ E) as [_ [_ [_ [Mt _]]]].
  destruct m.
  - exfalso. destruct (proj1 Mt eq_refl) as [X|[v [Hv Mv]]]; [discriminate | rewrite (NM v Hv) in Mv; discriminate].
  - destruct (cached_aggregator st1 i (default_req i)) as [[st2 o] e2] eqn:CA. inversion H; subst.
    destruct (cached_aggregator_spec _ _ _ _ _ _ CA) as [_ [_ [_ Co]]]. destruct (Co C) as [_ CL].
    exists o. split; [exact CL | reflexivity].
Qed.

Lemma insert_raw_count vs i feeds st' err :
  insert_raw vs i p_empty = (st', feeds, err) ->
  (exists v, In v vs /\ matches v i = true) ->
  (forall v, In v vs -> matches v i = true -> req_compatible i (mask v i) = true /\ req_akind i (mask v i) <> None) ->
  NoDup (map (vid i) (filter (fun v => matches v i) vs)) ->
  length feeds = length (filter (fun v => matches v i) vs) /\ err = false.
Proof.
  intros H [v0 [Hv0 Mv0]] Hc ND. unfold insert_raw in H.
  destruct (insert_views vs i p_empty [] false false) as [[[st1 seen] m] e] eqn:E.
  destruct (insert_views_served _ _ _ _ _ _ _ _ _ _ E) as [_ [_ [_ [Mt _]]]].
  assert (m = true) by (apply Mt; right; now exists v0). subst m. inversion H; subst.
  apply insert_views_count in E; [exact E | intros j [] | | exact ND].
  intros v Hv Mv. destruct (Hc v Hv Mv) as [C A]. split; [exact C|]. split; [exact A | reflexivity].
Qed.

(** * Observable sums with delta temporality (known finding F-C12-1) *)
Lemma sum_override_notin ks k0 z (g : aset -> Z) : ~ In k0 ks ->
  zsum (map (fun k => if aset_eqb k k0 then z else g k) ks) = zsum (map g ks).
Proof.
  induction ks as [|k ks IH]; intro N; cbn [map zsum]; [reflexivity|].
  assert (E : aset_eqb k k0 = false) by (apply aset_eqb_neq; intro; subst; apply N; now left).
  rewrite E, IH; [reflexivity | intro; apply N; now right].
Qed.

Lemma sum_override ks k0 z (g : aset -> Z) : NoDup ks -> In k0 ks ->
  zsum (map (fun k => if aset_eqb k k0 then z else g k) ks) = (z + zsum (map g ks) - g k0)%Z.
Proof.
  induction ks as [|k ks IH]; intros ND I; [destruct I|]. inversion ND; subst. cbn [map zsum].
  destruct I as [->|I].
  - rewrite aset_eqb_refl, sum_override_notin by assumption. lia.
  - assert (E : aset_eqb k k0 = false) by (apply aset_eqb_neq; intro; subst; contradiction).
    rewrite E, IH by assumption. lia.
Qed.

Lemma zlookup_notin k rep : ~ In k (map fst rep) -> zlookup k rep = 0%Z.
Proof.
  induction rep as [|[k' z] r IH]; cbn [zlookup map fst]; intro N; [reflexivity|].
  assert (E : aset_eqb k k' = false) by (apply aset_eqb_neq; intro; subst; apply N; now left).
  rewrite E. apply IH. intro; apply N; now right.
Qed.

Lemma zlookup_sum ks rep : NoDup ks -> NoDup (map fst rep) -> incl (map fst rep) ks ->
  zsum (map (fun k => zlookup k rep) ks) = zsum (map snd rep).
Proof.
  intros NK. induction rep as [|[k0 z] r IH]; intros NR I; cbn [zlookup map fst snd zsum].
  - clear NK NR I. induction ks as [|k ks IHk]; cbn [map zsum]; [reflexivity | now rewrite IHk].
  - cbn [map fst] in NR. inversion NR; subst.
    rewrite (sum_override ks k0 z (fun k => zlookup k r)); [|exact NK | apply I; now left].
    rewrite IH; [|assumption | intros x Hx; apply I; now right].
    rewrite zlookup_notin by assumption. lia.
Qed.

Lemma total_delta_out vals rep :
  total (map (fun kp : aset * point => (fst kp, ((fst (snd kp) - zlookup (fst kp) rep)%Z, snd (snd kp)))) vals)
  = (total vals - zsum (map (fun k => zlookup k rep) (map fst vals)))%Z.
Proof.
  unfold total. induction vals as [|[k [s n]] r IH]; cbn [map zsum fst snd]; [reflexivity|]. rewrite IH. lia.
Qed.

Lemma grouped_keys_unlimited c w vals : s_limit c = 0 -> grouped c w vals ->
  forall k, In k (map fst vals) <-> In k (sets_of c w).
Proof.
  intros L0 G k. rewrite (grouped_keys _ _ _ G), routed_keys. unfold sets_of.
  rewrite (map_ext_in _ (fun x => x)); [now rewrite map_id|].
  intros x Hx. apply dest_kept. rewrite L0. unfold kept. cbn. now apply dedup_In.
Qed.

Lemma forallb_incl (l1 l2 : list aset) :
  forallb (fun a => amem a l2) l1 = true -> incl l1 l2.
Proof. intros H x Hx. rewrite forallb_forall in H. apply amem_In. now apply H. Qed.

Lemma presum_seq_ok c : is_presum_delta c = true -> s_limit c = 0 ->
  forall h st cur prev,
    grouped c cur (st_vals st) -> total (st_vals st) = zsum (map snd cur) ->
    NoDup (map fst (st_rep st)) ->
    (forall k, In k (map fst (st_rep st)) -> In k (sets_of c prev)) ->
    zsum (map snd (st_rep st)) = zsum (map snd prev) ->
    presum_conserved_seq c prev (windows_from true (ignores (s_kind c)) cur h) (s_run c h st) = true.
Proof.
  intros Hp L0 h.
  assert (Hs : sums_values (s_kind c) = true) by (unfold is_presum_delta in Hp; destruct (s_kind c); try discriminate; reflexivity).
  assert (Hr : resets c = true) by (unfold is_presum_delta in Hp; unfold resets; destruct (s_kind c); try discriminate; reflexivity).
  induction h as [|e h IH]; intros st cur prev G T NR KR ZR; cbn [windows_from s_run presum_conserved_seq]; [reflexivity|].
  assert (NI : forall v, ignores (s_kind c) v = false) by (intro v; unfold is_presum_delta in Hp; destruct (s_kind c); try discriminate; reflexivity).
  destruct e as [a v|].
  - rewrite (NI v), (s_measure_live _ _ _ _ (NI v)). apply IH; auto.
    + rewrite s_measure_vals. now apply grouped_step.
    + unfold s_record. cbn [st_vals]. rewrite (total_upsert _ _ _ v) by (intro; now apply step_sum).
      rewrite map_app, zsum_app, T. cbn. lia.
  - unfold s_collect. rewrite Hp, Hr. cbn [presum_conserved_seq]. apply andb_true_iff. split.
    + destruct (forallb (fun a => amem a (sets_of c cur)) (sets_of c prev)) eqn:Sub; [|reflexivity]. cbn [negb orb].
      apply Z.eqb_eq. rewrite total_delta_out, zlookup_sum; [rewrite T, ZR; reflexivity | apply G | exact NR |].
      intros k Hk. apply (grouped_keys_unlimited c cur _ L0 G). apply (forallb_incl _ _ Sub). now apply KR.
    + apply IH; cbn [st_vals st_rep].
      * apply grouped_nil.
      * reflexivity.
      * rewrite map_map. cbn [fst]. apply G.
      * intros k Hk. rewrite map_map in Hk. cbn [fst] in Hk. now apply (grouped_keys_unlimited c cur _ L0 G).
      * rewrite map_map. cbn [snd]. exact T.
Qed.

Lemma presum_delta_conserved_unlimited c h : s_limit c = 0 ->
  presum_conserved_b c h (s_run c h s_empty) = true.
Proof.
  intro L0. unfold presum_conserved_b. destruct (is_presum_delta c) eqn:Hp; [|reflexivity]. cbn [negb orb].
  unfold windows.
  replace (resets c) with true by (unfold is_presum_delta in Hp; unfold resets; destruct (s_kind c); try discriminate; reflexivity).
  apply presum_seq_ok; [exact Hp | exact L0 | exact (grouped_nil c) | reflexivity | constructor | intros k [] | reflexivity].
Qed.

(** * The boolean checker used on observations is sound for [placed] *)
Lemma lookup_map_keys (g : aset -> point) ks k :
  lookup k (map (fun k' => (k', g k')) ks) = if amem k ks then Some (g k) else None.
Proof.
  induction ks as [|x ks IH]; cbn [map lookup amem]; [reflexivity|].
  destruct (aset_eqb k x) eqn:E; cbn [orb]; [apply aset_eqb_eq in E; now subst | exact IH].
Qed.

Lemma expected_points_placed c w : placed c w (expected_points c w).
Proof.
  unfold placed, expected_points. split.
  - rewrite map_map. cbn [fst]. rewrite map_id. apply dedup_nodup.
  - intro k. rewrite lookup_map_keys. unfold expected_at.
    destruct (amem k (dedup (map fst (routed c w)))) eqn:E.
    + apply amem_In in E. apply (proj1 (dedup_In _ _)) in E. destruct (vals_at k (routed c w)) eqn:V; [|reflexivity].
      apply vals_at_nil in V. exfalso. exact (V E).
    + apply amem_not_In in E. rewrite dedup_In in E. apply vals_at_nil in E. now rewrite E.
Qed.

Lemma kp_eqb_eq a b : kp_eqb a b = true <-> a = b.
Proof.
  destruct a as [k [v n]], b as [k' [v' n']]. unfold kp_eqb, kp_eqb_gen, point_eqb_gen. cbn [fst snd andb].
  rewrite orb_false_r, !andb_true_iff, aset_eqb_eq, Z.eqb_eq, N.eqb_eq.
  split; [intros [-> [-> ->]]; reflexivity | intro H; inversion H; auto].
Qed.

Lemma remove_first_perm {A} (eqb : A -> A -> bool) (He : forall a b, eqb a b = true -> a = b) x :
  forall l l', remove_first eqb x l = Some l' -> Permutation l (x :: l').
Proof.
  induction l as [|y l IH]; intros l' H; cbn [remove_first] in H; [discriminate|].
  destruct (eqb x y) eqn:E.
  - apply He in E. inversion H; subst. apply Permutation_refl.
  - destruct (remove_first eqb x l) as [r|] eqn:R; [|discriminate]. inversion H; subst.
    apply perm_trans with (y :: x :: r); [apply perm_skip, IH; reflexivity | apply perm_swap].
Qed.

Lemma perm_eqb_perm {A} (eqb : A -> A -> bool) (He : forall a b, eqb a b = true -> a = b) :
  forall a b, perm_eqb eqb a b = true -> Permutation a b.
Proof.
  induction a as [|x a IH]; intros b H; cbn [perm_eqb] in H.
  - destruct b; [constructor | discriminate].
  - destruct (remove_first eqb x b) as [b'|] eqn:R; [|discriminate].
    apply (remove_first_perm eqb He) in R. apply Permutation_sym in R.
    apply perm_trans with (x :: b'); [apply perm_skip, IH, H | exact R].
Qed.

Lemma lookup_perm (l1 l2 : points) : Permutation l1 l2 -> NoDup (map fst l1) ->
  forall k, lookup k l1 = lookup k l2.
Proof.
  induction 1 as [|[k0 p0] l l' P IH|[k1 p1] [k2 p2] l|l l' l'' P1 IH1 P2 IH2]; intros ND k.
  - reflexivity.
  - cbn [lookup]. destruct (aset_eqb k k0); [reflexivity|]. apply IH. now inversion ND.
  - cbn [lookup]. destruct (aset_eqb k k2) eqn:E2; destruct (aset_eqb k k1) eqn:E1; try reflexivity.
    apply aset_eqb_eq in E1, E2. subst. cbn [map fst] in ND. inversion ND as [|? ? N1 _]. exfalso. apply N1. now left.
  - rewrite IH1 by exact ND. apply IH2.
    eapply Permutation_NoDup; [apply Permutation_map, P1 | exact ND].
Qed.

Lemma checker_sound c w pts : points_eqb (expected_points c w) pts = true -> placed c w pts.
Proof.
  intro H. apply (perm_eqb_perm kp_eqb (fun a b => proj1 (kp_eqb_eq a b))) in H.
  destruct (expected_points_placed c w) as [ND P]. split.
  - eapply Permutation_NoDup; [apply Permutation_map, H | exact ND].
  - intro k. rewrite <- P. symmetry. now apply lookup_perm.
Qed.

(** * Order-free clauses hold for every history, hence for every interleaving of concurrent recorders *)
Lemma Forall2_and {A B} (P Q : A -> B -> Prop) l1 l2 :
  Forall2 P l1 l2 -> Forall2 Q l1 l2 -> Forall2 (fun a b => P a b /\ Q a b) l1 l2.
Proof. intros F. induction F; intro G; inversion G; subst; constructor; auto. Qed.

Lemma Forall2_Forall_l {A B} (P : A -> Prop) (Q : A -> B -> Prop) l1 l2 :
  Forall P l1 -> Forall2 Q l1 l2 -> Forall2 (fun a b => P a /\ Q a b) l1 l2.
Proof. intros F G. induction G; inversion F; subst; constructor; auto. Qed.

Lemma stream_at_most_any c h : Forall (fun pts => at_most (s_limit c) pts) (s_run c h s_empty).
Proof.
  destruct (N.le_gt_cases 1 (s_limit c)) as [H|H]; [now apply stream_at_most|].
  apply Forall_forall. intros pts _ HL. lia.
Qed.

Lemma stream_order_free c h : is_presum_delta c = false ->
  Forall2 (fun pts w => order_free c w pts) (s_run c h s_empty) (windows c h).
Proof.
  intro Hp. pose proof (stream_placed c h Hp) as FP.
  assert (FS : Forall2 (fun pts w => sums_values (s_kind c) = true -> sum_conserved w pts) (s_run c h s_empty) (windows c h)).
  { destruct (sums_values (s_kind c)) eqn:E.
    - eapply Forall2_impl; [|apply stream_sum_conserved; assumption]. auto.
    - eapply Forall2_impl; [|exact FP]. intros; discriminate. }
  assert (FC : Forall2 (fun pts w => counts_values (s_kind c) = true -> count_conserved w pts) (s_run c h s_empty) (windows c h)).
  { destruct (counts_values (s_kind c)) eqn:E.
    - eapply Forall2_impl; [|apply stream_count_conserved; assumption]. auto.
    - eapply Forall2_impl; [|exact FP]. intros; discriminate. }
  pose proof (Forall2_Forall_l _ _ _ _ (stream_at_most_any c h) (Forall2_and _ _ _ _ FP (Forall2_and _ _ _ _ FS FC))) as F.
  eapply Forall2_impl; [|exact F]. cbn beta. intros pts w [AM [PL [S C]]].
  destruct (placed_keep_identity c w pts PL) as [_ [K _]].
  split; [apply PL|]. split; [exact AM|]. split; [|split; assumption].
  intros k Hk. destruct (K k Hk) as [Hin|Ho]; [left; eapply kept_In; exact Hin | now right].
Qed.
