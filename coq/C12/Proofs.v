(** C12 proofs. *)
From Verif Require Import Lib.Base C12.Defs C12.Model C12.Spec.
From Coq Require Import ZifyBool ZifyN ZifyNat Permutation.
Open Scope N_scope.

(** * Equality tests *)
Lemma kv_eqb_eq a b : kv_eqb a b = true <-> a = b.
Proof.
  destruct a as [k v], b as [k' v']; unfold kv_eqb; cbn [fst snd].
  rewrite andb_true_iff, !bytes_eqb_eq. split; [intros [-> ->]; reflexivity | intros H; inversion H; auto].
Qed.

Lemma aset_eqb_eq a b : aset_eqb a b = true <-> a = b.
Proof. apply list_eqb_eq. exact kv_eqb_eq. Qed.

Lemma aset_eqb_refl a : aset_eqb a a = true.
Proof. now apply aset_eqb_eq. Qed.

Lemma aset_eqb_neq a b : aset_eqb a b = false <-> a <> b.
Proof.
  split; intro H.
  - intro E. apply aset_eqb_eq in E. congruence.
  - destruct (aset_eqb a b) eqn:E; [|reflexivity]. apply aset_eqb_eq in E. contradiction.
Qed.

Lemma aset_eqb_sym a b : aset_eqb a b = aset_eqb b a.
Proof.
  destruct (aset_eqb a b) eqn:E.
  - apply aset_eqb_eq in E. subst. now rewrite aset_eqb_refl.
  - apply aset_eqb_neq in E. symmetry. apply aset_eqb_neq. congruence.
Qed.

Lemma aset_dec (a b : aset) : {a = b} + {a <> b}.
Proof.
  destruct (aset_eqb a b) eqn:E; [left; now apply aset_eqb_eq | right; now apply aset_eqb_neq].
Qed.

Lemma amem_In a l : amem a l = true <-> In a l.
Proof.
  induction l as [|x l IH]; cbn; [split; [discriminate | tauto]|].
  rewrite orb_true_iff, IH, aset_eqb_eq. split; intros [H|H]; auto.
Qed.

Lemma amem_not_In a l : amem a l = false <-> ~ In a l.
Proof.
  split; intro H.
  - intro I. apply amem_In in I. congruence.
  - destruct (amem a l) eqn:E; [|reflexivity]. apply amem_In in E. contradiction.
Qed.

Lemma amem_app a l1 l2 : amem a (l1 ++ l2) = amem a l1 || amem a l2.
Proof. induction l1; cbn; [reflexivity|]. now rewrite IHl1, orb_assoc. Qed.

(** * Generic list facts *)
Lemma nodup_snoc {A} (l : list A) a : NoDup l -> ~ In a l -> NoDup (l ++ [a]).
Proof.
  induction l as [|x l IH]; cbn; intros H N.
  - constructor; [tauto | constructor].
  - inversion H; subst. constructor.
    + rewrite in_app_iff. cbn. intros [I|[I|[]]]; [auto | subst; auto].
    + apply IH; auto.
Qed.

(** * The aggregator map: upsert *)
Lemma upsert_keys k f st :
  map fst (upsert k f st) = if amem k (map fst st) then map fst st else map fst st ++ [k].
Proof.
  induction st as [|[k' p] r IH]; cbn; [reflexivity|].
  destruct (aset_eqb k k') eqn:E; cbn; [reflexivity|].
  rewrite IH. now destruct (amem k (map fst r)).
Qed.

Lemma lookup_upsert k f st k2 :
  lookup k2 (upsert k f st) = if aset_eqb k2 k then Some (f (lookup k st)) else lookup k2 st.
Proof.
  induction st as [|[k' p] r IH]; cbn.
  - destruct (aset_eqb k2 k); reflexivity.
  - destruct (aset_eqb k k') eqn:E; cbn.
    + apply aset_eqb_eq in E. subst k'. destruct (aset_eqb k2 k); reflexivity.
    + rewrite IH. destruct (aset_eqb k2 k') eqn:E2; [|reflexivity].
      apply aset_eqb_eq in E2. subst k'. rewrite aset_eqb_sym, E. reflexivity.
Qed.

Lemma lookup_None k st : lookup k st = None <-> ~ In k (map fst st).
Proof.
  induction st as [|[k' p] r IH]; cbn; [tauto|].
  destruct (aset_eqb k k') eqn:E.
  - apply aset_eqb_eq in E. subst. split; [discriminate | intros H; exfalso; auto].
  - apply aset_eqb_neq in E. rewrite IH. split; [intros H [H1|H1]; [congruence | auto] | tauto].
Qed.

Lemma upsert_nodup k f st : NoDup (map fst st) -> NoDup (map fst (upsert k f st)).
Proof.
  intro H. rewrite upsert_keys. destruct (amem k (map fst st)) eqn:E; [exact H|].
  apply amem_not_In in E. apply nodup_snoc; assumption.
Qed.

(** * c12_at_most_L: the limiter never lets the map grow beyond L keys *)
Definition keys_inv (L : N) (K : list aset) : Prop :=
  (~ In overflow_set K -> (length K <= N.to_nat L - 1)%nat) /\ (length K <= N.to_nat L)%nat.

Lemma keys_inv_nil L : keys_inv L [].
Proof. split; cbn; lia. Qed.

Lemma limiter_keys_inv L a K :
  1 <= L -> keys_inv L K ->
  let k := limiter L a K in keys_inv L (if amem k K then K else K ++ [k]).
Proof.
  intros HL [I1 I2]. unfold limiter.
  destruct (L =? 0) eqn:E0; [lia|].
  destruct (amem a K) eqn:Ea; cbn zeta.
  - rewrite Ea. split; assumption.
  - destruct (L - 1 <=? N.of_nat (length K)) eqn:El.
    + destruct (amem overflow_set K) eqn:Eo; [split; assumption|].
      apply amem_not_In in Eo. specialize (I1 Eo).
      split; rewrite ?app_length; cbn [length].
      * intros N. exfalso. apply N. apply in_or_app. right. left. reflexivity.
      * lia.
    + rewrite Ea. split; rewrite ?app_length; cbn [length]; intros; lia.
Qed.

Lemma s_measure_keys c a v st :
  map fst (st_vals (s_measure c a v st)) =
  let K := map fst (st_vals st) in
  let k := limiter (s_limit c) (set_filter (s_filter c) a) K in
  if amem k K then K else K ++ [k].
Proof. unfold s_measure. cbn [st_vals]. now rewrite upsert_keys. Qed.

Lemma s_collect_out_keys c st : map fst (fst (s_collect c st)) = map fst (st_vals st).
Proof.
  unfold s_collect. cbn [fst]. destruct (is_presum_delta c); [|reflexivity].
  rewrite map_map. apply map_ext. intros [k p]. reflexivity.
Qed.

Lemma s_collect_next_keys c st :
  map fst (st_vals (snd (s_collect c st))) = if resets c then [] else map fst (st_vals st).
Proof. unfold s_collect. cbn [snd st_vals]. now destruct (resets c). Qed.

Lemma s_run_at_most c : 1 <= s_limit c -> forall h st,
  keys_inv (s_limit c) (map fst (st_vals st)) ->
  Forall (fun pts => N.of_nat (length pts) <= s_limit c) (s_run c h st).
Proof.
  intros HL h. induction h as [|e h IH]; intros st I; cbn [s_run]; [constructor|].
  destruct e as [a v|].
  - apply IH. rewrite s_measure_keys. cbn zeta. now apply limiter_keys_inv.
  - destruct (s_collect c st) as [out st'] eqn:E.
    assert (Ho : map fst out = map fst (st_vals st)) by (rewrite <- (s_collect_out_keys c st), E; reflexivity).
    assert (Hn : map fst (st_vals st') = if resets c then [] else map fst (st_vals st))
      by (rewrite <- (s_collect_next_keys c st), E; reflexivity).
    constructor.
    + destruct I as [_ I2]. rewrite <- Ho, map_length in I2. lia.
    + apply IH. rewrite Hn. destruct (resets c); [apply keys_inv_nil | exact I].
Qed.

(** * c12_total_conserved: every measurement is added to exactly one point *)
Lemma zsum_app a b : zsum (a ++ b) = (zsum a + zsum b)%Z.
Proof. induction a; cbn [zsum app]; lia. Qed.

Definition ofst (o : option point) : Z := match o with None => 0%Z | Some p => fst p end.
Definition osnd (o : option point) : N := match o with None => 0 | Some p => snd p end.

Lemma total_upsert k f st v :
  (forall old, fst (f old) = (ofst old + v)%Z) -> total (upsert k f st) = (total st + v)%Z.
Proof.
  intros Hf. unfold total. induction st as [|[k' p] r IH]; cbn [upsert map zsum fst snd].
  - rewrite (Hf None). cbn. lia.
  - destruct (aset_eqb k k'); cbn [map zsum fst snd].
    + rewrite (Hf (Some p)). cbn. lia.
    + rewrite IH. lia.
Qed.

Lemma total_count_upsert k f st :
  (forall old, snd (f old) = osnd old + 1) -> total_count (upsert k f st) = total_count st + 1.
Proof.
  intros Hf. unfold total_count. induction st as [|[k' p] r IH]; cbn [upsert map fold_right fst snd].
  - rewrite (Hf None). cbn. lia.
  - destruct (aset_eqb k k'); cbn [map fold_right fst snd].
    + rewrite (Hf (Some p)). cbn. lia.
    + rewrite IH. lia.
Qed.

Lemma step_sum k old v : sums_values k = true -> fst (step k old v) = (ofst old + v)%Z.
Proof.
  destruct k as [m|m| | |ns e]; cbn; try discriminate; intros H.
  - destruct old as [[s c]|]; cbn; lia.
  - destruct old as [[s c]|]; cbn; lia.
  - destruct ns; [discriminate|]. destruct old as [[s c]|]; cbn; lia.
Qed.

Lemma step_count k old v : counts_values k = true -> snd (step k old v) = osnd old + 1.
Proof.
  destruct k as [m|m| | |ns e]; cbn; try discriminate; intros _.
  destruct old as [[s c]|]; cbn; lia.
Qed.

Lemma s_run_sum_conserved c :
  sums_values (s_kind c) = true -> is_presum_delta c = false ->
  forall h st cur, total (st_vals st) = zsum (map snd cur) ->
  Forall2 (fun pts w => sum_conserved w pts) (s_run c h st) (windows_from (resets c) cur h).
Proof.
  intros Hs Hp h. induction h as [|e h IH]; intros st cur T; cbn [s_run windows_from]; [constructor|].
  destruct e as [a v|].
  - apply IH. unfold s_measure. cbn [st_vals].
    rewrite (total_upsert _ _ _ v) by (intro; now apply step_sum).
    rewrite map_app, zsum_app, T. cbn. lia.
  - unfold s_collect. rewrite Hp. constructor; [exact T|].
    apply IH. cbn [st_vals]. destruct (resets c); [reflexivity | exact T].
Qed.

Lemma s_run_count_conserved c :
  counts_values (s_kind c) = true ->
  forall h st cur, total_count (st_vals st) = N.of_nat (length cur) ->
  Forall2 (fun pts w => count_conserved w pts) (s_run c h st) (windows_from (resets c) cur h).
Proof.
  intros Hs h.
  assert (Hp : is_presum_delta c = false) by (unfold is_presum_delta; destruct (s_kind c); try discriminate; reflexivity).
  induction h as [|e h IH]; intros st cur T; cbn [s_run windows_from]; [constructor|].
  destruct e as [a v|].
  - apply IH. unfold s_measure. cbn [st_vals].
    rewrite total_count_upsert by (intro; now apply step_count).
    rewrite app_length, T. cbn [length]. lia.
  - unfold s_collect. rewrite Hp. constructor; [exact T|].
    apply IH. cbn [st_vals]. destruct (resets c); [reflexivity | exact T].
Qed.

(** * c12_first_keep_identity / c12_filter_merges: the map is the required grouping *)

(** ** dedup, kept, dest *)
Lemma dedup_snoc l a : dedup (l ++ [a]) = if amem a (dedup l) then dedup l else dedup l ++ [a].
Proof. unfold dedup. rewrite fold_left_app. reflexivity. Qed.

Lemma dedup_In l x : In x (dedup l) <-> In x l.
Proof.
  revert x. induction l as [|a l IH] using rev_ind; intro x; [cbn; tauto|].
  rewrite dedup_snoc. destruct (amem a (dedup l)) eqn:E.
  - apply amem_In in E. apply IH in E. rewrite in_app_iff. cbn. rewrite IH. split; [auto|].
    intros [H|[H|[]]]; [auto | subst; auto].
  - rewrite !in_app_iff, IH. tauto.
Qed.

Lemma dedup_nodup l : NoDup (dedup l).
Proof.
  induction l as [|a l IH] using rev_ind; [constructor|].
  rewrite dedup_snoc. destruct (amem a (dedup l)) eqn:E; [exact IH|].
  apply nodup_snoc; [exact IH | now apply amem_not_In].
Qed.

Lemma In_firstn {A} n (l : list A) x : In x (firstn n l) -> In x l.
Proof.
  revert l; induction n as [|n IH]; intros [|y l]; cbn; try tauto.
  intros [H|H]; [auto | right; now apply IH].
Qed.

Lemma NoDup_firstn {A} n (l : list A) : NoDup l -> NoDup (firstn n l).
Proof.
  revert l; induction n as [|n IH]; intros [|y l] H; cbn; try constructor.
  - inversion H; subst. intro I. apply In_firstn in I. contradiction.
  - inversion H; subst. now apply IH.
Qed.

Lemma firstn_incl_app {A} n (l l2 : list A) x : In x (firstn n l) -> In x (firstn n (l ++ l2)).
Proof. intro H. rewrite firstn_app. apply in_or_app. now left. Qed.

Lemma kept_In L W x : In x (kept L W) -> In x W.
Proof.
  unfold kept. destruct (L =? 0); intro H; [now apply dedup_In|].
  apply In_firstn in H. now apply dedup_In.
Qed.

Lemma kept_snoc_stable L W b x :
  In x W -> (In x (kept L (W ++ [b])) <-> In x (kept L W)).
Proof.
  intros Hx. unfold kept. destruct (L =? 0).
  - rewrite !dedup_In, in_app_iff. tauto.
  - rewrite dedup_snoc. destruct (amem b (dedup W)) eqn:E; [tauto|].
    split; intro H.
    + rewrite firstn_app in H. apply in_app_or in H as [H|H]; [exact H|].
      apply In_firstn in H. destruct H as [H|[]]. subst x.
      apply amem_not_In in E. exfalso. apply E. now apply dedup_In.
    + now apply firstn_incl_app.
Qed.

Lemma dest_stable L W b x : In x W -> dest L (W ++ [b]) x = dest L W x.
Proof.
  intros Hx. unfold dest.
  destruct (amem x (kept L (W ++ [b]))) eqn:E1; destruct (amem x (kept L W)) eqn:E2; try reflexivity.
  - apply amem_In in E1. apply (kept_snoc_stable L W b x Hx) in E1. apply amem_In in E1. congruence.
  - apply amem_In in E2. apply (kept_snoc_stable L W b x Hx) in E2. apply amem_In in E2. congruence.
Qed.

Lemma dest_cases L W x : dest L W x = x \/ dest L W x = overflow_set.
Proof. unfold dest. destruct (amem x (kept L W)); auto. Qed.

Lemma dest_kept L W x : In x (kept L W) -> dest L W x = x.
Proof. intro H. unfold dest. apply amem_In in H. now rewrite H. Qed.

Lemma dest_not_kept L W x : ~ In x (kept L W) -> dest L W x = overflow_set.
Proof. intro H. unfold dest. apply amem_not_In in H. now rewrite H. Qed.

(** ** The limiter computes [dest] *)
Section LimiterDest.
  Variables (L : N) (W K : list aset).
  Hypothesis HL : 1 <= L.
  Hypothesis KN : NoDup K.
  Hypothesis KW : forall k, In k K <-> In k (map (dest L W) W).

  Let n := (N.to_nat L - 1)%nat.
  Let D := dedup W.
  Let F := firstn n D.

  Lemma ld_kept : kept L W = F.
  Proof. unfold kept. destruct (L =? 0) eqn:E; [lia | reflexivity]. Qed.

  Lemma ld_F_in_K x : In x F -> In x K.
  Proof.
    intro H. apply KW. apply in_map_iff. exists x. split.
    - apply dest_kept. now rewrite ld_kept.
    - apply In_firstn in H. now apply dedup_In.
  Qed.

  Lemma ld_K_cases k : In k K -> In k F \/ k = overflow_set.
  Proof.
    intro H. apply KW in H. apply in_map_iff in H as [x [Hd Hx]].
    destruct (amem x (kept L W)) eqn:E.
    - apply amem_In in E. rewrite (dest_kept _ _ _ E) in Hd. subst. left. now rewrite <- ld_kept.
    - apply amem_not_In in E. rewrite (dest_not_kept _ _ _ E) in Hd. now right.
  Qed.

  Lemma ld_small : (length D <= n)%nat -> (forall k, In k K <-> In k W) /\ length K = length D.
  Proof.
    intro Hs.
    assert (FD : F = D) by (unfold F; now apply firstn_all2).
    assert (E : forall k, In k K <-> In k W).
    { intro k. rewrite KW, in_map_iff. split.
      - intros [x [Hd Hx]]. rewrite dest_kept in Hd; [now subst|].
        rewrite ld_kept, FD. now apply dedup_In.
      - intro Hk. exists k. split; [|exact Hk]. apply dest_kept. rewrite ld_kept, FD. now apply dedup_In. }
    split; [exact E|].
    apply Nat.le_antisymm; apply NoDup_incl_length; try assumption; try apply dedup_nodup.
    - intros k Hk. apply dedup_In. now apply E.
    - intros k Hk. apply E. now apply dedup_In.
  Qed.

  Lemma ld_large : (n < length D)%nat -> (n <= length K)%nat.
  Proof.
    intro Hl.
    assert (LF : length F = n) by (unfold F; apply firstn_length_le; lia).
    rewrite <- LF. apply NoDup_incl_length.
    - apply NoDup_firstn. apply dedup_nodup.
    - intros x Hx. now apply ld_F_in_K.
  Qed.

  Lemma limiter_dest a : limiter L a K = dest L (W ++ [a]) a.
  Proof.
    unfold limiter. destruct (L =? 0) eqn:E0; [lia|].
    assert (KS : kept L (W ++ [a]) = firstn n (dedup (W ++ [a]))) by (unfold kept; now rewrite E0).
    destruct (amem a K) eqn:Ea.
    - apply amem_In in Ea. destruct (ld_K_cases _ Ea) as [HF|Ho].
      + symmetry. apply dest_kept. rewrite KS, dedup_snoc.
        assert (In a (dedup W)) by (now apply In_firstn in HF).
        apply amem_In in H. rewrite H. exact HF.
      + subst a. destruct (dest_cases L (W ++ [overflow_set]) overflow_set) as [->| ->]; reflexivity.
    - apply amem_not_In in Ea.
      destruct (L - 1 <=? N.of_nat (length K)) eqn:El.
      + symmetry. apply dest_not_kept. rewrite KS, dedup_snoc. intro HI.
        destruct (amem a (dedup W)) eqn:Ed.
        * apply Ea. now apply ld_F_in_K.
        * rewrite firstn_app in HI. apply in_app_or in HI as [HI|HI].
          -- apply In_firstn in HI. apply amem_not_In in Ed. contradiction.
          -- change (dedup W) with D in HI.
             destruct (Nat.le_gt_cases (length D) n) as [Hs|Hg].
             ++ destruct (ld_small Hs) as [_ LK].
                assert (n - length D <> 0)%nat by (intro Z; rewrite Z in HI; cbn in HI; contradiction).
                unfold n in *. lia.
             ++ assert (Z : (n - length D = 0)%nat) by lia. rewrite Z in HI. cbn in HI. contradiction.
      + symmetry. apply dest_kept. rewrite KS, dedup_snoc.
        destruct (Nat.le_gt_cases (length D) n) as [Hs|Hg].
        * destruct (ld_small Hs) as [EK LK].
          assert (~ In a (dedup W)) by (intro HI; apply Ea, EK; now apply dedup_In).
          apply amem_not_In in H. rewrite H. fold D.
          rewrite firstn_all2; [apply in_or_app; right; now left|].
          rewrite app_length. cbn [length]. unfold n in *. lia.
        * apply ld_large in Hg. unfold n in *. lia.
  Qed.
End LimiterDest.

Lemma limiter_dest0 W K a : limiter 0 a K = dest 0 (W ++ [a]) a.
Proof.
  unfold limiter. cbn. symmetry. apply dest_kept. unfold kept. cbn.
  apply dedup_In. apply in_or_app. right. now left.
Qed.

(** ** routed / vals_at under one more measurement *)
Lemma set_filter_restrict f a : set_filter f a = restrict f a.
Proof. destruct f; reflexivity. Qed.

Lemma routed_keys c w :
  map fst (routed c w) = map (dest (s_limit c) (map fst (filtered c w))) (map fst (filtered c w)).
Proof. unfold routed. rewrite !map_map. reflexivity. Qed.

Lemma filtered_snoc c w a v :
  filtered c (w ++ [(a, v)]) = filtered c w ++ [(restrict (s_filter c) a, v)].
Proof. unfold filtered. rewrite map_app. reflexivity. Qed.

Lemma routed_snoc c w a v :
  let a' := restrict (s_filter c) a in
  let W := map fst (filtered c w) in
  routed c (w ++ [(a, v)]) = routed c w ++ [(dest (s_limit c) (W ++ [a']) a', v)].
Proof.
  cbn zeta. unfold routed. rewrite filtered_snoc, !map_app. cbn [map fst snd]. f_equal.
  apply map_ext_in. intros p Hp. f_equal. apply dest_stable. now apply in_map.
Qed.

Lemma vals_at_snoc k rw k' v :
  vals_at k (rw ++ [(k', v)]) = vals_at k rw ++ (if aset_eqb k' k then [v] else []).
Proof.
  unfold vals_at. rewrite filter_app, map_app. cbn [filter fst]. now destruct (aset_eqb k' k).
Qed.

Lemma vals_at_nil k rw : vals_at k rw = [] <-> ~ In k (map fst rw).
Proof.
  unfold vals_at. induction rw as [|[k' v] r IH]; cbn [filter map fst]; [tauto|].
  destruct (aset_eqb k' k) eqn:E; cbn [map].
  - apply aset_eqb_eq in E. subst. split; [discriminate | intro H; exfalso; apply H; now left].
  - apply aset_eqb_neq in E. rewrite IH. cbn. tauto.
Qed.

Lemma summ_snoc k vs v :
  summ k (vs ++ [v]) = step k (match vs with [] => None | _ => Some (summ k vs) end) v.
Proof.
  destruct k as [m|m| | |ns e]; cbn [summ step].
  - rewrite zsum_app. destruct vs; cbn; f_equal; lia.
  - rewrite zsum_app. destruct vs; cbn; f_equal; lia.
  - rewrite last_last. now destruct vs.
  - rewrite last_last. now destruct vs.
  - rewrite zsum_app, app_length. destruct vs as [|x vs]; cbn [length zsum app]; destruct ns; f_equal; lia.
Qed.

(** ** The invariant: the map holds exactly the required grouping of the window *)
Definition grouped (c : scfg) (w : window) (vals : points) : Prop :=
  NoDup (map fst vals) /\ forall k, lookup k vals = expected_at c w k.

Lemma grouped_nil c : grouped c [] [].
Proof. split; [constructor | reflexivity]. Qed.

Lemma grouped_keys c w vals : grouped c w vals ->
  forall k, In k (map fst vals) <-> In k (map fst (routed c w)).
Proof.
  intros [_ G] k. specialize (G k). unfold expected_at in G.
  destruct (vals_at k (routed c w)) eqn:E.
  - apply lookup_None in G. apply vals_at_nil in E. tauto.
  - split; intros _.
    + destruct (in_dec aset_dec k (map fst (routed c w))) as [I|I]; [exact I|].
      apply vals_at_nil in I. congruence.
    + destruct (in_dec aset_dec k (map fst vals)) as [I|I]; [exact I|].
      apply lookup_None in I. congruence.
Qed.

Lemma limiter_is_dest c w vals a :
  grouped c w vals ->
  limiter (s_limit c) a (map fst vals) = dest (s_limit c) (map fst (filtered c w) ++ [a]) a.
Proof.
  intros G. destruct (N.eq_dec (s_limit c) 0) as [Z|NZ].
  - rewrite Z. apply limiter_dest0.
  - apply limiter_dest; [lia | apply G |].
    intro k. rewrite (grouped_keys _ _ _ G), routed_keys. reflexivity.
Qed.

Lemma grouped_step c w vals a v :
  grouped c w vals ->
  grouped c (w ++ [(a, v)]) (st_vals (s_measure c a v {| st_vals := vals; st_rep := [] |})).
Proof.
  intros G. unfold s_measure. cbn [st_vals].
  rewrite set_filter_restrict, (limiter_is_dest c w vals _ G).
  set (key := dest (s_limit c) (map fst (filtered c w) ++ [restrict (s_filter c) a]) (restrict (s_filter c) a)).
  split; [apply upsert_nodup, G|].
  intro k. rewrite lookup_upsert. unfold expected_at.
  pose proof (routed_snoc c w a v) as RS. cbn zeta in RS. fold key in RS. rewrite RS, vals_at_snoc.
  destruct G as [_ G].
  destruct (aset_eqb k key) eqn:E.
  - apply aset_eqb_eq in E. subst k. rewrite aset_eqb_refl, (G key). unfold expected_at.
    destruct (vals_at key (routed c w)) as [|x l]; cbn [app].
    + exact (f_equal Some (eq_sym (summ_snoc (s_kind c) [] v))).
    + exact (f_equal Some (eq_sym (summ_snoc (s_kind c) (x :: l) v))).
  - rewrite aset_eqb_sym, E, app_nil_r. apply G.
Qed.

Lemma s_measure_vals c a v st :
  st_vals (s_measure c a v st) = st_vals (s_measure c a v {| st_vals := st_vals st; st_rep := [] |}).
Proof. reflexivity. Qed.

Lemma s_run_placed c :
  is_presum_delta c = false ->
  forall h st cur, grouped c cur (st_vals st) ->
  Forall2 (fun pts w => placed c w pts) (s_run c h st) (windows_from (resets c) cur h).
Proof.
  intros Hp h. induction h as [|e h IH]; intros st cur G; cbn [s_run windows_from]; [constructor|].
  destruct e as [a v|].
  - apply IH. rewrite s_measure_vals. now apply grouped_step.
  - unfold s_collect. rewrite Hp. constructor; [exact G|].
    apply IH. cbn [st_vals]. destruct (resets c); [apply grouped_nil | exact G].
Qed.
