(** C12 specification, written against the property text (not against the model):

    "With a cardinality limit L no instrument ever reports more than L attribute sets in one
     collection: the first L-1 distinct sets keep their identity and every further measurement
     is aggregated under the single otel.metric.overflow=true set, so the total over all
     reported points still equals the total of all measurements.  A view's attribute filter
     reports each measurement under its filtered attribute set, adding together streams that
     become identical and leaving totals unchanged, a drop aggregation reports nothing, and
     renaming or re-aggregating views neither lose nor duplicate measurements."

    Part A reads it for one metric stream (a history of measurements and collections),
    part B for a whole pipeline (instruments, views, history).  Only Defs.v is imported. *)
From Verif Require Import Lib.Base C12.Defs.
Open Scope N_scope.

(** * Part A: one stream *)

(** The measurements a collection is about: those since the last reset
    (delta temporality, observable instruments) or since the start (cumulative). *)
Definition window := list (aset * Z).

Fixpoint windows_from (rst : bool) (ign : Z -> bool) (cur : window) (h : list aev) : list window :=
  match h with
  | [] => []
  | AMeasure a v :: r => if ign v then windows_from rst ign cur r else windows_from rst ign (cur ++ [(a, v)]) r
  | ACollect :: r => cur :: windows_from rst ign (if rst then [] else cur) r
  end.
(** Guard for non-finite float measurements (NaN, +Inf, -Inf; see Defs.is_nf): the exponential
    histogram discards them by design, so they are not part of its windows; every other aggregator
    must count them (histogram counts are conserved exactly), while a sum that a non-finite value
    entered is only required to be non-finite again (its value is excluded from comparison). *)
Definition windows (c : scfg) (h : list aev) : list window :=
  windows_from (resets c) (ignores (s_kind c)) [] h.

(** The filtered attribute set: the allow-listed keys, in order. *)
Definition restrict (f : option afilter) (a : aset) : aset :=
  match f with
  | None => a
  | Some f => filter f a
  end.

(** Distinct sets in order of first appearance. *)
Definition dedup (l : list aset) : list aset :=
  fold_left (fun acc a => if amem a acc then acc else acc ++ [a]) l [].

(** The sets that keep their identity: all of them without a limit, else the first L-1 distinct ones. *)
Definition kept (L : N) (W : list aset) : list aset :=
  if L =? 0 then dedup W else firstn (N.to_nat L - 1) (dedup W).

(** Where a measurement for set [a] must be reported, given all sets [W] of the window. *)
Definition dest (L : N) (W : list aset) (a : aset) : aset :=
  if amem a (kept L W) then a else overflow_set.

(** The window with every measurement relabelled by its filtered, limited destination. *)
Definition filtered (c : scfg) (w : window) : window :=
  map (fun p => (restrict (s_filter c) (fst p), snd p)) w.
Definition routed (c : scfg) (w : window) : window :=
  let fw := filtered c w in
  map (fun p => (dest (s_limit c) (map fst fw) (fst p), snd p)) fw.

Definition vals_at (k : aset) (rw : window) : list Z :=
  map snd (filter (fun p => aset_eqb (fst p) k) rw).

(** What an aggregation kind reports for the values that reach one attribute set. *)
Definition summ (k : akind) (vs : list Z) : point :=
  match k with
  | AKSum _ | AKPreSum _ => (zsum vs, 0)
  | AKLast | AKPreLast => (last vs 0%Z, 0)
  | AKHist nosum _ => ((if nosum then 0 else zsum vs)%Z, N.of_nat (length vs))
  end.

(** The point required at attribute set [k] (None: no point). *)
Definition expected_at (c : scfg) (w : window) (k : aset) : option point :=
  match vals_at k (routed c w) with
  | [] => None
  | vs => Some (summ (s_kind c) vs)
  end.

Definition expected_points (c : scfg) (w : window) : points :=
  let rw := routed c w in
  map (fun k => (k, summ (s_kind c) (vals_at k rw))) (dedup (map fst rw)).

(** ** Prop readings of the clauses, for the points [pts] reported for window [w] *)

(** no more than L attribute sets *)
Definition at_most (L : N) (pts : points) : Prop := 1 <= L -> N.of_nat (length pts) <= L.

(** the first L-1 distinct (filtered) sets under their own identity, complete; everything
    else under the overflow set only; a filter merges the measurements whose filtered sets
    coincide: the point at [k] is exactly the aggregate of the measurements destined to [k]. *)
Definition placed (c : scfg) (w : window) (pts : points) : Prop :=
  NoDup (map fst pts) /\ forall k, lookup k pts = expected_at c w k.

(** totals: sum of the reported values = sum of the measured values; histogram counts likewise *)
Definition sum_conserved (w : window) (pts : points) : Prop := total pts = zsum (map snd w).
Definition count_conserved (w : window) (pts : points) : Prop := total_count pts = N.of_nat (length w).

Definition sums_values (k : akind) : bool :=
  match k with AKSum _ | AKPreSum _ => true | AKHist nosum _ => negb nosum | _ => false end.
Definition counts_values (k : akind) : bool := match k with AKHist _ _ => true | _ => false end.

(** ** Boolean checker used on the implementation's observations *)
Fixpoint remove_first {A} (eqb : A -> A -> bool) (x : A) (l : list A) : option (list A) :=
  match l with
  | [] => None
  | y :: r => if eqb x y then Some r
              else match remove_first eqb x r with Some r' => Some (y :: r') | None => None end
  end.

Fixpoint perm_eqb {A} (eqb : A -> A -> bool) (a b : list A) : bool :=
  match a with
  | [] => match b with [] => true | _ => false end
  | x :: a' => match remove_first eqb x b with Some b' => perm_eqb eqb a' b' | None => false end
  end.

(** [relax]: a required value that is non-finite (a non-finite measurement entered the sum, or is the
    last value) only requires the reported value to be non-finite; counts are always compared exactly. *)
Definition point_eqb_gen (relax : bool) (p q : point) : bool :=
  ((fst p =? fst q)%Z || (relax && is_nf (fst p) && is_nf (fst q))) && (snd p =? snd q).
Definition kp_eqb_gen (relax : bool) (a b : aset * point) : bool :=
  aset_eqb (fst a) (fst b) && point_eqb_gen relax (snd a) (snd b).
Definition points_eqb_gen (relax : bool) : points -> points -> bool := perm_eqb (kp_eqb_gen relax).
Definition point_eqb := point_eqb_gen false.
Definition kp_eqb := kp_eqb_gen false.
Definition points_eqb : points -> points -> bool := points_eqb_gen false.

Fixpoint zlook (k : aset) (l : points) : Z :=
  match l with
  | [] => 0%Z
  | (k', p) :: r => if aset_eqb k k' then fst p else zlook k r
  end.

(** Observable sums with delta temporality report the change against the previous
    collection's value of the same (limited) attribute set. *)
Fixpoint expected_seq (c : scfg) (prev : points) (ws : list window) : list points :=
  match ws with
  | [] => []
  | w :: r =>
      let cur := expected_points c w in
      (if is_presum_delta c
       then map (fun kp => (fst kp, ((fst (snd kp) - zlook (fst kp) prev)%Z, snd (snd kp)))) cur
       else cur) :: expected_seq c cur r
  end.

Definition expected_run (c : scfg) (h : list aev) : list points := expected_seq c [] (windows c h).

Definition stream_ok_b (c : scfg) (h : list aev) (obs : list points) : bool :=
  list_eqb points_eqb (expected_run c h) obs.

(** Clause checkers on one collection (each a direct reading of one sentence of the property). *)
Definition at_most_b (L : N) (pts : points) : bool := (L =? 0) || (N.of_nat (length pts) <=? L).
Definition conserved_b (c : scfg) (w : window) (pts : points) : bool :=
  (negb (sums_values (s_kind c)) || is_presum_delta c || (total pts =? zsum (map snd w))%Z) &&
  (negb (counts_values (s_kind c)) || (total_count pts =? N.of_nat (length w))).

(** * Part B: instruments, views, a pipeline *)

(** The streams an instrument asks for: one per matching view, or the default stream. *)
Definition requests (vs : list view) (i : inst) : list sreq :=
  match filter (fun v => matches v i) vs with
  | [] => [default_req i]
  | ms => map (fun v => mask v i) ms
  end.

Record sentry := {
  e_id : sid; e_name : bytes; e_kind : option akind; e_ikind : ikind;
  e_filter : option afilter; e_feeder : option nat
}.

(** Requests with an aggregation the instrument kind cannot use are refused (an error
    is returned to the caller); an observable instrument is then left without any stream. *)
Definition inst_entries (vs : list view) (idx : nat) (i : inst) : list sentry :=
  let rs := requests vs i in
  let broken := observable (i_kind i) && existsb (fun r => negb (req_compatible i r)) rs in
  map (fun r => {| e_id := ident i r; e_name := qualified i (r_name r); e_kind := req_akind i r; e_ikind := i_kind i;
                   e_filter := r_filter r; e_feeder := if broken then None else Some idx |})
      (filter (req_compatible i) rs).

Fixpoint entries (vs : list view) (idx : nat) (is : list inst) : list sentry :=
  match is with
  | [] => []
  | i :: r => inst_entries vs idx i ++ entries vs (S idx) r
  end.

Definition sid_mem (x : sid) (l : list sid) : bool := existsb (sid_eqb x) l.
Definition sid_dedup (l : list sid) : list sid :=
  fold_left (fun acc a => if sid_mem a acc then acc else acc ++ [a]) l [].
Definition nat_mem (x : nat) (l : list nat) : bool := existsb (Nat.eqb x) l.
Definition nat_dedup (l : list nat) : list nat :=
  fold_left (fun acc a => if nat_mem a acc then acc else acc ++ [a]) l [].

Definition feeders_of (es : list sentry) : list nat :=
  nat_dedup (flat_map (fun e => match e_feeder e with Some i => [i] | None => [] end) es).

(** Streams with the same identity are one stream (the first request defines it); it is fed
    by every instrument that asked for it, once. *)
Definition spec_streams (vs : list view) (is : list inst) : list (sentry * list nat) :=
  let es := entries vs 0 is in
  flat_map (fun id =>
              let same := filter (fun e => sid_eqb (e_id e) id) es in
              match same with
              | [] => []
              | e :: _ => [(e, feeders_of same)]
              end)
           (sid_dedup (map e_id es)).

(** The history one stream sees: every measurement of each feeding instrument, once. *)
Fixpoint project (fs : list nat) (h : list event) : list aev :=
  match h with
  | [] => []
  | EMeasure i a v :: r => if nat_mem i fs then AMeasure a v :: project fs r else project fs r
  | ECollect :: r => ACollect :: project fs r
  end.

Definition stream_cfg (L tmask : N) (e : sentry) (ak : akind) : scfg :=
  {| s_kind := ak; s_delta := delta_of tmask (e_ikind e); s_limit := L; s_filter := e_filter e |}.

(** What every non-drop stream must report at each collection: (entry, kind, configuration,
    the history the stream sees, required points per collection). *)
Definition srun := (sentry * akind * scfg * list aev * list points)%type.

Definition stream_runs (L tmask : N) (vs : list view) (is : list inst) (h : list event) : list srun :=
  flat_map (fun sf : sentry * list nat =>
              let (e, fs) := sf in
              match e_kind e with
              | None => []                        (* drop aggregation reports nothing *)
              | Some ak =>
                  let c := stream_cfg L tmask e ak in
                  let ph := project fs h in
                  [(e, ak, c, ph, expected_run c ph)]
              end)
           (spec_streams vs is).

(** What collection number [n] must report: one metric per stream that has a point. *)
Definition metrics_at (runs : list srun) (n : nat) : list metric :=
  flat_map (fun r : srun =>
              let '(e, ak, c, _, ps) := r in
              match nth n ps [] with
              | [] => []
              | pts => [(e_name e, meta_of ak (s_delta c), pts)]
              end)
           runs.

Definition expected_metrics (L tmask : N) (vs : list view) (is : list inst) (h : list event) (n : nat) : list metric :=
  metrics_at (stream_runs L tmask vs is h) n.

Definition is_hist_tag (m : N) : bool := let t := m mod 10 in (t =? 2) || (t =? 3).

(** [a] is the required metric, [b] the reported one. *)
Definition metric_eqb_gen (relax : bool) (a b : metric) : bool :=
  bytes_eqb (fst (fst a)) (fst (fst b)) && (snd (fst a) =? snd (fst b)) &&
  points_eqb_gen relax (snd a) (snd b).
Definition metric_eqb := metric_eqb_gen false.

Fixpoint collects_ok (relax : bool) (runs : list srun) (n : nat) (obs : list (list metric)) : bool :=
  match obs with
  | [] => true
  | o :: r => perm_eqb (metric_eqb_gen relax) (metrics_at runs n) o && collects_ok relax runs (S n) r
  end.

Definition count_collects (h : list event) : nat :=
  length (filter (fun e => match e with ECollect => true | _ => false end) h).

Definition runs_ok (relax : bool) (runs : list srun) (h : list event) (obs : list (list metric)) : bool :=
  Nat.eqb (length obs) (count_collects h) && collects_ok relax runs 0 obs.

Definition spec_ok_gen (relax : bool) (L tmask : N) (vs : list view) (is : list inst) (h : list event)
           (obs : list (list metric)) : bool :=
  runs_ok relax (stream_runs L tmask vs is h) h obs.
Definition spec_ok := spec_ok_gen false.

(** ** Observable sums reported with delta temporality
    Such a stream reports, per attribute set, the change against the previous collection.
    When the callback forgot no attribute set (every set observed in the previous collection
    is observed again), the reported changes must add up to the change of the total. *)
Definition sets_of (c : scfg) (w : window) : list aset := map fst (filtered c w).

Fixpoint presum_conserved_seq (c : scfg) (prev : window) (ws : list window) (ps : list points) : bool :=
  match ws, ps with
  | w :: wr, p :: pr =>
      (negb (forallb (fun a => amem a (sets_of c w)) (sets_of c prev))
       || (total p =? zsum (map snd w) - zsum (map snd prev))%Z)
      && presum_conserved_seq c w wr pr
  | _, _ => true
  end.

Definition presum_conserved_b (c : scfg) (h : list aev) (ps : list points) : bool :=
  negb (is_presum_delta c) || presum_conserved_seq c [] (windows c h) ps.

(** The same clause for every stream of a pipeline whose reports are the required ones. *)
Definition runs_presum_ok (runs : list srun) : bool :=
  forallb (fun r : srun => let '(_, _, c, ph, ps) := r in presum_conserved_b c ph ps) runs.

Definition pipeline_presum_ok (L tmask : N) (vs : list view) (is : list inst) (h : list event) : bool :=
  runs_presum_ok (stream_runs L tmask vs is h).

(** Coarser clause checkers on a whole observation, independent of view resolution:
    every reported metric respects the limit. *)
Definition obs_at_most_b (L : N) (obs : list (list metric)) : bool :=
  forallb (fun ms => forallb (fun m : metric => at_most_b L (snd m)) ms) obs.

(** * Readings used in the theorem statements *)

(** The values measured for exactly the (filtered) attribute set [a]. *)
Definition own_vals (c : scfg) (w : window) (a : aset) : list Z :=
  map snd (filter (fun p => aset_eqb (fst p) a) (filtered c w)).

(** The values whose (filtered) set is the overflow set itself or is not among the kept ones. *)
Definition overflow_vals (c : scfg) (w : window) : list Z :=
  let fw := filtered c w in
  map snd (filter (fun p => aset_eqb (fst p) overflow_set || negb (amem (fst p) (kept (s_limit c) (map fst fw)))) fw).

Definition opt_summ (k : akind) (vs : list Z) : option point :=
  match vs with [] => None | _ => Some (summ k vs) end.

(** "the first L-1 distinct sets keep their identity and every further measurement is
    aggregated under the single otel.metric.overflow=true set" *)
Definition keep_identity (c : scfg) (w : window) (pts : points) : Prop :=
  let K := kept (s_limit c) (map fst (filtered c w)) in
  (forall a, In a K -> a <> overflow_set -> lookup a pts = Some (summ (s_kind c) (own_vals c w a))) /\
  (forall k, In k (map fst pts) -> In k K \/ k = overflow_set) /\
  lookup overflow_set pts = opt_summ (s_kind c) (overflow_vals c w).

(** "reports each measurement under its filtered attribute set, adding together streams that become identical" *)
Definition filter_merged (c : scfg) (w : window) (pts : points) : Prop :=
  NoDup (map fst pts) /\ forall k, lookup k pts = opt_summ (s_kind c) (own_vals c w k).

(** * Clauses that do not depend on the arrival order
    Used to judge concurrent recording, where only the multiset of measurements is known:
    whatever the order in which the measurements of a window reached the aggregator, no set is
    reported twice, at most L sets are reported, every reported set is one of the (filtered) sets
    measured or the overflow set, and totals / histogram counts are conserved. *)
Definition order_free (c : scfg) (w : window) (pts : points) : Prop :=
  NoDup (map fst pts) /\ at_most (s_limit c) pts /\
  (forall k, In k (map fst pts) -> In k (map fst (filtered c w)) \/ k = overflow_set) /\
  (sums_values (s_kind c) = true -> sum_conserved w pts) /\
  (counts_values (s_kind c) = true -> count_conserved w pts).

Fixpoint nodup_b (l : list aset) : bool :=
  match l with [] => true | x :: r => negb (amem x r) && nodup_b r end.

(** [offered]: the attribute sets recorded; [vals]: the values recorded; [lastv]: a last-value
    stream (each reported value must be one of the recorded ones). *)
Definition order_free_b (L : N) (sums counts lastv : bool) (offered : list aset) (vals : list Z) (pts : points) : bool :=
  nodup_b (map fst pts) && at_most_b L pts &&
  forallb (fun k => amem k offered || aset_eqb k overflow_set) (map fst pts) &&
  (negb sums || (total pts =? zsum vals)%Z) &&
  (negb counts || (total_count pts =? N.of_nat (length vals))) &&
  (negb lastv || forallb (fun kp : aset * point => existsb (Z.eqb (fst (snd kp))) vals) pts).

(** * Explicit-bucket histograms at bucket level
    For the values [vs] that reach one attribute set (after filter and limit): bucket j holds the number of
    values whose bucket index is j, count and sum are theirs, min / max are their minimum / maximum. *)
Definition count_in (bounds : list Z) (j : nat) (vs : list Z) : N :=
  N.of_nat (length (filter (fun v => Nat.eqb (bidx bounds v) j) vs)).
Definition bucket_counts (bounds : list Z) (vs : list Z) : list N :=
  map (fun j => count_in bounds j vs) (seq 0 (S (length bounds))).
Definition zmin_list (vs : list Z) : Z := match vs with [] => 0%Z | v :: r => fold_left Z.min r v end.
Definition zmax_list (vs : list Z) : Z := match vs with [] => 0%Z | v :: r => fold_left Z.max r v end.

Definition hdescribes (bounds : list Z) (nosum : bool) (vs : list Z) (hv : hval) : Prop :=
  length (h_counts hv) = S (length bounds) /\
  (forall j, nth j (h_counts hv) 0 = count_in bounds j vs) /\
  h_count hv = N.of_nat (length vs) /\
  h_total hv = (if nosum then 0 else zsum vs)%Z /\
  h_min hv = zmin_list vs /\ h_max hv = zmax_list vs.

(** Every reported histogram point is exactly the description of the measurements destined to its set. *)
Definition hplaced (c : scfg) (bounds : list Z) (w : window) (pts : hpoints) : Prop :=
  NoDup (map fst pts) /\
  forall k, match vals_at k (routed c w) with
            | [] => glookup k pts = None
            | vs => exists hv, glookup k pts = Some hv /\ hdescribes bounds (hist_nosum c) vs hv
            end.

(** Per bucket, the counts of all reported points (kept sets and the overflow set) add up to the number of
    measurements of the window that fall into the bucket: no measurement changes bucket or is lost by
    the limit or by a filter merge. *)
Definition bucket_total (j : nat) (pts : hpoints) : N :=
  fold_right N.add 0 (map (fun kp => nth j (h_counts (snd kp)) 0) pts).
Definition buckets_conserved (bounds : list Z) (w : window) (pts : hpoints) : Prop :=
  forall j, bucket_total j pts = count_in bounds j (map snd w).

(** Boolean form used on observations: (bucket counts, min, max) of one point against the values routed to it. *)
Definition hdetail_ok (bounds : list Z) (vs : list Z) (counts : list N) (mn mx : Z) : bool :=
  list_eqb N.eqb counts (bucket_counts bounds vs) && (mn =? zmin_list vs)%Z && (mx =? zmax_list vs)%Z.
