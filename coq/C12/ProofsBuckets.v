(** C12 proofs, part 3: explicit-bucket histograms at bucket level under limits and filters. *)
From Verif Require Import Lib.Base C12.Defs C12.Model C12.Spec C12.Proofs.
From Verif Require Lib.MetricsModel.
From Coq Require Import ZifyBool ZifyN ZifyNat.
Open Scope N_scope.

(** The bucket rule is the one the shared metrics model (C07 / C08) uses. *)
Lemma bidx_is_lib_bidx : bidx = Lib.MetricsModel.bidx.
Proof. reflexivity. Qed.

(** * Generic association-list facts *)
Lemma gupsert_keys {A} k (f : option A -> A) st :
  map fst (gupsert k f st) = if amem k (map fst st) then map fst st else map fst st ++ [k].
Proof.
  induction st as [|[k' p] r IH]; cbn; [reflexivity|].
  destruct (aset_eqb k k') eqn:E; cbn; [reflexivity|].
  rewrite IH. now destruct (amem k (map fst r)).
Qed.

Lemma glookup_gupsert {A} k (f : option A -> A) st k2 :
  glookup k2 (gupsert k f st) = if aset_eqb k2 k then Some (f (glookup k st)) else glookup k2 st.
Proof.
  induction st as [|[k' p] r IH]; cbn.
  - destruct (aset_eqb k2 k); reflexivity.
  - destruct (aset_eqb k k') eqn:E; cbn.
    + apply aset_eqb_eq in E. subst k'. destruct (aset_eqb k2 k); reflexivity.
    + rewrite IH. destruct (aset_eqb k2 k') eqn:E2; [|reflexivity].
      apply aset_eqb_eq in E2. subst k'. rewrite aset_eqb_sym, E. reflexivity.
Qed.

Lemma glookup_None {A} k (st : list (aset * A)) : glookup k st = None <-> ~ In k (map fst st).
Proof.
  induction st as [|[k' p] r IH]; cbn; [tauto|].
  destruct (aset_eqb k k') eqn:E.
  - apply aset_eqb_eq in E. subst. split; [discriminate | intros H; exfalso; auto].
  - apply aset_eqb_neq in E. rewrite IH. split; [intros H [H1|H1]; [congruence | auto] | tauto].
Qed.

Lemma gupsert_nodup {A} k (f : option A -> A) st : NoDup (map fst st) -> NoDup (map fst (gupsert k f st)).
Proof.
  intro H. rewrite gupsert_keys. destruct (amem k (map fst st)) eqn:E; [exact H|].
  apply amem_not_In in E. apply nodup_snoc; assumption.
Qed.

(** * Bucket vectors *)
Lemma incr_length i l : length (incr i l) = length l.
Proof. revert i; induction l as [|x l IH]; intros [|i]; cbn; auto. Qed.

Lemma nth_incr l : forall i j,
  nth j (incr i l) 0 = nth j l 0 + (if Nat.eqb j i && (i <? length l)%nat then 1 else 0).
Proof.
  induction l as [|x l IH]; intros i j; cbn [incr].
  - destruct i, j; cbn; rewrite ?andb_false_r; reflexivity.
  - destruct i as [|i], j as [|j]; cbn [incr nth Nat.eqb andb length].
    + cbn. lia.
    + cbn. lia.
    + cbn. lia.
    + rewrite IH. replace (S i <? S (length l))%nat with (i <? length l)%nat; [reflexivity|].
      destruct (i <? length l)%nat eqn:E1, (S i <? S (length l))%nat eqn:E2; try reflexivity; lia.
Qed.

Lemma nth_repeat0 n j : nth j (repeat (0:N) n) 0 = 0.
Proof. revert j; induction n; intros [|j]; cbn; auto. Qed.

Lemma bidx_le bounds v : (bidx bounds v <= length bounds)%nat.
Proof. unfold bidx. induction bounds as [|b r IH]; cbn; [lia|]. destruct (b <? v)%Z; cbn; lia. Qed.

Lemma count_in_snoc bounds j vs v :
  count_in bounds j (vs ++ [v]) = count_in bounds j vs + (if Nat.eqb (bidx bounds v) j then 1 else 0).
Proof.
  unfold count_in. rewrite filter_app, app_length. cbn [filter].
  destruct (Nat.eqb (bidx bounds v) j); cbn [length]; lia.
Qed.

Lemma count_in_nil bounds j : count_in bounds j [] = 0.
Proof. reflexivity. Qed.

Lemma hit_eq j i n : (i <= n)%nat ->
  (if Nat.eqb j i && (i <? S n)%nat then 1 else 0) = (if Nat.eqb i j then 1 else 0 : N).
Proof.
  intro H. destruct (Nat.eqb j i) eqn:E1; destruct (Nat.eqb i j) eqn:E2; destruct (i <? S n)%nat eqn:E3; cbn; try reflexivity; exfalso;
    try (apply Nat.eqb_eq in E1); try (apply Nat.eqb_eq in E2); try (apply Nat.eqb_neq in E1); try (apply Nat.eqb_neq in E2);
    try (apply Nat.ltb_lt in E3); try (apply Nat.ltb_ge in E3); lia.
Qed.

(** * min / max *)
Lemma zmin_snoc vs v : vs <> [] -> zmin_list (vs ++ [v]) = Z.min (zmin_list vs) v.
Proof. destruct vs as [|x r]; [congruence|]. intros _. cbn [app zmin_list]. now rewrite fold_left_app. Qed.

Lemma zmax_snoc vs v : vs <> [] -> zmax_list (vs ++ [v]) = Z.max (zmax_list vs) v.
Proof. destruct vs as [|x r]; [congruence|]. intros _. cbn [app zmax_list]. now rewrite fold_left_app. Qed.

Lemma zmin_le_zmax vs : (zmin_list vs <= zmax_list vs)%Z.
Proof.
  induction vs as [|v vs IH] using rev_ind; [cbn; lia|].
  destruct vs as [|x r]; [cbn; lia|].
  rewrite zmin_snoc, zmax_snoc by discriminate. lia.
Qed.

(** * One more value reaches an attribute set *)
Lemma hdescribes_first bounds nosum v : hdescribes bounds nosum [v] (hstep bounds nosum None v).
Proof.
  unfold hdescribes, hstep. cbn [h_counts h_count h_total h_min h_max].
  repeat split.
  - now rewrite incr_length, repeat_length.
  - intro j. rewrite nth_incr, nth_repeat0, repeat_length.
    change [v] with ([] ++ [v]). rewrite count_in_snoc, count_in_nil.
    rewrite (hit_eq j (bidx bounds v) (length bounds) (bidx_le bounds v)). lia.
  - destruct nosum; cbn; lia.
Qed.

Lemma hdescribes_next bounds nosum vs v hv : vs <> [] ->
  hdescribes bounds nosum vs hv -> hdescribes bounds nosum (vs ++ [v]) (hstep bounds nosum (Some hv) v).
Proof.
  intros NE [HL [HC [HN [HT [Hmin Hmax]]]]]. unfold hdescribes, hstep. cbn [h_counts h_count h_total h_min h_max].
  split; [now rewrite incr_length|]. split; [|split; [|split; [|split]]].
  - intro j. rewrite nth_incr, HC, count_in_snoc, HL.
    rewrite (hit_eq j (bidx bounds v) (length bounds) (bidx_le bounds v)). lia.
  - rewrite HN, app_length. cbn [length]. lia.
  - rewrite HT, zsum_app. destruct nosum; cbn; lia.
  - rewrite zmin_snoc by exact NE. rewrite Hmin. destruct (v <? zmin_list vs)%Z eqn:E; lia.
  - rewrite zmax_snoc by exact NE. rewrite Hmin, Hmax. pose proof (zmin_le_zmax vs).
    destruct (v <? zmin_list vs)%Z eqn:E; [lia|]. destruct (zmax_list vs <? v)%Z eqn:E2; lia.
Qed.

(** * The detailed histogram map is the required grouping *)
Lemma hplaced_keys c bounds w st : hplaced c bounds w st ->
  forall k, In k (map fst st) <-> In k (map fst (routed c w)).
Proof.
  intros [_ G] k. specialize (G k). destruct (vals_at k (routed c w)) eqn:E.
  - apply glookup_None in G. apply vals_at_nil in E. tauto.
  - destruct G as [hv [G _]]. split; intros _.
    + destruct (in_dec aset_dec k (map fst (routed c w))) as [I|I]; [exact I|].
      apply vals_at_nil in I. congruence.
    + destruct (in_dec aset_dec k (map fst st)) as [I|I]; [exact I|].
      apply glookup_None in I. congruence.
Qed.

Lemma hlimiter_is_dest c bounds w st a : hplaced c bounds w st ->
  limiter (s_limit c) a (map fst st) = dest (s_limit c) (map fst (filtered c w) ++ [a]) a.
Proof.
  intros G. destruct (N.eq_dec (s_limit c) 0) as [Z|NZ].
  - rewrite Z. apply limiter_dest0.
  - apply limiter_dest; [lia | apply G |].
    intro k. rewrite (hplaced_keys _ _ _ _ G), routed_keys. reflexivity.
Qed.

Lemma hplaced_nil c bounds : hplaced c bounds [] [].
Proof. split; [constructor | intro k; reflexivity]. Qed.

Lemma hplaced_step c bounds w st a v :
  hplaced c bounds w st -> hplaced c bounds (w ++ [(a, v)]) (h_record c bounds a v st).
Proof.
  intros G. unfold h_record. rewrite set_filter_restrict, (hlimiter_is_dest c bounds w st _ G).
  set (key := dest (s_limit c) (map fst (filtered c w) ++ [restrict (s_filter c) a]) (restrict (s_filter c) a)).
  split; [apply gupsert_nodup, G|].
  intro k. rewrite glookup_gupsert.
  pose proof (routed_snoc c w a v) as RS. cbn zeta in RS. fold key in RS. rewrite RS, vals_at_snoc.
  destruct G as [_ G].
  destruct (aset_eqb k key) eqn:E.
  - apply aset_eqb_eq in E. subst k. rewrite aset_eqb_refl. specialize (G key).
    destruct (vals_at key (routed c w)) as [|x l] eqn:V; cbn [app].
    + rewrite G. eexists. split; [reflexivity | apply hdescribes_first].
    + destruct G as [hv [G D]]. rewrite G. eexists. split; [reflexivity|].
      change (x :: l ++ [v]) with ((x :: l) ++ [v]). apply hdescribes_next; [discriminate | exact D].
  - rewrite aset_eqb_sym, E, app_nil_r. apply G.
Qed.

Lemma h_run_hplaced c bounds : forall h st cur, hplaced c bounds cur st ->
  Forall2 (fun pts w => hplaced c bounds w pts) (h_run c bounds h st)
          (windows_from (resets c) (ignores (s_kind c)) cur h).
Proof.
  induction h as [|e h IH]; intros st cur G; cbn [h_run windows_from]; [constructor|].
  destruct e as [a v|].
  - destruct (ignores (s_kind c) v); [now apply IH | apply IH; now apply hplaced_step].
  - constructor; [exact G|]. apply IH. destruct (resets c); [apply hplaced_nil | exact G].
Qed.

Lemma stream_hplaced c bounds h :
  Forall2 (fun pts w => hplaced c bounds w pts) (h_run c bounds h []) (windows c h).
Proof. apply h_run_hplaced, hplaced_nil. Qed.

(** * Per-bucket conservation *)
Definition len_ok (bounds : list Z) (st : hpoints) : Prop :=
  Forall (fun kp => length (h_counts (snd kp)) = S (length bounds)) st.

Lemma bucket_total_record bounds ns key v j : forall st, len_ok bounds st ->
  bucket_total j (gupsert key (fun old => hstep bounds ns old v) st)
    = bucket_total j st + (if Nat.eqb (bidx bounds v) j then 1 else 0)
  /\ len_ok bounds (gupsert key (fun old => hstep bounds ns old v) st).
Proof.
  unfold bucket_total, len_ok. induction st as [|[k' p] r IH]; intro L; cbn [gupsert].
  - cbn [map fold_right snd hstep h_counts]. split.
    + rewrite nth_incr, nth_repeat0, repeat_length, (hit_eq j _ _ (bidx_le bounds v)). lia.
    + constructor; [|constructor]. cbn [snd h_counts]. now rewrite incr_length, repeat_length.
  - inversion L as [|? ? Lp Lr]; subst. cbn [snd] in Lp.
    destruct (aset_eqb key k'); cbn [map fold_right snd].
    + cbn [hstep h_counts]. split.
      * rewrite nth_incr, Lp, (hit_eq j _ _ (bidx_le bounds v)). lia.
      * constructor; [|exact Lr]. cbn [snd h_counts]. now rewrite incr_length.
    + destruct (IH Lr) as [IH1 IH2]. split; [rewrite IH1; lia | constructor; assumption].
Qed.

Lemma h_run_buckets_conserved c bounds : forall h st cur,
  len_ok bounds st -> (forall j, bucket_total j st = count_in bounds j (map snd cur)) ->
  Forall2 (fun pts w => buckets_conserved bounds w pts) (h_run c bounds h st)
          (windows_from (resets c) (ignores (s_kind c)) cur h).
Proof.
  induction h as [|e h IH]; intros st cur L T; cbn [h_run windows_from]; [constructor|].
  destruct e as [a v|].
  - destruct (ignores (s_kind c) v); [now apply IH|]. unfold h_record.
    apply IH.
    + exact (proj2 (bucket_total_record bounds _ _ v 0%nat st L)).
    + intro j. destruct (bucket_total_record bounds (hist_nosum c)
                           (limiter (s_limit c) (set_filter (s_filter c) a) (map fst st)) v j st L) as [E _].
      rewrite E, map_app. cbn [map snd]. rewrite count_in_snoc, T. reflexivity.
  - constructor; [exact T|]. apply IH; destruct (resets c); try assumption; [constructor | intro j; reflexivity].
Qed.

Lemma stream_buckets_conserved c bounds h :
  Forall2 (fun pts w => buckets_conserved bounds w pts) (h_run c bounds h []) (windows c h).
Proof. apply h_run_buckets_conserved; [constructor | intro j; reflexivity]. Qed.

(** * The detailed aggregator is the count-and-sum aggregator seen in more detail *)
Definition hproj (kp : aset * hval) : aset * point := (fst kp, (h_total (snd kp), h_count (snd kp))).

Lemma hproj_keys st : map fst (map hproj st) = map fst st.
Proof. rewrite map_map. reflexivity. Qed.

Lemma hproj_gupsert bounds ns e key v st :
  map hproj (gupsert key (fun old => hstep bounds ns old v) st)
  = upsert key (fun old => step (AKHist ns e) old v) (map hproj st).
Proof.
  induction st as [|[k' p] r IH]; cbn [gupsert upsert map].
  - unfold hproj. cbn. reflexivity.
  - change (fst (hproj (k', p))) with k'. unfold hproj at 2. cbn [fst snd].
    destruct (aset_eqb key k'); cbn [map].
    + unfold hproj. cbn. reflexivity.
    + rewrite IH. reflexivity.
Qed.

Lemma h_run_projects c bounds ns : s_kind c = AKHist ns false -> forall h st rep,
  map (map hproj) (h_run c bounds h st) = s_run c h {| st_vals := map hproj st; st_rep := rep |}.
Proof.
  intros K.
  assert (Hp : is_presum_delta c = false) by (unfold is_presum_delta; now rewrite K).
  assert (Hn : hist_nosum c = ns) by (unfold hist_nosum; now rewrite K).
  induction h as [|e h IH]; intros st rep; cbn [h_run s_run map]; [reflexivity|].
  destruct e as [a v|].
  - unfold s_measure. destruct (ignores (s_kind c) v); [apply IH|].
    rewrite (IH _ rep). f_equal. unfold s_record, h_record. cbn [st_vals st_rep].
    rewrite hproj_keys, Hn, K. f_equal. apply hproj_gupsert.
  - unfold s_collect. rewrite Hp. cbn [map st_vals st_rep]. f_equal.
    rewrite (IH _ rep). destruct (resets c); reflexivity.
Qed.
