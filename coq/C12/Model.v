(** C12 model: executable mirror of
      sdk/metric/internal/aggregate/limit.go        [limiter]
      sdk/metric/internal/aggregate/aggregate.go    [set_filter, s_measure]  (Builder.filter)
      sdk/metric/internal/aggregate/{sum,lastvalue,histogram,exponential_histogram}.go
                                                    [step, s_measure, s_collect]  (measure / delta / cumulative)
      sdk/metric/pipeline.go                        [cached_aggregator, insert_views, insert, build, p_run]
                                                    (inserter.Instrument, cachedAggregator, pipeline.produce)
    Definitions only; the proofs are in Proofs.v. *)
From Verif Require Import Lib.Base C12.Defs.
Open Scope N_scope.

(** ** aggregate/limit.go: limiter.Attributes
    [keys] are the attribute sets the aggregator's map currently holds. *)
Definition limiter (L : N) (a : aset) (keys : list aset) : aset :=
  if L =? 0 then a
  else if amem a keys then a
  else if (L - 1 <=? N.of_nat (length keys)) then overflow_set
  else a.

(** ** attribute.Set.Filter with an allow-list (NewAllowKeysFilter): the kept
    key-values stay in order, so the result is canonical again. *)
Definition set_filter (f : option afilter) (a : aset) : aset :=
  match f with
  | None => a
  | Some f => filter (keeps f) a
  end.

(** ** The per-attribute-set update of each aggregator family *)
Definition step (k : akind) (old : option point) (v : Z) : point :=
  match k with
  | AKSum _ | AKPreSum _ =>
      match old with None => (v, 0) | Some (s, _) => ((s + v)%Z, 0) end
  | AKLast | AKPreLast => (v, 0)
  | AKHist nosum _ =>
      match old with
      | None => ((if nosum then 0 else v)%Z, 1)
      | Some (s, c) => ((if nosum then s else s + v)%Z, c + 1)
      end
  end.

(** The aggregator's map as an association list in insertion order. *)
Fixpoint upsert (k : aset) (f : option point -> point) (st : points) : points :=
  match st with
  | [] => [(k, f None)]
  | (k', p) :: r => if aset_eqb k k' then (k', f (Some p)) :: r else (k', p) :: upsert k f r
  end.

(** Aggregator state: the value map, and (precomputed sums with delta
    temporality) the values reported at the previous collection. *)
Record sstate := { st_vals : points; st_rep : list (aset * Z) }.
Definition s_empty : sstate := {| st_vals := []; st_rep := [] |}.

Fixpoint zlookup (k : aset) (l : list (aset * Z)) : Z :=
  match l with
  | [] => 0%Z
  | (k', z) :: r => if aset_eqb k k' then z else zlookup k r
  end.

(** Builder.filter followed by <aggregator>.measure (for a measurement that is not discarded) *)
Definition s_record (c : scfg) (a : aset) (v : Z) (st : sstate) : sstate :=
  let fa := set_filter (s_filter c) a in
  let key := limiter (s_limit c) fa (map fst (st_vals st)) in
  {| st_vals := upsert key (fun old => step (s_kind c) old v) (st_vals st); st_rep := st_rep st |}.

(** expoHistogram.measure returns early on NaN / infinities, before the limiter is consulted:
    the attribute set is not even admitted. *)
Definition s_measure (c : scfg) (a : aset) (v : Z) (st : sstate) : sstate :=
  if ignores (s_kind c) v then st else s_record c a v st.

(** <aggregator>.delta / .cumulative: the reported points and the next state. *)
Definition s_collect (c : scfg) (st : sstate) : points * sstate :=
  let out :=
    if is_presum_delta c
    then map (fun kp => (fst kp, ((fst (snd kp) - zlookup (fst kp) (st_rep st))%Z, snd (snd kp)))) (st_vals st)
    else st_vals st in
  let rep := if is_presum_delta c then map (fun kp => (fst kp, fst (snd kp))) (st_vals st) else st_rep st in
  (out, {| st_vals := if resets c then [] else st_vals st; st_rep := rep |}).

(** One aggregator over a history: the points of every collection. *)
Fixpoint s_run (c : scfg) (h : list aev) (st : sstate) : list points :=
  match h with
  | [] => []
  | AMeasure a v :: r => s_run c r (s_measure c a v st)
  | ACollect :: r => let '(out, st') := s_collect c st in out :: s_run c r st'
  end.

(** ** pipeline.go: view resolution *)

(** One aggregator inserted into the pipeline (instrumentSync + its Builder configuration). *)
Record aggdecl := { ad_name : bytes; ad_kind : akind; ad_ikind : ikind; ad_filter : option afilter }.

(** inserter.aggregators cache (stream identity -> aggregator index, or None for a cached
    drop) and the pipeline's aggregations in insertion order. *)
Record pstate := { ps_cache : list (sid * option nat); ps_decls : list aggdecl }.
Definition p_empty : pstate := {| ps_cache := []; ps_decls := [] |}.

Fixpoint cache_lookup (id : sid) (c : list (sid * option nat)) : option (option nat) :=
  match c with
  | [] => None
  | (id', r) :: t => if sid_eqb id id' then Some r else cache_lookup id t
  end.

(** inserter.cachedAggregator: (state, aggregator index if any, error?) *)
Definition cached_aggregator (st : pstate) (i : inst) (r : sreq) : pstate * option nat * bool :=
  if negb (req_compatible i r) then (st, None, true)
  else
    let id := ident i r in
    match cache_lookup id (ps_cache st) with
    | Some o => (st, o, false)
    | None =>
        match req_akind i r with
        | None => ({| ps_cache := ps_cache st ++ [(id, None)]; ps_decls := ps_decls st |}, None, false)
        | Some ak =>
            let j := length (ps_decls st) in
            ({| ps_cache := ps_cache st ++ [(id, Some j)];
                ps_decls := ps_decls st ++ [{| ad_name := qualified i (r_name r); ad_kind := ak; ad_ikind := i_kind i;
                                               ad_filter := r_filter r |}] |},
             Some j, false)
        end
    end.

Fixpoint nmem (j : nat) (l : list nat) : bool :=
  match l with [] => false | x :: r => Nat.eqb j x || nmem j r end.

(** The loop over the pipeline's views in inserter.Instrument: [seen] doubles as
    the list of measures collected so far. *)
Fixpoint insert_views (vs : list view) (i : inst) (st : pstate) (seen : list nat) (matched err : bool)
  : pstate * list nat * bool * bool :=
  match vs with
  | [] => (st, seen, matched, err)
  | v :: r =>
      if matches v i then
        let '(st', o, e) := cached_aggregator st i (mask v i) in
        let seen' := match o with
                     | Some j => if nmem j seen then seen else seen ++ [j]
                     | None => seen
                     end in
        insert_views r i st' seen' true (err || e)
      else insert_views r i st seen matched err
  end.

(** inserter.Instrument: the aggregators (indices) an instrument's measurements go to. *)
Definition insert_raw (vs : list view) (i : inst) (st : pstate) : pstate * list nat * bool :=
  let '(st', seen, matched, err) := insert_views vs i st [] false false in
  if matched then (st', seen, err)
  else
    let '(st'', o, e) := cached_aggregator st' i (default_req i) in
    (st'', match o with Some j => [j] | None => [] end, e).

(** meter.int64ObservableInstrument gives up on an error: the observable gets no measures. *)
Definition insert (vs : list view) (i : inst) (st : pstate) : pstate * list nat :=
  let '(st', feeds, err) := insert_raw vs i st in
  (st', if observable (i_kind i) && err then [] else feeds).

Fixpoint build_from (vs : list view) (is : list inst) (st : pstate) : pstate * list (list nat) :=
  match is with
  | [] => (st, [])
  | i :: r =>
      let '(st', f) := insert vs i st in
      let '(st'', fs) := build_from vs r st' in
      (st'', f :: fs)
  end.

Definition build (vs : list view) (is : list inst) : list aggdecl * list (list nat) :=
  let '(st, fs) := build_from vs is p_empty in (ps_decls st, fs).

(** ** Running the pipeline *)
Definition cfg_of (L tmask : N) (d : aggdecl) : scfg :=
  {| s_kind := ad_kind d; s_delta := delta_of tmask (ad_ikind d); s_limit := L; s_filter := ad_filter d |}.

Fixpoint upd {A} (j : nat) (f : A -> A) (l : list A) : list A :=
  match l, j with
  | [], _ => []
  | x :: r, O => f x :: r
  | x :: r, S j' => x :: upd j' f r
  end.

Definition cfg_dflt : scfg := {| s_kind := AKLast; s_delta := false; s_limit := 0; s_filter := None |}.

(** instrument.aggregate: every measure function of the instrument is called once. *)
Definition dispatch (cfgs : list scfg) (feeds : list nat) (a : aset) (v : Z) (sts : list sstate) : list sstate :=
  fold_left (fun sts j => upd j (s_measure (nth j cfgs cfg_dflt) a v) sts) feeds sts.

Fixpoint collect_all (cfgs : list scfg) (sts : list sstate) : list points * list sstate :=
  match cfgs, sts with
  | c :: cr, s :: sr =>
      let '(out, s') := s_collect c s in
      let '(outs, sr') := collect_all cr sr in
      (out :: outs, s' :: sr')
  | _, _ => ([], [])
  end.

(** pipeline.produce: one metric per aggregator that has at least one point. *)
Fixpoint metrics_of (ds : list aggdecl) (cfgs : list scfg) (outs : list points) : list metric :=
  match ds, cfgs, outs with
  | d :: dr, c :: cr, o :: or =>
      let rest := metrics_of dr cr or in
      match o with
      | [] => rest
      | _ => (ad_name d, meta_of (ad_kind d) (s_delta c), o) :: rest
      end
  | _, _, _ => []
  end.

(** The points every aggregator reports at each collection ... *)
Fixpoint p_run_raw (cfgs : list scfg) (feeds : list (list nat)) (h : list event) (sts : list sstate)
  : list (list points) :=
  match h with
  | [] => []
  | EMeasure i a v :: r => p_run_raw cfgs feeds r (dispatch cfgs (nth i feeds []) a v sts)
  | ECollect :: r =>
      let '(outs, sts') := collect_all cfgs sts in
      outs :: p_run_raw cfgs feeds r sts'
  end.

(** ... and the metrics formed from them. *)
Definition p_run (ds : list aggdecl) (cfgs : list scfg) (feeds : list (list nat)) (h : list event) (sts : list sstate)
  : list (list metric) :=
  map (metrics_of ds cfgs) (p_run_raw cfgs feeds h sts).

(** The whole scenario: limit, temporality mask, views, instruments, history. *)
Definition model (L tmask : N) (vs : list view) (is : list inst) (h : list event) : list (list metric) :=
  let '(ds, feeds) := build vs is in
  let cfgs := map (cfg_of L tmask) ds in
  p_run ds cfgs feeds h (map (fun _ => s_empty) ds).

(** ** histogram.go in full: buckets.bin / buckets.sum / histValues.measure, histogram.delta / cumulative *)
Fixpoint incr (i : nat) (l : list N) : list N :=
  match l, i with
  | [], _ => []
  | x :: r, O => (x + 1) :: r
  | x :: r, S i' => x :: incr i' r
  end.

(** A new [buckets] value has min = max = the first value; [bin] then moves min, else max. *)
Definition hstep (bounds : list Z) (nosum : bool) (old : option hval) (v : Z) : hval :=
  let idx := bidx bounds v in
  match old with
  | None =>
      {| h_counts := incr idx (repeat 0 (S (length bounds))); h_count := 1;
         h_total := if nosum then 0%Z else v; h_min := v; h_max := v |}
  | Some b =>
      {| h_counts := incr idx (h_counts b); h_count := h_count b + 1;
         h_total := if nosum then h_total b else (h_total b + v)%Z;
         h_min := if (v <? h_min b)%Z then v else h_min b;
         h_max := if (v <? h_min b)%Z then h_max b else if (h_max b <? v)%Z then v else h_max b |}
  end.

Fixpoint gupsert {A} (k : aset) (f : option A -> A) (st : list (aset * A)) : list (aset * A) :=
  match st with
  | [] => [(k, f None)]
  | (k', p) :: r => if aset_eqb k k' then (k', f (Some p)) :: r else (k', p) :: gupsert k f r
  end.

Definition h_record (c : scfg) (bounds : list Z) (a : aset) (v : Z) (st : hpoints) : hpoints :=
  let fa := set_filter (s_filter c) a in
  let key := limiter (s_limit c) fa (map fst st) in
  gupsert key (fun old => hstep bounds (hist_nosum c) old v) st.

Fixpoint h_run (c : scfg) (bounds : list Z) (h : list aev) (st : hpoints) : list hpoints :=
  match h with
  | [] => []
  | AMeasure a v :: r => h_run c bounds r (if ignores (s_kind c) v then st else h_record c bounds a v st)
  | ACollect :: r => st :: h_run c bounds r (if resets c then [] else st)
  end.
