(** C12 proofs, part 2: the model's cache-based view resolution computes exactly the
    declarative stream table [Spec.spec_streams] (group the requests by stream identity,
    the first request defines the stream). *)
From Verif Require Import Lib.Base C12.Defs C12.Model C12.Spec C12.Proofs.
From Coq Require Import ZifyBool ZifyN ZifyNat.
Open Scope N_scope.

(** * The first entry of every identity, in order of first appearance *)
Definition firsts (es : list sentry) : list sentry :=
  fold_left (fun acc e => if sid_mem (e_id e) (map e_id acc) then acc else acc ++ [e]) es [].

Definition is_live (e : sentry) : bool := match e_kind e with Some _ => true | None => false end.
Definition nlive (l : list sentry) : nat := length (filter is_live l).

(** The aggregator cache and the aggregator list that a table of first entries stands for. *)
Fixpoint cache_of (l : list sentry) (n : nat) : list (sid * option nat) :=
  match l with
  | [] => []
  | e :: r => if is_live e then (e_id e, Some n) :: cache_of r (S n) else (e_id e, None) :: cache_of r n
  end.

Definition decl_of (e : sentry) : list aggdecl :=
  match e_kind e with
  | Some ak => [{| ad_name := e_name e; ad_kind := ak; ad_ikind := e_ikind e; ad_filter := e_filter e |}]
  | None => []
  end.
Definition decls_of (l : list sentry) : list aggdecl := flat_map decl_of l.

Lemma firsts_snoc es x :
  firsts (es ++ [x]) = if sid_mem (e_id x) (map e_id (firsts es)) then firsts es else firsts es ++ [x].
Proof. unfold firsts. rewrite fold_left_app. reflexivity. Qed.

Lemma sid_mem_In x l : sid_mem x l = true <-> In x l.
Proof.
  unfold sid_mem. rewrite existsb_exists. split.
  - intros [y [Hy E]]. apply sid_eqb_eq in E. now subst.
  - intro H. exists x. split; [exact H | apply sid_eqb_refl].
Qed.

Lemma sid_mem_not_In x l : sid_mem x l = false <-> ~ In x l.
Proof.
  split; intro H.
  - intro I. apply sid_mem_In in I. congruence.
  - destruct (sid_mem x l) eqn:E; [|reflexivity]. apply sid_mem_In in E. contradiction.
Qed.

Lemma sid_eqb_neq' a b : sid_eqb a b = false -> a <> b.
Proof. intros H E. subst. rewrite sid_eqb_refl in H. discriminate. Qed.

Lemma firsts_ids es id : In id (map e_id (firsts es)) <-> In id (map e_id es).
Proof.
  revert id. induction es as [|x es IH] using rev_ind; intro id; [cbn; tauto|].
  rewrite firsts_snoc. destruct (sid_mem (e_id x) (map e_id (firsts es))) eqn:E.
  - apply sid_mem_In in E. rewrite map_app, in_app_iff, IH. cbn. split; [auto|].
    intros [H|[H|[]]]; [exact H | subst; now apply IH].
  - rewrite !map_app, !in_app_iff, IH. tauto.
Qed.

Lemma firsts_nodup es : NoDup (map e_id (firsts es)).
Proof.
  induction es as [|x es IH] using rev_ind; [constructor|].
  rewrite firsts_snoc. destruct (sid_mem (e_id x) (map e_id (firsts es))) eqn:E; [exact IH|].
  rewrite map_app. apply nodup_snoc; [exact IH | now apply sid_mem_not_In].
Qed.

Lemma nlive_app a b : nlive (a ++ b) = (nlive a + nlive b)%nat.
Proof. unfold nlive. now rewrite filter_app, app_length. Qed.

Lemma decls_of_length l : length (decls_of l) = nlive l.
Proof.
  unfold decls_of, nlive, decl_of, is_live. induction l as [|e l IH]; cbn; [reflexivity|].
  destruct (e_kind e); cbn; now rewrite IH.
Qed.

Lemma nlive_cons e a : nlive (e :: a) = ((if is_live e then 1 else 0) + nlive a)%nat.
Proof. unfold nlive. cbn [filter]. now destruct (is_live e). Qed.

Lemma cache_of_app a b n : cache_of (a ++ b) n = cache_of a n ++ cache_of b (n + nlive a).
Proof.
  revert n. induction a as [|e a IH]; intro n; cbn [app cache_of].
  - unfold nlive. cbn. now rewrite Nat.add_0_r.
  - rewrite nlive_cons. destruct (is_live e); cbn [app]; rewrite IH.
    + replace (S n + nlive a)%nat with (n + (1 + nlive a))%nat by lia. reflexivity.
    + reflexivity.
Qed.

Lemma cache_lookup_app2 id c d :
  cache_lookup id (c ++ d) = match cache_lookup id c with Some r => Some r | None => cache_lookup id d end.
Proof.
  induction c as [|[id2 r] c IH]; cbn [app cache_lookup]; [reflexivity|].
  destruct (sid_eqb id id2); [reflexivity | exact IH].
Qed.

Lemma cache_of_lookup_none l n id :
  cache_lookup id (cache_of l n) = None <-> ~ In id (map e_id l).
Proof.
  revert n. induction l as [|e l IH]; intro n; cbn [cache_of map]; [cbn; tauto|].
  destruct (is_live e); cbn [cache_lookup]; destruct (sid_eqb id (e_id e)) eqn:E.
  - apply sid_eqb_eq in E. split; [discriminate | intro H; exfalso; apply H; now left].
  - apply sid_eqb_neq' in E. rewrite IH. cbn. split; [intros H [H1|H1]; [congruence|auto] | tauto].
  - apply sid_eqb_eq in E. split; [discriminate | intro H; exfalso; apply H; now left].
  - apply sid_eqb_neq' in E. rewrite IH. cbn. split; [intros H [H1|H1]; [congruence|auto] | tauto].
Qed.

(** * The cache is the table of first entries *)
Definition tab_rel (st : pstate) (es : list sentry) : Prop :=
  ps_cache st = cache_of (firsts es) 0 /\ ps_decls st = decls_of (firsts es).

Definition mk_entry (i : inst) (idx : nat) (b : bool) (r : sreq) : sentry :=
  {| e_id := ident i r; e_name := qualified i (r_name r); e_kind := req_akind i r; e_ikind := i_kind i;
     e_filter := r_filter r; e_feeder := if b then None else Some idx |}.

(** The aggregator (if any) the table assigns to an identity. *)
Definition slot (es : list sentry) (id : sid) : option (option nat) :=
  cache_lookup id (cache_of (firsts es) 0).

Lemma tab_rel_empty : tab_rel p_empty [].
Proof. split; reflexivity. Qed.

Lemma cached_aggregator_tab st i r idx b es st' o e :
  tab_rel st es -> req_compatible i r = true -> cached_aggregator st i r = (st', o, e) ->
  tab_rel st' (es ++ [mk_entry i idx b r]) /\ e = false /\ slot (es ++ [mk_entry i idx b r]) (ident i r) = Some o.
Proof.
  intros [TC TD] C H. unfold cached_aggregator in H. rewrite C in H. cbn [negb] in H.
  set (x := mk_entry i idx b r). unfold slot, tab_rel. rewrite firsts_snoc. change (e_id x) with (ident i r).
  destruct (cache_lookup (ident i r) (ps_cache st)) as [o0|] eqn:CL.
  - inversion H; subst st' o e. clear H.
    assert (M : sid_mem (ident i r) (map e_id (firsts es)) = true).
    { apply sid_mem_In. destruct (in_dec (fun a b => match sid_eqb a b as t return sid_eqb a b = t -> {a = b} + {a <> b} with
                                                     | true => fun E => left (proj1 (sid_eqb_eq a b) E)
                                                     | false => fun E => right (sid_eqb_neq' a b E) end eq_refl)
                                   (ident i r) (map e_id (firsts es))) as [I|I]; [exact I|].
      apply (cache_of_lookup_none _ 0) in I. rewrite <- TC in I. congruence. }
    rewrite M. split; [split; assumption|]. split; [reflexivity|]. now rewrite <- TC.
  - assert (M : sid_mem (ident i r) (map e_id (firsts es)) = false).
    { apply sid_mem_not_In. apply (cache_of_lookup_none _ 0). now rewrite <- TC. }
    rewrite M.
    destruct (req_akind i r) as [ak|] eqn:AK; inversion H; subst st' o e; clear H.
    + assert (LX : is_live x = true) by (unfold is_live, x, mk_entry; cbn [e_kind]; now rewrite AK).
      assert (CX : cache_of (firsts es ++ [x]) 0 = cache_of (firsts es) 0 ++ [(ident i r, Some (length (ps_decls st)))]).
      { rewrite cache_of_app. cbn [cache_of]. rewrite LX. cbn [Nat.add]. rewrite TD, decls_of_length. reflexivity. }
      split; [split|split]; cbn [ps_cache ps_decls].
      * now rewrite CX, TC.
      * unfold decls_of. rewrite flat_map_app. cbn [flat_map]. rewrite app_nil_r. fold (decls_of (firsts es)).
        rewrite TD. f_equal. unfold decl_of, x, mk_entry. cbn [e_kind e_name e_ikind e_filter]. now rewrite AK.
      * reflexivity.
      * rewrite CX, cache_lookup_app, <- TC, CL, sid_eqb_refl. reflexivity.
    + assert (LX : is_live x = false) by (unfold is_live, x, mk_entry; cbn [e_kind]; now rewrite AK).
      assert (CX : cache_of (firsts es ++ [x]) 0 = cache_of (firsts es) 0 ++ [(ident i r, None)]).
      { rewrite cache_of_app. cbn [cache_of]. now rewrite LX. }
      split; [split|split]; cbn [ps_cache ps_decls].
      * now rewrite CX, TC.
      * unfold decls_of. rewrite flat_map_app. cbn [flat_map]. rewrite app_nil_r. fold (decls_of (firsts es)).
        rewrite TD. unfold decl_of, x, mk_entry. cbn [e_kind]. rewrite AK. now rewrite app_nil_r.
      * reflexivity.
      * rewrite CX, cache_lookup_app, <- TC, CL, sid_eqb_refl. reflexivity.
Qed.

Lemma firsts_app_prefix es ys : exists t, firsts (es ++ ys) = firsts es ++ t.
Proof.
  induction ys as [|y ys IH] using rev_ind; [exists []; now rewrite !app_nil_r|].
  destruct IH as [t Ht]. rewrite app_assoc, firsts_snoc.
  destruct (sid_mem (e_id y) (map e_id (firsts (es ++ ys)))); [exists t; exact Ht|].
  exists (t ++ [y]). now rewrite Ht, app_assoc.
Qed.

Lemma slot_stable es ys id o : slot es id = Some o -> slot (es ++ ys) id = Some o.
Proof.
  unfold slot. intro H. destruct (firsts_app_prefix es ys) as [t Ht].
  now rewrite Ht, cache_of_app, cache_lookup_app2, H.
Qed.

(** * One instrument: the loop over the views *)
Section OneInstrument.
  Variables (i : inst) (idx : nat) (b : bool).

  Definition reqs_of (vs : list view) : list sreq := map (fun v => mask v i) (filter (fun v => matches v i) vs).
  Definition ents_of (rs : list sreq) : list sentry := map (mk_entry i idx b) (filter (req_compatible i) rs).
  Definition any_incompatible (rs : list sreq) : bool := existsb (fun r => negb (req_compatible i r)) rs.

  Lemma insert_views_tab vs : forall st seen m e es st' seen' m' e',
    insert_views vs i st seen m e = (st', seen', m', e') -> tab_rel st es ->
    let xs := ents_of (reqs_of vs) in
    tab_rel st' (es ++ xs) /\
    e' = e || any_incompatible (reqs_of vs) /\
    m' = m || negb (match reqs_of vs with [] => true | _ => false end) /\
    forall j, In j seen' <-> In j seen \/ exists x, In x xs /\ slot (es ++ xs) (e_id x) = Some (Some j).
  Proof.
    induction vs as [|v vs IH]; intros st seen m e es st' seen' m' e' H T; cbn [insert_views] in H.
    - inversion H; subst. unfold reqs_of, ents_of, any_incompatible. cbn. rewrite app_nil_r, !orb_false_r.
      split; [exact T|]. split; [reflexivity|]. split; [reflexivity|].
      intro j. split; [auto | intros [?|[x [[] _]]]; assumption].
    - unfold reqs_of in *. cbn [filter]. destruct (matches v i) eqn:M; [|exact (IH _ _ _ _ _ _ _ _ _ H T)].
      cbn [map]. destruct (cached_aggregator st i (mask v i)) as [[st1 o] e1] eqn:CA.
      unfold ents_of, any_incompatible in *. cbn [filter existsb].
      destruct (req_compatible i (mask v i)) eqn:C; cbn [negb orb map].
      + destruct (cached_aggregator_tab st i (mask v i) idx b es st1 o e1 T C CA) as [T1 [-> S1]].
        set (x := mk_entry i idx b (mask v i)) in *.
        specialize (IH _ _ _ _ (es ++ [x]) _ _ _ _ H T1). cbn zeta in IH.
        set (xs := map (mk_entry i idx b) (filter (req_compatible i) (map (fun v0 => mask v0 i) (filter (fun v0 => matches v0 i) vs)))) in *.
        destruct IH as [T' [E' [M' S']]].
        assert (AE : (es ++ [x]) ++ xs = es ++ x :: xs) by now rewrite <- app_assoc.
        rewrite AE in *. split; [exact T'|]. split; [now rewrite E', orb_false_r|]. split; [now rewrite M', !orb_true_r|].
        intro j. rewrite S'.
        assert (SO : slot (es ++ x :: xs) (ident i (mask v i)) = Some o).
        { rewrite <- AE. now apply slot_stable. }
        assert (S0 : In j (match o with Some j0 => if nmem j0 seen then seen else seen ++ [j0] | None => seen end)
                     <-> In j seen \/ o = Some j).
        { destruct o as [j0|]; [|split; [auto | intros [?|?]; [assumption | discriminate]]].
          destruct (nmem j0 seen) eqn:N.
          - apply nmem_In in N. split; [auto | intros [?|Q]; [assumption | inversion Q; now subst]].
          - rewrite in_app_iff. cbn. split; [intros [?|[->|[]]]; auto | intros [?|Q]; [auto | inversion Q; auto]]. }
        rewrite S0. split.
        * intros [[Hs|Ho]|[x' [Hx' Sx']]]; [now left | right; exists x; split; [now left | subst o; exact SO] | right; exists x'; split; [now right | exact Sx']].
        * intros [Hs|[x' [[<-|Hx'] Sx']]]; [left; now left | left; right | right; exists x'; split; assumption].
          change (e_id x) with (ident i (mask v i)) in Sx'. rewrite SO in Sx'. now inversion Sx'.
      + destruct (cached_aggregator_spec _ _ _ _ _ _ CA) as [_ [_ [NC _]]]. destruct (NC C) as [-> [-> ->]].
        specialize (IH _ _ _ _ es _ _ _ _ H T). cbn zeta in IH. destruct IH as [T' [E' [M' S']]].
        split; [exact T'|]. split; [now rewrite E', !orb_true_r|]. split; [now rewrite M', !orb_true_r|]. exact S'.
  Qed.
End OneInstrument.

Lemma requests_eq vs i : requests vs i = match reqs_of i vs with [] => [default_req i] | _ => reqs_of i vs end.
Proof. unfold requests, reqs_of. now destruct (filter (fun v => matches v i) vs). Qed.

Lemma inst_entries_eq vs idx i :
  inst_entries vs idx i =
  ents_of i idx (observable (i_kind i) && any_incompatible i (requests vs i)) (requests vs i).
Proof. reflexivity. Qed.

Lemma ents_feeder i idx b rs x : In x (ents_of i idx b rs) -> e_feeder x = if b then None else Some idx.
Proof. unfold ents_of. intro H. apply in_map_iff in H as [r [<- _]]. reflexivity. Qed.

(** * One instrument inserted: the table grows by its entries, and it feeds exactly the
    aggregators the table assigns to the identities it (usably) asked for *)
Lemma insert_tab vs i idx st es st' feeds :
  insert vs i st = (st', feeds) -> tab_rel st es ->
  let xs := inst_entries vs idx i in
  tab_rel st' (es ++ xs) /\
  forall j, In j feeds <-> exists x, In x xs /\ e_feeder x = Some idx /\ slot (es ++ xs) (e_id x) = Some (Some j).
Proof.
  intros H T. cbn zeta. rewrite inst_entries_eq.
  set (b := observable (i_kind i) && any_incompatible i (requests vs i)).
  unfold insert, insert_raw in H.
  destruct (insert_views vs i st [] false false) as [[[st1 seen] m] e] eqn:E.
  destruct (insert_views_tab i idx b vs _ _ _ _ es _ _ _ _ E T) as [T1 [E1 [M1 S1]]]. cbn [orb] in E1, M1.
  pose proof (requests_eq vs i) as RQ.
  destruct (reqs_of i vs) as [|r0 rs0] eqn:RS.
  - (* no view matches: the default stream *)
    cbn [negb] in M1. subst m. cbn iota in RQ. rewrite RQ. unfold ents_of in T1. cbn [filter map] in T1. rewrite app_nil_r in T1.
    destruct (cached_aggregator st1 i (default_req i)) as [[st2 o] e2] eqn:CA.
    unfold ents_of. cbn [filter].
    destruct (req_compatible i (default_req i)) eqn:C; cbn [map].
    + destruct (cached_aggregator_tab st1 i (default_req i) idx b es st2 o e2 T1 C CA) as [T2 [-> S2]].
      rewrite andb_false_r in H. inversion H; subst st' feeds. split; [exact T2|].
      assert (B : b = false).
      { unfold b. rewrite RQ. unfold any_incompatible. cbn [existsb]. rewrite C. cbn. apply andb_false_r. }
      intro j. split.
      * intro Hj. exists (mk_entry i idx b (default_req i)). split; [now left|]. split; [cbn; now rewrite B|].
        change (e_id (mk_entry i idx b (default_req i))) with (ident i (default_req i)). rewrite S2.
        destruct o as [j0|]; [destruct Hj as [->|[]]; reflexivity | destruct Hj].
      * intros [x [[<-|[]] [_ Sx]]]. change (e_id (mk_entry i idx b (default_req i))) with (ident i (default_req i)) in Sx.
        rewrite S2 in Sx. inversion Sx; subst o. now left.
    + destruct (cached_aggregator_spec _ _ _ _ _ _ CA) as [_ [_ [NC _]]]. destruct (NC C) as [-> [-> ->]].
      assert (feeds = []) by (destruct (observable (i_kind i) && true); now inversion H). subst feeds.
      assert (st' = st1) by (destruct (observable (i_kind i) && true); now inversion H). subst st'.
      rewrite app_nil_r. split; [exact T1|]. intro j. split; [intros [] | intros [x [[] _]]].
  - (* at least one view matches *)
    cbn [negb] in M1. subst m. cbn iota in RQ. rewrite RQ.
    assert (EB : observable (i_kind i) && e = b) by (unfold b; now rewrite RQ, E1).
    rewrite EB in H. inversion H; subst st' feeds. split; [exact T1|].
    intro j. destruct b eqn:B.
    + split; [intros [] | intros [x [Hx [F _]]]]. rewrite (ents_feeder _ _ _ _ _ Hx) in F. discriminate.
    + rewrite S1. split.
      * intros [[]|[x [Hx Sx]]]. exists x. split; [exact Hx|]. split; [now rewrite (ents_feeder _ _ _ _ _ Hx) | exact Sx].
      * intros [x [Hx [_ Sx]]]. right. now exists x.
Qed.

(** * All instruments *)
Lemma inst_entries_feeder vs idx i x : In x (inst_entries vs idx i) -> e_feeder x = None \/ e_feeder x = Some idx.
Proof.
  rewrite inst_entries_eq. intro H. rewrite (ents_feeder _ _ _ _ _ H).
  destruct (observable (i_kind i) && any_incompatible i (requests vs i)); auto.
Qed.

Lemma entries_feeder_range vs : forall is n x m,
  In x (entries vs n is) -> e_feeder x = Some m -> (n <= m)%nat.
Proof.
  induction is as [|i is IH]; intros n x m H F; cbn [entries] in H; [destruct H|].
  apply in_app_or in H as [H|H].
  - destruct (inst_entries_feeder _ _ _ _ H) as [E|E]; rewrite E in F; [discriminate | inversion F; lia].
  - specialize (IH _ _ _ H F). lia.
Qed.

Lemma slot_defined es x : In x es -> exists o, slot es (e_id x) = Some o.
Proof.
  intro H. unfold slot. destruct (cache_lookup (e_id x) (cache_of (firsts es) 0)) as [o|] eqn:E; [now exists o|].
  apply cache_of_lookup_none in E. exfalso. apply E. apply firsts_ids. now apply in_map.
Qed.

Lemma build_from_tab vs : forall is st es idx st' fs,
  build_from vs is st = (st', fs) -> tab_rel st es ->
  let xs := entries vs idx is in
  tab_rel st' (es ++ xs) /\ length fs = length is /\
  forall k j, (k < length is)%nat ->
    (In j (nth k fs []) <->
     exists x, In x xs /\ e_feeder x = Some (idx + k)%nat /\ slot (es ++ xs) (e_id x) = Some (Some j)).
Proof.
  induction is as [|i is IH]; intros st es idx st' fs H T; cbn [build_from entries] in *.
  - inversion H; subst. rewrite app_nil_r. split; [exact T|]. split; [reflexivity|]. intros k j Hk. cbn in Hk. lia.
  - destruct (insert vs i st) as [st1 f] eqn:EI.
    destruct (build_from vs is st1) as [st2 fs'] eqn:EB. inversion H; subst st' fs. clear H.
    destruct (insert_tab vs i idx st es st1 f EI T) as [T1 F1].
    destruct (IH st1 (es ++ inst_entries vs idx i) (S idx) st2 fs' EB T1) as [T2 [L2 F2]].
    set (xi := inst_entries vs idx i) in *. set (xr := entries vs (S idx) is) in *.
    assert (AE : (es ++ xi) ++ xr = es ++ xi ++ xr) by now rewrite app_assoc.
    rewrite AE in *. split; [exact T2|]. split; [cbn; now rewrite L2|].
    intros [|k] j Hk; cbn [nth].
    + rewrite F1, Nat.add_0_r. split.
      * intros [x [Hx [Fx Sx]]]. exists x. split; [apply in_or_app; now left|]. split; [exact Fx|].
        rewrite <- AE. now apply slot_stable.
      * intros [x [Hx [Fx Sx]]]. apply in_app_or in Hx as [Hx|Hx].
        -- exists x. split; [exact Hx|]. split; [exact Fx|].
           destruct (slot_defined (es ++ xi) x) as [o So]; [apply in_or_app; now right|].
           pose proof (slot_stable _ xr _ _ So) as St. rewrite AE, Sx in St. now rewrite So, <- St.
        -- pose proof (entries_feeder_range _ _ _ _ _ Hx Fx). lia.
    + cbn [length] in Hk. rewrite (F2 k j) by lia. replace (S idx + k)%nat with (idx + S k)%nat by lia. split.
      * intros [x [Hx [Fx Sx]]]. exists x. split; [apply in_or_app; now right|]. split; assumption.
      * intros [x [Hx [Fx Sx]]]. apply in_app_or in Hx as [Hx|Hx].
        -- destruct (inst_entries_feeder _ _ _ _ Hx) as [E|E]; rewrite E in Fx; [discriminate | inversion Fx; lia].
        -- exists x. split; [exact Hx|]. split; assumption.
Qed.

(** The model's pipeline is the table of first entries of all requests. *)
Lemma build_tab vs is :
  let es := entries vs 0 is in
  fst (build vs is) = decls_of (firsts es) /\ length (snd (build vs is)) = length is /\
  forall k j, (k < length is)%nat ->
    (In j (nth k (snd (build vs is)) []) <->
     exists x, In x es /\ e_feeder x = Some k /\ slot es (e_id x) = Some (Some j)).
Proof.
  cbn zeta. unfold build. destruct (build_from vs is p_empty) as [st fs] eqn:E. cbn [fst snd].
  destruct (build_from_tab vs is p_empty [] 0 st fs E tab_rel_empty) as [[_ TD] [L F]]. cbn [app] in *.
  split; [exact TD|]. split; [exact L|]. exact F.
Qed.

(** * The declarative table [Spec.spec_streams] is the table of first entries *)
Definition same_id (e : sentry) (es : list sentry) : list sentry := filter (fun x => sid_eqb (e_id x) (e_id e)) es.

Lemma sid_dedup_firsts es : sid_dedup (map e_id es) = map e_id (firsts es).
Proof.
  induction es as [|x es IH] using rev_ind; [reflexivity|].
  rewrite map_app, firsts_snoc. unfold sid_dedup in *. rewrite fold_left_app. cbn [fold_left map]. rewrite IH.
  destruct (sid_mem (e_id x) (map e_id (firsts es))); [reflexivity | now rewrite map_app].
Qed.

Lemma filter_id_nil es id : ~ In id (map e_id es) -> filter (fun x => sid_eqb (e_id x) id) es = [].
Proof.
  induction es as [|x es IH]; cbn [filter map]; intro N; [reflexivity|].
  destruct (sid_eqb (e_id x) id) eqn:E; [apply sid_eqb_eq in E; exfalso; apply N; now left|].
  apply IH. intro; apply N; now right.
Qed.

Lemma firsts_head es e : In e (firsts es) -> exists rest, same_id e es = e :: rest.
Proof.
  unfold same_id. induction es as [|x es IH] using rev_ind; [intros []|].
  rewrite firsts_snoc. destruct (sid_mem (e_id x) (map e_id (firsts es))) eqn:M; intro H.
  - destruct (IH H) as [rest R]. rewrite filter_app, R. eexists. reflexivity.
  - apply in_app_or in H as [H|[<-|[]]].
    + destruct (IH H) as [rest R]. rewrite filter_app, R. eexists. reflexivity.
    + apply sid_mem_not_In in M. rewrite firsts_ids in M. rewrite filter_app, (filter_id_nil _ _ M).
      cbn [filter app]. rewrite sid_eqb_refl. now exists [].
Qed.

Lemma flat_map_single {A B C} (g : B -> list C) (h : A -> C) (k : A -> B) (l : list A) :
  (forall a, In a l -> g (k a) = [h a]) -> flat_map g (map k l) = map h l.
Proof.
  induction l as [|a l IH]; intro H; cbn [map flat_map]; [reflexivity|].
  rewrite (H a (or_introl eq_refl)), IH; [reflexivity | intros; apply H; now right].
Qed.

Lemma spec_streams_firsts vs is :
  let es := entries vs 0 is in
  spec_streams vs is = map (fun e => (e, feeders_of (same_id e es))) (firsts es).
Proof.
  cbn zeta. unfold spec_streams. rewrite sid_dedup_firsts.
  apply flat_map_single. intros e He. destruct (firsts_head _ _ He) as [rest R].
  unfold same_id in *. now rewrite R.
Qed.

Lemma nat_dedup_In l x : In x (nat_dedup l) <-> In x l.
Proof.
  revert x. unfold nat_dedup. induction l as [|a l IH] using rev_ind; intro x; [cbn; tauto|].
  rewrite fold_left_app. cbn [fold_left].
  destruct (nat_mem a (fold_left (fun acc a0 => if nat_mem a0 acc then acc else acc ++ [a0]) l [])) eqn:E.
  - unfold nat_mem in E. apply existsb_exists in E as [y [Hy Ey]]. apply Nat.eqb_eq in Ey. subst y.
    rewrite IH, in_app_iff. cbn. apply IH in Hy. split; [auto | intros [?|[<-|[]]]; assumption].
  - rewrite !in_app_iff, IH. tauto.
Qed.

Lemma nat_mem_In x l : nat_mem x l = true <-> In x l.
Proof.
  unfold nat_mem. rewrite existsb_exists. split.
  - intros [y [Hy E]]. apply Nat.eqb_eq in E. now subst.
  - intro H. exists x. split; [exact H | apply Nat.eqb_refl].
Qed.

Lemma feeders_of_mem k l : nat_mem k (feeders_of l) = true <-> exists x, In x l /\ e_feeder x = Some k.
Proof.
  rewrite nat_mem_In. unfold feeders_of. rewrite nat_dedup_In, in_flat_map. split.
  - intros [x [Hx Hk]]. exists x. split; [exact Hx|]. destruct (e_feeder x); [destruct Hk as [->|[]]; reflexivity | destruct Hk].
  - intros [x [Hx F]]. exists x. split; [exact Hx|]. rewrite F. now left.
Qed.

(** Position among the live first entries = cached aggregator index. *)
Lemma cache_of_nth F : forall n j e0, NoDup (map e_id F) ->
  nth_error (filter is_live F) j = Some e0 -> cache_lookup (e_id e0) (cache_of F n) = Some (Some (n + j)%nat).
Proof.
  induction F as [|e F IH]; intros n j e0 ND H; [destruct j; discriminate|].
  cbn [map] in ND. inversion ND as [|? ? Nin ND']; subst. cbn [filter cache_of] in *.
  assert (Skip : forall j', nth_error (filter is_live F) j' = Some e0 -> sid_eqb (e_id e0) (e_id e) = false).
  { intros j' Hj. apply nth_error_In, filter_In in Hj as [Hj _].
    destruct (sid_eqb (e_id e0) (e_id e)) eqn:E; [|reflexivity]. apply sid_eqb_eq in E.
    exfalso. apply Nin. rewrite <- E. now apply in_map. }
  destruct (is_live e); cbn [cache_lookup].
  - destruct j as [|j]; cbn [nth_error] in H.
    + inversion H; subst. now rewrite sid_eqb_refl, Nat.add_0_r.
    + rewrite (Skip _ H), (IH (S n) j e0 ND' H). do 2 f_equal. lia.
  - rewrite (Skip _ H). now apply IH.
Qed.

Lemma cache_of_slot F : forall n id m,
  cache_lookup id (cache_of F n) = Some (Some m) ->
  exists j e0, m = (n + j)%nat /\ nth_error (filter is_live F) j = Some e0 /\ e_id e0 = id.
Proof.
  induction F as [|e F IH]; intros n id m H; [discriminate|]. cbn [cache_of filter] in *.
  destruct (is_live e); cbn [cache_lookup] in H; destruct (sid_eqb id (e_id e)) eqn:E.
  - inversion H; subst. exists 0%nat, e. apply sid_eqb_eq in E. repeat split; [lia | now symmetry].
  - destruct (IH _ _ _ H) as [j [e0 [-> [Hn He]]]]. exists (S j), e0. repeat split; [lia | exact Hn | exact He].
  - discriminate.
  - now apply IH.
Qed.

Lemma entries_feeder_upper vs : forall is n x m,
  In x (entries vs n is) -> e_feeder x = Some m -> (m < n + length is)%nat.
Proof.
  induction is as [|i is IH]; intros n x m H F; cbn [entries] in H; [destruct H|]. cbn [length].
  apply in_app_or in H as [H|H].
  - destruct (inst_entries_feeder _ _ _ _ H) as [E|E]; rewrite E in F; [discriminate | inversion F; lia].
  - specialize (IH _ _ _ H F). lia.
Qed.

Lemma flat_map_map' {A B C} (f : A -> B) (g : B -> list C) l : flat_map g (map f l) = flat_map (fun a => g (f a)) l.
Proof. induction l; cbn; [reflexivity | now rewrite IHl]. Qed.

Lemma nth_error_map' {A B} (f : A -> B) l j y :
  nth_error (map f l) j = Some y -> exists x, nth_error l j = Some x /\ y = f x.
Proof.
  revert j. induction l as [|a l IH]; intros [|j] H; cbn in H; try discriminate.
  - inversion H. now exists a.
  - now apply IH.
Qed.

Lemma bool_eq_iff (a b : bool) : (a = true <-> b = true) -> a = b.
Proof. destruct a, b; intros [H1 H2]; try reflexivity; [symmetry; now apply H1 | now apply H2]. Qed.

(** The streams that exist (not dropped), in creation order. *)
Definition live_streams (vs : list view) (is : list inst) : list (sentry * list nat) :=
  filter (fun sf => is_live (fst sf)) (spec_streams vs is).

Lemma live_streams_firsts vs is :
  let es := entries vs 0 is in
  live_streams vs is = map (fun e => (e, feeders_of (same_id e es))) (filter is_live (firsts es)).
Proof. cbn zeta. unfold live_streams. rewrite spec_streams_firsts, filter_map_comm. reflexivity. Qed.

(** ** Main statement: the model's view resolution IS the declarative table *)
Lemma model_resolution_is_spec_table vs is :
  fst (build vs is) = flat_map (fun sf => decl_of (fst sf)) (spec_streams vs is) /\
  length (snd (build vs is)) = length is /\
  forall j sf, nth_error (live_streams vs is) j = Some sf ->
    forall k, nmem j (nth k (snd (build vs is)) []) = nat_mem k (snd sf).
Proof.
  destruct (build_tab vs is) as [D [L F]]. cbn zeta in *. set (es := entries vs 0 is) in *.
  split; [|split; [exact L|]].
  - rewrite D. pose proof (spec_streams_firsts vs is) as S. cbn zeta in S. fold es in S. rewrite S, flat_map_map'. reflexivity.
  - intros j sf Hj k.
    pose proof (live_streams_firsts vs is) as LS. cbn zeta in LS. fold es in LS. rewrite LS in Hj.
    apply nth_error_map' in Hj as [e0 [Hn ->]]. cbn [snd].
    destruct (Nat.lt_ge_cases k (length is)) as [Hk|Hk].
    + apply bool_eq_iff. rewrite nmem_In, (F k j Hk), feeders_of_mem. split.
      * intros [x [Hx [Fx Sx]]]. exists x. split; [|exact Fx]. unfold same_id. apply filter_In. split; [exact Hx|].
        apply sid_eqb_eq. unfold slot in Sx. apply cache_of_slot in Sx as [j' [e1 [Ej [Hn1 He1]]]]. cbn in Ej. subst j'.
        rewrite Hn in Hn1. inversion Hn1; subst e1. now symmetry.
      * intros [x [Hx Fx]]. unfold same_id in Hx. apply filter_In in Hx as [Hx Ex]. apply sid_eqb_eq in Ex.
        exists x. split; [exact Hx|]. split; [exact Fx|]. unfold slot. rewrite Ex.
        apply (cache_of_nth (firsts es) 0 j e0 (firsts_nodup es) Hn).
    + rewrite nth_overflow by (rewrite L; exact Hk). cbn [nmem]. symmetry.
      destruct (nat_mem k (feeders_of (same_id e0 es))) eqn:E; [|reflexivity].
      apply feeders_of_mem in E as [x [Hx Fx]]. unfold same_id in Hx. apply filter_In in Hx as [Hx _].
      pose proof (entries_feeder_upper vs is 0 x k Hx Fx). lia.
Qed.

(** * Every stream of the declarative table behaves as a single aggregator on its projected history *)
Lemma decls_of_nth F : forall j e0, nth_error (filter is_live F) j = Some e0 ->
  exists ak, e_kind e0 = Some ak /\
    nth_error (decls_of F) j = Some {| ad_name := e_name e0; ad_kind := ak; ad_ikind := e_ikind e0; ad_filter := e_filter e0 |}.
Proof.
  induction F as [|e F IH]; intros j e0 H; [destruct j; discriminate|].
  unfold decls_of in *. cbn [filter flat_map] in *. unfold is_live, decl_of in *.
  destruct (e_kind e) as [ak|] eqn:K; cbn [app].
  - destruct j as [|j]; cbn [nth_error] in *.
    + inversion H; subst. exists ak. split; [exact K | reflexivity].
    + now apply IH.
  - now apply IH.
Qed.

Lemma project_ext a b h : (forall k, nat_mem k a = nat_mem k b) -> project a h = project b h.
Proof.
  intro E. induction h as [|[i x v|] h IH]; cbn [project]; [reflexivity | | now rewrite IH].
  rewrite (E i), IH. reflexivity.
Qed.

Lemma pipeline_stream_vs_table L tmask vs is h j e fs ak :
  nth_error (live_streams vs is) j = Some (e, fs) -> e_kind e = Some ak ->
  let ds := fst (build vs is) in
  let feeds := snd (build vs is) in
  map (fun outs => nth j outs []) (p_run_raw (map (cfg_of L tmask) ds) feeds h (map (fun _ => s_empty) ds))
  = s_run (stream_cfg L tmask e ak) (project fs h) s_empty.
Proof.
  intros Hj K. cbn zeta.
  destruct (model_resolution_is_spec_table vs is) as [_ [_ FE]]. specialize (FE j (e, fs) Hj). cbn [snd] in FE.
  destruct (build_tab vs is) as [D _]. cbn zeta in D.
  pose proof (live_streams_firsts vs is) as LS. cbn zeta in LS. rewrite LS in Hj.
  apply nth_error_map' in Hj as [e0 [Hn Eq]]. inversion Eq; subst e0 fs. clear Eq.
  destruct (decls_of_nth _ _ _ Hn) as [ak' [K' ND]]. rewrite K in K'. inversion K'; subst ak'. rewrite <- D in ND.
  set (ds := fst (build vs is)) in *. set (feeds := snd (build vs is)) in *.
  assert (Hlt : (j < length (map (cfg_of L tmask) ds))%nat).
  { rewrite map_length. apply nth_error_Some. congruence. }
  rewrite (p_run_projection (map (cfg_of L tmask) ds) feeds j (build_feeds_nodup vs is) Hlt h _ s_empty).
  - f_equal.
    + apply nth_error_nth. rewrite (map_nth_error _ _ _ ND). reflexivity.
    + apply project_ext. intro k. rewrite nat_mem_feeders. apply FE.
  - now rewrite !map_length.
  - now rewrite (map_nth_error _ _ _ ND).
Qed.

(** The whole model output is formed from these per-stream reports. *)
Lemma model_unfold L tmask vs is h :
  model L tmask vs is h =
  let ds := fst (build vs is) in
  let cfgs := map (cfg_of L tmask) ds in
  map (metrics_of ds cfgs) (p_run_raw cfgs (snd (build vs is)) h (map (fun _ => s_empty) ds)).
Proof. unfold model, p_run. now destruct (build vs is). Qed.
