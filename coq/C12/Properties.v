(** C12 property theorems.  Statements only, each closed by a lemma of Proofs.v, with the
    axiom audit after each and non-vacuity examples at the end.

    Vocabulary (Defs.v / Spec.v): a stream configuration [c] = (aggregator kind, temporality,
    cardinality limit L with 0 = unlimited, attribute allow-list of the view); a history [h] =
    list of [AMeasure attrs v | ACollect]; [s_run c h s_empty] = the points the modelled
    aggregator reports at each collection; [windows c h] = the measurements each collection is
    about (since the last reset for delta temporality and observable instruments, since the
    start for cumulative).  All theorems hold for every limit, every history, every kind. *)
From Verif Require Import Lib.Base C12.Defs C12.Model C12.Spec C12.Proofs C12.ProofsViews C12.ProofsBuckets.
Open Scope N_scope.

(** No collection of any aggregator kind, temporality or filter reports more than L attribute sets. *)
Theorem c12_at_most_L : forall c h, 1 <= s_limit c ->
  Forall (fun pts => at_most (s_limit c) pts) (s_run c h s_empty).
Proof. exact stream_at_most. Qed.
Print Assumptions c12_at_most_L.

(** The first L-1 distinct (filtered) sets since the last reset are reported under their own
    identity with exactly their own measurements; every reported set is one of them or the
    overflow set; the overflow point aggregates exactly the remaining measurements.
    (Observable sums with delta temporality report differences: see c12_presum_delta below.) *)
Theorem c12_first_keep_identity : forall c h, is_presum_delta c = false ->
  Forall2 (fun pts w => keep_identity c w pts) (s_run c h s_empty) (windows c h).
Proof. exact stream_keep_identity. Qed.
Print Assumptions c12_first_keep_identity.

(** Pointwise form: the point at every attribute set k is exactly the aggregate of the
    measurements whose filtered, limited destination is k, and no set is reported twice. *)
Theorem c12_placed : forall c h, is_presum_delta c = false ->
  Forall2 (fun pts w => placed c w pts) (s_run c h s_empty) (windows c h).
Proof. exact stream_placed. Qed.
Print Assumptions c12_placed.

(** The total over the reported points equals the total of the measurements of the window
    (per cycle for delta, since the start for cumulative). *)
Theorem c12_total_conserved : forall c h,
  sums_values (s_kind c) = true -> is_presum_delta c = false ->
  Forall2 (fun pts w => sum_conserved w pts) (s_run c h s_empty) (windows c h).
Proof. exact stream_sum_conserved. Qed.
Print Assumptions c12_total_conserved.

(** Histogram counts are conserved the same way (with or without a collected sum). *)
Theorem c12_count_conserved : forall c h,
  counts_values (s_kind c) = true ->
  Forall2 (fun pts w => count_conserved w pts) (s_run c h s_empty) (windows c h).
Proof. exact stream_count_conserved. Qed.
Print Assumptions c12_count_conserved.

(** A view's attribute filter: each point is the aggregate of the measurements whose FILTERED set
    equals the point's set (stated without a limit; with a limit c12_first_keep_identity applies to
    the filtered sets); totals are unchanged by c12_total_conserved, which holds for every filter. *)
Theorem c12_filter_merges : forall c h, is_presum_delta c = false -> s_limit c = 0 ->
  Forall2 (fun pts w => filter_merged c w pts) (s_run c h s_empty) (windows c h).
Proof. exact stream_filter_merged. Qed.
Print Assumptions c12_filter_merges.

(** The boolean checker applied to the implementation's observations is sound: points accepted
    against the required points satisfy the Prop reading; the required points themselves do. *)
Theorem c12_checker_sound : forall c w pts,
  points_eqb (expected_points c w) pts = true -> placed c w pts.
Proof. exact checker_sound. Qed.
Print Assumptions c12_checker_sound.

Theorem c12_required_points_placed : forall c w, placed c w (expected_points c w).
Proof. exact expected_points_placed. Qed.
Print Assumptions c12_required_points_placed.

(** ** Observable sums reported with delta temporality
    Full statement -- REFUTED by the code as it is (known finding F-C12-1):
      forall c h, presum_conserved_b c h (s_run c h s_empty) = true
    i.e. whenever a callback observes (at least) every attribute set it observed in the previous
    collection, the reported per-set changes add up to the change of the total.
    It holds without a cardinality limit; with a limit a set can move between its own identity
    and the overflow set from one collection to the next and the changes no longer add up. *)
Theorem c12_presum_delta_conserved_partial : forall c h, s_limit c = 0 ->
  presum_conserved_b c h (s_run c h s_empty) = true.
Proof. exact presum_delta_conserved_unlimited. Qed.
Print Assumptions c12_presum_delta_conserved_partial.

Definition f1_cfg : scfg := {| s_kind := AKPreSum true; s_delta := true; s_limit := 2; s_filter := None |}.
Definition f1_h : list aev :=
  [AMeasure [(str "id", str "i0")] 5; AMeasure [(str "id", str "i1")] 6; ACollect;
   AMeasure [(str "id", str "i1")] 10; AMeasure [(str "id", str "i0")] 9; ACollect].
Lemma c12_presum_delta_conserved_refuted :
  exists c h, 1 <= s_limit c /\ presum_conserved_b c h (s_run c h s_empty) = false.
Proof. exists f1_cfg, f1_h. split; [cbn; lia | vm_compute; reflexivity]. Qed.
Print Assumptions c12_presum_delta_conserved_refuted.

(** ** Views *)

(** A drop aggregation reports nothing: an instrument all of whose matching views select the
    drop aggregation (for stream identities not already served by a live aggregator) creates no
    aggregator and feeds none, so its measurements reach no data point ([dispatch _ [] = id]). *)
Theorem c12_drop_reports_nothing : forall vs i st,
  (exists v, In v vs /\ matches v i = true) ->
  (forall v, In v vs -> matches v i = true -> req_drops i (mask v i) /\ not_live st (ident i (mask v i))) ->
  (exists st', insert vs i st = (st', []) /\ ps_decls st' = ps_decls st) /\
  forall cfgs a v sts, dispatch cfgs [] a v sts = sts.
Proof. intros vs i st E H. split; [now apply insert_drop | reflexivity]. Qed.
Print Assumptions c12_drop_reports_nothing.

(** Renaming / re-aggregating / several matching views neither lose nor duplicate: the aggregators an
    instrument feeds are pairwise distinct (no measurement is counted twice in one stream); every
    matching view with a usable aggregation has its stream identity served by an aggregator that the
    instrument feeds (or that identity is dropped); and the cache stays a one-to-one assignment of
    aggregators to stream identities (equal identities are merged into one aggregator, different
    identities never share one). *)
Theorem c12_views_no_loss_no_dup : forall vs i st st' feeds err,
  cache_wf st -> insert_raw vs i st = (st', feeds, err) ->
  NoDup feeds /\ cache_wf st' /\
  forall v, In v vs -> matches v i = true -> req_compatible i (mask v i) = true ->
    exists o, cache_lookup (ident i (mask v i)) (ps_cache st') = Some o /\ forall j, o = Some j -> In j feeds.
Proof. exact insert_raw_views. Qed.
Print Assumptions c12_views_no_loss_no_dup.

(** k matching views with pairwise distinct stream identities (none dropping, all usable) yield k streams. *)
Theorem c12_views_k_streams : forall vs i feeds st' err,
  insert_raw vs i p_empty = (st', feeds, err) ->
  (exists v, In v vs /\ matches v i = true) ->
  (forall v, In v vs -> matches v i = true -> req_compatible i (mask v i) = true /\ req_akind i (mask v i) <> None) ->
  NoDup (map (fun v => ident i (mask v i)) (filter (fun v => matches v i) vs)) ->
  length feeds = length (filter (fun v => matches v i) vs) /\ err = false.
Proof. exact insert_raw_count. Qed.
Print Assumptions c12_views_k_streams.

(** No view matches: exactly the default stream. *)
Theorem c12_default_view : forall vs i st st' feeds err,
  insert_raw vs i st = (st', feeds, err) ->
  (forall v, In v vs -> matches v i = false) -> req_compatible i (default_req i) = true ->
  exists o, cache_lookup (ident i (default_req i)) (ps_cache st') = Some o /\
            feeds = match o with Some j => [j] | None => [] end.
Proof. exact insert_raw_default. Qed.
Print Assumptions c12_default_view.

(** Each stream sees every measurement of every instrument feeding it exactly once, and nothing else:
    aggregator j of a pipeline reports, at every collection, what a single aggregator reports on the
    history of the measurements of its feeding instruments -- so every stream theorem above
    (c12_at_most_L ... c12_filter_merges) applies to every stream of every pipeline. *)
Theorem c12_stream_sees_each_measurement_once : forall cfgs feeds j,
  Forall (@NoDup nat) feeds -> (j < length cfgs)%nat ->
  forall h sts s, length sts = length cfgs -> nth_error sts j = Some s ->
  map (fun outs => nth j outs []) (p_run_raw cfgs feeds h sts) =
  s_run (nth j cfgs cfg_dflt) (project (feeders j feeds) h) s.
Proof. exact p_run_projection. Qed.
Print Assumptions c12_stream_sees_each_measurement_once.

(** The feeds the model builds for any views and instruments are duplicate-free. *)
Theorem c12_build_feeds_nodup : forall vs is, Forall (@NoDup nat) (snd (build vs is)).
Proof. exact build_feeds_nodup. Qed.
Print Assumptions c12_build_feeds_nodup.

(** ** The model's view resolution IS the declarative stream table
    [Spec.spec_streams vs is] groups all (usable) view requests of all instruments by stream identity;
    the first request of an identity defines the stream (name, aggregation, filter; a drop there
    drops the stream), every instrument that asked for the identity feeds it once.
    For ALL view lists and instrument sequences, with no side condition:
      - the aggregators [build] inserts are exactly the non-dropped streams of the table, in order,
        with the table's name / aggregation kind / instrument kind / attribute filter;
      - instrument k feeds aggregator j iff k is among the feeders of the j-th non-dropped stream.
    (Drop-first shadowing and instruments mapped onto an existing identity are part of the table's
    definition -- "first request wins" -- so they need no hypothesis; see ex_table_* below.) *)
Theorem c12_model_streams_are_spec_streams : forall vs is,
  fst (build vs is) = flat_map (fun sf => decl_of (fst sf)) (spec_streams vs is) /\
  length (snd (build vs is)) = length is /\
  forall j sf, nth_error (live_streams vs is) j = Some sf ->
    forall k, nmem j (nth k (snd (build vs is)) []) = nat_mem k (snd sf).
Proof. exact model_resolution_is_spec_table. Qed.
Print Assumptions c12_model_streams_are_spec_streams.

(** Restated against the table: the j-th non-dropped stream (e, fs) of the declarative table reports,
    in every pipeline run of the model, exactly what one aggregator configured from the table entry
    reports on the history of the measurements of its feeders -- so c12_at_most_L ...
    c12_order_free hold of every stream of [Spec.spec_streams]. *)
Theorem c12_pipeline_stream_vs_table : forall L tmask vs is h j e fs ak,
  nth_error (live_streams vs is) j = Some (e, fs) -> e_kind e = Some ak ->
  let ds := fst (build vs is) in
  let feeds := snd (build vs is) in
  map (fun outs => nth j outs []) (p_run_raw (map (cfg_of L tmask) ds) feeds h (map (fun _ => s_empty) ds))
  = s_run (stream_cfg L tmask e ak) (project fs h) s_empty.
Proof. exact pipeline_stream_vs_table. Qed.
Print Assumptions c12_pipeline_stream_vs_table.

(** The cache state after any prefix of instruments is the table of first entries (the reachable
    states), from which both theorems follow. *)
Theorem c12_cache_is_table : forall vs is st es idx st' fs,
  build_from vs is st = (st', fs) -> tab_rel st es -> tab_rel st' (es ++ entries vs idx is).
Proof. intros vs is st es idx st' fs H T. exact (proj1 (build_from_tab vs is st es idx st' fs H T)). Qed.
Print Assumptions c12_cache_is_table.

(** ** Explicit-bucket histograms at bucket level (histogram.go in full: h_run / hstep)
    For every limit, filter, temporality, boundaries and history: each reported histogram point holds, per
    bucket, exactly the number of measurements destined to its attribute set (filtered, limited) that fall
    into the bucket (bucket rule = sort.SearchFloat64s = Lib.MetricsModel.bidx), their count and sum, and their
    minimum and maximum -- so the overflow point's buckets / min / max are those of the merged measurements. *)
Theorem c12_hist_buckets_placed : forall c bounds h,
  Forall2 (fun pts w => hplaced c bounds w pts) (h_run c bounds h []) (windows c h).
Proof. exact stream_hplaced. Qed.
Print Assumptions c12_hist_buckets_placed.

(** Per bucket, the counts of the kept points and of the overflow point add up to the number of
    measurements of the window in that bucket: neither the limit nor a filter merge moves or loses one. *)
Theorem c12_hist_buckets_conserved : forall c bounds h,
  Forall2 (fun pts w => buckets_conserved bounds w pts) (h_run c bounds h []) (windows c h).
Proof. exact stream_buckets_conserved. Qed.
Print Assumptions c12_hist_buckets_conserved.

(** The detailed histogram aggregator is the count-and-sum aggregator of the other theorems seen in more
    detail: forgetting buckets, min and max gives exactly [s_run]. *)
Theorem c12_hist_detail_refines : forall c bounds ns, s_kind c = AKHist ns false -> forall h,
  map (map hproj) (h_run c bounds h []) = s_run c h s_empty.
Proof. intros c bounds ns K h. exact (h_run_projects c bounds ns K h [] []). Qed.
Print Assumptions c12_hist_detail_refines.

(** * Non-vacuity *)
Definition ex_id (n : N) : aset := [(str "id", [105; 48 + n])].
Definition ex_cfg (L : N) (delta : bool) : scfg :=
  {| s_kind := AKSum true; s_delta := delta; s_limit := L; s_filter := None |}.
Definition ex_h : list aev :=
  [AMeasure (ex_id 0) 1; AMeasure (ex_id 1) 2; AMeasure (ex_id 2) 4; AMeasure (ex_id 3) 8; AMeasure (ex_id 0) 16; ACollect;
   AMeasure (ex_id 3) 32; AMeasure (ex_id 0) 64; ACollect].

Definition pt (a : aset) (v : Z) (c : N) : aset * point := (a, (v, c)).
Definition ms (a : aset) (v : Z) : aset * Z := (a, v).

(** L = 3, delta: the first two sets keep their identity, the rest overflows; after the reset
    other sets are admitted. *)
Example ex_limit_delta :
  s_run (ex_cfg 3 true) ex_h s_empty =
  [[pt (ex_id 0) 17 0; pt (ex_id 1) 2 0; pt overflow_set 12 0]; [pt (ex_id 3) 32 0; pt (ex_id 0) 64 0]]
  /\ windows (ex_cfg 3 true) ex_h =
     [[ms (ex_id 0) 1; ms (ex_id 1) 2; ms (ex_id 2) 4; ms (ex_id 3) 8; ms (ex_id 0) 16]; [ms (ex_id 3) 32; ms (ex_id 0) 64]].
Proof. vm_compute. split; reflexivity. Qed.

(** L = 3, cumulative: the seen sets persist, later new sets keep overflowing. *)
Example ex_limit_cumulative :
  s_run (ex_cfg 3 false) ex_h s_empty =
  [[pt (ex_id 0) 17 0; pt (ex_id 1) 2 0; pt overflow_set 12 0];
   [pt (ex_id 0) 81 0; pt (ex_id 1) 2 0; pt overflow_set 44 0]].
Proof. vm_compute. reflexivity. Qed.

(** A filter that keeps only key "a" merges sets that differ in other keys. *)
Example ex_filter :
  s_run {| s_kind := AKHist false false; s_delta := true; s_limit := 0; s_filter := Some (fkeys false [str "a"]) |}
        [AMeasure [(str "a", str "i1"); (str "b", str "i1")] 5; AMeasure [(str "a", str "i1"); (str "b", str "i2")] 7;
         AMeasure [(str "b", str "i2")] 1; ACollect] s_empty =
  [[pt [(str "a", str "i1")] 12 2; pt [] 1 1]].
Proof. vm_compute. reflexivity. Qed.

(** Two views with distinct names: two streams; a third with the name of the first in other casing is merged. *)
Definition ex_inst : inst :=
  {| i_name := str "req"; i_desc := []; i_unit := []; i_kind := KCounter; i_float := false; i_rsel := ASNil;
     i_sname := str "lib"; i_sver := []; i_surl := [] |}.
Definition ex_view (mn : bytes) (a : aggsel) : view :=
  {| vc_name := str "req"; vc_desc := []; vc_kind := None; vc_unit := [];
     vc_sname := []; vc_sver := []; vc_surl := []; vm_name := mn; vm_desc := []; vm_unit := [];
     vm_agg := a; vm_filter := None |}.
Example ex_views :
  snd (insert [ex_view (str "x") ASNil; ex_view (str "y") ASHist; ex_view (str "X") ASSum] ex_inst p_empty) = [0; 1]%nat
  /\ snd (insert [ex_view (str "x") ASDrop] ex_inst p_empty) = []
  /\ map ad_name (ps_decls (fst (insert [ex_view (str "x") ASDrop; ex_view (str "kept") ASNil] ex_inst p_empty)))
     = [qualified ex_inst (str "kept")].
Proof. vm_compute. repeat split. Qed.

(** ** Concurrent recording
    The aggregators serialise measurements under a lock, so a concurrent run is some history;
    these clauses hold for EVERY history, i.e. whatever order the scheduler produced: no set twice,
    at most L sets, every reported set was measured (after filtering) or is the overflow set,
    totals and histogram counts conserved. *)
Theorem c12_order_free : forall c h, is_presum_delta c = false ->
  Forall2 (fun pts w => order_free c w pts) (s_run c h s_empty) (windows c h).
Proof. exact stream_order_free. Qed.
Print Assumptions c12_order_free.

(** The table on the shapes that look like they might need a side condition: a drop view listed
    first shadows a later view with the same identity (one dropped stream, no aggregator, nothing fed);
    a second instrument mapped by a view onto the identity of the first feeds the first one's stream
    even though its own view says drop. *)
Definition ex_inst2 : inst :=
  {| i_name := str "req"; i_desc := str "d2"; i_unit := []; i_kind := KCounter; i_float := false; i_rsel := ASNil;
     i_sname := str "lib"; i_sver := []; i_surl := [] |}.
Definition ex_view_desc (cd md : bytes) (a : aggsel) : view :=
  {| vc_name := str "req"; vc_desc := cd; vc_kind := None; vc_unit := [];
     vc_sname := []; vc_sver := []; vc_surl := []; vm_name := []; vm_desc := md; vm_unit := [];
     vm_agg := a; vm_filter := None |}.
Example ex_table_drop_first :
  let vs := [ex_view (str "x") ASDrop; ex_view (str "X") ASSum] in
  map (fun sf => (is_live (fst sf), snd sf)) (spec_streams vs [ex_inst]) = [(false, [0%nat])]
  /\ build vs [ex_inst] = ([], [[]]).
Proof. vm_compute. split; reflexivity. Qed.
Example ex_table_mapped_onto_existing :
  let vs := [ex_view_desc [] (str "D") ASNil; ex_view_desc (str "d2") (str "D") ASDrop] in
  map (fun sf => (is_live (fst sf), snd sf)) (spec_streams vs [ex_inst; ex_inst2]) = [(true, [0%nat; 1%nat])]
  /\ snd (build vs [ex_inst; ex_inst2]) = [[0%nat]; [0%nat]] /\ length (fst (build vs [ex_inst; ex_inst2])) = 1%nat.
Proof. vm_compute. repeat split. Qed.

(** Buckets under a limit: bounds 0,5,10; L = 2: the first set keeps its own buckets, the other two sets
    share the overflow point, whose buckets, min and max are those of their merged measurements. *)
Example ex_hist_buckets :
  h_run {| s_kind := AKHist false false; s_delta := true; s_limit := 2; s_filter := None |} [0; 5; 10]%Z
        [AMeasure (ex_id 0) 3; AMeasure (ex_id 1) 7; AMeasure (ex_id 2) 12; AMeasure (ex_id 0) (-1); AMeasure (ex_id 1) 10; ACollect] [] =
  [[(ex_id 0, {| h_counts := [1; 1; 0; 0]; h_count := 2; h_total := 2; h_min := -1; h_max := 3 |});
    (overflow_set, {| h_counts := [0; 0; 2; 1]; h_count := 3; h_total := 29; h_min := 7; h_max := 12 |})]].
Proof. vm_compute. reflexivity. Qed.
