(** C12 shared vocabulary: attribute sets, measurements, instrument kinds, views
    (criteria matching and stream masking) and stream identities.  Only data types
    and the small functions the property statement itself is phrased in; the
    aggregators, the limiter, the filter and the view resolution algorithm are in
    Model.v, the property's reading of them in Spec.v. *)
From Verif Require Import Lib.Base.
Open Scope N_scope.

(** ** Attribute sets: canonical (sorted by key, unique keys) key -> value lists.
    A value is a byte string whose first byte is a type tag (b/i/s), so that
    Bool(true) and String("true") differ as they do in attribute.Set. *)
Definition kv := (bytes * bytes)%type.
Definition aset := list kv.

Definition kv_eqb (a b : kv) : bool := bytes_eqb (fst a) (fst b) && bytes_eqb (snd a) (snd b).
Definition aset_eqb : aset -> aset -> bool := list_eqb kv_eqb.

Fixpoint amem (a : aset) (l : list aset) : bool :=
  match l with
  | [] => false
  | x :: r => aset_eqb a x || amem a r
  end.

Fixpoint bmem (k : bytes) (l : list bytes) : bool :=
  match l with
  | [] => false
  | x :: r => bytes_eqb k x || bmem k r
  end.

(** attribute.NewSet(attribute.Bool("otel.metric.overflow", true)) *)
Definition overflow_set : aset := [(str "otel.metric.overflow", str "b1")].

(** ** One aggregator's history: measurements (attribute set as recorded, value) and collections. *)
Inductive aev :=
| AMeasure (a : aset) (v : Z)
| ACollect.

(** A reported data point: (value, count).  Sums and gauges have count 0; a
    histogram point carries its sum (0 when the sum is not collected) and its count. *)
Definition point := (Z * N)%type.
Definition points := list (aset * point).

(** ** Aggregator kinds (aggregate.Builder's five families) *)
Inductive akind :=
| AKSum (mono : bool)            (* Builder.Sum *)
| AKPreSum (mono : bool)         (* Builder.PrecomputedSum *)
| AKLast                         (* Builder.LastValue *)
| AKPreLast                      (* Builder.PrecomputedLastValue *)
| AKHist (nosum expo : bool).    (* Builder.ExplicitBucketHistogram / ExponentialBucketHistogram: count and sum only *)

(** A view's attribute filter (attribute.Filter): ANY predicate on key-values; it may look at the value.
    The forms the harness uses: key allow-/deny-lists (attribute.NewAllowKeysFilter / NewDenyKeysFilter),
    value allow-/deny-lists and (key, value) pair allow-/deny-lists (hand-written filter functions). *)
Definition afilter := kv -> bool.
Definition keeps (f : afilter) (x : kv) : bool := f x.
Definition fkeys (deny : bool) (ks : list bytes) : afilter := fun x => xorb deny (bmem (fst x) ks).
Definition fvals (deny : bool) (vs : list bytes) : afilter := fun x => xorb deny (bmem (snd x) vs).
Definition fpairs (deny : bool) (ps : list kv) : afilter := fun x => xorb deny (existsb (kv_eqb x) ps).

(** Configuration of one aggregator: kind, reader temporality, cardinality
    limit (0 = unlimited) and the view's attribute filter (allow-list of keys). *)
Record scfg := {
  s_kind : akind;
  s_delta : bool;
  s_limit : N;
  s_filter : option afilter
}.

(** Non-finite float64 measurements (+Inf, -Inf, NaN) have no value in Z: they are represented by
    integers of magnitude >= 2^64, outside every int64 / exactly representable sum the harness
    produces (+Inf = 2^70, -Inf = 2^80, NaN = 2^90, all positive so that they never cancel).  Sums that
    contain one are "poisoned" (again >= 2^64); the observation side maps every non-finite float to 2^70
    and such values are compared only for being non-finite (Spec.point_eqb_gen). *)
Definition is_nf (v : Z) : bool := (2 ^ 64 <=? Z.abs v)%Z.

(** Measurements an aggregator discards: the exponential histogram ignores NaN and the infinities
    (exponential_histogram.go, expoHistogram.measure); every other aggregator records them. *)
Definition ignores (k : akind) (v : Z) : bool :=
  match k with AKHist _ true => is_nf v | _ => false end.

(** Does a collection forget the attribute sets held?  Synchronous aggregators:
    only with delta temporality; precomputed (observable) ones: always. *)
Definition resets (c : scfg) : bool :=
  match s_kind c with
  | AKPreSum _ | AKPreLast => true
  | _ => s_delta c
  end.

Definition is_presum_delta (c : scfg) : bool :=
  match s_kind c with AKPreSum _ => s_delta c | _ => false end.

(** ** Instruments and views *)
Inductive ikind := KCounter | KUpDown | KHistogram | KObsCounter | KObsUpDown | KObsGauge | KGauge.

Definition ikind_tag (k : ikind) : N :=
  match k with
  | KCounter => 1 | KUpDown => 2 | KHistogram => 3 | KObsCounter => 4
  | KObsUpDown => 5 | KObsGauge => 6 | KGauge => 7
  end.
Definition ikind_eqb (a b : ikind) : bool := ikind_tag a =? ikind_tag b.

Definition observable (k : ikind) : bool :=
  match k with KObsCounter | KObsUpDown | KObsGauge => true | _ => false end.

(** Stream.Aggregation as a view can set it. *)
Inductive aggsel := ASNil | ASDefault | ASDrop | ASSum | ASLast | ASHist | ASExpo.

(** An instrument: name, description, unit, kind, number type, and the instrumentation scope
    (name, version, schema URL) of the meter that created it. *)
Record inst := {
  i_name : bytes; i_desc : bytes; i_unit : bytes; i_kind : ikind; i_float : bool;
  i_sname : bytes; i_sver : bytes; i_surl : bytes;
  (** what the reader's aggregation selector returns for this instrument's kind (ASNil / ASDefault:
      nothing special): the [readerAggregation] argument that inserter.Instrument receives with the instrument *)
  i_rsel : aggsel
}.

(** NewView(criteria, mask): criteria name (may hold the wildcards * and ?), description, kind, unit,
    scope name / version / schema URL (an empty criterion matches everything);
    mask name / description / unit ([] = keep the instrument's), aggregation, attribute allow-list. *)
Record view := {
  vc_name : bytes; vc_desc : bytes; vc_kind : option ikind; vc_unit : bytes;
  vc_sname : bytes; vc_sver : bytes; vc_surl : bytes;
  vm_name : bytes; vm_desc : bytes; vm_unit : bytes;
  vm_agg : aggsel; vm_filter : option afilter
}.

Definition is_nil (b : bytes) : bool := match b with [] => true | _ => false end.
Definition nonzero (v alt : bytes) : bytes := if is_nil v then alt else v.

Definition has_wild (p : bytes) : bool := existsb (fun c => (c =? 42) || (c =? 63)) p.

(** "*" matches zero or more characters, "?" exactly one. *)
Fixpoint glob (p s : bytes) : bool :=
  match p with
  | [] => is_nil s
  | c :: p' =>
      if c =? 42 then
        (fix star (s : bytes) : bool :=
           glob p' s || match s with [] => false | _ :: s' => star s' end) s
      else
        match s with
        | [] => false
        | x :: s' => ((c =? 63) || (c =? x)) && glob p' s'
        end
  end.

(** A view NewView refuses (empty criteria; wildcard criteria with a name in the mask) matches nothing. *)
Definition view_usable (v : view) : bool :=
  negb (is_nil (vc_name v) && is_nil (vc_desc v) && match vc_kind v with None => true | Some _ => false end
        && is_nil (vc_unit v) && is_nil (vc_sname v) && is_nil (vc_sver v) && is_nil (vc_surl v))
  && negb (has_wild (vc_name v) && negb (is_nil (vm_name v))).

Definition matches (v : view) (i : inst) : bool :=
  view_usable v
  && (if has_wild (vc_name v) then glob (vc_name v) (i_name i)
      else is_nil (vc_name v) || bytes_eqb (vc_name v) (i_name i))
  && (is_nil (vc_desc v) || bytes_eqb (vc_desc v) (i_desc i))
  && match vc_kind v with None => true | Some k => ikind_eqb k (i_kind i) end
  && (is_nil (vc_unit v) || bytes_eqb (vc_unit v) (i_unit i))
  && (is_nil (vc_sname v) || bytes_eqb (vc_sname v) (i_sname i))
  && (is_nil (vc_sver v) || bytes_eqb (vc_sver v) (i_sver i))
  && (is_nil (vc_surl v) || bytes_eqb (vc_surl v) (i_surl i)).

(** The stream a matching view (or the implicit default view) asks for. *)
Record sreq := {
  r_name : bytes; r_desc : bytes; r_unit : bytes; r_agg : aggsel; r_filter : option afilter
}.

Definition mask (v : view) (i : inst) : sreq :=
  {| r_name := nonzero (vm_name v) (i_name i); r_desc := nonzero (vm_desc v) (i_desc i);
     r_unit := nonzero (vm_unit v) (i_unit i); r_agg := vm_agg v; r_filter := vm_filter v |}.

Definition default_req (i : inst) : sreq :=
  {| r_name := i_name i; r_desc := i_desc i; r_unit := i_unit i; r_agg := ASNil; r_filter := None |}.

(** Stream identity: instID.normalize (lower-cased name, description, unit, instrument kind, number
    type) within the meter's own aggregator cache, i.e. together with the instrumentation scope. *)
Definition lower (s : bytes) : bytes := map (fun c => if (65 <=? c) && (c <=? 90) then c + 32 else c) s.

Record sid := { si_name : bytes; si_desc : bytes; si_unit : bytes; si_kind : ikind; si_float : bool;
                si_sname : bytes; si_sver : bytes; si_surl : bytes }.

Definition sid_eqb (a b : sid) : bool :=
  bytes_eqb (si_name a) (si_name b) && bytes_eqb (si_desc a) (si_desc b) &&
  bytes_eqb (si_unit a) (si_unit b) && ikind_eqb (si_kind a) (si_kind b) && Bool.eqb (si_float a) (si_float b) &&
  bytes_eqb (si_sname a) (si_sname b) && bytes_eqb (si_sver a) (si_sver b) && bytes_eqb (si_surl a) (si_surl b).

Definition ident (i : inst) (r : sreq) : sid :=
  {| si_name := lower (r_name r); si_desc := r_desc r; si_unit := r_unit r;
     si_kind := i_kind i; si_float := i_float i;
     si_sname := i_sname i; si_sver := i_sver i; si_surl := i_surl i |}.

(** How a reported metric is named in observations: scope name, version, schema URL and the
    stream name, separated by NUL bytes (metrics are reported per instrumentation scope). *)
Definition qualified (i : inst) (n : bytes) : bytes :=
  i_sname i ++ [0] ++ i_sver i ++ [0] ++ i_surl i ++ [0] ++ n.

(** DefaultAggregationSelector *)
Definition default_agg (k : ikind) : aggsel :=
  match k with
  | KCounter | KUpDown | KObsCounter | KObsUpDown => ASSum
  | KObsGauge | KGauge => ASLast
  | KHistogram => ASHist
  end.

(** inserter.readerDefaultAggregation: nil or Default from the reader's selector mean the default selector. *)
Definition reader_agg (i : inst) : aggsel :=
  match i_rsel i with ASNil | ASDefault => default_agg (i_kind i) | a => a end.

(** cachedAggregator's three-way resolution of Stream.Aggregation: nil (no aggregation in the view, or the
    implicit default view) falls back to the READER's aggregation for the kind; an explicit
    AggregationDefault{} means DefaultAggregationSelector(kind) whatever the reader prefers; anything else is used as it is. *)
Definition resolve_agg (a : aggsel) (i : inst) : aggsel :=
  match a with
  | ASNil => reader_agg i
  | ASDefault => default_agg (i_kind i)
  | _ => a
  end.

(** isAggregatorCompatible *)
Definition compatible (k : ikind) (a : aggsel) : bool :=
  match a with
  | ASSum => match k with KObsGauge | KGauge => false | _ => true end
  | ASLast => match k with KObsGauge | KGauge => true | _ => false end
  | _ => true
  end.

(** inserter.aggregateFunc: which aggregator a (resolved, compatible) aggregation yields; None = drop. *)
Definition akind_of (k : ikind) (a : aggsel) : option akind :=
  let nosum := match k with KUpDown | KObsUpDown | KObsGauge | KGauge => true | _ => false end in
  match a with
  | ASDrop => None
  | ASLast => Some (match k with KObsGauge => AKPreLast | _ => AKLast end)
  | ASSum => Some (match k with
                   | KObsCounter => AKPreSum true
                   | KObsUpDown => AKPreSum false
                   | KCounter | KHistogram => AKSum true
                   | _ => AKSum false
                   end)
  | ASHist => Some (AKHist nosum false)
  | ASExpo => Some (AKHist nosum true)
  | ASNil | ASDefault => None
  end.

Definition req_compatible (i : inst) (r : sreq) : bool := compatible (i_kind i) (resolve_agg (r_agg r) i).
Definition req_akind (i : inst) (r : sreq) : option akind := akind_of (i_kind i) (resolve_agg (r_agg r) i).

(** ** Whole-pipeline histories *)
Inductive event :=
| EMeasure (i : nat) (a : aset) (v : Z)     (* instrument index, attribute set, value *)
| ECollect.

(** A reported metric: name, shape tag, points.  The tag is
    kind (0 sum, 1 gauge, 2 histogram, 3 exponential histogram) + 10 * monotonic + 100 * delta. *)
Definition metric := (bytes * N * points)%type.

Definition meta_of (k : akind) (delta : bool) : N :=
  let d := if delta then 100 else 0 in
  match k with
  | AKSum m | AKPreSum m => (if m then 10 else 0) + d
  | AKLast | AKPreLast => 1
  | AKHist _ e => (if e then 3 else 2) + d
  end.

(** Temporality selector of the reader as a bit mask over instrument kinds. *)
Definition delta_of (tmask : N) (k : ikind) : bool := N.testbit tmask (ikind_tag k).

(** ** Small generic helpers *)
Fixpoint zsum (l : list Z) : Z := match l with [] => 0%Z | x :: r => (x + zsum r)%Z end.

Fixpoint lookup (k : aset) (l : points) : option point :=
  match l with
  | [] => None
  | (k', p) :: r => if aset_eqb k k' then Some p else lookup k r
  end.

Definition total (l : points) : Z := zsum (map (fun kp => fst (snd kp)) l).
Definition total_count (l : points) : N := fold_right N.add 0 (map (fun kp => snd (snd kp)) l).

(** ** Explicit-bucket histogram data points in full: per-bucket counts, count, sum, min, max *)
Record hval := { h_counts : list N; h_count : N; h_total : Z; h_min : Z; h_max : Z }.
Definition hpoints := list (aset * hval).

(** sort.SearchFloat64s(bounds, v) on sorted bounds: the first index whose bound is >= v, i.e. the number of
    bounds below v; bucket i is (bounds[i-1], bounds[i]].  (The same rule as Lib.MetricsModel.bidx used by C07.) *)
Definition bidx (bounds : list Z) (v : Z) : nat := length (filter (fun b => (b <? v)%Z) bounds).

Definition hist_nosum (c : scfg) : bool := match s_kind c with AKHist ns _ => ns | _ => false end.

Fixpoint glookup {A} (k : aset) (l : list (aset * A)) : option A :=
  match l with
  | [] => None
  | (k', p) :: r => if aset_eqb k k' then Some p else glookup k r
  end.
