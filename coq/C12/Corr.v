(** C12 correspondence: evaluates model and spec on the scenarios the Go harness ran
    against the real SDK (generated files import this). *)
From Verif Require Import Lib.Base C12.Defs C12.Model C12.Spec.
Open Scope N_scope.

(** Compact constructors for generated literals. *)
Definition ik (n : N) : ikind :=
  match n with
  | 1 => KCounter | 2 => KUpDown | 3 => KHistogram | 4 => KObsCounter
  | 5 => KObsUpDown | 6 => KObsGauge | _ => KGauge
  end.
Definition ag (n : N) : aggsel :=
  match n with
  | 0 => ASNil | 1 => ASDefault | 2 => ASDrop | 3 => ASSum | 4 => ASLast | 5 => ASHist | 6 => ASExpo
  | _ => ASNil   (* an aggregation NewView rejects (Aggregation.err() <> nil) is not used: as if none was given *)
  end.
Definition mkview (cn cd : bytes) (ck : N) (cu csn csv csu mn md mu : bytes) (a : N) (f : option afilter) : view :=
  {| vc_name := cn; vc_desc := cd; vc_kind := if ck =? 0 then None else Some (ik ck); vc_unit := cu;
     vc_sname := csn; vc_sver := csv; vc_surl := csu;
     vm_name := mn; vm_desc := md; vm_unit := mu; vm_agg := ag a; vm_filter := f |}.
Definition mkinst (n d u : bytes) (k : N) (f : bool) (sn sv su : bytes) (rsel : N) : inst :=
  {| i_name := n; i_desc := d; i_unit := u; i_kind := ik k; i_float := f; i_rsel := ag rsel;
     i_sname := sn; i_sver := sv; i_surl := su |}.

(** History events refer to a pool of attribute sets by index. *)
Inductive cev := M (i a : N) (v : Z) | C.

Definition events_of (pool : list aset) (h : list cev) : list event :=
  map (fun e => match e with
                | M i a v => EMeasure (N.to_nat i) (nth (N.to_nat a) pool []) v
                | C => ECollect
                end) h.

(** One scenario: limit (0 = unlimited), temporality mask, views, instruments,
    attribute-set pool, history, and what ManualReader.Collect returned each time
    (metrics as (name, tag, points), points sorted by the harness). *)
(** Explicit-bucket histogram metrics in detail: name, tag, the boundaries the SDK reports, and per
    attribute set the bucket counts, min and max. *)
Definition hpoint_obs := (aset * (list N * Z * Z))%type.
Definition hmetric := (bytes * N * list Z * list hpoint_obs)%type.

(** Spec side: some stream of the table with this name and shape must explain every point: its bucket
    counts / min / max are those of the values routed to the point's set (points a non-finite value reached
    are judged at count level only, see Spec.windows). *)
Definition hmetric_spec_ok (runs : list srun) (n : nat) (m : hmetric) : bool :=
  let '(name, tag, bounds, pts) := m in
  existsb (fun r : srun =>
             let '(e, ak, c, ph, _) := r in
             bytes_eqb (e_name e) name && (meta_of ak (s_delta c) =? tag) &&
             let rw := routed c (nth n (windows c ph) []) in
             forallb (fun p : hpoint_obs =>
                        let '(k, (cnts, mn, mx)) := p in
                        let vs := vals_at k rw in
                        existsb is_nf vs || hdetail_ok bounds vs cnts mn mx) pts) runs.

(** Model side: the detailed histogram aggregator [h_run] on the stream's history reports the same. *)
Definition hmetric_model_ok (runs : list srun) (n : nat) (m : hmetric) : bool :=
  let '(name, tag, bounds, pts) := m in
  existsb (fun r : srun =>
             let '(e, ak, c, ph, _) := r in
             bytes_eqb (e_name e) name && (meta_of ak (s_delta c) =? tag) &&
             let hp := nth n (h_run c bounds ph []) [] in
             forallb (fun p : hpoint_obs =>
                        let '(k, (cnts, mn, mx)) := p in
                        match glookup k hp with
                        | Some hv => is_nf (h_max hv) ||
                                     (list_eqb N.eqb cnts (h_counts hv) && (mn =? h_min hv)%Z && (mx =? h_max hv)%Z)
                        | None => false
                        end) pts) runs.

Fixpoint hobs_ok (f : nat -> hmetric -> bool) (n : nat) (hobs : list (list hmetric)) : bool :=
  match hobs with
  | [] => true
  | ms :: r => forallb (f n) ms && hobs_ok f (S n) r
  end.

Inductive case :=
| CScen (L tmask : N) (vs : list view) (is : list inst) (pool : list aset) (h : list cev)
        (obs : list (list metric)) (hobs : list (list hmetric))
(** Concurrent recording: limit, stream shape (sum collected / histogram / last value), the
    attribute sets offered by all goroutines (and the sequential prefill), all recorded values,
    and the points of the one collection that followed. *)
| CConc (L : N) (sums counts lastv : bool) (offered : list aset) (vals : list Z) (obs : points).

(** Values are compared exactly, except that a required non-finite value (Defs.is_nf: a NaN or an
    infinity entered the sum / is the last value) only requires a non-finite reported value. *)
Definition obs_eqb (a b : list (list metric)) : bool := list_eqb (perm_eqb (metric_eqb_gen true)) a b.

Definition flag (b : bool) (code : N) : list N := if b then [] else [code].

(** Known finding (known_findings.d/C12.json):
    1 (F-C12-1): an observable sum reported with delta temporality under a cardinality limit:
       the per-attribute-set changes do not add up to the change of the total although the
       callback forgot no attribute set (a set moved between its own identity and the overflow set).
       Classified only when the observation is exactly the required per-set report and L >= 1.
    (F-C12-2, the stale Sum of no-sum histograms, is fixed in /repo; nothing is excused for it and
    its scenario stays in the harness corpus.) *)
Definition check_case (c : case) : list N :=
  match c with
  | CScen L tmask vs is pool h obs hobs =>
      let ev := events_of pool h in
      let m := model L tmask vs is ev in
      let runs := stream_runs L tmask vs is ev in     (* the required reports, computed once *)
      flag (obs_eqb m obs && hobs_ok (hmetric_model_ok runs) 0 hobs) V_MISMATCH ++
      (if runs_ok true runs ev obs && obs_at_most_b L obs && hobs_ok (hmetric_spec_ok runs) 0 hobs then
         if runs_presum_ok runs then []
         else if 1 <=? L then [V_KNOWN 1] else [V_SPECFAIL]
       else [V_SPECFAIL]) ++
      flag (runs_ok true runs ev m && obs_at_most_b L m) V_MODELSPEC
  | CConc L sums counts lastv offered vals obs =>
      flag (order_free_b L sums counts lastv offered vals obs) V_SPECFAIL
  end.

Definition run (cs : list case) : list (N * N) := index_from 0 check_case cs.
