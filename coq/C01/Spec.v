(** C01 specification: what a user of the batch span processor may observe, as
    decidable predicates over a recorded history of call / return / exporter events
    (and their Prop readings).  Nothing here refers to the model. *)
From Verif Require Import Lib.Base C01.Types.
Local Open Scope nat_scope.

(** ** Vocabulary over histories *)
Definition memN (i : id) (l : list id) : bool := existsb (N.eqb i) l.
Fixpoint nodupb (l : list id) : bool :=
  match l with [] => true | x :: r => negb (memN x r) && nodupb r end.
Definition nilb {A} (l : list A) : bool := match l with [] => true | _ => false end.

Definition ev_exported (e : event) : list id := match e with EExpBegin b _ => b | _ => [] end.
Definition ev_drop (e : event) : list id := match e with EDrop i => [i] | _ => [] end.
Definition ev_call_end (e : event) : list id := match e with ECall _ (OpEnd i true) => [i] | _ => [] end.
Definition ev_ended (e : event) : list id := match e with ERet _ (OpEnd i true) _ _ => [i] | _ => [] end.

(** ids handed to the exporter / dropped-and-counted / whose sampled End was issued /
    whose sampled End has returned, in a (prefix of a) history *)
Definition exported (h : history) : list id := flat_map ev_exported h.
Definition drops (h : history) : list id := flat_map ev_drop h.
Definition calls_end (h : history) : list id := flat_map ev_call_end h.
Definition ended (h : history) : list id := flat_map ev_ended h.

Definition is_sd_call (e : event) : bool := match e with ECall _ OpShutdown => true | _ => false end.
Definition is_exp_shutdown (e : event) : bool := match e with EExpShutdown => true | _ => false end.
Definition is_exp_end (e : event) : bool := match e with EExpEnd _ => true | _ => false end.
Definition is_call_of (t : nat) (e : event) : bool := match e with ECall t' _ => Nat.eqb t' t | _ => false end.
Definition sd_called (h : history) : bool := existsb is_sd_call h.
Definition exp_shutdown (h : history) : bool := existsb is_exp_shutdown h.

(** an ExportSpans call is in progress at the end of h *)
Definition busy_step (b : bool) (e : event) : bool :=
  match e with EExpBegin _ _ => true | EExpEnd _ => false | _ => b end.
Definition busy (h : history) : bool := fold_left busy_step h false.

(** the part of h before the first event satisfying p (all of h if there is none) *)
Fixpoint before (p : event -> bool) (h : history) : history :=
  match h with [] => [] | e :: r => if p e then [] else e :: before p r end.
Definition before_call (t : nat) (h : history) : history := before (is_call_of t) h.
Definition before_sd (h : history) : history := before is_sd_call h.

(** the part of h up to and including its last ExportEnd *)
Fixpoint skip_to_end (l : history) : history :=
  match l with [] => [] | e :: r => if is_exp_end e then l else skip_to_end r end.
Definition upto_last_end (h : history) : history := rev (skip_to_end (rev h)).

(** every id of ids has been handed to the exporter or dropped-and-counted within pre *)
Definition visible (ids : list id) (pre : history) : bool :=
  forallb (fun i => memN i (exported pre) || memN i (drops pre)) ids.

(** Quantification over the positions of a history: f (events before) (event) (events after). *)
Fixpoint splits_from (f : history -> event -> history -> bool) (pre l : history) : bool :=
  match l with
  | [] => true
  | e :: post => f pre e post && splits_from f (pre ++ [e]) post
  end.
Definition all_splits (f : history -> event -> history -> bool) (h : history) : bool := splits_from f [] h.
Definition any_split (f : history -> event -> history -> bool) (h : history) : bool :=
  negb (all_splits (fun a e b => negb (f a e b)) h).

(** Guard of the Shutdown clauses: every Shutdown call invoked before this point returns
    nil (somewhere in h).  A Shutdown that lost the sync.Once returns nil as soon as the
    winner's function has returned, also when the winner gave up on its context. *)
Definition ret_nil_sd (t : nat) (h : history) : bool :=
  existsb (fun e => match e with ERet t' OpShutdown RNil _ => Nat.eqb t' t | _ => false end) h.
Definition sd_settled (h pre : history) : bool :=
  forallb (fun e => match e with ECall t OpShutdown => ret_nil_sd t h | _ => true end) pre.

(** ** The clauses *)

(** no span is handed to the exporter twice *)
Definition no_dup_ok (h : history) : bool := nodupb (exported h).

(** 1 <= batch size <= MaxExportBatchSize *)
Definition batch_bound_ok (c : config) (h : history) : bool :=
  forallb (fun e => match e with
                    | EExpBegin b _ => (1 <=? length b) && (length b <=? maxb c)
                    | _ => true end) h.

(** exporter calls do not overlap; exporter.Shutdown comes once, after all exports *)
Definition exclusive_at (pre : history) (e : event) (post : history) : bool :=
  match e with
  | EExpBegin _ _ => negb (busy pre) && negb (exp_shutdown pre)
  | EExpEnd _ => busy pre
  | EExpShutdown => negb (busy pre) && negb (exp_shutdown pre)
  | _ => true
  end.
Definition exclusive_ok (h : history) : bool := all_splits exclusive_at h.

(** conservation, observable part: an exported span was ended (sampled) before and is
    never also counted as dropped; drops happen only in non-blocking mode, to ended
    sampled spans, once *)
Definition provenance_at (c : config) (h pre : history) (e : event) (post : history) : bool :=
  match e with
  | EExpBegin b _ => forallb (fun i => memN i (calls_end pre) && negb (memN i (drops h))) b
  | EDrop i => negb (blocking c) && memN i (calls_end pre) && negb (memN i (drops pre))
  | _ => true
  end.
Definition provenance_ok (c : config) (h : history) : bool := all_splits (provenance_at c h) h.

(** h contains a Shutdown that returned nil with the guard satisfied *)
Definition clean (h : history) : bool :=
  any_split (fun pre e _ => match e with ERet _ OpShutdown RNil _ => sd_settled h pre | _ => false end) h.

(** the drop counter read at an export: not more than the drops of spans whose End had
    been issued; and (when the history ends with a clean Shutdown, so that every span
    ended before it is accounted for) not less than the drops that were complete at the
    previous ExportEnd, restricted to spans ended before the first Shutdown call *)
Definition drop_account_at (h pre : history) (e : event) (post : history) : bool :=
  match e with
  | EExpBegin _ d =>
      (d <=? length (filter (fun i => memN i (calls_end pre)) (drops h))) &&
      (negb (clean h) ||
       (length (filter (fun i => memN i (ended (before_sd h))) (drops (upto_last_end pre))) <=? d))
  | _ => true
  end.
Definition drop_account_ok (h : history) : bool := all_splits (drop_account_at h) h.

(** ForceFlush returned nil, its context not done, no Shutdown invoked before the return:
    every span whose End returned before the ForceFlush was invoked is exported or dropped *)
Definition flush_vis_at (pre : history) (e : event) (post : history) : bool :=
  match e with
  | ERet t OpFlush RNil false => sd_called pre || visible (ended (before_call t pre)) pre
  | _ => true
  end.
Definition flush_vis_ok (h : history) : bool := all_splits flush_vis_at h.

(** Shutdown returned nil and every Shutdown invoked before that return returns nil:
    every span whose End returned before the first Shutdown was invoked is exported or
    dropped at the return ... *)
Definition sd_drains_at (h pre : history) (e : event) (post : history) : bool :=
  match e with
  | ERet _ OpShutdown RNil _ => negb (sd_settled h pre) || visible (ended (before_sd pre)) pre
  | _ => true
  end.
Definition sd_drains_ok (h : history) : bool := all_splits (sd_drains_at h) h.

(** ... and nothing is handed to the exporter afterwards *)
Definition quiet_at (h pre : history) (e : event) (post : history) : bool :=
  match e with
  | ERet _ OpShutdown RNil _ => negb (sd_settled h pre) || nilb (exported post)
  | _ => true
  end.
Definition quiet_ok (h : history) : bool := all_splits (quiet_at h) h.

Definition spec_ok (c : config) (h : history) : bool :=
  no_dup_ok h && batch_bound_ok c h && exclusive_ok h && provenance_ok c h &&
  drop_account_ok h && flush_vis_ok h && sd_drains_ok h && quiet_ok h.

(** ** The literal reading of the property ("that call returns without error") and the
    two history shapes on which it fails (known finding F-C01-1) *)
Definition flush_literal_at (pre : history) (e : event) (post : history) : bool :=
  match e with
  | ERet t OpFlush RNil _ => visible (ended (before_call t pre)) pre
  | _ => true
  end.
Definition sd_literal_at (pre : history) (e : event) (post : history) : bool :=
  match e with
  | ERet t OpShutdown RNil _ => visible (ended (before_call t pre)) pre && nilb (exported post)
  | _ => true
  end.
Definition flush_literal_ok (h : history) : bool := all_splits flush_literal_at h.
Definition sd_literal_ok (h : history) : bool := all_splits sd_literal_at h.

(** (a) a Shutdown returned nil although a Shutdown invoked before that return does not
    return nil (the sync.Once winner gave up on its context, or is still running), and a
    span ended before the first Shutdown call is not yet exported / something is exported
    afterwards *)
Definition known_sd (h : history) : bool :=
  any_split (fun pre e post =>
    match e with
    | ERet _ OpShutdown RNil _ =>
        negb (sd_settled h pre) && negb (visible (ended (before_sd pre)) pre && nilb (exported post))
    | _ => false
    end) h.
(** (b) a ForceFlush (context not done) returned nil after a Shutdown had been invoked,
    while a span ended before both calls is not yet exported *)
Definition known_flush (h : history) : bool :=
  any_split (fun pre e post =>
    match e with
    | ERet t OpFlush RNil false =>
        sd_called pre &&
        negb (visible (filter (fun i => memN i (ended (before_sd pre))) (ended (before_call t pre))) pre)
    | _ => false
    end) h.

(** ** Prop readings *)
Definition NoDuplicates (h : history) : Prop := NoDup (exported h).

Definition BatchBound (c : config) (h : history) : Prop :=
  forall b d, In (EExpBegin b d) h -> 1 <= length b <= maxb c.

Definition Exclusive (h : history) : Prop :=
  forall pre e post, h = pre ++ e :: post ->
    match e with
    | EExpBegin _ _ => busy pre = false /\ exp_shutdown pre = false
    | EExpEnd _ => busy pre = true
    | EExpShutdown => busy pre = false /\ exp_shutdown pre = false
    | _ => True
    end.

Definition Provenance (c : config) (h : history) : Prop :=
  (forall pre b d post, h = pre ++ EExpBegin b d :: post ->
     forall i, In i b -> In i (calls_end pre) /\ ~ In i (drops h)) /\
  (forall pre i post, h = pre ++ EDrop i :: post ->
     blocking c = false /\ In i (calls_end pre) /\ ~ In i (drops pre)).

Definition DropAccount (h : history) : Prop :=
  forall pre b d post, h = pre ++ EExpBegin b d :: post ->
    d <= length (filter (fun i => memN i (calls_end pre)) (drops h)) /\
    length (filter (fun i => memN i (ended (before_sd h))) (drops (upto_last_end pre))) <= d.

Definition Visible (ids : list id) (pre : history) : Prop :=
  forall i, In i ids -> In i (exported pre) \/ In i (drops pre).

Definition FlushVisibility (h : history) : Prop :=
  forall pre t post, h = pre ++ ERet t OpFlush RNil false :: post ->
    sd_called pre = false -> Visible (ended (before_call t pre)) pre.

Definition SdSettled (h pre : history) : Prop :=
  forall t, In (ECall t OpShutdown) pre -> exists x, In (ERet t OpShutdown RNil x) h.

Definition ShutdownDrains (h : history) : Prop :=
  forall pre t x post, h = pre ++ ERet t OpShutdown RNil x :: post ->
    SdSettled h pre -> Visible (ended (before_sd pre)) pre.

Definition QuietAfterShutdown (h : history) : Prop :=
  forall pre t x post, h = pre ++ ERet t OpShutdown RNil x :: post ->
    SdSettled h pre -> exported post = [].
