(** C01 invariant, part A: batchMutex, the batch, exclusive exporter calls, batch bound. *)
From Coq Require Import Permutation.
From Verif Require Import Lib.Base C01.Types C01.Model C01.Spec C01.Lts.
Local Open Scope nat_scope.

Definition mu_busy (s : state) : bool := match mu s with None => false | Some _ => true end.

Definition flush_late (p : pc) : bool :=
  match p with PFl5 | PRet OpFlush _ | PDone => true | _ => false end.

Record InvA (c : config) (s : state) : Prop := {
  A_worker : forall k, wpc s = WInExp k -> mu s = Some OWorker;
  A_worker' : mu s = Some OWorker -> exists k, wpc s = WInExp k;
  A_helper : forall t, hpc s t = HExp <-> mu s = Some (OHelper t);
  A_busy : busy (hist s) = mu_busy s;
  A_batch_mu : mu s <> None -> batch s = [];
  A_len : length (batch s) <= maxb c;
  A_len' : (forall k, wpc s <> WExp k) -> length (batch s) < maxb c;
  A_fin : wpc s = WFin -> batch s = [] /\ mu s = None;
  A_expsd : exp_shutdown (hist s) = true <-> hsd s = HSDone;
  A_hsd : hsd s = HSDone -> wpc s = WFin;
  A_once : once s = OFresh -> hsd s = HSNone;
  A_hnone : forall t, flush_late (pcs s t) = false -> hpc s t = HNone;
  A_excl : Exclusive (hist s);
  A_bound : BatchBound c (hist s)
}.

Lemma exclusive_snoc h e :
  Exclusive h ->
  match e with
  | EExpBegin _ _ => busy h = false /\ exp_shutdown h = false
  | EExpEnd _ => busy h = true
  | EExpShutdown => busy h = false /\ exp_shutdown h = false
  | _ => True
  end ->
  Exclusive (h ++ [e]).
Proof.
  intros HE He pre x post Hs. apply snoc_split in Hs as [[-> [-> ->]]|[post' [-> ->]]].
  - exact He.
  - now apply (HE pre x post').
Qed.

Lemma bound_snoc c h e :
  BatchBound c h ->
  match e with EExpBegin b _ => 1 <= length b <= maxb c | _ => True end ->
  BatchBound c (h ++ [e]).
Proof.
  intros HB He b d Hi. apply in_app_or in Hi as [Hi|[Hi|[]]].
  - now apply (HB b d).
  - subst e. exact He.
Qed.

Lemma initA c : 1 <= maxb c -> InvA c init.
Proof.
  intros Hm. constructor; cbn; try discriminate; try tauto; try lia.
  - intros t. split; discriminate.
  - split; discriminate.
  - intros pre e post H. destruct pre; discriminate.
  - intros b d [].
Qed.

Ltac solveA :=
  match goal with
  | |- Exclusive (_ ++ [_]) => apply exclusive_snoc; [assumption|]; cbn
  | |- BatchBound _ (_ ++ [_]) => apply bound_snoc; [assumption|]; cbn
  | _ => idtac
  end.

Ltac go :=
  intros; upd_all; cbn [flush_late length wcont] in *; rewrite ?app_length in *; cbn [length] in *;
  rw_goal; fin;
  try solve [eauto]; try solve [intuition (congruence || eauto)];
  try solve [split; intros; fin; eauto].

Lemma stepA c s a s' : 1 <= maxb c -> InvA c s -> step c s a = Some s' -> InvA c s'.
Proof.
  intros Hm [W W' Hh Hb Hbm Hl Hl' Hf He Hd Ho Hn Hx Hbd] Hs. unfold mu_busy in Hb.
  destruct a as [t o|t|t|t|t|t|t ok| | | | | | |ok| ];
    try (pose proof (Hh t) as Hht; pose proof (Hn t) as Hnt).
  all: step_cases Hs.
  all: try match goal with H : (if ?d then _ else _) = _ |- _ => destruct d end.
  all: bool_facts.
  all: try (assert (Hlt : length (batch s) < maxb c) by (apply Hl'; intros; congruence)).
  all: try (assert (Hmw : mu s = Some OWorker) by eauto).
  all: try (assert (Hmh : mu s = Some (OHelper t)) by (apply Hht; reflexivity)).
  all: try (assert (Hbe : batch s = []) by (apply Hbm; congruence)).
  all: try (assert (Hes : exp_shutdown (hist s) = false)
             by (apply Bool.not_true_is_false; intros E; apply He in E; pose proof (Hd E) as E';
                 (congruence || (apply Hf in E' as [E1 E2]; congruence)))).
  all: try (assert (Hmn : mu s = None) by (apply Hf; reflexivity)).
  all: constructor; simp; unfold mu_busy in *; simp;
    rewrite ?busy_snoc, ?exp_shutdown_snoc; cbn [busy_step is_exp_shutdown]; rewrite ?orb_false_r;
    solveA; auto; rw_goal; fin.
  all: try solve [go].
  all: try solve [intros k Hk; apply W in Hk; discriminate].
  all: try solve [intros k0; destruct k; cbn; discriminate].
  all: try solve [intros u; upd_case u t; split; intros HH; try discriminate; try reflexivity; try congruence;
                  apply Hh in HH; try discriminate; congruence].
  all: try solve [split; auto].
  all: try solve [intros HH; apply W' in HH as [k' HH]; congruence].
  all: try solve [intros HH; exfalso; eapply HH; reflexivity].
  all: try solve [intros u; split; intros HH; [apply Hh in HH|]; try discriminate; congruence].
  intros k Hk. apply W in Hk. congruence.
Qed.

Lemma runA c : 1 <= maxb c -> forall sch s0 s, InvA c s0 -> run_from c s0 sch = Some s -> InvA c s.
Proof.
  intros Hm. induction sch as [|a r IH]; cbn; intros s0 s Hi H.
  - now inversion H; subst.
  - destruct (step c s0 a) eqn:E; [|discriminate]. eapply IH; [|exact H]. eapply stepA; eauto.
Qed.
