(** C01 proofs: the five parts of the invariant (InvA .. InvE) are combined into one
    inductive invariant of the transition system; the property theorems are its
    consequences, first as Prop statements over the history, then as [spec_ok = true]. *)
From Coq Require Import Permutation.
From Verif Require Import Lib.Base C01.Types C01.Model C01.Spec C01.Lts
  C01.InvA C01.InvB C01.InvC C01.InvD C01.InvE.
Local Open Scope nat_scope.

Record Inv (c : config) (s : state) : Prop := {
  I_A : InvA c s; I_B : InvB c s; I_C : InvC s; I_D : InvD s; I_E : InvE s
}.

Lemma init_inv c : wf_config c -> Inv c init.
Proof.
  intros [_ Hm]. constructor;
    [now apply initA | apply initB | apply initC | apply initD | apply initE].
Qed.

Lemma step_inv c s a s' : wf_config c -> Inv c s -> step c s a = Some s' -> Inv c s'.
Proof.
  intros [_ Hm] [IA IB IC ID IE] Hs. constructor.
  - eapply stepA; eauto.
  - eapply stepB; eauto.
  - eapply stepC; eauto.
  - eapply stepD; eauto.
  - eapply stepE; eauto.
Qed.

Lemma run_from_inv c : wf_config c ->
  forall sch s0 s, Inv c s0 -> run_from c s0 sch = Some s -> Inv c s.
Proof.
  intros Hc. induction sch as [|a r IH]; cbn; intros s0 s Hi H.
  - now inversion H; subst.
  - destruct (step c s0 a) eqn:E; [|discriminate]. eapply IH; [|exact H]. eapply step_inv; eauto.
Qed.

Lemma run_inv c sch s : wf_config c -> run c sch = Some s -> Inv c s.
Proof. intros Hc H. eapply run_from_inv; eauto. now apply init_inv. Qed.

(** ** Consequences, as Prop readings of the clauses *)
Section Consequences.
Variable c : config.
Variable s : state.
Hypothesis I : Inv c s.

Lemma conservation :
  Permutation (entered s)
    (queue_ids s ++ held_ids s ++ batch s ++ exported (hist s) ++ drops (hist s)) /\
  NoDup (entered s) /\
  (forall i, In i (entered s) -> In i (calls_end (hist s))) /\
  (forall i, In i (ended (before_sd (hist s))) -> In i (entered s)) /\
  (blocking c = true -> drops (hist s) = []) /\
  dropped s = length (drops (hist s)).
Proof.
  destruct I as [IA IB IC ID IE]. repeat split.
  - apply (B_perm c s IB).
  - apply (B_nodup c s IB).
  - apply (B_called c s IB).
  - apply (D_ended s ID).
  - apply (B_block c s IB).
  - apply (B_dropped c s IB).
Qed.

Lemma nodup_located : NoDup (located s).
Proof.
  destruct I as [_ IB _ _ _]. eapply Permutation_NoDup; [apply (B_perm c s IB)|apply (B_nodup c s IB)].
Qed.

Lemma NoDup_app_r {A} (a b : list A) : NoDup (a ++ b) -> NoDup b.
Proof. induction a; cbn; auto. intros H. inversion H; auto. Qed.
Lemma NoDup_app_l {A} (a b : list A) : NoDup (a ++ b) -> NoDup a.
Proof.
  induction a; cbn; intros H; [constructor|]. inversion H; subst. constructor; auto.
  intros X. apply H2. apply in_app_iff. now left.
Qed.
Lemma NoDup_app_disj {A} (a b : list A) x : NoDup (a ++ b) -> In x a -> ~ In x b.
Proof.
  induction a; cbn; [contradiction|]. intros H [->|Hx] Hb.
  - inversion H; subst. apply H2. apply in_app_iff. now right.
  - inversion H; subst. now apply IHa.
Qed.

Lemma no_duplicates : NoDuplicates (hist s).
Proof.
  pose proof nodup_located as H. unfold located in H.
  do 3 apply NoDup_app_r in H. now apply NoDup_app_l in H.
Qed.

Lemma exported_not_dropped i : In i (exported (hist s)) -> ~ In i (drops (hist s)).
Proof.
  pose proof nodup_located as H. unfold located in H.
  do 3 apply NoDup_app_r in H. intros Hi. eapply NoDup_app_disj; eauto.
Qed.

Lemma batch_bound : BatchBound c (hist s).
Proof. destruct I as [IA _ _ _ _]. apply (A_bound c s IA). Qed.

Lemma exclusive : Exclusive (hist s).
Proof. destruct I as [IA _ _ _ _]. apply (A_excl c s IA). Qed.

Lemma provenance : Provenance c (hist s).
Proof.
  destruct I as [_ IB _ _ _]. split.
  - intros pre b d post Hs i Hi. destruct (B_ev c s IB pre _ post Hs) as [H1 _]. split; auto.
    apply exported_not_dropped. rewrite Hs, exported_app. apply in_or_app. right.
    cbn. apply in_or_app. now left.
  - intros pre i post Hs. apply (B_ev c s IB pre _ post Hs).
Qed.

Lemma in_drops_split l i : In i (drops l) -> exists l1 l2, l = l1 ++ EDrop i :: l2.
Proof.
  intros H. apply in_flat_map in H as [e [He Hi]].
  destruct e; cbn in Hi; try contradiction. destruct Hi as [<-|[]]. now apply in_split.
Qed.

Lemma filter_all {A} (f : A -> bool) l : (forall x, In x l -> f x = true) -> filter f l = l.
Proof.
  induction l as [|x l IH]; cbn; auto. intros H. rewrite (H x) by now left.
  f_equal. apply IH. intros y Hy. apply H. now right.
Qed.
Lemma filter_len {A} (f : A -> bool) l : length (filter f l) <= length l.
Proof. induction l as [|x l IH]; cbn; auto. destruct (f x); cbn; lia. Qed.

Lemma skip_suffix l : exists p, l = p ++ skip_to_end l.
Proof.
  induction l as [|e l [p IH]]; cbn; [now exists []|].
  destruct (is_exp_end e); [now exists []|]. exists (e :: p). cbn. now rewrite <- IH.
Qed.
Lemma upto_prefix h : exists r, h = upto_last_end h ++ r.
Proof.
  unfold upto_last_end. destruct (skip_suffix (rev h)) as [p Hp]. exists (rev p).
  rewrite <- rev_app_distr, <- Hp. now rewrite rev_involutive.
Qed.

Lemma drop_account : DropAccount (hist s).
Proof.
  destruct I as [_ IB _ _ _]. intros pre b d post Hs.
  destruct (B_ev c s IB pre _ post Hs) as [_ ->]. split.
  - rewrite Hs, drops_app, filter_app, app_length.
    rewrite filter_all; [lia|]. intros i Hi. apply memN_In.
    destruct (in_drops_split pre i Hi) as [l1 [l2 E]].
    assert (Hs' : hist s = l1 ++ EDrop i :: (l2 ++ EExpBegin b (length (drops pre)) :: post)).
    { rewrite Hs, E, <- app_assoc. reflexivity. }
    destruct (B_ev c s IB l1 _ _ Hs') as [_ [H _]].
    rewrite E, calls_end_app. apply in_or_app. now left.
  - destruct (upto_prefix pre) as [r Hr]. rewrite Hr at 2. rewrite drops_app, app_length.
    pose proof (filter_len (fun i => memN i (ended (before_sd (hist s)))) (drops (upto_last_end pre))).
    lia.
Qed.

Lemma flush_visibility : FlushVisibility (hist s).
Proof.
  destruct I as [_ _ _ _ IE]. intros pre t post Hs Hsd. exact (E_ret s IE pre _ post Hs Hsd).
Qed.

Lemma settled_clean pre t r x post :
  hist s = pre ++ ERet t OpShutdown r x :: post -> SdSettled (hist s) pre ->
  exists w, once s = OFinished w true.
Proof.
  destruct I as [_ _ IC _ _]. intros Hs Hset.
  destruct (C_ret s IC pre _ post Hs) as [w [cl [Ho Hc]]].
  destruct (Hset w Hc) as [x' Hin].
  destruct (C_win s IC w cl Ho) as [_ [_ W3]]. specialize (W3 _ _ Hin).
  destruct cl; [now exists w|discriminate].
Qed.

Lemma shutdown_drains : ShutdownDrains (hist s).
Proof.
  destruct I as [_ _ IC ID _]. intros pre t x post Hs Hset.
  destruct (settled_clean _ _ _ _ _ Hs Hset) as [w Hw].
  exact (D_sdret s ID pre _ post Hs w Hw).
Qed.

Lemma quiet_after_shutdown : QuietAfterShutdown (hist s).
Proof.
  destruct I as [_ _ IC _ _]. intros pre t x post Hs Hset.
  destruct (settled_clean _ _ _ _ _ Hs Hset) as [w Hw].
  exact (C_quiet s IC w Hw pre t RNil x post Hs).
Qed.

End Consequences.

(** ** From the Prop readings to the boolean checker used on recorded histories *)
Lemma visible_of h ids : Visible ids h -> visible ids h = true.
Proof.
  intros H. apply forallb_forall. intros i Hi. apply orb_true_iff.
  destruct (H i Hi); [left|right]; now apply memN_In.
Qed.

Lemma sd_settled_reflect h pre : sd_settled h pre = true -> SdSettled h pre.
Proof.
  intros H t Ht. unfold sd_settled in H. rewrite forallb_forall in H. specialize (H _ Ht). cbn in H.
  unfold ret_nil_sd in H. apply existsb_exists in H as [e [He Hm]].
  destruct e as [|t' [| |] [| |] x| | | |]; try discriminate.
  apply Nat.eqb_eq in Hm. subst. now exists x.
Qed.

Lemma spec_ok_of_props c h :
  NoDuplicates h -> BatchBound c h -> Exclusive h -> Provenance c h -> DropAccount h ->
  FlushVisibility h -> ShutdownDrains h -> QuietAfterShutdown h -> spec_ok c h = true.
Proof.
  intros Hnd Hbb Hex [Hp1 Hp2] Hda Hfv Hsd Hq. unfold spec_ok.
  repeat (apply andb_true_iff; split).
  - now apply nodupb_NoDup.
  - apply forallb_forall. intros e He. destruct e as [| |b d| | |]; auto.
    destruct (Hbb b d He). apply andb_true_iff. split; now apply Nat.leb_le.
  - apply all_splits_spec. intros pre e post Hs. specialize (Hex pre e post Hs).
    destruct e; cbn; auto.
    + destruct Hex as [-> ->]. reflexivity.
    + destruct Hex as [-> ->]. reflexivity.
  - apply all_splits_spec. intros pre e post Hs. destruct e as [| |b d| | |i]; cbn; auto.
    + apply forallb_forall. intros i Hi. destruct (Hp1 pre b d post Hs i Hi) as [A B].
      apply andb_true_iff. split; [now apply memN_In|]. apply negb_true_iff. now apply memN_false.
    + destruct (Hp2 pre i post Hs) as [-> [A B]]. cbn.
      apply andb_true_iff. split; [now apply memN_In|]. apply negb_true_iff. now apply memN_false.
  - apply all_splits_spec. intros pre e post Hs. destruct e as [| |b d| | |]; cbn; auto.
    destruct (Hda pre b d post Hs) as [A B]. apply andb_true_iff. split.
    + now apply Nat.leb_le.
    + apply orb_true_iff. right. now apply Nat.leb_le.
  - apply all_splits_spec. intros pre e post Hs.
    destruct e as [|t [| |] [| |] [|]| | | |]; cbn; auto.
    destruct (sd_called pre) eqn:E; cbn; auto. apply visible_of. now apply (Hfv pre t post Hs).
  - apply all_splits_spec. intros pre e post Hs.
    destruct e as [|t [| |] [| |] x| | | |]; cbn; auto.
    destruct (sd_settled h pre) eqn:E; cbn; auto. apply visible_of.
    apply (Hsd pre t x post Hs). now apply sd_settled_reflect.
  - apply all_splits_spec. intros pre e post Hs.
    destruct e as [|t [| |] [| |] x| | | |]; cbn; auto.
    destruct (sd_settled h pre) eqn:E; cbn; auto.
    rewrite (Hq pre t x post Hs); [reflexivity|]. now apply sd_settled_reflect.
Qed.

Lemma spec_ok_run c sch s : wf_config c -> run c sch = Some s -> spec_ok c (hist s) = true.
Proof.
  intros Hc H. pose proof (run_inv c sch s Hc H) as I. apply spec_ok_of_props.
  - eapply no_duplicates; eauto.
  - eapply batch_bound; eauto.
  - eapply exclusive; eauto.
  - eapply provenance; eauto.
  - eapply drop_account; eauto.
  - eapply flush_visibility; eauto.
  - eapply shutdown_drains; eauto.
  - eapply quiet_after_shutdown; eauto.
Qed.
