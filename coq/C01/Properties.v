(** C01 property theorems: the batch span processor (model C01/Model.v of
    sdk/trace/batch_span_processor.go) satisfies the specification C01/Spec.v, for every
    configuration, every schedule of the atomic steps and any number of calling
    goroutines.  Statements only; each is closed by a lemma of Proofs.v (all are
    consequences of the one inductive invariant [Inv]). *)
From Coq Require Import Permutation.
From Verif Require Import Lib.Base C01.Types C01.Model C01.Spec C01.Proofs.
Local Open Scope nat_scope.

(** The invariant is inductive: it holds initially and every step preserves it. *)
Theorem c01_invariant : forall c sch s, wf_config c -> run c sch = Some s -> Inv c s.
Proof. exact run_inv. Qed.
Print Assumptions c01_invariant.

(** Conservation: the spans that passed the stopped and sampled checks of OnEnd and
    reached the queue operation ([entered], ghost) are, as a multiset, exactly those in
    the queue, held by the worker, in the batch, handed to the exporter, or dropped and
    counted; they are pairwise distinct, each was ended by a sampled End, every sampled
    span whose End returned before the first Shutdown call is among them, nothing is
    dropped in blocking mode, and the drop counter equals the number of drops. *)
Theorem c01_conservation : forall c sch s, wf_config c -> run c sch = Some s ->
  Permutation (entered s)
    (queue_ids s ++ held_ids s ++ batch s ++ exported (hist s) ++ drops (hist s)) /\
  NoDup (entered s) /\
  (forall i, In i (entered s) -> In i (calls_end (hist s))) /\
  (forall i, In i (ended (before_sd (hist s))) -> In i (entered s)) /\
  (blocking c = true -> drops (hist s) = []) /\
  dropped s = length (drops (hist s)).
Proof. intros c sch s Hc H. eapply conservation, run_inv; eauto. Qed.
Print Assumptions c01_conservation.

(** Observable part of conservation: exported spans were ended (sampled) before, are never
    also counted as dropped; drops only in non-blocking mode, of ended spans, once; the
    drop counter read at an export is bounded by the drops of spans ended so far. *)
Theorem c01_provenance : forall c sch s, wf_config c -> run c sch = Some s ->
  Provenance c (hist s) /\ DropAccount (hist s).
Proof.
  intros c sch s Hc H. pose proof (run_inv c sch s Hc H).
  split; [eapply provenance|eapply drop_account]; eauto.
Qed.
Print Assumptions c01_provenance.

(** No span is handed to the exporter twice (span ids are issued once: the model refuses
    a second End of the same id). *)
Theorem c01_no_duplicates : forall c sch s, wf_config c -> run c sch = Some s ->
  NoDup (exported (hist s)).
Proof. intros c sch s Hc H. eapply no_duplicates, run_inv; eauto. Qed.
Print Assumptions c01_no_duplicates.

(** Every batch handed to the exporter has between 1 and MaxExportBatchSize spans. *)
Theorem c01_batch_bound : forall c sch s, wf_config c -> run c sch = Some s ->
  forall b d, In (EExpBegin b d) (hist s) -> 1 <= length b <= maxb c.
Proof. intros c sch s Hc H. eapply batch_bound, run_inv; eauto. Qed.
Print Assumptions c01_batch_bound.

(** Exporter calls never overlap: at an ExportBegin (and at the exporter's Shutdown) no
    export is in progress and the exporter has not been shut down; an ExportEnd closes the
    export in progress. *)
Theorem c01_exclusive : forall c sch s, wf_config c -> run c sch = Some s ->
  forall pre e post, hist s = pre ++ e :: post ->
    match e with
    | EExpBegin _ _ => busy pre = false /\ exp_shutdown pre = false
    | EExpEnd _ => busy pre = true
    | EExpShutdown => busy pre = false /\ exp_shutdown pre = false
    | _ => True
    end.
Proof. intros c sch s Hc H. eapply exclusive, run_inv; eauto. Qed.
Print Assumptions c01_exclusive.

(** ForceFlush: if the call returned nil, its context was not done at the return, and no
    Shutdown had been invoked before the return, then every sampled span whose End returned
    before the ForceFlush was invoked has been handed to the exporter or dropped-and-counted.
    (Both guards are forced: see [c01_flush_during_shutdown_refuted]; the context guard is
    the path on which the marker was not queued.) *)
Theorem c01_flush_visibility : forall c sch s, wf_config c -> run c sch = Some s ->
  forall pre t post, hist s = pre ++ ERet t OpFlush RNil false :: post ->
    sd_called pre = false ->
    forall i, In i (ended (before_call t pre)) -> In i (exported pre) \/ In i (drops pre).
Proof. intros c sch s Hc H. eapply flush_visibility, run_inv; eauto. Qed.
Print Assumptions c01_flush_visibility.

(** Shutdown: if a Shutdown call returned nil and every Shutdown invoked before that return
    returns nil, then every sampled span whose End returned before the first Shutdown was
    invoked has been handed to the exporter or dropped-and-counted.  For the first Shutdown
    call this is the property's clause for "that call"; the guard is forced: see
    [c01_second_shutdown_refuted]. *)
Theorem c01_shutdown_drains : forall c sch s, wf_config c -> run c sch = Some s ->
  forall pre t x post, hist s = pre ++ ERet t OpShutdown RNil x :: post ->
    (forall t', In (ECall t' OpShutdown) pre -> exists x', In (ERet t' OpShutdown RNil x') (hist s)) ->
    forall i, In i (ended (before_sd pre)) -> In i (exported pre) \/ In i (drops pre).
Proof. intros c sch s Hc H. eapply shutdown_drains, run_inv; eauto. Qed.
Print Assumptions c01_shutdown_drains.

(** ... and nothing is handed to the exporter after that return. *)
Theorem c01_quiet_after_shutdown : forall c sch s, wf_config c -> run c sch = Some s ->
  forall pre t x post, hist s = pre ++ ERet t OpShutdown RNil x :: post ->
    (forall t', In (ECall t' OpShutdown) pre -> exists x', In (ERet t' OpShutdown RNil x') (hist s)) ->
    exported post = [].
Proof. intros c sch s Hc H. eapply quiet_after_shutdown, run_inv; eauto. Qed.
Print Assumptions c01_quiet_after_shutdown.

(** The executable checker that judges the histories recorded from the implementation
    accepts every history of the model. *)
Theorem c01_spec_ok : forall c sch s, wf_config c -> run c sch = Some s ->
  spec_ok c (hist s) = true.
Proof. exact spec_ok_run. Qed.
Print Assumptions c01_spec_ok.

(** ** Known finding F-C01-1: the literal reading "that call returns without error" fails *)
Definition cfg_w : config := {| qcap := 2; maxb := 1; blocking := false |}.

(** the exporter is still inside ExportSpans [1] when Shutdown 2 gives up on its context *)
Definition sched_blocked : list action :=
  [ACall 0 (OpEnd 1%N true); AStep 0; AStep 0; AStep 0;
   AWRecv; AWAppend; AWExpOpen;
   ACall 1 (OpEnd 2%N true); AStep 1; AStep 1; AStep 1;
   ACall 2 OpShutdown; AStep 2; ASdH; AExpire 2; ACtx 2; AStep 2].

(** (a) a second Shutdown(Background) returns nil while span 2 is still queued *)
Theorem c01_second_shutdown_refuted :
  exists c sch s, wf_config c /\ run c sch = Some s /\
    sd_literal_ok (hist s) = false /\ known_sd (hist s) = true /\ spec_ok c (hist s) = true.
Proof.
  exists cfg_w, (sched_blocked ++ [ACall 3 OpShutdown; AStep 3; AStep 3]).
  eexists. split; [split; cbn; lia|]. split; [vm_compute; reflexivity|]. vm_compute. auto.
Qed.
Print Assumptions c01_second_shutdown_refuted.

(** (b) a ForceFlush(Background) issued after that Shutdown returns nil (stopped flag) *)
Theorem c01_flush_during_shutdown_refuted :
  exists c sch s, wf_config c /\ run c sch = Some s /\
    flush_literal_ok (hist s) = false /\ known_flush (hist s) = true /\ spec_ok c (hist s) = true.
Proof.
  exists cfg_w, (sched_blocked ++ [ACall 3 OpFlush; AStep 3; AStep 3; AStep 3]).
  eexists. split; [split; cbn; lia|]. split; [vm_compute; reflexivity|]. vm_compute. auto.
Qed.
Print Assumptions c01_flush_during_shutdown_refuted.

(** ** Non-vacuity: three producers, a flush and a shutdown; every hypothesis of the
    visibility theorems is satisfied by this run (the flush returns nil with a live context
    before any Shutdown is invoked; the only Shutdown returns nil). *)
Definition cfg_ex : config := {| qcap := 2; maxb := 2; blocking := false |}.
Definition sched_ex : list action :=
  [ACall 0 (OpEnd 1%N true); ACall 1 (OpEnd 2%N true); ACall 2 (OpEnd 3%N true);
   AStep 0; AStep 0; AStep 1; AStep 1; AWRecv; AWAppend; AStep 2; AStep 2;
   AStep 0; AStep 1; AStep 2;
   AWRecv; AWAppend; AWExpOpen; AWExpEnd true; AWRecv; AWAppend;
   ACall 3 OpFlush; AStep 3; AStep 3; AStep 3; AWRecv; AStep 3; AStep 3;
   AHelper 3; AHelperEnd 3 true; AStep 3; AStep 3;
   ACall 4 OpShutdown; AStep 4; ASdH; AWStop; AWDrainEmpty; AWExpOpen; ASdH; AStep 4; AStep 4].

Definition ids_are (l l' : list id) : bool := list_eqb N.eqb l l'.

Example c01_example :
  match run cfg_ex sched_ex with
  | None => False
  | Some s =>
      let h := hist s in
      wf_config cfg_ex /\
      flat_map (fun e => match e with EExpBegin b _ => [b] | _ => [] end) h = [[1%N; 2%N]; [3%N]] /\
      (* the flush: returned nil, context alive, no Shutdown invoked before, F = {1,2,3} *)
      any_split (fun pre e _ => match e with
                                | ERet 3 OpFlush RNil false =>
                                    negb (sd_called pre) && ids_are (ended (before_call 3 pre)) [1%N; 2%N; 3%N]
                                | _ => false end) h = true /\
      (* the shutdown: returned nil, guard satisfied, Z = {1,2,3} *)
      any_split (fun pre e _ => match e with
                                | ERet 4 OpShutdown RNil false =>
                                    sd_settled h pre && ids_are (ended (before_sd pre)) [1%N; 2%N; 3%N]
                                | _ => false end) h = true /\
      spec_ok cfg_ex h = true /\ flush_literal_ok h = true /\ sd_literal_ok h = true
  end.
Proof. vm_compute. repeat split; lia. Qed.
