(** C01 shared vocabulary: span ids, calls, returns, the observable history of a
    batch span processor and its configuration.  Used by Spec (which never mentions
    the model) and by Model. *)
From Verif Require Import Lib.Base.
Local Open Scope nat_scope.

Definition id := N.

(** One API call; every call is issued under its own call id ("thread" [t : nat]). *)
Inductive op :=
| OpEnd (i : id) (sampled : bool)      (* span.End -> OnEnd of span i *)
| OpFlush                              (* ForceFlush(ctx) *)
| OpShutdown.                          (* Shutdown(ctx) *)

Inductive ret := RNil | RCtx | ROther.

(** Events are recorded with a global sequence number taken BEFORE a call is issued
    ([ECall]) and AFTER it returned ([ERet]); exporter events are recorded inside the
    exporter.  [expired]: the call's context was done when it returned.
    [EExpBegin b d]: ExportSpans entered with batch [b]; [d] is the value of the
    processor's drop counter read for the "exporting spans" debug line.
    [EDrop i]: span [i] was rejected because the queue was full, and counted. *)
Inductive event :=
| ECall (t : nat) (o : op)
| ERet (t : nat) (o : op) (r : ret) (expired : bool)
| EExpBegin (b : list id) (d : nat)
| EExpEnd (ok : bool)
| EExpShutdown
| EDrop (i : id).

Definition history := list event.

(** Configuration after the constructor's own clamping. *)
Record config := { qcap : nat; maxb : nat; blocking : bool }.
Definition wf_config (c : config) : Prop := 1 <= qcap c /\ 1 <= maxb c.
