(** C01 invariant, part B: conservation of spans (a multiset equation), distinctness,
    provenance of exported and dropped spans, the drop counter. *)
From Coq Require Import Permutation.
From Verif Require Import Lib.Base C01.Types C01.Model C01.Spec C01.Lts.
Local Open Scope nat_scope.

Definition pc_id (p : pc) : option id :=
  match p with PEnd0 i _ => Some i | PEnd1 i => Some i | _ => None end.
Definition pc_sampled (p : pc) : option id :=
  match p with PEnd0 i true => Some i | PEnd1 i => Some i | _ => None end.

(** where the spans that entered the processor are *)
Definition located (s : state) : list id :=
  queue_ids s ++ held_ids s ++ batch s ++ exported (hist s) ++ drops (hist s).

(** what an export / drop event must satisfy w.r.t. the events before it *)
Definition evB (c : config) (pre : history) (x : event) : Prop :=
  match x with
  | EExpBegin b d => (forall i, In i b -> In i (calls_end pre)) /\ d = length (drops pre)
  | EDrop i => blocking c = false /\ In i (calls_end pre) /\ ~ In i (drops pre)
  | _ => True
  end.

Record InvB (c : config) (s : state) : Prop := {
  B_perm : Permutation (entered s) (located s);
  B_nodup : NoDup (entered s);
  B_called : forall i, In i (entered s) -> In i (calls_end (hist s));
  B_pc : forall t i, pc_id (pcs s t) = Some i ->
           (id_called i (hist s) = true /\ ~ In i (entered s)) /\
           (forall u, pc_id (pcs s u) = Some i -> u = t);
  B_pcs : forall t i, pc_sampled (pcs s t) = Some i -> In i (calls_end (hist s));
  B_dropped : dropped s = length (drops (hist s));
  B_block : blocking c = true -> drops (hist s) = [];
  B_ev : forall pre x post, hist s = pre ++ x :: post -> evB c pre x
}.

Lemma initB c : InvB c init.
Proof.
  constructor; cbn; auto; try discriminate; try constructor; try contradiction.
  intros pre x post H. destruct pre; discriminate.
Qed.

(** Permutation bookkeeping for the moves of a span *)
Lemma perm_push {A} (e q r : list A) i :
  Permutation e (q ++ r) -> Permutation (e ++ [i]) ((q ++ [i]) ++ r).
Proof.
  intros H. rewrite <- app_assoc. cbn. apply Permutation_trans with (i :: e).
  - apply Permutation_sym, Permutation_cons_append.
  - apply Permutation_cons_app. exact H.
Qed.
Lemma perm_drop {A} (e q h b x d : list A) i :
  Permutation e (q ++ h ++ b ++ x ++ d) -> Permutation (e ++ [i]) (q ++ h ++ b ++ x ++ (d ++ [i])).
Proof.
  intros H. replace (q ++ h ++ b ++ x ++ d ++ [i]) with ((q ++ h ++ b ++ x ++ d) ++ [i])
    by now rewrite <- !app_assoc.
  now apply Permutation_app_tail.
Qed.
Lemma perm_recv {A} (e q r : list A) i :
  Permutation e ((i :: q) ++ [] ++ r) -> Permutation e (q ++ [i] ++ r).
Proof. cbn. intros H. eapply Permutation_trans; [exact H|]. apply Permutation_middle. Qed.
Lemma perm_append {A} (e q b r : list A) i :
  Permutation e (q ++ [i] ++ b ++ r) -> Permutation e (q ++ [] ++ (b ++ [i]) ++ r).
Proof.
  cbn. intros H. eapply Permutation_trans; [exact H|]. apply Permutation_app_head.
  rewrite <- app_assoc. cbn. apply Permutation_middle.
Qed.
Lemma perm_open {A} (e q h b x d : list A) :
  Permutation e (q ++ h ++ b ++ x ++ d) -> Permutation e (q ++ h ++ [] ++ (x ++ b) ++ d).
Proof.
  cbn. intros H. eapply Permutation_trans; [exact H|]. do 2 apply Permutation_app_head.
  rewrite <- app_assoc. apply Permutation_app_swap_app.
Qed.

Lemma queue_ids_snoc q x : flat_map item_ids (q ++ [x]) = flat_map item_ids q ++ item_ids x.
Proof. rewrite flat_map_app. cbn. now rewrite app_nil_r. Qed.

Lemma in_calls_end_app h e i : In i (calls_end h) -> In i (calls_end (h ++ [e])).
Proof. intros H. rewrite calls_end_app. apply in_or_app. now left. Qed.

Lemma id_called_app h e i : id_called i h = true -> id_called i (h ++ [e]) = true.
Proof. intros H. rewrite id_called_snoc, H. reflexivity. Qed.

Lemma entered_not_called c s i : InvB c s -> id_called i (hist s) = false -> ~ In i (entered s).
Proof.
  intros I H Hi. apply (B_called c s I) in Hi. apply calls_end_id_called in Hi. congruence.
Qed.

Lemma B_pc_upd (f : nat -> pc) t p (P P' : id -> Prop) :
  (forall u i, pc_id (f u) = Some i -> P i /\ forall v, pc_id (f v) = Some i -> v = u) ->
  (forall u i, u <> t -> pc_id (f u) = Some i -> P i -> pc_id p <> Some i /\ P' i) ->
  (forall i, pc_id p = Some i -> P' i) ->
  forall u i, pc_id (upd f t p u) = Some i ->
    P' i /\ forall v, pc_id (upd f t p v) = Some i -> v = u.
Proof.
  intros H1 H2 H3 u i Hu. destruct (Nat.eq_dec u t) as [->|Hne].
  - rewrite upd_same in Hu. split; [now apply H3|]. intros v Hv.
    destruct (Nat.eq_dec v t) as [->|Hv']; auto. rewrite upd_other in Hv by auto.
    destruct (H1 v i Hv) as [Pv _]. destruct (H2 v i Hv' Hv Pv) as [X _]. contradiction.
  - rewrite upd_other in Hu by auto.
    destruct (H1 u i Hu) as [Pu Uu]. destruct (H2 u i Hne Hu Pu) as [X Y]. split; auto.
    intros v Hv. destruct (Nat.eq_dec v t) as [->|Hv'].
    + rewrite upd_same in Hv. contradiction.
    + rewrite upd_other in Hv by auto. auto.
Qed.

Ltac sideB :=
  let u := fresh "u" in let j := fresh "j" in let Hu := fresh "Hu" in let Hne := fresh "Hne" in
  let Pa := fresh "Pa" in let Pb := fresh "Pb" in
  intros u j Hne Hu [Pa Pb]; split;
  [ cbn [pc_id]; try congruence; let E := fresh "E" in intros E; injection E as ->; apply Hne; eauto
  | split; [ rewrite ?id_called_snoc, ?Pa; auto
           | first [ assumption
                   | rewrite ?in_app_iff; cbn [In];
                     intros [?X|[?X|[]]]; [contradiction | subst; apply Hne; eauto] ] ] ].

Lemma nodup_snoc {A} (l : list A) x : NoDup l -> ~ In x l -> NoDup (l ++ [x]).
Proof.
  intros H Hx. induction l as [|y l IH]; cbn.
  - constructor; [intros []|constructor].
  - inversion H; subst. constructor.
    + rewrite in_app_iff. cbn. intros [X|[X|[]]]; [contradiction|]. subst. apply Hx. now left.
    + apply IH; auto. intros X. apply Hx. now right.
Qed.

Lemma in_located_entered s i e :
  Permutation e (flat_map item_ids (queue s) ++ held_ids s ++ batch s ++ exported (hist s) ++ drops (hist s)) ->
  In i (batch s) \/ In i (exported (hist s)) \/ In i (drops (hist s)) -> In i e.
Proof.
  intros Hp H. eapply Permutation_in; [apply Permutation_sym; exact Hp|].
  rewrite !in_app_iff. tauto.
Qed.

Lemma stepB c s a s' : InvB c s -> step c s a = Some s' -> InvB c s'.
Proof.
  intros I Hs. pose proof (entered_not_called c s) as Hnc. specialize (fun i => Hnc i I).
  destruct I as [Hp Hnd Hc Hpc Hps Hd Hbl Hev]. unfold located, queue_ids in Hp.
  pose proof (fun i => in_located_entered s i _ Hp) as Hle.
  unfold held_ids in Hp.
  destruct a as [t o|t|t|t|t|t|t ok| | | | | | |ok| ];
    try (pose proof (Hpc t) as Hpct; pose proof (Hps t) as Hpst).
  all: step_cases Hs.
  all: try (destruct (Hpct _ eq_refl) as [[Ta Tb] Tu]).
  all: try (pose proof (Hpst _ eq_refl) as Ts).
  all: cbn [app] in Hp.
  all: constructor; unfold located, queue_ids, held_ids in *; simp;
    rewrite ?exported_snoc, ?drops_snoc, ?queue_ids_snoc, ?calls_end_snoc, ?id_called_snoc;
    cbn [ev_exported ev_drop item_ids flat_map ev_call_end ev_any_end existsb];
    rewrite ?app_nil_r, ?orb_false_r; auto; rw_goal; fin.
  all: try solve [apply split_snoc; [assumption|]; cbn; auto].
  all: try solve [eapply B_pc_upd;
                  [ exact Hpc | sideB
                  | cbn [pc_id]; try discriminate;
                    let E := fresh in intros ? E; injection E as <-; split; auto ]].
  all: try solve [intros u j H; upd_case u t;
                  [ cbn [pc_sampled] in H; try discriminate; try (injection H as <-);
                    rewrite ?in_app_iff; cbn; auto
                  | rewrite ?in_app_iff; eauto ]].
  all: try solve [apply perm_push; exact Hp | apply perm_drop; exact Hp | apply perm_open; exact Hp].
  all: try solve [apply nodup_snoc; assumption].
  all: try solve [intros j Hj; apply in_app_iff in Hj as [Hj|[<-|[]]]; rewrite ?in_app_iff; auto].
  all: try solve [rewrite app_length; cbn; lia].
  all: try solve [intros j Hj; apply in_app_iff; left; auto].
  all: try solve [intros u j H; destruct (Hpc u j H) as [[A B] C]; rewrite id_called_snoc, A; auto].
  all: try solve [destruct sampled; intros u j H; upd_case u t;
                  [ cbn [pc_sampled] in H; try discriminate; try (injection H as <-);
                    rewrite ?in_app_iff; cbn; auto
                  | rewrite ?in_app_iff; eauto ]].
  all: try solve [cbn [flat_map item_ids app] in Hp; apply perm_recv; exact Hp].
  all: try solve [destruct k; cbn [wcont app] in *; rw_goal; exact Hp].
  - (* ACall OpEnd: the fresh id *)
    eapply B_pc_upd; [exact Hpc| |].
    + intros u j Hne Hu [Pa Pb]. split.
      * cbn [pc_id]. intros E. injection E as ->. congruence.
      * split; [rewrite id_called_snoc, Pa; auto|assumption].
    + cbn [pc_id]. intros j E. injection E as <-. split.
      * rewrite id_called_snoc. cbn. rewrite N.eqb_refl. now rewrite orb_true_r.
      * now apply Hnc.
  - intros u j H. upd_case u t.
    + destruct sampled; cbn [pc_sampled] in H; [|discriminate]. injection H as <-.
      apply in_app_iff. right. now left.
    + apply in_app_iff. left. eauto.
  - apply split_snoc; [assumption|]. cbn. repeat split; auto.
    intros X. apply Tb. apply Hle. auto.
Qed.

Lemma runB c : forall sch s0 s, InvB c s0 -> run_from c s0 sch = Some s -> InvB c s.
Proof.
  induction sch as [|a r IH]; cbn; intros s0 s Hi H.
  - now inversion H; subst.
  - destruct (step c s0 a) eqn:E; [|discriminate]. eapply IH; [|exact H]. eapply stepB; eauto.
Qed.
