(** C01 invariant, part E: what a ForceFlush guarantees.  For a flusher t whose context
    has not ended and before which no Shutdown was invoked, the spans whose End returned
    before t's call (F t) are: ahead of t's marker in the queue, held by the worker, in
    the batch or handed over while t waits; in the batch or handed over once the marker
    was processed; handed over once t's helper has passed exportSpans. *)
From Coq Require Import Permutation.
From Verif Require Import Lib.Base C01.Types C01.Model C01.Spec C01.Lts
  C01.InvA C01.InvB C01.InvC C01.InvD.
Local Open Scope nat_scope.

Definition F (t : nat) (s : state) : list id := ended (before_call t (hist s)).

Definition InB (s : state) (l : list id) : Prop :=
  forall i, In i l -> In i (batch s ++ exported (hist s) ++ drops (hist s)).
Definition InX (s : state) (l : list id) : Prop :=
  forall i, In i l -> In i (exported (hist s) ++ drops (hist s)).
Definition InQ (s : state) (t : nat) (l : list id) : Prop :=
  exists q1 q2, queue s = q1 ++ IMark t :: q2 /\ ~ In (IMark t) q1 /\
    forall i, In i l ->
      In i (flat_map item_ids q1 ++ held_ids s ++ batch s ++ exported (hist s) ++ drops (hist s)).

Definition flush_early (p : pc) : bool :=
  match p with PIdle | PFl0 | PFl1 | PFl2 => true | _ => false end.

Definition evE (pre : history) (x : event) : Prop :=
  match x with
  | ERet t OpFlush RNil false => sd_called pre = false -> Visible (ended (before_call t pre)) pre
  | _ => True
  end.

Record InvE (s : state) : Prop := {
  E_early : forall t, flush_early (pcs s t) = true ->
            flushed s t = false /\ ~ In (IMark t) (queue s);
  E_wait : forall t, pcs s t = PFl3 -> expired s t = false -> sd_called (hist s) = false ->
           if flushed s t then InB s (F t s) else InQ s t (F t s);
  E_batch : forall t, pcs s t = PFl4 \/ (pcs s t = PFl5 /\ hpc s t = HReady) ->
            expired s t = false -> sd_called (hist s) = false -> InB s (F t s);
  E_done : forall t, (pcs s t = PFl5 /\ (hpc s t = HExp \/ exists ok, hpc s t = HDone ok)) \/
                     pcs s t = PRet OpFlush RNil ->
           expired s t = false -> sd_called (hist s) = false -> InX s (F t s);
  E_ret : forall pre x post, hist s = pre ++ x :: post -> evE pre x
}.

Lemma initE : InvE init.
Proof.
  constructor; cbn; auto; intros; try discriminate; try (destruct pre; discriminate).
  all: try (destruct H as [H|[H _]]; discriminate).
  all: try (destruct H as [[H _]|H]; discriminate).
Qed.

Lemma F_snoc t h e : existsb (is_call_of t) h = true ->
  before_call t (h ++ [e]) = before_call t h.
Proof. intros H. unfold before_call. now apply before_app_found. Qed.

Lemma F_first t h o : existsb (is_call_of t) h = false ->
  before_call t (h ++ [ECall t o]) = h.
Proof.
  intros H. unfold before_call. rewrite before_app_none by auto. cbn.
  rewrite Nat.eqb_refl. now rewrite app_nil_r.
Qed.

Ltac feed H :=
  repeat match type of H with
         | ?P -> _ => let p := fresh "p" in
                      assert (p : P) by (first [assumption | congruence | tauto | reflexivity]);
                      specialize (H p); clear p
         end.

Lemma not_called_facts s : InvC s -> sd_called (hist s) = false ->
  stopped s = false /\ stopch s = false /\ w_draining (wpc s) = false.
Proof.
  intros IC H.
  assert (A : stopped s = false).
  { destruct (stopped s) eqn:E; auto. apply (C_stopped s IC) in E. congruence. }
  assert (B : stopch s = false).
  { destruct (stopch s) eqn:E; auto. apply (C_stopch s IC) in E. congruence. }
  repeat split; auto.
  destruct (w_draining (wpc s)) eqn:E; auto. apply (C_drain s IC) in E. congruence.
Qed.

Definition memB (s : state) (i : id) : Prop := In i (batch s ++ exported (hist s) ++ drops (hist s)).
Definition memX (s : state) (i : id) : Prop := In i (exported (hist s) ++ drops (hist s)).
Definition memH (s : state) (i : id) : Prop :=
  In i (held_ids s ++ batch s ++ exported (hist s) ++ drops (hist s)).

Lemma InB_mono s s' l : (forall i, memB s i -> memB s' i) -> InB s l -> InB s' l.
Proof. intros H HB i Hi. apply H, HB, Hi. Qed.
Lemma InX_mono s s' l : (forall i, memX s i -> memX s' i) -> InX s l -> InX s' l.
Proof. intros H HB i Hi. apply H, HB, Hi. Qed.

Lemma InQ_mono s s' u l q :
  queue s' = queue s ++ q -> ~ In (IMark u) q \/ True ->
  (forall i, memH s i -> memH s' i) -> InQ s u l -> InQ s' u l.
Proof.
  intros Hq _ Hm [q1 [q2 [E [N H]]]]. exists q1, (q2 ++ q). split.
  - rewrite Hq, E, <- app_assoc. reflexivity.
  - split; auto. intros i Hi. specialize (H i Hi). apply in_app_iff in H as [H|H].
    + apply in_app_iff. now left.
    + apply in_app_iff. right. now apply Hm.
Qed.

Lemma wait_mono s s' u q f' l' :
  queue s' = queue s ++ q -> f' = flushed s u -> l' = F u s ->
  (forall i, memB s i -> memB s' i) -> (forall i, memH s i -> memH s' i) ->
  (if flushed s u then InB s (F u s) else InQ s u (F u s)) ->
  (if f' then InB s' l' else InQ s' u l').
Proof.
  intros Hq -> -> HB HH H. destruct (flushed s u).
  - eapply InB_mono; eauto.
  - eapply InQ_mono; eauto.
Qed.

(* the worker receives the head of the queue *)
Lemma InQ_pop_span s s' u l j q :
  queue s = ISpan j :: q -> queue s' = q ->
  (forall i, i = j \/ memH s i -> memH s' i) -> InQ s u l -> InQ s' u l.
Proof.
  intros Hq Hq' Hm [q1 [q2 [E [N H]]]]. rewrite Hq in E.
  destruct q1 as [|x q1]; cbn in E; [discriminate|]. injection E as <- E.
  exists q1, q2. split; [congruence|]. split; [intros X; apply N; now right|].
  intros i Hi. specialize (H i Hi). cbn in H. apply in_app_iff.
  destruct H as [H|H]; [right; apply Hm; left; now subst|].
  apply in_app_iff in H as [H|H]; [now left|right; apply Hm; now right].
Qed.

Lemma InQ_pop_mark s s' u l m q :
  queue s = IMark m :: q -> queue s' = q -> m <> u ->
  (forall i, memH s i -> memH s' i) -> InQ s u l -> InQ s' u l.
Proof.
  intros Hq Hq' Hne Hm [q1 [q2 [E [N H]]]]. rewrite Hq in E.
  destruct q1 as [|x q1]; cbn in E; [injection E as -> _; contradiction|]. injection E as <- E.
  exists q1, q2. split; [congruence|]. split; [intros X; apply N; now right|].
  intros i Hi. specialize (H i Hi). cbn in H. apply in_app_iff.
  apply in_app_iff in H as [H|H]; [now left|right; now apply Hm].
Qed.

Lemma InQ_pop_own s s' u l q :
  queue s = IMark u :: q -> held_ids s = [] ->
  (forall i, memB s i -> memB s' i) -> InQ s u l -> InB s' l.
Proof.
  intros Hq Hh Hm [q1 [q2 [E [N H]]]]. rewrite Hq in E.
  destruct q1 as [|x q1]; cbn in E.
  - intros i Hi. specialize (H i Hi). cbn in H. rewrite Hh in H. apply Hm. exact H.
  - injection E as <- E. exfalso. apply N. now left.
Qed.

Ltac mono_tac :=
  let i := fresh "i" in
  intros i; unfold memB, memX, memH, held_ids; simp;
  rewrite ?exported_snoc, ?drops_snoc; cbn [ev_exported ev_drop];
  rewrite ?app_nil_r; rw_goal; rewrite ?in_app_iff; cbn [In]; rewrite ?in_app_iff; tauto.

Ltac normE Hcalled :=
  repeat match goal with
         | H : sd_called (_ ++ [_]) = false |- _ =>
             rewrite sd_called_snoc in H; apply orb_false_iff in H as [H ?]
         end.

Ltac kill_or H :=
  repeat match type of H with
         | _ \/ _ => destruct H as [H|H]
         | _ /\ _ => let H2 := fresh "Hh" in destruct H as [H H2]
         end.

Ltac tE_early Hea :=
  let u := fresh "u" in let Hu := fresh "Hu" in
  intros u Hu; upd_all; cbn [flush_early] in Hu;
  first [ discriminate Hu
        | match goal with
          | |- _ /\ ~ In (IMark ?v) _ =>
              destruct (Hea v) as [?E1 ?E2]; [first [exact Hu | rw_goal; reflexivity]|]
          end;
          cbn [In] in *; split;
          [ first [assumption | upd_all; first [assumption | exfalso; tauto]]
          | rewrite ?in_app_iff; cbn [In]; intuition congruence ] ].

Ltac wait_other Hw Hcalled u :=
  match goal with |- if flushed ?s0 _ then _ else _ => eapply (wait_mono s0 _ u) end;
  [ simp; first [reflexivity | symmetry; apply app_nil_r]
  | simp; reflexivity
  | unfold F; simp; try (rewrite F_snoc by (apply Hcalled; congruence)); reflexivity
  | mono_tac | mono_tac
  | apply Hw; assumption ].

Ltac batch_other Hb Hcalled Hu :=
  eapply InB_mono; cycle 1;
  [ unfold F; simp; try (rewrite F_snoc by (apply Hcalled; kill_or Hu; congruence));
    apply Hb; first [assumption | tauto]
  | mono_tac ].

Ltac done_other Hd Hcalled Hu :=
  eapply InX_mono; cycle 1;
  [ unfold F; simp; try (rewrite F_snoc by (apply Hcalled; kill_or Hu; congruence));
    apply Hd; first [assumption | tauto]
  | mono_tac ].

Lemma F_located c s t j :
  InvB c s -> InvD s -> sd_called (hist s) = false -> In j (F t s) -> In j (located s).
Proof.
  intros IB ID Hsd Hj. apply (Permutation_in _ (B_perm c s IB)). apply (D_ended s ID).
  unfold Z, before_sd. rewrite before_none by exact Hsd.
  unfold F in Hj. eapply ended_before_incl; eauto.
Qed.

Ltac tE_wait Hw Hcalled :=
  let u := fresh "u" in let Hu := fresh "Hu" in let He := fresh "He" in let Hsd := fresh "Hsd" in
  intros u Hu He Hsd; upd_all; try discriminate Hu; normE Hcalled;
  match goal with |- if flushed ?s0 _ then _ else _ => eapply (wait_mono s0 _ u) end;
  [ simp; first [reflexivity | symmetry; apply app_nil_r]
  | simp; reflexivity
  | unfold F; simp; try (rewrite F_snoc by (apply Hcalled; congruence)); reflexivity
  | mono_tac | mono_tac
  | apply Hw; assumption ].

Ltac tE_batch Hb Hcalled :=
  let u := fresh "u" in let Hu := fresh "Hu" in let He := fresh "He" in let Hsd := fresh "Hsd" in
  intros u Hu He Hsd; upd_all; try (kill_or Hu; discriminate); normE Hcalled;
  eapply InB_mono; cycle 1;
  [ unfold F; simp; try (rewrite F_snoc by (apply Hcalled; kill_or Hu; congruence));
    apply Hb; assumption
  | mono_tac ].

Ltac tE_done Hd Hcalled :=
  let u := fresh "u" in let Hu := fresh "Hu" in let He := fresh "He" in let Hsd := fresh "Hsd" in
  intros u Hu He Hsd; upd_all; try (kill_or Hu; discriminate); normE Hcalled;
  eapply InX_mono; cycle 1;
  [ unfold F; simp; try (rewrite F_snoc by (apply Hcalled; kill_or Hu; congruence));
    apply Hd; assumption
  | mono_tac ].

Lemma stepE c s a s' :
  InvA c s -> InvB c s -> InvC s -> InvD s -> InvE s -> step c s a = Some s' -> InvE s'.
Proof.
  intros IA IB IC ID [Hea Hw Hb Hd Hr] Hs.
  assert (Hcalled : forall u, pcs s u <> PIdle -> existsb (is_call_of u) (hist s) = true).
  { intros u Hu. destruct (existsb (is_call_of u) (hist s)) eqn:E; auto.
    apply (C_called s IC) in E. contradiction. }
  pose proof (not_called_facts s IC) as Hncf.
  destruct a as [t o|t|t|t|t|t|t ok| | | | | | |ok| ].
  all: step_cases Hs.
  all: constructor; simp; auto; rw_goal; fin.
  all: try solve [apply split_snoc; [assumption|]; cbn; auto].
  all: try solve [tE_early Hea].
  all: try solve [tE_wait Hw Hcalled].
  all: try solve [tE_batch Hb Hcalled].
  all: try solve [tE_done Hd Hcalled].
  (* contradictions with "no Shutdown was invoked" *)
  all: try solve [intros u Hu He Hsd; destruct (Hncf Hsd) as [N1 [N2 N3]]; cbn in *; congruence].
  all: try solve [intros u Hu He Hsd; normE Hcalled; destruct (Hncf Hsd) as [N1 [N2 N3]]; cbn in *; congruence].
  (* PFl2 -> PFl3: the marker is queued *)
  - intros u Hu He Hsd. upd_case u t.
    + destruct (Hea t) as [E1 E2]; [rewrite Heqp; reflexivity|]. rewrite E1.
      exists (queue s), []. split; [reflexivity|]. split; [exact E2|].
      intros j Hj. unfold F in Hj. simp.
      pose proof (F_located c s t j IB ID Hsd Hj) as X. unfold located, queue_ids in X. exact X.
    + wait_other Hw Hcalled u.
  (* PFl3 -> PFl4: the marker was processed *)
  - intros u Hu He Hsd. upd_case u t.
    + pose proof (Hw t Heqp He Hsd) as X. rewrite Heqb in X. exact X.
    + batch_other Hb Hcalled Hu.
  (* PFl4 -> PFl5: the helper is spawned *)
  - intros u Hu He Hsd. upd_case u t.
    + apply (Hb t); auto.
    + batch_other Hb Hcalled Hu.
  - intros u Hu He Hsd. upd_case u t.
    + exfalso. destruct Hu as [[_ [X|[ok X]]]|X]; discriminate.
    + done_other Hd Hcalled Hu.
  (* PFl5 -> PRet nil: the helper reported success *)
  - intros u Hu He Hsd. upd_case u t.
    + apply (Hd t); auto. left. split; auto. right. now exists true.
    + done_other Hd Hcalled Hu.
  (* the return is logged *)
  - apply split_snoc; [assumption|]. destruct o; cbn; auto. destruct r; cbn; auto.
    destruct (expired s t) eqn:Ex; cbn; auto. intros Hsd j Hj.
    apply in_app_iff. apply (Hd t (or_intror Heqp) Ex Hsd j Hj).
  (* ACtx PFl2 -> PFl4: the context had ended *)
  - intros u Hu He Hsd. upd_case u t.
    + congruence.
    + batch_other Hb Hcalled Hu.
  (* AExpire *)
  - intros u Hu He Hsd. upd_case u t; [discriminate He|]. wait_other Hw Hcalled u.
  (* AHelper, empty batch *)
  - intros u Hu He Hsd. upd_case u t.
    + destruct Hu as [Hu|[_ Hu]]; [|discriminate]. apply (Hb t); auto.
    + batch_other Hb Hcalled Hu.
  - intros u Hu He Hsd. upd_case u t.
    + destruct Hu as [[Hu _]|Hu].
      * intros j Hj. pose proof (Hb t (or_intror (conj Hu Heqh)) He Hsd j Hj) as X.
        rewrite Heql in X. exact X.
      * apply (Hd t); auto.
    + done_other Hd Hcalled Hu.
  (* AHelper, export opened *)
  - intros u Hu He Hsd. normE Hcalled. upd_case u t.
    + destruct Hu as [Hu|[_ Hu]]; [|discriminate].
      eapply InB_mono; cycle 1;
        [ unfold F; simp; rewrite F_snoc by (apply Hcalled; congruence); apply (Hb t); auto
        | mono_tac ].
    + batch_other Hb Hcalled Hu.
  - intros u Hu He Hsd. normE Hcalled. upd_case u t.
    + destruct Hu as [[Hu _]|Hu].
      * intros j Hj. unfold F in Hj. simp. rewrite F_snoc in Hj by (apply Hcalled; congruence).
        pose proof (Hb t (or_intror (conj Hu Heqh)) He Hsd j Hj) as X.
        rewrite exported_snoc. cbn [ev_exported]. rewrite drops_snoc. cbn [ev_drop].
        rewrite ?app_nil_r, ?Heql. rewrite ?Heql in X. rewrite !in_app_iff in *. cbn [In] in *. tauto.
      * done_other Hd Hcalled Hu.
    + done_other Hd Hcalled Hu.
  (* AHelperEnd *)
  - intros u Hu He Hsd. normE Hcalled. upd_case u t.
    + destruct Hu as [Hu|[_ Hu]]; [|discriminate].
      eapply InB_mono; cycle 1;
        [ unfold F; simp; rewrite F_snoc by (apply Hcalled; congruence); apply (Hb t); auto
        | mono_tac ].
    + batch_other Hb Hcalled Hu.
  - intros u Hu He Hsd. normE Hcalled. upd_case u t.
    + eapply InX_mono; cycle 1;
        [ unfold F; simp; rewrite F_snoc by (apply Hcalled; kill_or Hu; congruence); apply (Hd t); auto;
          destruct Hu as [[Hu _]|Hu]; [left; split; auto|right; auto]
        | mono_tac ].
    + done_other Hd Hcalled Hu.
  (* AWRecv: a span *)
  - intros u Hu He Hsd. pose proof (Hw u Hu He Hsd) as X. simp. destruct (flushed s u).
    + eapply (InB_mono s); [mono_tac|exact X].
    + eapply (InQ_pop_span s _ u _ i0 l); [exact Heql|reflexivity| |exact X].
      intros j. unfold memH, held_ids. simp. rewrite Heqw. cbn [app In].
      intros [E|H]; [left; auto|right; exact H].
  (* AWRecv: a flush marker in processQueue *)
  - intros u Hu He Hsd. pose proof (Hw u Hu He Hsd) as X. simp.
    assert (Hh : held_ids s = []) by (unfold held_ids; rewrite Heqw; reflexivity).
    upd_case u m.
    + destruct (flushed s m).
      * eapply (InB_mono s); [mono_tac|exact X].
      * eapply (InQ_pop_own s _ m _ l); [exact Heql|exact Hh| |exact X]. mono_tac.
    + destruct (flushed s u).
      * eapply (InB_mono s); [mono_tac|exact X].
      * eapply (InQ_pop_mark s _ u _ m l); [exact Heql|reflexivity|congruence| |exact X]. mono_tac.
Qed.
