(** C01 correspondence: evaluates the model and the specification on what the Go
    harness observed from the real batch span processor (generated case files import
    this).  Deterministic fragment: an op list is turned into a model schedule by the
    eager-worker scheduler below and the model's observations must equal the
    implementation's.  Every recorded history (deterministic or free-running) is judged
    by the same [spec_ok] the theorems of Properties.v are about. *)
From Verif Require Import Lib.Base C01.Types C01.Model C01.Spec.
Local Open Scope nat_scope.

(** ** Deterministic fragment: ops of the single driver goroutine *)
Inductive emode := MOk | MErr | MBlock.     (* what the gate exporter does with a call *)

Inductive dop :=
| DEnd (i : id) (smp : bool)   (* End a span (sampled or not) *)
| DFlush                       (* ForceFlush(context.Background()) *)
| DFlushX                      (* ForceFlush(already cancelled context) *)
| DFlushT                      (* ForceFlush(ctx) whose ctx ends while the call is blocked *)
| DShutdown                    (* Shutdown(context.Background()) *)
| DShutdownX                   (* Shutdown(ctx) whose ctx is done while the drain is blocked *)
| DMode (ok : bool)            (* gate: following exports return nil / an error *)
| DBlock                       (* gate: following exports block inside ExportSpans *)
| DUnblock                     (* gate: release the blocked export (returns nil); mode ok *)
| DFlushF                      (* as DFlushT, issued when the queue is full: the marker cannot be queued *)
| DWait.                       (* (short BatchTimeout) wait until the timer has exported what is batched *)

Definition mu_free (s : state) : bool := match mu s with None => true | Some _ => false end.

(** The next step of the background goroutines (worker, the current flush helper, the
    shutdown helper), if any is enabled: the worker never waits when it can move. *)
(** the flush helper goroutine that can move, if any: a helper can outlive its call (the caller's
    context ended while the helper was inside ExportSpans or waiting for batchMutex), so every
    caller id up to the current one is looked at *)
Fixpoint active_helper (n : nat) (s : state) : option nat :=
  let here := match hpc s n with HReady | HExp => Some n | _ => None end in
  match n with
  | O => here
  | S k => match here with Some _ => here | None => active_helper k s end
  end.

Definition bg_action (m : emode) (cur : nat) (s : state) : option action :=
  let w :=
    match wpc s with
    | WIdle false => if stopch s then Some AWStop
                     else match queue s with [] => None | _ :: _ => Some AWRecv end
    | WIdle true => match queue s with [] => Some AWDrainEmpty | _ :: _ => Some AWRecv end
    | WHold _ _ => if mu_free s then Some AWAppend else None
    | WExp _ => if mu_free s then Some AWExpOpen else None
    | WInExp _ => match m with MOk => Some (AWExpEnd true) | MErr => Some (AWExpEnd false) | MBlock => None end
    | WFin => None
    end in
  match w with
  | Some a => Some a
  | None =>
      let h :=
        match active_helper cur s with
        | Some u =>
            match hpc s u with
            | HReady => if mu_free s then Some (AHelper u) else None
            | HExp => match m with MOk => Some (AHelperEnd u true) | MErr => Some (AHelperEnd u false) | MBlock => None end
            | _ => None
            end
        | None => None
        end in
      match h with
      | Some a => Some a
      | None =>
          match hsd s with
          | HS0 => Some ASdH
          | HS1 => match wpc s with WFin => Some ASdH | _ => None end
          | _ => None
          end
      end
  end.

Fixpoint settle (fuel : nat) (c : config) (m : emode) (cur : nat) (s : state) : option state :=
  match fuel with
  | O => None
  | S f =>
      match bg_action m cur s with
      | None => Some s
      | Some a => match step c s a with Some s' => settle f c m cur s' | None => None end
      end
  end.

Definition settle_fuel (c : config) : nat := 6 * qcap c + 6 * maxb c + 60.

(** Run caller t to its return; [lazy]: when it is blocked, its context ends. *)
Fixpoint drive (fuel : nat) (c : config) (m : emode) (lazy : bool) (t : nat) (s : state) : option state :=
  match fuel with
  | O => None
  | S f =>
      match settle (settle_fuel c) c m t s with
      | None => None
      | Some s1 =>
          match pcs s1 t with
          | PDone => Some s1
          | _ =>
              match step c s1 (AStep t) with
              | Some s2 => drive f c m lazy t s2
              | None =>
                  if lazy then
                    match step c s1 (AExpire t) with
                    | Some s2 => match step c s2 (ACtx t) with
                                 | Some s3 => drive f c m lazy t s3
                                 | None => None
                                 end
                    | None => None
                    end
                  else None
              end
          end
      end
  end.

Definition call (c : config) (m : emode) (lazy pre_expired : bool) (t : nat) (o : op) (s : state) : option state :=
  let s0 := if pre_expired then step c s (AExpire t) else Some s in
  match s0 with
  | None => None
  | Some s0 => match step c s0 (ACall t o) with
               | Some s1 => drive 24 c m lazy t s1
               | None => None
               end
  end.

Definition exec_op (c : config) (t : nat) (o : dop) (ms : emode * state) : option (emode * state) :=
  let '(m, s) := ms in
  let keep (r : option state) := match r with Some s' => Some (m, s') | None => None end in
  match o with
  | DEnd i smp => keep (call c m false false t (OpEnd i smp) s)
  | DFlush => keep (call c m false false t OpFlush s)
  | DFlushX => keep (call c m false true t OpFlush s)
  | DFlushT => keep (call c m true false t OpFlush s)
  | DFlushF => keep (call c m true false t OpFlush s)
  | DShutdown => keep (call c m false false t OpShutdown s)
  | DShutdownX => keep (call c m true false t OpShutdown s)
  | DMode ok => Some (if ok then MOk else MErr, s)
  | DBlock => Some (MBlock, s)
  | DUnblock => match settle (settle_fuel c) c MOk t s with Some s' => Some (MOk, s') | None => None end
  | DWait =>
      match settle (settle_fuel c) c m t s with
      | None => None
      | Some s1 =>
          match step c s1 AWTimer with
          | Some s2 => keep (settle (settle_fuel c) c m t s2)
          | None => Some (m, s1)
          end
      end
  end.

Fixpoint exec_ops (c : config) (t : nat) (ops : list dop) (ms : emode * state) : option (emode * state) :=
  match ops with
  | [] => Some ms
  | o :: r => match exec_op c t o ms with Some ms' => exec_ops c (S t) r ms' | None => None end
  end.

Definition run_det (c : config) (ops : list dop) : option state :=
  match exec_ops c 0 ops (MOk, init) with Some (_, s) => Some s | None => None end.

(** ** Observations compared in the deterministic fragment *)
Definition ev_ret (e : event) : list ret :=
  match e with ERet _ OpFlush r _ => [r] | ERet _ OpShutdown r _ => [r] | _ => [] end.
Definition ev_batch (e : event) : list (list id * nat) :=
  match e with EExpBegin b d => [(b, d)] | _ => [] end.
Definition ev_expsd (e : event) : list unit := match e with EExpShutdown => [tt] | _ => [] end.

Definition ret_eqb (a b : ret) : bool :=
  match a, b with RNil, RNil | RCtx, RCtx | ROther, ROther => true | _, _ => false end.
Definition ids_eqb : list id -> list id -> bool := list_eqb N.eqb.
Definition batch_eqb (dobs : bool) (a b : list id * nat) : bool :=
  ids_eqb (fst a) (fst b) && (negb dobs || Nat.eqb (snd a) (snd b)).

Definition obs_match (dobs : bool) (hm : history) (rets : list ret) (bs : list (list id * nat)) (nsd : nat) : bool :=
  list_eqb ret_eqb (flat_map ev_ret hm) rets &&
  list_eqb (batch_eqb dobs) (flat_map ev_batch hm) bs &&
  Nat.eqb (length (flat_map ev_expsd hm)) nsd.

(** ** Well-formedness of a recorded history (a harness sanity check, not a property
    of the implementation): call ids are used once, returns match calls, span ids are
    fresh. *)
Definition op_eqb (a b : op) : bool :=
  match a, b with
  | OpEnd i s, OpEnd j s' => N.eqb i j && Bool.eqb s s'
  | OpFlush, OpFlush | OpShutdown, OpShutdown => true
  | _, _ => false
  end.
Definition wf_at (pre : history) (e : event) (post : history) : bool :=
  match e with
  | ECall t o =>
      negb (existsb (is_call_of t) pre) &&
      match o with OpEnd i _ => negb (id_called i pre) | _ => true end
  | ERet t o _ _ =>
      existsb (fun e' => match e' with ECall t' o' => Nat.eqb t' t && op_eqb o' o | _ => false end) pre &&
      negb (existsb (fun e' => match e' with ERet t' _ _ _ => Nat.eqb t' t | _ => false end) pre)
  | _ => true
  end.
Definition wf_hist (h : history) : bool := all_splits wf_at h.

(** ** Compact constructors for generated case files (numbers are written as [N]) *)
Definition eC (t : N) (o : op) : event := ECall (N.to_nat t) o.
Definition eR (t : N) (o : op) (r : ret) (x : bool) : event := ERet (N.to_nat t) o r x.
Definition eB (b : list id) (d : N) : event := EExpBegin b (N.to_nat d).
Definition eE (ok : bool) : event := EExpEnd ok.
Definition eS : event := EExpShutdown.
Definition eD (i : id) : event := EDrop i.
Definition oE (i : id) (s : bool) : op := OpEnd i s.
Definition mkc (q m : N) (b : bool) : config := {| qcap := N.to_nat q; maxb := N.to_nat m; blocking := b |}.
Definition bD (b : list id) (d : N) : list id * nat := (b, N.to_nat d).

(** ** Cases *)
(** [dobs]: the harness could read the drop counter (the "exporting spans" debug line);
    when false the [d] fields are not compared and the drop-count clause is skipped. *)
Definition spec_ok' (dobs : bool) (c : config) (h : history) : bool :=
  if dobs then spec_ok c h
  else no_dup_ok h && batch_bound_ok c h && exclusive_ok h && provenance_ok c h &&
       flush_vis_ok h && sd_drains_ok h && quiet_ok h.

(** ** ForceFlush whose marker is known to be queued.
    [DFlushT] is issued with room in the queue and a context that ends only at the select AFTER the
    marker was sent; the two excuses for a nil return without visibility (a Shutdown invoked before,
    F-C01-1b; the marker never queued because the context ended first) are excluded by construction, so
    the property's clause applies literally to such a call whatever the state of its context:
    returned nil => every sampled span ended before the call is exported or dropped-and-counted. *)
Definition is_call_op (o : dop) : bool :=
  match o with DMode _ | DBlock | DUnblock | DWait => false | _ => true end.
Fixpoint marked_flushes (t : nat) (ops : list dop) : list nat :=
  match ops with
  | [] => []
  | o :: r => (match o with DFlushT => [t] | _ => [] end) ++
              marked_flushes (if is_call_op o then S t else t) r
  end.
Definition marked_flush_ok (ops : list dop) (h : history) : bool :=
  let ts := marked_flushes 0 ops in
  all_splits (fun pre e _ =>
    match e with
    | ERet t OpFlush RNil _ =>
        negb (existsb (Nat.eqb t) ts) || sd_called pre || visible (ended (before_call t pre)) pre
    | _ => true
    end) h.

Inductive case :=
| CDet (c : config) (dobs : bool) (ops : list dop)
       (rets : list ret) (batches : list (list id * nat)) (nsd : N) (h : history)
| CFree (c : config) (dobs : bool) (h : history)
(** deterministic program run with a short real BatchTimeout: the timer may cut batches anywhere,
    so only the concatenation of the batches (FIFO, nothing lost or doubled), the returns and the
    history are judged (one-sided w.r.t. timing) *)
| CDetT (c : config) (dobs : bool) (ops : list dop) (rets : list ret) (ids : list id) (nsd : N) (h : history)
(** drop storm: [ended] sampled spans were ended by many goroutines at once on a full non-blocking
    queue (all Ends returned), then everything was flushed and one more span exported, so the counter
    read at the last export is final.  Quiescent reading of the accounting clauses of Spec.v (every
    ended sampled span is exported exactly once or dropped AND counted): with every End returned
    before that read, [drop_account]'s two bounds meet: exported + counter = ended. *)
| CStorm (c : config) (ended : N) (batches : list (list id * nat)).

Definition flag (b : bool) (code : N) : list N := if b then [] else [code].

(** Known finding F-C01-1: code 1 = shape (a) second Shutdown, code 2 = shape (b) ForceFlush
    during Shutdown.  They are reported in addition to the verdict of [spec_ok] (whose
    clauses carry the guards, so these shapes do not fail it). *)
Definition judge (dobs : bool) (c : config) (h : history) : list N :=
  flag (wf_hist h) V_MISMATCH ++
  flag (spec_ok' dobs c h) V_SPECFAIL ++
  flag (negb (known_sd h)) (V_KNOWN 1) ++
  flag (negb (known_flush h)) (V_KNOWN 2).

Definition check_case (x : case) : list N :=
  match x with
  | CDet c dobs ops rets bs nsd h =>
      match run_det c ops with
      | Some s => flag (obs_match dobs (hist s) rets bs (N.to_nat nsd)) V_MISMATCH ++
                  flag (spec_ok c (hist s)) V_MODELSPEC
      | None => [V_MISMATCH]
      end ++ judge dobs c h ++ flag (marked_flush_ok ops h) V_SPECFAIL
  | CFree c dobs h => judge dobs c h
  | CStorm c ended bs =>
      let ids := flat_map fst bs in
      flag (nodupb ids &&
            forallb (fun b => (1 <=? length (fst b)) && (length (fst b) <=? maxb c)) bs &&
            N.eqb (N.of_nat (length ids + snd (last bs ([], 0)))) ended) V_SPECFAIL
  | CDetT c dobs ops rets ids nsd h =>
      match run_det c ops with
      | Some s => flag (list_eqb ret_eqb (flat_map ev_ret (hist s)) rets &&
                        ids_eqb (exported (hist s)) ids &&
                        Nat.eqb (length (flat_map ev_expsd (hist s))) (N.to_nat nsd)) V_MISMATCH ++
                  flag (spec_ok c (hist s)) V_MODELSPEC
      | None => [V_MISMATCH]
      end ++ judge dobs c h
  end.

Definition run (cs : list case) : list (N * N) := index_from 0%N check_case cs.

(** Smoke tests of the scheduler (the harness replays the same programs on the code). *)
Definition cfg22 : config := {| qcap := 2; maxb := 2; blocking := false |}.
Example det_ex1 :
  option_map (fun s => flat_map ev_batch (hist s))
    (run_det cfg22 [DEnd 1%N true; DEnd 2%N true; DEnd 3%N false; DEnd 4%N true; DFlush; DShutdown])
  = Some [([1%N; 2%N], 0); ([4%N], 0)].
Proof. vm_compute. reflexivity. Qed.
(* F-C01-1 (a): the exporter blocks, Shutdown(ctx done) gives up, a second Shutdown returns nil *)
Example det_ex2 :
  option_map (fun s => (flat_map ev_ret (hist s), known_sd (hist s), spec_ok cfg22 (hist s)))
    (run_det cfg22 [DBlock; DEnd 1%N true; DEnd 2%N true; DEnd 3%N true; DShutdownX; DShutdown; DFlush; DUnblock])
  = Some ([RCtx; RNil; RNil], true, true).
Proof. vm_compute. reflexivity. Qed.

(* a span appended while a flush helper's export is still in flight (caller's context ended, exporter
   blocked): B must wait for batchMutex and is exported afterwards, exactly once *)
Example det_ex3 :
  option_map (fun s => (flat_map ev_ret (hist s), flat_map ev_batch (hist s)))
    (run_det {| qcap := 2; maxb := 3; blocking := false |}
       [DEnd 1%N true; DBlock; DFlushT; DEnd 2%N true; DUnblock; DFlush; DShutdown])
  = Some ([RCtx; RNil; RNil], [([1%N], 0); ([2%N], 0)]).
Proof. vm_compute. reflexivity. Qed.
