(** C01 model: the batch span processor of sdk/trace/batch_span_processor.go as a
    labelled transition system.  One action = one atomic step of the code (a channel
    operation, an atomic load/store, a critical section under batchMutex, a sync.Once
    entry) taken by one goroutine; goroutines calling the API are numbered by [nat]
    (any number of them, one API call each), the worker goroutine, the helper goroutine
    of each ForceFlush and the helper goroutine of the winning Shutdown are separate
    components.  Context expiry, the exporter's outcome and the batch timer are
    adversarial actions.  Definitions only; the proofs are in Proofs.v. *)
From Verif Require Import Lib.Base C01.Types.
Local Open Scope nat_scope.

Inductive item := ISpan (i : id) | IMark (m : nat).   (* IMark m: flush marker of caller m *)

Inductive owner := OWorker | OHelper (t : nat).        (* who holds batchMutex *)

(** Continuation of the worker after exportSpans returns. *)
Inductive wk := KRun | KDrain | KFin.

(** Worker goroutine: processQueue ([d = false]) then drainQueue ([d = true]). *)
Inductive wstate :=
| WIdle (d : bool)             (* at the select of processQueue / drainQueue *)
| WHold (d : bool) (i : id)    (* received span i, next: lock, append, unlock *)
| WExp (k : wk)                (* next: exportSpans (lock; export if batch non-empty) *)
| WInExp (k : wk)              (* inside ExportSpans, holding batchMutex *)
| WFin.                        (* returned; stopWait.Done() *)

(** An API caller. *)
Inductive pc :=
| PIdle
| PEnd0 (i : id) (smp : bool)  (* OnEnd called; next: stopped.Load, sampled check *)
| PEnd1 (i : id)               (* passed both checks; next: channel send / drop *)
| PFl0                         (* ForceFlush: ctx.Err() check *)
| PFl1                         (* stopped.Load *)
| PFl2                         (* blocking send of the marker, or ctx.Done *)
| PFl3                         (* select stopCh / flushed / ctx.Done *)
| PFl4                         (* go exportSpans *)
| PFl5                         (* select wait / ctx.Done *)
| PSd0                         (* Shutdown: stopOnce.Do *)
| PSd1                         (* Once winner: select wait / ctx.Done *)
| PRet (o : op) (r : ret)      (* returning r (the caller logs the return afterwards) *)
| PDone.

(** Helper goroutine of a ForceFlush (runs exportSpans, may outlive the call). *)
Inductive hstate := HNone | HReady | HExp | HDone (ok : bool).

(** Helper goroutine of the winning Shutdown. *)
Inductive sdstate := HSNone | HS0 | HS1 | HSDone.

(** sync.Once; the winner's id and how its function ended are ghost information. *)
Inductive once_st := OFresh | ORunning (w : nat) | OFinished (w : nat) (clean : bool).

Record state := {
  queue : list item;
  dropped : nat;
  batch : list id;
  mu : option owner;
  stopped : bool;
  stopch : bool;
  once : once_st;
  flushed : nat -> bool;
  wpc : wstate;
  pcs : nat -> pc;
  hpc : nat -> hstate;
  hsd : sdstate;
  expired : nat -> bool;
  hist : history;
  entered : list id
}.

Definition set_queue (s : state) (v : list item) : state :=
  {| queue := v; dropped := dropped s; batch := batch s; mu := mu s; stopped := stopped s; stopch := stopch s; once := once s; flushed := flushed s; wpc := wpc s; pcs := pcs s; hpc := hpc s; hsd := hsd s; expired := expired s; hist := hist s; entered := entered s |}.
Definition set_dropped (s : state) (v : nat) : state :=
  {| queue := queue s; dropped := v; batch := batch s; mu := mu s; stopped := stopped s; stopch := stopch s; once := once s; flushed := flushed s; wpc := wpc s; pcs := pcs s; hpc := hpc s; hsd := hsd s; expired := expired s; hist := hist s; entered := entered s |}.
Definition set_batch (s : state) (v : list id) : state :=
  {| queue := queue s; dropped := dropped s; batch := v; mu := mu s; stopped := stopped s; stopch := stopch s; once := once s; flushed := flushed s; wpc := wpc s; pcs := pcs s; hpc := hpc s; hsd := hsd s; expired := expired s; hist := hist s; entered := entered s |}.
Definition set_mu (s : state) (v : option owner) : state :=
  {| queue := queue s; dropped := dropped s; batch := batch s; mu := v; stopped := stopped s; stopch := stopch s; once := once s; flushed := flushed s; wpc := wpc s; pcs := pcs s; hpc := hpc s; hsd := hsd s; expired := expired s; hist := hist s; entered := entered s |}.
Definition set_stopped (s : state) (v : bool) : state :=
  {| queue := queue s; dropped := dropped s; batch := batch s; mu := mu s; stopped := v; stopch := stopch s; once := once s; flushed := flushed s; wpc := wpc s; pcs := pcs s; hpc := hpc s; hsd := hsd s; expired := expired s; hist := hist s; entered := entered s |}.
Definition set_stopch (s : state) (v : bool) : state :=
  {| queue := queue s; dropped := dropped s; batch := batch s; mu := mu s; stopped := stopped s; stopch := v; once := once s; flushed := flushed s; wpc := wpc s; pcs := pcs s; hpc := hpc s; hsd := hsd s; expired := expired s; hist := hist s; entered := entered s |}.
Definition set_once (s : state) (v : once_st) : state :=
  {| queue := queue s; dropped := dropped s; batch := batch s; mu := mu s; stopped := stopped s; stopch := stopch s; once := v; flushed := flushed s; wpc := wpc s; pcs := pcs s; hpc := hpc s; hsd := hsd s; expired := expired s; hist := hist s; entered := entered s |}.
Definition set_flushed (s : state) (v : nat -> bool) : state :=
  {| queue := queue s; dropped := dropped s; batch := batch s; mu := mu s; stopped := stopped s; stopch := stopch s; once := once s; flushed := v; wpc := wpc s; pcs := pcs s; hpc := hpc s; hsd := hsd s; expired := expired s; hist := hist s; entered := entered s |}.
Definition set_wpc (s : state) (v : wstate) : state :=
  {| queue := queue s; dropped := dropped s; batch := batch s; mu := mu s; stopped := stopped s; stopch := stopch s; once := once s; flushed := flushed s; wpc := v; pcs := pcs s; hpc := hpc s; hsd := hsd s; expired := expired s; hist := hist s; entered := entered s |}.
Definition set_pcs (s : state) (v : nat -> pc) : state :=
  {| queue := queue s; dropped := dropped s; batch := batch s; mu := mu s; stopped := stopped s; stopch := stopch s; once := once s; flushed := flushed s; wpc := wpc s; pcs := v; hpc := hpc s; hsd := hsd s; expired := expired s; hist := hist s; entered := entered s |}.
Definition set_hpc (s : state) (v : nat -> hstate) : state :=
  {| queue := queue s; dropped := dropped s; batch := batch s; mu := mu s; stopped := stopped s; stopch := stopch s; once := once s; flushed := flushed s; wpc := wpc s; pcs := pcs s; hpc := v; hsd := hsd s; expired := expired s; hist := hist s; entered := entered s |}.
Definition set_hsd (s : state) (v : sdstate) : state :=
  {| queue := queue s; dropped := dropped s; batch := batch s; mu := mu s; stopped := stopped s; stopch := stopch s; once := once s; flushed := flushed s; wpc := wpc s; pcs := pcs s; hpc := hpc s; hsd := v; expired := expired s; hist := hist s; entered := entered s |}.
Definition set_expired (s : state) (v : nat -> bool) : state :=
  {| queue := queue s; dropped := dropped s; batch := batch s; mu := mu s; stopped := stopped s; stopch := stopch s; once := once s; flushed := flushed s; wpc := wpc s; pcs := pcs s; hpc := hpc s; hsd := hsd s; expired := v; hist := hist s; entered := entered s |}.
Definition set_hist (s : state) (v : history) : state :=
  {| queue := queue s; dropped := dropped s; batch := batch s; mu := mu s; stopped := stopped s; stopch := stopch s; once := once s; flushed := flushed s; wpc := wpc s; pcs := pcs s; hpc := hpc s; hsd := hsd s; expired := expired s; hist := v; entered := entered s |}.
Definition set_entered (s : state) (v : list id) : state :=
  {| queue := queue s; dropped := dropped s; batch := batch s; mu := mu s; stopped := stopped s; stopch := stopch s; once := once s; flushed := flushed s; wpc := wpc s; pcs := pcs s; hpc := hpc s; hsd := hsd s; expired := expired s; hist := hist s; entered := v |}.

Inductive action :=
| ACall (t : nat) (o : op)       (* the call is issued (logged before it starts) *)
| AStep (t : nat)                (* caller t takes its next ordinary step *)
| ACtx (t : nat)                 (* caller t takes the ctx.Done branch of its select *)
| AStop (t : nat)                (* flusher t takes the stopCh branch of its select *)
| AExpire (t : nat)              (* the context of caller t becomes done *)
| AHelper (t : nat)              (* flush helper of t: lock, export if non-empty *)
| AHelperEnd (t : nat) (ok : bool) (* the exporter returns to the flush helper of t *)
| AWStop                         (* worker: <-stopCh *)
| AWTimer                        (* worker: <-timer.C (any timeout value) *)
| AWRecv                         (* worker: <-queue *)
| AWAppend                       (* worker: lock; append; unlock *)
| AWDrainEmpty                   (* worker in drainQueue: default branch *)
| AWExpOpen                      (* worker: exportSpans up to the ExportSpans call *)
| AWExpEnd (ok : bool)           (* the exporter returns to the worker *)
| ASdH.                          (* shutdown helper: close(stopCh) / Wait + e.Shutdown + close(wait) *)

Definition upd {A} (f : nat -> A) (t : nat) (v : A) : nat -> A :=
  fun u => if Nat.eqb u t then v else f u.

Definition log (s : state) (e : event) : state := set_hist s (hist s ++ [e]).
Definition goto (s : state) (t : nat) (p : pc) : state := set_pcs s (upd (pcs s) t p).
Definition hgoto (s : state) (t : nat) (h : hstate) : state := set_hpc s (upd (hpc s) t h).

Definition wcont (k : wk) : wstate :=
  match k with KRun => WIdle false | KDrain => WIdle true | KFin => WFin end.

(** exportSpans up to the call of the exporter (batchMutex free, batch non-empty): the
    batch is handed over under the mutex.  The code clears [bsp.batch] after the
    exporter returned, still under the mutex; nobody can read it in between, so the
    model clears it here. *)
Definition open_export (s : state) (o : owner) : state :=
  set_batch (set_mu (log s (EExpBegin (batch s) (dropped s))) (Some o)) [].
Definition close_export (s : state) (ok : bool) : state :=
  set_mu (log s (EExpEnd ok)) None.

Definition ev_any_end (e : event) : list id :=
  match e with ECall _ (OpEnd i _) => [i] | _ => [] end.
Definition id_called (i : id) (h : history) : bool :=
  existsb (N.eqb i) (flat_map ev_any_end h).

Definition has_room (c : config) (s : state) : bool := length (queue s) <? qcap c.

Definition step (c : config) (s : state) (a : action) : option state :=
  match a with
  | ACall t o =>
      match pcs s t with
      | PIdle =>
          match o with
          | OpEnd i smp => if id_called i (hist s) then None
                           else Some (goto (log s (ECall t o)) t (PEnd0 i smp))
          | OpFlush => Some (goto (log s (ECall t o)) t PFl0)
          | OpShutdown => Some (goto (log s (ECall t o)) t PSd0)
          end
      | _ => None
      end
  | AExpire t => Some (set_expired s (upd (expired s) t true))
  | AStep t =>
      match pcs s t with
      | PEnd0 i smp =>
          if stopped s then Some (goto s t (PRet (OpEnd i smp) RNil))
          else if smp then Some (goto s t (PEnd1 i))
          else Some (goto s t (PRet (OpEnd i smp) RNil))
      | PEnd1 i =>
          if has_room c s
          then Some (goto (set_entered (set_queue s (queue s ++ [ISpan i])) (entered s ++ [i]))
                          t (PRet (OpEnd i true) RNil))
          else if blocking c then None
          else Some (goto (set_entered (set_dropped (log s (EDrop i)) (S (dropped s))) (entered s ++ [i]))
                          t (PRet (OpEnd i true) RNil))
      | PFl0 => if expired s t then Some (goto s t (PRet OpFlush RCtx)) else Some (goto s t PFl1)
      | PFl1 => if stopped s then Some (goto s t (PRet OpFlush RNil)) else Some (goto s t PFl2)
      | PFl2 => if has_room c s then Some (goto (set_queue s (queue s ++ [IMark t])) t PFl3) else None
      | PFl3 => if flushed s t then Some (goto s t PFl4) else None
      | PFl4 => Some (goto (hgoto s t HReady) t PFl5)
      | PFl5 => match hpc s t with
                | HDone ok => Some (goto s t (PRet OpFlush (if ok then RNil else ROther)))
                | _ => None
                end
      | PSd0 => match once s with
                | OFresh => Some (goto (set_hsd (set_stopped (set_once s (ORunning t)) true) HS0) t PSd1)
                | ORunning _ => None
                | OFinished _ _ => Some (goto s t (PRet OpShutdown RNil))
                end
      | PSd1 => match hsd s with
                | HSDone => Some (goto (set_once s (OFinished t true)) t (PRet OpShutdown RNil))
                | _ => None
                end
      | PRet o r => Some (goto (log s (ERet t o r (expired s t))) t PDone)
      | PIdle | PDone => None
      end
  | ACtx t =>
      if expired s t then
        match pcs s t with
        | PFl2 => Some (goto s t PFl4)
        | PFl3 => Some (goto s t (PRet OpFlush RCtx))
        | PFl5 => Some (goto s t (PRet OpFlush RCtx))
        | PSd1 => Some (goto (set_once s (OFinished t false)) t (PRet OpShutdown RCtx))
        | _ => None
        end
      else None
  | AStop t =>
      match pcs s t with
      | PFl3 => if stopch s then Some (goto s t (PRet OpFlush RNil)) else None
      | _ => None
      end
  | AHelper t =>
      match hpc s t, mu s with
      | HReady, None =>
          match batch s with
          | [] => Some (hgoto s t (HDone true))
          | _ :: _ => Some (hgoto (open_export s (OHelper t)) t HExp)
          end
      | _, _ => None
      end
  | AHelperEnd t ok =>
      match hpc s t with
      | HExp => Some (hgoto (close_export s ok) t (HDone ok))
      | _ => None
      end
  | AWStop =>
      match wpc s with
      | WIdle false => if stopch s then Some (set_wpc s (WIdle true)) else None
      | _ => None
      end
  | AWTimer =>
      match wpc s with
      | WIdle false => Some (set_wpc s (WExp KRun))
      | _ => None
      end
  | AWRecv =>
      match wpc s, queue s with
      | WIdle d, ISpan i :: q => Some (set_wpc (set_queue s q) (WHold d i))
      | WIdle false, IMark m :: q => Some (set_flushed (set_queue s q) (upd (flushed s) m true))
      | WIdle true, IMark m :: q => Some (set_queue s q)
      | _, _ => None
      end
  | AWAppend =>
      match wpc s, mu s with
      | WHold d i, None =>
          let b := batch s ++ [i] in
          let full := if d then length b =? maxb c else maxb c <=? length b in
          Some (set_wpc (set_batch s b)
                        (if full then WExp (if d then KDrain else KRun) else WIdle d))
      | _, _ => None
      end
  | AWDrainEmpty =>
      match wpc s, queue s with
      | WIdle true, [] => Some (set_wpc s (WExp KFin))
      | _, _ => None
      end
  | AWExpOpen =>
      match wpc s, mu s with
      | WExp k, None =>
          match batch s with
          | [] => Some (set_wpc s (wcont k))
          | _ :: _ => Some (set_wpc (open_export s OWorker) (WInExp k))
          end
      | _, _ => None
      end
  | AWExpEnd ok =>
      match wpc s with
      | WInExp k => Some (set_wpc (close_export s ok) (wcont k))
      | _ => None
      end
  | ASdH =>
      match hsd s with
      | HS0 => Some (set_hsd (set_stopch s true) HS1)
      | HS1 => match wpc s with
               | WFin => Some (set_hsd (log s EExpShutdown) HSDone)
               | _ => None
               end
      | _ => None
      end
  end.

Definition init : state :=
  {| queue := []; dropped := 0; batch := []; mu := None; stopped := false; stopch := false;
     once := OFresh; flushed := fun _ => false; wpc := WIdle false; pcs := fun _ => PIdle;
     hpc := fun _ => HNone; hsd := HSNone; expired := fun _ => false; hist := []; entered := [] |}.

Fixpoint run_from (c : config) (s : state) (sch : list action) : option state :=
  match sch with
  | [] => Some s
  | a :: r => match step c s a with Some s' => run_from c s' r | None => None end
  end.

Definition run (c : config) (sch : list action) : option state := run_from c init sch.

(** Where the spans that entered the processor are (model-side vocabulary of the
    conservation theorem). *)
Definition item_ids (x : item) : list id := match x with ISpan i => [i] | IMark _ => [] end.
Definition queue_ids (s : state) : list id := flat_map item_ids (queue s).
Definition held_ids (s : state) : list id :=
  match wpc s with WHold _ i => [i] | _ => [] end.
