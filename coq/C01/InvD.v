(** C01 invariant, part D: what a drain guarantees.  Every sampled span whose End
    returned before the first Shutdown call has entered the processor; once the worker
    has seen the queue empty in drainQueue they are all in the batch or handed over. *)
From Coq Require Import Permutation.
From Verif Require Import Lib.Base C01.Types C01.Model C01.Spec C01.Lts C01.InvA C01.InvB C01.InvC.
Local Open Scope nat_scope.

Definition Z (s : state) : list id := ended (before_sd (hist s)).

Definition evD (o : once_st) (pre : history) (x : event) : Prop :=
  match x with
  | ERet _ OpShutdown _ _ => forall w, o = OFinished w true -> Visible (ended (before_sd pre)) pre
  | _ => True
  end.

Record InvD (s : state) : Prop := {
  D_ret : forall t i r, pcs s t = PRet (OpEnd i true) r ->
          sd_called (hist s) = true \/ In i (entered s);
  D_ended : forall i, In i (Z s) -> In i (entered s);
  D_fin1 : wpc s = WExp KFin ->
           forall i, In i (Z s) -> In i (batch s ++ exported (hist s) ++ drops (hist s));
  D_fin2 : wpc s = WInExp KFin \/ wpc s = WFin ->
           forall i, In i (Z s) -> In i (exported (hist s) ++ drops (hist s));
  D_sdret : forall pre x post, hist s = pre ++ x :: post -> evD (once s) pre x
}.

Lemma initD : InvD init.
Proof.
  constructor; cbn; try discriminate; try contradiction; auto; intros;
    try discriminate; try contradiction; try (destruct pre; discriminate).
  all: try (destruct H; discriminate).
Qed.

Lemma Z_snoc h e i :
  In i (ended (before_sd (h ++ [e]))) ->
  In i (ended (before_sd h)) \/ (sd_called h = false /\ In i (ev_ended e)).
Proof.
  unfold before_sd. rewrite before_snoc. fold (sd_called h).
  destruct (sd_called h) eqn:E; auto.
  rewrite before_none by exact E.
  destruct (is_sd_call e) eqn:Ee.
  - rewrite app_nil_r. auto.
  - rewrite ended_snoc, in_app_iff. intros [H|H]; auto.
Qed.

Lemma Z_snoc_called h e : sd_called h = true -> before_sd (h ++ [e]) = before_sd h.
Proof. intros H. unfold before_sd. now apply before_app_found. Qed.

Lemma Z_snoc_other h e i :
  ev_ended e = [] -> In i (ended (before_sd (h ++ [e]))) -> In i (ended (before_sd h)).
Proof. intros He H. apply Z_snoc in H as [H|[_ H]]; auto. rewrite He in H. contradiction. Qed.

Lemma drain_called s :
  InvC s -> wpc s = WExp KFin \/ wpc s = WInExp KFin \/ wpc s = WFin -> sd_called (hist s) = true.
Proof.
  intros IC H. apply (C_stopped s IC), (C_stopch s IC), (C_drain s IC).
  destruct H as [H|[H|H]]; rewrite H; reflexivity.
Qed.

Ltac zold :=
  repeat match goal with
         | H : In _ (ended (before_sd (_ ++ [_]))) |- _ => apply Z_snoc_other in H; [|reflexivity]
         end.

Ltac finD Hf1 Hf2 :=
  rewrite ?in_app_iff in *; cbn [In] in *;
  first [ tauto
        | match goal with
          | Hj : In ?j (ended _) |- _ =>
              let X := fresh "X" in
              first [ pose proof (Hf1 eq_refl j Hj) as X
                    | pose proof (Hf2 (or_introl eq_refl) j Hj) as X
                    | pose proof (Hf2 (or_intror eq_refl) j Hj) as X
                    | match goal with Hw : _ = _ |- _ => pose proof (Hf1 Hw j Hj) as X end
                    | match goal with Hw : _ \/ _ |- _ => pose proof (Hf2 Hw j Hj) as X end
                    | match goal with Hw : _ = _ |- _ => pose proof (Hf2 (or_introl Hw) j Hj) as X end
                    | match goal with Hw : _ = _ |- _ => pose proof (Hf2 (or_intror Hw) j Hj) as X end ];
              rewrite ?in_app_iff in X; cbn [In] in X; tauto
          end ].

Lemma stepD c s a s' :
  InvA c s -> InvB c s -> InvC s -> InvD s -> step c s a = Some s' -> InvD s'.
Proof.
  intros IA IB IC [Hr He Hf1 Hf2 Hsr] Hs. unfold Z in *.
  pose proof (B_perm c s IB) as Hp. unfold located, queue_ids, held_ids in Hp.
  pose proof (drain_called s IC) as Hdc.
  pose proof (C_stopped s IC) as Hcs.
  destruct a as [t o|t|t|t|t|t|t ok| | | | | | |ok| ].
  all: step_cases Hs.
  all: constructor; unfold Z; simp; rewrite ?exported_snoc, ?drops_snoc, ?sd_called_snoc;
    cbn [ev_exported ev_drop is_sd_call]; rewrite ?app_nil_r, ?orb_false_r; auto; rw_goal; fin.
  all: try solve [apply split_snoc; [assumption|]; cbn; auto].
  all: try solve [intros; zold; rewrite ?in_app_iff in *; eauto].
  all: try solve [let HH := fresh in
                  intros u j r' HH; upd_case u t;
                  [ try discriminate HH; injection HH as ? ? ?; subst; rewrite ?in_app_iff; cbn [In]; auto
                  | destruct (Hr _ _ _ HH); rewrite ?in_app_iff; auto ]].
  all: try solve [let Hw := fresh "Hw" in let Hj := fresh "Hj" in
                  intros Hw j Hj; zold;
                  try (destruct Hw as [Hw|Hw]); try discriminate Hw;
                  try (destruct k; cbn [wcont] in *; try discriminate Hw);
                  try (injection Hw as ->);
                  finD Hf1 Hf2].
  (* push / drop: the span has entered *)
  1,2: intros u j r' HH; upd_case u t;
       [ injection HH as <- _; right; apply in_app_iff; right; now left
       | destruct (Hr _ _ _ HH); [auto|right; apply in_app_iff; auto] ].
  (* Once entered: no Shutdown has returned yet *)
  - intros pre x post Hsp. destruct x as [|? [| |] ? ?| | | |]; cbn; auto. intros; discriminate.
  - assert (Hrun : once s = ORunning t) by (apply (C_sd1 s IC); assumption).
    destruct (C_noret s IC) as [N1 _]; [rewrite Hrun; reflexivity|].
    intros pre x post Hsp. destruct x as [|u [| |] r x| | | |]; cbn; auto.
    exfalso. assert (Hin : In (ERet u OpShutdown r x) (hist s)) by (rewrite Hsp; apply in_elt).
    apply in_sd_ret in Hin. congruence.
  (* a return is logged *)
  - intros j Hj. apply Z_snoc in Hj as [Hj|[Hc Hj]]; [auto|].
    destruct o as [i0 [|]| |]; cbn in Hj; try contradiction. destruct Hj as [<-|[]].
    destruct (Hr t i0 r Heqp); [congruence|auto].
  - intros Hw j Hj. rewrite Z_snoc_called in Hj by auto. finD Hf1 Hf2.
  - intros Hw j Hj. rewrite Z_snoc_called in Hj by (apply Hdc; tauto). finD Hf1 Hf2.
  - apply split_snoc; [assumption|]. destruct o; cbn; auto.
    intros w Hw j Hj. apply (C_fin s IC) in Hw. pose proof (A_hsd c s IA Hw) as Hwf.
    pose proof (Hf2 (or_intror Hwf) j Hj) as X. apply in_app_iff in X. exact X.
  - intros pre x post Hsp. destruct x as [|? [| |] ? ?| | | |]; cbn; auto. intros; discriminate.
  (* drainQueue finds the queue empty *)
  - intros _ j Hj. apply He in Hj. apply (Permutation_in _ Hp) in Hj. cbn in Hj. exact Hj.
Qed.
