(** C01 proof infrastructure: list facts about the history vocabulary of Spec.v,
    [upd] rewriting, and the case-analysis tactics for [step].  No model-specific
    invariants here. *)
From Coq Require Import Permutation.
From Verif Require Import Lib.Base C01.Types C01.Model C01.Spec.
Local Open Scope nat_scope.

(** ** upd *)
Lemma upd_same {A} (f : nat -> A) t v : upd f t v t = v.
Proof. unfold upd. now rewrite Nat.eqb_refl. Qed.
Lemma upd_other {A} (f : nat -> A) t v u : u <> t -> upd f t v u = f u.
Proof. unfold upd. intros H. destruct (Nat.eqb_spec u t); congruence. Qed.

Ltac upd_case u t :=
  destruct (Nat.eq_dec u t) as [?Heq|?Hne];
  [ subst; rewrite ?upd_same in * | rewrite ?(upd_other _ _ _ _ Hne) in * ].

(** ** lists *)
Lemma snoc_split {A} (l : list A) e pre x post :
  l ++ [e] = pre ++ x :: post ->
  (post = [] /\ x = e /\ pre = l) \/ (exists post', post = post' ++ [e] /\ l = pre ++ x :: post').
Proof.
  revert l. induction post as [|y post IH] using rev_ind; intros l H.
  - left. change (pre ++ [x]) with (pre ++ [x]) in H.
    apply app_inj_tail in H as [H1 H2]. subst. auto.
  - right. rewrite app_comm_cons, app_assoc in H.
    apply app_inj_tail in H as [H1 H2]. subst. exists post. split; auto.
Qed.

Lemma memN_In i l : memN i l = true <-> In i l.
Proof.
  unfold memN. rewrite existsb_exists. split.
  - intros [x [H1 H2]]. apply N.eqb_eq in H2. now subst.
  - intros H. exists i. split; auto. apply N.eqb_refl.
Qed.
Lemma memN_false i l : memN i l = false <-> ~ In i l.
Proof.
  split; intros H.
  - intros HI. apply memN_In in HI. congruence.
  - destruct (memN i l) eqn:E; auto. apply memN_In in E. contradiction.
Qed.

Lemma nodupb_NoDup l : nodupb l = true <-> NoDup l.
Proof.
  induction l as [|x l IH]; cbn.
  - split; auto. constructor.
  - rewrite andb_true_iff, negb_true_iff, memN_false, IH. split.
    + intros [H1 H2]. now constructor.
    + intros H. inversion H; auto.
Qed.

(** ** history vocabulary under append *)
Lemma exported_app a b : exported (a ++ b) = exported a ++ exported b.
Proof. apply flat_map_app. Qed.
Lemma drops_app a b : drops (a ++ b) = drops a ++ drops b.
Proof. apply flat_map_app. Qed.
Lemma calls_end_app a b : calls_end (a ++ b) = calls_end a ++ calls_end b.
Proof. apply flat_map_app. Qed.
Lemma ended_app a b : ended (a ++ b) = ended a ++ ended b.
Proof. apply flat_map_app. Qed.
Lemma sd_called_app a b : sd_called (a ++ b) = sd_called a || sd_called b.
Proof. apply existsb_app. Qed.
Lemma exp_shutdown_app a b : exp_shutdown (a ++ b) = exp_shutdown a || exp_shutdown b.
Proof. apply existsb_app. Qed.
Lemma busy_snoc h e : busy (h ++ [e]) = busy_step (busy h) e.
Proof. unfold busy. now rewrite fold_left_app. Qed.

Lemma exported_snoc h e : exported (h ++ [e]) = exported h ++ ev_exported e.
Proof. rewrite exported_app. cbn. now rewrite app_nil_r. Qed.
Lemma drops_snoc h e : drops (h ++ [e]) = drops h ++ ev_drop e.
Proof. rewrite drops_app. cbn. now rewrite app_nil_r. Qed.
Lemma calls_end_snoc h e : calls_end (h ++ [e]) = calls_end h ++ ev_call_end e.
Proof. rewrite calls_end_app. cbn. now rewrite app_nil_r. Qed.
Lemma ended_snoc h e : ended (h ++ [e]) = ended h ++ ev_ended e.
Proof. rewrite ended_app. cbn. now rewrite app_nil_r. Qed.
Lemma sd_called_snoc h e : sd_called (h ++ [e]) = sd_called h || is_sd_call e.
Proof. rewrite sd_called_app. cbn. now rewrite orb_false_r. Qed.
Lemma exp_shutdown_snoc h e : exp_shutdown (h ++ [e]) = exp_shutdown h || is_exp_shutdown e.
Proof. rewrite exp_shutdown_app. cbn. now rewrite orb_false_r. Qed.

Lemma id_called_snoc i h e :
  id_called i (h ++ [e]) = id_called i h || existsb (N.eqb i) (ev_any_end e).
Proof. unfold id_called. rewrite flat_map_app, existsb_app. cbn. now rewrite app_nil_r. Qed.

Lemma calls_end_id_called i h : In i (calls_end h) -> id_called i h = true.
Proof.
  unfold calls_end, id_called. intros H. apply in_flat_map in H as [e [He Hi]].
  apply existsb_exists. exists i. split; [|apply N.eqb_refl].
  apply in_flat_map. exists e. split; auto.
  destruct e as [t o| | | | |]; try contradiction. destruct o as [j [|]| |]; try contradiction.
  exact Hi.
Qed.

(** ** [before] *)
Lemma before_app_found p a b : existsb p a = true -> before p (a ++ b) = before p a.
Proof.
  induction a as [|x a IH]; cbn; [discriminate|].
  destruct (p x); cbn; auto. intros H. now rewrite IH.
Qed.
Lemma before_app_none p a b : existsb p a = false -> before p (a ++ b) = a ++ before p b.
Proof.
  induction a as [|x a IH]; cbn; auto.
  destruct (p x); cbn; [discriminate|]. intros H. now rewrite IH.
Qed.
Lemma before_none p a : existsb p a = false -> before p a = a.
Proof.
  intros H. rewrite <- (app_nil_r a) at 1. rewrite before_app_none by auto. cbn. now rewrite app_nil_r.
Qed.
Lemma before_prefix p a : exists r, a = before p a ++ r.
Proof.
  induction a as [|x a [r IH]]; cbn.
  - now exists [].
  - destruct (p x); [now exists (x :: a)|]. exists r. cbn. now rewrite <- IH.
Qed.
Lemma before_snoc p a e :
  before p (a ++ [e]) = if existsb p a then before p a else a ++ (if p e then [] else [e]).
Proof.
  destruct (existsb p a) eqn:E.
  - now apply before_app_found.
  - rewrite before_app_none by auto. cbn. destruct (p e); auto.
Qed.

Lemma ended_before_incl p h i : In i (ended (before p h)) -> In i (ended h).
Proof.
  destruct (before_prefix p h) as [r Hr]. intros H. rewrite Hr, ended_app. apply in_or_app. now left.
Qed.

(** ** quantification over positions *)
Lemma splits_from_spec f pre l :
  splits_from f pre l = true <->
  (forall a e b, l = a ++ e :: b -> f (pre ++ a) e b = true).
Proof.
  revert pre. induction l as [|x l IH]; intros pre; cbn.
  - split; auto. intros _ a e b H. destruct a; discriminate.
  - rewrite andb_true_iff, IH. split.
    + intros [H1 H2] a e b H. destruct a as [|y a]; cbn in H; inversion H; subst.
      * now rewrite app_nil_r.
      * specialize (H2 a e b eq_refl). now rewrite <- app_assoc in H2.
    + intros H. split.
      * specialize (H [] x l eq_refl). now rewrite app_nil_r in H.
      * intros a e b E. specialize (H (x :: a) e b). rewrite <- app_assoc. apply H. cbn. now rewrite E.
Qed.
Lemma all_splits_spec f h :
  all_splits f h = true <-> (forall a e b, h = a ++ e :: b -> f a e b = true).
Proof. unfold all_splits. rewrite splits_from_spec. cbn. tauto. Qed.

(** ** Permutation helpers *)
Lemma perm_in {A} (l l' : list A) x : Permutation l l' -> In x l -> In x l'.
Proof. intros. eapply Permutation_in; eauto. Qed.

(** ** projections of the setters compute *)
Ltac simp :=
  cbn [queue dropped batch mu stopped stopch once flushed wpc pcs hpc hsd expired hist entered
       set_queue set_dropped set_batch set_mu set_stopped set_stopch set_once set_flushed set_wpc
       set_pcs set_hpc set_hsd set_expired set_hist set_entered
       log goto hgoto open_export close_export queue_ids held_ids] in *.

(** Case analysis of one step: every [match]/[if] of [step] is split, impossible
    branches are discharged, the successor state is substituted. *)
Ltac step_cases H :=
  unfold step in H;
  repeat match type of H with
         | context [match ?x with _ => _ end] => destruct x eqn:?
         end;
  try discriminate H;
  injection H as <-; simp.

(** ** generic finishing tactics *)
Ltac rw_goal :=
  repeat match goal with
         | H : ?l = _ |- _ => match goal with |- context [l] => rewrite H end
         end.

Ltac upd_all :=
  repeat match goal with
         | |- context [upd _ ?t _ ?u] => upd_case u t
         | H : context [upd _ ?t _ ?u] |- _ => upd_case u t
         end.

Ltac fin :=
  try solve [ assumption | tauto | congruence | discriminate | lia
            | intros; discriminate | intros; congruence
            | intros; split; intros; congruence ].

Ltac bool_facts :=
  repeat match goal with
         | H : (_ <=? _) = true |- _ => apply Nat.leb_le in H
         | H : (_ <=? _) = false |- _ => apply Nat.leb_gt in H
         | H : (_ <? _) = true |- _ => apply Nat.ltb_lt in H
         | H : (_ <? _) = false |- _ => apply Nat.ltb_ge in H
         | H : (_ =? _) = true |- _ => apply Nat.eqb_eq in H
         | H : (_ =? _) = false |- _ => apply Nat.eqb_neq in H
         end.


(** invariants of the form "every event is consistent with the events before it" *)
Lemma split_snoc (Q : history -> event -> Prop) h e :
  (forall pre x post, h = pre ++ x :: post -> Q pre x) -> Q h e ->
  forall pre x post, h ++ [e] = pre ++ x :: post -> Q pre x.
Proof.
  intros H He pre x post Hs. apply snoc_split in Hs as [[-> [-> ->]]|[post' [-> ->]]]; eauto.
Qed.
