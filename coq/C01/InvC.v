(** C01 invariant, part C: the shutdown protocol (stopped flag, stopCh, sync.Once, the
    helper goroutine, the worker's drain phase) and quiet-after-shutdown. *)
From Coq Require Import Permutation.
From Verif Require Import Lib.Base C01.Types C01.Model C01.Spec C01.Lts C01.InvA.
Local Open Scope nat_scope.

Definition w_draining (w : wstate) : bool :=
  match w with
  | WIdle d => d
  | WHold d _ => d
  | WExp KRun => false
  | WExp _ => true
  | WInExp KRun => false
  | WInExp _ => true
  | WFin => true
  end.

Definition sd_pc (p : pc) : bool :=
  match p with PSd0 | PSd1 | PRet OpShutdown _ => true | _ => false end.
Definition sd_ret_pc (p : pc) : bool :=
  match p with PRet OpShutdown _ => true | _ => false end.
Definition is_sd_ret (e : event) : bool :=
  match e with ERet _ OpShutdown _ _ => true | _ => false end.
Definition finished (o : once_st) : bool :=
  match o with OFinished _ _ => true | _ => false end.
Definition ret_of (c : bool) : ret := if c then RNil else RCtx.

(** a return of Shutdown is only logged once the Once is finished, by a winner that was
    called before *)
Definition evC (o : once_st) (pre : history) (x : event) : Prop :=
  match x with
  | ERet _ OpShutdown _ _ => exists w c, o = OFinished w c /\ In (ECall w OpShutdown) pre
  | _ => True
  end.

Record InvC (s : state) : Prop := {
  C_stopped : stopped s = true -> sd_called (hist s) = true;
  C_stopch : stopch s = true -> stopped s = true;
  C_fresh : once s = OFresh <-> stopped s = false;
  C_drain : w_draining (wpc s) = true -> stopch s = true;
  C_hs1 : hsd s = HS1 \/ hsd s = HSDone -> stopch s = true;
  C_hs0 : hsd s <> HSNone -> stopped s = true;
  C_sd1 : forall t, pcs s t = PSd1 <-> once s = ORunning t;
  C_fin : forall w, once s = OFinished w true -> hsd s = HSDone;
  C_called : forall t, pcs s t = PIdle <-> existsb (is_call_of t) (hist s) = false;
  C_sdcall : forall t, sd_pc (pcs s t) = true -> In (ECall t OpShutdown) (hist s);
  C_noret : finished (once s) = false ->
            existsb is_sd_ret (hist s) = false /\ forall t, sd_ret_pc (pcs s t) = false;
  C_win : forall w c, once s = OFinished w c ->
            In (ECall w OpShutdown) (hist s) /\
            (pcs s w = PRet OpShutdown (ret_of c) \/ pcs s w = PDone) /\
            (forall r x, In (ERet w OpShutdown r x) (hist s) -> r = ret_of c);
  C_ret : forall pre x post, hist s = pre ++ x :: post -> evC (once s) pre x;
  C_quiet : forall w, once s = OFinished w true ->
            forall pre t r x post, hist s = pre ++ ERet t OpShutdown r x :: post -> exported post = []
}.

Lemma initC : InvC init.
Proof.
  constructor; cbn; try discriminate; try tauto; auto; intros;
    try discriminate; try (split; discriminate); try (destruct pre; discriminate).
  all: try (destruct H; discriminate).
Qed.

Lemma existsb_snoc {A} (p : A -> bool) l x : existsb p (l ++ [x]) = existsb p l || p x.
Proof. rewrite existsb_app. cbn. now rewrite orb_false_r. Qed.

Lemma in_snoc {A} (l : list A) x y : In y (l ++ [x]) <-> In y l \/ y = x.
Proof. rewrite in_app_iff. cbn. intuition. Qed.

Ltac goC :=
  intros; upd_all; cbn [sd_pc sd_ret_pc w_draining finished ret_of wcont is_call_of is_sd_ret is_sd_call] in *;
  rewrite ?Nat.eqb_refl, ?orb_true_r, ?orb_false_r in *; rw_goal; fin;
  try solve [eauto].

(* C_called *)
Ltac tC_called Hcl t :=
  let u := fresh "u" in
  intros u; rewrite ?existsb_snoc; cbn [is_call_of]; rewrite ?orb_false_r;
  upd_case u t;
  [ rewrite ?Nat.eqb_refl, ?orb_true_r;
    split; intros ?HH; try discriminate;
    try (exfalso; apply Hcl in HH; congruence)
  | try (replace (t =? u) with false by (symmetry; apply Nat.eqb_neq; congruence));
    rewrite ?orb_false_r; apply Hcl ].

(* C_sdcall *)
Ltac tC_sdcall Hsd t :=
  let u := fresh "u" in let H := fresh "H" in
  intros u H; rewrite ?in_snoc; upd_case u t;
  [ cbn [sd_pc] in H; try discriminate; auto; try (left; apply Hsd; rw_goal; reflexivity)
  | auto ].

(* C_noret *)
Ltac tC_noret Hnr t :=
  let Hf := fresh "Hf" in let N1 := fresh "N1" in let N2 := fresh "N2" in let u := fresh "u" in
  intros Hf; cbn [finished] in Hf; try discriminate Hf;
  destruct (Hnr Hf) as [N1 N2]; split;
  [ rewrite ?existsb_snoc; cbn [is_sd_ret]; rewrite ?orb_false_r; try assumption
  | intros u; try (upd_case u t; [reflexivity|]); apply N2 ].

(* C_win *)
Ltac tC_win Hwin t :=
  let w := fresh "w" in let c := fresh "c" in let Hw := fresh "Hw" in
  let W1 := fresh "W1" in let W2 := fresh "W2" in let W3 := fresh "W3" in
  intros w c Hw; destruct (Hwin w c Hw) as [W1 [W2 W3]]; split;
  [ rewrite ?in_snoc; auto
  | split;
    [ try (upd_case w t; [ destruct W2 as [W2|W2]; try congruence | exact W2 ]); try exact W2
    | let r := fresh "r" in let x := fresh "x" in let Hin := fresh "Hin" in
      intros r x Hin; try (apply in_snoc in Hin as [Hin|Hin]; [|try discriminate Hin]); eauto ] ].

(* C_sd1 *)
Ltac tC_sd1 Hs1 t :=
  let u := fresh "u" in let HH := fresh "HH" in
  intros u; upd_case u t;
  [ split; intros HH; try discriminate HH; try reflexivity; try congruence;
    try (apply Hs1 in HH; congruence)
  | first [ apply Hs1 | split; intros HH; [apply Hs1 in HH; congruence | congruence] ] ].

Lemma no_sd_ret_evC h o : existsb is_sd_ret h = false ->
  forall pre x post, h = pre ++ x :: post -> evC o pre x.
Proof.
  intros H pre x post ->. rewrite existsb_app in H. cbn in H.
  destruct x as [| t [| |] r e | | | |]; cbn; auto.
  cbn in H. rewrite orb_true_r in H. discriminate.
Qed.

Lemma in_sd_ret w r x h : In (ERet w OpShutdown r x) h -> existsb is_sd_ret h = true.
Proof. intros H. apply existsb_exists. exists (ERet w OpShutdown r x). split; auto. Qed.

Lemma in_sd_called t h : In (ECall t OpShutdown) h -> sd_called h = true.
Proof. intros H. apply existsb_exists. exists (ECall t OpShutdown). split; auto. Qed.

Lemma quiet_snoc h e :
  (forall pre t r x post, h = pre ++ ERet t OpShutdown r x :: post -> exported post = []) ->
  ev_exported e = [] ->
  forall pre t r x post, h ++ [e] = pre ++ ERet t OpShutdown r x :: post -> exported post = [].
Proof.
  intros H He pre t r x post Hs. apply snoc_split in Hs as [[-> _]|[post' [-> Hs]]]; auto.
  rewrite exported_snoc, (H _ _ _ _ _ Hs), He. reflexivity.
Qed.

Lemma stepC c s a s' : InvA c s -> InvC s -> step c s a = Some s' -> InvC s'.
Proof.
  intros IA [Hst Hsc Hfr Hdr Hh1 Hh0 Hs1 Hfin Hcl Hsd Hnr Hwin Hret Hq] Hs.
  destruct a as [t o|t|t|t|t|t|t ok| | | | | | |ok| ];
    try (pose proof (Hs1 t) as Hs1t; pose proof (Hcl t) as Hclt; pose proof (Hsd t) as Hsdt).
  all: step_cases Hs.
  all: constructor; simp;
    rewrite ?sd_called_snoc; cbn [is_sd_call];
    rewrite ?orb_false_r, ?orb_true_r; auto; rw_goal; fin.
  all: try solve [tC_called Hcl t].
  all: try solve [tC_sdcall Hsd t].
  all: try solve [tC_noret Hnr t].
  all: try solve [tC_win Hwin t].
  all: try solve [tC_sd1 Hs1 t].
  all: try solve [apply split_snoc; [assumption|]; cbn; auto].
  all: try solve [intros w Hw; apply quiet_snoc; [eapply Hq; eauto | reflexivity]].
  all: try solve [intros [|]; discriminate].
  all: try solve [destruct k; cbn in *; auto; discriminate].
  all: try solve [apply no_sd_ret_evC; apply Hnr; rw_goal; reflexivity].
  all: try solve [split; [discriminate | let HH := fresh in intros HH; apply Hfr in HH; congruence]].
  all: try solve [intros _; eapply in_sd_called; apply Hsdt; reflexivity].
  all: try solve [intros u; rewrite existsb_snoc; cbn [is_call_of]; rewrite orb_false_r; apply Hcl].
  all: try solve [intros u HH; apply in_snoc; left; auto].
  all: try solve [intros w c' Hw; destruct (Hwin w c' Hw) as [W1 [W2 W3]]; split; [apply in_snoc; auto|split; auto];
                  intros r x Hin; apply in_snoc in Hin as [Hin|Hin]; [eauto|discriminate]].
  all: try solve [intros w Hw; apply Hfin in Hw; congruence].
  all: try solve [intros w Hw; exfalso; apply Hfin in Hw; pose proof (A_hsd c s IA Hw) as Hwf;
                  first [congruence | destruct (A_fin c s IA Hwf); congruence]].
  all: try solve [intros; apply Hh0; congruence].
  (* the Once winner finishes: cleanly (wait closed) / on its context *)
  all: try (assert (Hrun : once s = ORunning t) by (apply Hs1t; reflexivity));
       try (assert (Hnf : finished (once s) = false) by (rewrite Hrun; reflexivity);
            destruct (Hnr Hnf) as [N1 N2]).
  all: try solve [split; [discriminate|]; let HH := fresh in intros HH; apply Hfr in HH; congruence].
  all: try solve [let u := fresh "u" in let HH := fresh in
                  intros u; upd_case u t; split; intros HH; try discriminate HH;
                  apply Hs1 in HH; congruence].
  all: try solve [let E := fresh in
                  intros w c' E; injection E as <- <-; split; [apply Hsdt; reflexivity|];
                  split; [left; apply upd_same|];
                  intros r x Hin; apply in_sd_ret in Hin; congruence].
  all: try solve [apply no_sd_ret_evC; exact N1].
  all: try solve [intros w _ pre u r x post Hsp; exfalso;
                  assert (Hin : In (ERet u OpShutdown r x) (hist s)) by (rewrite Hsp; apply in_elt);
                  apply in_sd_ret in Hin; congruence].
  (* a return is logged *)
  - intros Hf. destruct (Hnr Hf) as [N1 N2]. split.
    + rewrite existsb_snoc, N1. specialize (N2 t). rewrite Heqp in N2.
      destruct o; cbn in *; auto.
    + intros u. upd_case u t; [reflexivity|apply N2].
  - intros w c' Hw. destruct (Hwin w c' Hw) as [W1 [W2 W3]]. split; [apply in_snoc; auto|].
    split.
    + upd_case w t; [right; reflexivity|exact W2].
    + intros r0 x Hin. apply in_snoc in Hin as [Hin|Hin]; [eauto|].
      injection Hin as E1 E2 E3 _. subst. destruct W2 as [W2|W2]; congruence.
  - apply split_snoc; [assumption|]. destruct o; cbn; auto.
    destruct (once s) as [|w0|w0 c0] eqn:Eo.
    + destruct (Hnr eq_refl) as [_ N2]. specialize (N2 t). rewrite Heqp in N2. discriminate.
    + destruct (Hnr eq_refl) as [_ N2]. specialize (N2 t). rewrite Heqp in N2. discriminate.
    + exists w0, c0. split; auto. apply (Hwin w0 c0 eq_refl).
Qed.

Lemma runAC c : 1 <= maxb c -> forall sch s0 s, InvA c s0 -> InvC s0 -> run_from c s0 sch = Some s -> InvC s.
Proof.
  intros Hm. induction sch as [|a r IH]; cbn; intros s0 s Ha Hi H.
  - now inversion H; subst.
  - destruct (step c s0 a) eqn:E; [|discriminate]. eapply IH; [| |exact H].
    + eapply stepA; eauto.
    + eapply stepC; eauto.
Qed.
