(** C09 proofs. *)
From Verif Require Import Lib.Base Lib.Float64Bits C09.Model C09.Spec.
From Coq Require Import ZifyBool ZifyN ZifyNat.
Open Scope N_scope.

(** ** powers of two kept opaque *)
Definition K : Z := (2 ^ 1011)%Z.

Lemma K_pos : (0 < K)%Z.
Proof. unfold K. apply Z.pow_pos_nonneg; lia. Qed.

Lemma ONE_K : ONE = (2 ^ 63 * K)%Z.
Proof. unfold ONE, K. rewrite <- Z.pow_add_r by lia. reflexivity. Qed.

Lemma ONE_pos : (0 < ONE)%Z.
Proof. unfold ONE. apply Z.pow_pos_nonneg; lia. Qed.

Global Opaque K ONE.

(** floor (m * 2^(e+63)) as the scaled value divided by 2^1011 *)
Lemma shiftl_scaled m e :
  (0 <= m)%Z -> (-1074 <= e)%Z -> Z.shiftl m (e + 63) = (scaled false m e / K)%Z.
Proof.
  intros Hm He. unfold scaled.
  destruct (Z.le_gt_cases 0 (e + 63)) as [H|H].
  - rewrite Z.shiftl_mul_pow2 by exact H.
    replace (e + 1074)%Z with ((e + 63) + 1011)%Z by lia.
    rewrite (Z.pow_add_r 2 (e + 63) 1011) by lia. change (2 ^ 1011)%Z with K.
    rewrite Z.mul_assoc, Z.div_mul; [reflexivity|]. pose proof K_pos. lia.
  - rewrite Z.shiftl_div_pow2 by lia.
    assert (EK : K = (2 ^ (- (e + 63)) * 2 ^ (e + 1074))%Z).
    { rewrite <- Z.pow_add_r by lia. replace (- (e + 63) + (e + 1074))%Z with 1011%Z by lia. reflexivity. }
    rewrite EK. rewrite Z.div_mul_cancel_r; [reflexivity| |].
    + apply Z.pow_nonzero; lia.
    + apply Z.pow_nonzero; lia.
Qed.

(** ** the clamped value in [0, 1], scaled *)
Definition clamp (c : fclass) : Z :=
  match c with
  | FNaN => 0%Z
  | FInf true => 0%Z
  | FInf false => ONE
  | FFin s m e => Z.max 0 (Z.min ONE (scaled s m e))
  end.

Lemma clamp_range c : (0 <= clamp c <= ONE)%Z.
Proof. pose proof ONE_pos. destruct c as [|[|]|s m e]; cbn [clamp]; lia. Qed.

Lemma clamp_mono c c' : fle c c' = true -> (clamp c <= clamp c')%Z.
Proof.
  pose proof ONE_pos.
  destruct c as [|[|]|s m e], c' as [|[|]|s' m' e']; cbn [fle clamp]; intro Hf; try discriminate; try lia.
Qed.

Lemma ge_one_clamp c : is_nan c = false -> ge_one c = (clamp c =? ONE)%Z.
Proof.
  pose proof ONE_pos.
  destruct c as [|[|]|s m e]; cbn [is_nan ge_one clamp negb]; intro; try discriminate; lia.
Qed.

Lemma le_zero_clamp c : le_zero c = true -> clamp c = 0%Z.
Proof.
  pose proof ONE_pos.
  destruct c as [|[|]|s m e]; cbn [le_zero clamp]; intro; try discriminate; lia.
Qed.

Lemma scaled_neg_nonpos m e : (0 <= m)%Z -> (scaled true m e <= 0)%Z.
Proof.
  intro Hm. unfold scaled. assert (0 <= 2 ^ (e + 1074))%Z by (apply Z.pow_nonneg; lia). nia.
Qed.

(** The sampler built for a bit pattern, in terms of the clamped value. *)
Lemma kind_clamp bits :
  is_nan (classify bits) = false ->
  ratio_kind_of bits =
  if (clamp (classify bits) =? ONE)%Z then RAlways
  else RBound (Z.to_N (clamp (classify bits) / K)).
Proof.
  intro Hn. unfold ratio_kind_of.
  pose proof (classify_fin bits) as Hfin.
  pose proof ONE_pos as HO. pose proof K_pos as HK.
  destruct (classify bits) as [|neg|s m e] eqn:Ec.
  - discriminate.
  - destruct neg; cbn [ge_one le_zero clamp negb].
    + replace (0 =? ONE)%Z with false by lia. rewrite Z.div_0_l by lia. reflexivity.
    + now rewrite Z.eqb_refl.
  - specialize (Hfin s m e eq_refl) as [Hm He].
    rewrite ge_one_clamp by reflexivity.
    destruct (clamp (FFin s m e) =? ONE)%Z eqn:E1; [reflexivity|].
    destruct (le_zero (FFin s m e)) eqn:E2.
    + rewrite (le_zero_clamp _ E2). rewrite Z.div_0_l by lia. reflexivity.
    + cbn [le_zero clamp] in *.
      assert (Hs : s = false).
      { destruct s; [|reflexivity]. pose proof (scaled_neg_nonpos m e). lia. }
      subst s. rewrite shiftl_scaled by lia.
      do 3 f_equal. lia.
Qed.

(** ** ratio sampler: monotone, extremes *)
Lemma ratio_monotone r r' t :
  fle (classify r) (classify r') = true -> ratio_sampled r t = true -> ratio_sampled r' t = true.
Proof.
  intros Hf. pose proof (clamp_mono _ _ Hf) as Hc.
  assert (Hn : is_nan (classify r) = false /\ is_nan (classify r') = false).
  { destruct (classify r) as [|[|]|], (classify r') as [|[|]|]; cbn in Hf |- *; auto; discriminate. }
  destruct Hn as [Hn Hn']. unfold ratio_sampled.
  rewrite (kind_clamp r Hn), (kind_clamp r' Hn').
  pose proof (clamp_range (classify r)). pose proof (clamp_range (classify r')).
  pose proof K_pos as HK.
  destruct (clamp (classify r') =? ONE)%Z eqn:E'; [reflexivity|].
  destruct (clamp (classify r) =? ONE)%Z eqn:E; [lia|].
  intro Hx.
  assert (Hd : (clamp (classify r) / K <= clamp (classify r') / K)%Z) by (apply Z.div_le_mono; lia).
  assert (0 <= clamp (classify r) / K)%Z by (apply Z.div_pos; lia).
  lia.
Qed.

Lemma ratio_extremes r t :
  (le_zero (classify r) = true -> ratio_sampled r t = false) /\
  (ge_one (classify r) = true -> ratio_sampled r t = true).
Proof.
  pose proof K_pos as HK. pose proof ONE_pos as HO. split; intro H.
  - assert (Hn : is_nan (classify r) = false) by (destruct (classify r); [discriminate|reflexivity|reflexivity]).
    unfold ratio_sampled. rewrite (kind_clamp r Hn), (le_zero_clamp _ H).
    replace (0 =? ONE)%Z with false by lia. rewrite Z.div_0_l by lia. cbn. lia.
  - assert (Hn : is_nan (classify r) = false) by (destruct (classify r); [discriminate|reflexivity|reflexivity]).
    unfold ratio_sampled. rewrite (kind_clamp r Hn). rewrite (ge_one_clamp _ Hn) in H. now rewrite H.
Qed.

(** The decision is a function of the ratio and of 63 bits of the trace id only. *)
Lemma ratio_deterministic r t t' : coord t = coord t' -> ratio_sampled r t = ratio_sampled r t'.
Proof.
  unfold ratio_sampled. change (tid_x t) with (coord t). change (tid_x t') with (coord t').
  now intros ->.
Qed.

(** ** counting *)
Lemma count_below_succ p n :
  count_below p (N.succ n) = if p n then N.succ (count_below p n) else count_below p n.
Proof. unfold count_below. now rewrite N.peano_rect_succ. Qed.

Lemma count_below_lt b n : count_below (fun x => x <? b) n = N.min b n.
Proof.
  induction n as [|n IH] using N.peano_ind; [cbn; lia|].
  rewrite count_below_succ, IH. destruct (N.ltb_spec n b); lia.
Qed.

(** ** share *)
Lemma ratio_share : share ratio_sampled.
Proof.
  intros r m e Hc [H0 H1].
  pose proof K_pos as HK. pose proof ONE_K as HOK.
  assert (Hn : is_nan (classify r) = false) by now rewrite Hc.
  set (v := scaled false m e) in *.
  assert (Hcl : clamp (classify r) = v) by (rewrite Hc; cbn [clamp]; fold v; lia).
  assert (Hdiv : (0 <= v / K < 2 ^ 63)%Z).
  { split; [apply Z.div_pos; lia|]. apply Z.div_lt_upper_bound; lia. }
  exists (Z.to_N (v / K)). repeat split.
  - unfold SPACE. lia.
  - intro t. unfold ratio_sampled. rewrite (kind_clamp r Hn), Hcl.
    replace (v =? ONE)%Z with false by lia. reflexivity.
  - rewrite count_below_lt. unfold SPACE. lia.
  - unfold tracks. fold v. change (2 ^ 1011)%Z with K. rewrite Z2N.id by lia.
    pose proof (Z.mul_div_le v K HK). pose proof (Z.mul_succ_div_gt v K HK). lia.
  - unfold tracks. fold v. change (2 ^ 1011)%Z with K. rewrite Z2N.id by lia.
    pose proof (Z.mul_succ_div_gt v K HK). lia.
Qed.

(** ** ParentBased *)
Definition octx_of (c : spanctx) : octx :=
  {| o_tid := tid c; o_sid := sid c; o_flags := flags c; o_ts := tstate c; o_remote := remote c |}.

Lemma pb_index_pick psc : pb_index psc = pick_index (octx_of psc).
Proof. reflexivity. Qed.

Lemma parent_based_dispatch root rs rns ls lns psc t :
  let sub := pick (octx_of psc) root rs rns ls lns in
  let r := should_sample sub psc t in
  should_sample (SParent root rs rns ls lns) psc t =
  {| dec := dec r; rts := rts r; path := pick_index (octx_of psc) :: path r |}.
Proof.
  cbn [should_sample]. rewrite pb_index_pick. unfold pick, pick_index.
  destruct (negb (zero (o_tid (octx_of psc))) && negb (zero (o_sid (octx_of psc)))); [|reflexivity].
  destruct (o_remote (octx_of psc)), (sampled_flag (o_flags (octx_of psc))); reflexivity.
Qed.

Definition code (d : decision) : N :=
  match d with Drop => D_DROP | RecordOnly => D_RECORD | RecordAndSample => D_SAMPLE | DOther k => 3 + k end.

Lemma parent_based_follows root psc t :
  let r := should_sample (parent_based root) psc t in
  match default_parent_decision (octx_of psc) with
  | Some d => code (dec r) = d /\ rts r = tstate psc
  | None => dec r = dec (should_sample root psc t) /\ rts r = rts (should_sample root psc t)
  end.
Proof.
  unfold parent_based. cbn zeta. rewrite parent_based_dispatch.
  unfold default_parent_decision, pick, pick_index. cbn [dec rts].
  destruct (negb (zero (o_tid (octx_of psc))) && negb (zero (o_sid (octx_of psc)))); [|auto].
  destruct (o_remote (octx_of psc)), (sampled_flag (o_flags (octx_of psc))); cbn; auto.
Qed.

(** Stock samplers (no custom sampler anywhere) hand back the parent's tracestate. *)
Lemma stock_tracestate s psc t : stock s = true -> rts (should_sample s psc t) = tstate psc.
Proof.
  induction s as [| | bits | root IH0 rs IH1 rns IH2 ls IH3 lns IH4 | d ts]; cbn [stock]; intro H;
    try reflexivity; try discriminate.
  apply andb_true_iff in H as [H H4]. apply andb_true_iff in H as [H H3].
  apply andb_true_iff in H as [H H2]. apply andb_true_iff in H as [H0 H1].
  cbn [should_sample rts]. unfold pb_index.
  destruct (sc_valid psc); [|auto]. destruct (remote psc), (is_sampled psc); auto.
Qed.

(** ** flags *)
Lemma half_shiftr f : f / 2 = N.shiftr f 1.
Proof. now rewrite N.shiftr_div_pow2. Qed.

Lemma lor1_half f : N.lor f 1 / 2 = f / 2.
Proof. rewrite !half_shiftr, N.shiftr_lor. change (N.shiftr 1 1) with 0. apply N.lor_0_r. Qed.

Lemma lor1_odd f : N.odd (N.lor f 1) = true.
Proof. rewrite <- N.bit0_odd, N.lor_spec. change (N.testbit 1 0) with true. apply orb_true_r. Qed.

Lemma land254_odd f : N.odd (N.land f 254) = false.
Proof. rewrite <- N.bit0_odd, N.land_spec. change (N.testbit 254 0) with false. apply andb_false_r. Qed.

Lemma land254_half f : f < 256 -> N.land f 254 / 2 = f / 2.
Proof.
  intro H. rewrite !half_shiftr, N.shiftr_land. change (N.shiftr 254 1) with (N.ones 7).
  rewrite N.land_ones. apply N.mod_small. rewrite <- half_shiftr.
  change (2 ^ 7) with 128. apply N.div_lt_upper_bound; lia.
Qed.

(** ** one Start *)
Lemma zero_sc_zero : zero (tid zero_sc) = true /\ flags zero_sc = 0 /\ tstate zero_sc = [].
Proof. repeat split. Qed.

Lemma new_span_ok s g parent (newroot : bool) :
  flags parent < 256 ->
  let psc := if newroot then zero_sc else parent in
  let sp := new_span s g parent newroot in
  start_ok (stock s) (octx_of psc) (fst g) (snd g) (code (dec (sres sp))) (rts (sres sp))
           (octx_of (sc sp)) (recording sp) (exported sp) = true /\
  sres sp = should_sample s psc (tid (sc sp)) /\
  asked_ids sp = zero (tid psc).
Proof.
  intros Hf psc sp.
  assert (Hfp : flags psc < 256) by (unfold psc; destruct newroot; [cbn; lia|exact Hf]).
  split; [|split].
  - unfold start_ok, sp, new_span, exported. fold psc. cbn [sc sres recording octx_of o_tid o_sid o_flags o_ts o_remote tid sid flags tstate remote].
    rewrite !bytes_eqb_refl. cbn [negb andb].
    change (tid_valid (tid psc)) with (negb (zero (tid psc))). rewrite negb_involutive.
    set (r := should_sample s psc (if zero (tid psc) then fst g else tid psc)).
    assert (Et : bytes_eqb (if zero (tid psc) then fst g else tid psc)
                           (if negb (zero (tid psc)) then tid psc else fst g) = true).
    { destruct (zero (tid psc)); apply bytes_eqb_refl. }
    rewrite Et. cbn [andb]. unfold is_sampled, sampled_flag. cbn [flags].
    assert (Hts : implb (stock s) (bytes_eqb (rts r) (tstate psc)) = true).
    { destruct (stock s) eqn:Es; [|reflexivity]. unfold r. rewrite stock_tracestate by exact Es. apply bytes_eqb_refl. }
    rewrite Hts, andb_true_r.
    destruct (dec r); cbn [code decision_eqb negb];
      rewrite ?lor1_odd, ?land254_odd, ?lor1_half, ?land254_half by exact Hfp;
      rewrite ?N.eqb_refl; try reflexivity.
    unfold D_SAMPLE, D_DROP. replace (3 + k =? 2) with false by lia. replace (3 + k <=? 2) with false by lia.
    reflexivity.
  - unfold sp, new_span. fold psc. cbn [sres sc tid]. reflexivity.
  - unfold sp, new_span. fold psc. cbn [asked_ids].
    change (tid_valid (tid psc)) with (negb (zero (tid psc))). now rewrite negb_involutive.
Qed.

(** valid ids from the generator give a valid span context *)
Lemma new_span_valid s g parent (newroot : bool) :
  Nat.eqb (length (tid parent)) 16 = true ->
  let psc := if newroot then zero_sc else parent in
  let sp := new_span s g parent newroot in
  ids_ok (octx_of psc) (fst g) (snd g) (octx_of (sc sp)) = true.
Proof.
  intros Hl psc sp. unfold ids_ok, octx_valid, sp, new_span. fold psc.
  cbn [sc octx_of o_tid o_sid tid sid].
  change (tid_valid (tid psc)) with (negb (zero (tid psc))). rewrite negb_involutive.
  assert (Hlp : Nat.eqb (length (tid psc)) 16 = true) by (unfold psc; destruct newroot; [reflexivity|exact Hl]).
  unfold valid_tid at 2. rewrite Hlp. cbn [andb].
  destruct (valid_sid (snd g)); cbn [andb implb]; [|reflexivity].
  destruct (zero (tid psc)) eqn:Ez; cbn [negb orb].
  - rewrite orb_false_r. destruct (valid_tid (fst g)); reflexivity.
  - rewrite orb_true_r. cbn [implb]. unfold valid_tid. now rewrite Hlp, Ez.
Qed.

(** ** programs *)
Lemma nth_error_firstn_lt {A} (l : list A) : forall i j, (i < j)%nat -> nth_error (firstn j l) i = nth_error l i.
Proof.
  induction l as [|x l IH]; intros i j H.
  - now rewrite firstn_nil.
  - destruct j as [|j]; [lia|]. destruct i as [|i]; [reflexivity|]. cbn. apply IH. lia.
Qed.

Section Gen.
  Variable gen : nat -> bytes * bytes.
  Variable s : sampler.

  Lemma run_from_app ops1 : forall ops2 spans,
    run_from gen s (ops1 ++ ops2) spans = run_from gen s ops2 (run_from gen s ops1 spans).
  Proof. induction ops1 as [|o r IH]; intros ops2 spans; cbn; [reflexivity|apply IH]. Qed.

  Lemma run_from_prefix ops : forall spans,
    exists extra, run_from gen s ops spans = spans ++ extra /\ length extra = length ops.
  Proof.
    induction ops as [|o r IH]; intro spans; cbn.
    - exists []. now rewrite app_nil_r.
    - destruct (IH (spans ++ [new_span s (gen (length spans)) (parent_of spans (par o)) (newroot o)]))
        as [extra [H1 H2]].
      eexists (_ :: extra). rewrite H1, <- app_assoc. cbn. split; [reflexivity|now rewrite H2].
  Qed.

  Lemma run_prog_length ops : length (run_prog gen s ops) = length ops.
  Proof.
    unfold run_prog. destruct (run_from_prefix ops []) as [extra [H1 H2]]. now rewrite H1.
  Qed.

  (** The j-th Start of a program is one [new_span] on the j-th answer of the
      generator, with the parent as it was after the first j Starts. *)
  Lemma run_prog_nth ops j o :
    nth_error ops j = Some o ->
    nth_error (run_prog gen s ops) j =
    Some (new_span s (gen j) (parent_of (run_prog gen s (firstn j ops)) (par o)) (newroot o)).
  Proof.
    intro Hj. apply nth_error_split in Hj as [l1 [l2 [-> <-]]].
    rewrite firstn_app, Nat.sub_diag, firstn_all. cbn [firstn]. rewrite app_nil_r.
    unfold run_prog. rewrite run_from_app. cbn [run_from].
    set (pre := run_from gen s l1 []).
    assert (Hp : length pre = length l1) by (unfold pre; fold (run_prog gen s l1); now rewrite run_prog_length).
    destruct (run_from_prefix l2 (pre ++ [new_span s (gen (length pre)) (parent_of pre (par o)) (newroot o)]))
      as [extra [H1 _]].
    rewrite H1, <- app_assoc. rewrite nth_error_app2 by lia. rewrite Hp, Nat.sub_diag. reflexivity.
  Qed.

  (** a prefix of the program gives a prefix of the spans *)
  Lemma run_prog_app ops1 ops2 :
    exists extra, run_prog gen s (ops1 ++ ops2) = run_prog gen s ops1 ++ extra.
  Proof.
    unfold run_prog. rewrite run_from_app.
    destruct (run_from_prefix ops2 (run_from gen s ops1 [])) as [extra [H1 _]]. now exists extra.
  Qed.

  Lemma run_prog_firstn ops j : run_prog gen s (firstn j ops) = firstn j (run_prog gen s ops).
  Proof.
    destruct (Nat.le_gt_cases j (length ops)) as [H|H].
    - destruct (run_prog_app (firstn j ops) (skipn j ops)) as [extra E].
      rewrite firstn_skipn in E. rewrite E.
      assert (Hl : length (run_prog gen s (firstn j ops)) = j)
        by (rewrite run_prog_length, firstn_length; lia).
      rewrite firstn_app, Hl, Nat.sub_diag. cbn [firstn]. rewrite app_nil_r.
      symmetry. apply firstn_all2. lia.
    - rewrite (firstn_all2 ops) by lia. symmetry. apply firstn_all2. rewrite run_prog_length. lia.
  Qed.

  (** every Start makes exactly one generator call and uses its span id unchanged *)
  Lemma run_from_sids ops : forall spans,
    map (fun sp => sid (sc sp)) (run_from gen s ops spans) =
    map (fun sp => sid (sc sp)) spans ++ map (fun k => snd (gen k)) (seq (length spans) (length ops)).
  Proof.
    induction ops as [|o r IH]; intro spans; cbn [run_from length seq map].
    - now rewrite app_nil_r.
    - rewrite IH, map_app, app_length, <- app_assoc. cbn [map length app].
      replace (length spans + 1)%nat with (S (length spans)) by lia. reflexivity.
  Qed.

  Lemma run_prog_sids ops :
    map (fun sp => sid (sc sp)) (run_prog gen s ops) = map (fun k => snd (gen k)) (seq 0 (length ops)).
  Proof. unfold run_prog. now rewrite run_from_sids. Qed.

  (** ... so span ids are unique whenever the generator's answers are *)
  Lemma run_prog_unique ops :
    NoDup (map (fun k => snd (gen k)) (seq 0 (length ops))) ->
    NoDup (map (fun sp => sid (sc sp)) (run_prog gen s ops)).
  Proof. now rewrite run_prog_sids. Qed.

  (** a child started in the context of an earlier span of a valid trace carries that trace id *)
  Lemma run_prog_connected ops i j o spi spj :
    nth_error ops j = Some o -> par o = PSpan i -> newroot o = false -> (i < j)%nat ->
    nth_error (run_prog gen s ops) i = Some spi -> nth_error (run_prog gen s ops) j = Some spj ->
    tid_valid (tid (sc spi)) = true ->
    tid (sc spj) = tid (sc spi) /\ asked_ids spj = false.
  Proof.
    intros Ho Hp Hr Hij Hi Hj Hv. rewrite (run_prog_nth ops j o Ho) in Hj. inversion Hj as [E]; clear Hj.
    rewrite Hp, Hr. cbn [parent_of]. rewrite run_prog_firstn, nth_error_firstn_lt by exact Hij. rewrite Hi.
    unfold new_span. cbn [sc tid asked_ids]. now rewrite Hv.
  Qed.

  (** a root (no parent, or a new root demanded) gets the generator's trace id *)
  Lemma run_prog_root ops j o spj :
    nth_error ops j = Some o -> (par o = PNone \/ newroot o = true) ->
    nth_error (run_prog gen s ops) j = Some spj ->
    tid (sc spj) = fst (gen j) /\ asked_ids spj = true.
  Proof.
    intros Ho Hp Hj. rewrite (run_prog_nth ops j o Ho) in Hj. inversion Hj as [E]; clear Hj.
    unfold new_span.
    assert (Hz : (if newroot o then zero_sc else parent_of (run_prog gen s (firstn j ops)) (par o)) = zero_sc).
    { destruct Hp as [Hp|Hp]; rewrite Hp; [destruct (newroot o)|]; reflexivity. }
    rewrite Hz. cbn. auto.
  Qed.
End Gen.

(** ** environment table: finite part *)
Lemma env_names :
  sampler_from_env 0 None = (Some SAlways, false) /\
  sampler_from_env 1 None = (Some SNever, false) /\
  sampler_from_env 3 None = (Some (parent_based SAlways), false) /\
  sampler_from_env 4 None = (Some (parent_based SNever), false) /\
  (forall n a, 5 < n -> sampler_from_env n a = (None, true)).
Proof.
  repeat split. intros n a H.
  destruct n as [|p]; [lia|]. do 3 (destruct p as [p|p|]; try lia; try reflexivity).
Qed.

(** ** the stock ID generator over an arbitrary stream of source words *)
Section StockGen.
  Variable w : nat -> N.

  Lemma read_bytes_length n : forall st, length (fst (read_bytes w n st)) = n.
  Proof.
    induction n as [|n IH]; intro st; cbn [read_bytes]; [reflexivity|].
    destruct (read_byte w st) as [b st1]. specialize (IH st1).
    destruct (read_bytes w n st1) as [r st2]. cbn in *. now rewrite IH.
  Qed.

  (** byte accounting: after [total] bytes have been handed out, 7 * (words taken) = total + (bytes left) *)
  Definition acct (st : rstate) (total : nat) : Prop :=
    (7 * rk st = total + rpos st)%nat /\ (rpos st <= 6)%nat.

  Lemma acct_init : acct rinit 0.
  Proof. unfold acct, rinit; cbn; lia. Qed.

  Lemma read_byte_acct st T : acct st T -> acct (snd (read_byte w st)) (S T).
  Proof. unfold acct, read_byte. destruct (rpos st) eqn:E; cbn; lia. Qed.

  Lemma read_bytes_acct n : forall st T, acct st T -> acct (snd (read_bytes w n st)) (T + n).
  Proof.
    induction n as [|n IH]; intros st T H; cbn [read_bytes].
    - cbn. now rewrite Nat.add_0_r.
    - pose proof (read_byte_acct st T H) as H1. destruct (read_byte w st) as [b st1]. cbn [snd] in H1.
      specialize (IH st1 (S T) H1). destruct (read_bytes w n st1) as [r st2]. cbn [snd] in *.
      now replace (T + S n)%nat with (S T + n)%nat by lia.
  Qed.

  (** the state after i draws of n bytes *)
  Fixpoint after (n i : nat) (st : rstate) : rstate :=
    match i with O => st | S i' => after n i' (snd (read_bytes w n st)) end.

  Lemma after_acct n i : forall st T, acct st T -> acct (after n i st) (T + n * i).
  Proof.
    induction i as [|i IH]; intros st T H; cbn [after].
    - now rewrite Nat.mul_0_r, Nat.add_0_r.
    - apply (read_bytes_acct n) in H. apply IH in H.
      now replace (T + n * S i)%nat with (T + n + n * i)%nat by lia.
  Qed.

  (** The retry loop returns the first non-zero draw, and only that. *)
  Lemma draw_spec n fuel : forall st b st',
    draw w n fuel st = Some (b, st') ->
    exists j, (j < fuel)%nat /\
      (forall i, (i < j)%nat -> all_zero (fst (read_bytes w n (after n i st))) = true) /\
      read_bytes w n (after n j st) = (b, st') /\ all_zero b = false /\ length b = n.
  Proof.
    induction fuel as [|f IH]; intros st b st' H; cbn [draw] in H; [discriminate|].
    destruct (read_bytes w n st) as [b0 st0] eqn:E. destruct (all_zero b0) eqn:Ez.
    - apply IH in H as [j [Hj [Hz [Hr [Hb Hl]]]]]. exists (S j). split; [lia|]. split; [|split].
      + intros [|i] Hi; cbn [after]; rewrite ?E; cbn [fst snd]; [exact Ez|]. apply Hz. lia.
      + cbn [after]. rewrite E. exact Hr.
      + auto.
    - inversion H; subst. exists 0%nat. split; [lia|]. split; [intros i Hi; lia|]. split; [exact E|].
      split; [exact Ez|]. pose proof (read_bytes_length n st) as Hl. now rewrite E in Hl.
  Qed.

  Lemma draw_complete n fuel : forall st j,
    (j < fuel)%nat ->
    (forall i, (i < j)%nat -> all_zero (fst (read_bytes w n (after n i st))) = true) ->
    all_zero (fst (read_bytes w n (after n j st))) = false ->
    draw w n fuel st = Some (read_bytes w n (after n j st)).
  Proof.
    induction fuel as [|f IH]; intros st j Hj Hz Hn; [lia|]. cbn [draw].
    destruct (read_bytes w n st) as [b0 st0] eqn:E. destruct j as [|j].
    - cbn [after] in Hn |- *. rewrite E in Hn |- *. cbn [fst] in Hn. now rewrite Hn.
    - pose proof (Hz 0%nat ltac:(lia)) as H0. cbn [after] in H0. rewrite E in H0. cbn [fst] in H0. rewrite H0.
      cbn [after] in Hn |- *. rewrite E in Hn |- *. cbn [snd] in *. apply IH; [lia| |exact Hn].
      intros i Hi. specialize (Hz (S i) ltac:(lia)). cbn [after] in Hz. now rewrite E in Hz.
  Qed.

  (** words consumed: if T bytes had been handed out before, T + n * (j + 1) have been afterwards *)
  Lemma draw_acct n fuel st b st' T :
    acct st T -> draw w n fuel st = Some (b, st') ->
    exists j, (j < fuel)%nat /\ acct st' (T + n * S j) /\ all_zero b = false /\ length b = n.
  Proof.
    intros Ha H. apply draw_spec in H as [j [Hj [_ [Hr [Hb Hl]]]]]. exists j. split; [exact Hj|].
    split; [|auto]. pose proof (after_acct n j st T Ha) as H1. apply (read_bytes_acct n) in H1.
    rewrite Hr in H1. cbn [snd] in H1. now replace (T + n * S j)%nat with (T + n * j + n)%nat by lia.
  Qed.

  Lemma stock_span_id_valid fuel st sd st' :
    stock_span_id w fuel st = Some (sd, st') -> all_zero sd = false /\ length sd = 8%nat.
  Proof. intro H. apply draw_spec in H as [j [_ [_ [_ H]]]]. exact H. Qed.

  Lemma stock_ids_valid fuel st t sd st' :
    stock_ids w fuel st = Some (t, sd, st') ->
    all_zero t = false /\ length t = 16%nat /\ all_zero sd = false /\ length sd = 8%nat.
  Proof.
    unfold stock_ids. destruct (draw w 16 fuel st) as [[t0 st1]|] eqn:E1; [|discriminate].
    destruct (draw w 8 fuel st1) as [[s0 st2]|] eqn:E2; [|discriminate].
    intro H; inversion H; subst.
    apply draw_spec in E1 as [_ [_ [_ [_ [H1 H2]]]]]. apply draw_spec in E2 as [_ [_ [_ [_ [H3 H4]]]]]. auto.
  Qed.

  (** *** programs on the stock generator: an instance of the oracle *)
  Variable s : sampler.

  Lemma new_span_self g parent (nr : bool) :
    let sp := new_span s g parent nr in
    new_span s (tid (sc sp), sid (sc sp)) parent nr = sp.
  Proof.
    unfold new_span. cbn [sc tid sid fst snd].
    destruct (negb (tid_valid (tid (if nr then zero_sc else parent)))); reflexivity.
  Qed.

  Definition ids_of (res : list span) (k : nat) : bytes * bytes :=
    match nth_error res k with Some sp => (tid (sc sp), sid (sc sp)) | None => ([], []) end.

  Lemma run_stock_prefix fuel ops : forall spans st res st',
    run_stock w fuel s ops spans st = Some (res, st') -> exists extra, res = spans ++ extra.
  Proof.
    induction ops as [|o r IH]; intros spans st res st' H; cbn [run_stock] in H.
    - inversion H; subst. exists []. now rewrite app_nil_r.
    - match type of H with match ?a with _ => _ end = _ => destruct a as [[g st1]|]; [|discriminate] end.
      apply IH in H as [extra ->]. eexists. now rewrite <- app_assoc.
  Qed.

  (** the run equals the oracle run whose k-th answer is what the stock generator gave the k-th Start *)
  Lemma run_stock_oracle fuel ops : forall spans st res st' gen,
    run_stock w fuel s ops spans st = Some (res, st') ->
    (forall k, (length spans <= k)%nat -> gen k = ids_of res k) ->
    run_from gen s ops spans = res.
  Proof.
    induction ops as [|o r IH]; intros spans st res st' gen H Hg; cbn [run_stock] in H; cbn [run_from].
    - now inversion H.
    - match type of H with match ?a with _ => _ end = _ => destruct a as [[g st1]|]; [|discriminate] end.
      pose proof (run_stock_prefix _ _ _ _ _ _ H) as [extra Hp].
      set (sp := new_span s g (parent_of spans (par o)) (newroot o)) in *.
      assert (Hk : gen (length spans) = (tid (sc sp), sid (sc sp))).
      { rewrite Hg by lia. unfold ids_of. rewrite Hp, <- app_assoc. rewrite nth_error_app2 by lia.
        now rewrite Nat.sub_diag. }
      rewrite Hk. unfold sp at 1 2. rewrite new_span_self. fold sp.
      apply (IH _ _ _ _ gen H). intros k Hk2. apply Hg. rewrite app_length in Hk2. cbn in Hk2. lia.
  Qed.

  (** every span started on the stock generator has a non-zero 8-byte span id, and a root a non-zero 16-byte trace id *)
  Lemma run_stock_valid fuel ops : forall spans st res st',
    run_stock w fuel s ops spans st = Some (res, st') ->
    forall k sp, (length spans <= k)%nat -> nth_error res k = Some sp ->
      valid_sid (sid (sc sp)) = true /\ (asked_ids sp = true -> valid_tid (tid (sc sp)) = true).
  Proof.
    induction ops as [|o r IH]; intros spans st res st' H k sp Hk Hn; cbn [run_stock] in H.
    - inversion H; subst. assert (k < length res)%nat by (apply nth_error_Some; congruence). lia.
    - set (psc := if newroot o then zero_sc else parent_of spans (par o)) in *.
      destruct (tid_valid (tid psc)) eqn:Ev.
      + destruct (stock_span_id w fuel st) as [[sd st1]|] eqn:Es; [|discriminate].
        destruct (Nat.eq_dec k (length spans)) as [->|Hne].
        * pose proof (run_stock_prefix _ _ _ _ _ _ H) as [extra Hp].
          rewrite Hp, <- app_assoc, nth_error_app2, Nat.sub_diag in Hn by lia. cbn in Hn. inversion Hn; subst sp.
          apply stock_span_id_valid in Es as [Hz Hl]. unfold new_span. fold psc. cbn [sc sid asked_ids snd].
          rewrite Ev. cbn [negb]. split; [|discriminate]. unfold valid_sid. rewrite Hl. cbn. 
          change (zero sd) with (all_zero sd). now rewrite Hz.
        * apply (IH _ _ _ _ H k sp); [rewrite app_length; cbn; lia|exact Hn].
      + destruct (stock_ids w fuel st) as [[[t sd] st1]|] eqn:Es; [|discriminate].
        destruct (Nat.eq_dec k (length spans)) as [->|Hne].
        * pose proof (run_stock_prefix _ _ _ _ _ _ H) as [extra Hp].
          rewrite Hp, <- app_assoc, nth_error_app2, Nat.sub_diag in Hn by lia. cbn in Hn. inversion Hn; subst sp.
          apply stock_ids_valid in Es as [Hz [Hl [Hz2 Hl2]]]. unfold new_span. fold psc. cbn [sc sid tid asked_ids fst snd].
          rewrite Ev. cbn [negb]. unfold valid_sid, valid_tid. rewrite Hl, Hl2. cbn.
          change (zero sd) with (all_zero sd). change (zero t) with (all_zero t). now rewrite Hz, Hz2.
        * apply (IH _ _ _ _ H k sp); [rewrite app_length; cbn; lia|exact Hn].
  Qed.
End StockGen.

(** ** ParentBased options *)
Definition opt_tag (o : pb_option) : N * sampler :=
  match o with
  | ORemoteSampled s => (1, s) | ORemoteNotSampled s => (2, s) | OLocalSampled s => (3, s) | OLocalNotSampled s => (4, s)
  end.

Fixpoint eff_fold {A} (k : N) (opts : list (N * A)) (d : A) : A :=
  match opts with [] => d | o :: r => eff_fold k r (if fst o =? k then snd o else d) end.

Lemma find_app {A} (p : A -> bool) l1 l2 :
  find p (l1 ++ l2) = match find p l1 with Some x => Some x | None => find p l2 end.
Proof. induction l1 as [|x l IH]; cbn; [reflexivity|]. destruct (p x); [reflexivity|exact IH]. Qed.

Lemma eff_fold_effective {A} k (opts : list (N * A)) : forall d, eff_fold k opts d = effective k opts d.
Proof.
  unfold effective. induction opts as [|o r IH]; intro d; cbn [eff_fold rev]; [reflexivity|].
  rewrite IH, find_app. destruct (find (fun o0 => fst o0 =? k) (rev r)); [reflexivity|].
  cbn. destruct (fst o =? k); reflexivity.
Qed.

Lemma configure_fold opts : forall c,
  let c' := fold_left apply_option opts c in
  c_rs c' = eff_fold 1 (map opt_tag opts) (c_rs c) /\ c_rns c' = eff_fold 2 (map opt_tag opts) (c_rns c) /\
  c_ls c' = eff_fold 3 (map opt_tag opts) (c_ls c) /\ c_lns c' = eff_fold 4 (map opt_tag opts) (c_lns c).
Proof.
  induction opts as [|o r IH]; intro c; cbn [fold_left map eff_fold]; [auto|].
  destruct (IH (apply_option c o)) as [H1 [H2 [H3 H4]]]. cbn zeta. rewrite H1, H2, H3, H4.
  destruct o; cbn; auto.
Qed.

Lemma parent_based_with_spec root opts :
  let tagged := map opt_tag opts in
  parent_based_with root opts =
  SParent root (effective 1 tagged SAlways) (effective 2 tagged SNever)
               (effective 3 tagged SAlways) (effective 4 tagged SNever).
Proof.
  unfold parent_based_with, configure. destruct (configure_fold opts default_config) as [H1 [H2 [H3 H4]]].
  cbn zeta in *. rewrite H1, H2, H3, H4, !eff_fold_effective. reflexivity.
Qed.

(** ** the environment *)
Lemma one_always t : ratio_sampled ONE_BITS t = true.
Proof. reflexivity. Qed.

Lemma env_ratio_cases arg : (snd (env_ratio arg) = true -> fst (env_ratio arg) = SRatio ONE_BITS) /\
                            exists bits, fst (env_ratio arg) = SRatio bits.
Proof.
  unfold env_ratio. destruct arg as [[bits|]|]; [| split; [reflexivity|eexists; reflexivity] ..].
  generalize (negb (is_nan (classify bits)) && negb (fle (FFin false 0 0) (classify bits))).
  generalize (negb (is_nan (classify bits)) && negb (fle (classify bits) (FFin false 1 0))).
  intros [|] [|]; cbn [fst snd]; (split; [try reflexivity; try discriminate|eexists; reflexivity]).
Qed.

Lemma sampler_from_env_cases n arg :
  match sampler_from_env n arg with
  | (Some s, e) => stock s = true /\ (e = true -> forall t, dec (should_sample s zero_sc t) = RecordAndSample)
  | (None, e) => e = true
  end.
Proof.
  destruct (env_ratio_cases arg) as [He [bits Hb]].
  assert (Hn : n = 0 \/ n = 1 \/ n = 2 \/ n = 3 \/ n = 4 \/ n = 5 \/ 5 < n) by lia.
  destruct Hn as [->|[->|[->|[->|[->|[->|Hn]]]]]].
  - cbn. split; [reflexivity|discriminate].
  - cbn. split; [reflexivity|discriminate].
  - cbn. destruct (env_ratio arg) as [s e]. cbn [fst snd] in *. subst s. split; [reflexivity|].
    intros -> t. specialize (He eq_refl). inversion He; subst. cbn. now rewrite one_always.
  - cbn. split; [reflexivity|discriminate].
  - cbn. split; [reflexivity|discriminate].
  - cbn. destruct (env_ratio arg) as [s e]. cbn [fst snd] in *. subst s. split; [reflexivity|].
    intros -> t. specialize (He eq_refl). inversion He; subst. cbn. now rewrite one_always.
  - destruct env_names as [_ [_ [_ [_ H]]]]. now rewrite (H n arg Hn).
Qed.

(** Whatever the environment holds, the provider's sampler is a composition of the SDK's own samplers;
    when the configuration is rejected (unknown name, unparsable or out-of-range ratio) every root is sampled. *)
Lemma env_sampler_total raw arg :
  stock (provider_sampler raw arg) = true /\
  (env_error raw arg = true -> forall t, dec (should_sample (provider_sampler raw arg) zero_sc t) = RecordAndSample).
Proof.
  unfold provider_sampler, env_error. destruct raw as [v|]; [|split; [reflexivity|discriminate]].
  pose proof (sampler_from_env_cases (env_name_index v) arg) as H.
  destruct (sampler_from_env (env_name_index v) arg) as [[s|] e]; cbn [fst snd] in *.
  - exact H.
  - split; [reflexivity|]. intros _ t. reflexivity.
Qed.
