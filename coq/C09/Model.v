(** C09 model: sampling decisions and span identity.
    Mirrors sdk/trace/sampling.go (TraceIDRatioBased / traceIDRatioSampler,
    AlwaysSample, NeverSample, ParentBased and its options), sdk/trace/tracer.go
    (newSpan: ids, sampler call, flags, recording vs non-recording span),
    the IDGenerator interface of id_generator.go (as an oracle), the sampled-only
    forwarding of simple_span_processor.go / batch_span_processor.go, and the
    table of sampler_env.go.  Executable definitions only. *)
From Verif Require Import Lib.Base Lib.Float64Bits.
Open Scope N_scope.

(** *** span contexts *)
Record spanctx := { tid : bytes; sid : bytes; flags : N; tstate : bytes; remote : bool }.
(* tstate: the tracestate in its string form *)

Definition all_zero (b : bytes) : bool := forallb (fun x => x =? 0) b.
Definition tid_valid (t : bytes) : bool := negb (all_zero t).
Definition sc_valid (sc : spanctx) : bool := tid_valid (tid sc) && negb (all_zero (sid sc)).
Definition is_sampled (sc : spanctx) : bool := N.odd (flags sc).      (* flags & FlagsSampled *)

Definition zero_sc : spanctx :=
  {| tid := repeat 0 16; sid := repeat 0 8; flags := 0; tstate := []; remote := false |}.

(** *** the ratio sampler *)
Definition be64 (b : bytes) : N := fold_left (fun a x => a * 256 + x) b 0.
(* binary.BigEndian.Uint64(tid[8:16]) >> 1 *)
Definition tid_x (t : bytes) : N := be64 (firstn 8 (skipn 8 t)) / 2.

Inductive ratio_kind :=
| RAlways                 (* fraction >= 1: AlwaysSample() *)
| RBound (b : N)          (* traceIDUpperBound *)
| RUnspecified.           (* NaN: uint64(NaN) is implementation-defined in Go *)

(** TraceIDRatioBased(f), f given by its bit pattern.  f * (1<<63) is exact in
    binary64 for 0 < f < 1 (a power-of-two scaling below 2^63), and uint64()
    truncates: floor (m * 2^(e+63)). *)
Definition ratio_kind_of (bits : N) : ratio_kind :=
  let c := classify bits in
  match c with
  | FNaN => RUnspecified
  | _ =>
    if ge_one c then RAlways
    else if le_zero c then RBound 0
    else match c with
         | FFin _ m e => RBound (Z.to_N (Z.shiftl m (e + 63)))
         | _ => RBound 0
         end
  end.

Definition ratio_sampled (bits : N) (t : bytes) : bool :=
  match ratio_kind_of bits with
  | RAlways => true
  | RBound b => tid_x t <? b
  | RUnspecified => false
  end.

(** *** samplers *)
(* DOther k: the out-of-range SamplingDecision value 3 + k a custom sampler may answer *)
Inductive decision := Drop | RecordOnly | RecordAndSample | DOther (k : N).

Definition decision_eqb (a b : decision) : bool :=
  match a, b with
  | Drop, Drop | RecordOnly, RecordOnly | RecordAndSample, RecordAndSample => true
  | DOther j, DOther k => j =? k
  | _, _ => false
  end.

(** A custom sampler answers a fixed decision and either hands back the parent's
    tracestate ([None]) or supplies its own. *)
Inductive sampler :=
| SAlways
| SNever
| SRatio (bits : N)
| SParent (root rs rns ls lns : sampler)   (* root, remote sampled / not sampled, local sampled / not sampled *)
| SCustom (d : decision) (ts : option bytes).

Record sresult := { dec : decision; rts : bytes; path : list N }.
(* path: which delegate of each ParentBased on the way was asked: 0 root, 1 rs, 2 rns, 3 ls, 4 lns *)

(** parentBased.ShouldSample: which delegate is asked. *)
Definition pb_index (psc : spanctx) : N :=
  if sc_valid psc then
    if remote psc then (if is_sampled psc then 1 else 2)
    else (if is_sampled psc then 3 else 4)
  else 0.

Fixpoint should_sample (s : sampler) (psc : spanctx) (t : bytes) : sresult :=
  match s with
  | SAlways => {| dec := RecordAndSample; rts := tstate psc; path := [] |}
  | SNever => {| dec := Drop; rts := tstate psc; path := [] |}
  | SRatio bits =>
      {| dec := if ratio_sampled bits t then RecordAndSample else Drop; rts := tstate psc; path := [] |}
  | SParent root rs rns ls lns =>
      let k := pb_index psc in
      let r := match k with
               | 1 => should_sample rs psc t
               | 2 => should_sample rns psc t
               | 3 => should_sample ls psc t
               | 4 => should_sample lns psc t
               | _ => should_sample root psc t
               end in
      {| dec := dec r; rts := rts r; path := k :: path r |}
  | SCustom d ts =>
      {| dec := d; rts := match ts with Some x => x | None => tstate psc end; path := [] |}
  end.

(** Compositions of the SDK's own samplers (no user sampler anywhere). *)
Fixpoint stock (s : sampler) : bool :=
  match s with
  | SAlways | SNever | SRatio _ => true
  | SParent a b c d e => stock a && stock b && stock c && stock d && stock e
  | SCustom _ _ => false
  end.

(** ParentBased(root) with the default options. *)
Definition parent_based (root : sampler) : sampler := SParent root SAlways SNever SAlways SNever.

(** ParentBased(root, options...): configureSamplersForParentBased starts from the defaults and
    applies the options in the order given, each overwriting one delegate. *)
Inductive pb_option :=
| ORemoteSampled (s : sampler)       (* WithRemoteParentSampled *)
| ORemoteNotSampled (s : sampler)    (* WithRemoteParentNotSampled *)
| OLocalSampled (s : sampler)        (* WithLocalParentSampled *)
| OLocalNotSampled (s : sampler).    (* WithLocalParentNotSampled *)

Record pb_config := { c_rs : sampler; c_rns : sampler; c_ls : sampler; c_lns : sampler }.
Definition default_config : pb_config := {| c_rs := SAlways; c_rns := SNever; c_ls := SAlways; c_lns := SNever |}.

Definition apply_option (c : pb_config) (o : pb_option) : pb_config :=
  match o with
  | ORemoteSampled s => {| c_rs := s; c_rns := c_rns c; c_ls := c_ls c; c_lns := c_lns c |}
  | ORemoteNotSampled s => {| c_rs := c_rs c; c_rns := s; c_ls := c_ls c; c_lns := c_lns c |}
  | OLocalSampled s => {| c_rs := c_rs c; c_rns := c_rns c; c_ls := s; c_lns := c_lns c |}
  | OLocalNotSampled s => {| c_rs := c_rs c; c_rns := c_rns c; c_ls := c_ls c; c_lns := s |}
  end.

Definition configure (opts : list pb_option) : pb_config := fold_left apply_option opts default_config.

Definition parent_based_with (root : sampler) (opts : list pb_option) : sampler :=
  let c := configure opts in SParent root (c_rs c) (c_rns c) (c_ls c) (c_lns c).

(** *** newSpan.  [g] is what the ID generator returns for this call: NewIDs gives
    both, NewSpanID only the span id (the first component is then ignored). *)
Record span := { sc : spanctx; recording : bool; asked_ids : bool; sres : sresult }.
(* asked_ids: NewIDs was called (no valid parent trace id) rather than NewSpanID *)

Definition new_span (s : sampler) (g : bytes * bytes) (parent : spanctx) (newroot : bool) : span :=
  let psc := if newroot then zero_sc else parent in
  let fresh := negb (tid_valid (tid psc)) in
  let t := if fresh then fst g else tid psc in
  let r := should_sample s psc t in
  let fl := match dec r with
            | RecordAndSample => N.lor (flags psc) 1
            | _ => N.land (flags psc) 254            (* &^ FlagsSampled on a byte *)
            end in
  {| sc := {| tid := t; sid := snd g; flags := fl; tstate := rts r; remote := false |};
     (* isRecording: Decision == RecordOnly || Decision == RecordAndSample (equality tests: an out-of-range answer does not record) *)
     recording := match dec r with RecordOnly | RecordAndSample => true | _ => false end;
     asked_ids := fresh;
     sres := r |}.

(** A span reaches the exporter (through a simple or batch processor) when it is
    recording - only recording spans are handed to OnEnd - and its sampled flag is set. *)
Definition exported (sp : span) : bool := recording sp && is_sampled (sc sp).

(** *** programs: span trees.  A Start names its parent: none, the i-th span
    started earlier (its context), or a span context put into the context by hand
    (remote or not). *)
Inductive parent_ref := PNone | PSpan (i : nat) | PCtx (c : spanctx).
Record start_op := { par : parent_ref; newroot : bool }.

Definition parent_of (spans : list span) (p : parent_ref) : spanctx :=
  match p with
  | PNone => zero_sc
  | PSpan i => match nth_error spans i with Some sp => sc sp | None => zero_sc end
  | PCtx c => c
  end.

Section Generator.
  (** The ID generator as an oracle: the k-th call (counted from 0 over the life
      of the provider) returns [gen k]. *)
  Variable gen : nat -> bytes * bytes.

  (** spans started so far, in order; the call counter is their number. *)
  Fixpoint run_from (s : sampler) (ops : list start_op) (spans : list span) : list span :=
    match ops with
    | [] => spans
    | o :: r =>
        let sp := new_span s (gen (length spans)) (parent_of spans (par o)) (newroot o) in
        run_from s r (spans ++ [sp])
    end.

  Definition run_prog (s : sampler) (ops : list start_op) : list span := run_from s ops [].
End Generator.

(** Exporter contents after every span has been ended in start order. *)
Definition exported_ids (spans : list span) : list bytes :=
  map (fun sp => sid (sc sp)) (filter exported spans).

(** *** OTEL_TRACES_SAMPLER / OTEL_TRACES_SAMPLER_ARG (sampler_env.go).
    name: lower-cased trimmed value, as an index: 0 always_on, 1 always_off,
    2 traceidratio, 3 parentbased_always_on, 4 parentbased_always_off,
    5 parentbased_traceidratio, other = unsupported.  arg: None = unset,
    Some None = set but strconv.ParseFloat fails, Some (Some bits) = parsed value.
    Result: the sampler (None = fall back to the default / option) and whether an error is reported. *)
Definition ONE_BITS : N := 4607182418800017408.   (* 1.0 *)

Definition env_ratio (arg : option (option N)) : sampler * bool :=
  match arg with
  | None => (SRatio ONE_BITS, false)
  | Some None => (SRatio ONE_BITS, true)
  | Some (Some bits) =>
      let c := classify bits in
      (* v < 0.0 , v > 1.0 ; NaN passes both tests *)
      if negb (is_nan c) && negb (fle (FFin false 0 0) c) then (SRatio ONE_BITS, true)
      else if negb (is_nan c) && negb (fle c (FFin false 1 0)) then (SRatio ONE_BITS, true)
      else (SRatio bits, false)
  end.

(** strings.ToLower(strings.TrimSpace(v)) on ASCII, then the switch. *)
Definition ascii_blank (c : N) : bool := ((9 <=? c) && (c <=? 13)) || (c =? 32).
Fixpoint trim_l (s : bytes) : bytes :=
  match s with c :: r => if ascii_blank c then trim_l r else s | [] => [] end.
Definition trim (s : bytes) : bytes := rev (trim_l (rev (trim_l s))).
Definition lower (c : N) : N := if (65 <=? c) && (c <=? 90) then c + 32 else c.

Definition env_name_index (raw : bytes) : N :=
  let v := map lower (trim raw) in
  if bytes_eqb v (str "always_on") then 0
  else if bytes_eqb v (str "always_off") then 1
  else if bytes_eqb v (str "traceidratio") then 2
  else if bytes_eqb v (str "parentbased_always_on") then 3
  else if bytes_eqb v (str "parentbased_always_off") then 4
  else if bytes_eqb v (str "parentbased_traceidratio") then 5
  else 6.

Definition sampler_from_env (name : N) (arg : option (option N)) : option sampler * bool :=
  match name with
  | 0 => (Some SAlways, false)
  | 1 => (Some SNever, false)
  | 2 => let '(s, e) := env_ratio arg in (Some s, e)
  | 3 => (Some (parent_based SAlways), false)
  | 4 => (Some (parent_based SNever), false)
  | 5 => let '(s, e) := env_ratio arg in (Some (parent_based s), e)
  | _ => (None, true)
  end.

(** whether samplerFromEnv reports an error (handed to otel.Handle) *)
Definition env_error (raw : option bytes) (arg : option (option N)) : bool :=
  match raw with None => false | Some v => snd (sampler_from_env (env_name_index v) arg) end.

(** The provider's sampler when none is given as an option: OTEL_TRACES_SAMPLER
    (None = unset), falling back to ParentBased(AlwaysSample()). *)
Definition provider_sampler (raw : option bytes) (arg : option (option N)) : sampler :=
  match raw with
  | None => parent_based SAlways
  | Some v => match fst (sampler_from_env (env_name_index v) arg) with
              | Some s => s
              | None => parent_based SAlways
              end
  end.

(** *** the stock randomIDGenerator (id_generator.go) over a scripted rand.Source.
    math/rand's Rand.Read (rand.go, func read) hands out the seven low bytes of
    each 63-bit source word, least significant first, and keeps the unread bytes
    of the current word for the next Read.  [w k] is the k-th word of the source. *)
Record rstate := { rk : nat; rval : N; rpos : nat }.   (* words taken, rest of the current word, bytes left in it *)
Definition rinit : rstate := {| rk := 0; rval := 0; rpos := 0 |}.

Section Stock.
  Variable w : nat -> N.

  Definition read_byte (st : rstate) : N * rstate :=
    match rpos st with
    | O => let v := w (rk st) in (v mod 256, {| rk := S (rk st); rval := v / 256; rpos := 6 |})
    | S p => (rval st mod 256, {| rk := rk st; rval := rval st / 256; rpos := p |})
    end.

  Fixpoint read_bytes (n : nat) (st : rstate) : bytes * rstate :=
    match n with
    | O => ([], st)
    | S n' => let '(b, st1) := read_byte st in
              let '(r, st2) := read_bytes n' st1 in (b :: r, st2)
    end.

  (** for { Read(id[:]); if id.IsValid() { break } }  with the loop on explicit fuel *)
  Fixpoint draw (n fuel : nat) (st : rstate) : option (bytes * rstate) :=
    match fuel with
    | O => None
    | S f => let '(b, st') := read_bytes n st in
             if all_zero b then draw n f st' else Some (b, st')
    end.

  Definition stock_span_id (fuel : nat) (st : rstate) : option (bytes * rstate) := draw 8 fuel st.
  Definition stock_ids (fuel : nat) (st : rstate) : option (bytes * bytes * rstate) :=
    match draw 16 fuel st with
    | None => None
    | Some (t, st1) => match draw 8 fuel st1 with
                       | None => None
                       | Some (s, st2) => Some (t, s, st2)
                       end
    end.

  (** a program on a provider whose ID generator is the stock one *)
  Fixpoint run_stock (fuel : nat) (s : sampler) (ops : list start_op) (spans : list span) (st : rstate)
    : option (list span * rstate) :=
    match ops with
    | [] => Some (spans, st)
    | o :: r =>
        let parent := parent_of spans (par o) in
        let psc := if newroot o then zero_sc else parent in
        let ans := if tid_valid (tid psc)
                   then match stock_span_id fuel st with Some (sd, st') => Some (([], sd), st') | None => None end
                   else match stock_ids fuel st with Some (t, sd, st') => Some ((t, sd), st') | None => None end in
        match ans with
        | None => None
        | Some (g, st') => run_stock fuel s r (spans ++ [new_span s g parent (newroot o)]) st'
        end
    end.
End Stock.
