(** C09 property theorems.  Statements only, each closed by lemmas of
    Proofs.v; the axiom audit; non-vacuity examples. *)
From Verif Require Import Lib.Base Lib.Float64Bits C09.Model C09.Spec C09.Proofs.
Open Scope N_scope.

(** The ratio sampler decides as a function of the ratio and of the 63 bits
    [coord t] of the trace id only - not of the parent, the name or anything else. *)
Theorem c09_ratio_deterministic : forall r t t' (psc psc' : spanctx),
  coord t = coord t' ->
  ratio_sampled r t = ratio_sampled r t' /\
  dec (should_sample (SRatio r) psc t) = dec (should_sample (SRatio r) psc' t').
Proof.
  intros r t t' psc psc' H. pose proof (ratio_deterministic r t t' H) as E.
  split; [exact E|]. cbn. now rewrite E.
Qed.
Print Assumptions c09_ratio_deterministic.

(** ... in the form the harness judges observations by: wherever the ratio sampler answers, for
    every parent (any flags, remote or not), its decision is its parentless decision for the trace id. *)
Theorem c09_ratio_parent_independent : forall r psc t,
  parent_independent (code (dec (should_sample (SRatio r) psc t))) (ratio_sampled r t) = true.
Proof. intros r psc t. cbn. destruct (ratio_sampled r t); reflexivity. Qed.
Print Assumptions c09_ratio_parent_independent.

(** Monotone in the ratio: for ALL bit patterns r, r' denoting values r <= r'
    (infinities included, NaN excluded by [fle]) and ALL trace ids. *)
Theorem c09_ratio_monotone : monotone ratio_sampled.
Proof. exact ratio_monotone. Qed.
Print Assumptions c09_ratio_monotone.

(** Ratios <= 0 (also -0, negatives, -Inf) sample nothing; ratios >= 1 (also +Inf) everything. *)
Theorem c09_ratio_extremes : extremes ratio_sampled.
Proof. exact ratio_extremes. Qed.
Print Assumptions c09_ratio_extremes.

(** The sampled share tracks the ratio: for every finite 0 < r < 1 exactly b of the 2^63
    points of the sample space are sampled, with b/2^63 in (r - 2^-63, r]. *)
Theorem c09_ratio_share : share ratio_sampled.
Proof. exact ratio_share. Qed.
Print Assumptions c09_ratio_share.

(** ParentBased asks exactly the delegate that the parent's shape selects
    (all parent shapes, all compositions) ... *)
Theorem c09_parent_based_dispatch : forall root rs rns ls lns psc t,
  let sub := pick (octx_of psc) root rs rns ls lns in
  let r := should_sample sub psc t in
  should_sample (SParent root rs rns ls lns) psc t =
  {| dec := dec r; rts := rts r; path := pick_index (octx_of psc) :: path r |}.
Proof. exact parent_based_dispatch. Qed.
Print Assumptions c09_parent_based_dispatch.

(** ... and with the default options a child gets the decision of its local or
    remote parent (and the parent's tracestate); without a valid parent the root sampler decides. *)
Theorem c09_parent_based_follows_parent : forall root psc t,
  let r := should_sample (parent_based root) psc t in
  match default_parent_decision (octx_of psc) with
  | Some d => code (dec r) = d /\ rts r = tstate psc
  | None => dec r = dec (should_sample root psc t) /\ rts r = rts (should_sample root psc t)
  end.
Proof. exact parent_based_follows. Qed.
Print Assumptions c09_parent_based_follows_parent.

(** ParentBased(root, options...) for ALL option lists (any number, any order, repeated): every delegate is
    the sampler of the LAST option naming it, the default (AlwaysSample for sampled parents, NeverSample
    for unsampled ones) if none does; with c09_parent_based_dispatch this fixes every decision. *)
Theorem c09_parent_based_options : forall root opts,
  let tagged := map opt_tag opts in
  parent_based_with root opts =
  SParent root (effective 1 tagged SAlways) (effective 2 tagged SNever)
               (effective 3 tagged SAlways) (effective 4 tagged SNever).
Proof. exact parent_based_with_spec. Qed.
Print Assumptions c09_parent_based_options.

(** OTEL_TRACES_SAMPLER / OTEL_TRACES_SAMPLER_ARG, for ALL values of the variable (any bytes, or unset) and every
    outcome of parsing the argument (unset, unparsable, any bit pattern): the provider's sampler is a
    composition of the SDK's own samplers, and whenever the configuration is rejected (unknown sampler name,
    unparsable, negative or > 1 ratio) every root span is sampled. *)
Theorem c09_env_sampler : forall raw arg,
  stock (provider_sampler raw arg) = true /\
  (env_error raw arg = true -> forall t, dec (should_sample (provider_sampler raw arg) zero_sc t) = RecordAndSample).
Proof. exact env_sampler_total. Qed.
Print Assumptions c09_env_sampler.

(** One Start, any sampler, any generator answer, any parent (flags a byte), new
    root or not: the span id is the generator's; the trace id is the parent's if it
    has one, else the generator's; sampled flag <=> RecordAndSample, the other flag
    bits are the parent's; recording <=> not Drop; exported <=> sampled; the
    tracestate is the one the sampler answered, which for every composition of the SDK's own
    samplers ([stock s]) is the parent's, whatever the decision - dropped spans included; never remote.  The sampler was asked
    with the effective parent and the span's trace id; NewIDs was called iff the
    parent has no trace id. *)
Theorem c09_flags_recording_export : forall s g parent (newroot : bool),
  flags parent < 256 ->
  let psc := if newroot then zero_sc else parent in
  let sp := new_span s g parent newroot in
  start_ok (stock s) (octx_of psc) (fst g) (snd g) (code (dec (sres sp))) (rts (sres sp))
           (octx_of (sc sp)) (recording sp) (exported sp) = true /\
  sres sp = should_sample s psc (tid (sc sp)) /\
  asked_ids sp = zero (tid psc).
Proof. exact new_span_ok. Qed.
Print Assumptions c09_flags_recording_export.

(** Tracestate: the span carries what the sampler answered (previous theorem);
    every stock sampler composition answers the parent's. *)
Theorem c09_tracestate_from_sampler : forall s psc t,
  stock s = true -> rts (should_sample s psc t) = tstate psc.
Proof. exact stock_tracestate. Qed.
Print Assumptions c09_tracestate_from_sampler.

(** Span trees of any shape, any generator [gen] (an oracle: its k-th answer is
    [gen k]): the j-th Start is one [new_span] on the j-th answer with the parent as
    it was then; a child of an earlier span of a valid trace carries that trace id
    (NewSpanID was asked), a root carries the generator's (NewIDs was asked);
    valid generator answers give valid span contexts. *)
Theorem c09_trace_id_inherited_or_fresh : forall gen s ops,
  (forall j o, nth_error ops j = Some o ->
     nth_error (run_prog gen s ops) j =
     Some (new_span s (gen j) (parent_of (run_prog gen s (firstn j ops)) (par o)) (newroot o))) /\
  (forall i j o spi spj,
     nth_error ops j = Some o -> par o = PSpan i -> newroot o = false -> (i < j)%nat ->
     nth_error (run_prog gen s ops) i = Some spi -> nth_error (run_prog gen s ops) j = Some spj ->
     tid_valid (tid (sc spi)) = true ->
     tid (sc spj) = tid (sc spi) /\ asked_ids spj = false) /\
  (forall j o spj,
     nth_error ops j = Some o -> (par o = PNone \/ newroot o = true) ->
     nth_error (run_prog gen s ops) j = Some spj ->
     tid (sc spj) = fst (gen j) /\ asked_ids spj = true) /\
  (forall g parent (nr : bool), Nat.eqb (length (tid parent)) 16 = true ->
     ids_ok (octx_of (if nr then zero_sc else parent)) (fst g) (snd g)
            (octx_of (sc (new_span s g parent nr))) = true).
Proof.
  intros gen s ops. split; [|split; [|split]].
  - apply run_prog_nth.
  - apply run_prog_connected.
  - apply run_prog_root.
  - intros g parent nr H. exact (new_span_valid s g parent nr H).
Qed.
Print Assumptions c09_trace_id_inherited_or_fresh.

(** Every Start makes exactly one generator call (as many spans as Starts, the
    k-th span holds the k-th answer's span id, unchanged), so span ids are unique
    whenever the generator's answers are. *)
Theorem c09_ids_from_generator : forall gen s ops,
  length (run_prog gen s ops) = length ops /\
  map (fun sp => sid (sc sp)) (run_prog gen s ops) = map (fun k => snd (gen k)) (seq 0 (length ops)) /\
  (NoDup (map (fun k => snd (gen k)) (seq 0 (length ops))) ->
   NoDup (map (fun sp => sid (sc sp)) (run_prog gen s ops))).
Proof.
  intros gen s ops. split; [apply run_prog_length|]. split; [apply run_prog_sids|apply run_prog_unique].
Qed.
Print Assumptions c09_ids_from_generator.

(** The stock ID generator (randomIDGenerator over math/rand's Rand.Read), for ALL streams [w]
    of source words, all reader states, any fuel for the two retry loops:
    a returned id is the first non-zero draw - all earlier draws were zero, it has the right
    length and is non-zero (a); conversely the loop returns as soon as a non-zero draw occurs
    within the fuel (b); if T bytes had been handed out before, T + n*(j+1) have been afterwards,
    where 7 * (words taken from the source) = bytes handed out + bytes left in the current word (c);
    NewSpanID / NewIDs return non-zero ids of 8 / 16 and 8 bytes, drawn independently (d). *)
Theorem c09_stock_generator : forall (w : nat -> N),
  (forall n fuel st b st', draw w n fuel st = Some (b, st') ->
     exists j, (j < fuel)%nat /\
       (forall i, (i < j)%nat -> all_zero (fst (read_bytes w n (after w n i st))) = true) /\
       read_bytes w n (after w n j st) = (b, st') /\ all_zero b = false /\ length b = n) /\
  (forall n fuel st j, (j < fuel)%nat ->
     (forall i, (i < j)%nat -> all_zero (fst (read_bytes w n (after w n i st))) = true) ->
     all_zero (fst (read_bytes w n (after w n j st))) = false ->
     draw w n fuel st = Some (read_bytes w n (after w n j st))) /\
  (forall n fuel st b st' T, acct st T -> draw w n fuel st = Some (b, st') ->
     exists j, (j < fuel)%nat /\ acct st' (T + n * S j) /\ all_zero b = false /\ length b = n) /\
  (forall fuel st sd st', stock_span_id w fuel st = Some (sd, st') -> all_zero sd = false /\ length sd = 8%nat) /\
  (forall fuel st t sd st', stock_ids w fuel st = Some (t, sd, st') ->
     all_zero t = false /\ length t = 16%nat /\ all_zero sd = false /\ length sd = 8%nat).
Proof.
  intro w. split; [exact (draw_spec w)|]. split; [exact (draw_complete w)|]. split; [exact (draw_acct w)|].
  split; [exact (stock_span_id_valid w)|exact (stock_ids_valid w)].
Qed.
Print Assumptions c09_stock_generator.

(** ... and a provider using it is an instance of the oracle of [c09_ids_from_generator] /
    [c09_trace_id_inherited_or_fresh]: whenever the program runs to completion (fuel not exhausted)
    it is the oracle run whose k-th answer is what the stock generator gave the k-th Start, and every
    started span carries a valid span id, every root a valid trace id. *)
Theorem c09_stock_generator_spans_valid : forall (w : nat -> N) fuel s ops res st',
  run_stock w fuel s ops [] rinit = Some (res, st') ->
  res = run_prog (ids_of res) s ops /\
  forall k sp, nth_error res k = Some sp ->
    valid_sid (sid (sc sp)) = true /\ (asked_ids sp = true -> valid_tid (tid (sc sp)) = true).
Proof.
  intros w fuel s ops res st' H. split.
  - symmetry. unfold run_prog. apply (run_stock_oracle w s fuel ops [] rinit res st' _ H). reflexivity.
  - intros k sp Hn. apply (run_stock_valid w s fuel ops [] rinit res st' H k sp); [cbn; lia|exact Hn].
Qed.
Print Assumptions c09_stock_generator_spans_valid.

(** Non-vacuity. *)
Definition HALF : N := 4602678819172646912.          (* 0.5 *)
Definition tid_lo (x : N) : bytes := repeat 0 8 ++ [x / 2 ^ 56; (x / 2 ^ 48) mod 256; (x / 2 ^ 40) mod 256;
  (x / 2 ^ 32) mod 256; (x / 2 ^ 24) mod 256; (x / 2 ^ 16) mod 256; (x / 2 ^ 8) mod 256; x mod 256].
Example ex_half :
  ratio_kind_of HALF = RBound (2 ^ 62) /\
  ratio_sampled HALF (tid_lo (2 ^ 63 - 1)) = true /\ ratio_sampled HALF (tid_lo (2 ^ 63)) = false /\
  ratio_sampled HALF (tid_lo (2 ^ 63 - 2)) = true /\ ratio_sampled HALF (tid_lo (2 ^ 63 + 1)) = false /\
  fle (classify HALF) (classify ONE_BITS) = true /\ (0 < scaled false (2 ^ 52) (-53) < 2 ^ 1074)%Z /\
  classify HALF = FFin false (2 ^ 52) (-53).
Proof. vm_compute. repeat split; reflexivity. Qed.

Definition ex_gen (k : nat) : bytes * bytes := (repeat (N.of_nat k + 1) 16, repeat (N.of_nat k + 1) 8).
Definition ex_remote : spanctx :=
  {| tid := repeat 7 16; sid := repeat 9 8; flags := 3; tstate := str "a=1"; remote := true |}.
Example ex_tree :
  let ops := [{| par := PNone; newroot := false |}; {| par := PSpan 0; newroot := false |};
              {| par := PCtx ex_remote; newroot := false |}; {| par := PSpan 2; newroot := true |}] in
  let r := run_prog ex_gen (parent_based (SCustom RecordOnly (Some (str "x=y")))) ops in
  map (fun sp => (tid (sc sp), flags (sc sp), recording sp, exported sp, tstate (sc sp))) r =
  [(repeat 1 16, 0, true, false, str "x=y"); (repeat 1 16, 0, false, false, str "x=y");
   (repeat 7 16, 3, true, true, str "a=1"); (repeat 4 16, 0, true, false, str "x=y")].
Proof. vm_compute. reflexivity. Qed.

(* words 0, 0, 65536 (only its third byte is non-zero), 0, then 0x0101010101010101: the first 16-byte draw
   sees 14 + 2 zero bytes and is retried; the second starts inside the third word; the span id follows *)
Definition ex_words (k : nat) : N := match k with 0%nat | 1%nat => 0 | 2%nat => 65536 | 3%nat => 0 | _ => 72340172838076673 end.
Example ex_stock :
  stock_ids ex_words 8 rinit =
  Some ([1;0;0;0;0; 0;0;0;0;0;0;0; 1;1;1;1], [1;1;1;1;1;1;1;1], {| rk := 6; rval := 65793; rpos := 2 |}) /\
  stock_ids ex_words 1 rinit = None.
Proof. vm_compute. auto. Qed.

Example ex_options :
  parent_based_with SNever [OLocalSampled SNever; ORemoteSampled (SCustom RecordOnly None); OLocalSampled (SRatio HALF); ORemoteSampled SNever]
  = SParent SNever SNever SNever (SRatio HALF) SNever /\
  provider_sampler (Some (str " ParentBased_TraceIdRatio ")) (Some None) = parent_based (SRatio ONE_BITS) /\
  env_error (Some (str "traceidratio")) (Some (Some (2 ^ 63 + HALF))) = true /\
  provider_sampler (Some (str "traceidratio")) (Some (Some HALF)) = SRatio HALF /\
  provider_sampler (Some (str "jaeger_remote")) None = parent_based SAlways.
Proof. vm_compute. auto. Qed.
