(** C09 specification: what the property demands of sampling decisions and
    span identity, as relations between what a user supplies (ratio, trace id,
    parent context, what the sampler answered, what the ID generator returned)
    and what a user observes (span context, IsRecording, exporter contents).
    Uses only the IEEE-754 decoding of Lib/Float64Bits; does not mention the model. *)
From Verif Require Import Lib.Base Lib.Float64Bits.
Open Scope N_scope.

(** ** The ratio sampler.  A ratio is given by its binary64 bit pattern [r];
    [D r t] is the decision for trace id [t]. *)
Definition Decision := N -> bytes -> bool.

(** a trace sampled at r is sampled at every r' >= r *)
Definition monotone (D : Decision) : Prop :=
  forall r r' t, fle (classify r) (classify r') = true -> D r t = true -> D r' t = true.

(** ratios <= 0 sample nothing, ratios >= 1 sample everything *)
Definition extremes (D : Decision) : Prop :=
  forall r t, (le_zero (classify r) = true -> D r t = false) /\
              (ge_one (classify r) = true -> D r t = true).

(** The sample space: the decision looks at the trace id only through the 63-bit
    number in the upper 63 bits of its low half. *)
Definition be64 (b : bytes) : N := fold_left (fun a x => a * 256 + x) b 0.
Definition coord (t : bytes) : N := be64 (firstn 8 (skipn 8 t)) / 2.
Definition SPACE : N := 2 ^ 63.

(** |{ x < n | p x }| *)
Definition count_below (p : N -> bool) (n : N) : N :=
  N.peano_rect (fun _ => N) 0 (fun i acc => if p i then N.succ acc else acc) n.

(** cnt / 2^63 lies in (r - 2^-63, r] for the finite ratio 0 <= r = m * 2^e < 1:
    cnt <= r * 2^63 < cnt + 1, written over integers scaled by 2^1074. *)
Definition tracks (m e : Z) (cnt : N) : Prop :=
  (Z.of_N cnt * 2 ^ 1011 <= scaled false m e < (Z.of_N cnt + 1) * 2 ^ 1011)%Z.

(** The sampled share tracks r: for a finite 0 < r < 1 there is a count [b] of
    sampled points of the space, the sampled ids are exactly those whose
    coordinate is among them, and b/2^63 is r rounded down to a multiple of 2^-63. *)
Definition share (D : Decision) : Prop :=
  forall r m e, classify r = FFin false m e -> (0 < scaled false m e < ONE)%Z ->
    exists b, b <= SPACE /\
              (forall t, D r t = (coord t <? b)) /\
              count_below (fun x => x <? b) SPACE = b /\
              tracks m e b.

(** Decidable pairwise reading used on observations: decisions d1, d2 of ratios
    r1, r2 (no NaN) for one trace id. *)
Definition pair_ok (r1 r2 : N) (d1 d2 : bool) : bool :=
  let c1 := classify r1 in let c2 := classify r2 in
  implb (fle c1 c2 && d1) d2 && implb (fle c2 c1 && d2) d1 &&
  implb (le_zero c1) (negb d1) && implb (le_zero c2) (negb d2) &&
  implb (ge_one c1) d1 && implb (ge_one c2) d2.

(** A sample of trace ids: the observed share must be within [tol]/256 of r (for 0 <= r <= 1). *)
Definition share_sample_ok (r : N) (ds : list bool) (tol : Z) : bool :=
  match classify r with
  | FFin false m e =>
      let n := Z.of_nat (length ds) in
      let k := Z.of_nat (length (filter (fun d => d) ds)) in
      (* | k/n - r | <= tol/256   <=>   | 256 k ONE - 256 n R | <= tol n ONE *)
      let lhs := (256 * k * ONE - 256 * n * scaled false m e)%Z in
      ((Z.abs lhs <=? tol * n * ONE)%Z || (ONE <? scaled false m e)%Z)
  | _ => true
  end.

(** ** Span contexts as observed. *)
Record octx := { o_tid : bytes; o_sid : bytes; o_flags : N; o_ts : bytes; o_remote : bool }.

Definition zero (b : bytes) : bool := forallb (fun x => x =? 0) b.
Definition valid_tid (t : bytes) : bool := Nat.eqb (length t) 16 && negb (zero t).
Definition valid_sid (s : bytes) : bool := Nat.eqb (length s) 8 && negb (zero s).
Definition octx_valid (c : octx) : bool := valid_tid (o_tid c) && valid_sid (o_sid c).
Definition sampled_flag (f : N) : bool := N.odd f.

(** What the sampler answered: 0 Drop, 1 RecordOnly, 2 RecordAndSample; a custom sampler may answer a
    value outside the three (3..255): it is not record-and-sample, so the flag must stay clear and the span
    must not be exported; whether such a span records is left to the code (it does not). *)
Definition D_DROP : N := 0.
Definition D_RECORD : N := 1.
Definition D_SAMPLE : N := 2.

(** One Start.  [parent]: the span context in the context handed to Start (the
    zero context if none, or if a new root was demanded); [gen_t], [gen_s]: what
    the ID generator returned for this Start; [d], [ts]: decision and tracestate the
    sampler answered; [stock]: the provider's sampler is built from the SDK's own
    samplers only (no user sampler that could supply another tracestate);
    observed: the span's context [c], IsRecording, whether the ended span reached
    the exporter. *)
Definition start_ok (stock : bool) (parent : octx) (gen_t gen_s : bytes) (d : N) (ts : bytes)
           (c : octx) (recording exported : bool) : bool :=
  (* identity *)
  bytes_eqb (o_sid c) gen_s &&
  bytes_eqb (o_tid c) (if negb (zero (o_tid parent)) then o_tid parent else gen_t) &&
  negb (o_remote c) &&
  (* decision <-> flag, recording, export; other flag bits of the parent preserved *)
  Bool.eqb (sampled_flag (o_flags c)) (d =? D_SAMPLE) &&
  (o_flags c / 2 =? o_flags parent / 2) &&
  (if d <=? D_SAMPLE then Bool.eqb recording (negb (d =? D_DROP)) else true) &&
  Bool.eqb exported (sampled_flag (o_flags c)) &&
  (* tracestate: what the sampler answered; the parent's - for EVERY decision, dropped
     spans included: their context is what travels downstream - unless a user sampler supplied another *)
  bytes_eqb (o_ts c) ts &&
  implb stock (bytes_eqb (o_ts c) (o_ts parent)).

(** Validity and connectedness given a generator that returns valid ids. *)
Definition ids_ok (parent : octx) (gen_t gen_s : bytes) (c : octx) : bool :=
  implb (valid_sid gen_s && (valid_tid gen_t || valid_tid (o_tid parent))) (octx_valid c).

(** ** ParentBased: which delegate answers.  0 root, 1 remote sampled, 2 remote
    not sampled, 3 local sampled, 4 local not sampled. *)
Definition pick_index (parent : octx) : N :=
  if negb (zero (o_tid parent)) && negb (zero (o_sid parent)) then
    if o_remote parent then (if sampled_flag (o_flags parent) then 1 else 2)
    else (if sampled_flag (o_flags parent) then 3 else 4)
  else 0.

Definition pick {A} (parent : octx) (root rs rns ls lns : A) : A :=
  match pick_index parent with
  | 1 => rs | 2 => rns | 3 => ls | 4 => lns | _ => root
  end.

(** Options of ParentBased: each names a delegate (1..4) and a sampler; for every delegate the LAST
    option naming it counts, whatever else stands between; a delegate no option names keeps its default. *)
Definition effective {A} (k : N) (opts : list (N * A)) (dflt : A) : A :=
  match find (fun o => fst o =? k) (rev opts) with
  | Some o => snd o
  | None => dflt
  end.

(** The default parent-based sampler gives a child the decision of its parent. *)
Definition default_parent_decision (parent : octx) : option N :=
  if negb (zero (o_tid parent)) && negb (zero (o_sid parent))
  then Some (if sampled_flag (o_flags parent) then D_SAMPLE else D_DROP)
  else None.   (* no parent: the root sampler decides *)

(** The ratio sampler decides by the trace id alone: wherever TraceIDRatioBased answers (used
    directly or as any ParentBased delegate), its decision [d] for a span equals [ref], its decision
    for the same trace id asked without any parent - whatever the parent's flags or remoteness - and
    is Drop or RecordAndSample. *)
Definition parent_independent (d : N) (ref : bool) : bool :=
  Bool.eqb (d =? D_SAMPLE) ref && ((d =? D_SAMPLE) || (d =? D_DROP)).

(** ** Uniqueness relative to the generator *)
Fixpoint distinct (l : list bytes) : bool :=
  match l with
  | [] => true
  | x :: r => negb (existsb (bytes_eqb x) r) && distinct r
  end.
