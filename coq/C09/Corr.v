(** C09 correspondence: evaluates model and spec on what the Go harness observed
    from the implementation (generated case files import this). *)
From Verif Require Import Lib.Base Lib.Float64Bits C09.Model C09.Spec.
Open Scope N_scope.

(** What was observed of one started span: its SpanContext, IsRecording, and -
    when the provider's sampler could be wrapped by a recorder - the decision
    (0/1/2) and tracestate the sampler answered and the ParentBased delegates asked. *)
Record span_obs := {
  so_ctx : octx;
  so_recording : bool;
  so_answer : option (N * bytes * list N);
  so_ref : option bool    (* when a TraceIDRatioBased delegate answered: its answer for the same trace id without a parent *)
}.

Inductive case :=
(** TraceIDRatioBased(r1) and (r2) asked about one trace id; t' is another trace id (different high
    half, ignored low bit flipped or not), d1' the answer of r1 for it *)
| CRatio (r1 r2 : N) (t : bytes) (d1 d2 : bool) (t' : bytes) (d1' : bool)
(** one ratio, a sample of trace ids *)
| CShare (r : N) (ts : list bytes) (ds : list bool)
(** a program on a provider with sampler [s], an ID generator answering [gens]
    in order, a simple and a batch processor: spans, exporter contents (span ids, in
    order, after ending every span in start order), generator call log (NewIDs?, trace id argument);
    wa: the sampler was wrapped by recorders (answers observed) - otherwise it was built plainly, ParentBased with
    its options in any order, defaults omitted, overridden duplicates *)
| CProg (wa : bool) (s : sampler) (gens : list (bytes * bytes)) (ops : list start_op)
        (obs : list span_obs) (exp_simple exp_batch : list bytes) (calls : list (bool * bytes))
(** the same on a provider configured only by OTEL_TRACES_SAMPLER[_ARG]
    (arg: unset / set but unparsable / parsed bits); err: an error reached the global error handler
    while the provider was built *)
| CEnv (raw : option bytes) (arg : option (option N)) (err : bool) (gens : list (bytes * bytes)) (ops : list start_op)
       (obs : list span_obs) (exp_simple exp_batch : list bytes) (calls : list (bool * bytes))
(** a program on a provider whose ID generator is the stock randomIDGenerator over a scripted
    rand.Source answering [words] and then [fill] for ever; consumed: Int63 calls made on the source *)
| CStock (words : list N) (fill : N) (s : sampler) (ops : list start_op)
         (obs : list span_obs) (exp_simple exp_batch : list bytes) (consumed : N)
(** span ids of all spans and trace ids of all roots started on several TracerProviders with the
    DEFAULT ID generator in one process, interleaved *)
| CUnique (sids tids : list bytes).

Definition flag (b : bool) (code : N) : list N := if b then [] else [code].

Definition octx_of (c : spanctx) : octx :=
  {| o_tid := tid c; o_sid := sid c; o_flags := flags c; o_ts := tstate c; o_remote := remote c |}.
Definition octx_eqb (a b : octx) : bool :=
  bytes_eqb (o_tid a) (o_tid b) && bytes_eqb (o_sid a) (o_sid b) && (o_flags a =? o_flags b) &&
  bytes_eqb (o_ts a) (o_ts b) && Bool.eqb (o_remote a) (o_remote b).

Definition code (d : decision) : N :=
  match d with Drop => D_DROP | RecordOnly => D_RECORD | RecordAndSample => D_SAMPLE | DOther k => 3 + k end.

Definition gen_of (gens : list (bytes * bytes)) (k : nat) : bytes * bytes := nth k gens ([], []).

(** *** model vs observation *)
Definition span_matches (with_answer : bool) (sp : span) (o : span_obs) : bool :=
  octx_eqb (octx_of (sc sp)) (so_ctx o) && Bool.eqb (recording sp) (so_recording o) &&
  match so_answer o with
  | Some (d, ts, p) => (code (dec (sres sp)) =? d) && bytes_eqb (rts (sres sp)) ts && list_eqb N.eqb (path (sres sp)) p
  | None => negb with_answer
  end.

Fixpoint forall2b {A B} (f : A -> B -> bool) (a : list A) (b : list B) : bool :=
  match a, b with
  | [], [] => true
  | x :: a', y :: b' => f x y && forall2b f a' b'
  | _, _ => false
  end.

Definition call_eqb (a b : bool * bytes) : bool := Bool.eqb (fst a) (fst b) && bytes_eqb (snd a) (snd b).

Definition model_calls (spans : list span) : list (bool * bytes) :=
  map (fun sp => (asked_ids sp, if asked_ids sp then [] else tid (sc sp))) spans.

Definition prog_mismatch (with_answer : bool) (s : sampler) (gens : list (bytes * bytes)) (ops : list start_op)
           (obs : list span_obs) (e1 e2 : list bytes) (calls : list (bool * bytes)) : bool :=
  let spans := run_prog (gen_of gens) s ops in
  forall2b (span_matches with_answer) spans obs &&
  list_eqb bytes_eqb (exported_ids spans) e1 && list_eqb bytes_eqb (exported_ids spans) e2 &&
  list_eqb call_eqb (model_calls spans) calls.

(** *** spec on observations only *)
Definition parent_obs (obs : list span_obs) (p : parent_ref) : octx :=
  match p with
  | PNone => octx_of zero_sc
  | PSpan i => match nth_error obs i with Some o => so_ctx o | None => octx_of zero_sc end
  | PCtx c => octx_of c
  end.

(** the sampler that answered, following the delegates asked *)
Fixpoint leaf_at (s : sampler) (p : list N) : option sampler :=
  match s, p with
  | SParent root rs rns ls lns, k :: p' =>
      match k with
      | 0 => leaf_at root p' | 1 => leaf_at rs p' | 2 => leaf_at rns p' | 3 => leaf_at ls p' | 4 => leaf_at lns p'
      | _ => None
      end
  | SParent _ _ _ _ _, [] => None
  | _, [] => Some s
  | _, _ :: _ => None
  end.

Definition is_parent_based (s : sampler) : bool := match s with SParent _ _ _ _ _ => true | _ => false end.
Definition is_default_parent_based (s : sampler) : bool :=
  match s with SParent _ SAlways SNever SAlways SNever => true | _ => false end.

(** one Start, judged from the observations: the j-th span, its parent as
    observed, the generator's j-th answer, membership in the exporters. *)
Definition start_spec (s : sampler) (obs : list span_obs) (gens : list (bytes * bytes)) (e1 e2 : list bytes)
           (calls : list (bool * bytes)) (j : nat) (o : start_op) (so : span_obs) : bool :=
  let parent := if newroot o then octx_of zero_sc else parent_obs obs (par o) in
  let g := gen_of gens j in
  let c := so_ctx so in
  (* membership in the exporters identifies the span only when span ids are distinct in this run *)
  let uniq := distinct (map (fun x => o_sid (so_ctx x)) obs) in
  let in1 := if uniq then existsb (bytes_eqb (o_sid c)) e1 else sampled_flag (o_flags c) in
  let in2 := if uniq then existsb (bytes_eqb (o_sid c)) e2 else sampled_flag (o_flags c) in
  Bool.eqb in1 in2 && ids_ok parent (fst g) (snd g) c &&
  (* exactly this generator call: NewIDs iff the parent has no trace id, NewSpanID with the parent's trace id *)
  match nth_error calls j with
  | Some (ids, arg) => Bool.eqb ids (zero (o_tid parent)) && (ids || bytes_eqb arg (o_tid parent))
  | None => false
  end &&
  match so_answer so with
  | Some (d, ts, p) =>
      start_ok (stock s) parent (fst g) (snd g) d ts c (so_recording so) in1 &&
      (* ParentBased asks the delegate the parent's shape selects; default options: the parent's decision *)
      (if is_parent_based s then match p with k :: _ => k =? pick_index parent | [] => false end else true) &&
      (* a ratio sampler that answered did so by the trace id alone *)
      match leaf_at s p with
      | Some (SRatio _) => match so_ref so with Some rf => parent_independent d rf | None => false end
      | _ => true
      end &&
      (if is_default_parent_based s then
         match default_parent_decision parent with Some d' => (d =? d') && bytes_eqb ts (o_ts parent) | None => true end
       else true)
  | None =>
      (* the sampler's answer is not observable: identity and the flag/recording/export coupling *)
      bytes_eqb (o_sid c) (snd g) &&
      bytes_eqb (o_tid c) (if negb (zero (o_tid parent)) then o_tid parent else fst g) &&
      negb (o_remote c) && (o_flags c / 2 =? o_flags parent / 2) &&
      implb (sampled_flag (o_flags c)) (so_recording so) && Bool.eqb in1 (sampled_flag (o_flags c)) &&
      implb (stock s) (bytes_eqb (o_ts c) (o_ts parent)) &&
      (* ParentBased: when the delegate that the parent's shape selects answers a constant, flag and recording follow it *)
      match s with
      | SParent root rs rns ls lns =>
          match pick parent root rs rns ls lns with
          | SAlways => sampled_flag (o_flags c) && so_recording so
          | SNever => negb (sampled_flag (o_flags c)) && negb (so_recording so)
          | SCustom d _ => Bool.eqb (sampled_flag (o_flags c)) (code d =? D_SAMPLE) &&
                           (if code d <=? D_SAMPLE then Bool.eqb (so_recording so) (negb (code d =? D_DROP)) else true)
          | _ => true
          end
      | _ => true
      end
  end.

Fixpoint starts_spec (s : sampler) (obs : list span_obs) (gens : list (bytes * bytes)) (e1 e2 : list bytes)
         (calls : list (bool * bytes)) (j : nat) (ops : list start_op) (rest : list span_obs) : bool :=
  match ops, rest with
  | [], [] => true
  | o :: ops', so :: rest' =>
      start_spec s obs gens e1 e2 calls j o so && starts_spec s obs gens e1 e2 calls (S j) ops' rest'
  | _, _ => false
  end.

Definition count_sampled (obs : list span_obs) : nat :=
  length (filter (fun so => sampled_flag (o_flags (so_ctx so))) obs).

Definition prog_spec (s : sampler) (gens : list (bytes * bytes)) (ops : list start_op)
           (obs : list span_obs) (e1 e2 : list bytes) (calls : list (bool * bytes)) : bool :=
  starts_spec s obs gens e1 e2 calls 0 ops obs &&
  Nat.eqb (length calls) (length ops) &&
  (* nothing but sampled spans in the exporters (ids of this run are distinct when the generator's are) *)
  (if distinct (map snd (firstn (length ops) gens))
   then Nat.eqb (length e1) (count_sampled obs) && Nat.eqb (length e2) (count_sampled obs) &&
        distinct (map (fun so => o_sid (so_ctx so)) obs)
   else true).

(** *** the stock generator *)
Definition STOCK_FUEL : nat := 64.

Definition stock_mismatch (words : list N) (fill : N) (s : sampler) (ops : list start_op)
           (obs : list span_obs) (e1 e2 : list bytes) (consumed : N) : bool :=
  match run_stock (fun k => nth k words fill) STOCK_FUEL s ops [] rinit with
  | None => false
  | Some (spans, st) =>
      forall2b (span_matches true) spans obs &&
      list_eqb bytes_eqb (exported_ids spans) e1 && list_eqb bytes_eqb (exported_ids spans) e2 &&
      (N.of_nat (rk st) =? consumed)
  end.

(** Spec: every started span carries a valid span context (the hand-made parents of these
    programs are valid or absent), plus everything demanded of a Start, with the generator's
    answers read off the spans themselves. *)
Definition stock_spec (s : sampler) (ops : list start_op) (obs : list span_obs) (e1 e2 : list bytes) : bool :=
  let gens := map (fun so => (o_tid (so_ctx so), o_sid (so_ctx so))) obs in
  let calls := map (fun o => let parent := if newroot o then octx_of zero_sc else parent_obs obs (par o) in
                             (zero (o_tid parent), if zero (o_tid parent) then [] else o_tid parent)) ops in
  forallb (fun so => octx_valid (so_ctx so)) obs &&
  starts_spec s obs gens e1 e2 calls 0 ops obs.

Definition SHARE_TOL : Z := 48.   (* 48/256 *)

Definition check_case (c : case) : list N :=
  match c with
  | CRatio r1 r2 t d1 d2 t' d1' =>
      flag (Bool.eqb (ratio_sampled r1 t) d1 && Bool.eqb (ratio_sampled r2 t) d2 &&
            Bool.eqb (ratio_sampled r1 t') d1') V_MISMATCH ++
      (* the decision is a function of the 63 bits [coord] of the trace id alone (c09_ratio_deterministic) *)
      flag (pair_ok r1 r2 d1 d2 && implb (coord t =? coord t') (Bool.eqb d1 d1')) V_SPECFAIL ++
      flag (pair_ok r1 r2 (ratio_sampled r1 t) (ratio_sampled r2 t)) V_MODELSPEC
  | CShare r ts ds =>
      flag (list_eqb Bool.eqb (map (ratio_sampled r) ts) ds) V_MISMATCH ++
      flag (share_sample_ok r ds SHARE_TOL) V_SPECFAIL
  | CProg wa s gens ops obs e1 e2 calls =>
      flag (prog_mismatch wa s gens ops obs e1 e2 calls) V_MISMATCH ++
      flag (prog_spec s gens ops obs e1 e2 calls) V_SPECFAIL
  | CEnv raw arg err gens ops obs e1 e2 calls =>
      let s := provider_sampler raw arg in
      flag (prog_mismatch false s gens ops obs e1 e2 calls && Bool.eqb (env_error raw arg) err) V_MISMATCH ++
      (* a rejected configuration falls back to sampling every root (c09_env_sampler) *)
      flag (prog_spec s gens ops obs e1 e2 calls &&
            (if err then forall2b (fun o so => implb (zero (o_tid (if newroot o then octx_of zero_sc else parent_obs obs (par o))))
                                                    (sampled_flag (o_flags (so_ctx so)))) ops obs
             else true)) V_SPECFAIL
  | CStock words fill s ops obs e1 e2 consumed =>
      flag (stock_mismatch words fill s ops obs e1 e2 consumed) V_MISMATCH ++
      flag (stock_spec s ops obs e1 e2) V_SPECFAIL
  | CUnique sids tids =>
      flag (forallb valid_sid sids && forallb valid_tid tids && distinct sids && distinct tids) V_SPECFAIL
  end.

Definition run (cs : list case) : list (N * N) := index_from 0 check_case cs.
