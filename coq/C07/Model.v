(** C07 model: executable Gallina mirror of
      sdk/metric/internal/aggregate/histogram.go            (histValues.measure, buckets.bin/sum)
      sdk/metric/internal/aggregate/exponential_histogram.go (record, getBin, scaleChange,
                                                              expoBuckets.record/downscale)
      sdk/metric/aggregation.go                             (err() of both histogram aggregations)
    Definitions only.  Numbers are integers in one unit 2^u per data point (see Spec.v):
    u = -1074 for float64 instruments, 0 for int64 instruments. *)
From Coq Require Import ZArith NArith List Lia Bool.
From Verif Require Import Lib.Base Lib.Dyadic.
Import ListNotations.
Open Scope Z_scope.

(** ** Aggregation validation (aggregation.go) *)

(** AggregationExplicitBucketHistogram.err: "i >= j" rejects. *)
Fixpoint bounds_valid (l : list Z) : bool :=
  match l with
  | a :: (b :: _) as r => if b <=? a then false else bounds_valid r
  | _ => true
  end.

(** AggregationBase2ExponentialHistogram.err (with the MaxScale < -10 check of b759449). *)
Definition expo_valid (maxsize maxscale : Z) : bool :=
  if 20 <? maxscale then false
  else if maxscale <? -10 then false
  else if maxsize <=? 0 then false
  else true.

(** ** Explicit-bucket histogram (histogram.go) *)

(** sort.SearchFloat64s(bounds, v): the smallest index i with bounds[i] >= v, else len. *)
Fixpoint bucket_index (bounds : list Z) (v : Z) : nat :=
  match bounds with
  | [] => O
  | b :: r => if v <=? b then O else S (bucket_index r v)
  end.

(** newHistValues: "b := slices.Clone(bounds); slices.Sort(b)" -- the aggregator sorts its private
    copy, whatever reached it (a function View is not validated).  Modelled as insertion sort
    (any sort gives the same list). *)
Fixpoint insert_bound (x : Z) (l : list Z) : list Z :=
  match l with
  | [] => [x]
  | y :: r => if x <=? y then x :: l else y :: insert_bound x r
  end.

Fixpoint sort_bounds (l : list Z) : list Z :=
  match l with [] => [] | x :: r => insert_bound x (sort_bounds r) end.

Fixpoint incr_nth (k : nat) (l : list N) : list N :=
  match l with
  | [] => []
  | x :: r => match k with O => (x + 1)%N :: r | S k' => x :: incr_nth k' r end
  end.

Record hist := { h_counts : list N; h_count : N; h_min : Z; h_max : Z; h_total : Z }.

(** newBuckets + "b.min, b.max = value, value". *)
Definition hist_new (bounds : list Z) (v : Z) : hist :=
  {| h_counts := repeat 0%N (S (length bounds)); h_count := 0; h_min := v; h_max := v; h_total := 0 |}.

(** buckets.bin followed by buckets.sum. *)
Definition hist_bin (h : hist) (idx : nat) (v : Z) : hist :=
  {| h_counts := incr_nth idx (h_counts h);
     h_count := h_count h + 1;
     h_min := if v <? h_min h then v else h_min h;
     h_max := if v <? h_min h then h_max h else if h_max h <? v then v else h_max h;
     h_total := h_total h + v |}.

Definition hist_measure (bounds : list Z) (st : option hist) (v : Z) : option hist :=
  let h := match st with Some h => h | None => hist_new bounds v end in
  Some (hist_bin h (bucket_index bounds v) v).

Definition hist_run (bounds : list Z) (vs : list Z) : option hist :=
  fold_left (hist_measure bounds) vs None.

(** newHistogram on an arbitrary configured boundary list. *)
Definition hist_run_cfg (bounds : list Z) (vs : list Z) : option hist :=
  hist_run (sort_bounds bounds) vs.

(** ** Exponential histogram (exponential_histogram.go) *)

Record buckets := { b_start : Z; b_counts : list N }.
Definition b_empty : buckets := {| b_start := 0; b_counts := [] |}.
Definition blen (b : buckets) : Z := Z.of_nat (length (b_counts b)).

(** expoBuckets.record: first bucket / in range / grow to the left / grow to the right. *)
Definition b_record (b : buckets) (bin : Z) : buckets :=
  match b_counts b with
  | [] => {| b_start := bin; b_counts := [1%N] |}
  | _ =>
      let endBin := b_start b + blen b - 1 in
      if (b_start b <=? bin) && (bin <=? endBin) then
        {| b_start := b_start b; b_counts := incr_nth (Z.to_nat (bin - b_start b)) (b_counts b) |}
      else if bin <? b_start b then
        {| b_start := bin;
           b_counts := (1%N :: repeat 0%N (Z.to_nat (b_start b - bin - 1))) ++ b_counts b |}
      else
        {| b_start := b_start b;
           b_counts := b_counts b ++ repeat 0%N (Z.to_nat (bin - endBin - 1)) ++ [1%N] |}
  end.

(** expoBuckets.downscale(delta) merges 2^delta neighbouring bins into one, bins being
    aligned at multiples of 2^delta.  It is modelled as delta successive halvings (merging
    aligned pairs), which is the same function of (startBin, counts). *)
Fixpoint pairsum (l : list N) : list N :=
  match l with
  | a :: b :: r => (a + b)%N :: pairsum r
  | _ => l
  end.

Definition b_halve (b : buckets) : buckets :=
  match b_counts b with
  | [] => {| b_start := Z.shiftr (b_start b) 1; b_counts := [] |}
  | c => {| b_start := Z.shiftr (b_start b) 1;
            b_counts := if Z.odd (b_start b) then pairsum (0%N :: c) else pairsum c |}
  end.

Fixpoint b_downscale (d : nat) (b : buckets) : buckets :=
  match d with O => b | S d' => b_downscale d' (b_halve b) end.

(** scaleChange's loop: shift low/high right until they are less than maxSize apart;
    "count > expoMaxScale-expoMinScale" (= 30) returns at once.  Called with n = 30. *)
Fixpoint sc_loop (n : nat) (low high ms : Z) : Z :=
  if ms <=? high - low then
    match n with
    | O => 1
    | S n' => 1 + sc_loop n' (Z.shiftr low 1) (Z.shiftr high 1) ms
    end
  else 0.

Definition scale_change (ms bin start len : Z) : Z :=
  if len =? 0 then 0
  else if bin <=? start then sc_loop 30 bin (start + len - 1) ms
       else sc_loop 30 start bin ms.

(** getBin for scale <= 0: math.Frexp(m*2^u) = (frac, L+u+1) with L = floor(log2 m), and
    frac = 0.5 exactly when m is a power of two. *)
Definition get_bin_nonpos (s m u : Z) : Z :=
  let L := Z.log2 m in
  let exp := L + u + 1 in
  let correction := if m =? Z.shiftl 1 L then 2 else 1 in
  Z.shiftr (exp - correction) (- s).

Record expo := {
  e_scale : Z; e_pos : buckets; e_neg : buckets;
  e_zero : N; e_count : N;
  e_min : option Z; e_max : option Z; e_sum : Z }.

Section Expo.
  (** [gb s m]: what getBin's math.Log formula returns for magnitude m*2^u at a positive
      scale s.  The formula is not modelled (it is floating-point); theorems that depend on
      it say so, and the correspondence run supplies the certified exact index. *)
  Variable gb : Z -> Z -> Z.
  Variable u : Z.          (* unit exponent of the values *)
  Variable maxsize : Z.
  Variable maxscale : Z.

  Definition get_bin (s m : Z) : Z :=
    if s <=? 0 then get_bin_nonpos s m u else gb s m.

  Definition expo_init : expo :=
    {| e_scale := maxscale; e_pos := b_empty; e_neg := b_empty; e_zero := 0; e_count := 0;
       e_min := None; e_max := None; e_sum := 0 |}.

  (** The first lines of record: count, min, max, sum. *)
  Definition expo_stats (st : expo) (v : Z) : expo :=
    {| e_scale := e_scale st; e_pos := e_pos st; e_neg := e_neg st; e_zero := e_zero st;
       e_count := e_count st + 1;
       e_min := match e_min st with None => Some v | Some x => Some (if v <? x then v else x) end;
       e_max := match e_max st with None => Some v | Some x => Some (if x <? v then v else x) end;
       e_sum := e_sum st + v |}.

  Definition with_zero (st : expo) : expo :=
    {| e_scale := e_scale st; e_pos := e_pos st; e_neg := e_neg st; e_zero := e_zero st + 1;
       e_count := e_count st; e_min := e_min st; e_max := e_max st; e_sum := e_sum st |}.

  Definition with_buckets (st : expo) (s : Z) (p n : buckets) : expo :=
    {| e_scale := s; e_pos := p; e_neg := n; e_zero := e_zero st;
       e_count := e_count st; e_min := e_min st; e_max := e_max st; e_sum := e_sum st |}.

  (** expoHistogramDataPoint.record. *)
  Definition expo_record (st : expo) (v : Z) : expo :=
    let st1 := expo_stats st v in
    if v =? 0 then with_zero st1
    else
      let m := Z.abs v in
      let isneg := v <? 0 in
      let bin := get_bin (e_scale st) m in
      let bk := if isneg then e_neg st else e_pos st in
      let d := scale_change maxsize bin (b_start bk) (blen bk) in
      if 0 <? d then
        if e_scale st - d <? -10 then st1      (* "scale underflow": counted, not bucketed *)
        else
          let s' := e_scale st - d in
          let p' := b_downscale (Z.to_nat d) (e_pos st) in
          let n' := b_downscale (Z.to_nat d) (e_neg st) in
          let bin' := get_bin s' m in
          if isneg then with_buckets st1 s' p' (b_record n' bin')
          else with_buckets st1 s' (b_record p' bin') n'
      else
        if isneg then with_buckets st1 (e_scale st) (e_pos st) (b_record (e_neg st) bin)
        else with_buckets st1 (e_scale st) (b_record (e_pos st) bin) (e_neg st).

  Definition expo_run (vs : list Z) : expo := fold_left expo_record vs expo_init.
End Expo.
