(** C07 correspondence: evaluates model and spec on what the Go harness observed from the
    real implementation (generated case files import this).

    All numbers are brought to the unit 2^-1074: float64 values/boundaries by [fx64] from
    their bit patterns, int64 values by [fx_int].  Verdict codes: 1 model <> implementation,
    2 spec violated by the implementation's observation, 3 spec violated by the model,
    101 known finding F-C07-1 (scale underflow counts without bucketing),
    103 known finding F-C07-3 (math.Log index misplaces an immediate float neighbour of a
    bucket boundary by one bucket),
    104 known finding F-C07-4 (int64 measurements beyond +-2^53 are bucketed by their rounded
    float64 conversion). *)
From Coq Require Import ZArith NArith List Lia Bool.
From Verif Require Import Lib.Base Lib.Dyadic C07.Model C07.Spec C07.Proofs.
Import ListNotations.
Open Scope Z_scope.

(** [NoNum]: a field the data point does not report (Min/Max of a NoMinMax stream, Sum of an
    instrument kind whose sum is not collected); the harness has checked directly that it is absent
    (Extrema undefined / Sum = 0), the judge then skips exactly that field. *)
Inductive num := F (bits : N) | I (z : Z) | NoNum.

Definition num_fx (x : num) : option Z :=
  match x with F b => fx64 b | I z => Some (fx_int z) | NoNum => None end.

Definition is_nonum (x : num) : bool := match x with NoNum => true | _ => false end.

(** Boundaries may be infinite: +-Inf is mapped beyond every finite float64 (|v| < 2^2098). *)
Definition bound_fx (x : num) : option Z :=
  match x with
  | F b => if (f64_exp b =? 2047) && (f64_man b =? 0)
           then Some (if f64_sign b then - Z.shiftl 1 2200 else Z.shiftl 1 2200)
           else fx64 b
  | _ => num_fx x
  end.
Definition zmin_l (l : list Z) : Z := match l with [] => 0 | x :: r => fold_right Z.min x r end.
Definition zmax_l (l : list Z) : Z := match l with [] => 0 | x :: r => fold_right Z.max x r end.
(** Reported extremum, or (when not reported) the true one so that the clause is vacuous. *)
Definition ext_fx (x : num) (dflt : Z) : option Z := if is_nonum x then Some dflt else num_fx x.

Fixpoint all_some {A} (l : list (option A)) : option (list A) :=
  match l with
  | [] => Some []
  | None :: _ => None
  | Some x :: r => match all_some r with Some r' => Some (x :: r') | None => None end
  end.

Definition nums_fx (l : list num) : option (list Z) := all_some (map num_fx l).
Definition bounds_fx (l : list num) : option (list Z) := all_some (map bound_fx l).

(** Observations. *)
Record hobs := { ho_counts : list N; ho_count : N; ho_min : num; ho_max : num; ho_sum : num }.
Record eobs := {
  eo_scale : Z; eo_pos_off : Z; eo_pos : list N; eo_neg_off : Z; eo_neg : list N;
  eo_zero : N; eo_count : N; eo_min : num; eo_max : num; eo_sum : num }.

Inductive case :=
| CBoundsValid (bounds : list num) (accepted : bool)
| CExpoValid (maxsize maxscale : Z) (accepted : bool)
| CExplicit (bounds : list num) (vals : list num) (o : hobs)
| CExplicitRaw (given reported : list num) (vals : list num) (o : hobs)
| CExpo (maxsize maxscale : Z) (vals : list num) (prev_scale : option Z) (o : eobs)
| CExplicitMulti (bounds : list num) (vals : list (num * N)) (o : hobs)
| CExpoMulti (maxsize maxscale : Z) (vals : list (num * N)) (o : eobs)
| CBin (scale : Z) (v : num) (bin : Z)
| CBigInt (v : Z) (bound : num) (counts : list N) (scale : Z) (bin : Z).

Definition flag (b : bool) (code : N) : list N := if b then [] else [code].
Definition nlist_eqb := list_eqb N.eqb.

(** Partial sums of float64 additions are exact when every value is a multiple of 2^-10 and
    the absolute values add up to less than 2^43 (every partial sum is then k*2^-10 with
    |k| < 2^53).  int64 sums are exact below 2^63.  Only then is the sum compared. *)
Definition zabs_sum (l : list Z) : Z := fold_right (fun v a => Z.abs v + a) 0 l.
Definition sum_exact (isint : bool) (vs : list Z) : bool :=
  if isint then zabs_sum vs <? Z.shiftl 1 (63 + 1074)
  else forallb (fun v => Z.shiftl (Z.shiftr v 1064) 1064 =? v) vs && (zabs_sum vs <? Z.shiftl 1 (43 + 1074)).

Definition is_int (x : num) : bool := match x with I _ => true | _ => false end.
Definition vals_int (l : list num) : bool := match l with x :: _ => is_int x | [] => false end.

(** ** Explicit histogram *)
Definition check_explicit_gen (order_ok : list Z -> bool) (bounds vals : list num) (o : hobs) : list N :=
  match bounds_fx bounds, nums_fx vals with
  | Some bz, Some vz =>
  match ext_fx (ho_min o) (zmin_l vz), ext_fx (ho_max o) (zmax_l vz) with
  | Some omin, Some omax =>
      let nomm := is_nonum (ho_min o) in
      let ck := sum_exact (vals_int vals) vz && negb (is_nonum (ho_sum o)) in
      let osum := match num_fx (ho_sum o) with Some s => s | None => 0 end in
      let sum_known := match num_fx (ho_sum o) with Some _ => true | None => false end in
      let p := {| hp_counts := ho_counts o; hp_count := ho_count o; hp_min := omin; hp_max := omax;
                  hp_sum := osum |} in
      flag (match hist_run bz vz with
            | Some h =>
                nlist_eqb (h_counts h) (ho_counts o) && (h_count h =? ho_count o)%N &&
                (nomm || ((h_min h =? omin) && (h_max h =? omax))) &&
                (negb ck || (sum_known && (h_total h =? osum)))
            | None => false
            end) V_MISMATCH ++
      flag (order_ok bz && hist_point_okb ck bz vz p && (negb ck || sum_known)) V_SPECFAIL ++
      flag (match hist_run bz vz with
            | Some h => hist_point_okb true bz vz (hist_to_point h)
            | None => false end) V_MODELSPEC
  | _, _ => [V_MISMATCH]
  end
  | _, _ => [V_MISMATCH]
  end.

Definition check_explicit := check_explicit_gen strictly_increasing.
Definition check_explicit_weak := check_explicit_gen weakly_increasing.

(** Boundaries that reached the aggregator unvalidated (function View): the point must report the
    sorted configured list ([sort_bounds], c07_explicit_any_bounds) and satisfy every clause for it. *)
Definition zlist_eqb := list_eqb Z.eqb.
Definition check_explicit_raw (given reported vals : list num) (o : hobs) : list N :=
  match bounds_fx given, bounds_fx reported with
  | Some gz, Some rz =>
      flag (zlist_eqb (sort_bounds gz) rz) V_MISMATCH ++
      flag (weakly_increasing rz && zlist_eqb (sort_bounds gz) (sort_bounds rz)) V_SPECFAIL ++
      (* every clause, judged against the boundaries the point reports *)
      check_explicit_weak reported vals o
  | _, _ => [V_MISMATCH]
  end.

(** ** Exponential histogram
    ([U], [index2], [idx_table], [gb_of], [spec_bin], [tally_ok], [expo_table], [placed_b] and the
    soundness of the judge, [placed_b_sound], are in Proofs.v part F.) *)
Definition zmin_list (l : list Z) : Z := fold_right Z.min 0 l.
Definition zmax_list (l : list Z) : Z := fold_right Z.max 0 l.
Definition span_fits (ms : Z) (bins : list Z) : bool :=
  match bins with
  | [] => true
  | b :: r => fold_right Z.max b r - fold_right Z.min b r <? ms
  end.

(** "The values of each sign fit into maxsize buckets at scale -10" (decidable form of
    [fits_at_min_scale]); its failure is the classifier of F-C07-1. *)
Definition fits_b (ms : Z) (vz : list Z) : bool :=
  span_fits ms (map (fun m => exact_bin (-10) m U) (posl vz)) &&
  span_fits ms (map (fun m => exact_bin (-10) m U) (negl vz)).

Definition check_expo (ms mxs : Z) (vals : list num) (prev : option Z) (o : eobs) : list N :=
  match nums_fx vals with
  | None => [V_MISMATCH]
  | Some vz =>
  match ext_fx (eo_min o) (zmin_l vz), ext_fx (eo_max o) (zmax_l vz) with
  | Some omin, Some omax =>
      match expo_table mxs vz with
      | None => [V_MISMATCH]      (* enclosure inconclusive even at 320 bits: cannot judge *)
      | Some t =>
          let nomm := is_nonum (eo_min o) in
          let ck := sum_exact (vals_int vals) vz && negb (is_nonum (eo_sum o)) in
          let osum := match num_fx (eo_sum o) with Some s => s | None => 0 end in
          let sum_known := match num_fx (eo_sum o) with Some _ => true | None => false end in
          let st := expo_run (gb_of t) U ms mxs vz in
          let fits := fits_b ms vz in
          let count_clause :=
            (eo_count o =? eo_zero o + nsum (eo_pos o) + nsum (eo_neg o))%N in
          let placed_clause :=
            placed_b t vz
              {| ep_scale := eo_scale o; ep_pos_off := eo_pos_off o; ep_pos := eo_pos o;
                 ep_neg_off := eo_neg_off o; ep_neg := eo_neg o; ep_zero := eo_zero o;
                 ep_count := eo_count o; ep_min := omin; ep_max := omax; ep_sum := osum |} in
          let other_clauses :=
            (eo_count o =? N.of_nat (length vz))%N &&
            is_minb vz omin && is_maxb vz omax && (negb ck || (sum_known && (osum =? zsum vz))) &&
            (-10 <=? eo_scale o) && (eo_scale o <=? mxs) &&
            (match prev with Some ps => eo_scale o <=? ps | None => true end) &&
            (Z.of_nat (length (eo_pos o)) <=? ms) && (Z.of_nat (length (eo_neg o)) <=? ms) in
          flag ((e_scale st =? eo_scale o) &&
                (b_start (e_pos st) =? eo_pos_off o) && nlist_eqb (b_counts (e_pos st)) (eo_pos o) &&
                (b_start (e_neg st) =? eo_neg_off o) && nlist_eqb (b_counts (e_neg st)) (eo_neg o) &&
                (e_zero st =? eo_zero o)%N && (e_count st =? eo_count o)%N &&
                (nomm || (option_eqb Z.eqb (e_min st) (Some omin) && option_eqb Z.eqb (e_max st) (Some omax))) &&
                (negb ck || (sum_known && (e_sum st =? osum)))) V_MISMATCH ++
          flag other_clauses V_SPECFAIL ++
          flag (count_clause && placed_clause) (if fits then V_SPECFAIL else V_KNOWN 1) ++
          flag (negb fits ||
                ((e_count st =? ecount_parts st)%N &&
                 tally_ok t (e_scale st) (posl vz) (b_start (e_pos st)) (b_counts (e_pos st)) &&
                 tally_ok t (e_scale st) (negl vz) (b_start (e_neg st)) (b_counts (e_neg st)) &&
                 (blen (e_pos st) <=? ms) && (blen (e_neg st) <=? ms))) V_MODELSPEC
      end
  | _, _ => [V_MISMATCH]
  end
  end.

(** ** Concurrent recording: a multiset of measurements (value, multiplicity)

    G goroutines record known values into one attribute set; after they have joined, the point (for
    delta explicit histograms: the sum of the points of all racing collections) must be what ANY
    sequential order of the multiset gives.  Every clause used here is order-free: bucket counts,
    count, sum (exact values only), min, max; for the exponential histogram also scale and window,
    which depend only on the set of distinct values when the values fit at scale -10 (the scale is
    the largest one at which both hulls fit, whatever the order). *)
Definition wsum (l : list (Z * N)) : N := fold_right (fun q a => (snd q + a)%N) 0%N l.
Definition wcount (p : Z -> bool) (l : list (Z * N)) : N :=
  fold_right (fun q a => ((if p (fst q) then snd q else 0) + a)%N) 0%N l.
Definition wzsum (l : list (Z * N)) : Z := fold_right (fun q a => fst q * Z.of_N (snd q) + a) 0 l.
Definition wabs (l : list (Z * N)) : Z := fold_right (fun q a => Z.abs (fst q) * Z.of_N (snd q) + a) 0 l.
Definition wsum_exact (isint : bool) (l : list (Z * N)) : bool :=
  if isint then wabs l <? Z.shiftl 1 (63 + 1074)
  else forallb (fun q => Z.shiftl (Z.shiftr (fst q) 1064) 1064 =? fst q) l && (wabs l <? Z.shiftl 1 (43 + 1074)).

Fixpoint pairs_fx (l : list (num * N)) : option (list (Z * N)) :=
  match l with
  | [] => Some []
  | (x, m) :: r => match num_fx x, pairs_fx r with
                   | Some z, Some r' => Some ((z, m) :: r')
                   | _, _ => None
                   end
  end.

Definition check_explicit_multi (bounds : list num) (vals : list (num * N)) (o : hobs) : list N :=
  match bounds_fx bounds, pairs_fx vals, num_fx (ho_min o), num_fx (ho_max o), num_fx (ho_sum o) with
  | Some bz, Some pz, Some omin, Some omax, Some osum =>
      let vz := map fst pz in
      let ck := wsum_exact (vals_int (map fst vals)) pz in
      let ks := nat_upto (S (length bz)) in
      flag (nlist_eqb (ho_counts o) (map (fun k => wcount (fun v => (bucket_index bz v =? k)%nat) pz) ks) &&
            (ho_count o =? wsum pz)%N && (omin =? zmin_l vz) && (omax =? zmax_l vz) &&
            (negb ck || (osum =? wzsum pz))) V_MISMATCH ++
      flag (strictly_increasing bz && forallb (fun q => (0 <? snd q)%N) pz &&
            (length (ho_counts o) =? S (length bz))%nat && (nsum (ho_counts o) =? ho_count o)%N &&
            (ho_count o =? wsum pz)%N &&
            forallb (fun k => N.eqb (nth k (ho_counts o) 0%N) (wcount (in_explicit_bucketb bz k) pz)) ks &&
            is_minb vz omin && is_maxb vz omax && (negb ck || (osum =? wzsum pz))) V_SPECFAIL
  | _, _, _, _, _ => [V_MISMATCH]
  end.

Definition wtally_ok (t : list (Z * Z)) (s : Z) (sel : Z -> bool) (mag : Z -> Z) (pz : list (Z * N))
                     (off : Z) (counts : list N) : bool :=
  (nsum counts =? wcount sel pz)%N &&
  forallb (fun k => N.eqb (nth k counts 0%N)
                          (wcount (fun v => sel v && (spec_bin t s (mag v) =? off + Z.of_nat k)) pz))
          (nat_upto (length counts)).

Definition check_expo_multi (ms mxs : Z) (vals : list (num * N)) (o : eobs) : list N :=
  match pairs_fx vals, num_fx (eo_min o), num_fx (eo_max o), num_fx (eo_sum o) with
  | Some pz, Some omin, Some omax, Some osum =>
      let vz := map fst pz in
      match expo_table mxs vz with
      | None => [V_MISMATCH]
      | Some t =>
          if negb (fits_b ms vz) then [V_MISMATCH]   (* order-free only when nothing underflows: harness keeps MaxSize >= 3 *)
          else
          let ck := wsum_exact (vals_int (map fst vals)) pz in
          let st := expo_run (gb_of t) U ms mxs vz in
          flag ((e_scale st =? eo_scale o) &&
                (b_start (e_pos st) =? eo_pos_off o) && (blen (e_pos st) =? Z.of_nat (length (eo_pos o))) &&
                (b_start (e_neg st) =? eo_neg_off o) && (blen (e_neg st) =? Z.of_nat (length (eo_neg o)))) V_MISMATCH ++
          flag (forallb (fun q => (0 <? snd q)%N) pz &&
                (eo_count o =? wsum pz)%N && (eo_zero o =? wcount (Z.eqb 0) pz)%N &&
                (eo_count o =? eo_zero o + nsum (eo_pos o) + nsum (eo_neg o))%N &&
                wtally_ok t (eo_scale o) (fun v => 0 <? v) (fun v => v) pz (eo_pos_off o) (eo_pos o) &&
                wtally_ok t (eo_scale o) (fun v => v <? 0) Z.opp pz (eo_neg_off o) (eo_neg o) &&
                (-10 <=? eo_scale o) && (eo_scale o <=? mxs) &&
                (Z.of_nat (length (eo_pos o)) <=? ms) && (Z.of_nat (length (eo_neg o)) <=? ms) &&
                is_minb vz omin && is_maxb vz omax && (negb ck || (osum =? wzsum pz))) V_SPECFAIL
      end
  | _, _, _, _ => [V_MISMATCH]
  end.

(** ** Single-value bucket probes (one value recorded at MaxScale = scale: Offset = bin) *)

(** Immediate float64 neighbours of a positive finite float64, in the fixed-point unit. *)
Definition f64_ulp (m : Z) : Z := let L := Z.log2 m in if 52 <? L then Z.shiftl 1 (L - 52) else 1.
Definition f64_succ (m : Z) : Z := m + f64_ulp m.
Definition f64_pred (m : Z) : Z :=
  let L := Z.log2 m in
  if (m =? Z.shiftl 1 L) && (53 <? L) then m - Z.shiftl 1 (L - 53) else m - f64_ulp m.

Definition check_bin_case (s : Z) (v : num) (bin : Z) : list N :=
  match num_fx v with
  | Some m =>
      if m <=? 0 then [V_MISMATCH]
      else if s <=? 0 then
        flag (get_bin_nonpos s m U =? bin) V_MISMATCH ++
        flag (in_bucketb s m U bin) V_SPECFAIL ++
        flag (in_bucketb s m U (get_bin_nonpos s m U)) V_MODELSPEC
      else
        match index2 (Z.to_nat s) m with
        | None => [V_MISMATCH]
        | Some j =>
            if bin =? j then []
            else
              (* F-C07-3: off by exactly one, and the adjacent float on that side really
                 belongs to the bucket the code chose *)
              let below := (bin =? j - 1) &&
                           match index2 (Z.to_nat s) (f64_pred m) with Some k => k =? j - 1 | None => false end in
              let above := (bin =? j + 1) &&
                           match index2 (Z.to_nat s) (f64_succ m) with Some k => k =? j + 1 | None => false end in
              if below || above then [V_KNOWN 3] else [V_SPECFAIL]
        end
  | None => [V_MISMATCH]
  end.

(** One int64 value beyond +-2^53, alone in an explicit histogram with one boundary and alone
    in an exponential histogram at MaxScale = scale <= 0.  The code buckets float64(v). *)
Definition check_bigint (v : Z) (bound : num) (counts : list N) (s bin : Z) : list N :=
  match num_fx bound with
  | Some b =>
      let r := round_int_f64 v in
      let counts_for (x : Z) := if fx_int x <=? b then [1%N; 0%N] else [0%N; 1%N] in
      let bin_for (x : Z) := exact_bin s (fx_int (Z.abs x)) U in
      let model_ok := nlist_eqb counts (counts_for r) &&
                      ((v =? 0) || (bin =? get_bin_nonpos s (fx_int (Z.abs r)) U)) in
      let spec_ok := nlist_eqb counts (counts_for v) && ((v =? 0) || (bin =? bin_for v)) in
      flag ((s <=? 0) && model_ok) V_MISMATCH ++
      flag spec_ok
        (* F-C07-4: the observation is exactly what the exact rules give for float64(v) <> v *)
        (if negb (r =? v) && nlist_eqb counts (counts_for r) && ((v =? 0) || (bin =? bin_for r))
         then V_KNOWN 4 else V_SPECFAIL)
  | None => [V_MISMATCH]
  end.

Definition check_case (c : case) : list N :=
  match c with
  | CBoundsValid bounds accepted =>
      match bounds_fx bounds with
      | Some bz => flag (Bool.eqb (bounds_valid bz) accepted) V_MISMATCH ++
                   flag (Bool.eqb (strictly_increasing bz) accepted) V_SPECFAIL
      | None => [V_MISMATCH]
      end
  | CExpoValid ms mxs accepted =>
      flag (Bool.eqb (expo_valid ms mxs) accepted) V_MISMATCH ++
      flag (Bool.eqb (expo_config_ok ms mxs) accepted) V_SPECFAIL
  | CExplicit bounds vals o => check_explicit bounds vals o
  | CExplicitRaw given reported vals o => check_explicit_raw given reported vals o
  | CExpo ms mxs vals prev o => check_expo ms mxs vals prev o
  | CExplicitMulti bounds vals o => check_explicit_multi bounds vals o
  | CExpoMulti ms mxs vals o => check_expo_multi ms mxs vals o
  | CBin s v bin => check_bin_case s v bin
  | CBigInt v bound counts s bin => check_bigint v bound counts s bin
  end.

Definition run (cs : list case) : list (N * N) := index_from 0%N check_case cs.
